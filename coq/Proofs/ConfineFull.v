(* C04: the full loaders - object tags rejected for every suffix, instantiating constructors only on unsafe classes, call-graph closure *)
From Coq Require Import List String Ascii Bool Arith.
Import ListNotations.
Require Import Registry GenHistory CallGraph GenCalls Dispatch Confinement ConfineLemmas.
Open Scope string_scope.

Definition full_loader_classes : list cls := ["FullLoader"; "CFullLoader"].
Definition full_tables_ok (c : cls) : bool :=
  forallb (fun p => keys_avoid_prefix p (effective w0 c KCtor) && multi_incomparable p (effective w0 c KMultiCtor)) object_prefixes &&
  (match lookup None (effective w0 c KMultiCtor) with None => true | Some _ => false end &&
   match lookup None (effective w0 c KCtor) with Some m => String.eqb m UNDEF | None => false end).
Lemma full_tables_all_ok : forallb full_tables_ok full_loader_classes = true.
Proof. vm_compute. reflexivity. Qed.
Lemma full_tables_spec c : full_tables_ok c = true ->
  (forall p, In p object_prefixes -> keys_avoid_prefix p (effective w0 c KCtor) = true /\ multi_incomparable p (effective w0 c KMultiCtor) = true) /\
  lookup None (effective w0 c KMultiCtor) = None /\ lookup None (effective w0 c KCtor) = Some UNDEF.
Proof.
  unfold full_tables_ok. intros H. apply andb_prop in H as [H1 H]. apply andb_prop in H as [H2 H3]. split; [|split].
  - intros p Hp. pose proof (proj1 (forallb_forall _ _) H1 p Hp) as Hq. cbv beta in Hq. apply andb_prop in Hq. exact Hq.
  - destruct (lookup None (effective w0 c KMultiCtor)); [discriminate|reflexivity].
  - destruct (lookup None (effective w0 c KCtor)) as [m|]; [|discriminate]. apply String.eqb_eq in H3. subst. reflexivity.
Qed.
Lemma l_object_tags_rejected : forall c p suffix kd, In c full_loader_classes -> In p object_prefixes ->
  dispatch_of w0 c (p ++ suffix) kd = UNDEF.
Proof.
  intros c p suffix kd Hc Hp.
  pose proof (proj1 (forallb_forall full_tables_ok _) full_tables_all_ok c Hc) as Hok.
  destruct (full_tables_spec c Hok) as (H1 & H2 & H3). destruct (H1 p Hp) as [Ha Hb].
  unfold dispatch_of, dispatch.
  rewrite (lookup_prefixed_none p suffix _ Ha). rewrite (multi_scan_prefixed_none p suffix _ Hb). rewrite H2, H3. reflexivity.
Qed.

(* the four instantiating multi-constructors are registered exactly on the unsafe classes *)
Definition has_instantiating (c : cls) : bool :=
  existsb (fun m => in_s m instantiating_multi) (List.concat (map snd (effective w0 c KMultiCtor))).
Definition unsafe_classes : list cls := ["UnsafeConstructor"; "Constructor"; "UnsafeLoader"; "Loader"; "CUnsafeLoader"; "CLoader"].
Lemma l_unsafe_only_on_unsafe : forallb (fun c => Bool.eqb (has_instantiating c) (in_s c unsafe_classes)) shipped_classes = true.
Proof. vm_compute. reflexivity. Qed.

Definition full_closure_ok (c : cls) : bool := confined full_leaf_ok full_method_ok (reach w0 methods c false).
Lemma l_full_closure_confined : forallb full_closure_ok full_loader_classes = true.
Proof. vm_compute. reflexivity. Qed.
