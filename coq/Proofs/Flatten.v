(* C14: what flatten_mapping (the in-place model of constructor.py:180-213) does to a mapping node. *)
From Coq Require Import List NArith ZArith Bool Arith Lia.
Import ListNotations.
Require Import Scan Parse Construct.

(* the inner loop of flatten, named (convertible with the anonymous fix) *)
Section Loop.
Variables (fl : nat -> K unit) (id : nat).
Fixpoint feach (l : list nat) (acc : list (list (nat * nat))) : K (list (list (nat * nat))) :=
  match l with
  | [] => kret acc
  | x :: l1 => xn <== get_node x ;;
               match n_kind xn with
               | NMap _ => _ <== fl x ;; xn1 <== get_node x ;; feach l1 (acc ++ [map_items xn1])
               | _ => kfail 1 end
  end.
Fixpoint floop (fuel1 : nat) (index : nat) (merge : list (nat * nat)) : K unit :=
       match fuel1 with O => kfuel | S f1 =>
         n <== get_node id ;;
         let cur := map_items n in
         match nth_error cur index with
         | None => match merge with [] => kret tt | _ => update_node id (with_items n (merge ++ cur)) end
         | Some (k, v) =>
           kn <== get_node k ;;
           if str_eqb (n_tag kn) t_merge then
             _ <== update_node id (with_items n (firstn index cur ++ skipn (S index) cur)) ;;
             vn <== get_node v ;;
             match n_kind vn with
             | NMap _ => _ <== fl v ;; vn1 <== get_node v ;; floop f1 index (merge ++ map_items vn1)
             | NSeq subs =>
                 sub <== feach subs [] ;;
                 floop f1 index (merge ++ concat (rev sub))
             | NScalar _ _ => kfail 2
             end
           else if str_eqb (n_tag kn) t_value then _ <== update_node k (retag kn t_str) ;; floop f1 (S index) merge
           else floop f1 (S index) merge
         end
       end.
End Loop.
Lemma flatten_eq f id : flatten (S f) id = floop (flatten f) id (f + f) 0 [].
Proof. reflexivity. Qed.

Definition upd (s : kst) (id : nat) (n' : node) : kst :=
  {| nodes := set_nth id n' (nodes s); hp := hp s; cache := cache s; recursive := recursive s; gens := gens s |}.
Lemma update_node_eq id n' s : update_node id n' s = LOk (tt, upd s id n').
Proof. reflexivity. Qed.
Lemma get_node_eq id s n : nth_error (nodes s) id = Some n -> get_node id s = LOk (n, s).
Proof. intros H. unfold get_node. rewrite H. reflexivity. Qed.

Lemma nth_set_nth_same {A} (l : list A) i x y : nth_error l i = Some y -> nth_error (set_nth i x l) i = Some x.
Proof. revert i. induction l as [|a l IH]; intros [|i]; simpl; try discriminate; auto. Qed.
Lemma nth_set_nth_other {A} (l : list A) i j x : i <> j -> nth_error (set_nth i x l) j = nth_error l j.
Proof. revert i j. induction l as [|a l IH]; intros [|i] [|j] H; simpl; auto; try contradiction; try (apply IH; lia). Qed.
Lemma set_nth_twice {A} (l : list A) i x y : set_nth i x (set_nth i y l) = set_nth i x l.
Proof. revert i. induction l as [|a l IH]; intros [|i]; simpl; auto. rewrite IH. reflexivity. Qed.

(* a key node that is neither a merge key nor a `=` key *)
Definition plain_key (ns : nstore) (k : nat) : Prop :=
  exists kn, nth_error ns k = Some kn /\ str_eqb (n_tag kn) t_merge = false /\ str_eqb (n_tag kn) t_value = false.
Definition plain_items (ns : nstore) (items : list (nat * nat)) : Prop := forall k v, In (k, v) items -> plain_key ns k.
Lemma plain_upd ns id n x k : nth_error ns id = Some n -> plain_key ns k -> plain_key (set_nth id (with_items n x) ns) k.
Proof.
  intros Hn (kn & H1 & H2 & H3). destruct (Nat.eq_dec id k) as [->|Hne].
  - rewrite Hn in H1. injection H1 as <-. exists (with_items n x). split; [eapply nth_set_nth_same; eauto|]. simpl. auto.
  - exists kn. split; [rewrite nth_set_nth_other; auto|auto].
Qed.

Section Facts.
Variable fl : nat -> K unit.
(* one iteration over a plain key *)
Lemma floop_plain_step id f1 index merge s n k v :
  nth_error (nodes s) id = Some n -> nth_error (map_items n) index = Some (k, v) -> plain_key (nodes s) k ->
  floop fl id (S f1) index merge s = floop fl id f1 (S index) merge s.
Proof.
  intros Hn Hi (kn & Hk & H2 & H3). cbn [floop]. unfold kbind at 1. rewrite (get_node_eq _ _ _ Hn). cbv zeta. rewrite Hi.
  unfold kbind at 1. rewrite (get_node_eq _ _ _ Hk). rewrite H2, H3. reflexivity.
Qed.
(* from `index` on every key is plain: the loop runs to the end and writes the merged pairs (if any) in front *)
Lemma floop_plain id : forall fuel1 index merge s n,
  nth_error (nodes s) id = Some n -> (forall j k v, index <= j -> nth_error (map_items n) j = Some (k, v) -> plain_key (nodes s) k) ->
  length (map_items n) - index < fuel1 ->
  floop fl id fuel1 index merge s = match merge with [] => LOk (tt, s) | _ => LOk (tt, upd s id (with_items n (merge ++ map_items n))) end.
Proof.
  induction fuel1 as [|f1 IH]; intros index merge s n Hn Hp Hf; [lia|].
  destruct (nth_error (map_items n) index) as [[k v]|] eqn:Hi.
  - rewrite (floop_plain_step id f1 index merge s n k v Hn Hi (Hp index k v (le_n _) Hi)).
    apply IH; auto.
    + intros j k' v' Hj. apply Hp. lia.
    + assert (index < length (map_items n)) by (apply nth_error_Some; congruence). lia.
  - cbn [floop]. unfold kbind at 1. rewrite (get_node_eq _ _ _ Hn). cbv zeta. rewrite Hi. destruct merge; reflexivity.
Qed.
(* a plain prefix is skipped *)
Lemma floop_skip id : forall pre fuel1 done merge s n post,
  nth_error (nodes s) id = Some n -> map_items n = done ++ pre ++ post -> plain_items (nodes s) pre ->
  floop fl id (length pre + fuel1) (length done) merge s = floop fl id fuel1 (length done + length pre) merge s.
Proof.
  induction pre as [|[k v] pre IH]; intros fuel1 done merge s n post Hn Hm Hp; [simpl; rewrite Nat.add_0_r; reflexivity|].
  assert (Hi : nth_error (map_items n) (length done) = Some (k, v)).
  { rewrite Hm. rewrite nth_error_app2; [|lia]. rewrite Nat.sub_diag. reflexivity. }
  cbn [length plus]. rewrite (floop_plain_step id _ (length done) merge s n k v Hn Hi); [|apply (Hp k v); left; reflexivity].
  replace (length done + S (length pre)) with (length (done ++ [(k, v)]) + length pre) by (rewrite app_length; simpl; lia).
  replace (S (length done)) with (length (done ++ [(k, v)])) by (rewrite app_length; simpl; lia).
  apply IH with (n := n) (post := post); auto.
  - rewrite Hm, <- app_assoc. reflexivity.
  - intros k' v' Hin. apply (Hp k' v'). right. exact Hin.
Qed.
End Facts.

(* a mapping without merge keys and without `=` keys is left exactly as it is (any number of pairs) *)
Theorem flatten_without_merge_is_identity : forall f id s n,
  nth_error (nodes s) id = Some n -> plain_items (nodes s) (map_items n) -> length (map_items n) < f + f ->
  flatten (S f) id s = LOk (tt, s).
Proof.
  intros f id s n Hn Hp Hf. rewrite flatten_eq.
  rewrite (floop_plain (flatten f) id (f + f) 0 [] s n Hn); [reflexivity| |lia].
  intros j k v _ Hj. apply (Hp k v). eapply nth_error_In; eauto.
Qed.

Lemma firstn_app_exact {A} (a b : list A) : firstn (length a) (a ++ b) = a.
Proof. rewrite firstn_app, Nat.sub_diag, firstn_all. simpl. apply app_nil_r. Qed.
Lemma skipn_app_exact {A} (a b : list A) x : skipn (S (length a)) (a ++ x :: b) = b.
Proof. induction a as [|y a IH]; simpl; auto. Qed.

(* ONE merge key whose value is a mapping without merge keys of its own: the merged pairs are placed IN FRONT of the mapping's own
   pairs (so that, inserted later, the own keys win: C14_equal_keys_last_value_wins), the `<<` pair is removed, nothing else moves *)
Theorem flatten_one_merge : forall f' id s n pre k v post kn vn,
  nth_error (nodes s) id = Some n -> map_items n = pre ++ (k, v) :: post ->
  plain_items (nodes s) pre -> plain_items (nodes s) post ->
  nth_error (nodes s) k = Some kn -> str_eqb (n_tag kn) t_merge = true ->
  v <> id -> nth_error (nodes s) v = Some vn -> (exists l, n_kind vn = NMap l) -> plain_items (nodes s) (map_items vn) ->
  length (map_items vn) < f' + f' -> length pre + length post + 2 <= S f' + S f' ->
  flatten (S (S f')) id s = LOk (tt, upd s id (with_items n (map_items vn ++ pre ++ post))).
Proof.
  intros f' id s n pre k v post kn vn Hn Hm Hpre Hpost Hk Hkt Hv Hvn (l & Hl) Hvp Hf1 Hf2.
  rewrite flatten_eq.
  replace (S f' + S f') with (length pre + (S (S f' + S f' - length pre - 1))) by lia.
  rewrite (floop_skip (flatten (S f')) id pre _ [] [] s n ((k, v) :: post) Hn Hm Hpre). cbn [length plus].
  set (fr := S f' + S f' - length pre - 1).
  cbn [floop]. unfold kbind at 1. rewrite (get_node_eq _ _ _ Hn). cbv zeta.
  assert (Hi : nth_error (map_items n) (length pre) = Some (k, v)).
  { rewrite Hm, nth_error_app2, Nat.sub_diag; [reflexivity|lia]. }
  rewrite Hi. unfold kbind at 1. rewrite (get_node_eq _ _ _ Hk). rewrite Hkt.
  unfold kbind at 1. rewrite update_node_eq.
  rewrite Hm, firstn_app_exact, skipn_app_exact.
  set (n1 := with_items n (pre ++ post)). set (s1 := upd s id n1).
  assert (Hv1 : nth_error (nodes s1) v = Some vn) by (unfold s1, upd; cbn [nodes]; rewrite nth_set_nth_other; auto).
  unfold kbind at 1. rewrite (get_node_eq _ _ _ Hv1). rewrite Hl.
  unfold kbind at 1.
  rewrite (flatten_without_merge_is_identity f' v s1 vn Hv1); [| |exact Hf1].
  2:{ intros k' v' Hin. unfold s1, upd, n1. cbn [nodes]. eapply plain_upd; eauto. }
  unfold kbind at 1. rewrite (get_node_eq _ _ _ Hv1). cbn [app].
  assert (Hn1 : nth_error (nodes s1) id = Some n1) by (unfold s1, upd; cbn [nodes]; eapply nth_set_nth_same; eauto).
  match goal with |- floop _ _ ?FR _ _ _ = _ => rewrite (floop_plain (flatten (S f')) id FR (length pre) (map_items vn) s1 n1 Hn1) end.
  - assert (E : forall X, upd s1 id (with_items n1 X) = upd s id (with_items n X)).
    { intros X. unfold s1, upd. cbn [nodes hp cache recursive gens]. rewrite set_nth_twice. reflexivity. }
    destruct (map_items vn) as [|p0 vr] eqn:Ev; [reflexivity|]. rewrite E. reflexivity.
  - intros j k' v' Hj Hnj. unfold n1 in Hnj. cbn [map_items with_items n_kind] in Hnj.
    rewrite nth_error_app2 in Hnj by lia. unfold s1, upd, n1. cbn [nodes]. eapply plain_upd; eauto.
    apply (Hpost k' v'). eapply nth_error_In; eauto.
  - unfold n1. cbn [map_items with_items n_kind]. rewrite app_length. lia.
Qed.

Definition items_at (ns : nstore) (x : nat) : list (nat * nat) := match nth_error ns x with Some n => map_items n | None => [] end.
Definition plain_map_at (ns : nstore) (bound : nat) (x : nat) : Prop :=
  exists xn lx, nth_error ns x = Some xn /\ n_kind xn = NMap lx /\ plain_items ns (map_items xn) /\ length (map_items xn) < bound.

Lemma feach_plain f' : forall l acc s1, (forall x, In x l -> plain_map_at (nodes s1) (f' + f') x) ->
  feach (flatten (S f')) l acc s1 = LOk (acc ++ map (items_at (nodes s1)) l, s1).
Proof.
  induction l as [|x l IH]; intros acc s1 H; cbn [feach map]; [rewrite app_nil_r; reflexivity|].
  destruct (H x (or_introl eq_refl)) as (xn & lx & Hx & Hk & Hp & Hl).
  unfold kbind at 1. rewrite (get_node_eq _ _ _ Hx). rewrite Hk.
  unfold kbind at 1. rewrite (flatten_without_merge_is_identity f' x s1 xn Hx Hp Hl).
  unfold kbind at 1. rewrite (get_node_eq _ _ _ Hx).
  rewrite IH; [|intros y Hy; apply H; right; exact Hy].
  unfold items_at at 2. rewrite Hx. rewrite <- app_assoc. reflexivity.
Qed.

(* ONE merge key whose value is a LIST of mappings (none with merge keys of its own): the pairs of the LAST mapping of the list come
   first, then the earlier ones, then the mapping's own pairs - so, inserted in that order, an earlier source overrides a later one
   and the own keys override all of them *)
Theorem flatten_merge_list : forall f' id s n pre k v post kn vn subs,
  nth_error (nodes s) id = Some n -> map_items n = pre ++ (k, v) :: post ->
  plain_items (nodes s) pre -> plain_items (nodes s) post ->
  nth_error (nodes s) k = Some kn -> str_eqb (n_tag kn) t_merge = true ->
  v <> id -> nth_error (nodes s) v = Some vn -> n_kind vn = NSeq subs -> ~ In id subs ->
  (forall x, In x subs -> plain_map_at (nodes s) (f' + f') x) ->
  length pre + length post + 2 <= S f' + S f' ->
  flatten (S (S f')) id s = LOk (tt, upd s id (with_items n (concat (rev (map (items_at (nodes s)) subs)) ++ pre ++ post))).
Proof.
  intros f' id s n pre k v post kn vn subs Hn Hm Hpre Hpost Hk Hkt Hv Hvn Hl Hnid Hsubs Hf2.
  rewrite flatten_eq.
  replace (S f' + S f') with (length pre + (S (S f' + S f' - length pre - 1))) by lia.
  rewrite (floop_skip (flatten (S f')) id pre _ [] [] s n ((k, v) :: post) Hn Hm Hpre). cbn [length plus].
  cbn [floop]. unfold kbind at 1. rewrite (get_node_eq _ _ _ Hn). cbv zeta.
  assert (Hi : nth_error (map_items n) (length pre) = Some (k, v)).
  { rewrite Hm, nth_error_app2, Nat.sub_diag; [reflexivity|lia]. }
  rewrite Hi. unfold kbind at 1. rewrite (get_node_eq _ _ _ Hk). rewrite Hkt.
  unfold kbind at 1. rewrite update_node_eq.
  rewrite Hm, firstn_app_exact, skipn_app_exact.
  set (n1 := with_items n (pre ++ post)). set (s1 := upd s id n1).
  assert (Hv1 : nth_error (nodes s1) v = Some vn) by (unfold s1, upd; cbn [nodes]; rewrite nth_set_nth_other; auto).
  unfold kbind at 1. rewrite (get_node_eq _ _ _ Hv1). rewrite Hl.
  assert (Hsame : forall x, In x subs -> nth_error (nodes s1) x = nth_error (nodes s) x).
  { intros x Hx. unfold s1, upd. cbn [nodes]. apply nth_set_nth_other. intros ->. contradiction. }
  unfold kbind at 1. rewrite (feach_plain f' subs [] s1).
  2:{ intros x Hx. destruct (Hsubs x Hx) as (xn & lx & H1 & H2 & H3 & H4). exists xn, lx. rewrite (Hsame x Hx).
      repeat split; auto. intros k' v' Hin. unfold s1, upd, n1. cbn [nodes]. eapply plain_upd; eauto. }
  cbn [app].
  assert (Hmap : map (items_at (nodes s1)) subs = map (items_at (nodes s)) subs).
  { apply map_ext_in. intros x Hx. unfold items_at. rewrite (Hsame x Hx). reflexivity. }
  rewrite Hmap.
  assert (Hn1 : nth_error (nodes s1) id = Some n1) by (unfold s1, upd; cbn [nodes]; eapply nth_set_nth_same; eauto).
  match goal with |- floop _ _ ?FR _ ?MG _ = _ => rewrite (floop_plain (flatten (S f')) id FR (length pre) MG s1 n1 Hn1) end.
  - assert (E : forall X, upd s1 id (with_items n1 X) = upd s id (with_items n X)).
    { intros X. unfold s1, upd. cbn [nodes hp cache recursive gens]. rewrite set_nth_twice. reflexivity. }
    destruct (concat (rev (map (items_at (nodes s)) subs))) as [|p0 vr] eqn:Ev; [reflexivity|]. rewrite E. reflexivity.
  - intros j k' v' Hj Hnj. unfold n1 in Hnj. cbn [map_items with_items n_kind] in Hnj.
    rewrite nth_error_app2 in Hnj by lia. unfold s1, upd, n1. cbn [nodes]. eapply plain_upd; eauto.
    apply (Hpost k' v'). eapply nth_error_In; eauto.
  - unfold n1. cbn [map_items with_items n_kind]. rewrite app_length. lia.
Qed.
