(* C01: the safe and base loaders - effective tables, dispatch closure for all tags, call-graph closure *)
From Coq Require Import List String Ascii Bool Arith.
Import ListNotations.
Require Import Registry GenHistory CallGraph GenCalls Dispatch Confinement ConfineLemmas.
Open Scope string_scope.

(* regenerated facts about the effective tables of the safe / base / full classes, as named boolean predicates *)
Definition safe_tables_ok (c : cls) : bool :=
  keys_eqb (keys_of (effective w0 c KCtor)) (map Some core_tags ++ [None]) &&
  (match effective w0 c KMultiCtor with [] => true | _ => false end &&
   match lookup None (effective w0 c KCtor) with Some m => String.eqb m UNDEF | None => false end).
Lemma safe_tables_all_ok : forallb safe_tables_ok safe_loader_classes = true.
Proof. vm_compute. reflexivity. Qed.
Lemma safe_tables_spec c : safe_tables_ok c = true ->
  keys_eqb (keys_of (effective w0 c KCtor)) (map Some core_tags ++ [None]) = true /\
  effective w0 c KMultiCtor = [] /\ lookup None (effective w0 c KCtor) = Some UNDEF.
Proof.
  unfold safe_tables_ok. intros H. apply andb_prop in H as [H1 H]. apply andb_prop in H as [H2 H3].
  split; [exact H1|]. split.
  - destruct (effective w0 c KMultiCtor); [reflexivity|discriminate].
  - destruct (lookup None (effective w0 c KCtor)) as [m|]; [|discriminate]. apply String.eqb_eq in H3. subst. reflexivity.
Qed.

Lemma l_safe_dispatch_closed : forall c tag kd, In c safe_loader_classes -> ~ In tag core_tags -> dispatch_of w0 c tag kd = UNDEF.
Proof.
  intros c tag kd Hc Ht.
  pose proof (proj1 (forallb_forall safe_tables_ok _) safe_tables_all_ok c Hc) as Hok.
  destruct (safe_tables_spec c Hok) as (Hk & Hm & Hn).
  unfold dispatch_of, dispatch. rewrite (lookup_none_keys _ _ _ Hk (not_in_core tag Ht)). rewrite Hm. cbn [multi_scan lookup]. rewrite Hn. reflexivity.
Qed.

Definition base_tables_ok (c : cls) : bool :=
  match effective w0 c KCtor with [] => true | _ => false end && match effective w0 c KMultiCtor with [] => true | _ => false end.
Lemma base_tables_all_ok : forallb base_tables_ok base_loader_classes = true.
Proof. vm_compute. reflexivity. Qed.
Lemma base_tables_spec c : base_tables_ok c = true -> effective w0 c KCtor = [] /\ effective w0 c KMultiCtor = [].
Proof.
  unfold base_tables_ok. intros H. apply andb_prop in H as [H1 H2]. split.
  - destruct (effective w0 c KCtor); [reflexivity|discriminate].
  - destruct (effective w0 c KMultiCtor); [reflexivity|discriminate].
Qed.
Lemma l_base_dispatch_default : forall c tag kd, In c base_loader_classes -> dispatch_of w0 c tag kd = kd.
Proof.
  intros c tag kd Hc. pose proof (proj1 (forallb_forall base_tables_ok _) base_tables_all_ok c Hc) as Hok.
  destruct (base_tables_spec c Hok) as [E1 E2]. unfold dispatch_of. rewrite E1, E2. reflexivity.
Qed.

(* ---------- C04: the full loaders ---------- *)
Definition safe_closure_ok (c : cls) : bool := confined safe_leaf_ok safe_method_ok (reach w0 methods c true).
Lemma l_safe_closure_confined : forallb safe_closure_ok (safe_loader_classes ++ base_loader_classes) = true.
Proof. vm_compute. reflexivity. Qed.
