(* C07: the encoding a byte stream is read in does not depend on how the stream delivers its bytes. *)
From Coq Require Import List NArith Bool Arith Lia.
Import ListNotations.
Require Import Reader.

Definition enc_of (b : list N) : enc :=
  if starts [255;254]%N b then Utf16le else if starts [254;255]%N b then Utf16be else Utf8.
Definition chosen (r : rd) : option enc := match rawb r with RawBytes b => Some (enc_of b) | _ => None end.

Lemma starts2 x y b : starts [x; y] b = starts [x; y] (firstn 2 b).
Proof. destruct b as [|a [|c r]]; reflexivity. Qed.
Lemma enc_of_firstn b : enc_of b = enc_of (firstn 2 b).
Proof. unfold enc_of. rewrite (starts2 255 254 b), (starts2 254 255 b). reflexivity. Qed.
Lemma enc_of_prefix b rest_ : 2 <= length b -> enc_of (b ++ rest_) = enc_of b.
Proof.
  intros H. rewrite (enc_of_firstn (b ++ rest_)), (enc_of_firstn b). f_equal.
  rewrite firstn_app. replace (2 - length b) with 0 by lia. simpl. apply app_nil_r.
Qed.

(* a byte stream whose raw buffer holds `have` and whose stream still holds `left_` *)
Definition bstate (r : rd) (have left_ : list N) : Prop :=
  exists s, strm r = Some s /\ is_text s = false /\ sdata_b s = left_ /\
            (rawb r = RawBytes have \/ (have = [] /\ rawb r = RawNone)).

Lemma update_raw_bytes r have left_ : bstate r have left_ ->
  exists k, bstate (update_raw r) (have ++ firstn k left_) (skipn k left_) /\ 1 <= k /\
            (left_ = [] -> eof (update_raw r) = true) /\ (left_ <> [] -> eof (update_raw r) = eof r).
Proof.
  intros (s & Hs & Ht & Hd & Hr). unfold update_raw. rewrite Hs, Ht.
  set (k := match sizes s with [] => 4096 | k :: _ => Nat.max 1 (Nat.min k 4096) end).
  exists k. assert (Hk : 1 <= k) by (unfold k; destruct (sizes s); lia).
  split; [|split; [exact Hk|]].
  - eexists. cbn [strm upd]. split; [reflexivity|]. cbn [is_text sdata_b]. rewrite Hd. split; [reflexivity|]. split; [reflexivity|].
    left. cbn [rawb upd]. destruct Hr as [->|(-> & ->)]; reflexivity.
  - cbn [eof upd]. rewrite Hd. split.
    + intros ->. destruct k; reflexivity.
    + intros Hne. destruct left_ as [|x l]; [contradiction|]. destruct k; [lia|]. reflexivity.
Qed.

(* the detection loop: it stops with the raw buffer holding a prefix of the data that is either at least two bytes long or all of it *)
Lemma detect_loop_spec : forall fuel r have left_, bstate r have left_ -> length left_ + 2 <= fuel -> eof r = false ->
  exists have', exists left', have ++ left_ = have' ++ left' /\ rawb (detect_loop fuel r) = RawBytes have' /\ (2 <= length have' \/ left' = []).
Proof.
  induction fuel as [|f IH]; intros r have left_ Hb Hf He; [lia|].
  cbn [detect_loop]. rewrite He. cbn [negb andb].
  destruct Hb as (s & Hs & Ht & Hd & Hr).
  assert (Hb : bstate r have left_) by (exists s; auto).
  destruct (match rawb r with RawNone => true | w => Nat.ltb (raw_len w) 2 end) eqn:Hc.
  - destruct (update_raw_bytes r have left_ Hb) as (k & Hb' & Hk & He1 & He2).
    destruct left_ as [|x l].
    + (* the stream is exhausted: one more read sets eof, the loop stops *)
      assert (Heof : eof (update_raw r) = true) by (apply He1; reflexivity).
      destruct Hb' as (s' & Hs' & Ht' & Hd' & Hr').
      destruct f as [|f']; [simpl in Hf; lia|]. cbn [detect_loop]. rewrite Heof. cbn [negb andb].
      exists have, []. split; [reflexivity|]. split; [|right; reflexivity].
      destruct Hr' as [H|(H1 & H2)].
      * rewrite H. destruct k; simpl; rewrite ?app_nil_r; reflexivity.
      * (* have ++ [] = [] with RawNone cannot be: update_raw always leaves RawBytes *)
        exfalso. unfold update_raw in H2. rewrite Hs, Ht in H2. cbn [rawb upd] in H2. destruct (rawb r); discriminate.
    + destruct (IH (update_raw r) (have ++ firstn k (x :: l)) (skipn k (x :: l)) Hb') as (h' & l' & E & R & C).
      * assert (length (skipn k (x :: l)) < length (x :: l)) by (rewrite skipn_length; cbn [length]; lia). cbn [length] in *. lia.
      * rewrite He2 by discriminate. exact He.
      * exists h', l'. split; [|split; auto]. rewrite <- E, <- app_assoc, firstn_skipn. reflexivity.
  - (* already two bytes *)
    destruct Hr as [Hr|(-> & Hr)]; rewrite Hr in Hc; [|discriminate].
    exists have, left_. split; [reflexivity|]. split; [exact Hr|]. left. simpl in Hc. apply Nat.ltb_ge in Hc. exact Hc.
Qed.

(* for EVERY byte sequence and EVERY read schedule: the encoding chosen for the stream is the one chosen for the whole byte string *)
Theorem encoding_detection_independent_of_delivery : forall data szs,
  let s := {| sdata_b := data; sdata_s := []; is_text := false; sizes := szs |} in
  let r0 := upd blank (Some s) 0 false [] 0 RawNone [] in
  chosen (detect_loop (4 + (length data + 0)) r0) = Some (enc_of data).
Proof.
  intros data szs s r0.
  destruct (detect_loop_spec (4 + (length data + 0)) r0 [] data) as (h' & l' & E & R & C).
  - exists s. repeat split; auto.
  - lia.
  - reflexivity.
  - unfold chosen. rewrite R. f_equal. simpl in E. subst data. destruct C as [C| ->].
    + symmetry. apply enc_of_prefix. exact C.
    + rewrite app_nil_r. reflexivity.
Qed.

(* ... which is also the encoding chosen when the same bytes are passed as a bytes object *)
Theorem encoding_stream_equals_bytes : forall data szs,
  let s := {| sdata_b := data; sdata_s := []; is_text := false; sizes := szs |} in
  chosen (detect_loop (4 + (length data + 0)) (upd blank (Some s) 0 false [] 0 RawNone [])) =
  chosen (detect_loop 4 (upd blank None 0 true [] 0 (RawBytes data) [])).
Proof. intros data szs s. etransitivity; [exact (encoding_detection_independent_of_delivery data szs)|]. reflexivity. Qed.
