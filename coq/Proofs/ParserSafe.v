(* C03: the parser model never crashes, for every token list that ends in its only STREAM-END. *)
From Coq Require Import List NArith ZArith Bool Arith Lia.
Import ListNotations.
Require Import Scan ParseL PT.

(* weakest-precondition reading of the parser monad: a YAML error is an acceptable outcome, a crash / fuel exhaustion is not *)
Definition wp {A} (m : P A) (Q : A -> pst -> Prop) (s : pst) : Prop :=
  match m s with Ok (a, s') => Q a s' | ScanErr _ _ _ => True | Crash _ => False | OutOfFuel => False end.

Lemma wp_bind {A B} (m : P A) (k : A -> P B) Q s : wp m (fun a s' => wp (k a) Q s') s -> wp (pbind m k) Q s.
Proof. unfold wp, pbind. destruct (m s) as [[a s']| | |]; auto. Qed.
Lemma wp_ret {A} (a : A) (Q : A -> pst -> Prop) s : Q a s -> wp (pret a) Q s.
Proof. unfold wp, pret. auto. Qed.
Lemma wp_mono {A} (m : P A) (Q R : A -> pst -> Prop) s : wp m Q s -> (forall a s', Q a s' -> R a s') -> wp m R s.
Proof. unfold wp. destruct (m s) as [[a s']| | |]; auto. Qed.
Lemma wp_err {A} c n mk (Q : A -> pst -> Prop) s : wp (perr c n mk) Q s.
Proof. unfold wp, perr. exact Logic.I. Qed.
Lemma wp_get (Q : pst -> pst -> Prop) s : Q s s -> wp pget Q s.
Proof. unfold wp, pget. auto. Qed.

(* the state as a tuple, so that the primitives can be described by what they change *)
Definition mkst tk p stk mk h v : pst := {| toks := tk; pstate_ := p; pstates := stk; pmarks := mk; handles := h; version_ := v |}.

Lemma wp_check f (Q : bool -> pst -> Prop) tk p stk mk h v t r : tk = t :: r -> Q (f (t_kind t)) (mkst tk p stk mk h v) -> wp (check f) Q (mkst tk p stk mk h v).
Proof. intros -> H. unfold wp, check, pbind, peek_token, pret. simpl. exact H. Qed.
Lemma wp_peek_tok (Q : token -> pst -> Prop) tk p stk mk h v t r : tk = t :: r -> Q t (mkst tk p stk mk h v) -> wp peek_tok Q (mkst tk p stk mk h v).
Proof. intros -> H. unfold wp, peek_tok, pbind, peek_token, pret. simpl. exact H. Qed.
Lemma wp_get_tok (Q : token -> pst -> Prop) tk p stk mk h v t r : tk = t :: r -> Q t (mkst r p stk mk h v) -> wp get_tok Q (mkst tk p stk mk h v).
Proof. intros -> H. unfold wp, get_tok, pbind, get_token, pret. simpl. exact H. Qed.
Lemma wp_set_ps x (Q : unit -> pst -> Prop) tk p stk mk h v : Q tt (mkst tk x stk mk h v) -> wp (set_ps x) Q (mkst tk p stk mk h v).
Proof. intros H. unfold wp, set_ps. simpl. exact H. Qed.
Lemma wp_push_ps x (Q : unit -> pst -> Prop) tk p stk mk h v : Q tt (mkst tk p (stk ++ [x]) mk h v) -> wp (push_ps x) Q (mkst tk p stk mk h v).
Proof. intros H. unfold wp, push_ps. simpl. exact H. Qed.
Lemma wp_pop_ps (Q : unit -> pst -> Prop) tk p l x mk h v : Q tt (mkst tk (Some x) (rev l) mk h v) -> wp pop_ps Q (mkst tk p (rev (x :: l)) mk h v).
Proof. intros H. unfold wp, pop_ps. cbn [pstates mkst]. rewrite rev_involutive. exact H. Qed.
Lemma wp_push_mark m (Q : unit -> pst -> Prop) tk p stk mk h v : Q tt (mkst tk p stk (mk ++ [m]) h v) -> wp (push_mark m) Q (mkst tk p stk mk h v).
Proof. intros H. unfold wp, push_mark. simpl. exact H. Qed.
Lemma wp_pop_mark (Q : unit -> pst -> Prop) tk p stk ms m h v : Q tt (mkst tk p stk (rev ms) h v) -> wp pop_mark Q (mkst tk p stk (rev (m :: ms)) h v).
Proof. intros H. unfold wp, pop_mark. cbn [pmarks mkst]. rewrite rev_involutive. exact H. Qed.
Lemma wp_top_mark (Q : mark -> pst -> Prop) tk p stk ms m h v : Q m (mkst tk p stk (rev (m :: ms)) h v) -> wp top_mark Q (mkst tk p stk (rev (m :: ms)) h v).
Proof. intros H. unfold wp, top_mark. cbn [pmarks mkst]. rewrite rev_involutive. exact H. Qed.
Lemma wp_set_handles hs ver (Q : unit -> pst -> Prop) tk p stk mk h v : Q tt (mkst tk p stk mk hs ver) -> wp (set_handles hs ver) Q (mkst tk p stk mk h v).
Proof. intros H. unfold wp, set_handles. simpl. exact H. Qed.

(* ---------- invariant ---------- *)
Definition needs_tok (p : pstate) : bool :=
  match p with PBlockSeqFirst | PBlockMapFirstKey | PFlowSeqFirst | PFlowMapFirstKey | PFlowSeqEntryMapKey => true | _ => false end.
Definition head_live (tk : list token) : Prop := exists t r, tk = t :: r /\ is_se t = false.
Definition cont_state (X : pstate) : bool :=
  match X with PBlockSeqEntry | PIndentlessSeqEntry | PBlockMapValue | PBlockMapKey | PFlowSeqEntry | PFlowSeqEntryMapValue
             | PFlowSeqEntryMapEnd | PFlowMapValue | PFlowMapKey | PFlowMapEmptyValue => true | _ => false end.
(* shape of the stack of states (top first) while inside a document: continuation states above the single PDocEnd *)
Definition inside (l : list pstate) : Prop := exists ys, l = ys ++ [PDocEnd] /\ forallb cont_state ys = true.
(* l: the stack of states, top first; ms: the stack of marks, top first *)
Definition PInv (tk : list token) (p : pstate) (l : list pstate) (ms : list mark) : Prop :=
  toks_ok tk /\ (if outside p then l = [] else inside l) /\
  length ms = w_state p + weight l /\ (needs_tok p = true -> head_live tk) /\
  (p = PStreamStart -> exists t r, tk = t :: r /\ t_kind t = TStreamStart).
Definition Inv2 (s : pst) : Prop :=
  match pstate_ s with None => True | Some p => exists l ms, pstates s = rev l /\ pmarks s = rev ms /\ PInv (toks s) p l ms end.

Lemma inv2_mk tk p l ms h v : PInv tk p l ms -> Inv2 (mkst tk (Some p) (rev l) (rev ms) h v).
Proof. intros H. unfold Inv2. cbn [pstate_ mkst pstates pmarks toks]. exists l, ms. auto. Qed.

Definition pushed (X : pstate) (l0 : list pstate) : Prop :=
  (X = PDocEnd /\ l0 = []) \/ (cont_state X = true /\ inside l0).

Lemma pushed_stack X l0 : pushed X l0 -> inside (X :: l0).
Proof.
  intros [(-> & ->)|(HX & ys & -> & Hn)].
  - exists []. simpl. auto.
  - exists (X :: ys). split; auto. simpl. rewrite HX, Hn. reflexivity.
Qed.
Lemma cont_facts X : cont_state X = true -> outside X = false /\ w_state X = w_stack X /\ needs_tok X = false /\ X <> PStreamStart.
Proof. destruct X; try discriminate; simpl; repeat split; auto; discriminate. Qed.
(* popping the top of a stack that is `inside` *)
Lemma inside_pop l : inside l -> exists X l0, l = X :: l0 /\ pushed X l0.
Proof.
  intros (ys & -> & Hn). destruct ys as [|y ys]; simpl.
  - exists PDocEnd, []. split; auto. left; auto.
  - simpl in Hn. apply andb_prop in Hn as [H1 H2]. exists y, (ys ++ [PDocEnd]). split; auto. right. split; auto. exists ys. auto.
Qed.

(* after popping the continuation X *)
Lemma I_pop tk X l0 ms : toks_ok tk -> pushed X l0 -> length ms = weight (X :: l0) -> PInv tk X l0 ms.
Proof.
  intros Ht Hp Hm. unfold PInv. destruct Hp as [(-> & ->)|(HX & Hin)].
  - simpl. split; [auto|split; [auto|split; [exact Hm|split; intros; discriminate]]].
  - destruct (cont_facts X HX) as (E1 & E2 & E3 & E4). rewrite E1, E2, E3.
    split; [auto|split; [auto|split; [|split; [intros; discriminate|intros; contradiction]]]].
    rewrite Hm. unfold weight. simpl. reflexivity.
Qed.
(* entering a collection: the state is one of the First states and the start token is still at the head *)
Lemma I_first tk p X l0 ms : toks_ok tk -> head_live tk -> pushed X l0 -> length ms = weight (X :: l0) ->
  In p [PIndentlessSeqEntry; PFlowSeqFirst; PFlowMapFirstKey; PBlockSeqFirst; PBlockMapFirstKey] -> PInv tk p (X :: l0) ms.
Proof.
  intros Ht Hh Hp Hm Hin. unfold PInv. split; auto.
  assert (outside p = false /\ w_state p = 0 /\ p <> PStreamStart) as (E1 & E2 & E3)
    by (simpl in Hin; repeat (destruct Hin as [<-|Hin]; [repeat split; try reflexivity; discriminate|]); destruct Hin).
  rewrite E1, E2. split; [apply pushed_stack; auto|]. repeat split; auto. intros; contradiction.
Qed.

Lemma live_tail t r : toks_ok (t :: r) -> is_se t = false -> toks_ok r.
Proof. apply toks_ok_tail. Qed.
Lemma live_next t r : toks_ok (t :: r) -> is_se t = false -> exists t' r', r = t' :: r'.
Proof. intros H1 H2. apply toks_ok_cons. eapply toks_ok_tail; eauto. Qed.
Lemma not_se_of (f : tok -> bool) t : f (t_kind t) = true -> f TStreamEnd = false -> is_se t = false.
Proof. unfold is_se. destruct (t_kind t); intros H1 H2; try reflexivity. congruence. Qed.

(* ---------- parse_node ---------- *)
(* the part of parse_node after the properties have been read (same term as in ParseL.parse_node) *)
Definition node_tail (block indentless : bool) (r : option str * option token * option mark * option mark * option mark) : P event :=
    let '(anchor, tagtok, smark, emark, tmark) := r in
    s <~ pget ;;
    tag <~ (match tagtok with
            | None => pret None
            | Some t =>
                match t_kind t with
                | TTag (Some h) suffix =>
                    match assoc h (handles s) with
                    | Some p => pret (Some (p ++ suffix))
                    | None => perr smark 4 (match tmark with Some m => m | None => t_start t end)
                    end
                | TTag None suffix => pret (Some suffix)
                | _ => pret None
                end
            end) ;;
    nxt <~ (match smark with None => t <~ peek_tok ;; pret (Some (t_start t)) | Some _ => pret None end) ;;
    let start := match smark, nxt with Some m, _ => m | None, Some m => m | None, None => {| m_index := 0; m_line := 0; m_col := 0 |} end in
    let endm := match emark with Some m => m | None => start end in
    let implicit := match tag with None => true | Some t => str_eqb t [33%N] end in
    ble <~ (if indentless then check (is_ TBlockEntry) else pret false) ;;
    if ble then
      t <~ peek_tok ;; set_ps (Some PIndentlessSeqEntry) ;;~
      pret (mk (VSeqStart anchor tag implicit false) start (t_end t))
    else
      sc_ <~ check is_scalar ;;
      if sc_ then
        t <~ get_tok ;; pop_ps ;;~
        match t_kind t with
        | TScalar v plain st_ =>
            let bang := match tag with Some tg => str_eqb tg [33%N] | None => false end in
            let tnone := match tag with None => true | _ => false end in
            let '(i0, i1) := if (plain && tnone) || bang then (true, false) else if tnone then (false, true) else (false, false) in
            pret (mk (VScalar anchor tag i0 i1 v st_) start (t_end t))
        | _ => pcrash end
      else
      fs <~ check (is_ TFlowSeqStart) ;;
      if fs then t <~ peek_tok ;; set_ps (Some PFlowSeqFirst) ;;~ pret (mk (VSeqStart anchor tag implicit true) start (t_end t)) else
      fm <~ check (is_ TFlowMapStart) ;;
      if fm then t <~ peek_tok ;; set_ps (Some PFlowMapFirstKey) ;;~ pret (mk (VMapStart anchor tag implicit true) start (t_end t)) else
      bs <~ (if block then check (is_ TBlockSeqStart) else pret false) ;;
      if bs then t <~ peek_tok ;; set_ps (Some PBlockSeqFirst) ;;~ pret (mk (VSeqStart anchor tag implicit false) start (t_start t)) else
      bm <~ (if block then check (is_ TBlockMapStart) else pret false) ;;
      if bm then t <~ peek_tok ;; set_ps (Some PBlockMapFirstKey) ;;~ pret (mk (VMapStart anchor tag implicit false) start (t_start t)) else
      match anchor, tag with
      | None, None => t <~ peek_tok ;; perr (Some start) (if block then 5 else 6) (t_start t)
      | _, _ => pop_ps ;;~ pret (mk (VScalar anchor tag implicit false [] SPlain) start endm)
      end.

Lemma parse_node_eq block indentless :
  parse_node block indentless =
  (al <~ check is_alias ;;
   if al then
     t <~ get_tok ;; pop_ps ;;~
     pret (mk (match t_kind t with TAlias v => VAlias v | _ => VAlias [] end) (t_start t) (t_end t))
   else
    an <~ check is_anchor ;;
    r <~ (if an then
            t <~ get_tok ;;
            let a := match t_kind t with TAnchor v => Some v | _ => None end in
            tg <~ check is_tag ;;
            if tg then t2 <~ get_tok ;; pret (a, Some t2, Some (t_start t), Some (t_end t2), Some (t_start t2))
            else pret (a, None, Some (t_start t), Some (t_end t), None)
          else
            tg <~ check is_tag ;;
            if tg then
              t <~ get_tok ;;
              an2 <~ check is_anchor ;;
              if an2 then t2 <~ get_tok ;; pret (match t_kind t2 with TAnchor v => Some v | _ => None end, Some t, Some (t_start t), Some (t_end t2), Some (t_start t))
              else pret (None, Some t, Some (t_start t), Some (t_end t), Some (t_start t))
            else pret (None, None, None, None, None)) ;;
    node_tail block indentless r).
Proof. reflexivity. Qed.

Ltac wb := apply wp_bind.
Ltac chk := wb; eapply wp_check; [reflexivity|].
Ltac pk := wb; eapply wp_peek_tok; [reflexivity|].
Ltac gt := wb; eapply wp_get_tok; [reflexivity|].

Definition post (e : event) (s : pst) : Prop := Inv2 s.

Lemma node_tail_safe block indentless r0 tk p X l0 ms h v :
  toks_ok tk -> pushed X l0 -> length ms = weight (X :: l0) ->
  wp (node_tail block indentless r0) post (mkst tk p (rev (X :: l0)) (rev ms) h v).
Proof.
  intros Ht Hp Hm. destruct (toks_ok_cons _ Ht) as (t & r & ->).
  destruct r0 as [[[[anchor tagtok] smark] emark] tmark]. unfold node_tail.
  wb. apply wp_get.
  (* tag resolution: a value or a ParserError *)
  wb. match goal with |- wp ?m _ _ => assert (Htag : forall Q : option str -> pst -> Prop,
        (forall o, Q o (mkst (t :: r) p (rev (X :: l0)) (rev ms) h v)) -> wp m Q (mkst (t :: r) p (rev (X :: l0)) (rev ms) h v)) end.
  { intros Q HQ. destruct tagtok as [tt_|]; [|apply wp_ret; auto].
    destruct (t_kind tt_); try (apply wp_ret; auto).
    destruct handle as [hd|]; [|apply wp_ret; auto].
    cbn [handles mkst]. destruct (assoc hd h); [apply wp_ret; auto|apply wp_err]. }
  apply Htag. intros tag. clear Htag.
  (* start mark *)
  wb. match goal with |- wp ?m _ _ => assert (Hn : forall Q : option mark -> pst -> Prop,
        (forall o, Q o (mkst (t :: r) p (rev (X :: l0)) (rev ms) h v)) -> wp m Q (mkst (t :: r) p (rev (X :: l0)) (rev ms) h v)) end.
  { intros Q HQ. destruct smark; [apply wp_ret; auto|]. pk. apply wp_ret. auto. }
  apply Hn. intros nxt. clear Hn. cbv zeta.
  (* indentless sequence? *)
  wb. match goal with |- wp ?m _ _ => assert (Hb : forall Q : bool -> pst -> Prop,
        (forall b, (b = true -> is_ TBlockEntry (t_kind t) = true) -> Q b (mkst (t :: r) p (rev (X :: l0)) (rev ms) h v)) -> wp m Q (mkst (t :: r) p (rev (X :: l0)) (rev ms) h v)) end.
  { intros Q HQ. destruct indentless; [eapply wp_check; [reflexivity|]; apply HQ; auto|apply wp_ret; apply HQ; discriminate]. }
  apply Hb. intros ble Hble. clear Hb.
  assert (Hlive : forall f : tok -> bool, f (t_kind t) = true -> f TStreamEnd = false -> head_live (t :: r)).
  { intros f H1 H2. exists t, r. split; auto. eapply not_se_of; eauto. }
  destruct ble.
  { pk. wb. apply wp_set_ps. apply wp_ret. unfold post. apply inv2_mk. apply I_first; auto.
    - apply (Hlive (is_ TBlockEntry)); auto.
    - simpl; tauto. }
  chk. destruct (is_scalar (t_kind t)) eqn:Esc.
  { gt. wb. apply wp_pop_ps.
    assert (HI : Inv2 (mkst r (Some X) (rev l0) (rev ms) h v)).
    { apply inv2_mk. apply I_pop; auto. eapply live_tail; eauto. eapply not_se_of; eauto. }
    destruct (t_kind t); try discriminate. cbv zeta.
    repeat match goal with |- context [if ?c then _ else _] => destruct c end; apply wp_ret; exact HI. }
  chk. destruct (is_ TFlowSeqStart (t_kind t)) eqn:Efs.
  { pk. wb. apply wp_set_ps. apply wp_ret. unfold post. apply inv2_mk. apply I_first; auto.
    - apply (Hlive (is_ TFlowSeqStart)); auto.
    - simpl; tauto. }
  chk. destruct (is_ TFlowMapStart (t_kind t)) eqn:Efm.
  { pk. wb. apply wp_set_ps. apply wp_ret. unfold post. apply inv2_mk. apply I_first; auto.
    - apply (Hlive (is_ TFlowMapStart)); auto.
    - simpl; tauto. }
  wb. match goal with |- wp ?m _ _ => assert (Hb : forall Q : bool -> pst -> Prop,
        (forall b, (b = true -> is_ TBlockSeqStart (t_kind t) = true) -> Q b (mkst (t :: r) p (rev (X :: l0)) (rev ms) h v)) -> wp m Q (mkst (t :: r) p (rev (X :: l0)) (rev ms) h v)) end.
  { intros Q HQ. destruct block; [eapply wp_check; [reflexivity|]; apply HQ; auto|apply wp_ret; apply HQ; discriminate]. }
  apply Hb. intros bs Hbs. clear Hb. destruct bs.
  { pk. wb. apply wp_set_ps. apply wp_ret. unfold post. apply inv2_mk. apply I_first; auto.
    - apply (Hlive (is_ TBlockSeqStart)); auto.
    - simpl; tauto. }
  wb. match goal with |- wp ?m _ _ => assert (Hb : forall Q : bool -> pst -> Prop,
        (forall b, (b = true -> is_ TBlockMapStart (t_kind t) = true) -> Q b (mkst (t :: r) p (rev (X :: l0)) (rev ms) h v)) -> wp m Q (mkst (t :: r) p (rev (X :: l0)) (rev ms) h v)) end.
  { intros Q HQ. destruct block; [eapply wp_check; [reflexivity|]; apply HQ; auto|apply wp_ret; apply HQ; discriminate]. }
  apply Hb. intros bm Hbm. clear Hb. destruct bm.
  { pk. wb. apply wp_set_ps. apply wp_ret. unfold post. apply inv2_mk. apply I_first; auto.
    - apply (Hlive (is_ TBlockMapStart)); auto.
    - simpl; tauto. }
  assert (Hpop : wp (pop_ps;;~ pret (mk (VScalar anchor tag match tag with None => true | Some t0 => str_eqb t0 [33%N] end false [] SPlain)
             match smark with Some m => m | None => match nxt with Some m => m | None => {| m_index := 0; m_line := 0; m_col := 0 |} end end
             match emark with Some m => m | None => match smark with Some m => m | None => match nxt with Some m => m | None => {| m_index := 0; m_line := 0; m_col := 0 |} end end end))
             post (mkst (t :: r) p (rev (X :: l0)) (rev ms) h v)).
  { wb. apply wp_pop_ps. apply wp_ret. unfold post. apply inv2_mk. apply I_pop; auto. }
  destruct anchor, tag; try exact Hpop.
  pk. apply wp_err.
Qed.

Lemma parse_node_safe block indentless tk p X l0 ms h v :
  toks_ok tk -> pushed X l0 -> length ms = weight (X :: l0) ->
  wp (parse_node block indentless) post (mkst tk p (rev (X :: l0)) (rev ms) h v).
Proof.
  intros Ht Hp Hm. destruct (toks_ok_cons _ Ht) as (t & r & ->). rewrite parse_node_eq.
  chk. destruct (is_alias (t_kind t)) eqn:Eal.
  { gt. wb. apply wp_pop_ps. apply wp_ret. unfold post. apply inv2_mk. apply I_pop; auto.
    eapply live_tail; eauto. eapply not_se_of; eauto. }
  chk. destruct (is_anchor (t_kind t)) eqn:Ean.
  - (* anchor [tag] *)
    assert (Hr : toks_ok r) by (eapply live_tail; eauto; eapply not_se_of; eauto).
    destruct (toks_ok_cons _ Hr) as (t2 & r2 & ->).
    wb. gt. chk. destruct (is_tag (t_kind t2)) eqn:Etg.
    + gt. apply wp_ret. apply node_tail_safe; auto. eapply live_tail; eauto. eapply not_se_of; eauto.
    + apply wp_ret. apply node_tail_safe; auto.
  - wb. chk. destruct (is_tag (t_kind t)) eqn:Etg.
    + assert (Hr : toks_ok r) by (eapply live_tail; eauto; eapply not_se_of; eauto).
      destruct (toks_ok_cons _ Hr) as (t2 & r2 & ->).
      gt. chk. destruct (is_anchor (t_kind t2)) eqn:Ean2.
      * gt. apply wp_ret. apply node_tail_safe; auto. eapply live_tail; eauto. eapply not_se_of; eauto.
      * apply wp_ret. apply node_tail_safe; auto.
    + apply wp_ret. apply node_tail_safe; auto.
Qed.

(* ---------- reusable endings ---------- *)
Lemma push_parse_node X block ind tk p l ms h v :
  toks_ok tk -> cont_state X = true -> inside l -> length ms = w_stack X + weight l ->
  wp (push_ps X ;;~ parse_node block ind) post (mkst tk p (rev l) (rev ms) h v).
Proof.
  intros Ht HX Hin Hm. wb. apply wp_push_ps. change (rev l ++ [X]) with (rev (X :: l)).
  apply parse_node_safe; auto. right; auto.
Qed.
Lemma set_ret X tk p l ms h v (e : event) : PInv tk X l ms -> wp (set_ps (Some X) ;;~ pret e) post (mkst tk p (rev l) (rev ms) h v).
Proof. intros H. wb. apply wp_set_ps. apply wp_ret. unfold post. apply inv2_mk. exact H. Qed.
Lemma I_cont tk X l ms : toks_ok tk -> cont_state X = true -> inside l -> length ms = w_stack X + weight l -> PInv tk X l ms.
Proof.
  intros Ht HX Hin Hm. destruct (cont_facts X HX) as (E1 & E2 & E3 & E4). unfold PInv. rewrite E1, E2, E3.
  split; [auto|split; [auto|split; [auto|split; [intros; discriminate|intros; contradiction]]]].
Qed.
(* leaving a collection: consume the end token, pop the state and the mark *)
Lemma close_coll tk p l ms m h v t r (k : ev) : tk = t :: r -> toks_ok tk -> is_se t = false -> inside l -> length ms = weight l ->
  wp (t <~ get_tok ;; pop_ps ;;~ pop_mark ;;~ pret (mk k (t_start t) (t_end t))) post (mkst tk p (rev l) (rev (m :: ms)) h v).
Proof.
  intros -> Ht Hs Hin Hm. destruct (inside_pop l Hin) as (X & l0 & -> & Hp).
  gt. wb. apply wp_pop_ps. wb. apply wp_pop_mark. apply wp_ret. unfold post. apply inv2_mk. apply I_pop; auto.
  eapply live_tail; eauto.
Qed.
Lemma pop_ret tk p l ms h v (e : event) : toks_ok tk -> inside l -> length ms = weight l ->
  wp (pop_ps ;;~ pret e) post (mkst tk p (rev l) (rev ms) h v).
Proof.
  intros Ht Hin Hm. destruct (inside_pop l Hin) as (X & l0 & -> & Hp).
  wb. apply wp_pop_ps. apply wp_ret. unfold post. apply inv2_mk. apply I_pop; auto.
Qed.
Lemma any_not_se (f : tok -> bool) t : f (t_kind t) = true -> f TStreamEnd = false -> is_se t = false.
Proof. apply not_se_of. Qed.

(* ====================== the step function, state by state ====================== *)
Lemma outside_nil tk p l ms : PInv tk p l ms -> outside p = true -> l = [] /\ (w_state p = 0 -> ms = []).
Proof. intros (_ & Hs & Hm & _) Ho. rewrite Ho in Hs. subst l. split; auto. intros E. rewrite E in Hm. simpl in Hm. destruct ms; auto; discriminate. Qed.
Lemma I_out tk p : toks_ok tk -> In p [PImplicitDocStart; PDocStart; PDocEnd] -> PInv tk p [] [].
Proof.
  intros Ht Hin. assert (outside p = true /\ w_state p = 0 /\ needs_tok p = false /\ p <> PStreamStart) as (E1 & E2 & E3 & E4)
    by (simpl in Hin; repeat (destruct Hin as [<-|Hin]; [repeat split; try reflexivity; discriminate|]); destruct Hin).
  unfold PInv. rewrite E1, E2, E3. split; [auto|split; [auto|split; [auto|split; [intros; discriminate|intros; contradiction]]]].
Qed.

Fixpoint skip_de (fuel : nat) : P unit :=
  match fuel with O => fun _ => OutOfFuel | S f => b <~ check (is_ TDocEnd) ;; if b then get_tok ;;~ skip_de f else pret tt end.
Lemma skip_de_safe fuel : forall tk p stk mk h v (Q : unit -> pst -> Prop), toks_ok tk -> length tk < fuel ->
  (forall tk', toks_ok tk' -> Q tt (mkst tk' p stk mk h v)) -> wp (skip_de fuel) Q (mkst tk p stk mk h v).
Proof.
  induction fuel as [|f IH]; intros tk p stk mk h v Q Ht Hl HQ; [lia|].
  destruct (toks_ok_cons _ Ht) as (t & r & ->). cbn [skip_de].
  chk. destruct (is_ TDocEnd (t_kind t)) eqn:E.
  - gt. apply IH; auto. + eapply live_tail; eauto. eapply not_se_of; eauto. + simpl in Hl. lia.
  - apply wp_ret. auto.
Qed.
Lemma dl_safe fuel : forall ver hs tk p stk mk h v (Q : option (N * N) * list (str * str) -> pst -> Prop), toks_ok tk -> length tk < fuel ->
  (forall x tk', toks_ok tk' -> Q x (mkst tk' p stk mk h v)) -> wp (directives_loop fuel ver hs) Q (mkst tk p stk mk h v).
Proof.
  induction fuel as [|f IH]; intros ver hs tk p stk mk h v Q Ht Hl HQ; [lia|].
  destruct (toks_ok_cons _ Ht) as (t & r & ->). cbn [directives_loop].
  chk. destruct (is_directive (t_kind t)) eqn:E; [|apply wp_ret; auto].
  assert (Hr : toks_ok r) by (eapply live_tail; eauto; eapply not_se_of; eauto).
  assert (Hl' : length r < f) by (simpl in Hl; lia).
  gt. destruct (t_kind t); try (apply IH; auto).
  destruct val; try (apply IH; auto).
  - destruct ver; [apply wp_err|]. destruct (negb (major =? 1)%N); [apply wp_err|apply IH; auto].
  - destruct (assoc handle hs); [apply wp_err|apply IH; auto].
Qed.
Lemma pd_safe tk p stk mk h v (Q : option (N * N) * list (str * str) -> pst -> Prop) : toks_ok tk ->
  (forall x tk' h' v', toks_ok tk' -> Q x (mkst tk' p stk mk h' v')) -> wp process_directives Q (mkst tk p stk mk h v).
Proof.
  intros Ht HQ. unfold process_directives. wb. apply wp_get. wb. cbn [toks mkst]. apply dl_safe; auto.
  intros [ver hs] tk' Ht'. wb. apply wp_set_handles. apply wp_ret. apply HQ; auto.
Qed.

Lemma pds_safe tk p h v : toks_ok tk -> wp parse_document_start post (mkst tk p (rev []) (rev []) h v).
Proof.
  intros Ht. unfold parse_document_start. wb. apply wp_get. wb. cbn [toks mkst].
  apply (skip_de_safe (S (S (length tk)))); auto. intros tk' Ht'. clear Ht tk.
  destruct (toks_ok_cons _ Ht') as (t & r & ->).
  chk. destruct (is_ TStreamEnd (t_kind t)) eqn:Ese; cbn [negb].
  - gt. wb. apply wp_get. cbn [pstates pmarks mkst rev]. wb. apply wp_set_ps. apply wp_ret. unfold post, Inv2. cbn. constructor.
  - pk. wb. apply pd_safe; auto. intros x tk'' h' v' Ht''. destruct (toks_ok_cons _ Ht'') as (t2 & r2 & ->).
    chk. destruct (is_ TDocStart (t_kind t2)) eqn:Eds; cbn [negb].
    + gt. wb. apply wp_push_ps. wb. apply wp_set_ps. apply wp_ret. unfold post. change (rev [] ++ [PDocEnd]) with (rev [PDocEnd]).
      apply inv2_mk. unfold PInv. cbn. split; [eapply live_tail; eauto; eapply not_se_of; eauto|].
      split; [exists []; auto|split; [reflexivity|split; intros; discriminate]].
    + pk. apply wp_err.
Qed.

(* ---------- block collections ---------- *)
Lemma bse_body_safe tk p l m ms h v : toks_ok tk -> inside l -> length ms = weight l ->
  wp (be <~ check (is_ TBlockEntry);;
     (if be
      then
       t0 <~ get_tok;;
       b2 <~ check (any_of [TBlockEntry; TBlockEnd]);;
       (if negb b2
        then push_ps PBlockSeqEntry;;~ parse_node true false
        else set_ps (Some PBlockSeqEntry);;~ pret (empty_scalar (t_end t0)))
      else
       bend <~ check (is_ TBlockEnd);;
       (if negb bend
        then t0 <~ peek_tok;; m <~ top_mark;; perr (Some m) 8 (t_start t0)
        else
         t0 <~ get_tok;;
         pop_ps;;~ pop_mark;;~ pret (mk VSeqEnd (t_start t0) (t_end t0)))))
    post (mkst tk p (rev l) (rev (m :: ms)) h v).
Proof.
  intros Ht Hin Hm. destruct (toks_ok_cons _ Ht) as (t & r & ->).
  assert (Hw : length (m :: ms) = w_stack PBlockSeqEntry + weight l) by (simpl; lia).
  chk. destruct (is_ TBlockEntry (t_kind t)) eqn:E.
  - assert (Hr : toks_ok r) by (eapply live_tail; eauto; eapply not_se_of; eauto).
    destruct (toks_ok_cons _ Hr) as (t2 & r2 & ->).
    gt. chk. destruct (any_of [TBlockEntry; TBlockEnd] (t_kind t2)); cbn [negb].
    + apply set_ret. apply I_cont; auto.
    + apply push_parse_node; auto.
  - chk. destruct (is_ TBlockEnd (t_kind t)) eqn:E2; cbn [negb].
    + eapply close_coll; eauto. eapply not_se_of; eauto.
    + pk. wb. apply wp_top_mark. apply wp_err.
Qed.

Lemma ind_body_safe tk p l ms h v : toks_ok tk -> inside l -> length ms = weight l ->
  wp (be <~ check (is_ TBlockEntry);;
     (if be
      then
       t0 <~ get_tok;;
       b2 <~ check (any_of [TBlockEntry; TKey; TValue; TBlockEnd]);;
       (if negb b2
        then push_ps PIndentlessSeqEntry;;~ parse_node true false
        else set_ps (Some PIndentlessSeqEntry);;~ pret (empty_scalar (t_end t0)))
      else t0 <~ peek_tok;; pop_ps;;~ pret (mk VSeqEnd (t_start t0) (t_start t0))))
    post (mkst tk p (rev l) (rev ms) h v).
Proof.
  intros Ht Hin Hm. destruct (toks_ok_cons _ Ht) as (t & r & ->).
  chk. destruct (is_ TBlockEntry (t_kind t)) eqn:E.
  - assert (Hr : toks_ok r) by (eapply live_tail; eauto; eapply not_se_of; eauto).
    destruct (toks_ok_cons _ Hr) as (t2 & r2 & ->).
    gt. chk. destruct (any_of [TBlockEntry; TKey; TValue; TBlockEnd] (t_kind t2)); cbn [negb].
    + apply set_ret. apply I_cont; auto.
    + apply push_parse_node; auto.
  - pk. apply pop_ret; auto.
Qed.

Lemma bmk_body_safe tk p l m ms h v : toks_ok tk -> inside l -> length ms = weight l ->
  wp (k <~ check (is_ TKey);;
     (if k
      then
       t0 <~ get_tok;;
       b2 <~ check (any_of [TKey; TValue; TBlockEnd]);;
       (if negb b2
        then push_ps PBlockMapValue;;~ parse_node true true
        else set_ps (Some PBlockMapValue);;~ pret (empty_scalar (t_end t0)))
      else
       bend <~ check (is_ TBlockEnd);;
       (if negb bend
        then t0 <~ peek_tok;; m <~ top_mark;; perr (Some m) 9 (t_start t0)
        else
         t0 <~ get_tok;;
         pop_ps;;~ pop_mark;;~ pret (mk VMapEnd (t_start t0) (t_end t0)))))
    post (mkst tk p (rev l) (rev (m :: ms)) h v).
Proof.
  intros Ht Hin Hm. destruct (toks_ok_cons _ Ht) as (t & r & ->).
  assert (Hw : length (m :: ms) = w_stack PBlockMapValue + weight l) by (simpl; lia).
  chk. destruct (is_ TKey (t_kind t)) eqn:E.
  - assert (Hr : toks_ok r) by (eapply live_tail; eauto; eapply not_se_of; eauto).
    destruct (toks_ok_cons _ Hr) as (t2 & r2 & ->).
    gt. chk. destruct (any_of [TKey; TValue; TBlockEnd] (t_kind t2)); cbn [negb].
    + apply set_ret. apply I_cont; auto.
    + apply push_parse_node; auto.
  - chk. destruct (is_ TBlockEnd (t_kind t)) eqn:E2; cbn [negb].
    + eapply close_coll; eauto. eapply not_se_of; eauto.
    + pk. wb. apply wp_top_mark. apply wp_err.
Qed.

(* ---------- value-like states: an optional indicator, then a node or an empty scalar ---------- *)
Lemma value_safe (f g : tok -> bool) X blk ind tk p l ms h v (F G : token -> event) :
  f TStreamEnd = false -> toks_ok tk -> inside l -> cont_state X = true -> length ms = w_stack X + weight l ->
  wp (v0 <~ check f;;
     (if v0
      then
       t0 <~ get_tok;;
       b2 <~ check g;;
       (if negb b2 then push_ps X;;~ parse_node blk ind else set_ps (Some X);;~ pret (F t0))
      else set_ps (Some X);;~ t0 <~ peek_tok;; pret (G t0))) post (mkst tk p (rev l) (rev ms) h v).
Proof.
  intros Hf Ht Hin HX Hm. destruct (toks_ok_cons _ Ht) as (t & r & ->).
  chk. destruct (f (t_kind t)) eqn:E.
  - assert (Hr : toks_ok r) by (eapply live_tail; eauto; eapply not_se_of; eauto).
    destruct (toks_ok_cons _ Hr) as (t2 & r2 & ->).
    gt. chk. destruct (g (t_kind t2)); cbn [negb].
    + apply set_ret. apply I_cont; auto.
    + apply push_parse_node; auto.
  - wb. apply wp_set_ps. pk. apply wp_ret. unfold post. apply inv2_mk. apply I_cont; auto.
Qed.
Lemma set_peek_safe X tk p l ms h v (G : token -> event) :
  toks_ok tk -> inside l -> cont_state X = true -> length ms = w_stack X + weight l ->
  wp (set_ps (Some X);;~ t0 <~ peek_tok;; pret (G t0)) post (mkst tk p (rev l) (rev ms) h v).
Proof.
  intros Ht Hin HX Hm. destruct (toks_ok_cons _ Ht) as (t & r & ->).
  wb. apply wp_set_ps. pk. apply wp_ret. unfold post. apply inv2_mk. apply I_cont; auto.
Qed.

(* ---------- flow collections ---------- *)
Definition seq_close (r0 : option event) : P event :=
  match r0 with
  | Some e => pret e
  | None => t0 <~ get_tok;; pop_ps;;~ pop_mark;;~ pret (mk VSeqEnd (t_start t0) (t_end t0))
  end.
Definition map_close (r0 : option event) : P event :=
  match r0 with
  | Some e => pret e
  | None => t0 <~ get_tok;; pop_ps;;~ pop_mark;;~ pret (mk VMapEnd (t_start t0) (t_end t0))
  end.

Lemma I_mapkey t r l m ms : toks_ok (t :: r) -> is_ TKey (t_kind t) = true -> inside l -> length ms = weight l ->
  PInv (t :: r) PFlowSeqEntryMapKey l (m :: ms).
Proof.
  intros Ht Hk Hin Hm. unfold PInv. cbn [outside w_state needs_tok].
  split; [auto|split; [auto|split; [simpl; lia|split; [|intros; discriminate]]]].
  intros _. exists t, r. split; auto. eapply not_se_of; eauto.
Qed.

Lemma fse_rest_safe tk p l m ms h v : toks_ok tk -> inside l -> length ms = weight l ->
  wp (k <~ check (is_ TKey);;
       (if k
        then
         t0 <~ peek_tok;;
         set_ps (Some PFlowSeqEntryMapKey);;~
         pret (Some (mk (VMapStart None None true true) (t_start t0) (t_end t0)))
        else
         fe2 <~ check (is_ TFlowSeqEnd);;
         (if negb fe2
          then push_ps PFlowSeqEntry;;~ e <~ parse_node false false;; pret (Some e)
          else pret None)))
     (fun r0 s' => wp (seq_close r0) post s') (mkst tk p (rev l) (rev (m :: ms)) h v).
Proof.
  intros Ht Hin Hm. destruct (toks_ok_cons _ Ht) as (t & r & ->).
  chk. destruct (is_ TKey (t_kind t)) eqn:Ek.
  - pk. wb. apply wp_set_ps. apply wp_ret. cbn [seq_close]. apply wp_ret. unfold post. apply inv2_mk. apply I_mapkey; auto.
  - chk. destruct (is_ TFlowSeqEnd (t_kind t)) eqn:Ee; cbn [negb].
    + apply wp_ret. cbn [seq_close]. eapply close_coll; eauto. eapply not_se_of; eauto.
    + wb. apply wp_push_ps. change (rev l ++ [PFlowSeqEntry]) with (rev (PFlowSeqEntry :: l)). wb.
      eapply wp_mono; [apply parse_node_safe; auto; [right; auto|simpl; lia]|].
      intros e s' H. apply wp_ret. cbn [seq_close]. apply wp_ret. exact H.
Qed.

Lemma fse_body_safe (first : bool) tk p l m ms h v : toks_ok tk -> inside l -> length ms = weight l ->
  wp (fe <~ check (is_ TFlowSeqEnd);;
     r0 <~
     (if negb fe
      then
       (if negb first
        then
         c <~ check (is_ TFlowEntry);;
         (if c
          then get_tok;;~ pret tt
          else t0 <~ peek_tok;; m <~ top_mark;; perr (Some m) 10 (t_start t0))
        else pret tt);;~
       k <~ check (is_ TKey);;
       (if k
        then
         t0 <~ peek_tok;;
         set_ps (Some PFlowSeqEntryMapKey);;~
         pret (Some (mk (VMapStart None None true true) (t_start t0) (t_end t0)))
        else
         fe2 <~ check (is_ TFlowSeqEnd);;
         (if negb fe2
          then push_ps PFlowSeqEntry;;~ e <~ parse_node false false;; pret (Some e)
          else pret None))
      else pret None);;
     seq_close r0) post (mkst tk p (rev l) (rev (m :: ms)) h v).
Proof.
  intros Ht Hin Hm. destruct (toks_ok_cons _ Ht) as (t & r & ->).
  chk. destruct (is_ TFlowSeqEnd (t_kind t)) eqn:Ee; cbn [negb].
  - wb. apply wp_ret. cbn [seq_close]. eapply close_coll; eauto. eapply not_se_of; eauto.
  - wb. wb. destruct first; cbn [negb].
    + apply wp_ret. apply fse_rest_safe; auto.
    + chk. destruct (is_ TFlowEntry (t_kind t)) eqn:Ec.
      * gt. apply wp_ret. apply fse_rest_safe; auto. eapply live_tail; eauto. eapply not_se_of; eauto.
      * pk. wb. apply wp_top_mark. apply wp_err.
Qed.

Lemma fmk_rest_safe tk p l m ms h v : toks_ok tk -> inside l -> length ms = weight l ->
  wp (k <~ check (is_ TKey);;
       (if k
        then
         t0 <~ get_tok;;
         b2 <~ check (any_of [TValue; TFlowEntry; TFlowMapEnd]);;
         (if negb b2
          then push_ps PFlowMapValue;;~ e <~ parse_node false false;; pret (Some e)
          else set_ps (Some PFlowMapValue);;~ pret (Some (empty_scalar (t_end t0))))
        else
         fe2 <~ check (is_ TFlowMapEnd);;
         (if negb fe2
          then push_ps PFlowMapEmptyValue;;~ e <~ parse_node false false;; pret (Some e)
          else pret None)))
     (fun r0 s' => wp (map_close r0) post s') (mkst tk p (rev l) (rev (m :: ms)) h v).
Proof.
  intros Ht Hin Hm. destruct (toks_ok_cons _ Ht) as (t & r & ->).
  chk. destruct (is_ TKey (t_kind t)) eqn:Ek.
  - assert (Hr : toks_ok r) by (eapply live_tail; eauto; eapply not_se_of; eauto).
    destruct (toks_ok_cons _ Hr) as (t2 & r2 & ->).
    gt. chk. destruct (any_of [TValue; TFlowEntry; TFlowMapEnd] (t_kind t2)); cbn [negb].
    + wb. apply wp_set_ps. apply wp_ret. cbn [map_close]. apply wp_ret. unfold post. apply inv2_mk. apply I_cont; auto. simpl; lia.
    + wb. apply wp_push_ps. change (rev l ++ [PFlowMapValue]) with (rev (PFlowMapValue :: l)). wb.
      eapply wp_mono; [apply parse_node_safe; auto; [right; auto|simpl; lia]|].
      intros e s' H. apply wp_ret. cbn [map_close]. apply wp_ret. exact H.
  - chk. destruct (is_ TFlowMapEnd (t_kind t)) eqn:Ee; cbn [negb].
    + apply wp_ret. cbn [map_close]. eapply close_coll; eauto. eapply not_se_of; eauto.
    + wb. apply wp_push_ps. change (rev l ++ [PFlowMapEmptyValue]) with (rev (PFlowMapEmptyValue :: l)). wb.
      eapply wp_mono; [apply parse_node_safe; auto; [right; auto|simpl; lia]|].
      intros e s' H. apply wp_ret. cbn [map_close]. apply wp_ret. exact H.
Qed.

Lemma fmk_body_safe (first : bool) tk p l m ms h v : toks_ok tk -> inside l -> length ms = weight l ->
  wp (fe <~ check (is_ TFlowMapEnd);;
     r0 <~
     (if negb fe
      then
       (if negb first
        then
         c <~ check (is_ TFlowEntry);;
         (if c
          then get_tok;;~ pret tt
          else t0 <~ peek_tok;; m <~ top_mark;; perr (Some m) 11 (t_start t0))
        else pret tt);;~
       k <~ check (is_ TKey);;
       (if k
        then
         t0 <~ get_tok;;
         b2 <~ check (any_of [TValue; TFlowEntry; TFlowMapEnd]);;
         (if negb b2
          then push_ps PFlowMapValue;;~ e <~ parse_node false false;; pret (Some e)
          else set_ps (Some PFlowMapValue);;~ pret (Some (empty_scalar (t_end t0))))
        else
         fe2 <~ check (is_ TFlowMapEnd);;
         (if negb fe2
          then push_ps PFlowMapEmptyValue;;~ e <~ parse_node false false;; pret (Some e)
          else pret None))
      else pret None);;
     map_close r0) post (mkst tk p (rev l) (rev (m :: ms)) h v).
Proof.
  intros Ht Hin Hm. destruct (toks_ok_cons _ Ht) as (t & r & ->).
  chk. destruct (is_ TFlowMapEnd (t_kind t)) eqn:Ee; cbn [negb].
  - wb. apply wp_ret. cbn [map_close]. eapply close_coll; eauto. eapply not_se_of; eauto.
  - wb. wb. destruct first; cbn [negb].
    + apply wp_ret. apply fmk_rest_safe; auto.
    + chk. destruct (is_ TFlowEntry (t_kind t)) eqn:Ec.
      * gt. apply wp_ret. apply fmk_rest_safe; auto. eapply live_tail; eauto. eapply not_se_of; eauto.
      * pk. wb. apply wp_top_mark. apply wp_err.
Qed.

Lemma step_safe tk p l ms h v : PInv tk p l ms -> wp step (fun _ s' => Inv2 s') (mkst tk (Some p) (rev l) (rev ms) h v).
Proof.
  intros HI. unfold step. wb. apply wp_get. cbn [pstate_ mkst]. wb.
  eapply wp_mono with (Q := post); [|intros e s' H; apply wp_ret; exact H].
  pose proof HI as (Ht & Hsh & Hm & Hnt & Hss). destruct (toks_ok_cons _ Ht) as (t & r & ->).
  destruct p.
  - (* PStreamStart *)
    destruct (Hss eq_refl) as (t' & r' & E & Hk). injection E as <- <-.
    destruct (outside_nil _ _ _ _ HI eq_refl) as (-> & Hms). rewrite (Hms eq_refl).
    gt. rewrite Hk. apply (set_ret PImplicitDocStart r (Some PStreamStart) [] [] h v). apply I_out; [|simpl; tauto].
    eapply live_tail; eauto. unfold is_se. rewrite Hk. reflexivity.
  - (* PImplicitDocStart *)
    destruct (outside_nil _ _ _ _ HI eq_refl) as (-> & Hms). rewrite (Hms eq_refl).
    chk. destruct (is_directive (t_kind t) || any_of [TDocStart; TStreamEnd] (t_kind t)); cbn [negb]; [apply pds_safe; auto|].
    wb. apply wp_set_handles. pk. wb. apply wp_push_ps. wb. apply wp_set_ps. apply wp_ret. unfold post.
    change (rev [] ++ [PDocEnd]) with (rev [PDocEnd]). apply inv2_mk. unfold PInv. cbn.
    split; [auto|split; [exists []; auto|split; [reflexivity|split; intros; discriminate]]].
  - (* PDocStart *)
    destruct (outside_nil _ _ _ _ HI eq_refl) as (-> & Hms). rewrite (Hms eq_refl). apply pds_safe; auto.
  - (* PDocEnd *)
    destruct (outside_nil _ _ _ _ HI eq_refl) as (-> & Hms). rewrite (Hms eq_refl).
    pk. chk. destruct (is_ TDocEnd (t_kind t)) eqn:E.
    + wb. gt. apply wp_ret. apply (set_ret PDocStart r _ [] [] h v). apply I_out; [|simpl; tauto].
      eapply live_tail; eauto. eapply not_se_of; eauto.
    + wb. apply wp_ret. apply (set_ret PDocStart (t :: r) _ [] [] h v). apply I_out; [auto|simpl; tauto].
  - (* PDocContent *)
    simpl in Hsh, Hm.
    chk. destruct (is_directive (t_kind t) || any_of [TDocStart; TDocEnd; TStreamEnd] (t_kind t)).
    + pk. apply pop_ret; auto.
    + destruct (inside_pop l Hsh) as (X & l0 & -> & Hp). apply parse_node_safe; auto.
  - (* PBlockNode *)
    simpl in Hsh, Hm. destruct (inside_pop l Hsh) as (X & l0 & -> & Hp). apply parse_node_safe; auto.
  - (* PBlockSeqFirst *)
    simpl in Hsh, Hm. destruct (Hnt eq_refl) as (t' & r' & E & Hse). injection E as <- <-.
    wb. gt. apply wp_push_mark. change (rev ms ++ [t_start t]) with (rev (t_start t :: ms)).
    apply bse_body_safe; auto. eapply live_tail; eauto.
  - (* PBlockSeqEntry *)
    simpl in Hsh, Hm. destruct ms as [|m ms]; [discriminate|]. wb. apply wp_ret. apply bse_body_safe; auto; simpl in Hm; lia.
  - (* PIndentlessSeqEntry *)
    simpl in Hsh, Hm. apply ind_body_safe; auto.
  - (* PBlockMapFirstKey *)
    simpl in Hsh, Hm. destruct (Hnt eq_refl) as (t' & r' & E & Hse). injection E as <- <-.
    wb. gt. apply wp_push_mark. change (rev ms ++ [t_start t]) with (rev (t_start t :: ms)).
    apply bmk_body_safe; auto. eapply live_tail; eauto.
  - (* PBlockMapKey *)
    simpl in Hsh, Hm. destruct ms as [|m ms]; [discriminate|]. wb. apply wp_ret. apply bmk_body_safe; auto; simpl in Hm; lia.
  - (* PBlockMapValue *)
    simpl in Hsh, Hm. apply (value_safe (is_ TValue) (any_of [TKey; TValue; TBlockEnd]) PBlockMapKey true true); auto.
  - (* PFlowSeqFirst *)
    simpl in Hsh, Hm. destruct (Hnt eq_refl) as (t' & r' & E & Hse). injection E as <- <-.
    wb. gt. apply wp_push_mark. change (rev ms ++ [t_start t]) with (rev (t_start t :: ms)).
    apply (fse_body_safe true); auto. eapply live_tail; eauto.
  - (* PFlowSeqEntry *)
    simpl in Hsh, Hm. destruct ms as [|m ms]; [discriminate|]. wb. apply wp_ret. apply (fse_body_safe false); auto; simpl in Hm; lia.
  - (* PFlowSeqEntryMapKey *)
    simpl in Hsh, Hm. destruct (Hnt eq_refl) as (t' & r' & E & Hse). injection E as <- <-.
    assert (Hr : toks_ok r) by (eapply live_tail; eauto). destruct (toks_ok_cons _ Hr) as (t2 & r2 & ->).
    gt. chk. destruct (any_of [TValue; TFlowEntry; TFlowSeqEnd] (t_kind t2)); cbn [negb].
    + apply set_ret. apply I_cont; auto.
    + apply push_parse_node; auto.
  - (* PFlowSeqEntryMapValue *)
    simpl in Hsh, Hm. apply (value_safe (is_ TValue) (any_of [TFlowEntry; TFlowSeqEnd]) PFlowSeqEntryMapEnd false false); auto.
  - (* PFlowSeqEntryMapEnd *)
    simpl in Hsh, Hm. apply set_peek_safe; auto.
  - (* PFlowMapFirstKey *)
    simpl in Hsh, Hm. destruct (Hnt eq_refl) as (t' & r' & E & Hse). injection E as <- <-.
    wb. gt. apply wp_push_mark. change (rev ms ++ [t_start t]) with (rev (t_start t :: ms)).
    apply (fmk_body_safe true); auto. eapply live_tail; eauto.
  - (* PFlowMapKey *)
    simpl in Hsh, Hm. destruct ms as [|m ms]; [discriminate|]. wb. apply wp_ret. apply (fmk_body_safe false); auto; simpl in Hm; lia.
  - (* PFlowMapValue *)
    simpl in Hsh, Hm. apply (value_safe (is_ TValue) (any_of [TFlowEntry; TFlowMapEnd]) PFlowMapKey false false); auto.
  - (* PFlowMapEmptyValue *)
    simpl in Hsh, Hm. apply set_peek_safe; auto.
Qed.

(* ---------- the whole run ---------- *)
Lemma step_inv s : Inv2 s -> wp step (fun _ s' => Inv2 s') s.
Proof.
  destruct s as [tk ps stk mk h v]. unfold Inv2. cbn [pstate_ pstates pmarks toks]. destruct ps as [p|].
  - intros (l & ms & -> & -> & HI). apply (step_safe tk p l ms h v HI).
  - intros _. unfold wp, step, pbind, pget, pret. cbn. exact Logic.I.
Qed.

Definition no_crash (r : res unit) : Prop := match r with Crash _ => False | _ => True end.
Lemma parse_loop_no_crash fuel : forall acc s, Inv2 s -> no_crash (snd (parse_loop fuel acc s)).
Proof.
  induction fuel as [|f IH]; intros acc s Hs; cbn [parse_loop]; [exact Logic.I|].
  pose proof (step_inv s Hs) as H. unfold wp in H.
  destruct (step s) as [[[e|] s']| | |]; cbn; auto.
Qed.

Lemma pinit_inv t r : t_kind t = TStreamStart -> toks_ok r -> Inv2 (pinit (t :: r)).
Proof.
  intros Hk Hr. unfold Inv2, pinit. cbn. exists [], []. split; [reflexivity|split; [reflexivity|]].
  unfold PInv. cbn. split.
  - destruct Hr as (i & x & -> & Hx & Hi). exists (t :: i), x. split; [reflexivity|split; [auto|]]. simpl. unfold is_se at 1. rewrite Hk. exact Hi.
  - split; [reflexivity|split; [reflexivity|split; [intros; discriminate|]]]. intros _. exists t, r. auto.
Qed.

(* the parser alone: for EVERY token list that starts with STREAM-START and ends in its only STREAM-END, and every amount of
   fuel, the run ends with events, a ParserError or fuel exhaustion - never with a crash (states.pop() / marks.pop() on an empty
   stack, None.start_mark, the two asserts, token.encoding are all Crash outcomes of the model) *)
Theorem parser_never_crashes : forall t r fuel, t_kind t = TStreamStart -> toks_ok r ->
  no_crash (snd (parse_loop fuel [] (pinit (t :: r)))).
Proof. intros t r fuel Hk Hr. apply parse_loop_no_crash. apply pinit_inv; auto. Qed.
Corollary parse_all_never_crashes : forall t r, t_kind t = TStreamStart -> toks_ok r -> no_crash (snd (parse_all (t :: r))).
Proof. intros. unfold parse_all. apply parser_never_crashes; auto. Qed.
