(* C15: every CR / LF the emitter model writes belongs to the requested line break - for EVERY event list and EVERY option set.
   Each chunk handed to the stream is either the line break itself or contains neither CR nor LF.  Same calculus as EmitChars.v. *)
From Coq Require Import List NArith ZArith Bool Arith Lia.
Import ListNotations.
Require Import Emit.
Require EmitSafe.

Definition okc (c : cp) : bool := negb (N.eqb c 10) && negb (N.eqb c 13).
Definition okd (d : str) : bool := forallb okc d.
Section WithLineBreak.
Variable lb : str.
Definition chunk_ok (d : str) : Prop := d = lb \/ okd d = true.
Definition okout (o : list str) : Prop := Forall chunk_ok o.

(* outcome reading: what was written is fine also when the run ends in an EmitterError; crashes are excluded by EmitSafe *)
Definition wpo {A} (m : M A) (Q : A -> st -> Prop) (s : st) : Prop :=
  match m s with Ok (a, s') => Q a s' | EmitErr _ o => okout o | Crash _ _ => True | OutOfFuel => True end.
Lemma wpo_bind {A B} (m : M A) (k : A -> M B) (Q : B -> st -> Prop) s : wpo m (fun a s' => wpo (k a) Q s') s -> wpo (bind m k) Q s.
Proof. unfold wpo, bind. destruct (m s) as [[a s']| | |]; auto. Qed.
Lemma wpo_ret {A} (a : A) (Q : A -> st -> Prop) s : Q a s -> wpo (ret a) Q s.
Proof. unfold wpo, ret. auto. Qed.
Lemma wpo_get (Q : st -> st -> Prop) s : Q s s -> wpo get Q s.
Proof. unfold wpo, get. auto. Qed.
Lemma wpo_modify f (Q : unit -> st -> Prop) s : Q tt (f s) -> wpo (modify f) Q s.
Proof. unfold wpo, modify. auto. Qed.
Lemma wpo_mono {A} (m : M A) (Q R : A -> st -> Prop) s : wpo m Q s -> (forall a s', Q a s' -> R a s') -> wpo m R s.
Proof. unfold wpo. destruct (m s) as [[a s']| | |]; auto. Qed.

(* the cached analysis / style belong to the value of the event in hand, analysed without allow_unicode *)
Definition clean (v : str) : Prop := forallb (fun c => negb (N.eqb c 13)) v = true.    (* no CR *)
Definition AOK (v : str) (o : option analysis) : Prop := match o with None => True | Some a => exists au, a = analyze_scalar au v end.
Definition COK (v : str) (c : chosen) : Prop := (c <> ChDouble -> clean v) /\ (c = ChPlain -> EmitSafe.nobrk v).
Definition SOK (v : str) (o : option chosen) : Prop := match o with None => True | Some c => COK v c end.
Definition okopt (o : option str) : Prop := match o with None => True | Some d => okd d = true end.
Definition PI (s : st) : Prop :=
  okout (out s) /\ best_lb s = lb /\ True /\ okopt (prep_anchor s) /\ okopt (prep_tag s) /\
  forallb (fun ph : str * str => okd (snd ph)) (tag_prefixes s) = true /\
  match cur_ev s with Some e => AOK (EmitSafe.vof e) (anal s) /\ SOK (EmitSafe.vof e) (sty s) | None => True end.

(* "keeps PI and the event in hand; the result satisfies P" *)
Definition sfo {A} (m : M A) (P : A -> Prop) : Prop :=
  forall (Q : A -> st -> Prop) s, PI s -> (forall a s', PI s' -> cur_ev s' = cur_ev s -> P a -> Q a s') -> wpo m Q s.
Notation sfr m := (sfo m (fun _ => True)).

Lemma sfo_bind {A B} (m : M A) (k : A -> M B) P R : sfo m P -> (forall a, P a -> sfo (k a) R) -> sfo (bind m k) R.
Proof.
  intros Hm Hk Q s Hp HQ. apply wpo_bind. apply Hm; [exact Hp|]. intros a s1 P1 C1 Pa.
  apply (Hk a Pa); [exact P1|]. intros b s2 P2 C2 Rb. apply HQ; [exact P2|congruence|exact Rb].
Qed.
Lemma sfr_bind {A B} (m : M A) (k : A -> M B) R : sfr m -> (forall a, sfo (k a) R) -> sfo (bind m k) R.
Proof. intros Hm Hk. eapply sfo_bind; [exact Hm|]. intros a _. apply Hk. Qed.
Lemma sfo_ret {A} (a : A) (P : A -> Prop) : P a -> sfo (ret a) P.
Proof. intros Pa Q s Hp HQ. apply wpo_ret. apply HQ; auto. Qed.
Lemma sfo_err {A} c (P : A -> Prop) : sfo (@err A c) P.
Proof. intros Q s Hp _. unfold wpo, err. apply Hp. Qed.
Lemma sfo_get : sfr get.
Proof. intros Q s Hp HQ. apply wpo_get. apply HQ; auto. Qed.
Lemma sfo_cur : sfr cur.
Proof. intros Q s Hp HQ. unfold cur. apply wpo_bind, wpo_get. destruct (cur_ev s) eqn:E; [apply wpo_ret; apply HQ; auto|exact Logic.I]. Qed.
Lemma sfo_crash {A} x (P : A -> Prop) : sfo (@crash A x) P.
Proof. intros Q s _ _. exact Logic.I. Qed.
Lemma sfo_modify f : (forall s, PI s -> PI (f s) /\ cur_ev (f s) = cur_ev s) -> sfr (modify f).
Proof. intros Hf Q s Hp HQ. apply wpo_modify. destruct (Hf s Hp). apply HQ; auto. Qed.
Lemma sfo_weaken {A} (m : M A) (P R : A -> Prop) : sfo m P -> (forall a, P a -> R a) -> sfo m R.
Proof. intros H HPR Q s Hp HQ. apply H; auto. Qed.

(* updates that leave every field of PI alone (position, flags, stacks, queue) *)
Ltac pim := apply sfo_modify; intros ? ?HP; split; [|reflexivity]; unfold PI in *; cbn; exact HP.
Create HintDb sodb.
Ltac so :=
  repeat first
    [ assumption | solve [auto with sodb nocore] | apply sfo_ret; exact Logic.I | apply sfo_err | apply sfo_crash | apply sfo_get | apply sfo_cur | pim
    | apply sfr_bind; [|intros ?]
    | match goal with
      | |- sfo (if ?b then _ else _) _ => destruct b
      | |- sfo (match ?o with Some _ => _ | None => _ end) _ => destruct o
      | |- sfo (let '(_, _) := ?p in _) _ => destruct p
      end
    ].

Lemma okout_cons d o : chunk_ok d -> okout o -> okout (d :: o).
Proof. unfold okout. intros H1 H2. constructor; assumption. Qed.
Lemma PI_out d s : PI s -> chunk_ok d -> PI (with_out (d :: out s) s).
Proof. unfold PI. cbn. intros (H1 & H2) Hd. split; [apply okout_cons; assumption|exact H2]. Qed.
Lemma sfo_write_chunk d : chunk_ok d -> sfr (write d).
Proof. intros Hd. unfold write. apply sfo_modify. intros s Hp. split; [apply PI_out; assumption|reflexivity]. Qed.
Lemma sfo_write d : okd d = true -> sfr (write d).
Proof. intros Hd. apply sfo_write_chunk. right. exact Hd. Qed.
Lemma sfo_write_col d : okd d = true -> sfr (write_col d).
Proof.
  intros Hd. unfold write_col. apply sfo_modify. intros s Hp. split; [|reflexivity].
  apply (PI_out d (with_pos (eline s) (column s + length d) (whitespace s) (indention s) s)); [unfold PI in *; cbn; exact Hp|right; exact Hd].
Qed.
Lemma sfo_write_indicator i a b c : okd i = true -> sfr (write_indicator i a b c).
Proof. intros Hi. unfold write_indicator. apply sfr_bind; [so|]. intros s0. apply sfr_bind; [so|]. intros _. apply sfo_write. destruct (_ || _); [exact Hi|cbn; exact Hi]. Qed.
Lemma sfo_write_line_break_none : sfr (write_line_break None).
Proof.
  unfold write_line_break. intros Q s Hp HQ. apply wpo_bind, wpo_get. apply wpo_bind, wpo_modify.
  apply (sfo_write_chunk (best_lb s)); [left; apply Hp| |exact HQ]. unfold PI in *; cbn; exact Hp.
Qed.
Lemma sfo_write_line_break_some d : okd d = true -> sfr (write_line_break (Some d)).
Proof. intros Hd. unfold write_line_break. apply sfr_bind; [so|]. intros s0. apply sfr_bind; [so|]. intros _. apply sfo_write, Hd. Qed.
Local Hint Resolve sfo_write_line_break_none : sodb.
Lemma okd_repeat n : okd (repeat SP n) = true.
Proof. induction n; cbn; auto. Qed.
Lemma sfo_write_indent : sfr write_indent.
Proof. unfold write_indent. so. apply sfo_write, okd_repeat. Qed.
Local Hint Resolve sfo_write_indent : sodb.
Lemma sfo_fold_left {X} (f : X -> M unit) l : (forall x, In x l -> sfr (f x)) -> forall m0, sfr m0 -> sfr (fold_left (fun m x => m ;;; f x) l m0).
Proof.
  induction l as [|x l IH]; intros Hf m0 H0; cbn [fold_left]; [exact H0|].
  apply IH; [intros y Hy; apply Hf; right; exact Hy|]. apply sfr_bind; [exact H0|intros _; apply Hf; left; reflexivity].
Qed.
Lemma okd_In d c : okd d = true -> In c d -> okc c = true.
Proof. unfold okd. rewrite forallb_forall. auto. Qed.
Lemma clean_In d c : clean d -> In c d -> N.eqb c 13 = false.
Proof. unfold clean. rewrite forallb_forall. intros H Hc. apply H in Hc. apply negb_true_iff in Hc. exact Hc. Qed.
(* write_breaks: a line feed becomes the requested break, any other character of a text without CR is written as it is *)
Lemma sfo_write_breaks t : clean t -> sfr (write_breaks t).
Proof.
  intros Ht. unfold write_breaks. apply (sfo_fold_left (fun br => if N.eqb br LF then write_line_break None else write_line_break (Some [br]))).
  - intros x Hx. destruct (N.eqb x LF) eqn:E; [so|]. apply sfo_write_line_break_some. cbn. unfold okc. unfold LF in E. rewrite E, (clean_In _ _ Ht Hx). reflexivity.
  - apply sfo_ret. exact Logic.I.
Qed.
Lemma okd_app a b : okd (a ++ b) = okd a && okd b.
Proof. apply forallb_app. Qed.
Lemma okd_cons c d : okd (c :: d) = okc c && okd d.
Proof. reflexivity. Qed.
Lemma clean_firstn n d : clean d -> clean (firstn n d).
Proof. unfold clean. revert d. induction n as [|n IH]; intros [|c d] H; cbn in *; auto. apply andb_prop in H as [H1 H2]. rewrite H1. cbn. auto. Qed.
Lemma clean_skipn n d : clean d -> clean (skipn n d).
Proof. unfold clean. revert d. induction n as [|n IH]; intros [|c d] H; cbn in *; auto. apply andb_prop in H as [H1 H2]. auto. Qed.
Lemma clean_slice d a b : clean d -> clean (slice d a b).
Proof. intros H. unfold slice. apply clean_firstn, clean_skipn, H. Qed.
Local Hint Resolve sfo_write sfo_write_col sfo_write_indicator sfo_write_line_break_some sfo_write_breaks clean_slice : sodb.
Local Hint Extern 2 (okd _ = true) => (vm_compute; reflexivity) : sodb.
Local Hint Extern 2 (okc _ = true) => reflexivity : sodb.

(* the characters of text[a:b] all satisfy P *)
Definition allr (P : cp -> bool) (text : str) (a b : nat) : Prop := forall i, a <= i -> i < b -> exists c, nth_cp text i = Some c /\ P c = true.
Lemma slice_allr P : forall text st e, allr P text st e -> forallb P (slice text st e) = true.
Proof.
  induction text as [|c t IH]; intros st e H.
  - unfold slice. rewrite skipn_nil, firstn_nil. reflexivity.
  - destruct st as [|st].
    + unfold slice. cbn [skipn]. rewrite Nat.sub_0_r. destruct e as [|e]; [reflexivity|]. cbn [firstn forallb].
      destruct (H 0) as (c' & E & Hc); [lia|lia|]. cbn in E. injection E as <-. rewrite Hc. cbn [andb].
      specialize (IH 0 e). unfold slice in IH. cbn [skipn] in IH. rewrite Nat.sub_0_r in IH. apply IH. intros i _ Hi.
      destruct (H (S i)) as (c' & E & Hc'); [lia|lia|]. exists c'. split; [exact E|exact Hc'].
    + unfold slice. cbn [skipn]. destruct e as [|e]; [reflexivity|]. replace (S e - S st) with (e - st) by lia. apply (IH st e).
      intros i H1 H2. destruct (H (S i)) as (c' & E & Hc'); [lia|lia|]. exists c'. split; [exact E|exact Hc'].
Qed.
Definition nobk (c : cp) : bool := negb (mem c brk4).
(* a piece without CR and without any of the four break characters has neither CR nor LF *)
Lemma okd_nobk text st e : clean text -> allr nobk text st e -> okd (slice text st e) = true.
Proof.
  intros Hc Ha. pose proof (clean_slice text st e Hc) as H1. pose proof (slice_allr nobk text st e Ha) as H2.
  unfold okd, clean in *. rewrite forallb_forall in *. intros c Hin. specialize (H1 c Hin). specialize (H2 c Hin).
  unfold okc. rewrite H1, andb_true_r. unfold nobk, mem, brk4, LF in H2. cbn [existsb] in H2. apply negb_true_iff in H2. apply orb_false_iff in H2 as [H2 _]. rewrite H2. reflexivity.
Qed.
Lemma allr_empty P text st e : e <= st -> allr P text st e.
Proof. intros H i H1 H2. lia. Qed.
Lemma allr_snoc P text st e c : allr P text st e -> nth_cp text e = Some c -> P c = true -> allr P text st (S e).
Proof. intros Ha Ec Hc i H1 H2. destruct (Nat.eq_dec i e) as [->|N]; [exists c; auto|apply Ha; lia]. Qed.

(* ---------- scalar writers: a piece handed to the stream outside the "breaks" mode holds no break character ---------- *)
Lemma sfo_sq_loop text split : clean text -> forall fuel e st spaces breaks,
  (e <= length text -> (spaces = true \/ breaks = false) -> allr nobk text st e) -> sfr (sq_loop fuel text split e st spaces breaks).
Proof.
  intros Ht. induction fuel as [|f IH]; intros e st spaces breaks H; cbn [sq_loop]; [so|].
  destruct (Nat.ltb (length text) e) eqn:El; [so|]. apply Nat.ltb_ge in El. specialize (H El).
  destruct (Nat.ltb e (length text)) eqn:El2.
  - apply Nat.ltb_lt in El2. destruct (EmitSafe.nth_cp_some text e El2) as [c Ec]. rewrite Ec. cbn [is_sp is_brk].
    apply sfo_bind with (P := fun st1 => (mem c brk4 = false -> allr nobk text st1 (S e))).
    + destruct spaces.
      * assert (Ha : allr nobk text st e) by (apply H; auto). destruct (negb (N.eqb c SP)) eqn:Esp.
        -- apply sfr_bind; [so|]. intros s0. apply sfr_bind; [destruct (_ && _); [so|apply sfo_write_col, okd_nobk; auto]|]. intros _.
           apply sfo_ret. intros Hb. eapply allr_snoc; [apply allr_empty; lia|exact Ec|unfold nobk; rewrite Hb; reflexivity].
        -- apply sfo_ret. intros Hb. eapply allr_snoc; [exact Ha|exact Ec|unfold nobk; rewrite Hb; reflexivity].
      * destruct breaks.
        -- destruct (mem c brk4) eqn:Eb; cbn [negb]; [apply sfo_ret; intros Hb; discriminate Hb|].
           apply sfr_bind; [so|]. intros _. apply sfr_bind; [so|]. intros _. apply sfr_bind; [so|]. intros _.
           apply sfo_ret. intros _. eapply allr_snoc; [apply allr_empty; lia|exact Ec|unfold nobk; rewrite Eb; reflexivity].
        -- assert (Ha : allr nobk text st e) by (apply H; auto).
           destruct (mem c (SP :: brk4) || N.eqb c 39).
           ++ destruct (Nat.ltb st e).
              ** apply sfr_bind; [apply sfo_write_col, okd_nobk; auto|]. intros _. apply sfo_ret. intros Hb.
                 eapply allr_snoc; [apply allr_empty; lia|exact Ec|unfold nobk; rewrite Hb; reflexivity].
              ** apply sfo_ret. intros Hb. eapply allr_snoc; [exact Ha|exact Ec|unfold nobk; rewrite Hb; reflexivity].
           ++ apply sfo_ret. intros Hb. eapply allr_snoc; [exact Ha|exact Ec|unfold nobk; rewrite Hb; reflexivity].
    + intros st1 Hst1. apply sfo_bind with (P := fun st2 => (mem c brk4 = false -> allr nobk text st2 (S e))).
      * destruct (N.eqb c 39); [apply sfr_bind; [so|]; intros _; apply sfo_ret; intros _; apply allr_empty; lia|apply sfo_ret; exact Hst1].
      * intros st2 Hst2. apply IH. intros _ Hm. apply Hst2. destruct Hm as [Hm|Hm]; [|exact Hm].
        apply N.eqb_eq in Hm. subst c. reflexivity.
  - apply Nat.ltb_ge in El2. cbn [is_sp is_brk negb]. assert (Ee : e = length text) by lia.
    apply sfr_bind.
    + destruct spaces; [|destruct breaks].
      * assert (Ha : allr nobk text st e) by (apply H; auto). apply sfr_bind; [so|]. intros s0.
        apply sfr_bind; [destruct (_ && _); [so|apply sfo_write_col, okd_nobk; auto]|]. intros _. so.
      * so.
      * assert (Ha : allr nobk text st e) by (apply H; auto). destruct (Nat.ltb st e); [|so].
        apply sfr_bind; [apply sfo_write_col, okd_nobk; auto|]. intros _. so.
    + intros st1. apply sfr_bind; [so|]. intros st2. apply IH. intros Hl. lia.
Qed.
Lemma sfo_write_single_quoted text split : clean text -> sfr (write_single_quoted text split).
Proof.
  intros Ht. unfold write_single_quoted.
  assert (H : sfr (sq_loop (length text + 2) text split 0 0 false false)) by (apply sfo_sq_loop; [exact Ht|intros _ _; apply allr_empty; lia]). so.
Qed.

Lemma sfo_fo_loop text : clean text -> forall fuel e st ls spaces breaks,
  (e <= length text -> breaks = false -> allr nobk text st e) -> sfr (fo_loop fuel text e st ls spaces breaks).
Proof.
  intros Ht. induction fuel as [|f IH]; intros e st ls spaces breaks H; cbn [fo_loop]; [so|].
  destruct (Nat.ltb (length text) e) eqn:El; [so|]. apply Nat.ltb_ge in El. specialize (H El).
  destruct (Nat.ltb e (length text)) eqn:El2.
  - apply Nat.ltb_lt in El2. destruct (EmitSafe.nth_cp_some text e El2) as [c Ec]. rewrite Ec. cbn [is_sp is_brk].
    apply sfo_bind with (P := fun r => (mem c brk4 = false -> allr nobk text (fst r) (S e))).
    + destruct breaks.
      * destruct (mem c brk4) eqn:Eb; cbn [negb]; [apply sfo_ret; intros Hb; discriminate Hb|].
        apply sfr_bind; [so|]. intros _. apply sfr_bind; [so|]. intros _. apply sfr_bind; [so|]. intros _.
        apply sfo_ret. intros _. cbn [fst]. eapply allr_snoc; [apply allr_empty; lia|exact Ec|unfold nobk; rewrite Eb; reflexivity].
      * assert (Ha : allr nobk text st e) by (apply H; auto). destruct spaces.
        -- destruct (negb (N.eqb c SP)).
           ++ apply sfr_bind; [so|]. intros s0. apply sfr_bind; [destruct (_ && _); [so|apply sfo_write_col, okd_nobk; auto]|]. intros _.
              apply sfo_ret. intros Hb. cbn [fst]. eapply allr_snoc; [apply allr_empty; lia|exact Ec|unfold nobk; rewrite Hb; reflexivity].
           ++ apply sfo_ret. intros Hb. cbn [fst]. eapply allr_snoc; [exact Ha|exact Ec|unfold nobk; rewrite Hb; reflexivity].
        -- destruct (mem c (SP :: brk4)).
           ++ apply sfr_bind; [apply sfo_write_col, okd_nobk; auto|]. intros _. apply sfr_bind; [so|]. intros _.
              apply sfo_ret. intros Hb. cbn [fst]. eapply allr_snoc; [apply allr_empty; lia|exact Ec|unfold nobk; rewrite Hb; reflexivity].
           ++ apply sfo_ret. intros Hb. cbn [fst]. eapply allr_snoc; [exact Ha|exact Ec|unfold nobk; rewrite Hb; reflexivity].
    + intros [st1 ls1] Hst1. cbn [fst] in Hst1. apply IH. intros _ Hm. apply Hst1. exact Hm.
  - apply Nat.ltb_ge in El2. cbn [is_sp is_brk negb].
    apply sfr_bind.
    + destruct breaks; [so|]. assert (Ha : allr nobk text st e) by (apply H; auto). destruct spaces.
      * apply sfr_bind; [so|]. intros s0. apply sfr_bind; [destruct (_ && _); [so|apply sfo_write_col, okd_nobk; auto]|]. intros _. so.
      * apply sfr_bind; [apply sfo_write_col, okd_nobk; auto|]. intros _. so.
    + intros [st1 ls1]. apply IH. intros Hl. lia.
Qed.
Lemma sfo_li_loop text : clean text -> forall fuel e st breaks,
  (e <= length text -> breaks = false -> allr nobk text st e) -> sfr (li_loop fuel text e st breaks).
Proof.
  intros Ht. induction fuel as [|f IH]; intros e st breaks H; cbn [li_loop]; [so|].
  destruct (Nat.ltb (length text) e) eqn:El; [so|]. apply Nat.ltb_ge in El. specialize (H El).
  destruct (Nat.ltb e (length text)) eqn:El2.
  - apply Nat.ltb_lt in El2. destruct (EmitSafe.nth_cp_some text e El2) as [c Ec]. rewrite Ec. cbn [is_brk].
    apply sfo_bind with (P := fun st1 => (mem c brk4 = false -> allr nobk text st1 (S e))).
    + destruct breaks.
      * destruct (mem c brk4) eqn:Eb; cbn [negb]; [apply sfo_ret; intros Hb; discriminate Hb|].
        apply sfr_bind; [so|]. intros _. apply sfr_bind; [so|]. intros _.
        apply sfo_ret. intros _. eapply allr_snoc; [apply allr_empty; lia|exact Ec|unfold nobk; rewrite Eb; reflexivity].
      * assert (Ha : allr nobk text st e) by (apply H; auto). destruct (mem c brk4) eqn:Eb.
        -- apply sfr_bind; [apply sfo_write, okd_nobk; auto|]. intros _. apply sfr_bind; [so|]. intros _. apply sfo_ret. intros Hb. discriminate Hb.
        -- apply sfo_ret. intros _. eapply allr_snoc; [exact Ha|exact Ec|unfold nobk; rewrite Eb; reflexivity].
    + intros st1 Hst1. apply IH. intros _ Hm. apply Hst1. exact Hm.
  - apply Nat.ltb_ge in El2. cbn [is_brk negb].
    apply sfr_bind.
    + destruct breaks; [so|]. assert (Ha : allr nobk text st e) by (apply H; auto).
      apply sfr_bind; [apply sfo_write, okd_nobk; auto|]. intros _. so.
    + intros st1. apply IH. intros Hl. lia.
Qed.

Lemma okc_range c : (32 <= c)%N -> okc c = true.
Proof.
  intros H. unfold okc. replace (N.eqb c 10) with false by (symmetry; apply N.eqb_neq; lia). replace (N.eqb c 13) with false by (symmetry; apply N.eqb_neq; lia). reflexivity.
Qed.
Lemma okd_dec_digits : forall fuel n acc, okd acc = true -> okd (dec_digits fuel n acc) = true.
Proof.
  induction fuel as [|f IH]; intros n acc Ha; cbn [dec_digits]; [exact Ha|].
  destruct (N.ltb n 10) eqn:E.
  - rewrite okd_cons, Ha, andb_true_r. apply okc_range. lia.
  - apply IH. rewrite okd_cons, Ha, andb_true_r. apply okc_range. set (r := (n mod 10)%N). clearbody r. lia.
Qed.
Lemma okd_dec n : okd (dec n) = true.
Proof. apply okd_dec_digits. reflexivity. Qed.
Local Hint Resolve okd_dec : sodb.

Lemma sfo_determine_block_hints text : sfo (determine_block_hints text) (fun h => okd h = true).
Proof.
  unfold determine_block_hints. eapply sfo_bind; [apply sfo_get|]. intros s0 _. destruct text as [|c0 t]; [apply sfo_ret; reflexivity|].
  apply sfo_ret. rewrite okd_app. apply andb_true_intro. split.
  - destruct (mem c0 (SP :: brk4)); [apply okd_dec|reflexivity].
  - destruct (negb _); [reflexivity|]. destruct (_ || _); reflexivity.
Qed.
Lemma sfo_write_folded text : clean text -> sfr (write_folded text).
Proof.
  intros Ht. unfold write_folded. eapply sfo_bind; [apply sfo_determine_block_hints|]. intros h Hh.
  apply sfr_bind; [apply sfo_write_indicator; cbn; exact Hh|]. intros _.
  assert (H : sfr (fo_loop (length text + 2) text 0 0 true false true)) by (apply sfo_fo_loop; [exact Ht|intros _ Hb; discriminate Hb]). so.
Qed.
Lemma sfo_write_literal text : clean text -> sfr (write_literal text).
Proof.
  intros Ht. unfold write_literal. eapply sfo_bind; [apply sfo_determine_block_hints|]. intros h Hh.
  apply sfr_bind; [apply sfo_write_indicator; cbn; exact Hh|]. intros _.
  assert (H : sfr (li_loop (length text + 2) text 0 0 true)) by (apply sfo_li_loop; [exact Ht|intros _ Hb; discriminate Hb]). so.
Qed.

(* plain: the text has no break character at all (EmitSafe.plain_nobrk) and no CR *)
Lemma okd_plain text : clean text -> EmitSafe.nobrk text -> okd text = true.
Proof.
  unfold clean, EmitSafe.nobrk, okd. rewrite !forallb_forall. intros H1 H2 c Hc. specialize (H1 c Hc). specialize (H2 c Hc).
  unfold okc. rewrite H1, andb_true_r. unfold mem, brk4, LF in H2. cbn [existsb] in H2. apply negb_true_iff in H2. apply orb_false_iff in H2 as [H2 _]. rewrite H2. reflexivity.
Qed.
Lemma okd_firstn n d : okd d = true -> okd (firstn n d) = true.
Proof. revert d. induction n as [|n IH]; intros [|c d] H; cbn in *; auto. apply andb_prop in H as [H1 H2]. rewrite H1. cbn. auto. Qed.
Lemma okd_skipn n d : okd d = true -> okd (skipn n d) = true.
Proof. revert d. induction n as [|n IH]; intros [|c d] H; cbn in *; auto. apply andb_prop in H as [H1 H2]. auto. Qed.
Lemma okd_slice d a b : okd d = true -> okd (slice d a b) = true.
Proof. intros H. unfold slice. apply okd_firstn, okd_skipn, H. Qed.
Lemma sfo_pl_loop text split : okd text = true -> EmitSafe.nobrk text -> forall fuel e st spaces, sfr (pl_loop fuel text split e st spaces false).
Proof.
  intros Ht Hn. pose proof (okd_slice text) as Hsl. induction fuel as [|f IH]; intros e st spaces; cbn [pl_loop]; [so|].
  destruct (Nat.ltb (length text) e); [so|].
  apply sfr_bind.
  - destruct spaces; so; apply sfo_write_col, Hsl, Ht.
  - intros st'. destruct (Nat.ltb e (length text)); [|apply IH].
    destruct (nth_cp text e) as [c|] eqn:Ec; [|apply IH]. rewrite (EmitSafe.nobrk_nth _ _ _ Hn Ec). apply IH.
Qed.
Lemma sfo_write_plain text split : clean text -> EmitSafe.nobrk text -> sfr (write_plain text split).
Proof.
  intros Ht Hn. unfold write_plain. pose proof (sfo_pl_loop text split (okd_plain _ Ht Hn) Hn). apply sfr_bind; [so|]. intros s0. apply sfr_bind; [so|]. intros _.
  destruct text; [so|]. apply sfr_bind; [so|]. intros s1. so.
Qed.

(* double quoted *)
Lemma okc_hexdigit n : okc (hexdigit n) = true.
Proof. unfold hexdigit. destruct (N.ltb n 10); apply okc_range; lia. Qed.
Lemma okd_hex2 n : okd (hex2 n) = true. Proof. unfold hex2. rewrite !okd_cons, !okc_hexdigit. reflexivity. Qed.
Lemma okd_hex4 n : okd (hex4 n) = true. Proof. unfold hex4. rewrite okd_app, !okd_hex2. reflexivity. Qed.
Lemma okd_hex8 n : okd (hex8 n) = true. Proof. unfold hex8. rewrite okd_app, !okd_hex4. reflexivity. Qed.
Lemma okc_dq_escape c x : dq_escape c = Some x -> okc x = true.
Proof.
  unfold dq_escape. repeat match goal with |- context [if ?b then _ else _] => destruct b end; intros E; try discriminate E; injection E as <-; reflexivity.
Qed.
Lemma dq_plain_ok au c : dq_special au c = false -> okc c = true.
Proof.
  unfold dq_special. intros H. apply orb_false_iff in H as [_ H]. apply negb_false_iff in H. apply orb_prop in H as [H|H].
  - apply andb_prop in H as [H _]. apply N.leb_le in H. apply okc_range, H.
  - apply andb_prop in H as [_ H]. apply okc_range. apply orb_prop in H as [H|H]; apply andb_prop in H as [H _]; apply N.leb_le in H; lia.
Qed.
Lemma sfo_dq_loop text split : forall fuel e st, (e <= length text -> allr okc text st e) -> sfr (dq_loop fuel text split e st).
Proof.
  induction fuel as [|f IH]; intros e st H; cbn [dq_loop]; [so|].
  destruct (Nat.ltb (length text) e) eqn:El; [so|]. apply Nat.ltb_ge in El. specialize (H El).
  apply sfr_bind; [so|]. intros s0.
  pose proof (slice_allr okc text st e H) as Hsl.
  apply sfo_bind with (P := fun st1 => e < length text -> allr okc text st1 (S e)).
  - destruct (Nat.ltb e (length text)) eqn:El2.
    + apply Nat.ltb_lt in El2. destruct (EmitSafe.nth_cp_some text e El2) as [c Ec]. rewrite Ec.
      destruct (dq_special (allow_unicode s0) c) eqn:Esp.
      * apply sfr_bind; [destruct (Nat.ltb st e); [apply sfr_bind; [apply sfo_write_col, Hsl|intros _; so]|so]|]. intros st1. apply sfr_bind.
        { apply sfo_write_col. destruct (dq_escape c) as [x|] eqn:Ex; [rewrite !okd_cons, (okc_dq_escape _ _ Ex); reflexivity|].
          destruct (N.leb c 255); [rewrite okd_app, okd_hex2; reflexivity|]. destruct (N.leb c 65535); [rewrite okd_app, okd_hex4|rewrite okd_app, okd_hex8]; reflexivity. }
        intros _. apply sfo_ret. intros _. apply allr_empty. lia.
      * apply sfo_ret. intros _. eapply allr_snoc; [exact H|exact Ec|eapply dq_plain_ok, Esp].
    + apply Nat.ltb_ge in El2. eapply sfo_bind with (P := fun _ => True).
      { destruct (Nat.ltb st e); [apply sfr_bind; [apply sfo_write_col, Hsl|intros _; so]|so]. }
      intros st1 _. apply sfo_ret. intros Hlt. lia.
  - intros st1 Hst1. apply sfr_bind; [so|]. intros s1.
    apply sfo_bind with (P := fun st2 => e < length text -> allr okc text st2 (S e)).
    + destruct (Nat.ltb 0 e && Nat.ltb e (length text - 1)) eqn:Eb; cbn [andb]; [|apply sfo_ret; exact Hst1].
      match goal with |- sfo (if ?b then _ else _) _ => destruct b end; [|apply sfo_ret; exact Hst1].
      apply andb_prop in Eb as [_ Eb]. apply Nat.ltb_lt in Eb. assert (Hlt : e < length text) by lia.
      apply sfr_bind.
      { apply sfo_write_col. rewrite okd_app. apply andb_true_intro. split; [|reflexivity]. apply (slice_allr okc). intros i H1 H2. apply (Hst1 Hlt); lia. }
      intros _. apply sfr_bind; [so|]. intros _. apply sfr_bind; [so|]. intros _. apply sfr_bind; [so|]. intros _.
      apply sfo_ret. intros _ i H1 H2. apply (Hst1 Hlt); [|exact H2]. destruct (Nat.ltb st1 e) eqn:E1; [apply Nat.ltb_lt in E1; lia|exact H1].
    + intros st2 Hst2. apply IH. intros Hle. apply Hst2. lia.
Qed.
Lemma sfo_write_double_quoted text split : sfr (write_double_quoted text split).
Proof. unfold write_double_quoted. assert (H : sfr (dq_loop (length text + 2) text split 0 0)) by (apply sfo_dq_loop; intros _; apply allr_empty; lia). so. Qed.

(* ---------- analysis: no special character means no CR (whatever allow_unicode is) ---------- *)
Lemma analyze_step_sp au len sc f idx ch : special (analyze_step au len sc f idx ch) = false -> special f = false /\ N.eqb ch 13 = false.
Proof.
  unfold analyze_step.
  destruct (if Nat.eqb idx 0 then _ else _) as [fi bi].
  assert (E : forall b : bool, (special f || (if negb (N.eqb ch LF || (N.leb 32 ch && N.leb ch 126)) then if is_unicode_ok ch then b else true else false)) = false ->
              special f = false /\ N.eqb ch 13 = false).
  { intros b H. apply orb_false_iff in H as [H1 H2]. split; [exact H1|]. destruct (N.eqb ch 13) eqn:E13; [|reflexivity]. apply N.eqb_eq in E13. subst ch. cbn in H2. discriminate H2. }
  destruct (N.eqb ch SP); [cbn [special]; apply E|]. destruct (mem ch brk4); cbn [special]; apply E.
Qed.
Lemma analyze_loop_sp au len sc : forall rest_ idx f, special (analyze_loop au len sc rest_ idx f) = false -> special f = false /\ clean rest_.
Proof.
  induction rest_ as [|c r IH]; intros idx f H; cbn [analyze_loop] in H; [split; [exact H|reflexivity]|].
  apply IH in H as [H1 H2]. apply analyze_step_sp in H1 as [H3 H4]. split; [exact H3|]. unfold clean in *. cbn [forallb]. rewrite H4, H2. reflexivity.
Qed.
Lemma a_single_clean au v : a_single (analyze_scalar au v) = true -> clean v.
Proof.
  unfold analyze_scalar. destruct v as [|c v]; [reflexivity|]. cbn [a_single]. set (f := analyze_loop _ _ _ _ _ _). intros H.
  apply andb_prop in H as [_ H]. apply negb_true_iff in H. apply orb_false_iff in H as [_ H]. unfold f in H. apply analyze_loop_sp in H. apply H.
Qed.
Lemma a_block_clean au v : a_block (analyze_scalar au v) = true -> clean v.
Proof.
  unfold analyze_scalar. destruct v as [|c v]; [reflexivity|]. cbn [a_block]. set (f := analyze_loop _ _ _ _ _ _). intros H.
  apply andb_prop in H as [_ H]. apply negb_true_iff in H. apply orb_false_iff in H as [_ H]. unfold f in H. apply analyze_loop_sp in H. apply H.
Qed.
Lemma a_plain_clean au v : a_flow_plain (analyze_scalar au v) = true \/ a_block_plain (analyze_scalar au v) = true -> clean v.
Proof.
  unfold analyze_scalar. destruct v as [|c v]; [reflexivity|]. cbn [a_flow_plain a_block_plain]. set (f := analyze_loop _ _ _ _ _ _). intros H.
  assert (H' : negb (sp_br f || special f) = true).
  { destruct H as [H|H]; apply andb_prop in H as [H _]; apply andb_prop in H as [H _]; apply andb_prop in H as [_ H]; exact H. }
  apply negb_true_iff in H'. apply orb_false_iff in H' as [_ H']. unfold f in H'. apply analyze_loop_sp in H'. apply H'.
Qed.

(* ---------- prepared anchors, handles, prefixes and tags hold neither CR nor LF ---------- *)
Lemma alnum_okc c : is_alnum_ c = true -> okc c = true.
Proof.
  unfold is_alnum_. intros H. apply okc_range.
  repeat (apply orb_prop in H as [H|H]); try (apply andb_prop in H as [H1 H2]; apply N.leb_le in H1, H2; lia); apply N.eqb_eq in H; subst c; lia.
Qed.
Lemma alnum_okd d : forallb is_alnum_ d = true -> okd d = true.
Proof. unfold okd. rewrite !forallb_forall. intros H x Hx. apply alnum_okc, H, Hx. Qed.
Lemma mem_okc c l : okd l = true -> mem c l = true -> okc c = true.
Proof.
  unfold mem. intros Hl H. apply existsb_exists in H as (x & Hx & E). apply N.eqb_eq in E. subst x. eapply okd_In; eauto.
Qed.
Lemma okd_pct_escape c : okd (pct_escape c) = true.
Proof.
  unfold pct_escape. induction (utf8_encode c) as [|b l IH]; [reflexivity|]. cbn [flat_map]. rewrite okd_app, IH, andb_true_r.
  rewrite okd_cons, okd_hex2. reflexivity.
Qed.
Lemma okd_flat_map (f : cp -> str) l : (forall c, okd (f c) = true) -> okd (flat_map f l) = true.
Proof. intros H. induction l as [|c l IH]; [reflexivity|]. cbn [flat_map]. rewrite okd_app, H, IH. reflexivity. Qed.

Lemma sfo_prepare_anchor a : sfo (prepare_anchor a) (fun r => okd r = true).
Proof.
  unfold prepare_anchor. destruct a as [|c a]; [apply sfo_err|]. destruct (forallb is_alnum_ (c :: a)) eqn:E; [|apply sfo_err].
  apply sfo_ret. apply alnum_okd, E.
Qed.
Lemma okd_removelast r : r <> [] -> okd (removelast r) = true -> okc (last r 0%N) = true -> okd r = true.
Proof. intros Hr H1 H2. transitivity (okd (removelast r ++ [last r 0%N])); [f_equal; apply app_removelast_last, Hr|]. rewrite okd_app, H1, okd_cons, H2. reflexivity. Qed.
Lemma handle_chars_ok c r : negb (N.eqb c 33) || negb (N.eqb (last (c :: r) 0%N) 33) = false ->
  forallb is_alnum_ (slice (c :: r) 1 (length (c :: r) - 1)) = true -> okd (c :: r) = true.
Proof.
  intros E Ea. apply orb_false_iff in E as [E1 E2]. apply negb_false_iff in E1, E2. apply N.eqb_eq in E1, E2. subst c.
  rewrite okd_cons. replace (okc 33%N) with true by reflexivity. cbn [andb]. destruct r as [|c1 r1]; [reflexivity|].
  apply okd_removelast; [discriminate| |].
  - unfold slice in Ea. cbn [skipn length] in Ea. rewrite removelast_firstn_len. cbn [length pred].
    replace (S (S (length r1)) - 1 - 1) with (length r1) in Ea by lia. apply alnum_okd, Ea.
  - change (last (33%N :: c1 :: r1) 0%N) with (last (c1 :: r1) 0%N) in E2. exact (eq_trans (f_equal okc E2) eq_refl).
Qed.
Lemma sfo_prepare_tag_handle h : sfo (prepare_tag_handle h) (fun r => okd r = true).
Proof.
  unfold prepare_tag_handle. destruct h as [|c r]; [apply sfo_err|].
  destruct (negb (N.eqb c 33) || negb (N.eqb (last (c :: r) 0%N) 33)) eqn:E; [apply sfo_err|].
  destruct (forallb is_alnum_ (slice (c :: r) 1 (length (c :: r) - 1))) eqn:Ea; [|apply sfo_err].
  apply sfo_ret. apply handle_chars_ok; assumption.
Qed.
Lemma okd_uri_ok : okd (33%N :: uri_ok) = true. Proof. reflexivity. Qed.
Lemma sfo_prepare_tag_prefix p : sfo (prepare_tag_prefix p) (fun r => okd r = true).
Proof.
  unfold prepare_tag_prefix. destruct p as [|c r]; [apply sfo_err|].
  assert (Hf : forall body, okd (flat_map (fun ch => if is_alnum_ ch || mem ch (33%N :: uri_ok) then [ch] else pct_escape ch) body) = true).
  { intros body. apply okd_flat_map. intros ch. destruct (is_alnum_ ch) eqn:E1; cbn [orb].
    - rewrite okd_cons, (alnum_okc _ E1). reflexivity.
    - destruct (mem ch (33%N :: uri_ok)) eqn:E2; [rewrite okd_cons, (mem_okc _ _ okd_uri_ok E2); reflexivity|apply okd_pct_escape]. }
  destruct (N.eqb c 33) eqn:E; apply sfo_ret; rewrite okd_app, Hf, andb_true_r; [|reflexivity]. apply N.eqb_eq in E. subst c. reflexivity.
Qed.

Lemma In_sorted_insert x y l : In x (sorted_insert y l) -> x = y \/ In x l.
Proof.
  induction l as [|z l IH]; cbn [sorted_insert]; [intros [H|[]]; auto|].
  match goal with |- In _ (if ?b then _ else _) -> _ => destruct b end; cbn [In]; intros H; [intuition|]. destruct H as [H|H]; [auto|]. apply IH in H. intuition.
Qed.
Lemma In_sort_by_key x l : In x (sort_by_key l) -> In x l.
Proof.
  unfold sort_by_key. induction l as [|y l IH]; cbn [fold_right]; [auto|]. intros H. apply In_sorted_insert in H as [->|H]; [left; reflexivity|right; auto].
Qed.
Lemma sfo_prepare_tag t : sfo (prepare_tag t) (fun r => okd r = true).
Proof.
  unfold prepare_tag. destruct t as [|c t]; [apply sfo_err|]. destruct (str_eqb (c :: t) [33%N]) eqn:E.
  - apply sfo_ret. destruct t; [|cbn in E; rewrite andb_false_r in E; discriminate]. cbn in E. rewrite andb_true_r in E. apply N.eqb_eq in E. subst c. reflexivity.
  - intros Q s Hp HQ. apply wpo_bind, wpo_get.
    assert (Ht : forallb (fun ph : str * str => okd (snd ph)) (sort_by_key (tag_prefixes s)) = true).
    { apply forallb_forall. intros x Hx. apply In_sort_by_key in Hx. destruct Hp as (_ & _ & _ & _ & _ & Hp & _). rewrite forallb_forall in Hp. apply Hp, Hx. }
    revert Ht. generalize (sort_by_key (tag_prefixes s)). intros prefixes Ht.
    match goal with |- context [fold_left ?f prefixes ?a] => set (F := f) end.
    assert (Hh : forall acc, (match fst acc with Some h => okd h = true | None => True end) ->
                 match fst (fold_left F prefixes acc) with Some h => okd h = true | None => True end).
    { induction prefixes as [|[p h] l IH]; intros acc Ha; cbn [fold_left]; [exact Ha|]. cbn [forallb snd] in Ht. apply andb_prop in Ht as [Ht1 Ht2].
      apply IH; [exact Ht2|]. unfold F. destruct (_ && _); [exact Ht1|exact Ha]. }
    match goal with |- context [fold_left F prefixes ?a] => specialize (Hh a Logic.I); destruct (fold_left F prefixes a) as [handle suffix] end. cbn [fst] in Hh.
    assert (Hs : forall hb, okd (flat_map (fun ch => if is_alnum_ ch || mem ch uri_ok || (N.eqb ch 33 && negb hb) then [ch] else pct_escape ch) suffix) = true).
    { intros hb. apply okd_flat_map. intros ch. destruct (is_alnum_ ch) eqn:E1; cbn [orb]; [rewrite okd_cons, (alnum_okc _ E1); reflexivity|].
      destruct (mem ch uri_ok) eqn:E2; cbn [orb]; [rewrite okd_cons, (mem_okc ch uri_ok eq_refl E2); reflexivity|].
      destruct (N.eqb ch 33 && negb hb) eqn:E3; [|apply okd_pct_escape]. apply andb_prop in E3 as [E3 _]. apply N.eqb_eq in E3. subst ch. reflexivity. }
    destruct handle as [[|h0 h]|]; apply wpo_ret; apply HQ; try exact Hp; try reflexivity.
    + rewrite !okd_app, Hs. reflexivity.
    + rewrite okd_app, Hh, Hs. reflexivity.
    + rewrite !okd_app, Hs. reflexivity.
Qed.

(* ---------- the same with the event in hand known ---------- *)
Definition sfoe {A} (e : event) (m : M A) (P : A -> Prop) : Prop :=
  forall (Q : A -> st -> Prop) s, PI s -> cur_ev s = Some e -> (forall a s', PI s' -> cur_ev s' = Some e -> P a -> Q a s') -> wpo m Q s.
Lemma sfoe_of {A} e (m : M A) P : sfo m P -> sfoe e m P.
Proof. intros H Q s Hp Hc HQ. apply H; [exact Hp|]. intros a s' P1 C1 Pa. apply HQ; [exact P1|congruence|exact Pa]. Qed.
Lemma sfoe_bind {A B} e (m : M A) (k : A -> M B) P R : sfoe e m P -> (forall a, P a -> sfoe e (k a) R) -> sfoe e (bind m k) R.
Proof.
  intros Hm Hk Q s Hp Hc HQ. apply wpo_bind. apply Hm; [exact Hp|exact Hc|]. intros a s1 P1 C1 Pa.
  apply (Hk a Pa); [exact P1|exact C1|]. intros b s2 P2 C2 Rb. apply HQ; assumption.
Qed.
Lemma sfoe_rbind {A B} e (m : M A) (k : A -> M B) R : sfoe e m (fun _ => True) -> (forall a, sfoe e (k a) R) -> sfoe e (bind m k) R.
Proof. intros Hm Hk. eapply sfoe_bind; [exact Hm|]. intros a _. apply Hk. Qed.
Lemma sfoe_cur e : sfoe e cur (fun x => x = e).
Proof. intros Q s Hp Hc HQ. unfold cur. apply wpo_bind, wpo_get. rewrite Hc. apply wpo_ret. apply HQ; auto. Qed.
Lemma sfoe_weaken {A} e (m : M A) (P R : A -> Prop) : sfoe e m P -> (forall a, P a -> R a) -> sfoe e m R.
Proof. intros H HPR Q s Hp Hc HQ. apply H; auto. Qed.
Lemma sfo_get_pi : sfo get PI.
Proof. intros Q s Hp HQ. apply wpo_get. apply HQ; auto. Qed.

Definition with_prep' := with_prep.
Lemma PI_prep a t an y s : PI s -> okopt a -> okopt t ->
  (match cur_ev s with Some e => AOK (EmitSafe.vof e) an /\ SOK (EmitSafe.vof e) y | None => True end) -> PI (with_prep a t an y s).
Proof. unfold PI. cbn. intuition. Qed.

Lemma sfoe_get_analysis e : sfoe e (get_analysis (EmitSafe.vof e)) (fun a => exists au, a = analyze_scalar au (EmitSafe.vof e)).
Proof.
  intros Q s Hp Hc HQ. unfold get_analysis. apply wpo_bind, wpo_get.
  assert (Hc' : AOK (EmitSafe.vof e) (anal s) /\ SOK (EmitSafe.vof e) (sty s)) by (destruct Hp as (_ & _ & _ & _ & _ & _ & Hp); rewrite Hc in Hp; exact Hp).
  destruct (anal s) as [a|] eqn:Ea.
  - apply wpo_ret. apply HQ; [exact Hp|exact Hc|apply Hc'].
  - apply wpo_bind, wpo_modify, wpo_ret. apply HQ; [|exact Hc|eauto].
    apply PI_prep; [exact Hp|apply Hp|apply Hp|]. rewrite Hc. split; [cbn; eauto|apply Hc'].
Qed.
Lemma sfoe_choose e i0 style : sfoe e (choose_scalar_style i0 (EmitSafe.vof e) style) (COK (EmitSafe.vof e)).
Proof.
  unfold choose_scalar_style. eapply sfoe_bind; [apply sfoe_get_analysis|]. intros a [au ->].
  apply sfoe_rbind; [apply sfoe_of, sfo_get|]. intros s0.
  destruct (_ || canonical s0); [apply sfoe_of, sfo_ret; split; intros H; congruence|].
  match goal with |- sfoe _ (if ?b then _ else _) _ => destruct b eqn:Ep end.
  - apply sfoe_of, sfo_ret.
    assert (Hp : a_flow_plain (analyze_scalar au (EmitSafe.vof e)) = true \/ a_block_plain (analyze_scalar au (EmitSafe.vof e)) = true).
    { apply andb_prop in Ep as [_ Ep]. apply orb_prop in Ep as [Ep|Ep]; apply andb_prop in Ep as [_ Ep]; auto. }
    split; intros _; [apply (a_plain_clean au), Hp|apply (EmitSafe.plain_nobrk au), Hp].
  - match goal with |- sfoe _ (if ?b then _ else _) _ => destruct b eqn:Eb end.
    + apply sfoe_of, sfo_ret. split; [intros _; apply (a_block_clean au); apply andb_prop in Eb as [_ Eb]; exact Eb|destruct style as [[]|]; discriminate].
    + match goal with |- sfoe _ (if ?b then _ else _) _ => destruct b eqn:Es end; apply sfoe_of, sfo_ret; (split; [|discriminate]); [|intros H; congruence].
      intros _. apply (a_single_clean au). apply andb_prop in Es as [Es _]. apply andb_prop in Es as [_ Es]. exact Es.
Qed.
Lemma sfoe_get_style e i0 style : sfoe e (get_style i0 (EmitSafe.vof e) style) (COK (EmitSafe.vof e)).
Proof.
  intros Q s Hp Hc HQ. unfold get_style. apply wpo_bind, wpo_get.
  assert (Hc' : AOK (EmitSafe.vof e) (anal s) /\ SOK (EmitSafe.vof e) (sty s)) by (destruct Hp as (_ & _ & _ & _ & _ & _ & Hp); rewrite Hc in Hp; exact Hp).
  destruct (sty s) as [c|] eqn:Es.
  - apply wpo_ret. apply HQ; [exact Hp|exact Hc|apply Hc'].
  - apply wpo_bind. apply (sfoe_choose e i0 style); [exact Hp|exact Hc|]. intros c s1 P1 C1 Pc.
    apply wpo_bind, wpo_modify, wpo_ret. apply HQ; [|exact C1|exact Pc].
    apply PI_prep; [exact P1|apply P1|apply P1|]. rewrite C1. split; [|exact Pc].
    destruct P1 as (_ & _ & _ & _ & _ & _ & P1). rewrite C1 in P1. apply P1.
Qed.

(* ---------- anchors, tags, scalars ---------- *)
Lemma sfo_clear_prep_tag : sfr clear_prep_tag.
Proof.
  unfold clear_prep_tag. apply sfo_modify. intros s Hp. split; [|reflexivity]. apply PI_prep; [exact Hp|apply Hp|exact Logic.I|].
  destruct Hp as (_ & _ & _ & _ & _ & _ & Hp). destruct (cur_ev s); exact Hp.
Qed.
Local Hint Resolve sfo_clear_prep_tag : sodb.
Lemma sfo_process_anchor i : okc i = true -> sfr (process_anchor i).
Proof.
  intros Hi. unfold process_anchor. apply sfr_bind; [so|]. intros e.
  assert (Hclr : sfr (modify (fun s => with_prep None (prep_tag s) (anal s) (sty s) s))).
  { apply sfo_modify. intros s Hp. split; [|reflexivity]. apply PI_prep; [exact Hp|exact Logic.I|apply Hp|].
    destruct Hp as (_ & _ & _ & _ & _ & _ & Hp). destruct (cur_ev s); exact Hp. }
  destruct (ev_anchor e) as [a|]; [|exact Hclr].
  eapply sfo_bind; [apply sfo_get_pi|]. intros s0 Hp0.
  apply sfo_bind with (P := fun pa => okd pa = true).
  - destruct (prep_anchor s0) as [p|] eqn:Ep; [apply sfo_ret; destruct Hp0 as (_ & _ & _ & Hp0 & _); rewrite Ep in Hp0; exact Hp0|apply sfo_prepare_anchor].
  - intros pa Hpa. apply sfr_bind; [|intros _; exact Hclr]. destruct pa; [so|]. apply sfo_write_indicator. rewrite okd_cons, Hi, Hpa. reflexivity.
Qed.
Lemma sfo_emit_tag t : sfr (emit_tag t).
Proof.
  unfold emit_tag. destruct t as [t|]; [|so]. eapply sfo_bind; [apply sfo_get_pi|]. intros s0 Hp0.
  apply sfo_bind with (P := fun pt => okd pt = true).
  - destruct (prep_tag s0) as [p|] eqn:Ep; [apply sfo_ret; destruct Hp0 as (_ & _ & _ & _ & Hp0 & _); rewrite Ep in Hp0; exact Hp0|apply sfo_prepare_tag].
  - intros pt Hpt. apply sfr_bind; [|intros _; so]. destruct pt; [so|]. apply sfo_write_indicator, Hpt.
Qed.
Local Hint Resolve sfo_emit_tag : sodb.
Lemma sfoe_process_tag e : sfoe e process_tag (fun _ => True).
Proof.
  unfold process_tag. eapply sfoe_bind; [apply sfoe_cur|]. intros x ->. apply sfoe_rbind; [apply sfoe_of, sfo_get|]. intros s0.
  destruct e; try (apply sfoe_of; solve [so]).
  eapply sfoe_bind; [apply (sfoe_get_style (EScalar anchor tag impl0 impl1 value style))|]. intros c _. apply sfoe_of. so.
Qed.

Lemma sfoe_check_simple_key e : sfoe e check_simple_key (fun _ => True).
Proof.
  unfold check_simple_key. eapply sfoe_bind; [apply sfoe_cur|]. intros x ->.
  apply sfoe_rbind.
  { apply sfoe_of. destruct (if is_node_event e then ev_anchor e else None) as [a|]; [|so].
    eapply sfo_bind; [apply sfo_get_pi|]. intros s0 Hp0. apply sfr_bind; [|intros pa; so].
    destruct (prep_anchor s0); [so|]. eapply sfo_bind; [apply sfo_prepare_anchor|]. intros p Hp. apply sfr_bind; [|intros _; so].
    apply sfo_modify. intros s Hs. split; [|reflexivity]. apply PI_prep; [exact Hs|exact Hp|apply Hs|].
    destruct Hs as (_ & _ & _ & _ & _ & _ & Hs). destruct (cur_ev s); exact Hs. }
  intros l1. apply sfoe_rbind.
  { apply sfoe_of.
    assert (Ht : forall t, sfr (s <- get ;; pt <- (match prep_tag s with Some p => ret p | None =>
                      p <- prepare_tag t ;; modify (fun s => with_prep (prep_anchor s) (Some p) (anal s) (sty s) s) ;;; ret p end) ;; ret (length pt))).
    { intros t. eapply sfo_bind; [apply sfo_get_pi|]. intros s0 Hp0. apply sfr_bind; [|intros pt; so].
      destruct (prep_tag s0); [so|]. eapply sfo_bind; [apply sfo_prepare_tag|]. intros p Hp. apply sfr_bind; [|intros _; so].
      apply sfo_modify. intros s Hs. split; [|reflexivity]. apply PI_prep; [exact Hs|apply Hs|exact Hp|].
      destruct Hs as (_ & _ & _ & _ & _ & _ & Hs). destruct (cur_ev s); exact Hs. }
    destruct e; try (apply sfo_ret; exact Logic.I); destruct tag; try (apply sfo_ret; exact Logic.I); apply Ht. }
  intros l2. apply sfoe_rbind.
  { destruct e; try (apply sfoe_of, sfo_ret; exact Logic.I).
    eapply sfoe_bind; [apply (sfoe_get_analysis (EScalar anchor tag impl0 impl1 value style))|]. intros a _. apply sfoe_of, sfo_ret. exact Logic.I. }
  intros l3. apply sfoe_of. so.
Qed.

Lemma sfoe_process_scalar e : sfoe e process_scalar (fun _ => True).
Proof.
  unfold process_scalar. eapply sfoe_bind; [apply sfoe_cur|]. intros x ->. destruct e; try (apply sfoe_of; solve [so]).
  set (e := EScalar anchor tag impl0 impl1 value style).
  eapply sfoe_bind; [apply (sfoe_get_analysis e)|]. intros a [au ->].
  eapply sfoe_bind; [apply (sfoe_get_style e)|]. intros c [Hc Hn]. cbn [EmitSafe.vof e] in Hc, Hn.
  apply sfoe_rbind; [apply sfoe_of, sfo_get|]. intros s0. rewrite EmitSafe.a_scalar_analyze. cbn [EmitSafe.vof e].
  apply sfoe_rbind.
  - apply sfoe_of. destruct c; [apply sfo_write_plain; [apply Hc; discriminate|apply Hn; reflexivity]|apply sfo_write_double_quoted|apply sfo_write_single_quoted, Hc; discriminate
                                 |apply sfo_write_literal, Hc; discriminate|apply sfo_write_folded, Hc; discriminate].
  - intros _. apply sfoe_of. apply sfo_modify. intros s Hs. split; [|reflexivity]. apply PI_prep; [exact Hs|apply Hs|apply Hs|].
    destruct (cur_ev s); cbn; auto.
Qed.

(* ---------- the state machine ---------- *)
Lemma sfo_push_state x : sfr (push_state x). Proof. unfold push_state. so. Qed.
Lemma sfo_set_state x : sfr (set_state x). Proof. unfold set_state. so. Qed.
Lemma sfo_pop_state : sfr pop_state. Proof. unfold pop_state. apply sfr_bind; [so|]. intros s0. destruct (rev (states s0)); so. Qed.
Lemma sfo_increase_indent a b : sfr (increase_indent a b).
Proof. unfold increase_indent. apply sfo_modify. intros s Hp. destruct (indent s); [destruct b|]; (split; [unfold PI in *; cbn; exact Hp|reflexivity]). Qed.
Lemma sfo_pop_indent : sfr pop_indent. Proof. unfold pop_indent. apply sfr_bind; [so|]. intros s0. destruct (rev (indents s0)); so. Qed.
Lemma sfo_check_empty_sequence : sfr check_empty_sequence. Proof. unfold check_empty_sequence. so. Qed.
Lemma sfo_check_empty_mapping : sfr check_empty_mapping. Proof. unfold check_empty_mapping. so. Qed.
Lemma sfo_check_empty_document : sfr check_empty_document. Proof. unfold check_empty_document. so. Qed.
Lemma sfo_col_over : sfr col_over. Proof. unfold col_over. so. Qed.
Local Hint Resolve sfo_push_state sfo_set_state sfo_pop_state sfo_increase_indent sfo_pop_indent sfo_check_empty_sequence sfo_check_empty_mapping
  sfo_check_empty_document sfo_col_over sfo_write_indicator sfo_process_anchor : sodb.

Ltac soe :=
  repeat first
    [ solve [auto] | solve [apply sfoe_of; so]
    | apply sfoe_rbind; [|intros ?]
    | match goal with
      | |- sfoe _ (if ?b then _ else _) _ => destruct b
      end ].

Lemma sfoe_expect_node e r q m k : sfoe e (expect_node r q m k) (fun _ => True).
Proof.
  unfold expect_node. apply sfoe_rbind; [apply sfoe_of; so|]. intros _.
  eapply sfoe_bind; [apply sfoe_cur|]. intros x ->. apply sfoe_rbind; [apply sfoe_of, sfo_get|]. intros s0.
  pose proof (sfoe_process_tag e) as Hpt. pose proof (sfoe_process_scalar e) as Hps.
  destruct e; try (apply sfoe_of; solve [so]).
  - apply sfoe_rbind; [apply sfoe_of; so|]. intros _. apply sfoe_rbind; [exact Hpt|]. intros _.
    apply sfoe_rbind; [apply sfoe_of; so|]. intros _. apply sfoe_rbind; [exact Hps|]. intros _. apply sfoe_of. so.
  - apply sfoe_rbind; [apply sfoe_of; so|]. intros _. apply sfoe_rbind; [exact Hpt|]. intros _. apply sfoe_of. so.
  - apply sfoe_rbind; [apply sfoe_of; so|]. intros _. apply sfoe_rbind; [exact Hpt|]. intros _. apply sfoe_of. so.
Qed.

Lemma sfoe_sock e a b cc indn : sfoe e (simple_or_complex_key a b cc indn) (fun _ => True).
Proof.
  unfold simple_or_complex_key. apply sfoe_rbind; [apply sfoe_of, sfo_get|]. intros s0.
  apply sfoe_rbind; [destruct (cc && canonical s0); [apply sfoe_of; so|apply sfoe_check_simple_key]|]. intros sk.
  pose proof (sfoe_expect_node e) as Hen. destruct sk.
  - apply sfoe_rbind; [apply sfoe_of; so|]. intros _. apply Hen.
  - apply sfoe_rbind; [apply sfoe_of; so|]. intros _. apply sfoe_rbind; [apply sfoe_of; so|]. intros _. apply Hen.
Qed.

Lemma sfo_write_version_directive v : okd v = true -> sfr (write_version_directive v).
Proof. intros Hv. unfold write_version_directive. apply sfr_bind; [apply sfo_write; rewrite okd_app, Hv; reflexivity|]. intros _. so. Qed.
Lemma sfo_write_tag_directive h p : okd h = true -> okd p = true -> sfr (write_tag_directive h p).
Proof. intros Hh Hp. unfold write_tag_directive. apply sfr_bind; [apply sfo_write; rewrite !okd_app, Hh, Hp; reflexivity|]. intros _. so. Qed.

Lemma okd_handle_cases h s : (prepare_tag_handle h s = Ok (h, s) /\ okd h = true) \/ (exists c, prepare_tag_handle h s = EmitErr c (out s)).
Proof.
  unfold prepare_tag_handle. destruct h as [|c r]; [right; eexists; reflexivity|].
  destruct (negb (N.eqb c 33) || negb (N.eqb (last (c :: r) 0%N) 33)) eqn:E; [right; eexists; reflexivity|].
  destruct (forallb is_alnum_ (slice (c :: r) 1 (length (c :: r) - 1))) eqn:Ea; [|right; eexists; reflexivity].
  left. split; [reflexivity|apply handle_chars_ok; assumption].
Qed.
Lemma assoc_set_ok p h l : okd h = true -> forallb (fun ph : str * str => okd (snd ph)) l = true -> forallb (fun ph : str * str => okd (snd ph)) (assoc_set p h l) = true.
Proof.
  intros Hh. induction l as [|[k v] l IH]; cbn [assoc_set forallb snd]; [rewrite Hh; reflexivity|]. intros H. apply andb_prop in H as [H1 H2].
  destruct (str_eqb p k); cbn [forallb snd]; [rewrite Hh, H2; reflexivity|rewrite H1, IH; auto].
Qed.
Lemma PI_prefixes v s : PI s -> forallb (fun ph : str * str => okd (snd ph)) v = true -> PI (with_prefixes v s).
Proof. unfold PI. cbn. intuition. Qed.

Lemma sfo_tag_directive h p : sfr (modify (fun s => with_prefixes (assoc_set p h (tag_prefixes s)) s) ;;;
                                    ht <- prepare_tag_handle h ;; pt <- prepare_tag_prefix p ;; write_tag_directive ht pt).
Proof.
  intros Q s Hp HQ. apply wpo_bind, wpo_modify. set (s1 := with_prefixes _ s).
  destruct (okd_handle_cases h s1) as [[E Hh]|[c E]].
  - assert (P1 : PI s1) by (apply PI_prefixes; [exact Hp|apply assoc_set_ok; [exact Hh|apply Hp]]).
    apply wpo_bind. unfold wpo at 1. rewrite E.
    apply wpo_bind. apply (sfo_prepare_tag_prefix p); [exact P1|]. intros pt s2 P2 C2 Hpt.
    apply (sfo_write_tag_directive h pt Hh Hpt); [exact P2|]. intros a s3 P3 C3 _. apply HQ; [exact P3|cbn in C2; congruence|exact Logic.I].
  - unfold wpo, bind. rewrite E. apply Hp.
Qed.

Lemma sfoe_expect_document_start e first : sfoe e (expect_document_start first) (fun _ => True).
Proof.
  unfold expect_document_start. eapply sfoe_bind; [apply sfoe_cur|]. intros x ->. apply sfoe_of.
  destruct e; try apply sfo_err; [so|].
  apply sfr_bind; [so|]. intros s0. apply sfr_bind; [so|]. intros _.
  apply sfr_bind.
  { destruct version as [[ma mi]|]; [|so]. destruct (negb (N.eqb ma 1)); [so|]. apply sfo_write_version_directive. rewrite !okd_app, !okd_dec. reflexivity. }
  intros _. apply sfr_bind.
  { apply sfo_modify. intros s Hs. split; [|reflexivity]. apply PI_prefixes; [exact Hs|reflexivity]. }
  intros _. apply sfr_bind.
  { apply (sfo_fold_left (fun hp : str * str => let '(h, p) := hp in
               modify (fun s => with_prefixes (assoc_set p h (tag_prefixes s)) s) ;;;
               ht <- prepare_tag_handle h ;; pt <- prepare_tag_prefix p ;; write_tag_directive ht pt)); [intros [h0 p0] _; apply sfo_tag_directive|so]. }
  intros _. so.
Qed.

Theorem sfoe_step e : sfoe e step (fun _ => True).
Proof.
  unfold step. apply sfoe_rbind; [apply sfoe_of, sfo_get|]. intros s0. eapply sfoe_bind; [apply sfoe_cur|]. intros x ->.
  pose proof (sfoe_expect_node e) as Hen. pose proof (sfoe_sock e) as Hsk. pose proof (sfoe_expect_document_start e) as Hds.
  destruct (state s0); try apply Hds; try (destruct e; soe); soe.
Qed.

(* ---------- the whole run ---------- *)
Lemma wp_wpo_conj {A} (m : M A) (Q1 Q2 : A -> st -> Prop) s : EmitSafe.wp m Q1 s -> wpo m Q2 s -> wpo m (fun a s' => Q1 a s' /\ Q2 a s') s.
Proof. unfold EmitSafe.wp, wpo. destruct (m s) as [[a s']| | |]; auto. Qed.
Lemma wp_wpo_crash {A} (m : M A) (Q1 Q2 : A -> st -> Prop) s : EmitSafe.wp m Q1 s -> wpo m Q2 s ->
  match m s with Ok (a, s') => Q1 a s' /\ Q2 a s' | EmitErr _ o => okout o | _ => False end.
Proof. unfold EmitSafe.wp, wpo. destruct (m s) as [[a s']| | |]; auto. Qed.

Lemma wpo_drain : forall fuel s stk p n, EmitSafe.snap s stk p n None None (events s) None -> EmitSafe.SInv p (rev stk) n -> length (events s) < fuel -> PI s ->
  wpo (drain fuel) (fun _ s' => EmitSafe.GI s' /\ PI s') s.
Proof.
  induction fuel as [|f IH]; intros s stk p n Hs Hi Hf Hp; [lia|]. cbn [drain]. apply wpo_bind, wpo_get.
  destruct (need_more_events (events s)) eqn:En; [apply wpo_ret; split; [exists stk, p, n; auto|exact Hp]|].
  destruct (events s) as [|e es] eqn:Ee; [discriminate En|].
  apply wpo_bind, wpo_modify.
  set (s1 := with_event (Some e) (with_events es s)).
  assert (Hs1 : EmitSafe.snap s1 stk p n None None es (Some e)) by (unfold EmitSafe.snap in *; cbn; intuition congruence).
  assert (Hp1 : PI s1).
  { assert (Ea : anal s = None) by apply Hs. assert (Ey : sty s = None) by apply Hs.
    unfold PI in *. cbn. rewrite Ea, Ey. cbn. intuition. }
  apply wpo_bind. eapply wpo_mono.
  { apply wp_wpo_conj; [eapply EmitSafe.wp_step; eassumption|apply (sfoe_step e); [exact Hp1|reflexivity|intros a s' P' C' _; exact (conj P' C')]]. }
  intros _ s2 [(stk' & p' & n' & Hs2 & Hi2) [P2 C2]].
  apply wpo_bind, wpo_modify.
  assert (Hs3 : EmitSafe.snap (with_event None s2) stk' p' n' None None (events (with_event None s2)) None) by (unfold EmitSafe.snap in *; cbn; intuition congruence).
  eapply IH; [exact Hs3|exact Hi2| |].
  - cbn. replace (events s2) with es by (symmetry; apply Hs2). cbn in Hf. lia.
  - unfold PI in *. cbn. intuition.
Qed.
Lemma wpo_emit1 e s : EmitSafe.GI s -> PI s -> wpo (emit1 e) (fun _ s' => EmitSafe.GI s' /\ PI s') s.
Proof.
  intros (stk & p & n & Hs & Hi & Hn) Hp. unfold emit1. apply wpo_bind, wpo_modify.
  eapply wpo_drain; [|exact Hi| |].
  - unfold EmitSafe.snap in *. cbn. intuition congruence.
  - cbn. rewrite app_length. apply EmitSafe.need_more_len in Hn. cbn. lia.
  - unfold PI in *. cbn. exact Hp.
Qed.

Lemma okout_rev o : okout o -> Forall chunk_ok (rev o).
Proof. unfold okout. rewrite !Forall_forall. intros H x Hx. apply H. apply in_rev. exact Hx. Qed.
Lemma emit_all_chunks : forall evs s, EmitSafe.GI s -> PI s -> Forall chunk_ok (fst (emit_all evs s)).
Proof.
  induction evs as [|e evs IH]; intros s Hg Hp; cbn [emit_all].
  - cbn [fst]. apply okout_rev. apply Hp.
  - pose proof (wp_wpo_crash _ _ _ s (EmitSafe.wp_emit1 e s Hg) (wpo_emit1 e s Hg Hp)) as H.
    destruct (emit1 e s) as [[[] s']| | |]; [apply IH; apply H|cbn [fst]; apply okout_rev; exact H|contradiction|contradiction].
Qed.
End WithLineBreak.

(* EVERY list of events, well-formed or not, EVERY option set (allow_unicode on or off): each chunk the emitter model hands to the stream -
   also before an EmitterError - is either the effective line break itself (CR, LF or CR LF, as requested) or contains neither CR nor LF.
   So every CR and LF of the output belongs to a requested line break. *)
Theorem line_breaks_are_the_requested_one : forall evs canon allow_uni ind width lb,
  let s0 := init canon allow_uni ind width lb in
  Forall (fun d => d = best_lb s0 \/ okd d = true) (fst (emit_all evs s0)).
Proof.
  intros evs canon allow_uni ind width lb s0. apply (emit_all_chunks (best_lb s0)); [apply EmitSafe.GI_init|].
  unfold PI, s0, init, okout. cbn. repeat split. constructor.
Qed.

(* non-vacuity: a text with CR, LF and NEL under line_break CR LF - the LF is written as CR LF, the CR and the NEL escaped *)
Example line_break_example :
  let evs := [EStreamStart; EDocStart false None []; EScalar None None true true [97; 10; 98]%N (Some StLiteral); EDocEnd false;
              EDocStart true None []; EScalar None None true true [97; 13; 133; 98]%N None; EDocEnd false; EStreamEnd] in
  fst (emit_all evs (init false true None None [13; 10]%N)) =
  [[124; 45]%N; [13; 10]%N; [32; 32]%N; [97%N]; [13; 10]%N; [32; 32]%N; [98%N]; [13; 10]%N; [45; 45; 45]%N; [32; 34]%N; [97%N]; [92; 114]%N; [92; 78]%N; [98%N]; [34%N]; [13; 10]%N].
Proof. vm_compute. reflexivity. Qed.

