From Coq Require Import List NArith Bool Lia.
Import ListNotations.
Require Import Regex.
Open Scope N_scope.

(* ---------- endpoints and classes ---------- *)
Definition pts_cset (s : cset) : list N := flat_map (fun p => [fst p; snd p + 1]) s.
Fixpoint pts (r : re) : list N :=
  match r with
  | Emp | Eps => [] | Chr s => pts_cset s
  | Cat a b | Alt a b | And a b => pts a ++ pts b | Star a | Not a => pts a end.

(* c and c' are on the same side of every point in P *)
Definition same_side (P : list N) (c c' : N) : Prop := forall p, In p P -> (p <=? c) = (p <=? c').

Lemma cin_same s c c' : same_side (pts_cset s) c c' -> cin c s = cin c' s.
Proof.
  unfold cin. induction s as [|[lo hi] s IH]; intros H; simpl; auto.
  f_equal.
  - unfold in_rng; simpl.
    assert (H1 : (lo <=? c) = (lo <=? c')) by (apply H; simpl; auto).
    assert (H2 : (hi + 1 <=? c) = (hi + 1 <=? c')) by (apply H; simpl; auto).
    rewrite H1. f_equal.
    destruct (c <=? hi) eqn:E1, (c' <=? hi) eqn:E2; auto;
      rewrite ?N.leb_le, ?N.leb_gt in *; exfalso.
    + assert (hi + 1 <=? c' = true) by (apply N.leb_le; lia). rewrite <- H2 in H0. apply N.leb_le in H0. lia.
    + assert (hi + 1 <=? c = true) by (apply N.leb_le; lia). rewrite H2 in H0. apply N.leb_le in H0. lia.
  - apply IH. intros p Hp. apply H. simpl. auto.
Qed.

Lemma same_side_app_l P Q c c' : same_side (P ++ Q) c c' -> same_side P c c'.
Proof. intros H p Hp. apply H. apply in_or_app; auto. Qed.
Lemma same_side_app_r P Q c c' : same_side (P ++ Q) c c' -> same_side Q c c'.
Proof. intros H p Hp. apply H. apply in_or_app; auto. Qed.

Lemma deriv_same r c c' : same_side (pts r) c c' -> deriv c r = deriv c' r.
Proof.
  induction r; simpl; intros H; auto.
  - rewrite (cin_same s c c'); auto.
  - rewrite IHr1, IHr2; eauto using same_side_app_l, same_side_app_r.
  - rewrite IHr1, IHr2; eauto using same_side_app_l, same_side_app_r.
  - rewrite IHr; auto.
  - rewrite IHr1, IHr2; eauto using same_side_app_l, same_side_app_r.
  - rewrite IHr; auto.
Qed.

(* points never grow under smart constructors / derivatives *)
Definition sub (P Q : list N) := forall p, In p P -> In p Q.
Lemma sub_refl P : sub P P. Proof. intros p; auto. Qed.
Lemma sub_nil P : sub [] P. Proof. intros p []. Qed.
Lemma sub_app P Q R : sub P R -> sub Q R -> sub (P ++ Q) R.
Proof. intros H1 H2 p Hp. apply in_app_or in Hp as [|]; auto. Qed.
Lemma sub_app_l P Q R : sub P Q -> sub P (Q ++ R).
Proof. intros H p Hp. apply in_or_app; auto. Qed.
Lemma sub_app_r P Q R : sub P R -> sub P (Q ++ R).
Proof. intros H p Hp. apply in_or_app; auto. Qed.
Lemma sub_trans P Q R : sub P Q -> sub Q R -> sub P R.
Proof. intros H1 H2 p Hp; auto. Qed.

Lemma pts_cat a b : sub (pts (cat a b)) (pts a ++ pts b).
Proof. unfold cat. destruct a, b; simpl; try apply sub_nil; try apply sub_refl;
  try (rewrite app_nil_r; apply sub_refl); try (apply sub_app_r; apply sub_refl); try (apply sub_app_l; apply sub_refl). Qed.
Lemma pts_alt a b : sub (pts (alt a b)) (pts a ++ pts b).
Proof.
  assert (G : sub (pts (if alt_mem a b then b else if alt_mem b a then a else Alt a b)) (pts a ++ pts b)).
  { destruct (alt_mem a b); [apply sub_app_r, sub_refl|]. destruct (alt_mem b a); [apply sub_app_l, sub_refl|apply sub_refl]. }
  unfold alt. destruct a; try exact G; destruct b; try exact G; simpl;
  try apply sub_nil; try apply sub_refl; try (rewrite app_nil_r; apply sub_refl).
Qed.
Lemma pts_and a b : sub (pts (and_ a b)) (pts a ++ pts b).
Proof.
  assert (G : sub (pts (if re_eqb a b then a else And a b)) (pts a ++ pts b)).
  { destruct (re_eqb a b); [apply sub_app_l, sub_refl|apply sub_refl]. }
  unfold and_. destruct a; try exact G; destruct b; try exact G; simpl; try apply sub_nil.
Qed.
Lemma pts_not a : sub (pts (not_ a)) (pts a).
Proof. unfold not_. destruct a; simpl; apply sub_refl. Qed.

Lemma pts_deriv c r : sub (pts (deriv c r)) (pts r).
Proof.
  induction r; simpl; try apply sub_nil.
  - destruct (cin c s); apply sub_nil.
  - assert (C : sub (pts (cat (deriv c r1) r2)) (pts r1 ++ pts r2)).
    { eapply sub_trans; [apply pts_cat|]. apply sub_app; [apply sub_app_l; auto|apply sub_app_r, sub_refl]. }
    destruct (nullable r1); auto.
    eapply sub_trans; [apply pts_alt|]. apply sub_app; auto. apply sub_app_r; auto.
  - eapply sub_trans; [apply pts_alt|]. apply sub_app; [apply sub_app_l|apply sub_app_r]; auto.
  - eapply sub_trans; [apply pts_cat|]. simpl. apply sub_app; auto. apply sub_refl.
  - eapply sub_trans; [apply pts_and|]. apply sub_app; [apply sub_app_l|apply sub_app_r]; auto.
  - eapply sub_trans; [apply pts_not|]. auto.
Qed.

(* ---------- representatives ---------- *)
(* rep P c = the largest point of (0 :: P) that is <= c *)
Fixpoint rep (P : list N) (c : N) (best : N) : N :=
  match P with [] => best | p :: P' => rep P' c (if (p <=? c) && (best <=? p) then p else best) end.

Lemma rep_spec P c : forall best, best <= c ->
  let m := rep P c best in m <= c /\ best <= m /\ (m = best \/ In m P) /\ (forall p, In p P -> p <= c -> p <= m).
Proof.
  induction P as [|q P IH]; intros best Hb; simpl.
  - repeat split; auto; try lia; try (intros p []).
  - destruct ((q <=? c) && (best <=? q)) eqn:E.
    + apply andb_prop in E as [E1 E2]. apply N.leb_le in E1, E2.
      destruct (IH q E1) as (A & B & C & D). repeat split; auto; try lia.
      * destruct C as [->|C]; auto.
      * intros p [->|Hp] Hpc; auto.
    + destruct (IH best Hb) as (A & B & C & D). repeat split; auto.
      * destruct C as [C|C]; auto.
      * intros p [->|Hp] Hpc; auto.
        apply andb_false_iff in E as [E|E]; apply N.leb_gt in E; lia.
Qed.

Lemma rep_same_side P c : same_side P c (rep P c 0).
Proof.
  intros p Hp. destruct (rep_spec P c 0 (N.le_0_l c)) as (A & _ & _ & D).
  destruct (p <=? c) eqn:E; symmetry.
  - apply N.leb_le. apply D; auto. apply N.leb_le; auto.
  - apply N.leb_gt. apply N.leb_gt in E. lia.
Qed.
Lemma rep_in P c : In (rep P c 0) (0 :: P).
Proof. destruct (rep_spec P c 0 (N.le_0_l c)) as (_ & _ & [->|C] & _); simpl; auto. Qed.

(* ---------- exploration ---------- *)
Fixpoint mem (x : re) (l : list re) : bool := match l with [] => false | y :: l' => re_eqb x y || mem x l' end.
Lemma mem_In x l : mem x l = true -> In x l.
Proof. induction l; simpl; [discriminate|]. intros H. apply orb_true_iff in H as [H|H]; auto. left. symmetry. apply re_eqb_eq; auto. Qed.

Fixpoint explore (fuel : nat) (rs : list N) (todo seen : list re) : option bool :=
  match fuel with O => None | S f =>
    match todo with
    | [] => Some true
    | r :: todo' =>
        if nullable r then Some false
        else if mem r seen then explore f rs todo' seen
        else explore f rs (map (fun c => deriv c r) rs ++ todo') (r :: seen)
    end end.

Definition closed (rs : list N) (S : list re) : Prop :=
  (forall s, In s S -> nullable s = false) /\ (forall s c, In s S -> In c rs -> In (deriv c s) S).

Lemma explore_sound rs : forall fuel todo seen,
  (forall s, In s seen -> nullable s = false) ->
  (forall s c, In s seen -> In c rs -> In (deriv c s) (todo ++ seen)) ->
  explore fuel rs todo seen = Some true ->
  exists S, closed rs S /\ (forall x, In x (todo ++ seen) -> In x S).
Proof.
  induction fuel as [|f IH]; intros todo seen Hn Hc H; simpl in H; [discriminate|].
  destruct todo as [|r todo'].
  - exists seen. split; [split|]; auto.
  - destruct (nullable r) eqn:En; [discriminate|].
    destruct (mem r seen) eqn:Em.
    + destruct (IH todo' seen Hn) as (S & HS & Hin); auto.
      * intros s c Hs Hcr. specialize (Hc s c Hs Hcr). simpl in Hc. destruct Hc as [<-|Hc]; auto.
        apply in_or_app. right. apply mem_In; auto.
      * exists S. split; auto. intros x [<-|Hx]; auto.
        apply Hin. apply in_or_app. right. apply mem_In; auto.
    + destruct (IH (map (fun c => deriv c r) rs ++ todo') (r :: seen)) as (S & HS & Hin); auto.
      * intros s [<-|Hs]; auto.
      * intros s c [<-|Hs] Hcr.
        -- apply in_or_app. left. apply in_or_app. left. apply in_map_iff. exists c; auto.
        -- specialize (Hc s c Hs Hcr). simpl in Hc. destruct Hc as [<-|Hc].
           ++ apply in_or_app. right. simpl; auto.
           ++ apply in_app_or in Hc as [Hc|Hc]; apply in_or_app; [left; apply in_or_app; right; auto|right; simpl; auto].
      * exists S. split; auto. intros x Hx. apply Hin. simpl in Hx.
        destruct Hx as [<-|Hx].
        -- apply in_or_app. right. simpl; auto.
        -- apply in_app_or in Hx as [Hx|Hx]; apply in_or_app; [left; apply in_or_app; right; auto|right; simpl; auto].
Qed.

Definition reps (r : re) : list N := 0 :: pts r.
Definition empty_dec (fuel : nat) (r : re) : option bool := explore fuel (reps r) [r] [].

Lemma closed_derivs P S : closed (0 :: P) S -> (forall s, In s S -> sub (pts s) P) ->
  forall w s, In s S -> In (derivs w s) S.
Proof.
  intros [Hn Hd] Hp. induction w as [|c w IH]; intros s Hs; simpl; auto.
  apply IH.
  rewrite (deriv_same s c (rep P c 0)).
  - apply Hd; auto. apply rep_in.
  - intros p Hpin. apply rep_same_side. apply (Hp s Hs); auto.
Qed.

(* restrict S to regexes whose points are within P: derivatives stay inside *)
Theorem empty_dec_sound fuel r : empty_dec fuel r = Some true -> forall w, matches r w = false.
Proof.
  unfold empty_dec. intros H.
  destruct (explore_sound (reps r) fuel [r] []) as (S & [Hn Hd] & Hin); auto.
  { intros s []. } { intros s c []. }
  (* S' := elements of S with points inside pts r *)
  set (good := fun s => In s S /\ sub (pts s) (pts r)).
  assert (G : forall w s, good s -> good (derivs w s)).
  { induction w as [|c w IH]; intros s Hs; simpl; auto. apply IH. destruct Hs as [Hs Hp]. split.
    - rewrite (deriv_same s c (rep (pts r) c 0)).
      + apply Hd; auto. apply rep_in.
      + intros p Hpin. apply rep_same_side. auto.
    - eapply sub_trans; [apply pts_deriv|auto]. }
  intros w. unfold matches. apply Hn. apply G. split; [apply Hin; simpl; auto|apply sub_refl].
Qed.

Theorem incl_dec_sound fuel r s :
  empty_dec fuel (And r (Not s)) = Some true -> forall w, matches r w = true -> matches s w = true.
Proof.
  intros H w Hr. pose proof (empty_dec_sound _ _ H w) as E.
  destruct (matches s w) eqn:Es; auto.
  assert (matches (And r (Not s)) w = true).
  { apply matches_ok. simpl. split. apply matches_ok; auto. intros Hs. apply matches_ok in Hs. congruence. }
  congruence.
Qed.
Print Assumptions incl_dec_sound.
