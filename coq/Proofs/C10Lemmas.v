(* C10 lemmas instantiated on the regenerated registration program (Gen/GenHistory.v). *)
From Coq Require Import List String Bool Arith.
Import ListNotations.
Require Import Registry RegistryProofs GenHistory.
Open Scope string_scope.

(* regenerated obligations: the six add_* classmethods have the copy-on-write shape the theorems assume *)
Lemma cow_ok : forall k, cow_of k = expected_cow k.
Proof. destruct k; reflexivity. Qed.
Lemma history_ok : forallb op_ok history = true.
Proof. vm_compute. reflexivity. Qed.
Lemma w0_wf : wf w0.
Proof. exact (run_wf cow_of cow_ok history history_ok). Qed.

Definition reach (h : list op) : world := run_from cow_of w0 h.
Lemma reach_wf h : forallb op_ok h = true -> wf (reach h).
Proof. intros H. exact (run_from_wf cow_of cow_ok h w0 H w0_wf). Qed.

Lemma l_add_effective h k c keys v : forallb op_ok h = true ->
  effective (step cow_of (reach h) (Add k c keys v)) c k = put k keys v (effective (reach h) c k).
Proof. intros H. exact (add_effective cow_of cow_ok (reach h) k c keys v (reach_wf h H)). Qed.

Lemma l_add_isolated h k c keys v d k' : forallb op_ok h = true ->
  (~ In c (mro_of (reach h) d) \/ k' <> k) ->
  effective (step cow_of (reach h) (Add k c keys v)) d k' = effective (reach h) d k'.
Proof. intros H. exact (add_isolated_unrelated cow_of cow_ok (reach h) k c keys v d k' (reach_wf h H)). Qed.

Lemma l_add_shadowed h k c keys v d pre post t0 : forallb op_ok h = true ->
  mro_of (reach h) d = (pre ++ c :: post)%list -> ~ In c pre -> first_own (own (reach h)) k pre = Some t0 ->
  effective (step cow_of (reach h) (Add k c keys v)) d k = effective (reach h) d k.
Proof. intros H. exact (add_isolated_shadowed cow_of cow_ok (reach h) k c keys v d pre post t0 (reach_wf h H)). Qed.

Lemma l_add_inherited h k c keys v d pre post : forallb op_ok h = true ->
  mro_of (reach h) d = (pre ++ c :: post)%list -> first_own (own (reach h)) k pre = None -> ~ In c pre ->
  effective (step cow_of (reach h) (Add k c keys v)) d k = effective (step cow_of (reach h) (Add k c keys v)) c k.
Proof. intros H. exact (add_inherited cow_of cow_ok (reach h) k c keys v d pre post (reach_wf h H)). Qed.

Lemma l_defclass_isolated h c m fresh d k : forallb op_ok h = true -> d <> c -> ~ In c (mro_of (reach h) d) ->
  effective (step cow_of (reach h) (DefClass c m fresh)) d k = effective (reach h) d k.
Proof. intros H. exact (defclass_isolated cow_of (reach h) c m fresh d k (reach_wf h H)). Qed.

Lemma l_no_shared_tables h : forallb op_ok h = true -> no_shared_tables (reach h).
Proof. intros H. destruct (reach_wf h H) as (_ & H2 & _). exact H2. Qed.

Lemma l_frozen d h k : forallb op_ok h = true -> avoids (mro_of w0 d) h = true ->
  effective (reach h) d k = effective w0 d k.
Proof. intros H A. apply (tables_frozen cow_of cow_ok h w0 d k w0_wf H A). Qed.

Lemma l_helper_isolated h targets k keys v d k' : forallb op_ok h = true ->
  (forall c, In c targets -> ~ In c (mro_of (reach h) d)) ->
  effective (run_from cow_of (reach h) (helper targets k keys v)) d k' = effective (reach h) d k'.
Proof. intros H. exact (helper_isolated cow_of cow_ok targets k keys v (reach h) d k' (reach_wf h H)). Qed.

(* the shipped safe classes do not inherit from any class the yaml.add_* helpers or YAMLObject register on *)
Definition fanout_targets : list cls :=
  (helper_loaders_KCtor ++ helper_loaders_KMultiCtor ++ helper_loaders_KImplicit ++ helper_loaders_KPath ++ yamlobject_loaders
   ++ [yamlobject_dumper] ++ (match helper_dumper_KRepr with Some d => [d] | None => [] end)
   ++ (match helper_dumper_KMultiRepr with Some d => [d] | None => [] end)
   ++ (match helper_dumper_KImplicit with Some d => [d] | None => [] end)
   ++ (match helper_dumper_KPath with Some d => [d] | None => [] end))%list.
Definition safe_classes : list cls := ["SafeLoader"; "CSafeLoader"; "BaseLoader"; "CBaseLoader"; "SafeDumper"; "CSafeDumper"; "BaseDumper"; "CBaseDumper"].
Lemma safe_not_fanout_target :
  forallb (fun s => forallb (fun t => negb (existsb (String.eqb t) (mro_of w0 s))) fanout_targets) safe_classes = true.
Proof. vm_compute. reflexivity. Qed.

Lemma l_default_helpers_spare_safe s : In s safe_classes -> avoids (mro_of w0 s) (map (fun c => Add KCtor c [] "") fanout_targets) = true.
Proof.
  intros Hs. pose proof safe_not_fanout_target as H. rewrite forallb_forall in H. specialize (H s Hs).
  unfold fanout_targets in *. revert H. generalize (mro_of w0 s). intros l.
  match goal with |- forallb _ ?T = true -> _ => generalize T end.
  intros ts. induction ts as [|t ts IH]; simpl; auto.
  intros H. apply andb_prop in H as [H1 H2]. rewrite H1. simpl. auto.
Qed.

(* non-vacuity: a concrete user history that meets every hypothesis above *)
Definition demo_history : list op :=
  [DefClass "MyLoader" ["MyLoader"; "SafeLoader"; "Reader"; "Scanner"; "Parser"; "Composer"; "SafeConstructor"; "BaseConstructor"; "Resolver"; "BaseResolver"] [];
   Add KCtor "MyLoader" [Some "!point"] "make_point";
   Add KImplicit "MyLoader" [Some "("] "!point";
   Add KCtor "Loader" [Some "!x"] "f"; Add KRepr "Dumper" [Some "Point"] "repr_point"].
Example demo_meets_hypotheses :
  forallb op_ok demo_history = true /\ avoids (mro_of w0 "SafeLoader") demo_history = true /\
  avoids (mro_of w0 "SafeDumper") demo_history = true /\
  keys_of (effective (reach demo_history) "MyLoader" KCtor) = (keys_of (effective w0 "SafeLoader" KCtor) ++ [Some "!point"])%list /\
  effective (reach demo_history) "SafeLoader" KCtor = effective w0 "SafeLoader" KCtor.
Proof. vm_compute. repeat split; reflexivity. Qed.

(* the eighteen loader / dumper classes a user passes as Loader= / Dumper= are pairwise unrelated by inheritance in the regenerated
   class world: a registration on one of them is, by the isolation theorems, invisible to all the others (frozen list: the public
   entry classes of yaml/__init__.py, loader.py, dumper.py, cyaml.py) *)
Definition entry_classes : list cls :=
  ["BaseLoader"; "SafeLoader"; "FullLoader"; "UnsafeLoader"; "Loader"; "CBaseLoader"; "CSafeLoader"; "CFullLoader"; "CUnsafeLoader"; "CLoader";
   "BaseDumper"; "SafeDumper"; "Dumper"; "CBaseDumper"; "CSafeDumper"; "CDumper"].
Definition unrelated (w : world) (l : list cls) : bool :=
  forallb (fun c => forallb (fun d => String.eqb c d || negb (existsb (String.eqb c) (mro_of w d))) l) l.
Lemma l_entry_classes_unrelated : unrelated w0 entry_classes = true /\ forallb (fun c => existsb (String.eqb c) (mro_of w0 c)) entry_classes = true.
Proof. vm_compute. split; reflexivity. Qed.
Lemma reach_nil : reach [] = w0.
Proof. unfold reach, run_from. cbn [fold_left]. reflexivity. Qed.
Lemma l_entry_isolated : forall k c keys v d k', In c entry_classes -> In d entry_classes -> c <> d ->
  effective (step cow_of w0 (Add k c keys v)) d k' = effective w0 d k'.
Proof.
  intros k c keys v d k' Hc Hd Hne. rewrite <- reach_nil. apply l_add_isolated; [reflexivity|]. left. rewrite reach_nil.
  destruct l_entry_classes_unrelated as [H _]. unfold unrelated in H. rewrite forallb_forall in H.
  specialize (H c Hc). rewrite forallb_forall in H. specialize (H d Hd).
  apply orb_prop in H as [H|H]; [apply String.eqb_eq in H; contradiction|].
  intros Hin. apply negb_true_iff in H. rewrite <- not_true_iff_false in H. apply H. apply existsb_exists. exists c. split; [exact Hin|apply String.eqb_refl].
Qed.
