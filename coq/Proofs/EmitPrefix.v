(* The emitter model's output is append-only: consequences for whole event streams (C05 emit_prefix_monotone, C12 doc_text_prefix_stable, C19 writes_are_prefix). *)
From Coq Require Import List NArith ZArith Bool Arith.
Import ListNotations.
Require Import Emit EmitGrows EmitLemmas.

Lemma rev_extends o o' : extends o o' -> exists d, rev o' = rev o ++ d.
Proof. intros [d ->]. exists (rev d). apply rev_app_distr. Qed.

(* whatever a run does - return, EmitterError, crash - the chunks it reports start with the chunks that were already written *)
Lemma l_emit_all_extends es : forall s, exists d, fst (emit_all es s) = rev (out s) ++ d.
Proof.
  induction es as [|e es IH]; intros s; cbn [emit_all].
  - exists []. rewrite app_nil_r. reflexivity.
  - pose proof (grows_emit1 e s) as G. destruct (emit1 e s) as [[u s']|c o|x o|].
    + destruct (IH s') as [d Hd]. destruct (rev_extends _ _ G) as [d0 H0]. exists (d0 ++ d).
      transitivity (rev (out s') ++ d); [exact Hd|].
      pose proof (f_equal (fun x => x ++ d) H0) as H1. cbv beta in H1. etransitivity; [exact H1|]. symmetry. apply app_assoc.
    + destruct (rev_extends _ _ G) as [d0 H0]. exists d0. exact H0.
    + destruct (rev_extends _ _ G) as [d0 H0]. exists d0. exact H0.
    + exists []. cbn [fst]. rewrite app_nil_r. reflexivity.
Qed.

(* emit_prefix_monotone: the chunks written for a prefix of the events are a prefix of the chunks written for the whole stream, for ALL event lists *)
Theorem l_emit_prefix_monotone es1 es2 s : exists d, fst (emit_all (es1 ++ es2) s) = fst (emit_all es1 s) ++ d.
Proof.
  rewrite l_emit_all_app.
  assert (H : forall s0, match emit_state es1 s0 with
                         | inl s' => fst (emit_all es1 s0) = rev (out s')
                         | inr r => emit_all es1 s0 = r end).
  { induction es1 as [|e es IH]; intros s0; cbn [emit_state emit_all]; [reflexivity|].
    destruct (emit1 e s0) as [[u s']|c o|x o|]; try reflexivity. apply IH. }
  specialize (H s). destruct (emit_state es1 s) as [s'|r].
  - rewrite H. apply l_emit_all_extends.
  - rewrite H. exists []. rewrite app_nil_r. reflexivity.
Qed.
