(* C09: the parser model gives every event marks with start <= end, for every token list whose marks are ordered. *)
From Coq Require Import List NArith ZArith Bool Arith Lia.
Import ListNotations.
Require Import Scan ParseL PT ParserSafe.

Definition idx (m : mark) : nat := m_index m.
(* tokens in text order: each token starts at or after the lower bound, ends at or after its start, the next one starts at or after its end *)
Fixpoint ordered (lo : nat) (tk : list token) : Prop :=
  match tk with [] => True | t :: r => lo <= idx (t_start t) /\ idx (t_start t) <= idx (t_end t) /\ ordered (idx (t_end t)) r end.
Lemma ordered_weaken tk : forall lo lo', lo' <= lo -> ordered lo tk -> ordered lo' tk.
Proof. destruct tk as [|t r]; simpl; auto. intros lo lo' H (A & B & C). repeat split; auto. lia. Qed.
Lemma ordered_tail lo t r : ordered lo (t :: r) -> ordered (idx (t_end t)) r.
Proof. simpl. tauto. Qed.
Lemma ordered_tail_lo lo t r : ordered lo (t :: r) -> ordered lo r.
Proof. simpl. intros (A & B & C). eapply ordered_weaken; [|exact C]. lia. Qed.
Lemma ordered_head lo t r : ordered lo (t :: r) -> lo <= idx (t_start t) /\ idx (t_start t) <= idx (t_end t).
Proof. simpl. tauto. Qed.

Definition ev_ok (e : event) : Prop := idx (e_start e) <= idx (e_end e).
(* the event starts at or after lo0 (the lower bound of the tokens before the step) and ends at or after its start *)
Definition evL (lo0 : nat) (e : event) : Prop := lo0 <= idx (e_start e) /\ idx (e_start e) <= idx (e_end e).
(* post-condition: invariant, well-formed event at or after lo0, the remaining tokens are ordered at or after the event's start *)
Definition postM (lo0 : nat) (e : event) (s : pst) : Prop := Inv2 s /\ evL lo0 e /\ exists lo, idx (e_start e) <= lo /\ ordered lo (toks s).

Ltac wb := apply wp_bind.
Ltac chk := wb; eapply wp_check; [reflexivity|].
Ltac pk := wb; eapply wp_peek_tok; [reflexivity|].
Ltac gt := wb; eapply wp_get_tok; [reflexivity|].

Lemma postM_mk lo0 e tk p l ms h v lo : PInv tk p l ms -> evL lo0 e -> ordered lo tk -> idx (e_start e) <= lo -> postM lo0 e (mkst tk (Some p) (rev l) (rev ms) h v).
Proof. intros H1 H2 H3 H4. split; [apply inv2_mk; exact H1|]. split; [exact H2|]. exists lo. split; [exact H4|exact H3]. Qed.
Lemma ev_mk lo0 k a b : lo0 <= idx a -> idx a <= idx b -> evL lo0 (mk k a b).
Proof. unfold evL, mk. simpl. auto. Qed.
Lemma mk_start k a b : idx (e_start (mk k a b)) = idx a.
Proof. reflexivity. Qed.

(* node_tail: smark, if present, lies between lo0 and lo; emark, if present, between smark and lo *)
Lemma node_tail_M lo0 block indentless anchor tagtok smark emark tmark tk p X l0 ms h v lo :
  toks_ok tk -> pushed X l0 -> length ms = weight (X :: l0) -> ordered lo tk ->
  (match smark with Some m => lo0 <= idx m /\ idx m <= lo | None => lo0 <= lo end) ->
  (match smark, emark with Some m, Some e => idx m <= idx e | None, Some _ => False | _, None => True end) ->
  wp (node_tail block indentless (anchor, tagtok, smark, emark, tmark)) (postM lo0) (mkst tk p (rev (X :: l0)) (rev ms) h v).
Proof.
  intros Ht Hp Hm Ho Hs He. destruct (toks_ok_cons _ Ht) as (t & r & ->). unfold node_tail.
  destruct (ordered_head _ _ _ Ho) as (O1 & O2). pose proof (ordered_tail _ _ _ Ho) as O3.
  wb. apply wp_get.
  wb. match goal with |- wp ?m _ _ => assert (Htag : forall Q : option str -> pst -> Prop,
        (forall o, Q o (mkst (t :: r) p (rev (X :: l0)) (rev ms) h v)) -> wp m Q (mkst (t :: r) p (rev (X :: l0)) (rev ms) h v)) end.
  { intros Q HQ. destruct tagtok as [tt_|]; [|apply wp_ret; auto].
    destruct (t_kind tt_); try (apply wp_ret; auto).
    destruct handle as [hd|]; [|apply wp_ret; auto].
    cbn [handles mkst]. destruct (assoc hd h); [apply wp_ret; auto|apply wp_err]. }
  apply Htag. intros tag. clear Htag.
  set (S0 := match smark with Some m => m | None => t_start t end).
  assert (HS : lo0 <= idx S0 /\ idx S0 <= idx (t_start t)) by (unfold S0; destruct smark; lia).
  assert (OS : ordered (idx S0) (t :: r)) by (simpl; repeat split; try lia; exact O3).
  wb. match goal with |- wp ?m _ _ => assert (Hn : forall Q : option mark -> pst -> Prop,
        (forall o, (smark = None -> o = Some (t_start t)) -> Q o (mkst (t :: r) p (rev (X :: l0)) (rev ms) h v)) -> wp m Q (mkst (t :: r) p (rev (X :: l0)) (rev ms) h v)) end.
  { intros Q HQ. destruct smark; [apply wp_ret; apply HQ; discriminate|]. pk. apply wp_ret. apply HQ. auto. }
  apply Hn. intros nxt Hnxt. clear Hn. cbv zeta.
  assert (Estart : match smark with Some m => m | None => match nxt with Some m => m | None => {| m_index := 0; m_line := 0; m_col := 0 |} end end = S0).
  { unfold S0. destruct smark; auto. rewrite (Hnxt eq_refl). reflexivity. }
  rewrite Estart.
  wb. match goal with |- wp ?m _ _ => assert (Hb : forall Q : bool -> pst -> Prop,
        (forall b, (b = true -> is_ TBlockEntry (t_kind t) = true) -> Q b (mkst (t :: r) p (rev (X :: l0)) (rev ms) h v)) -> wp m Q (mkst (t :: r) p (rev (X :: l0)) (rev ms) h v)) end.
  { intros Q HQ. destruct indentless; [eapply wp_check; [reflexivity|]; apply HQ; auto|apply wp_ret; apply HQ; discriminate]. }
  apply Hb. intros ble Hble. clear Hb.
  assert (Hlive : forall f : tok -> bool, f (t_kind t) = true -> f TStreamEnd = false -> head_live (t :: r)).
  { intros f H1 H2. exists t, r. split; auto. eapply not_se_of; eauto. }
  assert (Efirst : forall q k, In q [PIndentlessSeqEntry; PFlowSeqFirst; PFlowMapFirstKey; PBlockSeqFirst; PBlockMapFirstKey] -> head_live (t :: r) ->
            forall b, idx S0 <= idx b -> postM lo0 (mk k S0 b) (mkst (t :: r) (Some q) (rev (X :: l0)) (rev ms) h v)).
  { intros q k Hq Hl b Hb. eapply postM_mk; [apply I_first; auto|apply ev_mk; lia|exact OS|rewrite mk_start; lia]. }
  destruct ble.
  { pk. wb. apply wp_set_ps. apply wp_ret. apply Efirst; [simpl; tauto|apply (Hlive (is_ TBlockEntry)); auto|lia]. }
  chk. destruct (is_scalar (t_kind t)) eqn:Esc.
  { gt. wb. apply wp_pop_ps.
    assert (HI : forall k, postM lo0 (mk k S0 (t_end t)) (mkst r (Some X) (rev l0) (rev ms) h v)).
    { intros k. eapply postM_mk; [apply I_pop; auto; eapply live_tail; eauto; eapply not_se_of; eauto|apply ev_mk; lia|exact O3|rewrite mk_start; lia]. }
    destruct (t_kind t); try discriminate. cbv zeta.
    repeat match goal with |- context [if ?c then _ else _] => destruct c end; apply wp_ret; apply HI. }
  chk. destruct (is_ TFlowSeqStart (t_kind t)) eqn:Efs.
  { pk. wb. apply wp_set_ps. apply wp_ret. apply Efirst; [simpl; tauto|apply (Hlive (is_ TFlowSeqStart)); auto|lia]. }
  chk. destruct (is_ TFlowMapStart (t_kind t)) eqn:Efm.
  { pk. wb. apply wp_set_ps. apply wp_ret. apply Efirst; [simpl; tauto|apply (Hlive (is_ TFlowMapStart)); auto|lia]. }
  wb. match goal with |- wp ?m _ _ => assert (Hb : forall Q : bool -> pst -> Prop,
        (forall b, (b = true -> is_ TBlockSeqStart (t_kind t) = true) -> Q b (mkst (t :: r) p (rev (X :: l0)) (rev ms) h v)) -> wp m Q (mkst (t :: r) p (rev (X :: l0)) (rev ms) h v)) end.
  { intros Q HQ. destruct block; [eapply wp_check; [reflexivity|]; apply HQ; auto|apply wp_ret; apply HQ; discriminate]. }
  apply Hb. intros bs Hbs. clear Hb. destruct bs.
  { pk. wb. apply wp_set_ps. apply wp_ret. apply Efirst; [simpl; tauto|apply (Hlive (is_ TBlockSeqStart)); auto|lia]. }
  wb. match goal with |- wp ?m _ _ => assert (Hb : forall Q : bool -> pst -> Prop,
        (forall b, (b = true -> is_ TBlockMapStart (t_kind t) = true) -> Q b (mkst (t :: r) p (rev (X :: l0)) (rev ms) h v)) -> wp m Q (mkst (t :: r) p (rev (X :: l0)) (rev ms) h v)) end.
  { intros Q HQ. destruct block; [eapply wp_check; [reflexivity|]; apply HQ; auto|apply wp_ret; apply HQ; discriminate]. }
  apply Hb. intros bm Hbm. clear Hb. destruct bm.
  { pk. wb. apply wp_set_ps. apply wp_ret. apply Efirst; [simpl; tauto|apply (Hlive (is_ TBlockMapStart)); auto|lia]. }
  assert (Hend : idx S0 <= idx (match emark with Some m => m | None => S0 end)).
  { unfold S0. destruct smark, emark; try lia; try contradiction. }
  assert (Hpop : forall k, wp (pop_ps;;~ pret (mk k S0 (match emark with Some m => m | None => S0 end))) (postM lo0) (mkst (t :: r) p (rev (X :: l0)) (rev ms) h v)).
  { intros k. wb. apply wp_pop_ps. apply wp_ret. eapply postM_mk; [apply I_pop; auto|apply ev_mk; [lia|exact Hend]|exact OS|rewrite mk_start; lia]. }
  destruct anchor, tag; try apply Hpop.
  pk. apply wp_err.
Qed.

Lemma parse_node_M block indentless tk p X l0 ms h v lo :
  toks_ok tk -> pushed X l0 -> length ms = weight (X :: l0) -> ordered lo tk ->
  wp (parse_node block indentless) (postM lo) (mkst tk p (rev (X :: l0)) (rev ms) h v).
Proof.
  intros Ht Hp Hm Ho. destruct (toks_ok_cons _ Ht) as (t & r & ->). rewrite parse_node_eq.
  destruct (ordered_head _ _ _ Ho) as (O1 & O2). pose proof (ordered_tail _ _ _ Ho) as O3.
  chk. destruct (is_alias (t_kind t)) eqn:Eal.
  { gt. wb. apply wp_pop_ps. apply wp_ret. eapply postM_mk; [apply I_pop; auto; eapply live_tail; eauto; eapply not_se_of; eauto|apply ev_mk; lia|exact O3|rewrite mk_start; lia]. }
  chk. destruct (is_anchor (t_kind t)) eqn:Ean.
  - assert (Hr : toks_ok r) by (eapply live_tail; eauto; eapply not_se_of; eauto).
    destruct (toks_ok_cons _ Hr) as (t2 & r2 & ->).
    destruct (ordered_head _ _ _ O3) as (P1 & P2). pose proof (ordered_tail _ _ _ O3) as P3.
    wb. gt. chk. destruct (is_tag (t_kind t2)) eqn:Etg.
    + gt. apply wp_ret. eapply node_tail_M; eauto; [eapply live_tail; eauto; eapply not_se_of; eauto|simpl; lia|simpl; lia].
    + apply wp_ret. eapply node_tail_M; eauto; simpl; lia.
  - wb. chk. destruct (is_tag (t_kind t)) eqn:Etg.
    + assert (Hr : toks_ok r) by (eapply live_tail; eauto; eapply not_se_of; eauto).
      destruct (toks_ok_cons _ Hr) as (t2 & r2 & ->).
      destruct (ordered_head _ _ _ O3) as (P1 & P2). pose proof (ordered_tail _ _ _ O3) as P3.
      gt. chk. destruct (is_anchor (t_kind t2)) eqn:Ean2.
      * gt. apply wp_ret. eapply node_tail_M; eauto; [eapply live_tail; eauto; eapply not_se_of; eauto|simpl; lia|simpl; lia].
      * apply wp_ret. eapply node_tail_M; eauto; simpl; lia.
    + apply wp_ret. eapply node_tail_M; eauto; simpl; auto.
Qed.

(* ---------- endings ---------- *)
Lemma ev_empty lo0 m : lo0 <= idx m -> evL lo0 (empty_scalar m).
Proof. intros H. unfold empty_scalar. apply ev_mk; [exact H|lia]. Qed.
Lemma empty_start m : idx (e_start (empty_scalar m)) = idx m.
Proof. reflexivity. Qed.
Lemma postM_weaken lo0 lo1 e s : postM lo1 e s -> lo0 <= lo1 -> postM lo0 e s.
Proof. intros (A & (B1 & B2) & C) H. split; [exact A|split; [split; [lia|exact B2]|exact C]]. Qed.
Lemma push_parse_node_M X block ind tk p l ms h v lo0 lo :
  toks_ok tk -> cont_state X = true -> inside l -> length ms = w_stack X + weight l -> ordered lo tk -> lo0 <= lo ->
  wp (push_ps X ;;~ parse_node block ind) (postM lo0) (mkst tk p (rev l) (rev ms) h v).
Proof.
  intros Ht HX Hin Hm Ho Hl. wb. apply wp_push_ps. change (rev l ++ [X]) with (rev (X :: l)).
  eapply wp_mono; [eapply parse_node_M; eauto; right; auto|]. intros e s' H. eapply postM_weaken; eauto.
Qed.
Lemma set_ret_M X tk p l ms h v (e : event) lo lo' : PInv tk X l ms -> evL lo e -> ordered lo' tk -> idx (e_start e) <= lo' ->
  wp (set_ps (Some X) ;;~ pret e) (postM lo) (mkst tk p (rev l) (rev ms) h v).
Proof. intros H He Ho Hl. wb. apply wp_set_ps. apply wp_ret. eapply postM_mk; eauto. Qed.
Lemma close_coll_M tk p l ms m h v t r (k : ev) lo0 lo : tk = t :: r -> toks_ok tk -> is_se t = false -> inside l -> length ms = weight l -> ordered lo tk -> lo0 <= lo ->
  wp (t <~ get_tok ;; pop_ps ;;~ pop_mark ;;~ pret (mk k (t_start t) (t_end t))) (postM lo0) (mkst tk p (rev l) (rev (m :: ms)) h v).
Proof.
  intros -> Ht Hs Hin Hm Ho Hl. destruct (inside_pop l Hin) as (X & l0 & -> & Hp).
  destruct (ordered_head _ _ _ Ho) as (O1 & O2).
  gt. wb. apply wp_pop_ps. wb. apply wp_pop_mark. apply wp_ret.
  eapply postM_mk; [apply I_pop; auto; eapply live_tail; eauto|apply ev_mk; lia|eapply ordered_tail; eauto|rewrite mk_start; lia].
Qed.
Lemma pop_ret_M tk p l ms h v (e : event) lo lo' : toks_ok tk -> inside l -> length ms = weight l -> evL lo e -> ordered lo' tk -> idx (e_start e) <= lo' ->
  wp (pop_ps ;;~ pret e) (postM lo) (mkst tk p (rev l) (rev ms) h v).
Proof.
  intros Ht Hin Hm He Ho Hl. destruct (inside_pop l Hin) as (X & l0 & -> & Hp).
  wb. apply wp_pop_ps. apply wp_ret. eapply postM_mk; eauto. apply I_pop; auto.
Qed.

(* ---------- block collections ---------- *)
Lemma bse_body_M tk p l m ms h v lo : toks_ok tk -> inside l -> length ms = weight l -> ordered lo tk ->
  wp (be <~ check (is_ TBlockEntry);;
     (if be
      then
       t0 <~ get_tok;;
       b2 <~ check (any_of [TBlockEntry; TBlockEnd]);;
       (if negb b2
        then push_ps PBlockSeqEntry;;~ parse_node true false
        else set_ps (Some PBlockSeqEntry);;~ pret (empty_scalar (t_end t0)))
      else
       bend <~ check (is_ TBlockEnd);;
       (if negb bend
        then t0 <~ peek_tok;; m <~ top_mark;; perr (Some m) 8 (t_start t0)
        else
         t0 <~ get_tok;;
         pop_ps;;~ pop_mark;;~ pret (mk VSeqEnd (t_start t0) (t_end t0)))))
    (postM lo) (mkst tk p (rev l) (rev (m :: ms)) h v).
Proof.
  intros Ht Hin Hm Ho. destruct (toks_ok_cons _ Ht) as (t & r & ->).
  assert (Hw : length (m :: ms) = w_stack PBlockSeqEntry + weight l) by (simpl; lia).
  destruct (ordered_head _ _ _ Ho) as (O1 & O2). pose proof (ordered_tail _ _ _ Ho) as O3.
  chk. destruct (is_ TBlockEntry (t_kind t)) eqn:E.
  - assert (Hr : toks_ok r) by (eapply live_tail; eauto; eapply not_se_of; eauto).
    destruct (toks_ok_cons _ Hr) as (t2 & r2 & ->).
    gt. chk. destruct (any_of [TBlockEntry; TBlockEnd] (t_kind t2)); cbn [negb].
    + eapply set_ret_M; [apply I_cont; auto|apply ev_empty; lia|exact O3|rewrite empty_start; lia].
    + eapply push_parse_node_M; eauto; lia.
  - chk. destruct (is_ TBlockEnd (t_kind t)) eqn:E2; cbn [negb].
    + eapply close_coll_M; eauto; try lia. eapply not_se_of; eauto.
    + pk. wb. apply wp_top_mark. apply wp_err.
Qed.

Lemma ind_body_M tk p l ms h v lo : toks_ok tk -> inside l -> length ms = weight l -> ordered lo tk ->
  wp (be <~ check (is_ TBlockEntry);;
     (if be
      then
       t0 <~ get_tok;;
       b2 <~ check (any_of [TBlockEntry; TKey; TValue; TBlockEnd]);;
       (if negb b2
        then push_ps PIndentlessSeqEntry;;~ parse_node true false
        else set_ps (Some PIndentlessSeqEntry);;~ pret (empty_scalar (t_end t0)))
      else t0 <~ peek_tok;; pop_ps;;~ pret (mk VSeqEnd (t_start t0) (t_start t0))))
    (postM lo) (mkst tk p (rev l) (rev ms) h v).
Proof.
  intros Ht Hin Hm Ho. destruct (toks_ok_cons _ Ht) as (t & r & ->). destruct (ordered_head _ _ _ Ho) as (O1 & O2). pose proof (ordered_tail _ _ _ Ho) as O3.
  chk. destruct (is_ TBlockEntry (t_kind t)) eqn:E.
  - assert (Hr : toks_ok r) by (eapply live_tail; eauto; eapply not_se_of; eauto).
    destruct (toks_ok_cons _ Hr) as (t2 & r2 & ->).
    gt. chk. destruct (any_of [TBlockEntry; TKey; TValue; TBlockEnd] (t_kind t2)); cbn [negb].
    + eapply set_ret_M; [apply I_cont; auto|apply ev_empty; lia|exact O3|rewrite empty_start; lia].
    + eapply push_parse_node_M; eauto; lia.
  - pk. assert (OS : ordered (idx (t_start t)) (t :: r)) by (simpl; repeat split; try lia; exact O3). 
    eapply pop_ret_M with (lo' := idx (t_start t)); eauto; try (apply ev_mk; lia); try (rewrite mk_start; lia).
Qed.

Lemma bmk_body_M tk p l m ms h v lo : toks_ok tk -> inside l -> length ms = weight l -> ordered lo tk ->
  wp (k <~ check (is_ TKey);;
     (if k
      then
       t0 <~ get_tok;;
       b2 <~ check (any_of [TKey; TValue; TBlockEnd]);;
       (if negb b2
        then push_ps PBlockMapValue;;~ parse_node true true
        else set_ps (Some PBlockMapValue);;~ pret (empty_scalar (t_end t0)))
      else
       bend <~ check (is_ TBlockEnd);;
       (if negb bend
        then t0 <~ peek_tok;; m <~ top_mark;; perr (Some m) 9 (t_start t0)
        else
         t0 <~ get_tok;;
         pop_ps;;~ pop_mark;;~ pret (mk VMapEnd (t_start t0) (t_end t0)))))
    (postM lo) (mkst tk p (rev l) (rev (m :: ms)) h v).
Proof.
  intros Ht Hin Hm Ho. destruct (toks_ok_cons _ Ht) as (t & r & ->).
  assert (Hw : length (m :: ms) = w_stack PBlockMapValue + weight l) by (simpl; lia).
  destruct (ordered_head _ _ _ Ho) as (O1 & O2). pose proof (ordered_tail _ _ _ Ho) as O3.
  chk. destruct (is_ TKey (t_kind t)) eqn:E.
  - assert (Hr : toks_ok r) by (eapply live_tail; eauto; eapply not_se_of; eauto).
    destruct (toks_ok_cons _ Hr) as (t2 & r2 & ->).
    gt. chk. destruct (any_of [TKey; TValue; TBlockEnd] (t_kind t2)); cbn [negb].
    + eapply set_ret_M; [apply I_cont; auto|apply ev_empty; lia|exact O3|rewrite empty_start; lia].
    + eapply push_parse_node_M; eauto; lia.
  - chk. destruct (is_ TBlockEnd (t_kind t)) eqn:E2; cbn [negb].
    + eapply close_coll_M; eauto; try lia. eapply not_se_of; eauto.
    + pk. wb. apply wp_top_mark. apply wp_err.
Qed.

(* ---------- value-like states ---------- *)
Lemma value_M (f g : tok -> bool) X blk ind tk p l ms h v (F G : token -> event) lo :
  f TStreamEnd = false -> toks_ok tk -> inside l -> cont_state X = true -> length ms = w_stack X + weight l -> ordered lo tk ->
  (forall t0, F t0 = empty_scalar (t_end t0)) -> (forall t0, exists k, G t0 = mk k (t_start t0) (t_start t0)) ->
  wp (v0 <~ check f;;
     (if v0
      then
       t0 <~ get_tok;;
       b2 <~ check g;;
       (if negb b2 then push_ps X;;~ parse_node blk ind else set_ps (Some X);;~ pret (F t0))
      else set_ps (Some X);;~ t0 <~ peek_tok;; pret (G t0))) (postM lo) (mkst tk p (rev l) (rev ms) h v).
Proof.
  intros Hf Ht Hin HX Hm Ho HF HG. destruct (toks_ok_cons _ Ht) as (t & r & ->). destruct (ordered_head _ _ _ Ho) as (O1 & O2). pose proof (ordered_tail _ _ _ Ho) as O3.
  chk. destruct (f (t_kind t)) eqn:E.
  - assert (Hr : toks_ok r) by (eapply live_tail; eauto; eapply not_se_of; eauto).
    destruct (toks_ok_cons _ Hr) as (t2 & r2 & ->).
    gt. chk. destruct (g (t_kind t2)); cbn [negb].
    + rewrite HF. eapply set_ret_M; [apply I_cont; auto|apply ev_empty; lia|exact O3|rewrite empty_start; lia].
    + eapply push_parse_node_M; eauto; lia.
  - wb. apply wp_set_ps. pk. apply wp_ret. destruct (HG t) as (k & ->). assert (OS : ordered (idx (t_start t)) (t :: r)) by (simpl; repeat split; try lia; exact O3). 
    eapply postM_mk; [apply I_cont; auto|apply ev_mk; lia|exact OS|rewrite mk_start; lia].
Qed.
Lemma set_peek_M X tk p l ms h v (G : token -> event) lo :
  toks_ok tk -> inside l -> cont_state X = true -> length ms = w_stack X + weight l -> ordered lo tk -> (forall t0, exists k, G t0 = mk k (t_start t0) (t_start t0)) ->
  wp (set_ps (Some X);;~ t0 <~ peek_tok;; pret (G t0)) (postM lo) (mkst tk p (rev l) (rev ms) h v).
Proof.
  intros Ht Hin HX Hm Ho HG. destruct (toks_ok_cons _ Ht) as (t & r & ->). destruct (ordered_head _ _ _ Ho) as (O1 & O2). pose proof (ordered_tail _ _ _ Ho) as O3.
  assert (OS : ordered (idx (t_start t)) (t :: r)) by (simpl; repeat split; try lia; exact O3). 
  wb. apply wp_set_ps. pk. apply wp_ret. destruct (HG t) as (k & ->). eapply postM_mk; [apply I_cont; auto|apply ev_mk; lia|exact OS|rewrite mk_start; lia].
Qed.

(* ---------- flow collections ---------- *)
Lemma fse_rest_M tk p l m ms h v lo0 lo : toks_ok tk -> inside l -> length ms = weight l -> ordered lo tk -> lo0 <= lo ->
  wp (k <~ check (is_ TKey);;
       (if k
        then
         t0 <~ peek_tok;;
         set_ps (Some PFlowSeqEntryMapKey);;~
         pret (Some (mk (VMapStart None None true true) (t_start t0) (t_end t0)))
        else
         fe2 <~ check (is_ TFlowSeqEnd);;
         (if negb fe2
          then push_ps PFlowSeqEntry;;~ e <~ parse_node false false;; pret (Some e)
          else pret None)))
     (fun r0 s' => wp (seq_close r0) (postM lo0) s') (mkst tk p (rev l) (rev (m :: ms)) h v).
Proof.
  intros Ht Hin Hm Ho Hl. destruct (toks_ok_cons _ Ht) as (t & r & ->). destruct (ordered_head _ _ _ Ho) as (O1 & O2).
  chk. destruct (is_ TKey (t_kind t)) eqn:Ek.
  - pk. wb. apply wp_set_ps. apply wp_ret. cbn [seq_close]. apply wp_ret. eapply postM_mk with (lo := idx (t_start t)); [apply I_mapkey; auto|apply ev_mk; lia|simpl; repeat split; try lia; eapply ordered_tail; eauto|rewrite mk_start; lia].
  - chk. destruct (is_ TFlowSeqEnd (t_kind t)) eqn:Ee; cbn [negb].
    + apply wp_ret. cbn [seq_close]. eapply close_coll_M; eauto; try lia. eapply not_se_of; eauto.
    + wb. apply wp_push_ps. change (rev l ++ [PFlowSeqEntry]) with (rev (PFlowSeqEntry :: l)). wb.
      eapply wp_mono; [eapply parse_node_M; eauto; [right; auto|simpl; lia]|].
      intros e s' H. apply wp_ret. cbn [seq_close]. apply wp_ret. eapply postM_weaken; eauto; lia.
Qed.

Lemma fse_body_M (first : bool) tk p l m ms h v lo : toks_ok tk -> inside l -> length ms = weight l -> ordered lo tk ->
  wp (fe <~ check (is_ TFlowSeqEnd);;
     r0 <~
     (if negb fe
      then
       (if negb first
        then
         c <~ check (is_ TFlowEntry);;
         (if c
          then get_tok;;~ pret tt
          else t0 <~ peek_tok;; m <~ top_mark;; perr (Some m) 10 (t_start t0))
        else pret tt);;~
       k <~ check (is_ TKey);;
       (if k
        then
         t0 <~ peek_tok;;
         set_ps (Some PFlowSeqEntryMapKey);;~
         pret (Some (mk (VMapStart None None true true) (t_start t0) (t_end t0)))
        else
         fe2 <~ check (is_ TFlowSeqEnd);;
         (if negb fe2
          then push_ps PFlowSeqEntry;;~ e <~ parse_node false false;; pret (Some e)
          else pret None))
      else pret None);;
     seq_close r0) (postM lo) (mkst tk p (rev l) (rev (m :: ms)) h v).
Proof.
  intros Ht Hin Hm Ho. destruct (toks_ok_cons _ Ht) as (t & r & ->).
  chk. destruct (is_ TFlowSeqEnd (t_kind t)) eqn:Ee; cbn [negb].
  - wb. apply wp_ret. cbn [seq_close]. eapply close_coll_M; eauto; try lia. eapply not_se_of; eauto.
  - wb. wb. destruct first; cbn [negb].
    + apply wp_ret. eapply fse_rest_M; eauto.
    + chk. destruct (is_ TFlowEntry (t_kind t)) eqn:Ec.
      * gt. apply wp_ret. destruct (ordered_head _ _ _ Ho) as (O1 & O2). eapply fse_rest_M; [eapply live_tail; eauto; eapply not_se_of; eauto|auto|auto|eapply ordered_tail; eauto|lia].
      * pk. wb. apply wp_top_mark. apply wp_err.
Qed.

Lemma fmk_rest_M tk p l m ms h v lo0 lo : toks_ok tk -> inside l -> length ms = weight l -> ordered lo tk -> lo0 <= lo ->
  wp (k <~ check (is_ TKey);;
       (if k
        then
         t0 <~ get_tok;;
         b2 <~ check (any_of [TValue; TFlowEntry; TFlowMapEnd]);;
         (if negb b2
          then push_ps PFlowMapValue;;~ e <~ parse_node false false;; pret (Some e)
          else set_ps (Some PFlowMapValue);;~ pret (Some (empty_scalar (t_end t0))))
        else
         fe2 <~ check (is_ TFlowMapEnd);;
         (if negb fe2
          then push_ps PFlowMapEmptyValue;;~ e <~ parse_node false false;; pret (Some e)
          else pret None)))
     (fun r0 s' => wp (map_close r0) (postM lo0) s') (mkst tk p (rev l) (rev (m :: ms)) h v).
Proof.
  intros Ht Hin Hm Ho Hl. destruct (toks_ok_cons _ Ht) as (t & r & ->). destruct (ordered_head _ _ _ Ho) as (O1 & O2). pose proof (ordered_tail _ _ _ Ho) as O3.
  chk. destruct (is_ TKey (t_kind t)) eqn:Ek.
  - assert (Hr : toks_ok r) by (eapply live_tail; eauto; eapply not_se_of; eauto).
    destruct (toks_ok_cons _ Hr) as (t2 & r2 & ->).
    gt. chk. destruct (any_of [TValue; TFlowEntry; TFlowMapEnd] (t_kind t2)); cbn [negb].
    + wb. apply wp_set_ps. apply wp_ret. cbn [map_close]. apply wp_ret. eapply postM_mk; [apply I_cont; auto; simpl; lia|apply ev_empty; lia|exact O3|rewrite empty_start; lia].
    + wb. apply wp_push_ps. change (rev l ++ [PFlowMapValue]) with (rev (PFlowMapValue :: l)). wb.
      eapply wp_mono; [eapply parse_node_M; eauto; [right; auto|simpl; lia]|].
      intros e s' H. apply wp_ret. cbn [map_close]. apply wp_ret. eapply postM_weaken; eauto; lia.
  - chk. destruct (is_ TFlowMapEnd (t_kind t)) eqn:Ee; cbn [negb].
    + apply wp_ret. cbn [map_close]. eapply close_coll_M; eauto; try lia. eapply not_se_of; eauto.
    + wb. apply wp_push_ps. change (rev l ++ [PFlowMapEmptyValue]) with (rev (PFlowMapEmptyValue :: l)). wb.
      eapply wp_mono; [eapply parse_node_M; eauto; [right; auto|simpl; lia]|].
      intros e s' H. apply wp_ret. cbn [map_close]. apply wp_ret. eapply postM_weaken; eauto; lia.
Qed.

Lemma fmk_body_M (first : bool) tk p l m ms h v lo : toks_ok tk -> inside l -> length ms = weight l -> ordered lo tk ->
  wp (fe <~ check (is_ TFlowMapEnd);;
     r0 <~
     (if negb fe
      then
       (if negb first
        then
         c <~ check (is_ TFlowEntry);;
         (if c
          then get_tok;;~ pret tt
          else t0 <~ peek_tok;; m <~ top_mark;; perr (Some m) 11 (t_start t0))
        else pret tt);;~
       k <~ check (is_ TKey);;
       (if k
        then
         t0 <~ get_tok;;
         b2 <~ check (any_of [TValue; TFlowEntry; TFlowMapEnd]);;
         (if negb b2
          then push_ps PFlowMapValue;;~ e <~ parse_node false false;; pret (Some e)
          else set_ps (Some PFlowMapValue);;~ pret (Some (empty_scalar (t_end t0))))
        else
         fe2 <~ check (is_ TFlowMapEnd);;
         (if negb fe2
          then push_ps PFlowMapEmptyValue;;~ e <~ parse_node false false;; pret (Some e)
          else pret None))
      else pret None);;
     map_close r0) (postM lo) (mkst tk p (rev l) (rev (m :: ms)) h v).
Proof.
  intros Ht Hin Hm Ho. destruct (toks_ok_cons _ Ht) as (t & r & ->).
  chk. destruct (is_ TFlowMapEnd (t_kind t)) eqn:Ee; cbn [negb].
  - wb. apply wp_ret. cbn [map_close]. eapply close_coll_M; eauto; try lia. eapply not_se_of; eauto.
  - wb. wb. destruct first; cbn [negb].
    + apply wp_ret. eapply fmk_rest_M; eauto.
    + chk. destruct (is_ TFlowEntry (t_kind t)) eqn:Ec.
      * gt. apply wp_ret. destruct (ordered_head _ _ _ Ho) as (O1 & O2). eapply fmk_rest_M; [eapply live_tail; eauto; eapply not_se_of; eauto|auto|auto|eapply ordered_tail; eauto|lia].
      * pk. wb. apply wp_top_mark. apply wp_err.
Qed.

(* ---------- document start ---------- *)
Lemma skip_de_M fuel : forall tk p stk mk h v (Q : unit -> pst -> Prop) lo, toks_ok tk -> length tk < fuel -> ordered lo tk ->
  (forall tk', toks_ok tk' -> ordered lo tk' -> Q tt (mkst tk' p stk mk h v)) -> wp (skip_de fuel) Q (mkst tk p stk mk h v).
Proof.
  induction fuel as [|f IH]; intros tk p stk mk h v Q lo Ht Hl Ho HQ; [lia|].
  destruct (toks_ok_cons _ Ht) as (t & r & ->). cbn [skip_de].
  chk. destruct (is_ TDocEnd (t_kind t)) eqn:E.
  - gt. eapply IH; eauto.
    + eapply live_tail; eauto. eapply not_se_of; eauto.
    + simpl in Hl. lia.
    + eapply ordered_tail_lo; eauto.
  - apply wp_ret. auto.
Qed.
Lemma dl_M fuel : forall ver hs tk p stk mk h v (Q : option (N * N) * list (str * str) -> pst -> Prop) lo, toks_ok tk -> length tk < fuel -> ordered lo tk ->
  (forall x tk', toks_ok tk' -> ordered lo tk' -> Q x (mkst tk' p stk mk h v)) -> wp (directives_loop fuel ver hs) Q (mkst tk p stk mk h v).
Proof.
  induction fuel as [|f IH]; intros ver hs tk p stk mk h v Q lo Ht Hl Ho HQ; [lia|].
  destruct (toks_ok_cons _ Ht) as (t & r & ->). cbn [directives_loop].
  chk. destruct (is_directive (t_kind t)) eqn:E; [|apply wp_ret; auto].
  assert (Hr : toks_ok r) by (eapply live_tail; eauto; eapply not_se_of; eauto).
  assert (Hl' : length r < f) by (simpl in Hl; lia).
  assert (Ho' : ordered lo r) by (eapply ordered_tail_lo; eauto).
  gt. destruct (t_kind t); try (eapply IH; eauto).
  destruct val; try (eapply IH; eauto).
  - destruct ver; [apply wp_err|]. destruct (negb (major =? 1)%N); [apply wp_err|eapply IH; eauto].
  - destruct (assoc handle hs); [apply wp_err|eapply IH; eauto].
Qed.
Lemma pd_M tk p stk mk h v (Q : option (N * N) * list (str * str) -> pst -> Prop) lo : toks_ok tk -> ordered lo tk ->
  (forall x tk' h' v', toks_ok tk' -> ordered lo tk' -> Q x (mkst tk' p stk mk h' v')) -> wp process_directives Q (mkst tk p stk mk h v).
Proof.
  intros Ht Ho HQ. unfold process_directives. wb. apply wp_get. wb. cbn [toks mkst]. eapply dl_M; eauto.
  intros [ver hs] tk' Ht' Ho'. wb. apply wp_set_handles. apply wp_ret. apply HQ; auto.
Qed.

Lemma pds_M tk p h v lo : toks_ok tk -> ordered lo tk -> wp parse_document_start (postM lo) (mkst tk p (rev []) (rev []) h v).
Proof.
  intros Ht Ho. unfold parse_document_start. wb. apply wp_get. wb. cbn [toks mkst].
  eapply (skip_de_M (S (S (length tk)))); eauto. intros tk' Ht' Ho'. clear Ht Ho tk.
  destruct (toks_ok_cons _ Ht') as (t & r & ->). destruct (ordered_head _ _ _ Ho') as (O1 & O2). pose proof (ordered_tail _ _ _ Ho') as O3.
  chk. destruct (is_ TStreamEnd (t_kind t)) eqn:Ese; cbn [negb].
  - gt. wb. apply wp_get. cbn [pstates pmarks mkst rev]. wb. apply wp_set_ps. apply wp_ret.
    split; [unfold Inv2; cbn; constructor|]. split; [apply ev_mk; lia|]. exists (idx (t_end t)). cbn [toks mkst]. split; [rewrite mk_start; lia|exact O3].
  - pk. wb. eapply (pd_M _ _ _ _ _ _ _ (idx (t_start t))); eauto.
    { simpl. repeat split; try lia. exact O3. }
    intros x tk'' h' v' Ht'' Ho''. destruct (toks_ok_cons _ Ht'') as (t2 & r2 & ->). destruct (ordered_head _ _ _ Ho'') as (P1 & P2).
    chk. destruct (is_ TDocStart (t_kind t2)) eqn:Eds; cbn [negb].
    + gt. wb. apply wp_push_ps. wb. apply wp_set_ps. apply wp_ret. change (rev [] ++ [PDocEnd]) with (rev [PDocEnd]).
      eapply postM_mk; [|apply ev_mk; lia|eapply ordered_tail; eauto|rewrite mk_start; lia].
      unfold PInv. cbn. split; [eapply live_tail; eauto; eapply not_se_of; eauto|].
      split; [exists []; auto|split; [reflexivity|split; intros; discriminate]].
    + pk. apply wp_err.
Qed.

(* ---------- the step function ---------- *)
Lemma step_M tk p l ms h v lo : PInv tk p l ms -> ordered lo tk ->
  wp step (fun o s' => Inv2 s' /\ match o with Some e => evL lo e /\ exists lo', idx (e_start e) <= lo' /\ ordered lo' (toks s') | None => True end) (mkst tk (Some p) (rev l) (rev ms) h v).
Proof.
  intros HI Ho. unfold step. wb. apply wp_get. cbn [pstate_ mkst]. wb.
  eapply wp_mono with (Q := postM lo); [|intros e s' (H1 & H2 & H3); apply wp_ret; split; [exact H1|split; [exact H2|exact H3]]].
  pose proof HI as (Ht & Hsh & Hm & Hnt & Hss). destruct (toks_ok_cons _ Ht) as (t & r & ->).
  destruct (ordered_head _ _ _ Ho) as (O1 & O2). pose proof (ordered_tail _ _ _ Ho) as O3.
  destruct p.
  - (* PStreamStart *)
    destruct (Hss eq_refl) as (t' & r' & E & Hk). injection E as <- <-.
    destruct (outside_nil _ _ _ _ HI eq_refl) as (-> & Hms). rewrite (Hms eq_refl).
    gt. rewrite Hk. eapply (set_ret_M PImplicitDocStart r (Some PStreamStart) [] [] h v); [|apply ev_mk; lia|exact O3|rewrite mk_start; lia].
    apply I_out; [|simpl; tauto]. eapply live_tail; eauto. unfold is_se. rewrite Hk. reflexivity.
  - (* PImplicitDocStart *)
    destruct (outside_nil _ _ _ _ HI eq_refl) as (-> & Hms). rewrite (Hms eq_refl).
    chk. destruct (is_directive (t_kind t) || any_of [TDocStart; TStreamEnd] (t_kind t)); cbn [negb]; [eapply pds_M; eauto|].
    wb. apply wp_set_handles. pk. wb. apply wp_push_ps. wb. apply wp_set_ps. apply wp_ret.
    change (rev [] ++ [PDocEnd]) with (rev [PDocEnd]). eapply postM_mk with (lo := idx (t_start t)); [|apply ev_mk; lia|simpl; repeat split; try lia; exact O3|rewrite mk_start; lia].
    unfold PInv. cbn. split; [auto|split; [exists []; auto|split; [reflexivity|split; intros; discriminate]]].
  - (* PDocStart *)
    destruct (outside_nil _ _ _ _ HI eq_refl) as (-> & Hms). rewrite (Hms eq_refl). eapply pds_M; eauto.
  - (* PDocEnd *)
    destruct (outside_nil _ _ _ _ HI eq_refl) as (-> & Hms). rewrite (Hms eq_refl).
    pk. chk. destruct (is_ TDocEnd (t_kind t)) eqn:E.
    + wb. gt. apply wp_ret. cbn [fst snd]. eapply (set_ret_M PDocStart r _ [] [] h v); [|apply ev_mk; lia|exact O3|rewrite mk_start; lia].
      apply I_out; [|simpl; tauto]. eapply live_tail; eauto. eapply not_se_of; eauto.
    + wb. apply wp_ret. cbn [fst snd]. eapply (set_ret_M PDocStart (t :: r) _ [] [] h v) with (lo' := idx (t_start t)); [apply I_out; [auto|simpl; tauto]|apply ev_mk; simpl; lia|simpl; repeat split; try lia; exact O3|rewrite mk_start; lia].
  - (* PDocContent *)
    simpl in Hsh, Hm.
    chk. destruct (is_directive (t_kind t) || any_of [TDocStart; TDocEnd; TStreamEnd] (t_kind t)).
    + pk. eapply pop_ret_M with (lo' := idx (t_start t)); eauto; try (apply ev_empty; lia); try (rewrite empty_start; lia); try (simpl; repeat split; try lia; exact O3).
    + destruct (inside_pop l Hsh) as (X & l0 & -> & Hp). eapply parse_node_M; eauto.
  - (* PBlockNode *)
    simpl in Hsh, Hm. destruct (inside_pop l Hsh) as (X & l0 & -> & Hp). eapply parse_node_M; eauto.
  - (* PBlockSeqFirst *)
    simpl in Hsh, Hm. destruct (Hnt eq_refl) as (t' & r' & E & Hse). injection E as <- <-.
    wb. gt. apply wp_push_mark. change (rev ms ++ [t_start t]) with (rev (t_start t :: ms)).
    eapply wp_mono; [eapply bse_body_M; eauto; eapply live_tail; eauto|intros e s' H; eapply postM_weaken; eauto; lia].
  - (* PBlockSeqEntry *)
    simpl in Hsh, Hm. destruct ms as [|m ms]; [discriminate|]. wb. apply wp_ret. eapply bse_body_M; eauto; simpl in Hm; lia.
  - (* PIndentlessSeqEntry *)
    simpl in Hsh, Hm. eapply ind_body_M; eauto.
  - (* PBlockMapFirstKey *)
    simpl in Hsh, Hm. destruct (Hnt eq_refl) as (t' & r' & E & Hse). injection E as <- <-.
    wb. gt. apply wp_push_mark. change (rev ms ++ [t_start t]) with (rev (t_start t :: ms)).
    eapply wp_mono; [eapply bmk_body_M; eauto; eapply live_tail; eauto|intros e s' H; eapply postM_weaken; eauto; lia].
  - (* PBlockMapKey *)
    simpl in Hsh, Hm. destruct ms as [|m ms]; [discriminate|]. wb. apply wp_ret. eapply bmk_body_M; eauto; simpl in Hm; lia.
  - (* PBlockMapValue *)
    simpl in Hsh, Hm. eapply (value_M (is_ TValue) (any_of [TKey; TValue; TBlockEnd]) PBlockMapKey true true); eauto; intros; try reflexivity; try (eexists; reflexivity).
  - (* PFlowSeqFirst *)
    simpl in Hsh, Hm. destruct (Hnt eq_refl) as (t' & r' & E & Hse). injection E as <- <-.
    wb. gt. apply wp_push_mark. change (rev ms ++ [t_start t]) with (rev (t_start t :: ms)).
    eapply wp_mono; [eapply (fse_body_M true); eauto; eapply live_tail; eauto|intros e s' H; eapply postM_weaken; eauto; lia].
  - (* PFlowSeqEntry *)
    simpl in Hsh, Hm. destruct ms as [|m ms]; [discriminate|]. wb. apply wp_ret. eapply (fse_body_M false); eauto; simpl in Hm; lia.
  - (* PFlowSeqEntryMapKey *)
    simpl in Hsh, Hm. destruct (Hnt eq_refl) as (t' & r' & E & Hse). injection E as <- <-.
    assert (Hr : toks_ok r) by (eapply live_tail; eauto). destruct (toks_ok_cons _ Hr) as (t2 & r2 & ->).
    gt. chk. destruct (any_of [TValue; TFlowEntry; TFlowSeqEnd] (t_kind t2)); cbn [negb].
    + eapply set_ret_M; [apply I_cont; auto|apply ev_empty; lia|exact O3|rewrite empty_start; lia].
    + eapply push_parse_node_M; eauto; lia.
  - (* PFlowSeqEntryMapValue *)
    simpl in Hsh, Hm. eapply (value_M (is_ TValue) (any_of [TFlowEntry; TFlowSeqEnd]) PFlowSeqEntryMapEnd false false); eauto; intros; try reflexivity; try (eexists; reflexivity).
  - (* PFlowSeqEntryMapEnd *)
    simpl in Hsh, Hm. eapply set_peek_M; eauto; intros; eexists; reflexivity.
  - (* PFlowMapFirstKey *)
    simpl in Hsh, Hm. destruct (Hnt eq_refl) as (t' & r' & E & Hse). injection E as <- <-.
    wb. gt. apply wp_push_mark. change (rev ms ++ [t_start t]) with (rev (t_start t :: ms)).
    eapply wp_mono; [eapply (fmk_body_M true); eauto; eapply live_tail; eauto|intros e s' H; eapply postM_weaken; eauto; lia].
  - (* PFlowMapKey *)
    simpl in Hsh, Hm. destruct ms as [|m ms]; [discriminate|]. wb. apply wp_ret. eapply (fmk_body_M false); eauto; simpl in Hm; lia.
  - (* PFlowMapValue *)
    simpl in Hsh, Hm. eapply (value_M (is_ TValue) (any_of [TFlowEntry; TFlowMapEnd]) PFlowMapKey false false); eauto; intros; try reflexivity; try (eexists; reflexivity).
  - (* PFlowMapEmptyValue *)
    simpl in Hsh, Hm. eapply set_peek_M; eauto; intros; eexists; reflexivity.
Qed.

(* ---------- the whole run ---------- *)
Definition InvM (lo : nat) (s : pst) : Prop := Inv2 s /\ exists lo', lo <= lo' /\ ordered lo' (toks s).
Lemma step_invM lo s : InvM lo s ->
  wp step (fun o s' => match o with Some e => lo <= idx (e_start e) /\ ev_ok e /\ InvM (idx (e_start e)) s' | None => True end) s.
Proof.
  destruct s as [tk ps stk mk h v]. intros [H1 (lo' & Hl & Ho)]. unfold Inv2 in H1. cbn [pstate_ pstates pmarks toks] in *. destruct ps as [p|].
  - destruct H1 as (l & ms & -> & -> & HI). eapply wp_mono; [eapply (step_M tk p l ms h v lo' HI Ho)|].
    intros [e|] s' (A & B); [|exact Logic.I]. destruct B as ((B1 & B2) & (lo2 & C1 & C2)).
    split; [lia|]. split; [exact B2|]. split; [exact A|]. exists lo2. split; [exact C1|exact C2].
  - unfold wp, step, pbind, pget, pret. cbn. exact Logic.I.
Qed.

(* a list of events whose marks are well-formed and whose starts never move backwards, all at or after lo *)
Fixpoint chain (lo : nat) (l : list event) : Prop :=
  match l with [] => True | e :: r => lo <= idx (e_start e) /\ ev_ok e /\ chain (idx (e_start e)) r end.
Lemma parse_loop_chain fuel : forall acc s lo, InvM lo s -> exists new, fst (parse_loop fuel acc s) = acc ++ new /\ chain lo new.
Proof.
  induction fuel as [|f IH]; intros acc s lo Hs; cbn [parse_loop].
  - exists []. rewrite app_nil_r. simpl. auto.
  - pose proof (step_invM lo s Hs) as H. unfold wp in H.
    destruct (step s) as [[[e|] s']| | |]; cbn [fst]; try (exists []; rewrite app_nil_r; simpl; auto; fail).
    destruct H as (H1 & H2 & H3). destruct (IH (acc ++ [e]) s' (idx (e_start e)) H3) as (new & E & C).
    exists (e :: new). rewrite E, <- app_assoc. simpl. auto.
Qed.
Lemma chain_forall lo l : chain lo l -> Forall ev_ok l.
Proof. revert lo. induction l as [|e r IH]; intros lo H; constructor; simpl in H; [tauto|]. eapply IH. apply H. Qed.
Fixpoint starts_sorted (l : list event) : Prop :=
  match l with [] => True | e :: r => (match r with [] => True | e2 :: _ => idx (e_start e) <= idx (e_start e2) end) /\ starts_sorted r end.
Lemma chain_sorted lo l : chain lo l -> starts_sorted l.
Proof.
  revert lo. induction l as [|e r IH]; intros lo H; simpl; auto. simpl in H. destruct H as (_ & _ & C). split; [|eapply IH; eauto].
  destruct r as [|e2 r2]; auto. simpl in C. tauto.
Qed.

(* C09: for EVERY token list whose marks are in text order, every event the parser delivers has start <= end, and the starts
   of successive events never move backwards *)
Theorem parser_event_marks_ordered : forall t r, t_kind t = TStreamStart -> toks_ok r -> ordered 0 (t :: r) ->
  Forall ev_ok (fst (parse_all (t :: r))) /\ starts_sorted (fst (parse_all (t :: r))).
Proof.
  intros t r Hk Hr Ho. unfold parse_all.
  destruct (parse_loop_chain (8 * length (t :: r) + 16) [] (pinit (t :: r)) 0) as (new & E & C).
  { split; [apply pinit_inv; auto|]. exists 0. split; [lia|exact Ho]. }
  rewrite E. simpl. split; [eapply chain_forall; eauto|eapply chain_sorted; eauto].
Qed.

