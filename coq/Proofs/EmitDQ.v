(* C02/C05: what the emitter model's write_double_quoted writes (no folding, allow_unicode off) is the body the scanner theorem DQ.dq_roundtrip reads. *)
From Coq Require Import List NArith ZArith Bool Arith Lia.
Import ListNotations.
Require Import Emit EmitSQ.
Require DQ.

Lemma enc_raw c : DQ.raw_ok c = true -> DQ.enc c = [c].
Proof. intros H. unfold DQ.enc. rewrite H. reflexivity. Qed.
Lemma special_iff c : dq_special false c = negb (DQ.raw_ok c).
Proof.
  unfold dq_special, DQ.raw_ok. cbn [andb orb]. rewrite orb_false_r.
  destruct (N.leb_spec 32 c), (N.leb_spec c 126); cbn [andb negb orb]; rewrite ?orb_true_r; try reflexivity.
  unfold mem. cbn [existsb]. rewrite orb_false_r.
  destruct (N.eqb_spec c 34) as [->|H1]; [reflexivity|]. destruct (N.eqb_spec c 92) as [->|H2]; [reflexivity|].
  cbn [orb negb andb].
  repeat match goal with |- context [N.eqb c ?k] => destruct (N.eqb_spec c k); [lia|] end. reflexivity.
Qed.
Definition esc_data (c : cp) : str :=
  match dq_escape c with
  | Some x => [92%N; x]
  | None => if (c <=? 255)%N then [92;120]%N ++ hex2 c else if (c <=? 65535)%N then [92;117]%N ++ hex4 c else [92;85]%N ++ hex8 c
  end.
Lemma esc_enc c : DQ.raw_ok c = false -> DQ.enc c = esc_data c.
Proof.
  intros H. unfold DQ.enc, esc_data. rewrite H.
  change DQ.dq_escape with dq_escape. change DQ.hex2 with hex2. change DQ.hex4 with hex4. change DQ.hex8 with hex8.
  destruct (dq_escape c); [reflexivity|]. destruct (c <=? 255)%N; [reflexivity|]. destruct (c <=? 65535)%N; reflexivity.
Qed.

Lemma otext_write_col' d s : exists s1, write_col d s = Ok (tt, s1) /\ otext s1 = otext s ++ d /\ allow_unicode s1 = allow_unicode s /\ whitespace s1 = whitespace s.
Proof.
  eexists. split; [reflexivity|]. unfold otext. cbn [out with_out with_pos allow_unicode whitespace]. simpl. rewrite concat_app. simpl. rewrite app_nil_r. auto.
Qed.
Lemma body_app a b : DQ.body (a ++ b) = DQ.body a ++ DQ.body b.
Proof. unfold DQ.body. apply flat_map_app. Qed.
Lemma body_raw t : forallb DQ.raw_ok t = true -> DQ.body t = t.
Proof.
  induction t as [|c t IH]; simpl; intros H; auto. apply andb_prop in H as [H1 H2].
  unfold DQ.body in *. simpl. rewrite enc_raw by assumption. simpl. f_equal. auto.
Qed.

Ltac step_ok H := match goal with |- exists s', (bind ?M ?K) ?S = _ /\ _ => rewrite (bind_ok M K S _ _ H); cbv beta end.
Ltac step_refl := match goal with |- exists s', (bind ?M ?K) ?S = _ /\ _ => rewrite (bind_ok M K S _ _ eq_refl); cbv beta end.

Lemma dq_loop_spec : forall (rest_ : str) fuel (done pending : str) s,
  forallb DQ.raw_ok pending = true -> allow_unicode s = false -> length rest_ + 2 <= fuel ->
  exists s', dq_loop fuel (done ++ pending ++ rest_) false (length done + length pending) (length done) s = Ok (tt, s')
             /\ otext s' = otext s ++ pending ++ DQ.body rest_ /\ allow_unicode s' = false /\ whitespace s' = whitespace s.
Proof.
  induction rest_ as [|c r IH]; intros fuel done pending s Hp Hau Hf.
  - destruct fuel as [|f]; [simpl in Hf; lia|]. assert (Hf1 : 1 <= f) by (simpl in Hf; lia).
    assert (Hlen : length (done ++ pending ++ []) = length done + length pending) by (rewrite !app_length; simpl; lia).
    cbn [dq_loop]. rewrite Hlen. rewrite Nat.ltb_irrefl.
    assert (Hfin : forall st' s1, dq_loop f (done ++ pending ++ []) false (S (length done + length pending)) st' s1 = Ok (tt, s1)).
    { intros st' s1. destruct f as [|f']; [lia|]. cbn [dq_loop]. rewrite Hlen. replace (Nat.ltb (length done + length pending) (S (length done + length pending))) with true by (symmetry; apply Nat.ltb_lt; lia). reflexivity. }
    step_refl. cbv beta iota.
    destruct (Nat.ltb (length done) (length done + length pending)) eqn:El.
    + destruct (otext_write_col' pending s) as (s1 & W & O & A & Wh).
      assert (H1 : (st1 <- (write_col (slice (done ++ pending ++ []) (length done) (length done + length pending));;; ret (length done + length pending));; ret st1) s = Ok (length done + length pending, s1)).
      { unfold bind. rewrite (slice_mid done pending []), W. reflexivity. }
      step_ok H1. step_refl. rewrite !andb_false_r. step_refl. rewrite Hfin.
      exists s1. rewrite O, app_nil_r. rewrite A. auto.
    + apply Nat.ltb_ge in El. assert (pending = []) by (destruct pending; [reflexivity|simpl in El; lia]). subst pending.
      step_refl. step_refl. rewrite !andb_false_r. step_refl. rewrite Hfin.
      exists s. rewrite !app_nil_r. auto.
  - destruct fuel as [|f]; [simpl in Hf; lia|].
    assert (Hlen : length (done ++ pending ++ c :: r) = length done + length pending + S (length r)) by (rewrite !app_length; simpl; lia).
    assert (Hf' : length r + 2 <= f) by (simpl in Hf; lia).
    cbn [dq_loop]. rewrite Hlen.
    replace (Nat.ltb (length done + length pending + S (length r)) (length done + length pending)) with false by (symmetry; apply Nat.ltb_ge; lia).
    replace (Nat.ltb (length done + length pending) (length done + length pending + S (length r))) with true by (symmetry; apply Nat.ltb_lt; lia).
    rewrite nth_mid. step_refl. cbv beta iota. rewrite Hau, special_iff.
    destruct (DQ.raw_ok c) eqn:Rc; cbn [negb].
    + (* an ordinary character: it joins the pending piece *)
      step_refl. step_refl. rewrite !andb_false_r. step_refl.
      destruct (IH f done (pending ++ [c]) s) as (s' & E & O' & A' & Wh'); auto.
      { rewrite forallb_app. apply andb_true_intro. split; [exact Hp|]. simpl. rewrite Rc. reflexivity. }
      exists s'. split; [|split; [|auto]].
      * rewrite <- E. rewrite !app_length. simpl. rewrite <- !app_assoc. simpl.
        replace (length done + (length pending + 1)) with (S (length done + length pending)) by lia. reflexivity.
      * rewrite O'. rewrite <- !app_assoc. f_equal. f_equal. unfold DQ.body. simpl. rewrite enc_raw by assumption. reflexivity.
    + (* a character that needs an escape: the pending piece, then the escape *)
      assert (K : forall s1, otext s1 = otext s ++ pending ++ esc_data c -> allow_unicode s1 = false -> whitespace s1 = whitespace s ->
                exists s', dq_loop f (done ++ pending ++ c :: r) false (S (length done + length pending)) (length done + length pending + 1) s1 = Ok (tt, s')
                  /\ otext s' = otext s ++ pending ++ DQ.body (c :: r) /\ allow_unicode s' = false /\ whitespace s' = whitespace s).
      { intros s1 O A Wh. destruct (IH f (done ++ pending ++ [c]) [] s1) as (s' & E & O' & A' & Wh'); auto.
        exists s'. split; [|split; [|split; [auto|congruence]]].
        - rewrite <- E. rewrite !app_length. simpl. rewrite <- !app_assoc. simpl.
          replace (length done + (length pending + 1) + 0) with (S (length done + length pending)) by lia.
          replace (length done + (length pending + 1)) with (length done + length pending + 1) by lia. reflexivity.
        - rewrite O', O. simpl. rewrite <- !app_assoc. f_equal. f_equal. unfold DQ.body. simpl. rewrite esc_enc by assumption. reflexivity. }
      destruct (Nat.ltb (length done) (length done + length pending)) eqn:El.
      * destruct (otext_write_col' pending s) as (s1 & W & O & A & Wh).
        match goal with |- context [bind (write_col ?D) (fun _ => ret (_ + 1))] => destruct (otext_write_col' D s1) as (s2 & W2 & O2 & A2 & Wh2) end.
        match goal with |- exists s', (bind ?M ?KK) ?S = _ /\ _ =>
          assert (H1 : M S = Ok (length done + length pending + 1, s2)) by (unfold bind; rewrite (slice_mid done pending (c :: r)), W; cbn [ret]; cbv zeta; rewrite W2; reflexivity) end.
        step_ok H1. step_refl. rewrite !andb_false_r. step_refl.
        apply K; [rewrite O2, O, <- app_assoc; reflexivity|congruence|congruence].
      * apply Nat.ltb_ge in El. assert (pending = []) by (destruct pending; [reflexivity|simpl in El; lia]). subst pending.
        match goal with |- context [bind (write_col ?D) (fun _ => ret (_ + 1))] => destruct (otext_write_col' D s) as (s2 & W2 & O2 & A2 & Wh2) end.
        match goal with |- exists s', (bind ?M ?KK) ?S = _ /\ _ =>
          assert (H1 : M S = Ok (length done + length (@nil cp) + 1, s2)) by (unfold bind; cbn [ret]; cbv zeta; rewrite W2; reflexivity) end.
        step_ok H1. step_refl. rewrite !andb_false_r. step_refl.
        apply K; [rewrite O2; reflexivity|congruence|congruence].
Qed.

(* the emitter model, for EVERY text (any code points) and every emitter state with allow_unicode off, without folding: write_double_quoted
   writes an optional separating space, a double quote, the text escaped exactly as DQ.body - the function the scanner-side theorem
   DQ.dq_roundtrip is stated on - and a double quote *)
Theorem write_double_quoted_text : forall (text : str) s, allow_unicode s = false ->
  exists s', write_double_quoted text false s = Ok (tt, s') /\
             otext s' = otext s ++ (if whitespace s then [] else [SP]) ++ 34%N :: DQ.body text ++ [34%N].
Proof.
  intros text s Hau. unfold write_double_quoted.
  destruct (write_indicator_text [34%N] true false false s) as (s1 & W1 & O1 & Wh1).
  rewrite (bind_ok _ _ s tt s1 W1).
  assert (Hau1 : allow_unicode s1 = false).
  { unfold write_indicator, bind, get, modify, write in W1. injection W1 as <-. exact Hau. }
  destruct (dq_loop_spec text (length text + 2) [] [] s1) as (s2 & L & O2 & A2 & Wh2); [reflexivity|exact Hau1|apply Nat.le_refl|].
  simpl in L. rewrite (bind_ok _ _ s1 tt s2 L).
  destruct (write_indicator_text [34%N] false false false s2) as (s3 & W3 & O3 & Wh3).
  exists s3. split; [exact W3|].
  rewrite O3, O2, O1. cbn [negb orb]. rewrite orb_true_r. simpl. rewrite <- !app_assoc.
  destruct (whitespace s); simpl; reflexivity.
Qed.

(* writer and reader together: what the emitter model writes for a double-quoted scalar (no fold, allow_unicode off, after whitespace),
   followed by anything, is read back by the scanner model as exactly that text - for every text over printable ASCII, the 15
   single-letter escapes and \xHH code points *)
Theorem double_quoted_emit_then_scan : forall (text : str) s tail, forallb DQ.simple text = true -> tail <> [] ->
  allow_unicode s = false -> whitespace s = true ->
  exists s' w, write_double_quoted text false s = Ok (tt, s') /\ otext s' = otext s ++ w /\
    forall sc, Scan.rest sc = w ++ tail ->
      exists tok sc', Scan.scan_flow_scalar true sc = Scan.Ok (tok, sc') /\
                      Scan.t_kind tok = Scan.TScalar text false Scan.SDouble /\ Scan.rest sc' = tail.
Proof.
  intros text s tail Hs Ht Hau Hw. destruct (write_double_quoted_text text s Hau) as (s' & W & O).
  exists s', (34%N :: DQ.body text ++ [34%N]). split; [exact W|]. split; [rewrite O, Hw; reflexivity|].
  intros sc Hr. apply (DQ.dq_roundtrip text tail sc Hs); [|exact Ht]. rewrite Hr. simpl. rewrite <- app_assoc. reflexivity.
Qed.
