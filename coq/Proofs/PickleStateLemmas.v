From Coq Require Import List Bool.
Import ListNotations.
Require Import PickleState.

(* for every instance and state that pickle can restore at all, YAML applies the state in exactly the same way *)
Theorem l_state_applied_as_pickle_does : forall i s, ~ In AttrError (pickle_apply i s) -> yaml_apply i s = pickle_apply i s.
Proof.
  intros [ss hd] s H. unfold yaml_apply, pickle_apply in *. cbn [has_setstate has_dict] in *.
  destruct ss; [reflexivity|].
  destruct s as [[|]|[| |] sl]; cbn [dict_part slot_part is_full is_none] in *; destruct hd; try destruct sl; cbn in *; try reflexivity; exfalso; apply H; left; reflexivity.
Qed.
(* in particular for every instance with a __dict__ or a __setstate__, and for every slots-only instance with the state copyreg gives it *)
Corollary l_state_usual_instances : forall i s, has_dict i = true \/ has_setstate i = true \/ dict_part s = DNone -> yaml_apply i s = pickle_apply i s.
Proof.
  intros i s H. apply l_state_applied_as_pickle_does. destruct i as [ss hd]. unfold pickle_apply. cbn [has_setstate has_dict] in *.
  destruct ss; [intros [E|[]]; discriminate E|].
  assert (G : negb (is_none (dict_part s)) && negb hd = false).
  { destruct H as [E|[E|E]]; [rewrite E; apply andb_false_r|discriminate E|rewrite E; reflexivity]. }
  rewrite G. intros Hin. apply in_app_or in Hin as [Hin|Hin]; [destruct (is_full (dict_part s))|destruct (slot_part s)]; cbn in Hin; intuition discriminate.
Qed.
(* where pickle fails (a dictionary, even an empty one, for an instance without __dict__), YAML goes through setattr instead *)
Example l_slots_only_difference :
  let i := {| has_setstate := false; has_dict := false |} in
  pickle_apply i (SDict true) = [AttrError] /\ yaml_apply i (SDict true) = [SetAttrs] /\
  pickle_apply i (SPair DEmpty true) = [AttrError] /\ yaml_apply i (SPair DEmpty true) = [SetAttrs] /\
  pickle_apply i (SPair DNone true) = [SetAttrs] /\ yaml_apply i (SPair DNone true) = [SetAttrs].
Proof. repeat split. Qed.
