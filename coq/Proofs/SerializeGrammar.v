(* C05/C13 (dump side): the events the serializer model writes for a node graph - sharing and cycles included - are a document of the
   event grammar: collections closed and nested, as many values as keys, one root.  Every node id of the graph must exist (wf). *)
From Coq Require Import List NArith ZArith Bool Arith Lia.
Import ListNotations.
Require Import Represent.
Require ParseL ParserGrammar EmitGrammar.
Import ParserGrammar EmitGrammar.

Definition skind (e : sev) : ek :=
  match e with
  | SDocStart => KDocStart | SDocEnd => KDocEnd | SAlias _ => KLeaf | SScalar _ _ _ _ _ _ => KLeaf
  | SSeqStart _ _ _ _ => KSeqStart | SSeqEnd => KSeqEnd | SMapStart _ _ _ _ => KMapStart | SMapEnd => KMapEnd
  end.

(* the events of one node: whatever frames c remain to be served after the node, the first event is a node start and the rest leads back to c *)
Definition nodeP (out : list sev) : Prop :=
  forall c, exists e rest_ c', out = e :: rest_ /\ knode (skind e) c = Some c' /\ krun c' (map skind rest_) = Some c.
Lemma krun_app g a b : krun g (a ++ b) = match krun g a with Some g' => krun g' b | None => None end.
Proof. revert g. induction a as [|k a IH]; intros g; cbn; auto. destruct (kstep g k); auto. Qed.
(* a node where an item of a sequence / a key / a value is expected *)
Lemma node_in_seq out c : nodeP out -> krun (GSeq :: c) (map skind out) = Some (GSeq :: c).
Proof. intros H. destruct (H (GSeq :: c)) as (e & r & c' & -> & Hk & Hr). cbn [map krun]. destruct e; cbn in Hk; try discriminate Hk; cbn; injection Hk as <-; exact Hr. Qed.
Lemma node_as_key out c : nodeP out -> krun (GMapK :: c) (map skind out) = Some (GMapV :: c).
Proof. intros H. destruct (H (GMapV :: c)) as (e & r & c' & -> & Hk & Hr). cbn [map krun]. destruct e; cbn in Hk; try discriminate Hk; cbn; injection Hk as <-; exact Hr. Qed.
Lemma node_as_value out c : nodeP out -> krun (GMapV :: c) (map skind out) = Some (GMapK :: c).
Proof. intros H. destruct (H (GMapK :: c)) as (e & r & c' & -> & Hk & Hr). cbn [map krun]. destruct e; cbn in Hk; try discriminate Hk; cbn; injection Hk as <-; exact Hr. Qed.
Lemma node_as_root out c : nodeP out -> krun (GNode :: c) (map skind out) = Some c.
Proof. intros H. destruct (H c) as (e & r & c' & -> & Hk & Hr). cbn [map krun]. destruct e; cbn in Hk; try discriminate Hk; cbn; injection Hk as <-; exact Hr. Qed.

(* every child id of every node exists *)
Definition child_ok (n : nat) (x : rnode) : bool :=
  match x with
  | RScalar _ _ _ => true
  | RSeq _ items _ => forallb (fun c => Nat.ltb c n) items
  | RMap _ items _ => forallb (fun kv => Nat.ltb (fst kv) n && Nat.ltb (snd kv) n) items
  end.
Definition wf (ns : list rnode) : Prop := forallb (child_ok (length ns)) ns = true.
Lemma wf_nth ns id x : wf ns -> nth_error ns id = Some x -> child_ok (length ns) x = true.
Proof. unfold wf. rewrite forallb_forall. intros H E. apply H. eapply nth_error_In, E. Qed.

(* the set of nodes already written: distinct ids of the graph *)
Definition doneok (ns : list rnode) (d : list nat) : Prop := NoDup d /\ forall x, In x d -> x < length ns.
Lemma doneok_len ns d : doneok ns d -> length d <= length ns.
Proof.
  intros [Hn Hb]. assert (H : incl d (seq 0 (length ns))) by (intros x Hx; apply in_seq; specialize (Hb x Hx); lia).
  pose proof (NoDup_incl_length Hn H) as L. rewrite seq_length in L. exact L.
Qed.
Lemma existsb_in id d : existsb (Nat.eqb id) d = true <-> In id d.
Proof. rewrite existsb_exists. split; [intros (x & Hx & E); apply Nat.eqb_eq in E; subst; auto|intros H; exists id; split; auto; apply Nat.eqb_refl]. Qed.

Section Ser.
Variables (ns : list rnode) (anch : list (nat * option nat)).
Hypothesis Hwf : wf ns.

(* what one call adds: the events of one node; the set of written nodes grows and stays a set of ids of the graph *)
Definition stepP (f : nat) (id : nat) : Prop :=
  forall d evs, doneok ns d -> id < length ns -> length ns - length d < f ->
  exists out d', serialize_node f ns anch id (d, evs) = (d', evs ++ out) /\ nodeP out /\ doneok ns d' /\ length d <= length d'.

Lemma fold_items f items : (forall id, stepP f id) -> forallb (fun c => Nat.ltb c (length ns)) items = true ->
  forall d evs c, doneok ns d -> length ns - length d < f ->
  exists out d', fold_left (fun acc ch => serialize_node f ns anch ch acc) items (d, evs) = (d', evs ++ out) /\
                 krun (GSeq :: c) (map skind out) = Some (GSeq :: c) /\ doneok ns d' /\ length d <= length d'.
Proof.
  intros IH. induction items as [|ch items IHi]; intros Hi d evs c Hd Hf; cbn [fold_left].
  - exists [], d. rewrite app_nil_r. auto.
  - cbn [forallb] in Hi. apply andb_prop in Hi as [Hc Hi]. apply Nat.ltb_lt in Hc.
    destruct (IH ch d evs Hd Hc Hf) as (o1 & d1 & E1 & N1 & D1 & L1). rewrite E1.
    destruct (IHi Hi d1 (evs ++ o1) c D1 ltac:(lia)) as (o2 & d2 & E2 & K2 & D2 & L2). rewrite E2.
    exists (o1 ++ o2), d2. rewrite app_assoc. split; [reflexivity|]. split; [|split; [exact D2|lia]].
    rewrite map_app, krun_app, (node_in_seq o1 c N1). exact K2.
Qed.
Lemma fold_pairs f items : (forall id, stepP f id) -> forallb (fun kv : nat * nat => Nat.ltb (fst kv) (length ns) && Nat.ltb (snd kv) (length ns)) items = true ->
  forall d evs c, doneok ns d -> length ns - length d < f ->
  exists out d', fold_left (fun acc kv => serialize_node f ns anch (snd kv) (serialize_node f ns anch (fst kv) acc)) items (d, evs) = (d', evs ++ out) /\
                 krun (GMapK :: c) (map skind out) = Some (GMapK :: c) /\ doneok ns d' /\ length d <= length d'.
Proof.
  intros IH. induction items as [|[k v] items IHi]; intros Hi d evs c Hd Hf; cbn [fold_left].
  - exists [], d. rewrite app_nil_r. auto.
  - cbn [forallb fst snd] in Hi. apply andb_prop in Hi as [Hc Hi]. apply andb_prop in Hc as [Hk Hv]. apply Nat.ltb_lt in Hk, Hv. cbn [fst snd].
    destruct (IH k d evs Hd Hk Hf) as (o1 & d1 & E1 & N1 & D1 & L1). rewrite E1.
    destruct (IH v d1 (evs ++ o1) D1 Hv ltac:(lia)) as (o2 & d2 & E2 & N2 & D2 & L2). rewrite E2.
    destruct (IHi Hi d2 ((evs ++ o1) ++ o2) c D2 ltac:(lia)) as (o3 & d3 & E3 & K3 & D3 & L3). rewrite E3.
    exists (o1 ++ o2 ++ o3), d3. rewrite !app_assoc. split; [reflexivity|]. split; [|split; [exact D3|lia]].
    rewrite <- !app_assoc, !map_app, krun_app, (node_as_key o1 c N1). cbv beta iota. rewrite krun_app, (node_as_value o2 c N2). exact K3.
Qed.

Lemma serialize_step : forall f id, stepP f id.
Proof.
  induction f as [|f IH]; intros id d evs Hd Hid Hf; [lia|]. cbn [serialize_node fst snd].
  destruct (existsb (Nat.eqb id) d) eqn:Ein.
  - (* already written: an alias *)
    eexists [_], d. split; [reflexivity|]. split; [|split; [exact Hd|lia]].
    intros c. eexists _, [], c. split; [reflexivity|]. split; reflexivity.
  - assert (Hnin : ~ In id d) by (intros H; apply existsb_in in H; congruence).
    assert (Hd1 : doneok ns (id :: d)).
    { destruct Hd as [Hn Hb]. split; [constructor; assumption|]. intros x [<-|Hx]; auto. }
    pose proof (doneok_len ns (id :: d) Hd1) as Hlen. cbn [length] in Hlen.
    assert (Hf1 : length ns - length (id :: d) < f) by (cbn [length]; lia).
    destruct (nth_error ns id) as [x|] eqn:En; [|apply nth_error_None in En; lia].
    pose proof (wf_nth ns id x Hwf En) as Hc. destruct x as [tag v style|tag items flow|tag items flow]; cbn [child_ok] in Hc.
    + eexists [_], (id :: d). split; [reflexivity|]. split; [|split; [exact Hd1|cbn; lia]].
      intros c. eexists _, [], c. split; [reflexivity|]. split; reflexivity.
    + match goal with |- context [fold_left _ items (id :: d, ?ee)] => set (ev0 := ee) end.
      destruct (fold_items f items IH Hc (id :: d) ev0 [] Hd1 Hf1) as (o & d' & E & K & D' & L').
      assert (EK : forall c, krun (GSeq :: c) (map skind o) = Some (GSeq :: c)).
      { intros c. destruct (fold_items f items IH Hc (id :: d) ev0 c Hd1 Hf1) as (o' & d'' & E' & K' & _ & _).
        rewrite E in E'. injection E' as _ Eo. apply app_inv_head in Eo. subst o'. exact K'. }
      rewrite E. cbn [fst snd]. unfold ev0.
      eexists (_ :: o ++ [SSeqEnd]), d'. split; [rewrite <- !app_assoc; reflexivity|]. split; [|split; [exact D'|cbn in L'; lia]].
      intros c. eexists _, (o ++ [SSeqEnd]), (GSeq :: c). split; [reflexivity|]. split; [reflexivity|].
      rewrite map_app, krun_app, EK. reflexivity.
    + match goal with |- context [fold_left _ items (id :: d, ?ee)] => set (ev0 := ee) end.
      destruct (fold_pairs f items IH Hc (id :: d) ev0 [] Hd1 Hf1) as (o & d' & E & K & D' & L').
      assert (EK : forall c, krun (GMapK :: c) (map skind o) = Some (GMapK :: c)).
      { intros c. destruct (fold_pairs f items IH Hc (id :: d) ev0 c Hd1 Hf1) as (o' & d'' & E' & K' & _ & _).
        rewrite E in E'. injection E' as _ Eo. apply app_inv_head in Eo. subst o'. exact K'. }
      rewrite E. cbn [fst snd]. unfold ev0.
      eexists (_ :: o ++ [SMapEnd]), d'. split; [rewrite <- !app_assoc; reflexivity|]. split; [|split; [exact D'|cbn in L'; lia]].
      intros c. eexists _, (o ++ [SMapEnd]), (GMapK :: c). split; [reflexivity|]. split; [reflexivity|].
      rewrite map_app, krun_app, EK. reflexivity.
Qed.
End Ser.

(* EVERY node graph whose ids exist - shared nodes, cycles, any depth - any table of anchors, any root: the events of the serializer model,
   between DOCUMENT-START and DOCUMENT-END, are one document of the event grammar *)
Theorem serialized_document_grammatical : forall ns anch root c, wf ns -> root < length ns ->
  krun (GDocs :: c) (map skind ([SDocStart] ++ snd (serialize_node (S (length ns) * 2) ns anch root ([], [])) ++ [SDocEnd])) = Some (GDocs :: c).
Proof.
  intros ns anch root c Hwf Hr.
  destruct (serialize_step ns anch Hwf (S (length ns) * 2) root [] []) as (o & d' & E & N & _ & _); [split; [constructor|intros x []]|exact Hr|cbn; lia|].
  rewrite E. cbn [snd app map krun kstep skind]. rewrite map_app, krun_app, (node_as_root o _ N). reflexivity.
Qed.


(* ---------- the representer model only builds graphs whose ids exist ---------- *)
Lemma child_ok_mono n m x : n <= m -> child_ok n x = true -> child_ok m x = true.
Proof.
  intros L. destruct x as [| t items fl | t items fl]; cbn; auto; rewrite !forallb_forall; intros H y Hy; specialize (H y Hy).
  - apply Nat.ltb_lt in H. apply Nat.ltb_lt. lia.
  - apply andb_prop in H as [H1 H2]. apply Nat.ltb_lt in H1, H2. apply andb_true_intro. split; apply Nat.ltb_lt; lia.
Qed.
Lemma wf_app ns x : wf ns -> child_ok (S (length ns)) x = true -> wf (ns ++ [x]).
Proof.
  unfold wf. intros H Hx. rewrite app_length. cbn [length]. rewrite Nat.add_1_r, forallb_app. cbn [forallb]. rewrite Hx, andb_true_r.
  rewrite forallb_forall in *. intros y Hy. apply (child_ok_mono (length ns)); [lia|auto].
Qed.
Lemma set_nth_length {A} : forall (l : list A) n x, length (Construct.set_nth n x l) = length l.
Proof. induction l as [|y l IH]; intros [|n] x; cbn; auto. Qed.
Lemma set_nth_in {A} : forall (l : list A) n x y, In y (Construct.set_nth n x l) -> y = x \/ In y l.
Proof. induction l as [|z l IH]; intros [|n] x y; cbn; auto; intros [H|H]; auto. apply IH in H. tauto. Qed.
Lemma wf_set ns id x : wf ns -> child_ok (length ns) x = true -> wf (Construct.set_nth id x ns).
Proof.
  unfold wf. intros H Hx. rewrite set_nth_length. rewrite forallb_forall in *. intros y Hy. apply set_nth_in in Hy as [->|Hy]; auto.
Qed.

Definition RI (s : rst) : Prop := wf (rnodes s) /\ (forall a id, In (a, id) (represented s) -> id < length (rnodes s)).
Lemma assoc_nn_in a l id : assoc_nn a l = Some id -> In (a, id) l.
Proof. induction l as [|[k v] l IH]; cbn; [discriminate|]. destruct (Nat.eqb a k) eqn:E; [intros H; injection H as <-; apply Nat.eqb_eq in E; subst; auto|auto]. Qed.
Definition allb (n : nat) (l : list nat) : Prop := forallb (fun c => Nat.ltb c n) l = true.
Definition allp (n : nat) (l : list (nat * nat)) : Prop := forallb (fun kv : nat * nat => Nat.ltb (fst kv) n && Nat.ltb (snd kv) n) l = true.
Lemma allb_mono n m l : n <= m -> allb n l -> allb m l.
Proof. unfold allb. rewrite !forallb_forall. intros L H y Hy. specialize (H y Hy). apply Nat.ltb_lt in H. apply Nat.ltb_lt. lia. Qed.
Lemma allp_mono n m l : n <= m -> allp n l -> allp m l.
Proof. unfold allp. rewrite !forallb_forall. intros L H y Hy. specialize (H y Hy). apply andb_prop in H as [H1 H2]. apply Nat.ltb_lt in H1, H2. apply andb_true_intro. split; apply Nat.ltb_lt; lia. Qed.

Definition repP (f : nat) : Prop := forall o h v s id s', represent f o h v s = ROk (id, s') -> RI s ->
  RI s' /\ id < length (rnodes s') /\ length (rnodes s) <= length (rnodes s').

Lemma new_scalar_ok t v st s id s' : new_node (RScalar t v st) s = ROk (id, s') -> RI s -> RI s' /\ id < length (rnodes s') /\ length (rnodes s) <= length (rnodes s').
Proof.
  unfold new_node. intros H [Hw Hr]. injection H as <- <-. cbn [rnodes represented].
  assert (L : length (rnodes s ++ [RScalar t v st]) = S (length (rnodes s))) by (rewrite app_length; cbn; lia). rewrite L.
  unfold RI. cbn [rnodes represented]. rewrite L.
  split; [split; [apply wf_app; auto|intros a id Hin; specialize (Hr a id Hin); lia]|lia].
Qed.

Definition len (s : rst) := length (rnodes s).
Notation val := Construct.val.
Definition repOK (rep : val -> R nat) : Prop := forall x s id s', rep x s = ROk (id, s') -> RI s -> RI s' /\ id < len s' /\ len s <= len s'.

Definition each_seq (rep : val -> R nat) := fix each (l : list val) (acc : list nat) (best : bool) : R (list nat * bool) :=
  match l with
  | [] => rret (acc, best)
  | x :: l1 => c <-- rep x ;; s1 <-- (fun s => ROk (s, s)) ;; each l1 (acc ++ [c]) (best && plain_scalar_node s1 c)
  end.
Definition each_map (rep : val -> R nat) := fix each (l : list (val * val)) (acc : list (nat * nat)) (best : bool) : R (list (nat * nat) * bool) :=
  match l with
  | [] => rret (acc, best)
  | (k, x) :: l1 => kn <-- rep k ;; vn <-- rep x ;; s1 <-- (fun s => ROk (s, s)) ;;
                    each l1 (acc ++ [(kn, vn)]) (best && plain_scalar_node s1 kn && plain_scalar_node s1 vn)
  end.

Lemma each_seq_inv rep : repOK rep -> forall l acc best s r s', each_seq rep l acc best s = ROk (r, s') -> RI s -> allb (len s) acc ->
  RI s' /\ allb (len s') (fst r) /\ len s <= len s'.
Proof.
  intros Hrep. induction l as [|x l IH]; intros acc best s r s' H Hi Ha; cbn [each_seq] in H.
  - unfold rret in H. injection H as <- <-. auto.
  - unfold rbind at 1 in H. destruct (rep x s) as [[c s1]| | | |] eqn:E; try discriminate H.
    destruct (Hrep x s c s1 E Hi) as (Hi1 & Hc & Hl). unfold rbind at 1 in H.
    destruct (IH _ _ _ _ _ H Hi1) as (Hi2 & Ha2 & Hl2).
    + pose proof (allb_mono _ _ _ Hl Ha) as Ha'. unfold allb, len in *. rewrite forallb_app. cbn [forallb]. rewrite Ha', andb_true_r. cbn. apply Nat.ltb_lt. exact Hc.
    + split; [exact Hi2|]. split; [exact Ha2|]. unfold len in *. lia.
Qed.
Lemma each_map_inv rep : repOK rep -> forall l acc best s r s', each_map rep l acc best s = ROk (r, s') -> RI s -> allp (len s) acc ->
  RI s' /\ allp (len s') (fst r) /\ len s <= len s'.
Proof.
  intros Hrep. induction l as [|[k x] l IH]; intros acc best s r s' H Hi Ha; cbn [each_map] in H.
  - unfold rret in H. injection H as <- <-. auto.
  - unfold rbind at 1 in H. destruct (rep k s) as [[kn s1]| | | |] eqn:E1; try discriminate H.
    destruct (Hrep k s kn s1 E1 Hi) as (Hi1 & Hk & Hl1). unfold rbind at 1 in H.
    destruct (rep x s1) as [[vn s2]| | | |] eqn:E2; try discriminate H.
    destruct (Hrep x s1 vn s2 E2 Hi1) as (Hi2 & Hv & Hl2). unfold rbind at 1 in H.
    destruct (IH _ _ _ _ _ H Hi2) as (Hi3 & Ha3 & Hl3).
    + unfold allp in *. rewrite forallb_app. cbn [forallb fst snd]. unfold len in *.
      rewrite (allp_mono (length (rnodes s)) (length (rnodes s2)) acc ltac:(lia) Ha), andb_true_r. cbn.
      apply andb_true_intro. split; apply Nat.ltb_lt; lia.
    + split; [exact Hi3|]. split; [exact Ha3|]. unfold len in *. lia.
Qed.

Lemma represent_inv : forall f o h, repOK (represent f o h).
Proof.
  induction f as [|f IH]; intros o h v s id s' H Hi; [discriminate H|]. cbn [represent] in H.
  assert (Hscal : forall t txt st, new_node (RScalar t txt st) s = ROk (id, s') -> RI s' /\ id < len s' /\ len s <= len s') by (intros; eapply new_scalar_ok; eauto).
  (* a sequence or a mapping/set registered under the heap address a *)
  assert (Hseq : forall a tg items,
            (id0 <-- new_node (RSeq tg [] false) ;; _ <-- remember a id0 ;; r <-- each_seq (represent f o h) items [] true ;;
             _ <-- set_node id0 (RSeq tg (fst r) (match default_flow o with Some b => b | None => snd r end)) ;; rret id0) s = ROk (id, s') ->
            RI s' /\ id < len s' /\ len s <= len s').
  { intros a tg items H0. unfold rbind at 1, new_node at 1 in H0. unfold rbind at 1, remember at 1 in H0. cbn [rnodes represented] in H0.
    unfold rbind at 1 in H0.
    match type of H0 with context [each_seq _ items [] true ?st1] => set (s1 := st1) in * end.
    destruct (each_seq (represent f o h) items [] true s1) as [[r s2]| | | |] eqn:E; try discriminate H0.
    assert (Hi1 : RI s1).
    { destruct Hi as [Hw Hr]. unfold s1, RI. cbn [rnodes represented]. split; [apply wf_app; auto|].
      rewrite app_length. cbn [length]. intros a0 i0 [Ei|Hin]; [injection Ei as <- <-; lia|specialize (Hr a0 i0 Hin); lia]. }
    destruct (each_seq_inv _ (IH o h) items [] true s1 r s2 E Hi1 eq_refl) as (Hi2 & Ha2 & Hl2).
    unfold rbind at 1, set_node at 1 in H0. unfold rret in H0. injection H0 as <- <-.
    assert (Ls1 : len s1 = S (len s)) by (unfold len, s1; cbn [rnodes]; rewrite app_length; cbn; lia).
    destruct Hi2 as [Hw2 Hr2]. unfold RI, len in *. cbn [rnodes represented]. rewrite set_nth_length.
    split; [split; [apply wf_set; auto|exact Hr2]|lia]. }
  assert (Hmap : forall a tag pairs1,
            (id0 <-- new_node (RMap tag [] false) ;; _ <-- remember a id0 ;; r <-- each_map (represent f o h) pairs1 [] true ;;
             _ <-- set_node id0 (RMap tag (fst r) (match default_flow o with Some b => b | None => snd r end)) ;; rret id0) s = ROk (id, s') ->
            RI s' /\ id < len s' /\ len s <= len s').
  { intros a tag pairs1 H0. unfold rbind at 1, new_node at 1 in H0. unfold rbind at 1, remember at 1 in H0. cbn [rnodes represented] in H0.
    unfold rbind at 1 in H0.
    match type of H0 with context [each_map _ pairs1 [] true ?st1] => set (s1 := st1) in * end.
    destruct (each_map (represent f o h) pairs1 [] true s1) as [[r s2]| | | |] eqn:E; try discriminate H0.
    assert (Hi1 : RI s1).
    { destruct Hi as [Hw Hr]. unfold s1, RI. cbn [rnodes represented]. split; [apply wf_app; auto|].
      rewrite app_length. cbn [length]. intros a0 i0 [Ei|Hin]; [injection Ei as <- <-; lia|specialize (Hr a0 i0 Hin); lia]. }
    destruct (each_map_inv _ (IH o h) pairs1 [] true s1 r s2 E Hi1 eq_refl) as (Hi2 & Ha2 & Hl2).
    unfold rbind at 1, set_node at 1 in H0. unfold rret in H0. injection H0 as <- <-.
    assert (Ls1 : len s1 = S (len s)) by (unfold len, s1; cbn [rnodes]; rewrite app_length; cbn; lia).
    destruct Hi2 as [Hw2 Hr2]. unfold RI, len in *. cbn [rnodes represented]. rewrite set_nth_length.
    split; [split; [apply wf_set; auto|exact Hr2]|lia]. }
  destruct v; try (eapply Hscal; exact H).
  - destruct (int_text z); [eapply Hscal; exact H|discriminate H].
  - (* a reference into the heap *)
    unfold rbind at 1 in H. cbn beta iota in H.
    destruct (assoc_nn a (represented s)) as [id0|] eqn:Ea.
    + unfold rret in H. injection H as <- <-. destruct Hi as [Hw Hr]. split; [split; assumption|]. split; [apply (Hr a id0), assoc_nn_in, Ea|unfold len; lia].
    + destruct (nth_error h a) as [[items|items|ks|x y]|]; try discriminate H.
      * exact (Hseq a _ items H).
      * exact (Hmap a _ _ H).
      * exact (Hmap a _ _ H).
Qed.

(* the representer model + the serializer model: for EVERY value and heap the document written for it is a document of the event grammar *)
Theorem dumped_document_grammatical : forall o h root evs c, dump_doc o h root = ROk evs -> krun (GDocs :: c) (map skind evs) = Some (GDocs :: c).
Proof.
  intros o h root evs c H. unfold dump_doc in H. generalize dependent (S (length h) * 2 + 4). intros fuel H.
  destruct (represent fuel o h root {| rnodes := []; represented := [] |}) as [[id s]| | | |] eqn:E; try discriminate H.
  assert (Eev : evs = [SDocStart] ++ snd (serialize_node (S (length (rnodes s)) * 2) (rnodes s) (fst (anchor_node (S (length (rnodes s)) * 2) (rnodes s) id ([], 0))) id ([], [])) ++ [SDocEnd]) by congruence.
  clear H. rewrite Eev.
  destruct (represent_inv _ o h root _ id s E) as ([Hw _] & Hid & _); [split; [reflexivity|intros a i []]|].
  apply serialized_document_grammatical; assumption.
Qed.

(* ... and the emitter model accepts what they write: a stream of such documents between STREAM-START and STREAM-END never meets a structural
   EmitterError *)
Theorem dumped_stream_accepted : forall docs evs canon allow_uni ind width lb,
  (forall d, In d docs -> exists o h root, dump_doc o h root = ROk d) ->
  map kind evs = KStreamStart :: flat_map (map skind) docs ++ [KStreamEnd] ->
  EmitGrammar.fine (snd (Emit.emit_all evs (Emit.init canon allow_uni ind width lb))).
Proof.
  intros docs evs canon au ind width lb Hd E. apply (emitter_accepts_the_event_grammar evs []). rewrite E. cbn [krun kstep].
  assert (H : forall ds, (forall d, In d ds -> exists o h root, dump_doc o h root = ROk d) -> krun [GDocs] (flat_map (map skind) ds ++ [KStreamEnd]) = Some []).
  { induction ds as [|d ds IHd]; intros Hds; [reflexivity|]. cbn [flat_map]. rewrite <- app_assoc, krun_app.
    destruct (Hds d (or_introl eq_refl)) as (o & h & root & Ed). rewrite (dumped_document_grammatical o h root d [] Ed). apply IHd. intros d' Hd'. apply Hds. right. exact Hd'. }
  exact (H docs Hd).
Qed.


(* non-vacuity: a list that contains itself and a shared mapping - the document has an anchor, an alias, and is accepted *)
Example dumped_cycle :
  let o := {| default_style := None; default_flow := None; sort_keys := true |} in
  let h := [Construct.CList [Construct.PInt 1; Construct.PRef 0; Construct.PRef 1; Construct.PRef 1]; Construct.CDict [(Construct.PStr [107%N], Construct.PNone)]] in
  match dump_doc o h (Construct.PRef 0) with
  | ROk evs => map skind evs = [KDocStart; KSeqStart; KLeaf; KLeaf; KMapStart; KLeaf; KLeaf; KMapEnd; KLeaf; KSeqEnd; KDocEnd] /\
               existsb (fun e => match e with SAlias (_ :: _) => true | _ => false end) evs = true
  | _ => False
  end.
Proof. vm_compute. split; reflexivity. Qed.
