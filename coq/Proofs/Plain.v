(* C02/C05: plain scalars - the scanner model reads back, character for character, every one-line plain text made of words and
   runs of spaces (block context), when the text is followed by the end of the input or by a line break and the end of the input. *)
From Coq Require Import List NArith ZArith Bool Arith Lia.
Import ListNotations.
Require Import Scan Pos DQ.
Arguments mem : simpl never.

(* a word: no blank character; a colon is never followed by a blank (x: the character after the word) *)
Definition wc (c : cp) : bool := negb (mem c blankz).
Fixpoint wok (w : str) (x : cp) : bool :=
  match w with
  | [] => true
  | c :: w' => wc c && (if N.eqb c 58 then negb (mem (hd x w') blankz) else true) && wok w' x
  end.
Definition wordok (w : str) (x : cp) : Prop := w <> [] /\ wok w x = true /\ hd 0%N w <> 35%N.
(* words separated by runs of spaces; x: the character after the text (a blank) *)
Inductive plainok (x : cp) : str -> Prop :=
| p_word w : wordok w x -> plainok x w
| p_more w sps t : wordok w SP -> sps <> [] -> forallb is_sp sps = true -> plainok x t -> plainok x (w ++ sps ++ t).

Lemma runs_bind {A B} (m : M A) (k : A -> M B) s a s1 r : m s = Ok (a, s1) -> k a s1 = r -> bind m k s = r.
Proof. intros H1 H2. unfold bind. rewrite H1. exact H2. Qed.

Lemma mem_app_nil c l : mem c (l ++ []) = mem c l.
Proof. rewrite app_nil_r. reflexivity. Qed.

(* plain_span over a word *)
Lemma plain_span_word : forall w fuel s pre x r,
  rest s = pre ++ w ++ x :: r -> wok w x = true -> mem x blankz = true -> length w < fuel ->
  plain_span fuel false (length pre) s = Ok (length pre + length w, s).
Proof.
  induction w as [|c w IH]; intros fuel s pre x r Hr Hw Hx Hf.
  - destruct fuel; [simpl in Hf; lia|]. cbn [plain_span].
    erewrite runs_bind; [reflexivity|apply peek_ok; rewrite Hr; cbn; rewrite nth_error_app2 by lia; rewrite Nat.sub_diag; reflexivity|].
    rewrite Hx. unfold ret. rewrite Nat.add_0_r. reflexivity.
  - destruct fuel; [simpl in Hf; lia|]. cbn [wok] in Hw. apply andb_prop in Hw as [Hw Hw3]. apply andb_prop in Hw as [Hw1 Hw2].
    unfold wc in Hw1. apply negb_true_iff in Hw1. cbn [plain_span].
    erewrite runs_bind; [reflexivity|apply peek_ok; rewrite Hr; rewrite nth_error_app2 by lia; rewrite Nat.sub_diag; reflexivity|].
    rewrite Hw1.
    assert (Hnext : nth_error (rest s) (S (length pre)) = Some (hd x w)).
    { rewrite Hr. rewrite nth_error_app2 by lia. replace (S (length pre) - length pre) with 1 by lia. cbn. destruct w; reflexivity. }
    assert (Hrec : plain_span fuel false (S (length pre)) s = Ok (length pre + length (c :: w), s)).
    { replace (S (length pre)) with (length (pre ++ [c])) by (rewrite app_length; cbn; lia).
      rewrite (IH fuel s (pre ++ [c]) x r); [f_equal; f_equal; rewrite app_length; cbn; lia|rewrite Hr, <- app_assoc; reflexivity|exact Hw3|exact Hx|cbn in Hf; lia]. }
    destruct (N.eqb c 58) eqn:E58.
    + erewrite runs_bind; [reflexivity|erewrite runs_bind; [reflexivity|apply peek_ok, Hnext|reflexivity]|].
      rewrite mem_app_nil. apply negb_true_iff in Hw2. rewrite Hw2. cbn [andb]. exact Hrec.
    + erewrite runs_bind; [reflexivity|reflexivity|]. cbn [andb]. exact Hrec.
Qed.

(* the loop body after the word has been copied (same term as in Scan.plain_loop) *)
Definition loop_K (f : nat) (ind : Z) (chunks : str) (e' : mark) (fl : bool) (sp : option str) (s : st) (ch : cp) : M (str * mark) :=
  match sp with
  | None => ret (chunks, e')
  | Some [] => ret (chunks, e')
  | Some sp' =>
      if N.eqb ch 35 || (negb fl && Z.ltb (Z.of_nat (col s)) ind) then ret (chunks, e')
      else plain_loop f ind chunks sp' e'
  end.
Lemma plain_loop_unfold f ind chunks spaces e :
  plain_loop (S f) ind chunks spaces e =
  (ch <- peek 0 ;;
   if N.eqb ch 35 then ret (chunks, e) else
   fl <- flowing ;;
   n <- with_fuel (fun f' => plain_span f' fl 0) ;;
   match n with
   | O => ret (chunks, e)
   | _ => set_allow false ;;; p <- prefix n ;; forward n ;;;
          e' <- get_mark ;; sp <- scan_plain_spaces ;; s <- get ;; ch <- peek 0 ;; loop_K f ind (chunks ++ spaces ++ p) e' fl sp s ch
   end).
Proof. reflexivity. Qed.

Lemma wok_hd_nonblank w x : w <> [] -> wok w x = true -> mem (hd 0%N w) blankz = false.
Proof. destruct w as [|c w]; [congruence|]. intros _ H. cbn [wok] in H. apply andb_prop in H as [H _]. apply andb_prop in H as [H _]. apply negb_true_iff in H. exact H. Qed.

(* characters of a text without blanks other than the space do not move the line and never decrease the column *)
Definition nobreak (c : cp) : bool := negb (mem c [LF; NEL; LS; PS]) && negb (N.eqb c CR).
Lemma advance_nobreak : forall p x l c, forallb nobreak p = true -> fst (advance p x l c) = l /\ c <= snd (advance p x l c).
Proof.
  induction p as [|ch p IH]; intros x l c H; cbn [advance]; [cbn; auto|].
  cbn [forallb] in H. apply andb_prop in H as [H1 H2]. unfold nobreak in H1. apply andb_prop in H1 as [Ha Hb]. apply negb_true_iff in Ha, Hb.
  unfold step_pos, is_brk. rewrite Ha, Hb. cbn [orb andb].
  destruct (N.eqb ch BOM).
  - destruct (IH x l c H2) as [E1 E2]. split; assumption.
  - destruct (IH x l (S c) H2) as [E1 E2]. split; [exact E1|lia].
Qed.
Lemma wc_nobreak c : wc c = true -> nobreak c = true.
Proof.
  unfold wc, nobreak. intros H. apply negb_true_iff in H. unfold mem, blankz in H. cbn [existsb] in H.
  repeat (apply orb_false_iff in H as [? H]). unfold mem. cbn [existsb].
  repeat match goal with E : N.eqb c _ = false |- _ => rewrite E; clear E end. reflexivity.
Qed.
Lemma wok_wc w x : wok w x = true -> forallb wc w = true.
Proof. induction w as [|c w IH]; cbn; auto. intros H. apply andb_prop in H as [H H3]. apply andb_prop in H as [H1 _]. rewrite H1. auto. Qed.
Lemma forallb_impl {X} (p q : X -> bool) l : (forall x, p x = true -> q x = true) -> forallb p l = true -> forallb q l = true.
Proof. intros H. induction l as [|a l IH]; cbn; auto. intros E. apply andb_prop in E as [E1 E2]. rewrite (H a E1). auto. Qed.
Lemma sp_nobreak c : is_sp c = true -> nobreak c = true.
Proof. unfold is_sp. intros H. apply N.eqb_eq in H. subst c. reflexivity. Qed.

(* one word: the loop copies it and stands at the blank after it *)
Lemma word_step f ind chunks spaces e s w x r :
  rest s = w ++ x :: r -> wordok w x -> mem x blankz = true -> flow_level s = 0%Z ->
  exists s1, rest s1 = x :: r /\ flow_level s1 = 0%Z /\ line s1 = line s /\ col s <= col s1 /\ indent s1 = indent s /\
    plain_loop (S f) ind chunks spaces e s =
    (sp <- scan_plain_spaces ;; s2 <- get ;; ch <- peek 0 ;;
     loop_K f ind (chunks ++ spaces ++ w) {| m_index := index s1; m_line := line s1; m_col := col s1 |} false sp s2 ch) s1.
Proof.
  intros Hr (Hne & Hw & Hh) Hx Hfl. rewrite plain_loop_unfold.
  destruct w as [|c0 w']; [congruence|]. set (w := c0 :: w') in *.
  assert (H35 : N.eqb c0 35 = false) by (apply N.eqb_neq; exact Hh).
  erewrite runs_bind; [|apply peek_ok; rewrite Hr; reflexivity|reflexivity]. rewrite H35.
  erewrite runs_bind; [|unfold flowing; erewrite runs_bind; [reflexivity|reflexivity|reflexivity]|reflexivity]. rewrite Hfl. cbn [Z.eqb negb].
  erewrite runs_bind; [|rewrite with_fuel_eq; apply (plain_span_word w (fuel_of s) s [] x r); [exact Hr|exact Hw|exact Hx|unfold fuel_of; rewrite Hr, app_length; cbn; lia]|reflexivity].
  subst w. cbn [length plus]. set (w := c0 :: w') in *.
  set (sa := {| rest := rest s; index := index s; line := line s; col := col s; sdone := sdone s; flow_level := flow_level s;
                tokens := tokens s; taken := taken s; indent := indent s; indents := indents s; allow_sk := false; psk := psk s |}).
  erewrite runs_bind with (s1 := sa); [|reflexivity|reflexivity].
  erewrite runs_bind; [|apply prefix_ok|reflexivity].
  assert (Hra : rest sa = w ++ x :: r) by exact Hr.
  destruct (forward_spec (length w) sa w r x Hra eq_refl) as (s1 & F & R1 & _ & Hpos & _ & Hfl1 & Hin1).
  erewrite runs_bind; [|exact F|reflexivity].
  erewrite runs_bind; [|reflexivity|reflexivity].
  assert (Hnb : forallb nobreak w = true) by (apply (forallb_impl wc); [apply wc_nobreak|apply (wok_wc w x), Hw]).
  destruct (advance_nobreak w x (line sa) (col sa) Hnb) as [Hl Hc]. rewrite <- Hpos in Hl, Hc. cbn [fst snd] in Hl, Hc.
  exists s1. repeat split; auto.
  - rewrite Hfl1. exact Hfl.
  - change (S (length w')) with (length w). rewrite Hra. rewrite firstn_app_exact. reflexivity.
Qed.

Lemma blank_mem_breaks c : mem c blankz = false -> mem c breaks = false /\ is_sp c = false /\ mem c (SP :: breaks) = false.
Proof.
  unfold mem, blankz, breaks, is_sp. cbn [existsb]. intros H. repeat (apply orb_false_iff in H as [? H]).
  repeat match goal with E : N.eqb c _ = false |- _ => rewrite E; clear E end. auto.
Qed.

(* scan_plain_spaces over a run of spaces followed by a word *)
Lemma spaces_then_word s sps c r : rest s = sps ++ c :: r -> forallb is_sp sps = true -> mem c blankz = false ->
  exists s1, scan_plain_spaces s = Ok (Some sps, s1) /\ rest s1 = c :: r /\ flow_level s1 = flow_level s /\ line s1 = line s /\ col s <= col s1 /\ indent s1 = indent s.
Proof.
  intros Hr Hs Hc. destruct (blank_mem_breaks c Hc) as (Hb & Hsp & _). unfold scan_plain_spaces.
  erewrite runs_bind; [|rewrite with_fuel_eq; apply (span_spec is_sp sps (fuel_of s) 0 s [] c r); [exact Hr|reflexivity|exact Hs|exact Hsp|unfold fuel_of; rewrite Hr, app_length; cbn; lia]|reflexivity].
  cbn [plus]. erewrite runs_bind; [|apply prefix_ok|reflexivity]. rewrite Hr, firstn_app_exact.
  destruct (forward_spec (length sps) s sps r c Hr eq_refl) as (s1 & F & R1 & _ & Hpos & _ & Hfl1 & Hin1).
  erewrite runs_bind; [|exact F|reflexivity].
  erewrite runs_bind; [|apply peek_ok; rewrite R1; reflexivity|reflexivity]. rewrite Hb.
  destruct (advance_nobreak sps c (line s) (col s) (forallb_impl is_sp nobreak sps sp_nobreak Hs)) as [Hl Hcl]. rewrite <- Hpos in Hl, Hcl. cbn [fst snd] in Hl, Hcl.
  exists s1. repeat split; auto.
Qed.
(* ... at the end of the input *)
Lemma spaces_at_nul s r : rest s = NUL :: r -> scan_plain_spaces s = Ok (Some [], s).
Proof.
  intros Hr. unfold scan_plain_spaces.
  erewrite runs_bind; [|rewrite with_fuel_eq; apply (span_spec is_sp [] (fuel_of s) 0 s [] NUL r); [exact Hr|reflexivity|reflexivity|reflexivity|unfold fuel_of; cbn; lia]|reflexivity].
  cbn [plus length]. erewrite runs_bind; [|apply prefix_ok|reflexivity]. cbn [firstn].
  erewrite runs_bind; [|reflexivity|reflexivity].
  erewrite runs_bind; [|apply peek_ok; rewrite Hr; reflexivity|reflexivity]. reflexivity.
Qed.
(* ... at a line feed that is the last character of the input: one space stands for the folded break *)
Lemma spaces_at_lf_nul s r : rest s = LF :: NUL :: r ->
  exists s1, scan_plain_spaces s = Ok (Some [SP], s1) /\ rest s1 = NUL :: r /\ flow_level s1 = flow_level s.
Proof.
  intros Hr. unfold scan_plain_spaces.
  erewrite runs_bind; [|rewrite with_fuel_eq; apply (span_spec is_sp [] (fuel_of s) 0 s [] LF (NUL :: r)); [exact Hr|reflexivity|reflexivity|reflexivity|unfold fuel_of; cbn; lia]|reflexivity].
  cbn [plus length]. erewrite runs_bind; [|apply prefix_ok|reflexivity]. cbn [firstn].
  erewrite runs_bind; [|reflexivity|reflexivity].
  erewrite runs_bind; [|apply peek_ok; rewrite Hr; reflexivity|reflexivity].
  replace (mem LF breaks) with true by reflexivity.
  destruct (forward_spec 1 s [LF] r NUL Hr eq_refl) as (s1 & F & R1 & _ & _ & _ & Hfl1 & _).
  erewrite runs_bind with (a := [LF]) (s1 := s1).
  2:{ unfold scan_line_break. erewrite runs_bind; [|apply peek_ok; rewrite Hr; reflexivity|reflexivity].
      replace (mem LF [CR; LF; NEL]) with true by reflexivity.
      erewrite runs_bind; [|apply prefix_ok|reflexivity]. rewrite Hr. cbn [firstn].
      replace (str_eqb [LF; NUL] [CR; LF]) with false by reflexivity.
      erewrite runs_bind; [|exact F|reflexivity]. reflexivity. }
  2: reflexivity.
  set (sb := {| rest := rest s1; index := index s1; line := line s1; col := col s1; sdone := sdone s1; flow_level := flow_level s1;
                tokens := tokens s1; taken := taken s1; indent := indent s1; indents := indents s1; allow_sk := true; psk := psk s1 |}).
  erewrite runs_bind with (s1 := sb); [|reflexivity|reflexivity].
  erewrite runs_bind; [|apply prefix_ok|reflexivity].
  assert (Rb : rest sb = NUL :: r) by exact R1. rewrite Rb.
  replace (is_doc_sep (firstn 3 (NUL :: r))) with false by (cbn [firstn]; unfold is_doc_sep; cbn; reflexivity).
  erewrite runs_bind; [|reflexivity|reflexivity]. cbn [orb].
  erewrite runs_bind with (a := Some []) (s1 := sb).
  2:{ rewrite with_fuel_eq. unfold fuel_of. cbn [ps_inner]. erewrite runs_bind; [|apply peek_ok; rewrite Rb; reflexivity|reflexivity]. reflexivity. }
  2: reflexivity.
  exists sb. repeat split; auto.
Qed.

Ltac la := repeat first [rewrite <- (@app_assoc cp) | rewrite <- (@app_assoc N) | rewrite <- app_comm_cons]; try reflexivity.
Lemma plainok_head x t : plainok x t -> exists c t0, t = c :: t0 /\ mem c blankz = false /\ c <> 35%N.
Proof.
  assert (Hw : forall w y, wordok w y -> exists c w0, w = c :: w0 /\ mem c blankz = false /\ c <> 35%N).
  { intros w y (Hne & Hw & Hh). destruct w as [|c w0]; [congruence|]. exists c, w0. split; [reflexivity|]. split; [exact (wok_hd_nonblank (c :: w0) y Hne Hw)|exact Hh]. }
  intros [w H|w sps t' H _ _ _].
  - destruct (Hw w x H) as (c & w0 & -> & A & B). eauto.
  - destruct (Hw w SP H) as (c & w0 & -> & A & B). exists c, (w0 ++ sps ++ t'). auto.
Qed.

Lemma loop_at_nul f ind chunks spaces e s r : rest s = NUL :: r -> plain_loop (S f) ind chunks spaces e s = Ok ((chunks, e), s).
Proof.
  intros Hr. rewrite plain_loop_unfold.
  erewrite runs_bind; [|apply peek_ok; rewrite Hr; reflexivity|reflexivity]. replace (N.eqb NUL 35) with false by reflexivity.
  erewrite runs_bind; [|unfold flowing; erewrite runs_bind; [reflexivity|reflexivity|reflexivity]|reflexivity].
  erewrite runs_bind with (a := 0) (s1 := s); [reflexivity| |reflexivity].
  rewrite with_fuel_eq. unfold fuel_of. cbn [plain_span]. erewrite runs_bind; [|apply peek_ok; rewrite Hr; reflexivity|reflexivity]. reflexivity.
Qed.

(* what follows the text: the end of the input, or a line feed and the end of the input *)
Definition ender (x : cp) (r : str) : Prop := x = NUL \/ (x = LF /\ exists r', r = NUL :: r').
Definition after (x : cp) (r : str) : str := if N.eqb x NUL then NUL :: r else r.

Lemma loop_spec : forall x t, plainok x t -> forall f ind chunks spaces e s r,
  rest s = t ++ x :: r -> ender x r -> flow_level s = 0%Z -> (ind <= Z.of_nat (col s))%Z -> length (rest s) < f ->
  exists e' s', plain_loop f ind chunks spaces e s = Ok ((chunks ++ spaces ++ t, e'), s') /\ rest s' = after x r.
Proof.
  intros x t Hp. induction Hp as [w Hw|w sps t' Hw Hne Hsp Hp' IH]; intros f ind chunks spaces e s r Hr He Hfl Hcol Hf.
  - (* the last word *)
    destruct f as [|f]; [lia|].
    assert (Hx : mem x blankz = true) by (destruct He as [->|[-> _]]; reflexivity).
    destruct (word_step f ind chunks spaces e s w x r Hr Hw Hx Hfl) as (s1 & R1 & Hfl1 & Hl1 & Hc1 & Hi1 & E). rewrite E. clear E.
    destruct He as [->|[-> [r' ->]]].
    + erewrite runs_bind; [|apply (spaces_at_nul s1 r R1)|reflexivity].
      erewrite runs_bind; [|reflexivity|reflexivity]. erewrite runs_bind; [|apply peek_ok; rewrite R1; reflexivity|reflexivity].
      cbn [loop_K]. eexists _, s1. split; [reflexivity|exact R1].
    + destruct (spaces_at_lf_nul s1 r' R1) as (s2 & E2 & R2 & Hfl2).
      erewrite runs_bind; [|exact E2|reflexivity].
      erewrite runs_bind; [|reflexivity|reflexivity]. erewrite runs_bind; [|apply peek_ok; rewrite R2; reflexivity|reflexivity].
      cbn [loop_K]. replace (N.eqb NUL 35) with false by reflexivity. cbn [orb negb andb].
      destruct (Z.ltb (Z.of_nat (col s2)) ind); [eexists _, s2; split; [reflexivity|exact R2]|].
      destruct f as [|f]; [rewrite Hr, app_length in Hf; cbn in Hf; lia|].
      rewrite (loop_at_nul f ind _ _ _ s2 r' R2). eexists _, s2. split; [reflexivity|exact R2].
  - (* a word, a run of spaces, the rest *)
    destruct f as [|f]; [lia|].
    destruct sps as [|sp0 sps']; [congruence|]. cbn [forallb] in Hsp. apply andb_prop in Hsp as [Hsp0 Hsp'].
    unfold is_sp in Hsp0. apply N.eqb_eq in Hsp0. subst sp0.
    destruct (plainok_head x t' Hp') as (c & t0 & -> & Hcb & Hc35).
    assert (Hr1 : rest s = w ++ SP :: (sps' ++ (c :: t0) ++ x :: r)) by (rewrite Hr; la).
    destruct (word_step f ind chunks spaces e s w SP _ Hr1 Hw eq_refl Hfl) as (s1 & R1 & Hfl1 & Hl1 & Hc1 & Hi1 & E). rewrite E. clear E.
    assert (R1' : rest s1 = (SP :: sps') ++ c :: (t0 ++ x :: r)) by (rewrite R1; la).
    destruct (spaces_then_word s1 (SP :: sps') c _ R1') as (s2 & E2 & R2 & Hfl2 & Hl2 & Hc2 & Hi2); [cbn [forallb]; rewrite Hsp'; reflexivity|exact Hcb|].
    erewrite runs_bind; [|exact E2|reflexivity].
    erewrite runs_bind; [|reflexivity|reflexivity]. erewrite runs_bind; [|apply peek_ok; rewrite R2; reflexivity|reflexivity].
    cbn [loop_K]. replace (N.eqb c 35) with false by (symmetry; apply N.eqb_neq; exact Hc35). cbn [orb negb andb].
    replace (Z.ltb (Z.of_nat (col s2)) ind) with false by (symmetry; apply Z.ltb_ge; lia).
    destruct (IH f ind (chunks ++ spaces ++ w) (SP :: sps') {| m_index := index s1; m_line := line s1; m_col := col s1 |} s2 r) as (e' & s' & E3 & R3).
    + rewrite R2. reflexivity.
    + exact He.
    + rewrite Hfl2. exact Hfl1.
    + lia.
    + rewrite R2. rewrite Hr1 in Hf. rewrite !app_length in *. cbn [length] in *. rewrite !app_length in *. cbn [length] in *. lia.
    + exists e', s'. split; [|exact R3]. rewrite E3. la.
Qed.

(* EVERY one-line plain text of words and spaces, in block context, at a column inside the current indentation: the scanner reads it back
   character for character *)
Theorem plain_roundtrip : forall x t r s, plainok x t -> rest s = t ++ x :: r -> ender x r -> flow_level s = 0%Z ->
  (indent s + 1 <= Z.of_nat (col s))%Z ->
  exists tok s', scan_plain s = Ok (tok, s') /\ t_kind tok = TScalar t true SPlain /\ rest s' = after x r.
Proof.
  intros x t r s Hp Hr He Hfl Hcol. unfold scan_plain.
  erewrite runs_bind; [|reflexivity|reflexivity]. erewrite runs_bind; [|reflexivity|reflexivity].
  destruct (loop_spec x t Hp (fuel_of s) (indent s + 1)%Z [] [] {| m_index := index s; m_line := line s; m_col := col s |} s r Hr He Hfl Hcol) as (e' & s' & E & R).
  { unfold fuel_of. lia. }
  erewrite runs_bind; [|rewrite with_fuel_eq; exact E|reflexivity].
  eexists _, s'. split; [reflexivity|]. split; [reflexivity|exact R].
Qed.


(* non-vacuity: a text with an inner colon, an inner hash and several spaces satisfies the hypotheses and is read back by the whole model *)
Example plain_example :
  let t := [97; 58; 98; 32; 32; 99; 35; 100; 32; 45; 101]%N in     (* a:b  c#d -e *)
  plainok LF t /\
  (let s := {| rest := t ++ [LF; NUL]; index := 0; line := 0; col := 0; sdone := false; flow_level := 0; tokens := []; taken := 0;
               indent := (-1)%Z; indents := []; allow_sk := true; psk := [] |} in
   match scan_plain s with Ok (tok, s') => t_kind tok = TScalar t true SPlain /\ rest s' = [NUL] | _ => False end).
Proof.
  split.
  - apply (p_more LF [97; 58; 98]%N [32; 32]%N [99; 35; 100; 32; 45; 101]%N); [repeat split; try discriminate; reflexivity|discriminate|reflexivity|].
    apply (p_more LF [99; 35; 100]%N [32]%N [45; 101]%N); [repeat split; try discriminate; reflexivity|discriminate|reflexivity|].
    apply p_word. repeat split; try discriminate; reflexivity.
  - vm_compute. split; reflexivity.
Qed.
