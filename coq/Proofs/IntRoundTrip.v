(* C02/C08: every integer the representer model writes is read back by the constructor model as the same integer. *)
From Coq Require Import List NArith ZArith Bool Arith Lia.
Import ListNotations.
Require Import Scan Construct.
Require Represent.
Open Scope Z_scope.

Definition dig (d : Z) : cp := Z.to_N (48 + d).
Lemma digit_val_dig d : 0 <= d < 10 -> digit_val (dig d) = Some (Z.to_N d).
Proof.
  intros H. unfold digit_val, dig. replace (Z.to_N (48 + d)) with (48 + Z.to_N d)%N by lia.
  replace ((48 <=? 48 + Z.to_N d) && (48 + Z.to_N d <=? 57))%N with true; [f_equal; lia|].
  symmetry. apply andb_true_intro. split; apply N.leb_le; lia.
Qed.
Lemma digits_val_app base a b acc : digits_val base (a ++ b) acc = match digits_val base a acc with Some z => digits_val base b z | None => None end.
Proof. revert acc. induction a as [|c a IH]; intros acc; cbn [app digits_val]; [reflexivity|]. destruct (digit_val c); [|reflexivity]. destruct (N.ltb _ base); auto. Qed.

(* the digits of n, most significant first: what dec_digits computes when its fuel suffices *)
Lemma dec_digits_acc : forall fuel n acc, Represent.dec_digits fuel n acc = Represent.dec_digits fuel n [] ++ acc.
Proof.
  induction fuel as [|f IH]; intros n acc; cbn [Represent.dec_digits]; [reflexivity|].
  destruct (n <? 10); [reflexivity|]. rewrite (IH (n / 10) (_ :: acc)), (IH (n / 10) [_]). rewrite <- app_assoc. reflexivity.
Qed.
Lemma dec_digits_val : forall fuel n, 0 <= n -> n < 10 ^ Z.of_nat fuel -> forall a, 0 <= a ->
  digits_val 10 (Represent.dec_digits fuel n []) a = Some (a * 10 ^ (Z.of_nat (length (Represent.dec_digits fuel n []))) + n).
Proof.
  induction fuel as [|f IH]; intros n Hn Hb a Ha; [cbn in *; f_equal; lia|]. cbn [Represent.dec_digits].
  destruct (n <? 10) eqn:E.
  - apply Z.ltb_lt in E. cbn [digits_val length]. change (Z.to_N (48 + n)) with (dig n). rewrite (digit_val_dig n) by lia.
    replace (Z.to_N n <? 10)%N with true by (symmetry; apply N.ltb_lt; lia). cbn [digits_val]. f_equal. rewrite Z2N.id by lia. change (Z.of_N 10) with 10. change (Z.of_nat 1) with 1. lia.
  - apply Z.ltb_ge in E. rewrite dec_digits_acc. rewrite digits_val_app.
    assert (Hq : 0 <= n / 10) by (apply Z.div_pos; lia).
    assert (Hqb : n / 10 < 10 ^ Z.of_nat f).
    { apply Z.div_lt_upper_bound; [lia|]. rewrite Nat2Z.inj_succ, Z.pow_succ_r in Hb by lia. lia. }
    rewrite (IH (n / 10) Hq Hqb a Ha). cbn [digits_val]. change (Z.to_N (48 + n mod 10)) with (dig (n mod 10)).
    assert (Hm : 0 <= n mod 10 < 10) by (apply Z.mod_pos_bound; lia).
    rewrite (digit_val_dig _ Hm). replace (Z.to_N (n mod 10) <? 10)%N with true by (symmetry; apply N.ltb_lt; lia). f_equal.
    rewrite app_length. cbn [length]. rewrite Nat2Z.inj_add. change (Z.of_nat 1) with 1. rewrite Z.pow_add_r by lia. rewrite Z2N.id by lia. change (Z.of_N 10) with 10.
    pose proof (Z.div_mod n 10 ltac:(lia)) as Hdm. rewrite Z.pow_1_r. set (P := 10 ^ Z.of_nat (length (Represent.dec_digits f (n / 10) []))). nia.
Qed.

Lemma dec_digits_fuel : forall fuel n, 0 <= n -> n < 10 ^ Z.of_nat fuel \/ length (Represent.dec_digits fuel n []) = fuel.
Proof.
  induction fuel as [|f IH]; intros n Hn; [right; reflexivity|]. cbn [Represent.dec_digits].
  rewrite Nat2Z.inj_succ, Z.pow_succ_r by lia. assert (0 < 10 ^ Z.of_nat f) by (apply Z.pow_pos_nonneg; lia).
  destruct (n <? 10) eqn:E; [apply Z.ltb_lt in E; left; lia|]. apply Z.ltb_ge in E.
  rewrite dec_digits_acc, app_length. cbn [length].
  destruct (IH (n / 10) ltac:(apply Z.div_pos; lia)) as [Hb|Hl]; [left|right; lia].
  pose proof (Z.div_mod n 10 ltac:(lia)). pose proof (Z.mod_pos_bound n 10 ltac:(lia)). lia.
Qed.

Definition isd (c : cp) : bool := ((48 <=? c) && (c <=? 57))%N.
Lemma isd_dig d : 0 <= d < 10 -> isd (dig d) = true.
Proof. intros H. unfold isd, dig. apply andb_true_intro. split; apply N.leb_le; lia. Qed.
Lemma dec_digits_isd : forall fuel n acc, 0 <= n -> forallb isd acc = true -> forallb isd (Represent.dec_digits fuel n acc) = true.
Proof.
  induction fuel as [|f IH]; intros n acc Hn Ha; cbn [Represent.dec_digits]; [exact Ha|].
  destruct (n <? 10) eqn:E.
  - apply Z.ltb_lt in E. cbn [forallb]. change (Z.to_N (48 + n)) with (dig n). rewrite isd_dig, Ha by lia. reflexivity.
  - apply IH; [apply Z.div_pos; lia|]. cbn [forallb]. change (Z.to_N (48 + n mod 10)) with (dig (n mod 10)). rewrite isd_dig, Ha; [reflexivity|apply Z.mod_pos_bound; lia].
Qed.
(* no leading zero: the first digit of a positive number is not '0' *)
Lemma dec_digits_head : forall fuel n, 0 < n -> n < 10 ^ Z.of_nat fuel -> exists c r, Represent.dec_digits fuel n [] = c :: r /\ isd c = true /\ c <> 48%N.
Proof.
  induction fuel as [|f IH]; intros n Hn Hb; [cbn in Hb; lia|]. cbn [Represent.dec_digits].
  destruct (n <? 10) eqn:E.
  - apply Z.ltb_lt in E. exists (dig n), []. split; [reflexivity|]. split; [apply isd_dig; lia|unfold dig; lia].
  - apply Z.ltb_ge in E. rewrite dec_digits_acc.
    destruct (IH (n / 10)) as (c & r & Ed & Hc & Hz).
    + apply Z.div_str_pos. lia.
    + apply Z.div_lt_upper_bound; [lia|]. rewrite Nat2Z.inj_succ, Z.pow_succ_r in Hb by lia. lia.
    + rewrite Ed. exists c, (r ++ [Z.to_N (48 + n mod 10)]). auto.
Qed.

Lemma isd_range c : isd c = true -> (48 <= c <= 57)%N.
Proof. unfold isd. intros H. apply andb_prop in H as [H1 H2]. apply N.leb_le in H1, H2. lia. Qed.
Lemma fb_impl {X} (p q : X -> bool) l : (forall x, p x = true -> q x = true) -> forallb p l = true -> forallb q l = true.
Proof. intros H. induction l as [|a l IH]; cbn; auto. intros E. apply andb_prop in E as [E1 E2]. rewrite (H a E1). auto. Qed.
Lemma isd_ascii d : forallb isd d = true -> is_ascii d = true.
Proof. unfold is_ascii. apply fb_impl. intros c H. apply isd_range in H. apply N.ltb_lt. lia. Qed.
Lemma isd_remove_us d : forallb isd d = true -> remove_us d = d.
Proof.
  unfold remove_us. induction d as [|c d IH]; cbn; [reflexivity|]. intros H. apply andb_prop in H as [H1 H2]. apply isd_range in H1.
  replace (N.eqb c 95) with false by (symmetry; apply N.eqb_neq; lia). cbn. f_equal. auto.
Qed.
Lemma isd_no_colon d : forallb isd d = true -> has_colon d = false.
Proof.
  unfold has_colon. induction d as [|c d IH]; cbn [existsb forallb]; [reflexivity|]. intros H. apply andb_prop in H as [H1 H2]. apply isd_range in H1.
  replace (N.eqb 58 c) with false by (symmetry; apply N.eqb_neq; lia). cbn [orb]. apply IH, H2.
Qed.
Lemma isd_not_space c : isd c = true -> py_space c = false.
Proof.
  intros H. apply isd_range in H. unfold py_space.
  repeat match goal with |- context [N.leb ?a ?b] => first [replace (N.leb a b) with true by (symmetry; apply N.leb_le; lia)|replace (N.leb a b) with false by (symmetry; apply N.leb_gt; lia)] end.
  repeat match goal with |- context [N.eqb c ?b] => replace (N.eqb c b) with false by (symmetry; apply N.eqb_neq; lia) end. reflexivity.
Qed.
Lemma isd_lstrip d : forallb isd d = true -> lstrip d = d.
Proof. destruct d as [|c d]; cbn; [reflexivity|]. intros H. apply andb_prop in H as [H1 _]. rewrite (isd_not_space c H1). reflexivity. Qed.
Lemma isd_strip d : forallb isd d = true -> strip d = d.
Proof.
  intros H. unfold strip. rewrite (isd_lstrip d H). rewrite isd_lstrip; [apply rev_involutive|].
  rewrite forallb_forall in *. intros x Hx. apply H. apply in_rev. exact Hx.
Qed.

(* int(d, 10) on a digit string without sign and leading zero *)
Lemma py_int_digits d n : forallb isd d = true -> d <> [] -> (length d <= 4300)%nat -> digits_val 10 d 0 = Some n -> py_int d 10 = Some n.
Proof.
  intros Hd Hne Hl Hv. unfold py_int. rewrite (isd_strip d Hd). destruct d as [|c d']; [congruence|].
  assert (Hc : (48 <= c <= 57)%N) by (cbn in Hd; apply andb_prop in Hd as [H1 _]; apply isd_range, H1).
  assert (Hl' : Nat.ltb 4300 (length (c :: d')) = false) by (apply Nat.ltb_ge; exact Hl).
  assert (Hcases : (c = 48 \/ c = 49 \/ c = 50 \/ c = 51 \/ c = 52 \/ c = 53 \/ c = 54 \/ c = 55 \/ c = 56 \/ c = 57)%N) by lia.
  destruct Hcases as [->|[->|[->|[->|[->|[->|[->|[->|[->| ->]]]]]]]]]; try (cbv beta iota zeta; rewrite Hl'; cbn [andb N.eqb Pos.eqb]; rewrite Hv; reflexivity).
  destruct d' as [|x r]; cbv beta iota zeta; cbn [N.eqb Pos.eqb andb orb]; rewrite Hl'; cbn [andb]; rewrite Hv; reflexivity.
Qed.

(* the decimal digits of a natural number, as written by the representer model (F: the fuel of dec_nat, L: the digit limit) *)
Lemma dec_facts F L n : (L < F)%nat -> 0 <= n -> (length (Represent.dec_digits F n []) <= L)%nat ->
  forallb isd (Represent.dec_digits F n []) = true /\ digits_val 10 (Represent.dec_digits F n []) 0 = Some n /\
  (0 < n -> exists c r, Represent.dec_digits F n [] = c :: r /\ c <> 48%N).
Proof.
  intros HLF Hn Hl.
  destruct (dec_digits_fuel F n Hn) as [Hb|Hf]; [|rewrite Hf in Hl; lia].
  split; [apply dec_digits_isd; auto|]. split; [rewrite (dec_digits_val F n Hn Hb 0 ltac:(lia)); f_equal; lia|].
  intros Hp. destruct (dec_digits_head F n Hp Hb) as (c & r & E & _ & Hz). eauto.
Qed.
Lemma lt_4300_5000 : (4300 < 5000)%nat.
Proof. apply Nat.ltb_lt. vm_compute. reflexivity. Qed.
Lemma dec_nat_zero : Represent.dec_nat 0 = [48%N].
Proof. reflexivity. Qed.
Lemma dec_nat_eq : exists F, (4300 < F)%nat /\ forall n, Represent.dec_nat n = Represent.dec_digits F n [].
Proof. exists 5000%nat. split; [exact lt_4300_5000|intros n; reflexivity]. Qed.
Lemma dec_nat_facts n : 0 <= n -> (length (Represent.dec_nat n) <= 4300)%nat ->
  forallb isd (Represent.dec_nat n) = true /\ digits_val 10 (Represent.dec_nat n) 0 = Some n /\
  (n = 0 -> Represent.dec_nat n = [48%N]) /\ (0 < n -> exists c r, Represent.dec_nat n = c :: r /\ c <> 48%N).
Proof.
  intros Hn Hl. destruct dec_nat_eq as (F & HLF & E).
  split; [|split; [|split; [intros ->; exact dec_nat_zero|]]]; rewrite E in *; destruct (dec_facts F 4300 n HLF Hn Hl) as (A & B & C); assumption.
Qed.

(* the tail of construct_yaml_int after the sign has been split off (the same term as in Construct.construct_int) *)
Definition body (sign : Z) (value : str) : conv Z :=
    let of := fun (o : option Z) => match o with Some z => COk (sign * z)%Z | None => CCrash XValueError end in
    if str_eqb value [48%N] then COk 0%Z
    else if starts_with [48;98]%N value then of (py_int (skipn 2 value) 2)
    else if starts_with [48;120]%N value then of (py_int (skipn 2 value) 16)
    else match value with
         | [] => CCrash XIndexError
         | 48%N :: _ => of (py_int value 8)
         | _ =>
           if has_colon value then
             let parts := map (fun p => py_int p 10) (split_colon value []) in
             if forallb (fun o => match o with Some _ => true | None => false end) parts then
               let digits := rev (map (fun o => match o with Some z => z | None => 0%Z end) parts) in
               COk (sign * fst (fold_left (fun (acc : Z * Z) d => (fst acc + d * snd acc, snd acc * 60)%Z) digits (0, 1)%Z))%Z
             else CCrash XValueError
           else of (py_int value 10)
         end.
Lemma construct_int_unfold v : construct_int v =
  if negb (is_ascii v) then CUnmod else
  match remove_us v with
  | [] => CCrash XIndexError
  | c0 :: _ => body (if N.eqb c0 45 then (-1)%Z else 1%Z) (if N.eqb c0 45 || N.eqb c0 43 then tl (remove_us v) else remove_us v)
  end.
Proof. reflexivity. Qed.

Lemma body_digits d n sign : 0 <= n -> forallb isd d = true -> digits_val 10 d 0 = Some n -> (n = 0 -> d = [48%N]) ->
  (0 < n -> exists c r, d = c :: r /\ c <> 48%N) -> (length d <= 4300)%nat -> body sign d = COk (sign * n).
Proof.
  intros Hn Hd Hv H0 Hpos El. unfold body. destruct (Z.eq_dec n 0) as [E0|N0].
  - rewrite (H0 E0). cbn. rewrite E0. f_equal. lia.
  - destruct (Hpos ltac:(lia)) as (c & r & Ed & Hc). assert (Hcd : isd c = true) by (rewrite Ed in Hd; cbn in Hd; apply andb_prop in Hd; apply Hd).
    pose proof (isd_range c Hcd) as Hr.
    assert (E48 : N.eqb c 48 = false) by (apply N.eqb_neq; exact Hc).
    assert (S1 : str_eqb d [48%N] = false) by (rewrite Ed; cbn [str_eqb]; rewrite E48; reflexivity).
    assert (S2 : forall y, starts_with [48%N; y] d = false).
    { intros y. unfold starts_with. rewrite Ed. cbn [length firstn]. destruct r; cbn [firstn str_eqb]; rewrite N.eqb_sym, E48; reflexivity. }
    cbv zeta. rewrite S1, !S2. rewrite Ed.
    assert (Hm : forall (X Y Z0 : conv Z), match c :: r with [] => X | 48%N :: _ => Y | _ => Z0 end = Z0).
    { intros X Y Z0. destruct c as [|p]; [reflexivity|]. repeat (destruct p as [p|p|]; try reflexivity). exfalso. apply Hc. reflexivity. }
    rewrite Hm. rewrite <- Ed. rewrite (isd_no_colon d Hd).
    rewrite (py_int_digits d n Hd); [reflexivity|rewrite Ed; discriminate|exact El|exact Hv]. all: exact (CCrash XIndexError).
Qed.
Lemma construct_digits d n (neg : bool) : 0 <= n -> forallb isd d = true -> digits_val 10 d 0 = Some n -> (n = 0 -> d = [48%N]) ->
  (0 < n -> exists c r, d = c :: r /\ c <> 48%N) -> (length d <= 4300)%nat ->
  construct_int (if neg then 45%N :: d else d) = COk (if neg then - n else n).
Proof.
  intros Hn Hd Hv H0 Hpos El. rewrite construct_int_unfold. destruct neg.
  - assert (Ha : is_ascii (45%N :: d) = true) by (change (is_ascii (45%N :: d)) with ((45 <? 128)%N && is_ascii d); rewrite (isd_ascii d Hd); reflexivity). rewrite Ha. cbn [negb].
    assert (Hr : remove_us (45%N :: d) = 45%N :: d) by (change (remove_us (45%N :: d)) with (45%N :: remove_us d); f_equal; apply (isd_remove_us d Hd)). rewrite Hr.
    cbn [N.eqb Pos.eqb orb tl]. rewrite (body_digits d n (-1) Hn Hd Hv H0 Hpos El). f_equal; try lia.
  - rewrite (isd_ascii d Hd). cbn [negb]. rewrite (isd_remove_us d Hd).
    destruct d as [|c0 r0]; [exfalso; destruct (Z.eq_dec n 0) as [E0|N0]; [discriminate (H0 E0)|destruct (Hpos ltac:(lia)) as (c & r & Ec & _); discriminate Ec]|].
    assert (Hc0 : (48 <= c0 <= 57)%N) by (cbn in Hd; apply andb_prop in Hd as [H1 _]; apply isd_range, H1).
    replace (N.eqb c0 45) with false by (symmetry; apply N.eqb_neq; lia). replace (N.eqb c0 43) with false by (symmetry; apply N.eqb_neq; lia). cbn [orb].
    rewrite (body_digits (c0 :: r0) n 1 Hn Hd Hv H0 Hpos El). f_equal; try lia.
Qed.

(* EVERY integer whose decimal form has at most 4300 digits (CPython's limit: beyond it str(int) refuses, and so does the model's int_text): its
   decimal text as the representer model writes it - a minus sign and the digits of dec_nat - is read back by the constructor model's
   construct_yaml_int as the same integer *)
Theorem int_roundtrip : forall z, (length (Represent.dec_nat (Z.abs z)) <= 4300)%nat ->
  construct_int (if z <? 0 then 45%N :: Represent.dec_nat (Z.abs z) else Represent.dec_nat (Z.abs z)) = COk z.
Proof.
  intros z El. destruct (dec_nat_facts (Z.abs z) (Z.abs_nonneg z) El) as (Hd & Hv & H0 & Hpos).
  eapply eq_trans; [exact (construct_digits (Represent.dec_nat (Z.abs z)) (Z.abs z) (z <? 0) (Z.abs_nonneg z) Hd Hv H0 Hpos El)|].
  f_equal. destruct (z <? 0) eqn:Ez; [apply Z.ltb_lt in Ez|apply Z.ltb_ge in Ez]; lia.
Qed.
(* int_text is exactly that text *)
Lemma int_text_eq z : Represent.int_text z =
  if Nat.ltb 4300 (length (Represent.dec_nat (Z.abs z))) then None else Some (if z <? 0 then 45%N :: Represent.dec_nat (Z.abs z) else Represent.dec_nat (Z.abs z)).
Proof. reflexivity. Qed.
(* every integer the representer model writes is read back as the same integer *)
Corollary int_text_roundtrip : forall z t, Represent.int_text z = Some t -> construct_int t = COk z.
Proof.
  intros z t H. rewrite int_text_eq in H.
  destruct (Nat.ltb 4300 (length (Represent.dec_nat (Z.abs z)))) eqn:El; [discriminate H|]. apply Nat.ltb_ge in El. injection H as <-. apply int_roundtrip, El.
Qed.
(* non-vacuity *)
Example int_examples : Represent.int_text (-12345678901234567890) = Some [45; 49; 50; 51; 52; 53; 54; 55; 56; 57; 48; 49; 50; 51; 52; 53; 54; 55; 56; 57; 48]%N /\
  construct_int [45; 49; 50; 51; 52; 53; 54; 55; 56; 57; 48; 49; 50; 51; 52; 53; 54; 55; 56; 57; 48]%N = COk (-12345678901234567890) /\ Represent.int_text 0 = Some [48%N].
Proof. vm_compute. repeat split; reflexivity. Qed.
