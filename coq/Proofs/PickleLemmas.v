From Coq Require Import List Bool Arith.
Import ListNotations.
Require Import Pickle.

(* for EVERY reduce tuple whose state is None, a dict, or truthy: the YAML rebuild and the pickle-2 rebuild apply the same constructor arguments,
   the same state (up to "no state = empty dict") and the same items - i.e. they build the same object whenever state application and item
   insertion commute.  (When the class is rebuilt through the python/object: shape, __new__ is used instead of the recorded callable: that is the
   newobj case, where the callable *is* cls.__new__.) *)
Definition state_ok (s : state) : bool := match s with StOther false => false | _ => true end.
Lemma l_yaml_eq_pickle_commuting r : state_ok (st r) = true -> same_object (build (yaml_ops r)) (build (pickle_ops r)).
Proof.
  destruct r as [n a s li di]. unfold state_ok, same_object, yaml_ops, pickle_ops; cbn [newobj args st listitems dictitems].
  intros Hs.
  destruct s as [|b|b]; try (destruct b); try discriminate;
  destruct a as [|a0 a]; destruct li as [[|x xs]|]; destruct di as [[|kv kvs]|]; destruct n; cbn; repeat split; reflexivity.
Qed.

(* the operation ORDER differs as soon as a truthy state and items are both present: YAML applies the state first, pickle last *)
Lemma l_yaml_ops_order_refuted :
  let r := {| newobj := false; args := []; st := StDict true; listitems := Some [1; 2; 3; 4]; dictitems := None |} in
  yaml_ops r = [Create false []; SetState (StDict true); Extend [1; 2; 3; 4]] /\
  pickle_ops r = [Create false []; Extend [1; 2; 3; 4]; SetState (StDict true)].
Proof. vm_compute. split; reflexivity. Qed.

(* a falsy non-None, non-dict state (e.g. 0): pickle calls __setstate__(0), YAML never applies it *)
Lemma l_falsy_state_refuted :
  let r := {| newobj := true; args := []; st := StOther false; listitems := None; dictitems := None |} in
  b_state (build (pickle_ops r)) = Some (StOther false) /\ b_state (build (yaml_ops r)) = None.
Proof. vm_compute. split; reflexivity. Qed.
