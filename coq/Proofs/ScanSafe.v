(* C03: the scanner model never crashes - no IndexError from peek/forward past the end of the buffer, no pop from an empty indent stack, never out of
   look-ahead fuel; the only Python exception other than ScannerError is the ValueError of int() on a %YAML version of more than 4300 digits
   (known finding).  Weakest-precondition calculus over the scanner monad; the invariant is the NUL-sentinel discipline of reader.py:
   the buffer ends with NUL and holds NUL nowhere else. *)
From Coq Require Import List NArith ZArith Bool Arith Lia.
Import ListNotations.
Require Import Scan Pos DQ.
Arguments mem : simpl never.

(* ---------- outcomes ---------- *)
Definition okc (e : pyexn) : Prop := match e with ValueError => True | _ => False end.
Definition wp {A} (m : M A) (Q : A -> st -> Prop) (s : st) : Prop :=
  match m s with Ok (a, s') => Q a s' | ScanErr _ _ _ => True | Crash e => okc e | OutOfFuel => False end.

Lemma wp_ret {A} (a : A) (Q : A -> st -> Prop) s : Q a s -> wp (ret a) Q s.
Proof. intros H. exact H. Qed.
Lemma wp_bind {A B} (m : M A) (k : A -> M B) (Q : B -> st -> Prop) s : wp m (fun a s1 => wp (k a) Q s1) s -> wp (bind m k) Q s.
Proof. unfold wp, bind. destruct (m s) as [[a s1]|c e p|e|]; auto. Qed.
Lemma wp_mono {A} (m : M A) (Q Q' : A -> st -> Prop) s : wp m Q s -> (forall a s', Q a s' -> Q' a s') -> wp m Q' s.
Proof. unfold wp. destruct (m s) as [[a s1]|c e p|e|]; auto. Qed.
Lemma wp_get (Q : st -> st -> Prop) s : Q s s -> wp get Q s.
Proof. intros H. exact H. Qed.
Lemma wp_err {A} c code (Q : A -> st -> Prop) s : wp (@err A c code) Q s.
Proof. exact I. Qed.
Lemma wp_err_at {A} c code m (Q : A -> st -> Prop) s : wp (@err_at A c code m) Q s.
Proof. exact I. Qed.
Lemma wp_get_mark (Q : mark -> st -> Prop) s : Q {| m_index := index s; m_line := line s; m_col := col s |} s -> wp get_mark Q s.
Proof. intros H. exact H. Qed.
Lemma wp_prefix n (Q : str -> st -> Prop) s : Q (firstn n (rest s)) s -> wp (prefix n) Q s.
Proof. intros H. exact H. Qed.
Lemma wp_with_fuel {A} (k : nat -> M A) (Q : A -> st -> Prop) s : wp (k (fuel_of s)) Q s -> wp (with_fuel k) Q s.
Proof. intros H. exact H. Qed.

(* ---------- the sentinel ---------- *)
Fixpoint sent (l : str) : Prop :=
  match l with [] => False | c :: r => match r with [] => c = NUL | _ :: _ => c <> NUL /\ sent r end end.
Lemma sent_tail c r : sent (c :: r) -> c <> NUL -> sent r.
Proof. destruct r as [|d r]; cbn; [congruence|]. intros [_ H] _. exact H. Qed.
Lemma sent_nul c r : sent (c :: r) -> c = NUL -> r = [].
Proof. destruct r as [|d r]; cbn; [auto|]. intros [H _] E. congruence. Qed.
Lemma sent_ne l : sent l -> exists c r, l = c :: r.
Proof. destruct l; [intros []|eauto]. Qed.

(* the first k characters are not NUL *)
Definition nn (k : nat) (l : str) : Prop := forall i, i < k -> exists c, nth_error l i = Some c /\ c <> NUL.
Lemma nn_0 l : nn 0 l. Proof. intros i Hi. lia. Qed.
Lemma nn_le k k' l : nn k l -> k' <= k -> nn k' l.
Proof. intros H Hk i Hi. apply H. lia. Qed.
Lemma nn_S k l c : nn k l -> nth_error l k = Some c -> c <> NUL -> nn (S k) l.
Proof. intros H Hc Hn i Hi. destruct (Nat.eq_dec i k) as [->|Hne]; [eauto|apply H; lia]. Qed.
Lemma nn_tail k c r : nn (S k) (c :: r) -> nn k r.
Proof. intros H i Hi. destruct (H (S i)) as (d & Hd & Hn); [lia|]. eauto. Qed.
Lemma sent_nth : forall k l, sent l -> nn k l -> exists c, nth_error l k = Some c.
Proof.
  induction k as [|k IH]; intros l Hs Hn.
  - destruct (sent_ne l Hs) as (c & r & ->). exists c. reflexivity.
  - destruct (sent_ne l Hs) as (c & r & ->). destruct (Hn 0) as (c0 & E & Hc); [lia|]. injection E as <-.
    cbn. apply IH; [exact (sent_tail _ _ Hs Hc)|exact (nn_tail _ _ _ Hn)].
Qed.
Lemma sent_skipn : forall k l, sent l -> nn k l -> sent (skipn k l).
Proof.
  induction k as [|k IH]; intros l Hs Hn; [exact Hs|].
  destruct (sent_ne l Hs) as (c & r & ->). destruct (Hn 0) as (c0 & E & Hc); [lia|]. injection E as <-.
  cbn. apply IH; [exact (sent_tail _ _ Hs Hc)|exact (nn_tail _ _ _ Hn)].
Qed.
Lemma nth_skipn {X} : forall n (l : list X) i, nth_error (skipn n l) i = nth_error l (n + i).
Proof. induction n as [|n IH]; intros l i; [reflexivity|]. destruct l; [destruct i; reflexivity|]. cbn. apply IH. Qed.
Lemma nn_skipn k n l : nn k l -> nn (k - n) (skipn n l).
Proof.
  intros H i Hi. destruct (H (n + i)) as (c & Hc & Hn); [lia|]. exists c. split; [|exact Hn].
  rewrite nth_skipn. exact Hc.
Qed.
Lemma sent_length k l : sent l -> nn k l -> k < length l.
Proof. intros Hs Hn. destruct (sent_nth k l Hs Hn) as (c & Hc). apply nth_error_Some. congruence. Qed.

(* ---------- the fields scanning does not touch ---------- *)
Definition ctl (s : st) := (sdone s, flow_level s, tokens s, taken s, indent s, indents s, allow_sk s, psk s).
(* s' is s after some characters were consumed *)
Definition adv (s s' : st) : Prop := sent (rest s') /\ ctl s' = ctl s /\ length (rest s') <= length (rest s).
Lemma adv_refl s : sent (rest s) -> adv s s.
Proof. intros H. split; [exact H|split; [reflexivity|lia]]. Qed.
Lemma adv_trans a b c : adv a b -> adv b c -> adv a c.
Proof. intros (_ & E1 & L1) (S2 & E2 & L2). split; [exact S2|split; [congruence|lia]]. Qed.
(* the same, but the simple-key permission may have changed *)
Definition ctlA (s : st) := (sdone s, flow_level s, tokens s, taken s, indent s, indents s, psk s).
Definition advA (s s' : st) : Prop := sent (rest s') /\ ctlA s' = ctlA s /\ length (rest s') <= length (rest s).
Lemma adv_advA s s' : adv s s' -> advA s s'.
Proof. intros (A & B & C). split; [exact A|split; [|exact C]]. unfold ctl in B. unfold ctlA. injection B as E1 E2 E3 E4 E5 E6 E7 E8. congruence. Qed.
Lemma advA_refl s : sent (rest s) -> advA s s.
Proof. intros H. split; [exact H|split; [reflexivity|lia]]. Qed.
Lemma advA_trans a b c : advA a b -> advA b c -> advA a c.
Proof. intros (_ & E1 & L1) (S2 & E2 & L2). split; [exact S2|split; [exact (eq_trans E2 E1)|lia]]. Qed.

(* ---------- peek and forward ---------- *)
Lemma wp_peek k (Q : cp -> st -> Prop) s : sent (rest s) -> nn k (rest s) -> (forall c, nth_error (rest s) k = Some c -> Q c s) -> wp (peek k) Q s.
Proof. intros Hs Hn HQ. destruct (sent_nth k _ Hs Hn) as (c & Hc). unfold wp. rewrite (peek_ok s k c Hc). apply HQ, Hc. Qed.

Lemma forward_ctl : forall n s s', forward n s = Ok (tt, s') -> ctl s' = ctl s.
Proof.
  induction n as [|n IH]; intros s s' H; [injection H as <-; reflexivity|].
  cbn [forward] in H. destruct (rest s) as [|ch r]; [discriminate|].
  destruct (match r with [] => None | c :: _ => Some c end) as [y|] eqn:Ey.
  - destruct (N.eqb ch CR); cbv zeta in H;
      match type of H with forward n ?s1 = _ => rewrite (IH s1 s' H) end;
      destruct (mem ch [LF; NEL; LS; PS] || _); try destruct (N.eqb ch BOM); reflexivity.
  - destruct (N.eqb ch CR); [discriminate|]. cbv zeta in H.
    match type of H with forward n ?s1 = _ => rewrite (IH s1 s' H) end.
    destruct (mem ch [LF; NEL; LS; PS] || _); try destruct (N.eqb ch BOM); reflexivity.
Qed.
Lemma wp_forward n (Q : unit -> st -> Prop) s : sent (rest s) -> nn n (rest s) ->
  (forall s', rest s' = skipn n (rest s) -> ctl s' = ctl s -> sent (rest s') -> Q tt s') -> wp (forward n) Q s.
Proof.
  intros Hs Hn HQ. destruct (sent_nth n _ Hs Hn) as (x & Hx).
  destruct (nth_error_split _ _ Hx) as (p & r & E & Hl).
  destruct (forward_spec n s p r x E Hl) as (s' & F & R & _).
  unfold wp. rewrite F. apply HQ.
  - rewrite R, E. rewrite skipn_app, <- Hl, skipn_all, Nat.sub_diag. reflexivity.
  - exact (forward_ctl n s s' F).
  - rewrite R. replace (x :: r) with (skipn n (rest s)); [apply sent_skipn; assumption|]. rewrite E, skipn_app, <- Hl, skipn_all, Nat.sub_diag. reflexivity.
Qed.
Lemma skipn_length_le {X} n (l : list X) : length (skipn n l) <= length l.
Proof. rewrite skipn_length. lia. Qed.

(* ---------- small facts about characters ---------- *)
Lemma mem_nn c l : mem c l = true -> mem NUL l = false -> c <> NUL.
Proof. intros H1 H2 ->. congruence. Qed.
Lemma eqb_nn c d : N.eqb c d = true -> d <> NUL -> c <> NUL.
Proof. intros H Hd. apply N.eqb_eq in H. congruence. Qed.
Lemma nn_1 s c : nth_error (rest s) 0 = Some c -> c <> NUL -> nn 1 (rest s).
Proof. intros H Hc. apply (nn_S 0 _ c); [apply nn_0|exact H|exact Hc]. Qed.
Lemma adv_fwd s s' n : sent (rest s') -> rest s' = skipn n (rest s) -> ctl s' = ctl s -> adv s s'.
Proof. intros Hs Hr Hc. split; [exact Hs|split; [exact Hc|rewrite Hr; apply skipn_length_le]]. Qed.
Lemma fwd_lt s s' n : 0 < n -> sent (rest s) -> nn n (rest s) -> rest s' = skipn n (rest s) -> length (rest s') < length (rest s).
Proof. intros Hn Hs Hnn Hr. rewrite Hr, skipn_length. pose proof (sent_length _ _ Hs Hnn). lia. Qed.

(* ---------- the elementary loops ---------- *)
(* while test(peek()): forward() - for a test that NUL fails *)
Section While.
Variable test : cp -> bool.
Hypothesis test_nul : test NUL = false.
Variable loop : nat -> M unit.
Hypothesis loop_eq : forall f s, loop (S f) s = (ch <- peek 0 ;; if test ch then forward 1 ;;; loop f else ret tt) s.
Hypothesis loop_0 : loop 0 = nofuel.
Lemma wp_while : forall fuel s, sent (rest s) -> length (rest s) <= fuel ->
  wp (loop fuel) (fun _ s' => adv s s' /\ exists c, nth_error (rest s') 0 = Some c /\ test c = false) s.
Proof.
  induction fuel as [|f IH]; intros s Hs Hf.
  - destruct (sent_ne _ Hs) as (c & r & E). rewrite E in Hf. cbn in Hf. lia.
  - unfold wp. rewrite loop_eq. change (wp (ch <- peek 0 ;; if test ch then forward 1 ;;; loop f else ret tt) (fun _ s' => adv s s' /\ exists c, nth_error (rest s') 0 = Some c /\ test c = false) s).
    apply wp_bind. apply (wp_peek 0); [exact Hs|apply nn_0|]. intros c Hc.
    destruct (test c) eqn:Et.
    + assert (Hcn : c <> NUL) by (intros ->; congruence).
      apply wp_bind. apply (wp_forward 1); [exact Hs|exact (nn_1 s c Hc Hcn)|]. intros s1 R1 C1 S1.
      assert (L1 : length (rest s1) < length (rest s)) by (apply (fwd_lt s s1 1); auto; exact (nn_1 s c Hc Hcn)).
      eapply wp_mono; [apply IH; [exact S1|lia]|]. cbv beta. intros _ s' (A & B). split; [|exact B].
      eapply adv_trans; [|exact A]. apply (adv_fwd s s1 1); assumption.
    + apply wp_ret. split; [apply adv_refl, Hs|]. eauto.
Qed.
End While.

Lemma wp_skip_spaces fuel s : sent (rest s) -> length (rest s) <= fuel ->
  wp (skip_spaces fuel) (fun _ s' => adv s s' /\ exists c, nth_error (rest s') 0 = Some c /\ N.eqb c SP = false) s.
Proof. apply (wp_while (fun c => N.eqb c SP) eq_refl skip_spaces); reflexivity. Qed.
Lemma wp_skip_to_eol fuel s : sent (rest s) -> length (rest s) <= fuel ->
  wp (skip_to_eol fuel) (fun _ s' => adv s s' /\ exists c, nth_error (rest s') 0 = Some c /\ mem c breakz = true) s.
Proof.
  intros Hs Hf. eapply wp_mono; [apply (wp_while (fun c => negb (mem c breakz)) eq_refl skip_to_eol); auto|].
  - intros f s0. cbn [skip_to_eol]. unfold bind. destruct (peek 0 s0) as [[c s1]|? ? ?|?|]; try reflexivity. destruct (mem c breakz); reflexivity.
  - cbv beta. intros _ s' (A & c & Hc & Ht). split; [exact A|]. exists c. split; [exact Hc|]. apply negb_false_iff in Ht. exact Ht.
Qed.
Lemma wp_skip_blanks fuel s : sent (rest s) -> length (rest s) <= fuel ->
  wp (skip_blanks fuel) (fun _ s' => adv s s' /\ exists c, nth_error (rest s') 0 = Some c /\ mem c [SP; TAB] = false) s.
Proof. apply (wp_while (fun c => mem c [SP; TAB]) eq_refl skip_blanks); reflexivity. Qed.
Lemma fuel_ok s : length (rest s) <= fuel_of s.
Proof. unfold fuel_of. lia. Qed.

(* span: the characters n .. m-1 satisfy p, the character at m does not; nothing is consumed *)
Lemma wp_span p : p NUL = false -> forall fuel n s, sent (rest s) -> nn n (rest s) -> length (rest s) - n < fuel ->
  wp (span fuel p n) (fun m s' => s' = s /\ n <= m /\ nn m (rest s) /\ (exists c, nth_error (rest s) m = Some c /\ p c = false) /\
                                  (forall i c, n <= i < m -> nth_error (rest s) i = Some c -> p c = true)) s.
Proof.
  intros Hp. induction fuel as [|f IH]; intros n s Hs Hn Hf; [lia|].
  cbn [span]. apply wp_bind. apply (wp_peek n); [exact Hs|exact Hn|]. intros c Hc.
  destruct (p c) eqn:Epc.
  - assert (Hcn : c <> NUL) by (intros ->; congruence).
    assert (Hn1 : nn (S n) (rest s)) by (apply (nn_S n _ c); assumption).
    pose proof (sent_length _ _ Hs Hn1) as Hl.
    eapply wp_mono; [apply (IH (S n) s Hs Hn1); lia|]. cbv beta. intros m s' (-> & Hm & Hnm & Hstop & Hall).
    split; [reflexivity|]. split; [lia|]. split; [exact Hnm|]. split; [exact Hstop|].
    intros i d Hi Hd. destruct (Nat.eq_dec i n) as [->|Hne]; [congruence|apply (Hall i d); [lia|exact Hd]].
  - apply wp_ret. split; [reflexivity|]. split; [lia|]. split; [exact Hn|]. split; [eauto|]. intros i d Hi. lia.
Qed.

Lemma str_eqb_eq a : forall b, str_eqb a b = true -> a = b.
Proof.
  induction a as [|x a IH]; intros [|y b] H; simpl in H; try discriminate; [reflexivity|].
  apply andb_prop in H as [H1 H2]. apply N.eqb_eq in H1. subst y. f_equal. apply IH, H2.
Qed.
Lemma firstn2 (l : str) a b : firstn 2 l = [a; b] -> exists r, l = a :: b :: r.
Proof. destruct l as [|x [|y r]]; cbn; try discriminate. intros H. injection H as -> ->. eauto. Qed.

(* scan_line_break: nothing happens when the next character is not a break; otherwise at least one character is consumed *)
Definition lb_post (s : st) (lb : str) (s' : st) : Prop :=
  adv s s' /\ (lb = [] -> s' = s /\ exists c, nth_error (rest s) 0 = Some c /\ mem c breaks = false) /\
  (lb <> [] -> length (rest s') < length (rest s) /\ exists c, nth_error (rest s) 0 = Some c /\ mem c breaks = true).
Lemma wp_scan_line_break s : sent (rest s) -> wp scan_line_break (lb_post s) s.
Proof.
  intros Hs. unfold scan_line_break. apply wp_bind. apply (wp_peek 0); [exact Hs|apply nn_0|]. intros c Hc.
  destruct (mem c [CR; LF; NEL]) eqn:E1.
  - assert (Hcn : c <> NUL) by (apply (mem_nn c [CR; LF; NEL]); [exact E1|reflexivity]).
    assert (Hbr : mem c breaks = true).
    { unfold mem, breaks in *. cbn [existsb] in *. destruct (N.eqb c CR), (N.eqb c LF), (N.eqb c NEL); cbn in *; congruence. }
    apply wp_bind. apply wp_prefix.
    destruct (str_eqb (firstn 2 (rest s)) [CR; LF]) eqn:E2.
    + apply str_eqb_eq in E2. destruct (firstn2 _ _ _ E2) as (r & Er).
      assert (Hn2 : nn 2 (rest s)).
      { rewrite Er. intros i Hi. destruct i as [|[|i]]; [exists CR|exists LF|lia]; split; try reflexivity; discriminate. }
      apply wp_bind. apply (wp_forward 2); [exact Hs|exact Hn2|]. intros s1 R1 C1 S1. apply wp_ret.
      split; [apply (adv_fwd s s1 2); assumption|]. split; [discriminate|]. intros _. split; [apply (fwd_lt s s1 2); auto; lia|eauto].
    + apply wp_bind. apply (wp_forward 1); [exact Hs|exact (nn_1 s c Hc Hcn)|]. intros s1 R1 C1 S1. apply wp_ret.
      split; [apply (adv_fwd s s1 1); assumption|]. split; [discriminate|]. intros _. split; [apply (fwd_lt s s1 1); auto; exact (nn_1 s c Hc Hcn)|eauto].
  - destruct (mem c [LS; PS]) eqn:E3.
    + assert (Hcn : c <> NUL) by (apply (mem_nn c [LS; PS]); [exact E3|reflexivity]).
      assert (Hbr : mem c breaks = true).
      { unfold mem, breaks in *. cbn [existsb] in *. destruct (N.eqb c CR), (N.eqb c LF), (N.eqb c NEL), (N.eqb c LS), (N.eqb c PS); cbn in *; congruence. }
      apply wp_bind. apply (wp_forward 1); [exact Hs|exact (nn_1 s c Hc Hcn)|]. intros s1 R1 C1 S1. apply wp_ret.
      split; [apply (adv_fwd s s1 1); assumption|]. split; [discriminate|]. intros _. split; [apply (fwd_lt s s1 1); auto; exact (nn_1 s c Hc Hcn)|eauto].
    + apply wp_ret. split; [apply adv_refl, Hs|]. split; [|intros H; exfalso; apply H; reflexivity]. intros _. split; [reflexivity|]. exists c. split; [exact Hc|].
      unfold mem, breaks in *. cbn [existsb] in *. destruct (N.eqb c CR), (N.eqb c LF), (N.eqb c NEL), (N.eqb c LS), (N.eqb c PS); cbn in *; congruence.
Qed.

(* scan_to_next_token *)
Lemma wp_stnt_loop : forall fuel s, sent (rest s) -> length (rest s) <= fuel -> wp (stnt_loop fuel) (fun _ s' => advA s s') s.
Proof.
  induction fuel as [|f IH]; intros s Hs Hf.
  - destruct (sent_ne _ Hs) as (c & r & E). rewrite E in Hf. cbn in Hf. lia.
  - cbn [stnt_loop]. apply wp_bind. apply wp_with_fuel. eapply wp_mono; [apply wp_skip_spaces; [exact Hs|apply fuel_ok]|].
    cbv beta. intros _ s1 (A1 & _). pose proof A1 as (S1 & _ & _).
    apply wp_bind. apply (wp_peek 0); [exact S1|apply nn_0|]. intros ch Hch.
    apply wp_bind.
    apply (wp_mono _ (fun _ s2 => adv s1 s2)).
    { destruct (N.eqb ch 35); [|apply wp_ret, adv_refl, S1]. apply wp_with_fuel. eapply wp_mono; [apply wp_skip_to_eol; [exact S1|apply fuel_ok]|]. cbv beta. intros _ s2 (A & _). exact A. }
    intros _ s2 A2. pose proof A2 as (S2 & _ & _).
    apply wp_bind. eapply wp_mono; [apply wp_scan_line_break, S2|]. intros lb s3 (A3 & Hnil & Hcons).
    pose proof (adv_trans _ _ _ (adv_trans _ _ _ A1 A2) A3) as A. pose proof A3 as (S3 & _ & _).
    destruct lb as [|b lb].
    + apply wp_ret. apply adv_advA, A.
    + destruct (Hcons ltac:(discriminate)) as (Hlt & _).
      apply wp_bind. unfold flowing. apply wp_bind. apply wp_get. apply wp_ret.
      apply wp_bind.
      apply (wp_mono _ (fun _ s4 => rest s4 = rest s3 /\ ctlA s4 = ctlA s3)).
      { destruct (negb (Z.eqb (flow_level s3) 0)); [apply wp_ret|unfold set_allow, wp; cbn]; split; reflexivity. }
      intros _ s4 (R4 & C4).
      eapply wp_mono; [apply IH; [rewrite R4; exact S3|rewrite R4; destruct A1 as (_ & _ & L1), A2 as (_ & _ & L2); lia]|]. cbv beta.
      intros _ s' A'. eapply advA_trans; [apply adv_advA, A|]. destruct A' as (X & Y & Z). split; [exact X|split; [exact (eq_trans Y C4)|rewrite R4 in Z; exact Z]].
Qed.
Lemma wp_scan_to_next_token s : sent (rest s) -> wp scan_to_next_token (fun _ s' => advA s s') s.
Proof.
  intros Hs. unfold scan_to_next_token. apply wp_bind. apply wp_get. apply wp_bind. apply (wp_peek 0); [exact Hs|apply nn_0|]. intros ch Hch.
  apply wp_bind. apply (wp_mono _ (fun _ s1 => adv s s1)).
  { destruct (Nat.eqb (index s) 0 && N.eqb ch BOM) eqn:E; [|apply wp_ret, adv_refl, Hs]. apply andb_prop in E as [_ E].
    assert (Hn : nn 1 (rest s)) by (apply (nn_1 s ch Hch); apply (eqb_nn ch BOM E); discriminate).
    apply (wp_forward 1); [exact Hs|exact Hn|]. intros s1 R1 C1 S1. apply (adv_fwd s s1 1); assumption. }
  intros _ s1 A1. pose proof A1 as (S1 & _ & _). apply wp_with_fuel.
  eapply wp_mono; [apply wp_stnt_loop; [exact S1|apply fuel_ok]|]. cbv beta. intros _ s' A'. eapply advA_trans; [apply adv_advA, A1|exact A'].
Qed.

(* ---------- helpers ---------- *)
Lemma wp_set_allow b (Q : unit -> st -> Prop) s : (forall s', rest s' = rest s -> ctlA s' = ctlA s -> Q tt s') -> wp (set_allow b) Q s.
Proof. intros H. unfold wp, set_allow. apply H; reflexivity. Qed.
Lemma firstn3 (l : str) a b c : firstn 3 l = [a; b; c] -> exists r, l = a :: b :: c :: r.
Proof. destruct l as [|x [|y [|z r]]]; cbn; try discriminate. intros H. injection H as -> -> ->. eauto. Qed.
(* the test "--- or ... followed by a blank" looks at most at the character after the marker *)
Lemma wp_docsep (Q : bool -> st -> Prop) s : sent (rest s) -> (forall b, Q b s) ->
  wp (if is_doc_sep (firstn 3 (rest s)) then (c3 <- peek 3 ;; ret (mem c3 blankz)) else ret false) Q s.
Proof.
  intros Hs HQ. destruct (is_doc_sep (firstn 3 (rest s))) eqn:E; [|apply wp_ret, HQ].
  assert (Hn : nn 3 (rest s)).
  { unfold is_doc_sep in E. apply orb_prop in E as [E|E]; apply str_eqb_eq in E; destruct (firstn3 _ _ _ _ E) as (r & ->);
      intros i Hi; destruct i as [|[|[|i]]]; try lia; cbn; eexists; (split; [reflexivity|discriminate]). }
  apply wp_bind. apply (wp_peek 3); [exact Hs|exact Hn|]. intros c _. apply wp_ret, HQ.
Qed.

(* ---------- plain scalars ---------- *)
Lemma wp_plain_span fl : forall fuel n s, sent (rest s) -> nn n (rest s) -> length (rest s) - n < fuel ->
  wp (plain_span fuel fl n) (fun m s' => s' = s /\ n <= m /\ nn m (rest s)) s.
Proof.
  induction fuel as [|f IH]; intros n s Hs Hn Hf; [lia|].
  cbn [plain_span]. apply wp_bind. apply (wp_peek n); [exact Hs|exact Hn|]. intros c Hc.
  destruct (mem c blankz) eqn:Eb; [apply wp_ret; auto|].
  assert (Hcn : c <> NUL) by (intros ->; discriminate Eb).
  assert (Hn1 : nn (S n) (rest s)) by (apply (nn_S n _ c); assumption).
  pose proof (sent_length _ _ Hs Hn1) as Hl.
  apply wp_bind. apply (wp_mono _ (fun _ s1 => s1 = s)).
  { destruct (N.eqb c 58); [|apply wp_ret; reflexivity]. apply wp_bind. apply (wp_peek (S n)); [exact Hs|exact Hn1|]. intros c1 _. apply wp_ret. reflexivity. }
  intros stop ? ->. destruct stop; [apply wp_ret; auto|].
  destruct (fl && mem c [44; 63; 91; 93; 123; 125]%N); [apply wp_ret; auto|].
  eapply wp_mono; [apply (IH (S n) s Hs Hn1); lia|]. cbv beta. intros m s' (-> & Hm & Hnm). split; [reflexivity|]. split; [lia|exact Hnm].
Qed.

Lemma wp_ps_inner : forall fuel brks s, sent (rest s) -> length (rest s) <= fuel -> wp (ps_inner fuel brks) (fun _ s' => adv s s') s.
Proof.
  induction fuel as [|f IH]; intros brks s Hs Hf.
  - destruct (sent_ne _ Hs) as (c & r & E). rewrite E in Hf. cbn in Hf. lia.
  - cbn [ps_inner]. apply wp_bind. apply (wp_peek 0); [exact Hs|apply nn_0|]. intros c Hc.
    destruct (mem c (SP :: breaks)) eqn:Em; [|apply wp_ret, adv_refl, Hs].
    destruct (N.eqb c SP) eqn:Esp.
    + assert (Hn : nn 1 (rest s)) by (apply (nn_1 s c Hc); apply (eqb_nn c SP Esp); discriminate).
      apply wp_bind. apply (wp_forward 1); [exact Hs|exact Hn|]. intros s1 R1 C1 S1.
      pose proof (fwd_lt s s1 1 ltac:(lia) Hs Hn R1) as L1.
      eapply wp_mono; [apply IH; [exact S1|lia]|]. cbv beta. intros _ s' A'. eapply adv_trans; [apply (adv_fwd s s1 1); assumption|exact A'].
    + apply wp_bind. eapply wp_mono; [apply wp_scan_line_break, Hs|]. intros lb s1 (A1 & Hnil & Hcons). pose proof A1 as (S1 & _ & _).
      assert (Hlb : lb <> []).
      { intros ->. destruct (Hnil eq_refl) as (_ & c' & Hc' & Hb). assert (c' = c) by congruence. subst c'.
        unfold mem in Em. cbn [existsb] in Em. rewrite Esp in Em. cbn [orb] in Em. unfold mem in Hb. congruence. }
      destruct (Hcons Hlb) as (L1 & _).
      apply wp_bind. apply wp_prefix. apply wp_bind. apply (wp_docsep _ s1 S1). intros sep.
      destruct sep; [apply wp_ret, A1|].
      eapply wp_mono; [apply IH; [exact S1|lia]|]. cbv beta. intros _ s' A'. eapply adv_trans; eauto.
Qed.

Lemma wp_scan_plain_spaces s : sent (rest s) -> wp scan_plain_spaces (fun _ s' => advA s s') s.
Proof.
  intros Hs. unfold scan_plain_spaces.
  apply wp_bind. apply wp_with_fuel. eapply wp_mono; [apply (wp_span is_sp eq_refl); [exact Hs|apply nn_0|unfold fuel_of; lia]|].
  cbv beta. intros n ? (-> & _ & Hn & _). apply wp_bind. apply wp_prefix.
  apply wp_bind. apply (wp_forward n); [exact Hs|exact Hn|]. intros s1 R1 C1 S1. pose proof (adv_fwd s s1 n S1 R1 C1) as A1.
  apply wp_bind. apply (wp_peek 0); [exact S1|apply nn_0|]. intros ch Hch.
  destruct (mem ch breaks); [|apply wp_ret, adv_advA, A1].
  apply wp_bind. eapply wp_mono; [apply wp_scan_line_break, S1|]. intros lb s2 (A2 & _). pose proof A2 as (S2 & _ & _).
  apply wp_bind. apply wp_set_allow. intros s3 R3 C3. assert (S3 : sent (rest s3)) by (rewrite R3; exact S2).
  assert (A3 : advA s s3).
  { eapply advA_trans; [apply adv_advA, (adv_trans _ _ _ A1 A2)|]. split; [exact S3|split; [exact C3|rewrite R3; lia]]. }
  apply wp_bind. apply wp_prefix. apply wp_bind. apply (wp_docsep _ s3 S3). intros sep.
  destruct sep; [apply wp_ret, A3|].
  apply wp_bind. apply wp_with_fuel. eapply wp_mono; [apply wp_ps_inner; [exact S3|apply fuel_ok]|]. cbv beta.
  intros r s4 A4. assert (A : advA s s4) by (eapply advA_trans; [exact A3|apply adv_advA, A4]).
  destruct r; apply wp_ret; exact A.
Qed.

Lemma wp_flowing (Q : bool -> st -> Prop) s : Q (negb (Z.eqb (flow_level s) 0)) s -> wp flowing Q s.
Proof. intros H. exact H. Qed.

Lemma wp_plain_loop : forall fuel ind chunks spaces e s, sent (rest s) -> length (rest s) <= fuel ->
  wp (plain_loop fuel ind chunks spaces e) (fun _ s' => advA s s') s.
Proof.
  induction fuel as [|f IH]; intros ind chunks spaces e s Hs Hf.
  - destruct (sent_ne _ Hs) as (c & r & E). rewrite E in Hf. cbn in Hf. lia.
  - cbn [plain_loop]. apply wp_bind. apply (wp_peek 0); [exact Hs|apply nn_0|]. intros ch Hch.
    destruct (N.eqb ch 35); [apply wp_ret, advA_refl, Hs|].
    apply wp_bind. apply wp_flowing. apply wp_bind. apply wp_with_fuel.
    eapply wp_mono; [apply wp_plain_span; [exact Hs|apply nn_0|unfold fuel_of; lia]|]. cbv beta. intros n ? (-> & _ & Hn).
    destruct n as [|n]; [apply wp_ret, advA_refl, Hs|].
    apply wp_bind. apply wp_set_allow. intros s1 R1 C1. assert (S1 : sent (rest s1)) by (rewrite R1; exact Hs).
    apply wp_bind. apply wp_prefix. apply wp_bind. apply (wp_forward (S n)); [exact S1|rewrite R1; exact Hn|]. intros s2 R2 C2 S2.
    assert (L2 : length (rest s2) < length (rest s)) by (rewrite <- R1; apply (fwd_lt s1 s2 (S n)); auto; [lia|rewrite R1; exact Hn]).
    assert (A2 : advA s s2).
    { split; [exact S2|split; [|lia]]. unfold ctl in C2. unfold ctlA in *. injection C2 as E1 E2 E3 E4 E5 E6 E7 E8. rewrite <- C1. congruence. }
    apply wp_bind. apply wp_get_mark. apply wp_bind. eapply wp_mono; [apply wp_scan_plain_spaces, S2|]. cbv beta. intros sp s3 A3.
    pose proof A3 as (S3 & _ & L3). assert (A : advA s s3) by (eapply advA_trans; eauto).
    apply wp_bind. apply wp_get. apply wp_bind. apply (wp_peek 0); [exact S3|apply nn_0|]. intros ch3 _.
    destruct sp as [[|x sp']|]; try (apply wp_ret; exact A).
    destruct (N.eqb ch3 35 || _); [apply wp_ret; exact A|].
    eapply wp_mono; [apply IH; [exact S3|lia]|]. cbv beta. intros _ s' A'. eapply advA_trans; eauto.
Qed.

Lemma wp_scan_plain s : sent (rest s) -> wp scan_plain (fun _ s' => advA s s') s.
Proof.
  intros Hs. unfold scan_plain. apply wp_bind. apply wp_get_mark. apply wp_bind. apply wp_get. apply wp_bind. apply wp_with_fuel.
  eapply wp_mono; [apply wp_plain_loop; [exact Hs|apply fuel_ok]|]. cbv beta. intros r s' A. apply wp_ret. exact A.
Qed.

(* ---------- flow scalars ---------- *)
Lemma adv_len s s' : adv s s' -> length (rest s') <= length (rest s).
Proof. intros (_ & _ & L). exact L. Qed.
Lemma adv_lt_trans a b c : adv a b -> adv b c -> length (rest b) < length (rest a) \/ length (rest c) < length (rest b) -> length (rest c) < length (rest a).
Proof. intros (_ & _ & L1) (_ & _ & L2) [H|H]; lia. Qed.

Lemma wp_hex_check start : forall len k s, sent (rest s) -> nn k (rest s) ->
  wp (hex_check k len start) (fun _ s' => s' = s /\ nn (k + len) (rest s)) s.
Proof.
  induction len as [|len IH]; intros k s Hs Hn; [apply wp_ret; split; [reflexivity|rewrite Nat.add_0_r; exact Hn]|].
  cbn [hex_check]. apply wp_bind. apply (wp_peek k); [exact Hs|exact Hn|]. intros c Hc.
  destruct (is_hex c) eqn:Eh; [|apply wp_err].
  assert (Hcn : c <> NUL) by (intros ->; discriminate Eh).
  eapply wp_mono; [apply (IH (S k) s Hs); apply (nn_S k _ c); assumption|]. cbv beta. intros _ s' (-> & H). split; [reflexivity|].
  replace (k + S len) with (S k + len) by lia. exact H.
Qed.

Lemma wp_fs_breaks_loop start : forall fuel chunks s, sent (rest s) -> length (rest s) <= fuel ->
  wp (fs_breaks_loop fuel start chunks) (fun _ s' => adv s s') s.
Proof.
  induction fuel as [|f IH]; intros chunks s Hs Hf.
  - destruct (sent_ne _ Hs) as (c & r & E). rewrite E in Hf. cbn in Hf. lia.
  - cbn [fs_breaks_loop]. apply wp_bind. apply wp_prefix. apply wp_bind. apply (wp_docsep _ s Hs). intros sep.
    destruct sep; [apply wp_err|].
    apply wp_bind. apply wp_with_fuel. eapply wp_mono; [apply wp_skip_blanks; [exact Hs|apply fuel_ok]|]. cbv beta. intros _ s1 (A1 & _).
    pose proof A1 as (S1 & _ & L1). apply wp_bind. apply (wp_peek 0); [exact S1|apply nn_0|]. intros ch Hch.
    destruct (mem ch breaks) eqn:Eb; [|apply wp_ret, A1].
    apply wp_bind. eapply wp_mono; [apply wp_scan_line_break, S1|]. intros lb s2 (A2 & Hnil & Hcons). pose proof A2 as (S2 & _ & L2).
    assert (Hlb : lb <> []).
    { intros ->. destruct (Hnil eq_refl) as (_ & c' & Hc' & Hb). assert (c' = ch) by congruence. subst c'. congruence. }
    destruct (Hcons Hlb) as (Hlt & _).
    eapply wp_mono; [apply IH; [exact S2|lia]|]. cbv beta. intros _ s' A'. eapply adv_trans; [eapply adv_trans; eauto|exact A'].
Qed.
Lemma wp_scan_flow_scalar_breaks start s : sent (rest s) -> wp (scan_flow_scalar_breaks start) (fun _ s' => adv s s') s.
Proof. intros Hs. unfold scan_flow_scalar_breaks. apply wp_with_fuel. apply wp_fs_breaks_loop; [exact Hs|apply fuel_ok]. Qed.

(* when scan_flow_scalar_spaces consumes nothing, the next character is neither a blank, nor a break, nor NUL *)
Definition sp_post (s : st) (s' : st) : Prop :=
  adv s s' /\ (length (rest s') < length (rest s) \/
               (rest s' = rest s /\ exists c, nth_error (rest s) 0 = Some c /\ is_blank c = false /\ c <> NUL /\ mem c breaks = false)).
Lemma wp_scan_flow_scalar_spaces start s : sent (rest s) -> wp (scan_flow_scalar_spaces start) (fun _ s' => sp_post s s') s.
Proof.
  intros Hs. unfold scan_flow_scalar_spaces.
  apply wp_bind. apply wp_with_fuel. eapply wp_mono; [apply (wp_span is_blank eq_refl); [exact Hs|apply nn_0|unfold fuel_of; lia]|].
  cbv beta. intros n ? (-> & _ & Hn & (c & Hc & Hpc) & _). apply wp_bind. apply wp_prefix.
  apply wp_bind. apply (wp_forward n); [exact Hs|exact Hn|]. intros s1 R1 C1 S1. pose proof (adv_fwd s s1 n S1 R1 C1) as A1.
  assert (Hprog : 0 < n -> length (rest s1) < length (rest s)) by (intros H0; apply (fwd_lt s s1 n); auto).
  assert (Hc1 : nth_error (rest s1) 0 = Some c) by (rewrite R1, nth_skipn, Nat.add_0_r; exact Hc).
  apply wp_bind. apply (wp_peek 0); [exact S1|apply nn_0|]. intros ch Hch. assert (ch = c) by congruence. subst ch.
  destruct (N.eqb c NUL) eqn:E0; [apply wp_err|].
  destruct (mem c breaks) eqn:Eb.
  - apply wp_bind. eapply wp_mono; [apply wp_scan_line_break, S1|]. intros lb s2 (A2 & Hnil & Hcons). pose proof A2 as (S2 & _ & L2).
    assert (Hlb : lb <> []).
    { intros ->. destruct (Hnil eq_refl) as (_ & c' & Hc' & Hb). assert (c' = c) by congruence. subst c'. congruence. }
    destruct (Hcons Hlb) as (Hlt & _).
    apply wp_bind. eapply wp_mono; [apply wp_scan_flow_scalar_breaks, S2|]. cbv beta. intros brks s3 A3. apply wp_ret.
    split; [eapply adv_trans; [eapply adv_trans; eauto|exact A3]|]. left. pose proof (adv_len _ _ A1). pose proof (adv_len _ _ A3). lia.
  - apply wp_ret. split; [exact A1|]. destruct n as [|n]; [|left; apply Hprog; lia].
    right. split; [rewrite R1; reflexivity|]. exists c. split; [exact Hc|]. split; [exact Hpc|]. split; [apply N.eqb_neq; exact E0|exact Eb].
Qed.

(* when fs_non_spaces consumes nothing, the next character is the closing quote, a blank, a break or NUL *)
Definition ns_post (double : bool) (s : st) (s' : st) : Prop :=
  adv s s' /\ (length (rest s') < length (rest s) \/
               (rest s' = rest s /\ exists c, nth_error (rest s) 0 = Some c /\
                  (c = (if double then 34%N else 39%N) \/ is_blank c = true \/ c = NUL \/ mem c breaks = true))).
Lemma ns_consumed double s s1 s' : adv s s1 -> length (rest s1) < length (rest s) -> ns_post double s1 s' -> ns_post double s s'.
Proof.
  intros A1 L1 (A' & _). split; [eapply adv_trans; eauto|]. left. pose proof (adv_len _ _ A'). lia.
Qed.
Lemma fs_stop_cases c : not_fs_stop c = false -> c = 39%N \/ c = 34%N \/ c = 92%N \/ is_blank c = true \/ c = NUL \/ mem c breaks = true.
Proof.
  unfold not_fs_stop. intros H. apply negb_false_iff in H. unfold mem, fs_stop in H. cbn [existsb] in H.
  destruct (N.eqb c 39) eqn:E1; [left; apply N.eqb_eq, E1|].
  destruct (N.eqb c 34) eqn:E2; [right; left; apply N.eqb_eq, E2|].
  destruct (N.eqb c 92) eqn:E3; [right; right; left; apply N.eqb_eq, E3|].
  destruct (N.eqb c NUL) eqn:E4; [right; right; right; right; left; apply N.eqb_eq, E4|].
  destruct (N.eqb c SP) eqn:E5; [right; right; right; left; unfold is_blank, mem; cbn [existsb]; rewrite E5; reflexivity|].
  destruct (N.eqb c TAB) eqn:E6; [right; right; right; left; unfold is_blank, mem; cbn [existsb]; rewrite E5, E6; reflexivity|].
  right; right; right; right; right. unfold mem, breaks. cbn [existsb]. cbn [orb] in H. exact H.
Qed.

Lemma wp_fs_non_spaces double start : forall fuel chunks s, sent (rest s) -> length (rest s) <= fuel ->
  wp (fs_non_spaces fuel double start chunks) (fun _ s' => ns_post double s s') s.
Proof.
  induction fuel as [|f IH]; intros chunks s Hs Hf.
  - destruct (sent_ne _ Hs) as (c & r & E). rewrite E in Hf. cbn in Hf. lia.
  - cbn [fs_non_spaces]. apply wp_bind. apply wp_with_fuel.
    eapply wp_mono; [apply (wp_span not_fs_stop eq_refl); [exact Hs|apply nn_0|unfold fuel_of; lia]|].
    cbv beta. intros n ? (-> & _ & Hn & (c & Hc & Hpc) & _). apply wp_bind. apply wp_prefix.
    apply wp_bind. apply (wp_forward n); [exact Hs|exact Hn|]. intros s1 R1 C1 S1. pose proof (adv_fwd s s1 n S1 R1 C1) as A1.
    assert (Hprog : 0 < n -> length (rest s1) < length (rest s)) by (intros H0; apply (fwd_lt s s1 n); auto).
    assert (Hc1 : nth_error (rest s1) 0 = Some c) by (rewrite R1, nth_skipn, Nat.add_0_r; exact Hc).
    apply wp_bind. apply (wp_peek 0); [exact S1|apply nn_0|]. intros ch Hch. assert (ch = c) by congruence. subst ch.
    (* from here on: a step that consumes at least one character of s1 and then recurses *)
    assert (Hrec : forall s2 ch2, adv s1 s2 -> length (rest s2) < length (rest s1) -> wp (fs_non_spaces f double start ch2) (fun _ s' => ns_post double s s') s2).
    { intros s2 ch2 A2 L2. pose proof A2 as (S2 & _ & _). pose proof (adv_len _ _ A1).
      eapply wp_mono; [apply IH; [exact S2|lia]|]. cbv beta. intros _ s' P'. apply (ns_consumed double s s2 s'); [eapply adv_trans; eauto|lia|exact P']. }
    assert (Hfwd : forall k ch2, 0 < k -> nn k (rest s1) -> wp (forward k ;;; fs_non_spaces f double start ch2) (fun _ s' => ns_post double s s') s1).
    { intros k ch2 Hk Hnk. apply wp_bind. apply (wp_forward k); [exact S1|exact Hnk|]. intros s2 R2 C2 S2.
      apply Hrec; [apply (adv_fwd s1 s2 k); assumption|apply (fwd_lt s1 s2 k); auto]. }
    apply wp_bind. apply (wp_mono _ (fun c1 s2 => s2 = s1 /\ (negb double && N.eqb c 39 = true -> nth_error (rest s1) 1 = Some c1))).
    { destruct (negb double && N.eqb c 39) eqn:E; [|apply wp_ret; split; [reflexivity|discriminate]].
      apply andb_prop in E as [_ E]. apply (wp_peek 1); [exact S1|apply (nn_1 s1 c Hc1); apply (eqb_nn c 39 E); discriminate|]. intros c1 H1. auto. }
    intros c1 ? (-> & Hc1').
    destruct (negb double && N.eqb c 39 && N.eqb c1 39) eqn:E1.
    { apply andb_prop in E1 as [E1 E1b]. pose proof (Hc1' E1) as H1. apply andb_prop in E1 as [_ E1a].
      apply Hfwd; [lia|]. apply (nn_S 1 _ c1); [apply (nn_1 s1 c Hc1); apply (eqb_nn c 39 E1a); discriminate|exact H1|apply (eqb_nn c1 39 E1b); discriminate]. }
    destruct ((double && N.eqb c 39) || (negb double && mem c [34; 92]%N)) eqn:E2.
    { apply Hfwd; [lia|]. apply (nn_1 s1 c Hc1). apply orb_prop in E2 as [E2|E2]; apply andb_prop in E2 as [_ E2];
        [apply (eqb_nn c 39 E2); discriminate|apply (mem_nn c [34; 92]%N E2); reflexivity]. }
    destruct (double && N.eqb c 92) eqn:E3.
    { apply andb_prop in E3 as [_ E3]. assert (Hn1 : nn 1 (rest s1)) by (apply (nn_1 s1 c Hc1); apply (eqb_nn c 92 E3); discriminate).
      apply wp_bind. apply (wp_forward 1); [exact S1|exact Hn1|]. intros s2 R2 C2 S2.
      pose proof (adv_fwd s1 s2 1 S2 R2 C2) as A2. pose proof (fwd_lt s1 s2 1 ltac:(lia) S1 Hn1 R2) as L2.
      assert (Hrec2 : forall s3 ch2, adv s2 s3 -> wp (fs_non_spaces f double start ch2) (fun _ s' => ns_post double s s') s3).
      { intros s3 ch2 A3. apply Hrec; [eapply adv_trans; eauto|pose proof (adv_len _ _ A3); lia]. }
      apply wp_bind. apply (wp_peek 0); [exact S2|apply nn_0|]. intros e He.
      destruct (escape_replacement e) as [r|] eqn:Er.
      - assert (Hen : e <> NUL) by (intros ->; discriminate Er).
        apply wp_bind. apply (wp_forward 1); [exact S2|exact (nn_1 s2 e He Hen)|]. intros s3 R3 C3 S3.
        apply Hrec2. apply (adv_fwd s2 s3 1); assumption.
      - destruct (escape_code e) as [len|] eqn:Ec.
        + assert (Hen : e <> NUL) by (intros ->; discriminate Ec).
          apply wp_bind. apply (wp_forward 1); [exact S2|exact (nn_1 s2 e He Hen)|]. intros s3 R3 C3 S3.
          pose proof (adv_fwd s2 s3 1 S3 R3 C3) as A3.
          apply wp_bind. eapply wp_mono; [apply (wp_hex_check start len 0 s3 S3), nn_0|]. cbv beta. intros _ ? (-> & Hnl). cbn [Nat.add] in Hnl.
          apply wp_bind. apply wp_prefix. destruct (N.ltb 1114111 _); [apply wp_err|].
          apply wp_bind. apply (wp_forward len); [exact S3|exact Hnl|]. intros s4 R4 C4 S4.
          apply Hrec2. eapply adv_trans; [exact A3|apply (adv_fwd s3 s4 len); assumption].
        + destruct (mem e breaks) eqn:Eb; [|apply wp_err].
          apply wp_bind. eapply wp_mono; [apply wp_scan_line_break, S2|]. intros lb s3 (A3 & _). pose proof A3 as (S3 & _ & _).
          apply wp_bind. eapply wp_mono; [apply wp_scan_flow_scalar_breaks, S3|]. cbv beta. intros b s4 A4.
          apply Hrec2. eapply adv_trans; eauto. }
    (* nothing more to read *)
    apply wp_ret. split; [exact A1|]. destruct n as [|n]; [|left; apply Hprog; lia].
    right. split; [rewrite R1; reflexivity|]. exists c. split; [exact Hc|].
    destruct (fs_stop_cases c Hpc) as [->|[->|[->|[H|[H|H]]]]]; auto.
    + (* an apostrophe *) destruct double; [discriminate E2|left; reflexivity].
    + (* a double quote *) destruct double; [left; reflexivity|discriminate E2].
    + (* a backslash *) destruct double; [discriminate E3|discriminate E2].
Qed.

Lemma wp_fs_loop (double : bool) (start : mark) (quote : cp) : quote = (if double then 34%N else 39%N) -> forall fuel chunks s, sent (rest s) -> length (rest s) <= fuel ->
  wp (fs_loop fuel double quote start chunks) (fun _ s' => adv s s' /\ nth_error (rest s') 0 = Some quote) s.
Proof.
  intros Equote. induction fuel as [|f IH]; intros chunks s Hs Hf.
  - destruct (sent_ne _ Hs) as (c & r & E). rewrite E in Hf. cbn in Hf. lia.
  - cbn [fs_loop]. apply wp_bind. apply (wp_peek 0); [exact Hs|apply nn_0|]. intros ch Hch.
    destruct (N.eqb ch quote) eqn:Eq.
    { apply wp_ret. cbv beta. split; [apply adv_refl, Hs|]. apply N.eqb_eq in Eq. subst ch. exact Hch. }
    apply wp_bind. eapply wp_mono; [apply wp_scan_flow_scalar_spaces, Hs|]. cbv beta. intros sp s1 (A1 & P1). pose proof A1 as (S1 & _ & _).
    apply wp_bind. apply wp_with_fuel. eapply wp_mono; [apply wp_fs_non_spaces; [exact S1|apply fuel_ok]|]. cbv beta. intros ns s2 (A2 & P2).
    pose proof A2 as (S2 & _ & _).
    assert (L : length (rest s2) < length (rest s)).
    { pose proof (adv_len _ _ A1). pose proof (adv_len _ _ A2). destruct P1 as [P1|(R1 & c1 & Hc1 & Hb1 & Hn1 & Hk1)]; [lia|].
      destruct P2 as [P2|(R2 & c2 & Hc2 & Hx)]; [lia|]. exfalso. rewrite R1 in Hc2. assert (c2 = c1) by congruence. subst c2. assert (c1 = ch) by congruence. subst c1.
      destruct Hx as [Hx|[Hx|[Hx|Hx]]]; try congruence. pose proof (eq_trans Hx (eq_sym Equote)) as Hq. apply N.eqb_neq in Eq. exact (Eq Hq). }
    eapply wp_mono; [apply IH; [exact S2|lia]|]. cbv beta. intros _ s' (A' & Hq). split; [|exact Hq]. eapply adv_trans; [eapply adv_trans; eauto|exact A'].
Qed.

(* scan_flow_scalar, entered at its opening quote *)
Lemma wp_scan_flow_scalar (double : bool) (s : st) : sent (rest s) -> nth_error (rest s) 0 = Some (if double then 34%N else 39%N) ->
  wp (scan_flow_scalar double) (fun _ s' => adv s s' /\ length (rest s') < length (rest s)) s.
Proof.
  intros Hs Hq. unfold scan_flow_scalar. apply wp_bind. apply wp_get_mark.
  apply wp_bind. apply (wp_peek 0); [exact Hs|apply nn_0|]. intros quote Hquote. pose proof (eq_trans (eq_sym Hquote) Hq) as Equote. injection Equote as Equote.
  assert (Hn1 : nn 1 (rest s)) by (apply (nn_1 s _ Hq); destruct double; discriminate).
  apply wp_bind. apply (wp_forward 1); [exact Hs|exact Hn1|]. intros s1 R1 C1 S1.
  pose proof (adv_fwd s s1 1 S1 R1 C1) as A1. pose proof (fwd_lt s s1 1 ltac:(lia) Hs Hn1 R1) as L1.
  apply wp_bind. apply wp_with_fuel. eapply wp_mono; [apply wp_fs_non_spaces; [exact S1|apply fuel_ok]|]. cbv beta. intros c0 s2 (A2 & _). pose proof A2 as (S2 & _ & _).
  apply wp_bind. apply wp_with_fuel. eapply wp_mono; [apply (wp_fs_loop double _ quote Equote); [exact S2|apply fuel_ok]|]. cbv beta. intros chunks s3 (A3 & Hc). pose proof A3 as (S3 & _ & _).
  assert (Hn3 : nn 1 (rest s3)) by (apply (nn_1 s3 _ Hc); rewrite Equote; destruct double; discriminate).
  apply wp_bind. apply (wp_forward 1); [exact S3|exact Hn3|]. intros s4 R4 C4 S4.
  apply wp_bind. apply wp_get_mark. apply wp_ret.
  pose proof (adv_fwd s3 s4 1 S4 R4 C4) as A4.
  split; [eapply adv_trans; [eapply adv_trans; [eapply adv_trans; eauto|eauto]|eauto]|].
  pose proof (adv_len _ _ A2). pose proof (adv_len _ _ A3). pose proof (adv_len _ _ A4). lia.
Qed.

(* ---------- anchors, directives, tags ---------- *)
Lemma is_alnum_nul : is_alnum_ NUL = false. Proof. reflexivity. Qed.

(* scan_anchor, entered at & or * *)
Lemma wp_scan_anchor is_alias s : sent (rest s) -> nn 1 (rest s) -> wp (scan_anchor is_alias) (fun _ s' => adv s s' /\ length (rest s') < length (rest s)) s.
Proof.
  intros Hs Hn1. unfold scan_anchor. apply wp_bind. apply wp_get_mark.
  apply wp_bind. apply (wp_forward 1); [exact Hs|exact Hn1|]. intros s1 R1 C1 S1.
  pose proof (adv_fwd s s1 1 S1 R1 C1) as A1. pose proof (fwd_lt s s1 1 ltac:(lia) Hs Hn1 R1) as L1.
  apply wp_bind. apply wp_with_fuel. eapply wp_mono; [apply (wp_span is_alnum_ is_alnum_nul); [exact S1|apply nn_0|unfold fuel_of; lia]|].
  cbv beta. intros n ? (-> & _ & Hn & _). destruct n as [|n]; [apply wp_err|].
  apply wp_bind. apply wp_prefix. apply wp_bind. apply (wp_forward (S n)); [exact S1|exact Hn|]. intros s2 R2 C2 S2.
  pose proof (adv_fwd s1 s2 (S n) S2 R2 C2) as A2.
  apply wp_bind. apply (wp_peek 0); [exact S2|apply nn_0|]. intros ch _.
  destruct (mem ch anchor_follow); [|apply wp_err]. apply wp_bind. apply wp_get_mark. apply wp_ret.
  split; [eapply adv_trans; eauto|]. pose proof (adv_len _ _ A2). lia.
Qed.

Lemma wp_scan_directive_name start s : sent (rest s) -> wp (scan_directive_name start) (fun _ s' => adv s s') s.
Proof.
  intros Hs. unfold scan_directive_name. apply wp_bind. apply wp_with_fuel.
  eapply wp_mono; [apply (wp_span is_alnum_ is_alnum_nul); [exact Hs|apply nn_0|unfold fuel_of; lia]|].
  cbv beta. intros n ? (-> & _ & Hn & _). destruct n as [|n]; [apply wp_err|].
  apply wp_bind. apply wp_prefix. apply wp_bind. apply (wp_forward (S n)); [exact Hs|exact Hn|]. intros s2 R2 C2 S2.
  apply wp_bind. apply (wp_peek 0); [exact S2|apply nn_0|]. intros ch _.
  destruct (mem ch blankz_notab); [apply wp_ret|apply wp_err]. apply (adv_fwd s s2 (S n)); assumption.
Qed.

(* the one place where the model crashes: int() of more than 4300 digits is a ValueError (known finding) *)
Lemma wp_scan_yaml_directive_number start s : sent (rest s) -> wp (scan_yaml_directive_number start) (fun _ s' => adv s s') s.
Proof.
  intros Hs. unfold scan_yaml_directive_number. apply wp_bind. apply (wp_peek 0); [exact Hs|apply nn_0|]. intros ch _.
  destruct (negb (is_digit ch)); [apply wp_err|].
  apply wp_bind. apply wp_with_fuel. eapply wp_mono; [apply (wp_span is_digit eq_refl); [exact Hs|apply nn_0|unfold fuel_of; lia]|].
  cbv beta. intros n ? (-> & _ & Hn & _).
  apply wp_bind. apply wp_prefix. apply wp_bind. apply (wp_forward n); [exact Hs|exact Hn|]. intros s2 R2 C2 S2.
  destruct (N.ltb 4300 _); [exact I|]. apply wp_ret. apply (adv_fwd s s2 n); assumption.
Qed.

Lemma wp_skip_spaces_adv s : sent (rest s) -> wp (with_fuel skip_spaces) (fun _ s' => adv s s') s.
Proof. intros Hs. apply wp_with_fuel. eapply wp_mono; [apply wp_skip_spaces; [exact Hs|apply fuel_ok]|]. cbv beta. intros _ s' (A & _). exact A. Qed.
Lemma wp_skip_to_eol_adv s : sent (rest s) -> wp (with_fuel skip_to_eol) (fun _ s' => adv s s') s.
Proof. intros Hs. apply wp_with_fuel. eapply wp_mono; [apply wp_skip_to_eol; [exact Hs|apply fuel_ok]|]. cbv beta. intros _ s' (A & _). exact A. Qed.

Lemma wp_scan_yaml_directive_value start s : sent (rest s) -> wp (scan_yaml_directive_value start) (fun _ s' => adv s s') s.
Proof.
  intros Hs. unfold scan_yaml_directive_value.
  apply wp_bind. eapply wp_mono; [apply wp_skip_spaces_adv, Hs|]. cbv beta. intros _ s1 A1. pose proof A1 as (S1 & _ & _).
  apply wp_bind. eapply wp_mono; [apply wp_scan_yaml_directive_number, S1|]. cbv beta. intros major s2 A2. pose proof A2 as (S2 & _ & _).
  apply wp_bind. apply (wp_peek 0); [exact S2|apply nn_0|]. intros ch Hch.
  destruct (negb (N.eqb ch 46)) eqn:E; [apply wp_err|]. apply negb_false_iff in E.
  assert (Hn : nn 1 (rest s2)) by (apply (nn_1 s2 ch Hch); apply (eqb_nn ch 46 E); discriminate).
  apply wp_bind. apply (wp_forward 1); [exact S2|exact Hn|]. intros s3 R3 C3 S3. pose proof (adv_fwd s2 s3 1 S3 R3 C3) as A3.
  apply wp_bind. eapply wp_mono; [apply wp_scan_yaml_directive_number, S3|]. cbv beta. intros minor s4 A4. pose proof A4 as (S4 & _ & _).
  apply wp_bind. apply (wp_peek 0); [exact S4|apply nn_0|]. intros ch4 _.
  destruct (mem ch4 blankz_notab); [apply wp_ret|apply wp_err].
  eapply adv_trans; [eapply adv_trans; [eapply adv_trans; eauto|eauto]|eauto].
Qed.

Lemma wp_scan_tag_handle start s : sent (rest s) -> wp (scan_tag_handle start) (fun _ s' => adv s s' /\ length (rest s') < length (rest s)) s.
Proof.
  intros Hs. unfold scan_tag_handle. apply wp_bind. apply (wp_peek 0); [exact Hs|apply nn_0|]. intros ch Hch.
  destruct (negb (N.eqb ch 33)) eqn:E; [apply wp_err|]. apply negb_false_iff in E.
  assert (Hn1 : nn 1 (rest s)) by (apply (nn_1 s ch Hch); apply (eqb_nn ch 33 E); discriminate).
  apply wp_bind. apply (wp_peek 1); [exact Hs|exact Hn1|]. intros ch1 Hch1.
  destruct (N.eqb ch1 SP).
  - apply wp_bind. apply wp_prefix. apply wp_bind. apply (wp_forward 1); [exact Hs|exact Hn1|]. intros s1 R1 C1 S1. apply wp_ret.
    split; [apply (adv_fwd s s1 1); assumption|apply (fwd_lt s s1 1); auto].
  - apply wp_bind. apply wp_with_fuel. eapply wp_mono; [apply (wp_span is_alnum_ is_alnum_nul); [exact Hs|exact Hn1|unfold fuel_of; lia]|].
    cbv beta. intros n ? (-> & Hle & Hn & _).
    apply wp_bind. apply (wp_peek n); [exact Hs|exact Hn|]. intros chn Hchn.
    destruct (negb (N.eqb chn 33)) eqn:E2.
    + apply wp_bind. apply (wp_forward n); [exact Hs|exact Hn|]. intros s1 _ _ _. apply wp_err.
    + apply negb_false_iff in E2. assert (Hn' : nn (S n) (rest s)) by (apply (nn_S n _ chn); [exact Hn|exact Hchn|apply (eqb_nn chn 33 E2); discriminate]).
      apply wp_bind. apply wp_prefix. apply wp_bind. apply (wp_forward (S n)); [exact Hs|exact Hn'|]. intros s1 R1 C1 S1. apply wp_ret.
      split; [apply (adv_fwd s s1 (S n)); assumption|apply (fwd_lt s s1 (S n)); auto; lia].
Qed.

Lemma wp_uri_escapes_loop start : forall fuel acc s, sent (rest s) -> length (rest s) <= fuel ->
  wp (uri_escapes_loop fuel start acc)
     (fun _ s' => adv s s' /\ (forall c, nth_error (rest s) 0 = Some c -> N.eqb c 37 = true -> length (rest s') < length (rest s))) s.
Proof.
  induction fuel as [|f IH]; intros acc s Hs Hf.
  - destruct (sent_ne _ Hs) as (c & r & E). rewrite E in Hf. cbn in Hf. lia.
  - cbn [uri_escapes_loop]. apply wp_bind. apply (wp_peek 0); [exact Hs|apply nn_0|]. intros ch Hch.
    destruct (N.eqb ch 37) eqn:E.
    + assert (Hn1 : nn 1 (rest s)) by (apply (nn_1 s ch Hch); apply (eqb_nn ch 37 E); discriminate).
      apply wp_bind. apply (wp_forward 1); [exact Hs|exact Hn1|]. intros s1 R1 C1 S1.
      pose proof (adv_fwd s s1 1 S1 R1 C1) as A1. pose proof (fwd_lt s s1 1 ltac:(lia) Hs Hn1 R1) as L1.
      apply wp_bind. apply (wp_peek 0); [exact S1|apply nn_0|]. intros c0 Hc0.
      destruct (negb (is_hex c0)) eqn:E0; [apply wp_err|]. apply negb_false_iff in E0.
      assert (Hn1' : nn 1 (rest s1)) by (apply (nn_1 s1 c0 Hc0); intros ->; discriminate E0).
      apply wp_bind. apply (wp_peek 1); [exact S1|exact Hn1'|]. intros c1 Hc1.
      destruct (negb (is_hex c1)) eqn:E1; [apply wp_err|]. apply negb_false_iff in E1.
      assert (Hn2 : nn 2 (rest s1)) by (apply (nn_S 1 _ c1); [exact Hn1'|exact Hc1|intros ->; discriminate E1]).
      apply wp_bind. apply (wp_forward 2); [exact S1|exact Hn2|]. intros s2 R2 C2 S2. pose proof (adv_fwd s1 s2 2 S2 R2 C2) as A2.
      pose proof (adv_len _ _ A2).
      eapply wp_mono; [apply IH; [exact S2|lia]|]. cbv beta. intros _ s' (A' & _). pose proof (adv_len _ _ A').
      split; [eapply adv_trans; [eapply adv_trans; eauto|exact A']|]. intros _ _ _. lia.
    + apply wp_ret. split; [apply adv_refl, Hs|]. intros c Hc Ec. assert (c = ch) by congruence. subst c. congruence.
Qed.
Lemma wp_scan_uri_escapes start s : sent (rest s) ->
  wp (scan_uri_escapes start) (fun _ s' => adv s s' /\ (forall c, nth_error (rest s) 0 = Some c -> N.eqb c 37 = true -> length (rest s') < length (rest s))) s.
Proof.
  intros Hs. unfold scan_uri_escapes. apply wp_bind. apply wp_get_mark. apply wp_bind. apply wp_with_fuel.
  eapply wp_mono; [apply wp_uri_escapes_loop; [exact Hs|apply fuel_ok]|]. cbv beta. intros codes s' P.
  destruct (utf8_decode _ codes); [apply wp_ret; exact P|apply wp_err_at].
Qed.

Lemma is_uri_char_nul : is_uri_char NUL = false. Proof. reflexivity. Qed.
Lemma wp_tag_uri_loop start : forall fuel chunks len s, sent (rest s) -> nn len (rest s) -> length (rest s) - len < fuel ->
  wp (tag_uri_loop fuel start chunks len) (fun r s' => adv s s' /\ nn (snd (fst r)) (rest s')) s.
Proof.
  induction fuel as [|f IH]; intros chunks len s Hs Hn Hf; [lia|].
  cbn [tag_uri_loop]. apply wp_bind. apply (wp_peek len); [exact Hs|exact Hn|]. intros ch Hch.
  destruct (is_uri_char ch) eqn:Eu; [|apply wp_ret; split; [apply adv_refl, Hs|exact Hn]].
  assert (Hcn : ch <> NUL) by (intros ->; discriminate Eu).
  assert (Hn1 : nn (S len) (rest s)) by (apply (nn_S len _ ch); assumption).
  pose proof (sent_length _ _ Hs Hn1) as Hl.
  destruct (N.eqb ch 37) eqn:E37.
  - apply wp_bind. apply wp_prefix. apply wp_bind. apply (wp_forward len); [exact Hs|exact Hn|]. intros s1 R1 C1 S1.
    pose proof (adv_fwd s s1 len S1 R1 C1) as A1.
    assert (Hc1 : nth_error (rest s1) 0 = Some ch) by (rewrite R1, nth_skipn, Nat.add_0_r; exact Hch).
    assert (L1 : length (rest s1) = length (rest s) - len) by (rewrite R1; apply skipn_length).
    apply wp_bind. eapply wp_mono; [apply wp_scan_uri_escapes, S1|]. cbv beta. intros e s2 (A2 & Hlt). pose proof A2 as (S2 & _ & _).
    specialize (Hlt ch Hc1 E37).
    apply wp_bind. eapply wp_mono; [apply (IH _ 0 s2 S2 (nn_0 _)); lia|]. cbv beta. intros [[c l] any] s' (A' & Hn'). cbn [fst snd] in Hn'.
    apply wp_ret. cbn [fst snd]. split; [eapply adv_trans; [eapply adv_trans; eauto|exact A']|exact Hn'].
  - eapply wp_mono; [apply (IH chunks (S len) s Hs Hn1); lia|]. cbv beta. auto.
Qed.
Lemma wp_scan_tag_uri start code s : sent (rest s) -> wp (scan_tag_uri start code) (fun _ s' => adv s s') s.
Proof.
  intros Hs. unfold scan_tag_uri. apply wp_bind. apply wp_with_fuel.
  eapply wp_mono; [apply (wp_tag_uri_loop start _ [] 0 s Hs (nn_0 _)); unfold fuel_of; lia|]. cbv beta. intros [[chunks len] any] s1 (A1 & Hn). cbn [fst snd] in Hn.
  pose proof A1 as (S1 & _ & _).
  destruct (Nat.eqb len 0).
  - destruct any; [apply wp_ret, A1|]. apply wp_bind. apply (wp_peek 0); [exact S1|apply nn_0|]. intros ch _. apply wp_err.
  - apply wp_bind. apply wp_prefix. apply wp_bind. apply (wp_forward len); [exact S1|exact Hn|]. intros s2 R2 C2 S2. apply wp_ret.
    eapply adv_trans; [exact A1|apply (adv_fwd s1 s2 len); assumption].
Qed.

Lemma wp_scan_tag_directive_value start s : sent (rest s) -> wp (scan_tag_directive_value start) (fun _ s' => adv s s') s.
Proof.
  intros Hs. unfold scan_tag_directive_value.
  apply wp_bind. eapply wp_mono; [apply wp_skip_spaces_adv, Hs|]. cbv beta. intros _ s1 A1. pose proof A1 as (S1 & _ & _).
  apply wp_bind. eapply wp_mono; [apply wp_scan_tag_handle, S1|]. cbv beta. intros handle s2 (A2 & _). pose proof A2 as (S2 & _ & _).
  apply wp_bind. apply (wp_peek 0); [exact S2|apply nn_0|]. intros ch _.
  destruct (negb (N.eqb ch SP)); [apply wp_err|].
  apply wp_bind. eapply wp_mono; [apply wp_skip_spaces_adv, S2|]. cbv beta. intros _ s3 A3. pose proof A3 as (S3 & _ & _).
  apply wp_bind. eapply wp_mono; [apply wp_scan_tag_uri, S3|]. cbv beta. intros pfx s4 A4. pose proof A4 as (S4 & _ & _).
  apply wp_bind. apply (wp_peek 0); [exact S4|apply nn_0|]. intros ch4 _.
  destruct (mem ch4 blankz_notab); [apply wp_ret|apply wp_err].
  eapply adv_trans; [eapply adv_trans; [eapply adv_trans; eauto|eauto]|eauto].
Qed.

Lemma wp_ignored_line (m : mark -> M unit) s :
  (m = scan_directive_ignored_line \/ m = scan_block_scalar_ignored_line) -> forall start, sent (rest s) -> wp (m start) (fun _ s' => adv s s') s.
Proof.
  intros Hm start Hs.
  assert (H : wp (with_fuel skip_spaces ;;; ch <- peek 0 ;; (if N.eqb ch 35 then with_fuel skip_to_eol else ret tt) ;;; ch <- peek 0 ;;
                  if mem ch breakz then scan_line_break ;;; ret tt else err (Some start) 0) (fun _ s' => adv s s') s).
  { apply wp_bind. eapply wp_mono; [apply wp_skip_spaces_adv, Hs|]. cbv beta. intros _ s1 A1. pose proof A1 as (S1 & _ & _).
    apply wp_bind. apply (wp_peek 0); [exact S1|apply nn_0|]. intros ch _.
    apply wp_bind. apply (wp_mono _ (fun _ s2 => adv s1 s2)).
    { destruct (N.eqb ch 35); [apply wp_skip_to_eol_adv, S1|apply wp_ret, adv_refl, S1]. }
    intros _ s2 A2. pose proof A2 as (S2 & _ & _).
    apply wp_bind. apply (wp_peek 0); [exact S2|apply nn_0|]. intros ch2 _.
    destruct (mem ch2 breakz); [|apply wp_err].
    apply wp_bind. eapply wp_mono; [apply wp_scan_line_break, S2|]. intros lb s3 (A3 & _). apply wp_ret.
    eapply adv_trans; [eapply adv_trans; eauto|exact A3]. }
  destruct Hm as [->| ->]; unfold scan_directive_ignored_line, scan_block_scalar_ignored_line;
    (revert H; unfold wp, bind; destruct (with_fuel skip_spaces s) as [[u s1]|? ? ?|?|]; auto;
     destruct (peek 0 s1) as [[ch s1']|? ? ?|?|]; auto;
     destruct ((if N.eqb ch 35 then with_fuel skip_to_eol else ret tt) s1') as [[u2 s2]|? ? ?|?|]; auto;
     destruct (peek 0 s2) as [[ch2 s2']|? ? ?|?|]; auto; destruct (mem ch2 breakz); auto).
Qed.

(* scan_directive, entered at % *)
Lemma wp_scan_directive s : sent (rest s) -> nn 1 (rest s) -> wp scan_directive (fun _ s' => adv s s' /\ length (rest s') < length (rest s)) s.
Proof.
  intros Hs Hn1. unfold scan_directive. apply wp_bind. apply wp_get_mark.
  apply wp_bind. apply (wp_forward 1); [exact Hs|exact Hn1|]. intros s1 R1 C1 S1.
  pose proof (adv_fwd s s1 1 S1 R1 C1) as A1. pose proof (fwd_lt s s1 1 ltac:(lia) Hs Hn1 R1) as L1.
  apply wp_bind. eapply wp_mono; [apply wp_scan_directive_name, S1|]. cbv beta. intros name s2 A2. pose proof A2 as (S2 & _ & _).
  apply wp_bind. apply (wp_mono _ (fun _ s3 => adv s2 s3)).
  { destruct (str_eqb name YAMLs).
    - apply wp_bind. eapply wp_mono; [apply wp_scan_yaml_directive_value, S2|]. cbv beta. intros v s3 A3. apply wp_bind. apply wp_get_mark. apply wp_ret. exact A3.
    - destruct (str_eqb name TAGs).
      + apply wp_bind. eapply wp_mono; [apply wp_scan_tag_directive_value, S2|]. cbv beta. intros v s3 A3. apply wp_bind. apply wp_get_mark. apply wp_ret. exact A3.
      + apply wp_bind. apply wp_get_mark. apply wp_bind. eapply wp_mono; [apply wp_skip_to_eol_adv, S2|]. cbv beta. intros _ s3 A3. apply wp_ret. exact A3. }
  intros r s3 A3. pose proof A3 as (S3 & _ & _).
  apply wp_bind. eapply wp_mono; [apply (wp_ignored_line scan_directive_ignored_line s3 (or_introl eq_refl)), S3|]. cbv beta. intros _ s4 A4. apply wp_ret.
  split; [eapply adv_trans; [eapply adv_trans; [eapply adv_trans; eauto|eauto]|eauto]|].
  pose proof (adv_len _ _ A2). pose proof (adv_len _ _ A3). pose proof (adv_len _ _ A4). lia.
Qed.

Lemma wp_tag_handle_probe : forall fuel len s, sent (rest s) -> nn len (rest s) -> length (rest s) - len < fuel ->
  wp (tag_handle_probe fuel len) (fun _ s' => s' = s) s.
Proof.
  induction fuel as [|f IH]; intros len s Hs Hn Hf; [lia|].
  cbn [tag_handle_probe]. apply wp_bind. apply (wp_peek len); [exact Hs|exact Hn|]. intros ch Hch.
  destruct (mem ch blankz_notab) eqn:Eb; [apply wp_ret; reflexivity|].
  destruct (N.eqb ch 33); [apply wp_ret; reflexivity|].
  assert (Hcn : ch <> NUL) by (intros ->; discriminate Eb).
  assert (Hn1 : nn (S len) (rest s)) by (apply (nn_S len _ ch); assumption).
  pose proof (sent_length _ _ Hs Hn1). apply IH; [exact Hs|exact Hn1|lia].
Qed.

(* scan_tag, entered at ! *)
Lemma wp_scan_tag s : sent (rest s) -> nn 1 (rest s) -> wp scan_tag (fun _ s' => adv s s' /\ length (rest s') < length (rest s)) s.
Proof.
  intros Hs Hn1. unfold scan_tag. apply wp_bind. apply wp_get_mark.
  apply wp_bind. apply (wp_peek 1); [exact Hs|exact Hn1|]. intros ch Hch.
  apply wp_bind. apply (wp_mono _ (fun _ s1 => adv s s1 /\ length (rest s1) < length (rest s))).
  { destruct (N.eqb ch 60) eqn:E60.
    - assert (Hn2 : nn 2 (rest s)) by (apply (nn_S 1 _ ch); [exact Hn1|exact Hch|apply (eqb_nn ch 60 E60); discriminate]).
      apply wp_bind. apply (wp_forward 2); [exact Hs|exact Hn2|]. intros s1 R1 C1 S1.
      pose proof (adv_fwd s s1 2 S1 R1 C1) as A1. pose proof (fwd_lt s s1 2 ltac:(lia) Hs Hn2 R1) as L1.
      apply wp_bind. eapply wp_mono; [apply wp_scan_tag_uri, S1|]. cbv beta. intros suffix s2 A2. pose proof A2 as (S2 & _ & _).
      apply wp_bind. apply (wp_peek 0); [exact S2|apply nn_0|]. intros c Hc.
      destruct (negb (N.eqb c 62)) eqn:E62; [apply wp_err|]. apply negb_false_iff in E62.
      apply wp_bind. apply (wp_forward 1); [exact S2|apply (nn_1 s2 c Hc); apply (eqb_nn c 62 E62); discriminate|]. intros s3 R3 C3 S3. apply wp_ret.
      pose proof (adv_fwd s2 s3 1 S3 R3 C3) as A3. split; [eapply adv_trans; [eapply adv_trans; eauto|eauto]|].
      pose proof (adv_len _ _ A2). pose proof (adv_len _ _ A3). lia.
    - destruct (mem ch blankz).
      + apply wp_bind. apply (wp_forward 1); [exact Hs|exact Hn1|]. intros s1 R1 C1 S1. apply wp_ret.
        split; [apply (adv_fwd s s1 1); assumption|apply (fwd_lt s s1 1); auto].
      + apply wp_bind. apply wp_with_fuel. eapply wp_mono; [apply (wp_tag_handle_probe _ 1 s Hs Hn1); unfold fuel_of; lia|]. cbv beta. intros use_handle ? ->.
        apply wp_bind. apply (wp_mono _ (fun _ s1 => adv s s1 /\ length (rest s1) < length (rest s))).
        { destruct use_handle; [apply wp_scan_tag_handle, Hs|].
          apply wp_bind. apply (wp_forward 1); [exact Hs|exact Hn1|]. intros s1 R1 C1 S1. apply wp_ret.
          split; [apply (adv_fwd s s1 1); assumption|apply (fwd_lt s s1 1); auto]. }
        intros handle s1 (A1 & L1). pose proof A1 as (S1 & _ & _).
        apply wp_bind. eapply wp_mono; [apply wp_scan_tag_uri, S1|]. cbv beta. intros suffix s2 A2. apply wp_ret.
        split; [eapply adv_trans; eauto|]. pose proof (adv_len _ _ A2). lia. }
  intros r s1 (A1 & L1). pose proof A1 as (S1 & _ & _).
  apply wp_bind. apply (wp_peek 0); [exact S1|apply nn_0|]. intros c _.
  destruct (negb (mem c blankz_notab)); [apply wp_err|]. apply wp_bind. apply wp_get_mark. apply wp_ret. split; assumption.
Qed.

(* ---------- block scalars ---------- *)
Lemma wp_scan_block_scalar_indicators start s : sent (rest s) -> wp (scan_block_scalar_indicators start) (fun _ s' => adv s s') s.
Proof.
  intros Hs. unfold scan_block_scalar_indicators. apply wp_bind. apply (wp_peek 0); [exact Hs|apply nn_0|]. intros ch Hch.
  apply wp_bind. apply (wp_mono _ (fun _ s1 => adv s s1)).
  { destruct (mem ch [43; 45]%N) eqn:E1.
    - assert (Hn1 : nn 1 (rest s)) by (apply (nn_1 s ch Hch); apply (mem_nn ch [43; 45]%N E1); reflexivity).
      apply wp_bind. apply (wp_forward 1); [exact Hs|exact Hn1|]. intros s1 R1 C1 S1. pose proof (adv_fwd s s1 1 S1 R1 C1) as A1.
      apply wp_bind. apply (wp_peek 0); [exact S1|apply nn_0|]. intros ch2 Hch2.
      destruct (is_digit ch2) eqn:Ed; [|apply wp_ret, A1].
      destruct (N.eqb ch2 48); [apply wp_err|].
      apply wp_bind. apply (wp_forward 1); [exact S1|apply (nn_1 s1 ch2 Hch2); intros ->; discriminate Ed|]. intros s2 R2 C2 S2. apply wp_ret.
      eapply adv_trans; [exact A1|apply (adv_fwd s1 s2 1); assumption].
    - destruct (is_digit ch) eqn:Ed; [|apply wp_ret, adv_refl, Hs].
      destruct (N.eqb ch 48); [apply wp_err|].
      assert (Hn1 : nn 1 (rest s)) by (apply (nn_1 s ch Hch); intros ->; discriminate Ed).
      apply wp_bind. apply (wp_forward 1); [exact Hs|exact Hn1|]. intros s1 R1 C1 S1. pose proof (adv_fwd s s1 1 S1 R1 C1) as A1.
      apply wp_bind. apply (wp_peek 0); [exact S1|apply nn_0|]. intros ch2 Hch2.
      destruct (mem ch2 [43; 45]%N) eqn:E2; [|apply wp_ret, A1].
      apply wp_bind. apply (wp_forward 1); [exact S1|apply (nn_1 s1 ch2 Hch2); apply (mem_nn ch2 [43; 45]%N E2); reflexivity|]. intros s2 R2 C2 S2. apply wp_ret.
      eapply adv_trans; [exact A1|apply (adv_fwd s1 s2 1); assumption]. }
  intros r s1 A1. pose proof A1 as (S1 & _ & _). apply wp_bind. apply (wp_peek 0); [exact S1|apply nn_0|]. intros c _.
  destruct (mem c blankz_notab); [apply wp_ret, A1|apply wp_err].
Qed.

Lemma break_consumed s c lb s' : nth_error (rest s) 0 = Some c -> mem c breaks = true -> lb_post s lb s' -> length (rest s') < length (rest s).
Proof.
  intros Hc Hb (_ & Hnil & Hcons). destruct lb as [|x lb]; [|apply Hcons; discriminate].
  destruct (Hnil eq_refl) as (_ & c' & Hc' & Hb'). assert (c' = c) by congruence. subst c'. congruence.
Qed.

Lemma wp_bs_indentation_loop : forall fuel chunks mx e s, sent (rest s) -> length (rest s) <= fuel ->
  wp (bs_indentation_loop fuel chunks mx e) (fun _ s' => adv s s') s.
Proof.
  induction fuel as [|f IH]; intros chunks mx e s Hs Hf.
  - destruct (sent_ne _ Hs) as (c & r & E). rewrite E in Hf. cbn in Hf. lia.
  - cbn [bs_indentation_loop]. apply wp_bind. apply (wp_peek 0); [exact Hs|apply nn_0|]. intros ch Hch.
    destruct (mem ch (SP :: breaks)) eqn:Em; [|apply wp_ret, adv_refl, Hs].
    destruct (negb (N.eqb ch SP)) eqn:Esp.
    + apply negb_true_iff in Esp. assert (Hb : mem ch breaks = true) by (unfold mem in *; cbn [existsb] in Em; rewrite Esp in Em; cbn [orb] in Em; exact Em).
      apply wp_bind. eapply wp_mono; [apply wp_scan_line_break, Hs|]. intros lb s1 P1. pose proof (break_consumed s ch lb s1 Hch Hb P1) as L1.
      destruct P1 as (A1 & _). pose proof A1 as (S1 & _ & _).
      apply wp_bind. apply wp_get_mark. eapply wp_mono; [apply IH; [exact S1|lia]|]. cbv beta. intros _ s' A'. eapply adv_trans; eauto.
    + apply negb_false_iff in Esp. assert (Hn1 : nn 1 (rest s)) by (apply (nn_1 s ch Hch); apply (eqb_nn ch SP Esp); discriminate).
      apply wp_bind. apply (wp_forward 1); [exact Hs|exact Hn1|]. intros s1 R1 C1 S1.
      pose proof (adv_fwd s s1 1 S1 R1 C1) as A1. pose proof (fwd_lt s s1 1 ltac:(lia) Hs Hn1 R1) as L1.
      apply wp_bind. apply wp_get. eapply wp_mono; [apply IH; [exact S1|lia]|]. cbv beta. intros _ s' A'. eapply adv_trans; eauto.
Qed.

Lemma wp_skip_indent ind : forall fuel s, sent (rest s) -> length (rest s) <= fuel -> wp (skip_indent fuel ind) (fun _ s' => adv s s') s.
Proof.
  induction fuel as [|f IH]; intros s Hs Hf.
  - destruct (sent_ne _ Hs) as (c & r & E). rewrite E in Hf. cbn in Hf. lia.
  - cbn [skip_indent]. apply wp_bind. apply wp_get. apply wp_bind. apply (wp_peek 0); [exact Hs|apply nn_0|]. intros ch Hch.
    destruct (Nat.ltb (col s) ind && N.eqb ch SP) eqn:E; [|apply wp_ret, adv_refl, Hs]. apply andb_prop in E as [_ E].
    assert (Hn1 : nn 1 (rest s)) by (apply (nn_1 s ch Hch); apply (eqb_nn ch SP E); discriminate).
    apply wp_bind. apply (wp_forward 1); [exact Hs|exact Hn1|]. intros s1 R1 C1 S1.
    pose proof (adv_fwd s s1 1 S1 R1 C1) as A1. pose proof (fwd_lt s s1 1 ltac:(lia) Hs Hn1 R1) as L1.
    eapply wp_mono; [apply IH; [exact S1|lia]|]. cbv beta. intros _ s' A'. eapply adv_trans; eauto.
Qed.
Lemma wp_skip_indent_adv ind s : sent (rest s) -> wp (with_fuel (fun f => skip_indent f ind)) (fun _ s' => adv s s') s.
Proof. intros Hs. apply wp_with_fuel. apply wp_skip_indent; [exact Hs|apply fuel_ok]. Qed.

Lemma wp_bs_breaks_loop ind : forall fuel chunks e s, sent (rest s) -> length (rest s) <= fuel ->
  wp (bs_breaks_loop fuel ind chunks e) (fun _ s' => adv s s') s.
Proof.
  induction fuel as [|f IH]; intros chunks e s Hs Hf.
  - destruct (sent_ne _ Hs) as (c & r & E). rewrite E in Hf. cbn in Hf. lia.
  - cbn [bs_breaks_loop]. apply wp_bind. apply (wp_peek 0); [exact Hs|apply nn_0|]. intros ch Hch.
    destruct (mem ch breaks) eqn:Eb; [|apply wp_ret, adv_refl, Hs].
    apply wp_bind. eapply wp_mono; [apply wp_scan_line_break, Hs|]. intros lb s1 P1. pose proof (break_consumed s ch lb s1 Hch Eb P1) as L1.
    destruct P1 as (A1 & _). pose proof A1 as (S1 & _ & _).
    apply wp_bind. apply wp_get_mark. apply wp_bind. eapply wp_mono; [apply wp_skip_indent_adv, S1|]. cbv beta. intros _ s2 A2. pose proof A2 as (S2 & _ & _).
    pose proof (adv_len _ _ A2). eapply wp_mono; [apply IH; [exact S2|lia]|]. cbv beta. intros _ s' A'. eapply adv_trans; [eapply adv_trans; eauto|exact A'].
Qed.
Lemma wp_scan_block_scalar_breaks ind s : sent (rest s) -> wp (scan_block_scalar_breaks ind) (fun _ s' => adv s s') s.
Proof.
  intros Hs. unfold scan_block_scalar_breaks. apply wp_bind. apply wp_get_mark.
  apply wp_bind. eapply wp_mono; [apply wp_skip_indent_adv, Hs|]. cbv beta. intros _ s1 A1. pose proof A1 as (S1 & _ & _).
  apply wp_with_fuel. eapply wp_mono; [apply wp_bs_breaks_loop; [exact S1|apply fuel_ok]|]. cbv beta. intros _ s' A'. eapply adv_trans; eauto.
Qed.

Lemma not_breakz_nul : not_breakz NUL = false. Proof. reflexivity. Qed.
Lemma breakz_cases c : not_breakz c = false -> c <> NUL -> mem c breaks = true.
Proof.
  unfold not_breakz, breakz, breaks, mem. cbn [existsb]. intros H Hn. apply negb_false_iff in H.
  destruct (N.eqb c NUL) eqn:E; [apply N.eqb_eq in E; congruence|]. cbn [orb] in H. exact H.
Qed.

(* the body of a block scalar, entered at a character that is not NUL *)
Lemma wp_bs_body_loop folded ind : forall fuel chunks brks e s c, sent (rest s) -> length (rest s) <= fuel ->
  nth_error (rest s) 0 = Some c -> c <> NUL -> wp (bs_body_loop fuel folded ind chunks brks e) (fun _ s' => adv s s') s.
Proof.
  induction fuel as [|f IH]; intros chunks brks e s c Hs Hf Hc Hcn.
  - destruct (sent_ne _ Hs) as (c0 & r & E). rewrite E in Hf. cbn in Hf. lia.
  - cbn [bs_body_loop]. apply wp_bind. apply (wp_peek 0); [exact Hs|apply nn_0|]. intros ch0 _.
    apply wp_bind. apply wp_with_fuel. eapply wp_mono; [apply (wp_span not_breakz not_breakz_nul); [exact Hs|apply nn_0|unfold fuel_of; lia]|].
    cbv beta. intros n ? (-> & _ & Hn & (x & Hx & Hpx) & _).
    apply wp_bind. apply wp_prefix. apply wp_bind. apply (wp_forward n); [exact Hs|exact Hn|]. intros s1 R1 C1 S1.
    pose proof (adv_fwd s s1 n S1 R1 C1) as A1.
    assert (Hx1 : nth_error (rest s1) 0 = Some x) by (rewrite R1, nth_skipn, Nat.add_0_r; exact Hx).
    apply wp_bind. eapply wp_mono; [apply wp_scan_line_break, S1|]. intros lb s2 P2.
    assert (L2 : length (rest s2) < length (rest s)).
    { destruct n as [|n].
      - assert (x = c) by congruence. subst x. pose proof (break_consumed s1 c lb s2 Hx1 (breakz_cases c Hpx Hcn) P2). pose proof (adv_len _ _ A1). lia.
      - pose proof (fwd_lt s s1 (S n) ltac:(lia) Hs Hn R1). destruct P2 as (A2 & _). pose proof (adv_len _ _ A2). lia. }
    destruct P2 as (A2 & _). pose proof A2 as (S2 & _ & _).
    apply wp_bind. eapply wp_mono; [apply wp_scan_block_scalar_breaks, S2|]. cbv beta. intros [brks' e'] s3 A3. pose proof A3 as (S3 & _ & _).
    assert (A : adv s s3) by (eapply adv_trans; [eapply adv_trans; eauto|exact A3]).
    apply wp_bind. apply wp_get. apply wp_bind. apply (wp_peek 0); [exact S3|apply nn_0|]. intros ch Hch.
    destruct (Nat.eqb (col s3) ind && negb (N.eqb ch NUL)) eqn:E; [|apply wp_ret, A].
    apply andb_prop in E as [_ E]. apply negb_true_iff in E. apply N.eqb_neq in E.
    pose proof (adv_len _ _ A3). eapply wp_mono; [apply (IH _ _ _ s3 ch); [exact S3|lia|exact Hch|exact E]|]. cbv beta. intros _ s' A'. eapply adv_trans; eauto.
Qed.

(* scan_block_scalar, entered at | or > *)
Lemma wp_scan_block_scalar folded s : sent (rest s) -> nn 1 (rest s) -> wp (scan_block_scalar folded) (fun _ s' => adv s s' /\ length (rest s') < length (rest s)) s.
Proof.
  intros Hs Hn1. unfold scan_block_scalar. apply wp_bind. apply wp_get_mark.
  apply wp_bind. apply (wp_forward 1); [exact Hs|exact Hn1|]. intros s1 R1 C1 S1.
  pose proof (adv_fwd s s1 1 S1 R1 C1) as A1. pose proof (fwd_lt s s1 1 ltac:(lia) Hs Hn1 R1) as L1.
  apply wp_bind. eapply wp_mono; [apply wp_scan_block_scalar_indicators, S1|]. cbv beta. intros [chomping increment] s2 A2. pose proof A2 as (S2 & _ & _).
  apply wp_bind. eapply wp_mono; [apply (wp_ignored_line scan_block_scalar_ignored_line s2 (or_intror eq_refl)), S2|]. cbv beta. intros _ s3 A3. pose proof A3 as (S3 & _ & _).
  apply wp_bind. apply wp_get.
  apply wp_bind. apply (wp_mono _ (fun _ s4 => adv s3 s4)).
  { destruct increment as [inc|].
    - apply wp_bind. eapply wp_mono; [apply wp_scan_block_scalar_breaks, S3|]. cbv beta. intros x s4 A4. apply wp_ret. exact A4.
    - apply wp_bind. apply wp_with_fuel. apply wp_bind. apply wp_get_mark.
      eapply wp_mono; [apply wp_bs_indentation_loop; [exact S3|apply fuel_ok]|]. cbv beta. intros [[brks mx] e] s4 A4. apply wp_ret. exact A4. }
  intros [[brks e] ind] s4 A4. pose proof A4 as (S4 & _ & _).
  apply wp_bind. apply wp_get. apply wp_bind. apply (wp_peek 0); [exact S4|apply nn_0|]. intros ch Hch.
  apply wp_bind. apply (wp_mono _ (fun _ s5 => adv s4 s5)).
  { destruct (Nat.eqb (col s4) ind && negb (N.eqb ch NUL)) eqn:E; [|apply wp_ret, adv_refl, S4].
    apply andb_prop in E as [_ E]. apply negb_true_iff in E. apply N.eqb_neq in E.
    apply wp_with_fuel. apply (wp_bs_body_loop folded ind _ _ _ _ s4 ch); [exact S4|apply fuel_ok|exact Hch|exact E]. }
  intros [[[chunks lb] brks'] e'] s5 A5. apply wp_ret.
  split; [eapply adv_trans; [eapply adv_trans; [eapply adv_trans; [eapply adv_trans; eauto|eauto]|eauto]|eauto]|].
  pose proof (adv_len _ _ A2). pose proof (adv_len _ _ A3). pose proof (adv_len _ _ A4). pose proof (adv_len _ _ A5). lia.
Qed.

(* ---------- the control operations: simple keys, indentation, token queue ---------- *)
(* position and indentation are kept *)
Definition keep (s s' : st) : Prop := rest s' = rest s /\ indent s' = indent s /\ indents s' = indents s.
Lemma keep_refl s : keep s s. Proof. repeat split. Qed.
Lemma keep_trans a b c : keep a b -> keep b c -> keep a c.
Proof. intros (A1 & A2 & A3) (B1 & B2 & B3). repeat split; congruence. Qed.

Lemma wp_set_tokens f s : wp (set_tokens f) (fun _ s' => keep s s') s. Proof. repeat split. Qed.
Lemma wp_set_allow' b s : wp (set_allow b) (fun _ s' => keep s s') s. Proof. repeat split. Qed.
Lemma wp_set_psk f s : wp (set_psk f) (fun _ s' => keep s s') s. Proof. repeat split. Qed.
Lemma wp_set_flow z s : wp (set_flow z) (fun _ s' => keep s s') s. Proof. repeat split. Qed.
Lemma wp_set_done s : wp set_done (fun _ s' => keep s s' /\ sdone s' = true) s. Proof. repeat split. Qed.
Lemma wp_append_token k a b s : wp (append_token k a b) (fun _ s' => keep s s') s. Proof. repeat split. Qed.
Lemma wp_push_token t s : wp (push_token t) (fun _ s' => keep s s') s. Proof. repeat split. Qed.

Lemma wp_remove_psk s : wp remove_possible_simple_key (fun _ s' => keep s s') s.
Proof.
  unfold remove_possible_simple_key. apply wp_bind. apply wp_get.
  destruct (psk_find (flow_level s) (psk s)) as [k|]; [|apply wp_ret, keep_refl]. destruct (k_req k); [apply wp_err|apply wp_set_psk].
Qed.
Lemma wp_save_psk s : wp save_possible_simple_key (fun _ s' => keep s s') s.
Proof.
  unfold save_possible_simple_key. apply wp_bind. apply wp_get. destruct (allow_sk s); [|apply wp_ret, keep_refl].
  apply wp_bind. eapply wp_mono; [apply wp_remove_psk|]. cbv beta. intros _ s1 K1.
  apply wp_bind. apply wp_get. apply wp_bind. apply wp_get_mark. eapply wp_mono; [apply wp_set_psk|]. cbv beta. intros _ s2 K2. eapply keep_trans; eauto.
Qed.
Lemma wp_stale_loop : forall keys s, wp (stale_loop keys) (fun _ s' => keep s s') s.
Proof.
  induction keys as [|[z k] keys IH]; intros s; [apply wp_ret, keep_refl|].
  cbn [stale_loop]. apply wp_bind. apply wp_get. destruct (negb (Nat.eqb (k_line k) (line s)) || _); [|apply IH].
  destruct (k_req k); [apply wp_err|]. apply wp_bind. eapply wp_mono; [apply wp_set_psk|]. cbv beta. intros _ s1 K1.
  eapply wp_mono; [apply IH|]. cbv beta. intros _ s2 K2. eapply keep_trans; eauto.
Qed.
Lemma wp_stale s : wp stale_possible_simple_keys (fun _ s' => keep s s') s.
Proof. unfold stale_possible_simple_keys. apply wp_bind. apply wp_get. apply wp_stale_loop. Qed.

(* the indent stack: its bottom is -1, and with an empty stack the current indent is -1 - so popping is never attempted on an empty stack *)
Definition ind_ok (s : st) : Prop := match indents s with [] => indent s = (-1)%Z | x :: _ => x = (-1)%Z end.
Lemma wp_unwind_loop column : (-1 <= column)%Z -> forall fuel s, ind_ok s -> length (indents s) < fuel ->
  wp (unwind_loop fuel column) (fun _ s' => rest s' = rest s /\ ind_ok s') s.
Proof.
  intros Hc. induction fuel as [|f IH]; intros s Hi Hf; [lia|].
  cbn [unwind_loop]. apply wp_bind. apply wp_get. destruct (Z.ltb column (indent s)) eqn:E; [|apply wp_ret; auto].
  apply Z.ltb_lt in E. apply wp_bind. apply wp_get_mark.
  destruct (rev (indents s)) as [|top rr] eqn:Er.
  - (* impossible: an empty stack means indent = -1 *)
    assert (indents s = []) by (apply (f_equal (@rev Z)) in Er; rewrite rev_involutive in Er; exact Er). unfold ind_ok in Hi. rewrite H in Hi. lia.
  - assert (Ei : indents s = rev rr ++ [top]) by (apply (f_equal (@rev Z)) in Er; rewrite rev_involutive in Er; exact Er).
    apply wp_bind. unfold set_indent at 1. unfold wp at 1. cbv beta iota.
    apply wp_bind. eapply wp_mono; [apply wp_append_token|]. cbv beta. intros _ s2 (K1 & K2 & K3). cbn [rest indent indents] in K1, K2, K3.
    eapply wp_mono; [apply IH|].
    + unfold ind_ok. rewrite K3, K2. unfold ind_ok in Hi. rewrite Ei in Hi. destruct (rev rr) as [|x l]; cbn in *; [exact Hi|exact Hi].
    + rewrite K3. rewrite Ei, app_length in Hf. cbn in Hf. lia.
    + cbv beta. intros _ s' (R' & I'). split; [congruence|exact I'].
Qed.
Lemma wp_unwind_indent column s : (-1 <= column)%Z -> ind_ok s -> wp (unwind_indent column) (fun _ s' => rest s' = rest s /\ ind_ok s') s.
Proof.
  intros Hc Hi. unfold unwind_indent. apply wp_bind. apply wp_flowing. destruct (negb (Z.eqb (flow_level s) 0)); [apply wp_ret; auto|].
  apply wp_bind. apply wp_get. apply wp_unwind_loop; [exact Hc|exact Hi|lia].
Qed.
Lemma wp_add_indent column s : ind_ok s -> wp (add_indent column) (fun _ s' => rest s' = rest s /\ ind_ok s') s.
Proof.
  intros Hi. unfold add_indent. apply wp_bind. apply wp_get. destruct (Z.ltb (indent s) column); [|apply wp_ret; auto].
  apply wp_bind. unfold set_indent, wp. cbv beta iota. apply wp_ret. cbn [rest]. split; [reflexivity|].
  unfold ind_ok in *. cbn [indents indent]. destruct (indents s) as [|x l]; cbn; [exact Hi|exact Hi].
Qed.

(* ---------- the scanner invariant ---------- *)
Definition Inv (s : st) : Prop := sent (rest s) /\ ind_ok s.
Lemma keep_inv s s' : keep s s' -> Inv s -> Inv s'.
Proof. intros (K1 & K2 & K3) (A & B). split; [rewrite K1; exact A|]. unfold ind_ok in *. rewrite K2, K3. exact B. Qed.
Lemma adv_ind s s' : adv s s' -> ind_ok s -> ind_ok s'.
Proof. intros (_ & C & _) H. unfold ctl in C. injection C as _ _ _ _ E5 E6 _ _. unfold ind_ok in *. rewrite E5, E6. exact H. Qed.
Lemma advA_ind s s' : advA s s' -> ind_ok s -> ind_ok s'.
Proof. intros (_ & C & _) H. unfold ctlA in C. injection C as _ _ _ _ E5 E6 _. unfold ind_ok in *. rewrite E5, E6. exact H. Qed.
(* a fetcher makes progress: it consumes at least one character, or it ends the stream *)
Definition PG (s s' : st) : Prop := Inv s' /\ (length (rest s') < length (rest s) \/ sdone s' = true).

Lemma wp_simple_token k n s : sent (rest s) -> nn n (rest s) -> 0 < n ->
  wp (simple_token k n) (fun _ s' => sent (rest s') /\ length (rest s') < length (rest s) /\ indent s' = indent s /\ indents s' = indents s) s.
Proof.
  intros Hs Hn H0. unfold simple_token. apply wp_bind. apply wp_get_mark. apply wp_bind. apply (wp_forward n); [exact Hs|exact Hn|]. intros s1 R1 C1 S1.
  apply wp_bind. apply wp_get_mark. eapply wp_mono; [apply wp_append_token|]. cbv beta. intros _ s2 (K1 & K2 & K3).
  unfold ctl in C1. injection C1 as _ _ _ _ E5 E6 _ _.
  split; [rewrite K1; exact S1|]. split; [rewrite K1; apply (fwd_lt s s1 n); auto|]. split; congruence.
Qed.

(* ---------- fetchers ---------- *)
Lemma inv_of s s' : sent (rest s') -> indent s' = indent s -> indents s' = indents s -> ind_ok s -> Inv s'.
Proof. intros A B C D. split; [exact A|]. unfold ind_ok in *. rewrite B, C. exact D. Qed.

Lemma wp_fetch_stream_end s : Inv s -> wp fetch_stream_end (fun _ s' => PG s s') s.
Proof.
  intros (Hs & Hi). unfold fetch_stream_end.
  apply wp_bind. eapply wp_mono; [apply wp_unwind_indent; [lia|exact Hi]|]. cbv beta. intros _ s1 (R1 & I1).
  apply wp_bind. eapply wp_mono; [apply wp_remove_psk|]. cbv beta. intros _ s2 K2.
  apply wp_bind. eapply wp_mono; [apply wp_set_allow'|]. cbv beta. intros _ s3 K3.
  apply wp_bind. eapply wp_mono; [apply wp_set_psk|]. cbv beta. intros _ s4 K4.
  apply wp_bind. apply wp_get_mark. apply wp_bind. eapply wp_mono; [apply wp_append_token|]. cbv beta. intros _ s5 K5.
  eapply wp_mono; [apply wp_set_done|]. cbv beta. intros _ s6 (K6 & D6).
  split; [|right; exact D6]. apply (keep_inv s1 s6); [repeat (eapply keep_trans; [eassumption|]); apply keep_refl|].
  split; [rewrite R1; exact Hs|exact I1].
Qed.

(* the common prologue of the document-level fetchers *)
Lemma wp_prologue s : Inv s -> wp (unwind_indent (-1) ;;; remove_possible_simple_key ;;; set_allow false) (fun _ s' => rest s' = rest s /\ ind_ok s') s.
Proof.
  intros (Hs & Hi).
  apply wp_bind. eapply wp_mono; [apply wp_unwind_indent; [lia|exact Hi]|]. cbv beta. intros _ s1 (R1 & I1).
  apply wp_bind. eapply wp_mono; [apply wp_remove_psk|]. cbv beta. intros _ s2 (K21 & K22 & K23).
  eapply wp_mono; [apply wp_set_allow'|]. cbv beta. intros _ s3 (K31 & K32 & K33).
  split; [congruence|]. unfold ind_ok in *. rewrite K33, K32, K23, K22. exact I1.
Qed.
Lemma bind_assoc3 {A} (a b c : M unit) (k : M A) s : ((a ;;; b ;;; c) ;;; k) s = (a ;;; b ;;; c ;;; k) s.
Proof. unfold bind. destruct (a s) as [[u s1]|? ? ?|?|]; auto. destruct (b s1) as [[u2 s2]|? ? ?|?|]; auto. Qed.

Lemma wp_fetch_directive s : Inv s -> nn 1 (rest s) -> wp fetch_directive (fun _ s' => PG s s') s.
Proof.
  intros HI Hn1. unfold fetch_directive. unfold wp. rewrite <- bind_assoc3. change (wp ((unwind_indent (-1) ;;; remove_possible_simple_key ;;; set_allow false) ;;; (t <- scan_directive ;; push_token t)) (fun _ s' => PG s s') s).
  apply wp_bind. eapply wp_mono; [apply wp_prologue, HI|]. cbv beta. intros _ s1 (R1 & I1).
  assert (S1 : sent (rest s1)) by (rewrite R1; apply HI).
  apply wp_bind. eapply wp_mono; [apply wp_scan_directive; [exact S1|rewrite R1; exact Hn1]|]. cbv beta. intros t s2 (A2 & L2).
  eapply wp_mono; [apply wp_push_token|]. cbv beta. intros _ s3 K3.
  split; [apply (keep_inv s2 s3 K3); split; [apply A2|apply (adv_ind s1 s2 A2 I1)]|]. left. destruct K3 as (K & _). rewrite K, <- R1. exact L2.
Qed.

Lemma wp_fetch_document_indicator k s : Inv s -> nn 3 (rest s) -> wp (fetch_document_indicator k) (fun _ s' => PG s s') s.
Proof.
  intros HI Hn3. unfold fetch_document_indicator. unfold wp. rewrite <- bind_assoc3. change (wp ((unwind_indent (-1) ;;; remove_possible_simple_key ;;; set_allow false) ;;; simple_token k 3) (fun _ s' => PG s s') s).
  apply wp_bind. eapply wp_mono; [apply wp_prologue, HI|]. cbv beta. intros _ s1 (R1 & I1).
  assert (S1 : sent (rest s1)) by (rewrite R1; apply HI).
  eapply wp_mono; [apply wp_simple_token; [exact S1|rewrite R1; exact Hn3|lia]|]. cbv beta. intros _ s2 (S2 & L2 & E1 & E2).
  split; [apply (inv_of s1 s2); assumption|]. left. rewrite <- R1. exact L2.
Qed.

Lemma wp_fetch_flow_collection_start k s : Inv s -> nn 1 (rest s) -> wp (fetch_flow_collection_start k) (fun _ s' => PG s s') s.
Proof.
  intros (Hs & Hi) Hn1. unfold fetch_flow_collection_start.
  apply wp_bind. eapply wp_mono; [apply wp_save_psk|]. cbv beta. intros _ s1 (K11 & K12 & K13).
  apply wp_bind. apply wp_get. apply wp_bind. eapply wp_mono; [apply wp_set_flow|]. cbv beta. intros _ s2 (K21 & K22 & K23).
  apply wp_bind. eapply wp_mono; [apply wp_set_allow'|]. cbv beta. intros _ s3 (K31 & K32 & K33).
  assert (R3 : rest s3 = rest s) by congruence.
  eapply wp_mono; [apply wp_simple_token; [rewrite R3; exact Hs|rewrite R3; exact Hn1|lia]|]. cbv beta. intros _ s4 (S4 & L4 & E1 & E2).
  split; [apply (inv_of s s4); [exact S4|congruence|congruence|exact Hi]|]. left. rewrite <- R3. exact L4.
Qed.
Lemma wp_fetch_flow_collection_end k s : Inv s -> nn 1 (rest s) -> wp (fetch_flow_collection_end k) (fun _ s' => PG s s') s.
Proof.
  intros (Hs & Hi) Hn1. unfold fetch_flow_collection_end.
  apply wp_bind. eapply wp_mono; [apply wp_remove_psk|]. cbv beta. intros _ s1 (K11 & K12 & K13).
  apply wp_bind. apply wp_get. apply wp_bind. eapply wp_mono; [apply wp_set_flow|]. cbv beta. intros _ s2 (K21 & K22 & K23).
  apply wp_bind. eapply wp_mono; [apply wp_set_allow'|]. cbv beta. intros _ s3 (K31 & K32 & K33).
  assert (R3 : rest s3 = rest s) by congruence.
  eapply wp_mono; [apply wp_simple_token; [rewrite R3; exact Hs|rewrite R3; exact Hn1|lia]|]. cbv beta. intros _ s4 (S4 & L4 & E1 & E2).
  split; [apply (inv_of s s4); [exact S4|congruence|congruence|exact Hi]|]. left. rewrite <- R3. exact L4.
Qed.
Lemma wp_fetch_flow_entry s : Inv s -> nn 1 (rest s) -> wp fetch_flow_entry (fun _ s' => PG s s') s.
Proof.
  intros (Hs & Hi) Hn1. unfold fetch_flow_entry.
  apply wp_bind. eapply wp_mono; [apply wp_set_allow'|]. cbv beta. intros _ s1 (K11 & K12 & K13).
  apply wp_bind. eapply wp_mono; [apply wp_remove_psk|]. cbv beta. intros _ s2 (K21 & K22 & K23).
  assert (R2 : rest s2 = rest s) by congruence.
  eapply wp_mono; [apply wp_simple_token; [rewrite R2; exact Hs|rewrite R2; exact Hn1|lia]|]. cbv beta. intros _ s3 (S3 & L3 & E1 & E2).
  split; [apply (inv_of s s3); [exact S3|congruence|congruence|exact Hi]|]. left. rewrite <- R2. exact L3.
Qed.

(* block entry / key: the optional indentation step keeps the buffer and the stack discipline *)
Lemma wp_block_indent (k : tok) (code : nat) (fl : bool) (s : st) : ind_ok s ->
  wp (if fl then ret tt else (s0 <- get ;; if negb (allow_sk s0) then err None code else
        b <- add_indent (Z.of_nat (col s0)) ;; if b then (m <- get_mark ;; append_token k m m) else ret tt))
     (fun _ s' => rest s' = rest s /\ ind_ok s') s.
Proof.
  intros Hi. destruct fl; [apply wp_ret; auto|]. apply wp_bind. apply wp_get. destruct (negb (allow_sk s)); [apply wp_err|].
  apply wp_bind. eapply wp_mono; [apply wp_add_indent, Hi|]. cbv beta. intros b s1 (R1 & I1).
  destruct b; [|apply wp_ret; auto]. apply wp_bind. apply wp_get_mark. eapply wp_mono; [apply wp_append_token|]. cbv beta. intros _ s2 (K1 & K2 & K3).
  split; [congruence|]. unfold ind_ok in *. rewrite K2, K3. exact I1.
Qed.
Lemma wp_fetch_block_entry s : Inv s -> nn 1 (rest s) -> wp fetch_block_entry (fun _ s' => PG s s') s.
Proof.
  intros (Hs & Hi) Hn1. unfold fetch_block_entry. apply wp_bind. apply wp_flowing.
  apply wp_bind. eapply wp_mono; [apply (wp_block_indent TBlockSeqStart 23 _ s Hi)|]. cbv beta. intros _ s1 (R1 & I1).
  apply wp_bind. eapply wp_mono; [apply wp_set_allow'|]. cbv beta. intros _ s2 (K21 & K22 & K23).
  apply wp_bind. eapply wp_mono; [apply wp_remove_psk|]. cbv beta. intros _ s3 (K31 & K32 & K33).
  assert (R3 : rest s3 = rest s) by congruence.
  eapply wp_mono; [apply wp_simple_token; [rewrite R3; exact Hs|rewrite R3; exact Hn1|lia]|]. cbv beta. intros _ s4 (S4 & L4 & E1 & E2).
  split; [apply (inv_of s1 s4); [exact S4|congruence|congruence|exact I1]|]. left. rewrite <- R3. exact L4.
Qed.
Lemma wp_fetch_key s : Inv s -> nn 1 (rest s) -> wp fetch_key (fun _ s' => PG s s') s.
Proof.
  intros (Hs & Hi) Hn1. unfold fetch_key. apply wp_bind. apply wp_flowing.
  apply wp_bind. eapply wp_mono; [apply (wp_block_indent TBlockMapStart 24 _ s Hi)|]. cbv beta. intros _ s1 (R1 & I1).
  apply wp_bind. eapply wp_mono; [apply wp_set_allow'|]. cbv beta. intros _ s2 (K21 & K22 & K23).
  apply wp_bind. eapply wp_mono; [apply wp_remove_psk|]. cbv beta. intros _ s3 (K31 & K32 & K33).
  assert (R3 : rest s3 = rest s) by congruence.
  eapply wp_mono; [apply wp_simple_token; [rewrite R3; exact Hs|rewrite R3; exact Hn1|lia]|]. cbv beta. intros _ s4 (S4 & L4 & E1 & E2).
  split; [apply (inv_of s1 s4); [exact S4|congruence|congruence|exact I1]|]. left. rewrite <- R3. exact L4.
Qed.

Lemma wp_fetch_value s : Inv s -> nn 1 (rest s) -> wp fetch_value (fun _ s' => PG s s') s.
Proof.
  intros (Hs & Hi) Hn1. unfold fetch_value. apply wp_bind. apply wp_get. apply wp_bind. apply wp_flowing.
  set (fl := negb (Z.eqb (flow_level s) 0)).
  apply wp_bind. apply (wp_mono _ (fun _ s1 => rest s1 = rest s /\ ind_ok s1)).
  { destruct (psk_find (flow_level s) (psk s)) as [key|].
    - apply wp_bind. eapply wp_mono; [apply wp_set_psk|]. cbv beta. intros _ s1 (K11 & K12 & K13).
      apply wp_bind. eapply wp_mono; [apply wp_set_tokens|]. cbv beta. intros _ s2 (K21 & K22 & K23).
      assert (I2 : ind_ok s2) by (unfold ind_ok in *; rewrite K22, K23, K12, K13; exact Hi).
      apply wp_bind. apply (wp_mono _ (fun _ s3 => rest s3 = rest s2 /\ ind_ok s3)).
      { destruct fl; [apply wp_ret; auto|]. apply wp_bind. eapply wp_mono; [apply wp_add_indent, I2|]. cbv beta. intros b s3 (R3 & I3).
        destruct b; [|apply wp_ret; auto]. eapply wp_mono; [apply wp_set_tokens|]. cbv beta. intros _ s4 (K41 & K42 & K43).
        split; [congruence|]. unfold ind_ok in *. rewrite K42, K43. exact I3. }
      intros _ s3 (R3 & I3). eapply wp_mono; [apply wp_set_allow'|]. cbv beta. intros _ s4 (K41 & K42 & K43).
      split; [congruence|]. unfold ind_ok in *. rewrite K42, K43. exact I3.
    - apply wp_bind. apply (wp_mono _ (fun _ s1 => s1 = s)).
      { destruct fl; [apply wp_ret; reflexivity|]. destruct (negb (allow_sk s)); [apply wp_err|apply wp_ret; reflexivity]. }
      intros _ ? ->.
      apply wp_bind. apply (wp_mono _ (fun _ s1 => rest s1 = rest s /\ ind_ok s1)).
      { destruct fl; [apply wp_ret; auto|]. apply wp_bind. eapply wp_mono; [apply wp_add_indent, Hi|]. cbv beta. intros b s1 (R1 & I1).
        destruct b; [|apply wp_ret; auto]. apply wp_bind. apply wp_get_mark. eapply wp_mono; [apply wp_append_token|]. cbv beta. intros _ s2 (K1 & K2 & K3).
        split; [congruence|]. unfold ind_ok in *. rewrite K2, K3. exact I1. }
      intros _ s1 (R1 & I1).
      apply wp_bind. eapply wp_mono; [apply wp_set_allow'|]. cbv beta. intros _ s2 (K21 & K22 & K23).
      eapply wp_mono; [apply wp_remove_psk|]. cbv beta. intros _ s3 (K31 & K32 & K33).
      split; [congruence|]. unfold ind_ok in *. rewrite K32, K33, K22, K23. exact I1. }
  intros _ s1 (R1 & I1).
  eapply wp_mono; [apply wp_simple_token; [rewrite R1; exact Hs|rewrite R1; exact Hn1|lia]|]. cbv beta. intros _ s2 (S2 & L2 & E1 & E2).
  split; [apply (inv_of s1 s2); assumption|]. left. rewrite <- R1. exact L2.
Qed.

(* save_possible_simple_key ;;; set_allow b ;;; t <- scanner ;; push_token t, for a scanner that consumes at least one character *)
Lemma wp_fetch_token (scan : M token) b s : Inv s ->
  (forall s1, rest s1 = rest s -> sent (rest s1) -> wp scan (fun _ s' => advA s1 s' /\ length (rest s') < length (rest s1)) s1) ->
  wp (save_possible_simple_key ;;; set_allow b ;;; t <- scan ;; push_token t) (fun _ s' => PG s s') s.
Proof.
  intros (Hs & Hi) Hscan.
  apply wp_bind. eapply wp_mono; [apply wp_save_psk|]. cbv beta. intros _ s1 (K11 & K12 & K13).
  apply wp_bind. eapply wp_mono; [apply wp_set_allow'|]. cbv beta. intros _ s2 (K21 & K22 & K23).
  assert (R2 : rest s2 = rest s) by congruence. assert (S2 : sent (rest s2)) by (rewrite R2; exact Hs).
  assert (I2 : ind_ok s2) by (unfold ind_ok in *; rewrite K22, K23, K12, K13; exact Hi).
  apply wp_bind. eapply wp_mono; [apply (Hscan s2 R2 S2)|]. cbv beta. intros t s3 (A3 & L3).
  eapply wp_mono; [apply wp_push_token|]. cbv beta. intros _ s4 K4.
  split; [apply (keep_inv s3 s4 K4); split; [apply A3|apply (advA_ind s2 s3 A3 I2)]|]. left. destruct K4 as (K & _). rewrite K, <- R2. exact L3.
Qed.
Lemma adv_strict_A s s' : adv s s' /\ length (rest s') < length (rest s) -> advA s s' /\ length (rest s') < length (rest s).
Proof. intros (A & L). split; [apply adv_advA, A|exact L]. Qed.

Lemma wp_fetch_alias s : Inv s -> nn 1 (rest s) -> wp fetch_alias (fun _ s' => PG s s') s.
Proof.
  intros HI Hn1. apply (wp_fetch_token (scan_anchor true) false s HI). intros s1 R1 S1.
  eapply wp_mono; [apply wp_scan_anchor; [exact S1|rewrite R1; exact Hn1]|]. cbv beta. intros _ s'. apply adv_strict_A.
Qed.
Lemma wp_fetch_anchor s : Inv s -> nn 1 (rest s) -> wp fetch_anchor (fun _ s' => PG s s') s.
Proof.
  intros HI Hn1. apply (wp_fetch_token (scan_anchor false) false s HI). intros s1 R1 S1.
  eapply wp_mono; [apply wp_scan_anchor; [exact S1|rewrite R1; exact Hn1]|]. cbv beta. intros _ s'. apply adv_strict_A.
Qed.
Lemma wp_fetch_tag s : Inv s -> nn 1 (rest s) -> wp fetch_tag (fun _ s' => PG s s') s.
Proof.
  intros HI Hn1. apply (wp_fetch_token scan_tag false s HI). intros s1 R1 S1.
  eapply wp_mono; [apply wp_scan_tag; [exact S1|rewrite R1; exact Hn1]|]. cbv beta. intros _ s'. apply adv_strict_A.
Qed.
Lemma wp_fetch_flow_scalar (double : bool) s : Inv s -> nth_error (rest s) 0 = Some (if double then 34%N else 39%N) -> wp (fetch_flow_scalar double) (fun _ s' => PG s s') s.
Proof.
  intros HI Hq. apply (wp_fetch_token (scan_flow_scalar double) false s HI). intros s1 R1 S1.
  eapply wp_mono; [apply wp_scan_flow_scalar; [exact S1|rewrite R1; exact Hq]|]. cbv beta. intros _ s'. apply adv_strict_A.
Qed.
Lemma wp_fetch_block_scalar folded s : Inv s -> nn 1 (rest s) -> wp (fetch_block_scalar folded) (fun _ s' => PG s s') s.
Proof.
  intros (Hs & Hi) Hn1. unfold fetch_block_scalar.
  apply wp_bind. eapply wp_mono; [apply wp_set_allow'|]. cbv beta. intros _ s1 (K11 & K12 & K13).
  apply wp_bind. eapply wp_mono; [apply wp_remove_psk|]. cbv beta. intros _ s2 (K21 & K22 & K23).
  assert (R2 : rest s2 = rest s) by congruence. assert (S2 : sent (rest s2)) by (rewrite R2; exact Hs).
  assert (I2 : ind_ok s2) by (unfold ind_ok in *; rewrite K22, K23, K12, K13; exact Hi).
  apply wp_bind. eapply wp_mono; [apply wp_scan_block_scalar; [exact S2|rewrite R2; exact Hn1]|]. cbv beta. intros t s3 (A3 & L3).
  eapply wp_mono; [apply wp_push_token|]. cbv beta. intros _ s4 K4.
  split; [apply (keep_inv s3 s4 K4); split; [apply A3|apply (adv_ind s2 s3 A3 I2)]|]. left. destruct K4 as (K & _). rewrite K, <- R2. exact L3.
Qed.

(* ---------- fetch_plain: what check_plain establishes makes scan_plain consume at least one character ---------- *)
Definition cp_pre (fl : bool) (l : str) : Prop :=
  exists c, nth_error l 0 = Some c /\
    (mem c plain_excl = false \/
     (exists c1, nth_error l 1 = Some c1 /\ mem c1 blankz = false /\ (c = 45%N \/ (fl = false /\ mem c [63; 58]%N = true)))).
Lemma excl_facts c : mem c plain_excl = false ->
  mem c blankz = false /\ N.eqb c 58 = false /\ N.eqb c 35 = false /\ mem c [44; 63; 91; 93; 123; 125]%N = false /\ c <> NUL.
Proof.
  intros H. unfold mem, plain_excl, blankz in H. cbn [app existsb] in H. repeat (apply orb_false_iff in H as [? H]).
  assert (Hn : c <> NUL) by (apply N.eqb_neq; assumption).
  unfold mem, blankz. cbn [existsb].
  repeat match goal with E : N.eqb c _ = false |- _ => rewrite E; clear E end. repeat split; try reflexivity. exact Hn.
Qed.
Lemma cp_pre_first fl l c : cp_pre fl l -> nth_error l 0 = Some c ->
  mem c blankz = false /\ N.eqb c 35 = false /\ c <> NUL /\
  (N.eqb c 58 = true -> exists c1, nth_error l 1 = Some c1 /\ mem c1 (blankz ++ (if fl then [44; 91; 93; 123; 125]%N else [])) = false) /\
  (fl && mem c [44; 63; 91; 93; 123; 125]%N = false).
Proof.
  intros (c' & Hc' & H) Hc. assert (c' = c) by congruence. subst c'. destruct H as [H|(c1 & Hc1 & Hb1 & H)].
  - destruct (excl_facts c H) as (A & B & C & D & E). split; [exact A|]. split; [exact C|]. split; [exact E|]. split; [intros X; congruence|].
    rewrite D. apply andb_false_r.
  - destruct H as [->|(-> & H)].
    + repeat split; try reflexivity; try discriminate. apply andb_false_r.
    + assert (Hc2 : c = 63%N \/ c = 58%N).
      { unfold mem in H. cbn [existsb] in H. apply orb_prop in H as [H|H]; [left|right; apply orb_prop in H as [H|H]; [|discriminate H]]; apply N.eqb_eq, H. }
      split; [destruct Hc2 as [->| ->]; reflexivity|]. split; [destruct Hc2 as [->| ->]; reflexivity|]. split; [destruct Hc2 as [->| ->]; discriminate|].
      split; [|reflexivity]. intros _. exists c1. split; [exact Hc1|]. rewrite app_nil_r. exact Hb1.
Qed.
Lemma plain_span_first fl f' s : cp_pre fl (rest s) -> plain_span (S f') fl 0 s = plain_span f' fl 1 s.
Proof.
  intros Hp. pose proof Hp as (c & Hc & _). destruct (cp_pre_first fl _ c Hp Hc) as (Hb & _ & _ & H58 & Hfl).
  cbn [plain_span]. unfold bind at 1. rewrite (peek_ok s 0 c Hc). rewrite Hb.
  destruct (N.eqb c 58) eqn:E58.
  - destruct (H58 eq_refl) as (c1 & Hc1 & Hm1). unfold bind at 1. unfold bind at 1. rewrite (peek_ok s 1 c1 Hc1). unfold ret at 1. rewrite Hm1. rewrite Hfl. reflexivity.
  - unfold bind at 1. unfold ret at 1. rewrite Hfl. reflexivity.
Qed.

Lemma wp_plain_span_first fl f' s : sent (rest s) -> cp_pre fl (rest s) -> length (rest s) - 1 < f' ->
  wp (plain_span (S f') fl 0) (fun m s' => s' = s /\ 1 <= m /\ nn m (rest s)) s.
Proof.
  intros Hs Hp Hf. pose proof Hp as (c & Hc & _). destruct (cp_pre_first fl _ c Hp Hc) as (_ & _ & Hcn & _).
  unfold wp. rewrite (plain_span_first fl f' s Hp). apply (wp_plain_span fl f' 1 s Hs (nn_1 s c Hc Hcn) Hf).
Qed.

Lemma wp_plain_loop_strict : forall f ind chunks spaces e s, sent (rest s) -> length (rest s) <= f ->
  cp_pre (negb (Z.eqb (flow_level s) 0)) (rest s) ->
  wp (plain_loop (S f) ind chunks spaces e) (fun _ s' => advA s s' /\ length (rest s') < length (rest s)) s.
Proof.
  intros f ind chunks spaces e s Hs Hf Hp. pose proof Hp as (c & Hc & _). destruct (cp_pre_first _ _ c Hp Hc) as (Hb & H35 & Hcn & _).
  cbn [plain_loop]. apply wp_bind. apply (wp_peek 0); [exact Hs|apply nn_0|]. intros ch Hch. assert (ch = c) by congruence. subst ch.
  rewrite H35. apply wp_bind. apply wp_flowing. apply wp_bind. apply wp_with_fuel.
  eapply wp_mono; [apply (wp_plain_span_first _ (S (length (rest s))) s Hs Hp); lia|]. cbv beta. intros n ? (-> & Hn1 & Hn).
  destruct n as [|n]; [lia|].
  apply wp_bind. apply wp_set_allow. intros s1 R1 C1. assert (S1 : sent (rest s1)) by (rewrite R1; exact Hs).
  apply wp_bind. apply wp_prefix. apply wp_bind. apply (wp_forward (S n)); [exact S1|rewrite R1; exact Hn|]. intros s2 R2 C2 S2.
  assert (L2 : length (rest s2) < length (rest s)) by (rewrite <- R1; apply (fwd_lt s1 s2 (S n)); [lia|exact S1|rewrite R1; exact Hn|exact R2]).
  assert (A2 : advA s s2).
  { split; [exact S2|split; [|lia]]. unfold ctl in C2. unfold ctlA in *. injection C2 as E1 E2 E3 E4 E5 E6 E7 E8. rewrite <- C1. congruence. }
  apply wp_bind. apply wp_get_mark. apply wp_bind. eapply wp_mono; [apply wp_scan_plain_spaces, S2|]. cbv beta. intros sp s3 A3.
  pose proof A3 as (S3 & _ & L3). assert (A : advA s s3 /\ length (rest s3) < length (rest s)) by (split; [eapply advA_trans; eauto|lia]).
  apply wp_bind. apply wp_get. apply wp_bind. apply (wp_peek 0); [exact S3|apply nn_0|]. intros ch3 _.
  destruct sp as [[|x sp']|]; try (apply wp_ret; exact A).
  destruct (N.eqb ch3 35 || _); [apply wp_ret; exact A|].
  eapply wp_mono; [apply wp_plain_loop; [exact S3|lia]|]. cbv beta. intros _ s' A'. destruct A as (A & L). pose proof A' as (_ & _ & L').
  split; [eapply advA_trans; eauto|lia].
Qed.
Lemma wp_scan_plain_strict s : sent (rest s) -> cp_pre (negb (Z.eqb (flow_level s) 0)) (rest s) ->
  wp scan_plain (fun _ s' => advA s s' /\ length (rest s') < length (rest s)) s.
Proof.
  intros Hs Hp. unfold scan_plain. apply wp_bind. apply wp_get_mark. apply wp_bind. apply wp_get. apply wp_bind. apply wp_with_fuel.
  unfold fuel_of. eapply wp_mono; [apply wp_plain_loop_strict; [exact Hs|lia|exact Hp]|]. cbv beta. intros r s' A. apply wp_ret. exact A.
Qed.
Lemma wp_remove_psk_fl s : wp remove_possible_simple_key (fun _ s' => keep s s' /\ flow_level s' = flow_level s) s.
Proof.
  unfold remove_possible_simple_key. apply wp_bind. apply wp_get.
  destruct (psk_find (flow_level s) (psk s)) as [k|]; [|apply wp_ret; split; [apply keep_refl|reflexivity]]. destruct (k_req k); [apply wp_err|]. repeat split.
Qed.
Lemma wp_save_psk_fl s : wp save_possible_simple_key (fun _ s' => keep s s' /\ flow_level s' = flow_level s) s.
Proof.
  unfold save_possible_simple_key. apply wp_bind. apply wp_get. destruct (allow_sk s); [|apply wp_ret; split; [apply keep_refl|reflexivity]].
  apply wp_bind. eapply wp_mono; [apply wp_remove_psk_fl|]. cbv beta. intros _ s1 (K1 & F1).
  apply wp_bind. apply wp_get. apply wp_bind. apply wp_get_mark. unfold set_psk, wp. cbn. destruct K1 as (A & B & C). repeat split; assumption.
Qed.
Lemma wp_fetch_plain s : Inv s -> cp_pre (negb (Z.eqb (flow_level s) 0)) (rest s) -> wp fetch_plain (fun _ s' => PG s s') s.
Proof.
  intros (Hs & Hi) Hp. unfold fetch_plain.
  apply wp_bind. eapply wp_mono; [apply wp_save_psk_fl|]. cbv beta. intros _ s1 ((K11 & K12 & K13) & F1).
  apply wp_bind. unfold set_allow at 1. unfold wp at 1. cbv beta iota.
  set (s2 := {| rest := rest s1; index := index s1; line := line s1; col := col s1; sdone := sdone s1; flow_level := flow_level s1; tokens := tokens s1;
                taken := taken s1; indent := indent s1; indents := indents s1; allow_sk := false; psk := psk s1 |}).
  assert (R2 : rest s2 = rest s) by exact K11. assert (S2 : sent (rest s2)) by (rewrite R2; exact Hs).
  assert (I2 : ind_ok s2) by (unfold ind_ok in *; cbn [indents indent s2]; rewrite K12, K13; exact Hi).
  assert (P2 : cp_pre (negb (Z.eqb (flow_level s2) 0)) (rest s2)) by (rewrite R2; cbn [flow_level s2]; rewrite F1; exact Hp).
  apply wp_bind. eapply wp_mono; [apply (wp_scan_plain_strict s2 S2 P2)|]. cbv beta. intros t s3 (A3 & L3).
  eapply wp_mono; [apply wp_push_token|]. cbv beta. intros _ s4 K4.
  split; [apply (keep_inv s3 s4 K4); split; [apply A3|apply (advA_ind s2 s3 A3 I2)]|]. left. destruct K4 as (K & _). rewrite K, <- R2. exact L3.
Qed.

(* ---------- the checkers ---------- *)
Lemma wp_check_doc (c : cp) s : sent (rest s) -> c <> NUL -> wp (check_doc c) (fun b s' => s' = s /\ (b = true -> nn 3 (rest s))) s.
Proof.
  intros Hs Hc. unfold check_doc. apply wp_bind. apply wp_get. destruct (Nat.eqb (col s) 0).
  2:{ apply wp_ret. cbv beta. split; [reflexivity|discriminate]. }
  apply wp_bind. apply wp_prefix. cbv beta. destruct (str_eqb (firstn 3 (rest s)) [c; c; c]) eqn:E.
  2:{ apply wp_ret. cbv beta. split; [reflexivity|discriminate]. }
  apply str_eqb_eq in E. destruct (firstn3 _ _ _ _ E) as (r & Er).
  assert (Hn : nn 3 (rest s)) by (rewrite Er; intros i Hi; destruct i as [|[|[|i]]]; try lia; exists c; (split; [reflexivity|exact Hc])).
  apply wp_bind. apply (wp_peek 3); [exact Hs|exact Hn|]. intros c3 _. apply wp_ret. cbv beta. split; [reflexivity|intros _; exact Hn].
Qed.
Lemma wp_next_blank s : sent (rest s) -> nn 1 (rest s) -> wp next_blank (fun _ s' => s' = s) s.
Proof. intros Hs Hn. unfold next_blank. apply wp_bind. apply (wp_peek 1); [exact Hs|exact Hn|]. intros c _. apply wp_ret. cbv beta. reflexivity. Qed.
Lemma wp_check_plain s : sent (rest s) -> nn 1 (rest s) ->
  wp check_plain (fun b s' => s' = s /\ (b = true -> cp_pre (negb (Z.eqb (flow_level s) 0)) (rest s))) s.
Proof.
  intros Hs Hn. unfold check_plain. apply wp_bind. apply (wp_peek 0); [exact Hs|apply nn_0|]. intros ch Hch.
  destruct (negb (mem ch plain_excl)) eqn:E.
  - apply negb_true_iff in E. apply wp_ret. cbv beta. split; [reflexivity|]. intros _. exists ch. split; [exact Hch|left; exact E].
  - apply wp_bind. apply (wp_peek 1); [exact Hs|exact Hn|]. intros c1 Hc1. apply wp_bind. apply wp_flowing. apply wp_ret. cbv beta. split; [reflexivity|].
    intros H. apply andb_prop in H as [H1 H2]. apply negb_true_iff in H1. exists ch. split; [exact Hch|]. right. exists c1. split; [exact Hc1|]. split; [exact H1|].
    apply orb_prop in H2 as [H2|H2]; [left; apply N.eqb_eq, H2|]. right. apply andb_prop in H2 as [H2 H3]. apply negb_true_iff in H2.
    split; [|exact H3]. destruct (negb (Z.eqb (flow_level s) 0)); [discriminate H2|reflexivity].
Qed.

(* ---------- fetch_more_tokens ---------- *)
Require PlainDispatch.

Lemma wp_dispatch s : Inv s -> wp PlainDispatch.dispatch (fun _ s' => PG s s') s.
Proof.
  intros HI. pose proof HI as (Hs & Hi). unfold PlainDispatch.dispatch.
  apply wp_bind. apply (wp_peek 0); [exact Hs|apply nn_0|]. intros c Hc.
  apply wp_bind. apply wp_flowing. apply wp_bind. apply wp_get.
  set (fl := negb (Z.eqb (flow_level s) 0)).
  destruct (N.eqb c NUL) eqn:E0; [apply wp_fetch_stream_end, HI|].
  assert (Hcn : c <> NUL) by (apply N.eqb_neq; exact E0).
  assert (Hn1 : nn 1 (rest s)) by exact (nn_1 s c Hc Hcn).
  destruct (N.eqb c 37 && Nat.eqb (col s) 0); [apply wp_fetch_directive; assumption|].
  apply wp_bind. apply (wp_mono _ (fun b s1 => s1 = s /\ (b = true -> nn 3 (rest s)))).
  { destruct (N.eqb c 45); [apply wp_check_doc; [exact Hs|discriminate]|apply wp_ret; cbv beta; split; [reflexivity|discriminate]]. }
  intros ds ? (-> & Hds). destruct ds; [apply wp_fetch_document_indicator; [exact HI|apply Hds; reflexivity]|]. clear Hds.
  apply wp_bind. apply (wp_mono _ (fun b s1 => s1 = s /\ (b = true -> nn 3 (rest s)))).
  { destruct (N.eqb c 46); [apply wp_check_doc; [exact Hs|discriminate]|apply wp_ret; cbv beta; split; [reflexivity|discriminate]]. }
  intros de ? (-> & Hde). destruct de; [apply wp_fetch_document_indicator; [exact HI|apply Hde; reflexivity]|]. clear Hde.
  destruct (N.eqb c 91); [apply wp_fetch_flow_collection_start; assumption|].
  destruct (N.eqb c 123); [apply wp_fetch_flow_collection_start; assumption|].
  destruct (N.eqb c 93); [apply wp_fetch_flow_collection_end; assumption|].
  destruct (N.eqb c 125); [apply wp_fetch_flow_collection_end; assumption|].
  destruct (N.eqb c 44); [apply wp_fetch_flow_entry; assumption|].
  apply wp_bind. apply (wp_mono _ (fun _ s1 => s1 = s)).
  { destruct (N.eqb c 45); [apply wp_next_blank; assumption|apply wp_ret; reflexivity]. }
  intros be ? ->. destruct be; [apply wp_fetch_block_entry; assumption|].
  apply wp_bind. apply (wp_mono _ (fun _ s1 => s1 = s)).
  { destruct (N.eqb c 63); [|apply wp_ret; reflexivity]. destruct fl; [apply wp_ret; reflexivity|apply wp_next_blank; assumption]. }
  intros ke ? ->. destruct ke; [apply wp_fetch_key; assumption|].
  apply wp_bind. apply (wp_mono _ (fun _ s1 => s1 = s)).
  { destruct (N.eqb c 58); [|apply wp_ret; reflexivity]. destruct fl; [apply wp_ret; reflexivity|apply wp_next_blank; assumption]. }
  intros va ? ->. destruct va; [apply wp_fetch_value; assumption|].
  destruct (N.eqb c 42); [apply wp_fetch_alias; assumption|].
  destruct (N.eqb c 38); [apply wp_fetch_anchor; assumption|].
  destruct (N.eqb c 33); [apply wp_fetch_tag; assumption|].
  destruct (N.eqb c 124 && negb fl); [apply wp_fetch_block_scalar; assumption|].
  destruct (N.eqb c 62 && negb fl); [apply wp_fetch_block_scalar; assumption|].
  destruct (N.eqb c 39) eqn:E39; [apply N.eqb_eq in E39; subst c; apply (wp_fetch_flow_scalar false); assumption|].
  destruct (N.eqb c 34) eqn:E34; [apply N.eqb_eq in E34; subst c; apply (wp_fetch_flow_scalar true); assumption|].
  apply wp_bind. eapply wp_mono; [apply wp_check_plain; assumption|]. cbv beta. intros pl ? (-> & Hpl).
  destruct pl; [apply wp_fetch_plain; [exact HI|apply Hpl; reflexivity]|apply wp_err].
Qed.

Lemma wp_fetch_more_tokens s : Inv s -> wp fetch_more_tokens (fun _ s' => PG s s') s.
Proof.
  intros (Hs & Hi). unfold wp. rewrite PlainDispatch.fetch_more_tokens_eq.
  change (wp (scan_to_next_token ;;; stale_possible_simple_keys ;;; (s0 <- get ;; unwind_indent (Z.of_nat (col s0)) ;;; PlainDispatch.dispatch)) (fun _ s' => PG s s') s).
  apply wp_bind. eapply wp_mono; [apply wp_scan_to_next_token, Hs|]. cbv beta. intros _ s1 A1. pose proof A1 as (S1 & _ & L1).
  pose proof (advA_ind s s1 A1 Hi) as I1.
  apply wp_bind. eapply wp_mono; [apply wp_stale|]. cbv beta. intros _ s2 (K21 & K22 & K23).
  assert (I2 : ind_ok s2) by (unfold ind_ok in *; rewrite K22, K23; exact I1).
  apply wp_bind. apply wp_get. apply wp_bind. eapply wp_mono; [apply wp_unwind_indent; [lia|exact I2]|]. cbv beta. intros _ s3 (R3 & I3).
  assert (HI3 : Inv s3) by (split; [rewrite R3, K21; exact S1|exact I3]).
  eapply wp_mono; [apply wp_dispatch, HI3|]. cbv beta. intros _ s' (HI' & Hp). split; [exact HI'|].
  rewrite R3, K21 in Hp. destruct Hp as [Hp|Hp]; [left; lia|right; exact Hp].
Qed.

(* ---------- the token loop ---------- *)
Lemma wp_need_more_tokens s : wp need_more_tokens (fun b s' => keep s s' /\ sdone s' = sdone s /\ (b = true -> sdone s = false)) s.
Proof.
  unfold need_more_tokens. apply wp_bind. apply wp_get. destruct (sdone s) eqn:Ed.
  - apply wp_ret. cbv beta. split; [apply keep_refl|]. split; [exact Ed|discriminate].
  - destruct (tokens s); [apply wp_ret; cbv beta; split; [apply keep_refl|split; [exact Ed|auto]]|].
    apply wp_bind. apply (wp_mono _ (fun _ s1 => keep s s1 /\ sdone s1 = sdone s)).
    { unfold stale_possible_simple_keys. apply wp_bind. apply wp_get. generalize (psk s). intros keys. revert s Ed.
      induction keys as [|[z k] keys IH]; intros s Ed; [apply wp_ret; cbv beta; split; [apply keep_refl|reflexivity]|].
      cbn [stale_loop]. apply wp_bind. apply wp_get. destruct (negb (Nat.eqb (k_line k) (line s)) || _); [|apply IH, Ed].
      destruct (k_req k); [apply wp_err|]. apply wp_bind. unfold set_psk at 1. unfold wp at 1. cbv beta iota.
      eapply wp_mono; [apply IH; exact Ed|]. cbv beta. intros _ s2 (K & D). split; [exact K|exact D]. }
    intros _ s1 (K1 & D1). apply wp_bind. apply wp_get. apply wp_ret. cbv beta. split; [exact K1|]. split; [congruence|]. intros _. reflexivity.
Qed.

(* fill: the work done for one token request - it never crashes and never runs out of its fuel *)
Definition mu (s : st) : nat := if sdone s then 1 else length (rest s) + 1.
Lemma wp_fill : forall fuel s, Inv s -> mu s <= fuel -> wp (fill fuel) (fun _ s' => Inv s') s.
Proof.
  induction fuel as [|f IH]; intros s HI Hf.
  - unfold mu in Hf. destruct (sdone s); lia.
  - cbn [fill]. apply wp_bind. eapply wp_mono; [apply wp_need_more_tokens|]. cbv beta. intros b s1 (K1 & D1 & Hb).
    pose proof (keep_inv s s1 K1 HI) as HI1. destruct b; [|apply wp_ret; exact HI1].
    specialize (Hb eq_refl). apply wp_bind. eapply wp_mono; [apply wp_fetch_more_tokens, HI1|]. cbv beta. intros _ s2 (HI2 & Hp).
    apply IH; [exact HI2|]. destruct K1 as (R1 & _). unfold mu in *. rewrite Hb in Hf. rewrite R1 in Hp.
    destruct HI2 as (S2 & _). destruct (sent_ne _ S2) as (c & r & E2). destruct (sdone s2) eqn:D2.
    + pose proof HI as (S0 & _). destruct (sent_ne _ S0) as (c0 & r0 & E0). rewrite E0 in Hf. cbn [length] in Hf. lia.
    + destruct Hp as [Hp|Hp]; [lia|congruence].
Qed.
Theorem fill_never_crashes s : Inv s -> wp (fill (S (S (length (rest s))))) (fun _ s' => Inv s') s.
Proof. intros HI. apply wp_fill; [exact HI|]. unfold mu. destruct (sdone s); lia. Qed.

Lemma init_inv text : ~ In NUL text -> Inv (init text).
Proof.
  intros Hn. split; [|reflexivity]. cbn [init rest]. induction text as [|c t IH]; [reflexivity|].
  assert (Hc : c <> NUL) by (intros ->; apply Hn; left; reflexivity).
  assert (Ht : ~ In NUL t) by (intros H; apply Hn; right; exact H).
  destruct t as [|d t']; [split; [exact Hc|reflexivity]|]. split; [exact Hc|]. exact (IH Ht).
Qed.

(* yaml.scan on ANY text without NUL (a text with NUL never reaches the scanner: the reader rejects it), with any token budget: the run ends with the
   tokens, a ScannerError, the budget exhausted, or the ValueError of a %YAML version of more than 4300 digits - never an IndexError or OverflowError *)
Lemma scan_loop_safe : forall fuel acc s, Inv s -> match snd (scan_loop fuel acc s) with Crash e => okc e | _ => True end.
Proof.
  induction fuel as [|f IH]; intros acc s HI; [exact I|].
  cbn [scan_loop]. pose proof (fill_never_crashes s HI) as H1. unfold wp in H1.
  destruct (fill (S (S (length (rest s)))) s) as [[u s1]|? ? ?|e|]; cbn [snd]; try exact I; [|exact H1].
  destruct (tokens s1); [exact I|].
  pose proof (fill_never_crashes s1 H1) as H2. unfold wp in H2.
  destruct (fill (S (S (length (rest s1)))) s1) as [[u2 s2]|? ? ?|e|]; cbn [snd]; try exact I; [|exact H2].
  destruct (tokens s2) as [|t0 ts]; [exact I|]. apply IH. destruct H2 as (A & B). split; [exact A|exact B].
Qed.
Lemma okc_value (r : res unit) : match r with Crash e => okc e | _ => True end -> match r with Crash e => e = ValueError | _ => True end.
Proof. destruct r as [u|c0 e0 p0|x|]; auto. destruct x; intros H; try contradiction H; reflexivity. Qed.
Theorem scanner_never_crashes : forall text, ~ In NUL text ->
  match snd (scan_all text) with Crash e => e = ValueError | _ => True end.
Proof.
  intros text Hn. apply okc_value. exact (scan_loop_safe (2 * length text + 8) [] (init text) (init_inv text Hn)).
Qed.
