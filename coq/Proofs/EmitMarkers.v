(* C12 / C15: every document that is not written implicitly gets its `---` marker - in particular every document with explicit_start, every document
   after the first, every document in canonical form and every document with a %YAML or %TAG directive. *)
From Coq Require Import List NArith ZArith Bool Arith Lia.
Import ListNotations.
Require Import Emit EmitGrows.

(* the computation writes the chunk c (and whatever it writes, it only appends) *)
Definition writes {A} (c : str) (m : M A) : Prop :=
  forall s, match m s with Ok (_, s') => exists post pre, out s' = post ++ c :: pre /\ extends (out s) pre | _ => True end.
Lemma writes_bind_l {A B} c (m : M A) (k : A -> M B) : writes c m -> (forall a, grows (k a)) -> writes c (bind m k).
Proof.
  intros Hm Hk s. unfold bind. specialize (Hm s). destruct (m s) as [[a s1]|? ?|? ?|]; auto. destruct Hm as (post & pre & E & X).
  specialize (Hk a s1). destruct (k a s1) as [[b s2]|? ?|? ?|]; auto. destruct Hk as [d Hd]. exists (d ++ post), pre. rewrite Hd, E, app_assoc. auto.
Qed.
Lemma writes_bind_r {A B} c (m : M A) (k : A -> M B) : grows m -> (forall a, writes c (k a)) -> writes c (bind m k).
Proof.
  intros Hm Hk s. unfold bind. specialize (Hm s). destruct (m s) as [[a s1]|? ?|? ?|]; auto.
  specialize (Hk a s1). destruct (k a s1) as [[b s2]|? ?|? ?|]; auto. destruct Hk as (post & pre & E & X). exists post, pre. split; [exact E|]. eapply extends_trans; eauto.
Qed.

(* write_indent leaves the emitter "at whitespace" *)
Lemma write_indent_ws s s' : write_indent s = Ok (tt, s') -> whitespace s' = true.
Proof.
  intros H. unfold write_indent, bind, get in H. set (ind := match indent s with Some i => i | None => 0 end) in *.
  destruct (negb (indention s) || Nat.ltb ind (column s) || (Nat.eqb (column s) ind && negb (whitespace s))) eqn:Eb.
  - cbn in H. clearbody ind. destruct ind as [|k]; cbn in H; injection H as <-; reflexivity.
  - cbn in H. apply orb_false_iff in Eb as [Eb E3]. apply orb_false_iff in Eb as [_ E2]. apply Nat.ltb_ge in E2.
    clearbody ind. destruct ind as [|m].
    + cbn in H. injection H as <-. apply andb_false_iff in E3 as [E3|E3]; [apply Nat.eqb_neq in E3; lia|apply negb_false_iff in E3; exact E3].
    + destruct (Nat.leb (column s) m) eqn:E0; cbn in H; injection H as <-; [reflexivity|].
      apply Nat.leb_gt in E0. apply andb_false_iff in E3 as [E3|E3]; [apply Nat.eqb_neq in E3; lia|apply negb_false_iff in E3; exact E3].
Qed.
(* write_indent and then an indicator that wants whitespace before it: the indicator is written as it is, as one chunk *)
Lemma writes_indent_indicator ind ws indn : writes ind (write_indent ;;; write_indicator ind true ws indn).
Proof.
  intros s. unfold bind at 1. pose proof (grows_write_indent s) as G. destruct (write_indent s) as [[[] s1]|? ?|? ?|] eqn:E; auto.
  pose proof (write_indent_ws s s1 E) as W. unfold write_indicator, bind, get. rewrite W. cbn. exists [], (out s1). split; [reflexivity|exact G].
Qed.

Lemma writes_indent_indicator_then {B} ind ws indn (k : M B) : grows k -> writes ind (write_indent ;;; write_indicator ind true ws indn ;;; k).
Proof.
  intros Hk s. unfold bind at 1. pose proof (grows_write_indent s) as G. destruct (write_indent s) as [[[] s1]|? ?|? ?|] eqn:E; auto.
  pose proof (write_indent_ws s s1 E) as W. unfold bind at 1. unfold write_indicator at 1. unfold bind at 1, get at 1. rewrite W. cbn [orb].
  unfold bind at 1. unfold modify at 1. unfold write at 1, modify at 1.
  match goal with |- match k ?s2 with _ => _ end => specialize (Hk s2); destruct (k s2) as [[b s3]|? ?|? ?|]; auto; cbn [out with_out] in Hk end.
  destruct Hk as [d Hd]. exists d, (out s1). split; [rewrite Hd; reflexivity|exact G].
Qed.

(* every document start that is explicit, or not the first of the stream, or carries a %YAML or %TAG directive, writes the chunk `---` (after an
   indentation step, as a chunk of its own) - whatever else it writes, and whatever the emitter state *)
Theorem explicit_documents_get_their_marker : forall first explicit version tags s,
  cur_ev s = Some (EDocStart explicit version tags) ->
  (explicit = true \/ first = false \/ version <> None \/ tags <> []) ->
  match expect_document_start first s with
  | Ok (_, s') => exists post pre, out s' = post ++ [45; 45; 45]%N :: pre /\ extends (out s) pre
  | _ => True end.
Proof.
  intros first explicit version tags s Hc Hx.
  assert (Hi : forall c ed, first && negb explicit && negb c && negb (match version with Some _ => true | None => false end) &&
                            negb (match tags with [] => false | _ => true end) && negb ed = false).
  { intros c ed. destruct Hx as [->|[->|[Hv|Ht]]]; [destruct first; reflexivity|reflexivity| |].
    - destruct version; [|congruence]. destruct first, explicit, c; reflexivity.
    - destruct tags; [congruence|]. destruct first, explicit, c, version; reflexivity. }
  unfold expect_document_start. unfold bind at 1. unfold cur. unfold bind at 1, get at 1. rewrite Hc. unfold ret at 1.
  match goal with |- match ?m s with _ => _ end => assert (W : writes [45; 45; 45]%N m); [|exact (W s)] end.
  apply writes_bind_r; [gr|]. intros s0. cbv zeta.
  apply writes_bind_r; [gr|]. intros _. apply writes_bind_r; [gr|]. intros _. apply writes_bind_r; [gr|]. intros _.
  apply writes_bind_r; [gr|]. intros _. apply writes_bind_r; [gr|]. intros ed. apply writes_bind_r; [gr|]. intros s1.
  rewrite Hi. cbn [negb]. apply writes_bind_l; [|intros; gr]. apply writes_indent_indicator_then. gr.
Qed.

Lemma bind_assoc_ext {A B C} (a : M A) (b : A -> M B) (k : B -> M C) s : bind (bind a b) k s = bind a (fun x => bind (b x) k) s.
Proof. unfold bind. destruct (a s) as [[x s1]|? ?|? ?|]; reflexivity. Qed.
Lemma bind_ext {A B} (a : M A) (f g : A -> M B) s : (forall x s1, f x s1 = g x s1) -> bind a f s = bind a g s.
Proof. intros H. unfold bind. destruct (a s) as [[x s1]|? ?|? ?|]; auto. Qed.
Lemma writes_indent_indicator_then2 {B C} ind ws indn (k1 : M B) (k2 : M C) : grows k1 -> grows k2 ->
  writes ind (write_indent ;;; (write_indicator ind true ws indn ;;; k1) ;;; k2).
Proof.
  intros H1 H2 s.
  assert (E : (write_indent ;;; (write_indicator ind true ws indn ;;; k1) ;;; k2) s = (write_indent ;;; write_indicator ind true ws indn ;;; (k1 ;;; k2)) s).
  { apply bind_ext. intros x s1. apply (bind_assoc_ext (write_indicator ind true ws indn) (fun _ => k1) (fun _ => k2)). }
  rewrite E. apply (writes_indent_indicator_then ind ws indn (k1 ;;; k2)). gr.
Qed.

(* explicit_end: the end of a document whose DocumentEndEvent is explicit writes the chunk `...` *)
Theorem explicit_document_end_gets_its_marker : forall s, state s = XDocEnd -> cur_ev s = Some (EDocEnd true) ->
  match step s with
  | Ok (_, s') => exists post pre, out s' = post ++ [46; 46; 46]%N :: pre /\ extends (out s) pre
  | _ => True end.
Proof.
  intros s Hst Hc. unfold step. unfold bind at 1, get at 1. unfold bind at 1. unfold cur. unfold bind at 1, get at 1. rewrite Hc. unfold ret at 1. rewrite Hst.
  match goal with |- match ?m s with _ => _ end => assert (W : writes [46; 46; 46]%N m); [|exact (W s)] end.
  apply writes_indent_indicator_then2; gr.
Qed.

(* version: a document start with a %YAML 1.x version writes the directive chunk `%YAML 1.x` (any other major version is an EmitterError) *)
Theorem version_directive_is_written : forall first explicit mi tags s,
  cur_ev s = Some (EDocStart explicit (Some (1%N, mi)) tags) ->
  match expect_document_start first s with
  | Ok (_, s') => exists post pre, out s' = post ++ ([37; 89; 65; 77; 76; 32]%N ++ dec 1 ++ [46%N] ++ dec mi) :: pre /\ extends (out s) pre
  | _ => True end.
Proof.
  intros first explicit mi tags s Hc.
  unfold expect_document_start. unfold bind at 1. unfold cur. unfold bind at 1, get at 1. rewrite Hc. unfold ret at 1.
  match goal with |- match ?m s with _ => _ end => assert (W : writes ([37; 89; 65; 77; 76; 32]%N ++ dec 1 ++ [46%N] ++ dec mi) m); [|exact (W s)] end.
  apply writes_bind_r; [gr|]. intros s0. cbv zeta. apply writes_bind_r; [gr|]. intros _.
  apply writes_bind_l; [|intros; gr]. cbn [N.eqb Pos.eqb negb]. unfold write_version_directive.
  apply writes_bind_l; [|intros; gr]. intros s1. unfold write, modify. cbn. exists [], (out s1). split; [reflexivity|apply extends_refl].
Qed.

(* canonical form: every scalar is written double-quoted, whatever its text, its requested style and the context *)
Theorem canonical_scalars_are_double_quoted : forall impl0 v style s, canonical s = true ->
  exists s', choose_scalar_style impl0 v style s = Ok (ChDouble, s') /\ canonical s' = true /\ out s' = out s.
Proof.
  intros impl0 v style s Hc. unfold choose_scalar_style, bind. unfold get_analysis, bind, get.
  destruct (anal s) as [a|] eqn:Ea; cbn; rewrite ?Hc, ?orb_true_r; eexists; (split; [reflexivity|split; [try exact Hc; reflexivity|reflexivity]]).
Qed.
