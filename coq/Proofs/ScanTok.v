(* C09: every token the scanner delivers starts before it ends (the index of its start mark is at most the index of its end mark). *)
From Coq Require Import List NArith ZArith Bool Arith Lia.
Import ListNotations.
Require Import Scan ScanMonoGen ScanTokGen.

(* the result of a computation started at or after position lo *)
Definition resR {A} (lo : nat) (R : A -> Prop) (m : M A) : Prop := forall s a s', lo <= index s -> m s = Ok (a, s') -> R a.
Lemma resR_bind {A B} lo (R1 : A -> Prop) (R2 : B -> Prop) (m : M A) (k : A -> M B) :
  mono m -> resR lo R1 m -> (forall a, R1 a -> resR lo R2 (k a)) -> resR lo R2 (bind m k).
Proof.
  intros Hm H1 Hk s b s' Hlo H. unfold bind in H. destruct (m s) as [[a s1]|? ? ?|?|] eqn:E; try discriminate.
  pose proof (Hm s a s1 E). exact (Hk a (H1 s a s1 Hlo E) s1 b s' ltac:(lia) H).
Qed.
Lemma resR_bind0 {A B} lo (R2 : B -> Prop) (m : M A) (k : A -> M B) : mono m -> (forall a, resR lo R2 (k a)) -> resR lo R2 (bind m k).
Proof. intros Hm Hk. apply (resR_bind lo (fun _ => True)); [exact Hm|intros s a s' _ _; exact I|intros a _; apply Hk]. Qed.
Lemma resR_mark lo : resR lo (fun e => lo <= m_index e) get_mark.
Proof. intros s a s' Hlo H. injection H as <- _. exact Hlo. Qed.
Lemma resR_ret {A} lo (R : A -> Prop) (a : A) : R a -> resR lo R (ret a).
Proof. intros H s a' s' _ E. injection E as <- _. exact H. Qed.
Lemma resR_err {A} lo (R : A -> Prop) c code : resR lo R (@err A c code).
Proof. intros s a s' _ E. discriminate E. Qed.
Lemma resR_with_fuel {A} lo (R : A -> Prop) (k : nat -> M A) : (forall f, resR lo R (k f)) -> resR lo R (with_fuel k).
Proof. intros H. unfold with_fuel. apply resR_bind0; [apply mo_get|]. intros s0. apply H. Qed.

Ltac rr1 :=
  match goal with
  | |- resR ?lo _ (bind get_mark _) => apply (resR_bind lo (fun e => lo <= m_index e)); [apply mo_get_mark|apply resR_mark|intros ? ?]
  | |- resR _ _ (bind _ _) => apply resR_bind0; [solve [mo]|intros]
  | |- resR _ _ (ret _) => apply resR_ret; cbn [snd fst t_start t_end]; solve [assumption | split; [reflexivity|assumption] | lia]
  | |- resR _ _ (err _ _) => apply resR_err
  | |- resR _ _ (with_fuel _) => apply resR_with_fuel; intros
  | |- resR _ _ (let '(_, _) := ?x in _) => destruct x
  | |- resR _ _ (if ?c then _ else _) => destruct c
  | |- resR _ _ (match ?x with _ => _ end) => destruct x
  end.
Ltac rr := repeat rr1.

(* ---------- the loops that hand back an end mark ---------- *)
Definition mk_ok {A} (lo : nat) (r : A * mark) : Prop := lo <= m_index (snd r).
Lemma rr_plain_loop lo : forall fuel ind chunks spaces e, lo <= m_index e -> resR lo (mk_ok lo) (plain_loop fuel ind chunks spaces e).
Proof.
  induction fuel as [|f IH]; intros ind chunks spaces e He; [intros s a s' _ H; discriminate H|].
  cbn [plain_loop]. unfold mk_ok in *. rr. apply IH. assumption.
Qed.
Lemma rr_bs_indentation_loop lo : forall fuel chunks mx e, lo <= m_index e -> resR lo (mk_ok lo) (bs_indentation_loop fuel chunks mx e).
Proof.
  induction fuel as [|f IH]; intros chunks mx e He; [intros s a s' _ H; discriminate H|].
  cbn [bs_indentation_loop]. unfold mk_ok in *. rr; apply IH; assumption.
Qed.
Lemma rr_bs_breaks_loop lo ind : forall fuel chunks e, lo <= m_index e -> resR lo (mk_ok lo) (bs_breaks_loop fuel ind chunks e).
Proof.
  induction fuel as [|f IH]; intros chunks e He; [intros s a s' _ H; discriminate H|].
  cbn [bs_breaks_loop]. unfold mk_ok in *. rr. apply IH. assumption.
Qed.
Lemma rr_scan_block_scalar_breaks lo ind : resR lo (mk_ok lo) (scan_block_scalar_breaks ind).
Proof. unfold scan_block_scalar_breaks. rr. apply rr_bs_breaks_loop. assumption. Qed.
Ltac rr2 :=
  match goal with
  | |- resR ?lo _ (bind (scan_block_scalar_breaks _) _) =>
      apply (resR_bind lo (mk_ok lo)); [solve [mo]|apply rr_scan_block_scalar_breaks|let b := fresh "brks" in let e := fresh "e" in let H := fresh "He" in intros [b e] H; unfold mk_ok in H; cbn [snd] in H]
  | _ => rr1
  end.
Ltac rrb := repeat rr2.
Lemma rr_bs_body_loop lo folded ind : forall fuel chunks brks e, resR lo (mk_ok lo) (bs_body_loop fuel folded ind chunks brks e).
Proof.
  induction fuel as [|f IH]; intros chunks brks e; [intros s a s' _ H; discriminate H|].
  cbn [bs_body_loop]. unfold mk_ok in *. rrb. apply IH.
Qed.

(* ---------- the token scanners: the token starts where the scanner was entered and ends at or after that position ---------- *)
Definition tok_from (lo : nat) (start : mark) (t : token) : Prop := t_start t = start /\ lo <= m_index (t_end t).
Lemma tok_from_ok lo start t : m_index start = lo -> tok_from lo start t -> tokok t.
Proof. intros E (A & B). unfold tokok. rewrite A, E. exact B. Qed.
Lemma entered (body : mark -> M token) :
  (forall lo start, m_index start = lo -> resR lo (tok_from lo start) (body start)) ->
  forall s t s', (start <- get_mark ;; body start) s = Ok (t, s') -> tokok t.
Proof.
  intros H s t s' E. unfold bind, get_mark in E.
  set (st0 := {| m_index := index s; m_line := line s; m_col := col s |}) in *.
  assert (E0 : m_index st0 = index s) by reflexivity.
  exact (tok_from_ok (index s) st0 t E0 (H (index s) st0 E0 s t s' (le_n _) E)).
Qed.

Lemma tk_scan_anchor b s t s' : scan_anchor b s = Ok (t, s') -> tokok t.
Proof.
  apply entered. intros lo start E. unfold tok_from. rr.
Qed.
Lemma tk_scan_directive s t s' : scan_directive s = Ok (t, s') -> tokok t.
Proof.
  apply entered. intros lo start E. unfold tok_from.
  apply resR_bind0; [mo|]. intros _. apply resR_bind0; [mo|]. intros name.
  apply (resR_bind lo (mk_ok lo)); [mo| |intros [v e] He; unfold mk_ok in He; cbn [snd] in He; rr].
  unfold mk_ok. rr.
Qed.
Lemma tk_scan_tag s t s' : scan_tag s = Ok (t, s') -> tokok t.
Proof.
  apply entered. intros lo start E. unfold tok_from. rr.
Qed.
Lemma tk_scan_flow_scalar b s t s' : scan_flow_scalar b s = Ok (t, s') -> tokok t.
Proof.
  apply entered. intros lo start E. unfold tok_from. rr.
Qed.
Lemma tk_scan_plain s t s' : scan_plain s = Ok (t, s') -> tokok t.
Proof.
  apply entered. intros lo start E. unfold tok_from.
  apply resR_bind0; [mo|]. intros s0. apply (resR_bind lo (mk_ok lo)); [mo| |intros [c e] He; unfold mk_ok in He; cbn [snd] in He; rr].
  apply resR_with_fuel. intros f. apply rr_plain_loop. lia.
Qed.
Lemma tk_scan_block_scalar b s t s' : scan_block_scalar b s = Ok (t, s') -> tokok t.
Proof.
  apply entered. intros lo start E. unfold tok_from.
  apply resR_bind0; [mo|]. intros _. apply resR_bind0; [mo|]. intros [chomping increment]. apply resR_bind0; [mo|]. intros _. apply resR_bind0; [mo|]. intros s0.
  apply (resR_bind lo (fun r : list str * mark * nat => lo <= m_index (snd (fst r)))); [mo| |].
  { destruct increment as [inc|].
    - apply (resR_bind lo (mk_ok lo)); [mo|apply rr_scan_block_scalar_breaks|]. intros [x e] He. unfold mk_ok in He. cbn [snd] in He. apply resR_ret. exact He.
    - apply (resR_bind lo (mk_ok lo)); [mo| |intros [[brks mx] e] He; unfold mk_ok in He; cbn [snd] in He; apply resR_ret; exact He].
      apply resR_with_fuel. intros f. rr. apply rr_bs_indentation_loop. assumption. }
  intros [[brks e] ind] He. cbn [fst snd] in He. apply resR_bind0; [mo|]. intros s1. apply resR_bind0; [mo|]. intros ch.
  apply (resR_bind lo (mk_ok lo)); [mo| |intros [[[chunks lb] brks'] e'] He'; unfold mk_ok in He'; cbn [snd] in He'; rr].
  destruct (Nat.eqb (col s1) ind && negb (N.eqb ch NUL)); [apply resR_with_fuel; intros f; apply rr_bs_body_loop|apply resR_ret; exact He].
Qed.

(* ---------- fetchers, the token loop ---------- *)
Lemma kt_bind_tok {B} (m : M token) (k : token -> M B) : keepsT m -> (forall s t s', m s = Ok (t, s') -> tokok t) -> (forall t, tokok t -> keepsT (k t)) -> keepsT (bind m k).
Proof.
  intros Hm Hr Hk s Hs. unfold bind. specialize (Hm s Hs). destruct (m s) as [[a s1]|? ? ?|?|] eqn:E; auto. exact (Hk a (Hr s a s1 E) s1 Hm).
Qed.
Ltac push_fetch L := apply kt_bind; [kt|]; intros; apply kt_bind; [kt|]; intros; apply kt_bind_tok; [kt|apply L|intros t Ht; apply kt_push; exact Ht].
Lemma kt_fetch_alias : keepsT fetch_alias. Proof. unfold fetch_alias. push_fetch tk_scan_anchor. Qed.
Lemma kt_fetch_anchor : keepsT fetch_anchor. Proof. unfold fetch_anchor. push_fetch tk_scan_anchor. Qed.
Lemma kt_fetch_tag : keepsT fetch_tag. Proof. unfold fetch_tag. push_fetch tk_scan_tag. Qed.
Lemma kt_fetch_flow_scalar b : keepsT (fetch_flow_scalar b). Proof. unfold fetch_flow_scalar. push_fetch tk_scan_flow_scalar. Qed.
Lemma kt_fetch_plain : keepsT fetch_plain. Proof. unfold fetch_plain. push_fetch tk_scan_plain. Qed.
Lemma kt_fetch_block_scalar b : keepsT (fetch_block_scalar b). Proof. unfold fetch_block_scalar. push_fetch tk_scan_block_scalar. Qed.
Lemma kt_fetch_directive : keepsT fetch_directive.
Proof. unfold fetch_directive. apply kt_bind; [kt|]; intros. push_fetch tk_scan_directive. Qed.
#[local] Hint Resolve kt_fetch_alias kt_fetch_anchor kt_fetch_tag kt_fetch_flow_scalar kt_fetch_plain kt_fetch_block_scalar kt_fetch_directive : kt.
Lemma kt_fetch_more_tokens : keepsT fetch_more_tokens.
Proof. unfold fetch_more_tokens. kt. Qed.
Lemma kt_fill : forall fuel, keepsT (fill fuel).
Proof.
  induction fuel as [|f IH]; [intros s H; exact I|]. cbn [fill]. apply kt_bind; [kt|]. intros b. destruct b; [|apply kt_ret].
  apply kt_bind; [apply kt_fetch_more_tokens|]. intros _. exact IH.
Qed.

(* EVERY text, however the scan ends: every token delivered starts before it ends *)
Lemma scan_loop_tok : forall fuel acc s, Forall tokok acc -> QT s -> Forall tokok (fst (scan_loop fuel acc s)).
Proof.
  induction fuel as [|f IH]; intros acc s Ha Hs; [exact Ha|].
  cbn [scan_loop]. pose proof (kt_fill (S (S (length (rest s)))) s Hs) as H1.
  destruct (fill (S (S (length (rest s)))) s) as [[[] s1]|? ? ?|?|]; try exact Ha.
  destruct (tokens s1) as [|t1 ts1]; [exact Ha|].
  pose proof (kt_fill (S (S (length (rest s1)))) s1 H1) as H2.
  destruct (fill (S (S (length (rest s1)))) s1) as [[[] s2]|? ? ?|?|]; try exact Ha.
  destruct (tokens s2) as [|t2 ts2] eqn:E2; [exact Ha|]. unfold QT in H2. rewrite E2 in H2. inversion H2; subst.
  apply IH; [apply Forall_app; split; [exact Ha|constructor; [assumption|constructor]]|assumption].
Qed.
Theorem delivered_tokens_start_before_they_end : forall text, Forall (fun t => m_index (t_start t) <= m_index (t_end t)) (fst (scan_all text)).
Proof.
  intros text. unfold scan_all. apply scan_loop_tok; [constructor|]. unfold QT, init. cbn [tokens]. constructor; [unfold tokok; cbn; lia|constructor].
Qed.
