(* C13 (dump side): a node that is written twice is written as an anchored node and aliases of that anchor - the serializer model,
   every node graph (sharing, cycles).  The two traversals of the serializer (anchor_node, serialize_node) are run side by side. *)
From Coq Require Import List NArith ZArith Bool Arith Lia.
Import ListNotations.
Require Import Represent.
Require ParseL ParserGrammar EmitGrammar SerializeGrammar.
Import SerializeGrammar.

Notation tbl := (list (nat * option nat)).
Definition keyed (t : tbl) (id : nat) : Prop := find_anchor id t <> None.
Definition le_tbl (t t' : tbl) : Prop :=
  (forall id, keyed t id -> keyed t' id) /\ (forall id n, find_anchor id t = Some (Some n) -> find_anchor id t' = Some (Some n)).
Lemma le_refl t : le_tbl t t. Proof. split; auto. Qed.
Lemma le_trans a b c : le_tbl a b -> le_tbl b c -> le_tbl a c.
Proof. intros [A1 A2] [B1 B2]. split; auto. Qed.

Lemma find_app_new id t : find_anchor id t = None -> forall j, find_anchor j (t ++ [(id, None)]) = if Nat.eqb j id then Some None else find_anchor j t.
Proof.
  induction t as [|[k v] t IH]; intros H j; cbn [app find_anchor] in *.
  - destruct (Nat.eqb j id); reflexivity.
  - destruct (Nat.eqb id k) eqn:E; [discriminate H|]. destruct (Nat.eqb j k) eqn:Ej.
    + apply Nat.eqb_eq in Ej. subst j. rewrite Nat.eqb_sym, E. reflexivity.
    + apply IH, H.
Qed.
Lemma find_set id v t : forall j, find_anchor j (set_anchor id v t) = if Nat.eqb j id then (match find_anchor id t with Some _ => Some v | None => None end) else find_anchor j t.
Proof.
  induction t as [|[k w] t IH]; intros j; cbn [set_anchor find_anchor].
  - destruct (Nat.eqb j id); reflexivity.
  - destruct (Nat.eqb id k) eqn:E.
    + apply Nat.eqb_eq in E. subst k. cbn [find_anchor]. destruct (Nat.eqb j id) eqn:Ej; reflexivity.
    + cbn [find_anchor]. destruct (Nat.eqb j k) eqn:Ej.
      * apply Nat.eqb_eq in Ej. subst j. rewrite Nat.eqb_sym, E. reflexivity.
      * apply IH.
Qed.

(* ---------- anchor_node only adds keys and only turns None into Some ---------- *)
Section Mono.
Variable ns : list rnode.
Definition monoP (f : nat) : Prop := forall id t c, le_tbl t (fst (anchor_node f ns id (t, c))).
Lemma mono_items f items : monoP f -> forall t c, le_tbl t (fst (fold_left (fun acc ch => anchor_node f ns ch acc) items (t, c))).
Proof.
  intros IH. induction items as [|ch items IHi]; intros t c; cbn [fold_left]; [apply le_refl|].
  destruct (anchor_node f ns ch (t, c)) as [t1 c1] eqn:E. eapply le_trans; [|apply IHi]. specialize (IH ch t c). rewrite E in IH. exact IH.
Qed.
Lemma mono_pairs f items : monoP f -> forall t c, le_tbl t (fst (fold_left (fun acc kv => anchor_node f ns (snd kv) (anchor_node f ns (fst kv) acc)) items (t, c))).
Proof.
  intros IH. induction items as [|[k v] items IHi]; intros t c; cbn [fold_left fst snd]; [apply le_refl|].
  destruct (anchor_node f ns k (t, c)) as [t1 c1] eqn:E1. destruct (anchor_node f ns v (t1, c1)) as [t2 c2] eqn:E2.
  eapply le_trans; [|apply IHi]. eapply le_trans; [pose proof (IH k t c) as H; rewrite E1 in H; exact H|pose proof (IH v t1 c1) as H; rewrite E2 in H; exact H].
Qed.
Lemma anchor_mono : forall f, monoP f.
Proof.
  induction f as [|f IH]; intros id t c; cbn [anchor_node fst snd]; [apply le_refl|].
  destruct (find_anchor id t) as [[n|]|] eqn:Ef; cbn [fst].
  - apply le_refl.
  - split; intros j; [intros Hk|intros n Hn]; unfold keyed in *; rewrite find_set, Ef; destruct (Nat.eqb j id) eqn:Ej; auto; try discriminate.
    apply Nat.eqb_eq in Ej. subst j. congruence.
  - assert (H1 : le_tbl t (t ++ [(id, None)])).
    { split; intros j; [intros Hk|intros n Hn]; unfold keyed in *; rewrite (find_app_new id t Ef); destruct (Nat.eqb j id) eqn:Ej; auto; try discriminate.
      apply Nat.eqb_eq in Ej. subst j. congruence. }
    destruct (nth_error ns id) as [[tg v st|tg items fl|tg items fl]|]; cbn [fst]; try exact H1;
      (eapply le_trans; [exact H1|]); [apply mono_items, IH|apply mono_pairs, IH].
Qed.
End Mono.

(* ---------- the two traversals side by side ---------- *)
Definition alias_of (anch : tbl) (id : nat) : option Scan.str :=
  match find_anchor id anch with Some (Some n) => Some (anchor_name n) | _ => None end.
Definition anchor_of_ev (e : sev) : option Scan.str :=
  match e with SScalar a _ _ _ _ _ => a | SSeqStart a _ _ _ => a | SMapStart a _ _ _ => a | _ => None end.
Definition has_anchor (a : Scan.str) (evs : list sev) : Prop := exists e, In e evs /\ anchor_of_ev e = Some a.
Lemma has_anchor_app a x y : has_anchor a x -> has_anchor a (x ++ y).
Proof. intros (e & H1 & H2). exists e. split; [apply in_or_app; auto|exact H2]. Qed.
Lemma has_anchor_app_r a x y : has_anchor a y -> has_anchor a (x ++ y).
Proof. intros (e & H1 & H2). exists e. split; [apply in_or_app; auto|exact H2]. Qed.

Section Par.
Variables (ns : list rnode) (anch : tbl).
Hypothesis Hwf : wf ns.

(* written nodes are exactly the nodes of the table *)
Definition Rel (t : tbl) (d : list nat) : Prop := forall id, In id d <-> keyed t id.
(* every written node whose final table entry names an anchor has an event carrying that anchor *)
Definition J (d : list nat) (evs : list sev) : Prop := forall id a, In id d -> alias_of anch id = Some a -> has_anchor a evs.
(* every alias written so far has a name and refers to an anchor written so far *)
Definition A (evs : list sev) : Prop := forall a, In (SAlias a) evs -> a <> [] /\ has_anchor a evs.

Definition parP (f : nat) : Prop := forall id t c d evs,
  Rel t d -> J d evs -> A evs -> doneok ns d -> id < length ns -> length ns - length d < f ->
  le_tbl (fst (anchor_node f ns id (t, c))) anch ->
  exists d' out, serialize_node f ns anch id (d, evs) = (d', evs ++ out) /\
                 Rel (fst (anchor_node f ns id (t, c))) d' /\ J d' (evs ++ out) /\ A (evs ++ out) /\ doneok ns d' /\ length d <= length d'.

Lemma anchor_name_ne n : anchor_name n <> [].
Proof. unfold anchor_name. discriminate. Qed.

Lemma par_items f items : parP f -> forallb (fun c => Nat.ltb c (length ns)) items = true ->
  forall t c d evs, Rel t d -> J d evs -> A evs -> doneok ns d -> length ns - length d < f ->
  le_tbl (fst (fold_left (fun acc ch => anchor_node f ns ch acc) items (t, c))) anch ->
  exists d' out, fold_left (fun acc ch => serialize_node f ns anch ch acc) items (d, evs) = (d', evs ++ out) /\
                 Rel (fst (fold_left (fun acc ch => anchor_node f ns ch acc) items (t, c))) d' /\ J d' (evs ++ out) /\ A (evs ++ out) /\ doneok ns d' /\ length d <= length d'.
Proof.
  intros IH. induction items as [|ch items IHi]; intros Hi t c d evs HR HJ HA Hd Hf Hle; cbn [fold_left] in *.
  - exists d, []. rewrite app_nil_r. auto 10.
  - cbn [forallb] in Hi. apply andb_prop in Hi as [Hc Hi]. apply Nat.ltb_lt in Hc.
    destruct (anchor_node f ns ch (t, c)) as [t1 c1] eqn:E1.
    assert (Hle1 : le_tbl t1 anch) by (eapply le_trans; [apply (mono_items ns f items (anchor_mono ns f) t1 c1)|exact Hle]).
    destruct (IH ch t c d evs HR HJ HA Hd Hc Hf) as (d1 & o1 & S1 & R1 & J1 & A1 & D1 & L1); [rewrite E1; exact Hle1|]. rewrite E1 in R1. cbn [fst] in R1.
    rewrite S1. destruct (IHi Hi t1 c1 d1 (evs ++ o1) R1 J1 A1 D1 ltac:(lia) Hle) as (d2 & o2 & S2 & R2 & J2 & A2 & D2 & L2).
    exists d2, (o1 ++ o2). rewrite app_assoc. split; [exact S2|]. split; [exact R2|]. split; [exact J2|]. split; [exact A2|]. split; [exact D2|lia].
Qed.
Lemma par_pairs f items : parP f -> forallb (fun kv : nat * nat => Nat.ltb (fst kv) (length ns) && Nat.ltb (snd kv) (length ns)) items = true ->
  forall t c d evs, Rel t d -> J d evs -> A evs -> doneok ns d -> length ns - length d < f ->
  le_tbl (fst (fold_left (fun acc kv => anchor_node f ns (snd kv) (anchor_node f ns (fst kv) acc)) items (t, c))) anch ->
  exists d' out, fold_left (fun acc kv => serialize_node f ns anch (snd kv) (serialize_node f ns anch (fst kv) acc)) items (d, evs) = (d', evs ++ out) /\
                 Rel (fst (fold_left (fun acc kv => anchor_node f ns (snd kv) (anchor_node f ns (fst kv) acc)) items (t, c))) d' /\
                 J d' (evs ++ out) /\ A (evs ++ out) /\ doneok ns d' /\ length d <= length d'.
Proof.
  intros IH. induction items as [|[k v] items IHi]; intros Hi t c d evs HR HJ HA Hd Hf Hle; cbn [fold_left fst snd] in *.
  - exists d, []. rewrite app_nil_r. auto 10.
  - cbn [forallb fst snd] in Hi. apply andb_prop in Hi as [Hc Hi]. apply andb_prop in Hc as [Hk Hv]. apply Nat.ltb_lt in Hk, Hv.
    destruct (anchor_node f ns k (t, c)) as [t1 c1] eqn:E1. destruct (anchor_node f ns v (t1, c1)) as [t2 c2] eqn:E2.
    assert (Hle2 : le_tbl t2 anch) by (eapply le_trans; [apply (mono_pairs ns f items (anchor_mono ns f) t2 c2)|exact Hle]).
    assert (Hle1 : le_tbl t1 anch) by (eapply le_trans; [|exact Hle2]; pose proof (anchor_mono ns f v t1 c1) as H; rewrite E2 in H; exact H).
    destruct (IH k t c d evs HR HJ HA Hd Hk Hf) as (d1 & o1 & S1 & R1 & J1 & A1 & D1 & L1); [rewrite E1; exact Hle1|]. rewrite E1 in R1. cbn [fst] in R1. rewrite S1.
    destruct (IH v t1 c1 d1 (evs ++ o1) R1 J1 A1 D1 Hv ltac:(lia)) as (d2 & o2 & S2 & R2 & J2 & A2 & D2 & L2); [rewrite E2; exact Hle2|]. rewrite E2 in R2. cbn [fst] in R2. rewrite S2.
    destruct (IHi Hi t2 c2 d2 ((evs ++ o1) ++ o2) R2 J2 A2 D2 ltac:(lia) Hle) as (d3 & o3 & S3 & R3 & J3 & A3 & D3 & L3).
    exists d3, (o1 ++ o2 ++ o3). rewrite !app_assoc. split; [exact S3|]. split; [exact R3|]. split; [exact J3|]. split; [exact A3|]. split; [exact D3|lia].
Qed.
End Par.

Section Par2.
Variables (ns : list rnode) (anch : tbl).
Hypothesis Hwf : wf ns.

Lemma A_snoc evs e : A evs -> (forall a, e = SAlias a -> a <> [] /\ has_anchor a evs) -> A (evs ++ [e]).
Proof.
  intros HA He a Hin. apply in_app_or in Hin as [Hin|[Ee|[]]].
  - destruct (HA a Hin) as [H1 H2]. split; [exact H1|apply has_anchor_app, H2].
  - destruct (He a Ee) as [H1 H2]. split; [exact H1|apply has_anchor_app, H2].
Qed.
Lemma J_snoc d evs e : J anch d evs -> J anch d (evs ++ [e]).
Proof. intros HJ id a Hi Ha. apply has_anchor_app. eapply HJ; eauto. Qed.

Lemma par : forall f, parP ns anch f.
Proof.
  induction f as [|f IH]; intros id t c d evs HR HJ HA Hd Hid Hf Hle; [lia|].
  cbn [serialize_node anchor_node fst snd] in *.
  destruct (existsb (Nat.eqb id) d) eqn:Ein.
  - (* written before: an alias; the table entry of the node becomes (or is) a number *)
    apply existsb_in in Ein. pose proof (proj1 (HR id) Ein) as Hk. unfold keyed in Hk.
    assert (Hsome : exists m, find_anchor id (fst (match find_anchor id t with
                      | Some (Some _) => (t, c) | Some None => (set_anchor id (Some (S c)) t, S c)
                      | None => (match nth_error ns id with
                                 | Some (RSeq _ items _) => fold_left (fun acc ch => anchor_node f ns ch acc) items (t ++ [(id, None)], c)
                                 | Some (RMap _ items _) => fold_left (fun acc kv => anchor_node f ns (snd kv) (anchor_node f ns (fst kv) acc)) items (t ++ [(id, None)], c)
                                 | _ => (t ++ [(id, None)], c) end) end)) = Some (Some m)).
    { destruct (find_anchor id t) as [[n|]|] eqn:Ef; [exists n; exact Ef|exists (S c); cbn [fst]; rewrite find_set, Nat.eqb_refl, Ef; reflexivity|congruence]. }
    destruct Hsome as (m & Hm). pose proof (proj2 Hle id m Hm) as Hfin.
    assert (Hal : alias_of anch id = Some (anchor_name m)) by (unfold alias_of; rewrite Hfin; reflexivity).
    rewrite Hfin. eexists d, [_]. split; [reflexivity|].
    assert (HR' : forall t', (forall j, keyed t' j <-> keyed t j) -> Rel t' d) by (intros t' Ht j; rewrite (HR j); symmetry; apply Ht).
    split.
    { destruct (find_anchor id t) as [[n|]|] eqn:Ef; cbn [fst]; [exact HR| |congruence].
      apply HR'. intros j. unfold keyed. rewrite find_set, Ef. destruct (Nat.eqb j id) eqn:Ej; [apply Nat.eqb_eq in Ej; subst j; rewrite Ef; split; discriminate|reflexivity]. }
    split; [apply J_snoc, HJ|]. split; [|split; [exact Hd|lia]].
    apply A_snoc; [exact HA|]. intros a Ea. injection Ea as <-. split; [apply anchor_name_ne|eapply HJ; eauto].
  - (* first visit *)
    assert (Hnin : ~ In id d) by (intros H; apply existsb_in in H; congruence).
    assert (Ef : find_anchor id t = None).
    { destruct (find_anchor id t) eqn:E; [|reflexivity]. exfalso. apply Hnin. apply (HR id). unfold keyed. congruence. }
    rewrite Ef in *.
    assert (HR1 : Rel (t ++ [(id, None)]) (id :: d)).
    { intros j. unfold keyed. rewrite (find_app_new id t Ef). destruct (Nat.eqb j id) eqn:Ej.
      - apply Nat.eqb_eq in Ej. subst j. split; [discriminate|left; reflexivity].
      - apply Nat.eqb_neq in Ej. rewrite <- (HR j). split; [intros [H|H]; [congruence|exact H]|right; assumption]. }
    assert (Hd1 : doneok ns (id :: d)).
    { destruct Hd as [Hn Hb]. split; [constructor; assumption|]. intros x [<-|Hx]; auto. }
    pose proof (doneok_len ns (id :: d) Hd1) as Hlen. cbn [length] in Hlen.
    assert (Hf1 : length ns - length (id :: d) < f) by (cbn [length]; lia).
    assert (Hfirst : forall e0, anchor_of_ev e0 = alias_of anch id -> (forall a, e0 <> SAlias a) ->
              J anch (id :: d) (evs ++ [e0]) /\ A (evs ++ [e0])).
    { intros e0 He0 Hna. split.
      - intros j a [<-|Hj] Ha; [exists e0; split; [apply in_or_app; right; left; reflexivity|rewrite He0; exact Ha]|apply has_anchor_app; eapply HJ; eauto].
      - apply A_snoc; [exact HA|]. intros a Ea. exfalso. eapply Hna; eauto. }
    destruct (nth_error ns id) as [x|] eqn:En; [|apply nth_error_None in En; lia].
    pose proof (wf_nth ns id x Hwf En) as Hc. destruct x as [tag v style|tag items flow|tag items flow]; cbn [child_ok] in Hc.
    + cbn [fst] in *. eexists (id :: d), [_]. split; [reflexivity|]. split; [exact HR1|].
      destruct (Hfirst (SScalar (match find_anchor id anch with Some (Some n) => Some (anchor_name n) | _ => None end) tag
                  (Scan.str_eqb tag (Construct.resolve_scalar false v true false)) (Scan.str_eqb tag Construct.t_str) v style)) as [J1 A1]; [reflexivity|discriminate|].
      split; [exact J1|]. split; [exact A1|]. split; [exact Hd1|cbn; lia].
    + match goal with |- context [fold_left _ items (id :: d, ?ee)] => set (ev0 := ee) end.
      destruct (Hfirst (SSeqStart (match find_anchor id anch with Some (Some n) => Some (anchor_name n) | _ => None end) tag (Scan.str_eqb tag Construct.t_seq) flow)) as [J1 A1]; [reflexivity|discriminate|].
      destruct (par_items ns anch f items IH Hc (t ++ [(id, None)]) c (id :: d) ev0 HR1 J1 A1 Hd1 Hf1 Hle) as (d' & o & S1 & R1 & J2 & A2 & D' & L').
      rewrite S1. cbn [fst snd]. unfold ev0 in *.
      eexists d', (_ :: o ++ [SSeqEnd]). split; [rewrite <- !app_assoc; reflexivity|]. split; [exact R1|].
      replace (evs ++ SSeqStart (match find_anchor id anch with Some (Some n) => Some (anchor_name n) | _ => None end) tag (Scan.str_eqb tag Construct.t_seq) flow :: o ++ [SSeqEnd])
        with (((evs ++ [SSeqStart (match find_anchor id anch with Some (Some n) => Some (anchor_name n) | _ => None end) tag (Scan.str_eqb tag Construct.t_seq) flow]) ++ o) ++ [SSeqEnd]) by (rewrite <- !app_assoc; reflexivity).
      split; [apply J_snoc, J2|]. split; [apply A_snoc; [exact A2|intros a Ea; discriminate Ea]|]. split; [exact D'|cbn in L'; lia].
    + match goal with |- context [fold_left _ items (id :: d, ?ee)] => set (ev0 := ee) end.
      destruct (Hfirst (SMapStart (match find_anchor id anch with Some (Some n) => Some (anchor_name n) | _ => None end) tag (Scan.str_eqb tag Construct.t_map) flow)) as [J1 A1]; [reflexivity|discriminate|].
      destruct (par_pairs ns anch f items IH Hc (t ++ [(id, None)]) c (id :: d) ev0 HR1 J1 A1 Hd1 Hf1 Hle) as (d' & o & S1 & R1 & J2 & A2 & D' & L').
      rewrite S1. cbn [fst snd]. unfold ev0 in *.
      eexists d', (_ :: o ++ [SMapEnd]). split; [rewrite <- !app_assoc; reflexivity|]. split; [exact R1|].
      replace (evs ++ SMapStart (match find_anchor id anch with Some (Some n) => Some (anchor_name n) | _ => None end) tag (Scan.str_eqb tag Construct.t_map) flow :: o ++ [SMapEnd])
        with (((evs ++ [SMapStart (match find_anchor id anch with Some (Some n) => Some (anchor_name n) | _ => None end) tag (Scan.str_eqb tag Construct.t_map) flow]) ++ o) ++ [SMapEnd]) by (rewrite <- !app_assoc; reflexivity).
      split; [apply J_snoc, J2|]. split; [apply A_snoc; [exact A2|intros a Ea; discriminate Ea]|]. split; [exact D'|cbn in L'; lia].
Qed.
End Par2.

(* EVERY node graph whose ids exist - shared nodes, cycles, any depth - and any root: in the events the serializer model writes, every alias has a
   non-empty name, and that name is the anchor carried by a node event of the same document: a node written twice is written as an
   anchored node and aliases of that anchor *)
Theorem every_alias_has_its_anchor : forall ns root, wf ns -> root < length ns ->
  let F := S (length ns) * 2 in
  let anch := fst (anchor_node F ns root ([], 0)) in
  let out := snd (serialize_node F ns anch root ([], [])) in
  forall a, In (SAlias a) out -> a <> [] /\ exists e, In e out /\ anchor_of_ev e = Some a.
Proof.
  intros ns root Hwf Hr F anch out a Hin.
  destruct (par ns anch Hwf F root [] 0 [] []) as (d' & o & S1 & _ & _ & A1 & _ & _).
  - intros j. unfold keyed. cbn. split; [intros []|congruence].
  - intros j b [].
  - intros b [].
  - split; [constructor|intros x []].
  - exact Hr.
  - unfold F. cbn. lia.
  - apply le_refl.
  - unfold out in Hin. fold anch in S1. rewrite S1 in Hin. cbn [snd app] in *. destruct (A1 a Hin) as [H1 H2]. split; [exact H1|]. unfold out. rewrite S1. exact H2.
Qed.


(* the same for what the representer model builds: EVERY value and heap (sharing, cycles), every representer option set *)
Theorem dumped_aliases_have_anchors : forall o h root evs, dump_doc o h root = ROk evs ->
  forall a, In (SAlias a) evs -> a <> [] /\ exists e, In e evs /\ anchor_of_ev e = Some a.
Proof.
  intros o h root evs H a Hin. unfold dump_doc in H. generalize dependent (S (length h) * 2 + 4). intros fuel H.
  destruct (represent fuel o h root {| rnodes := []; represented := [] |}) as [[id s]| | | |] eqn:E; try discriminate H.
  destruct (represent_inv _ o h root _ id s E) as ([Hw _] & Hid & _); [split; [reflexivity|intros x i []]|].
  assert (Eev : evs = [SDocStart] ++ snd (serialize_node (S (length (rnodes s)) * 2) (rnodes s) (fst (anchor_node (S (length (rnodes s)) * 2) (rnodes s) id ([], 0))) id ([], [])) ++ [SDocEnd]) by congruence.
  clear H. rewrite Eev in *. clear Eev.
  assert (Hin' : In (SAlias a) (snd (serialize_node (S (length (rnodes s)) * 2) (rnodes s) (fst (anchor_node (S (length (rnodes s)) * 2) (rnodes s) id ([], 0))) id ([], [])))).
  { cbn [app] in Hin. destruct Hin as [Hin|Hin]; [discriminate Hin|]. apply in_app_or in Hin as [Hin|[Hin|[]]]; [exact Hin|discriminate Hin]. }
  destruct (every_alias_has_its_anchor (rnodes s) id Hw Hid a Hin') as [H1 (e & He & Ha)].
  split; [exact H1|]. exists e. split; [|exact Ha]. cbn [app]. right. apply in_or_app. left. exact He.
Qed.

(* non-vacuity: the self-containing list with a mapping shared twice (SerializeGrammar.dumped_cycle) has two anchors and three aliases *)
Example aliases_of_the_cycle :
  let o := {| default_style := None; default_flow := None; sort_keys := true |} in
  let h := [Construct.CList [Construct.PInt 1; Construct.PRef 0; Construct.PRef 1; Construct.PRef 1]; Construct.CDict [(Construct.PStr [107%N], Construct.PNone)]] in
  match dump_doc o h (Construct.PRef 0) with
  | ROk evs => map (fun e => match e with SAlias a => Some a | _ => None end) evs =
               [None; None; None; Some (anchor_name 1); None; None; None; None; Some (anchor_name 2); None; None] /\
               map anchor_of_ev evs = [None; Some (anchor_name 1); None; None; Some (anchor_name 2); None; None; None; None; None; None]
  | _ => False
  end.
Proof. vm_compute. split; reflexivity. Qed.
