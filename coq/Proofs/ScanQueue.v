(* C03: what the scanner delivers is what the parser theorems ask for - a token list that starts with STREAM-START and ends in its only STREAM-END.
   Partial-correctness bookkeeping of the token queue (safety is Proofs/ScanSafe.v); the lemmas for the functions that never touch the queue or only
   add tokens of a fixed kind are generated (Proofs/ScanQueueGen.v). *)
From Coq Require Import List NArith ZArith Bool Arith Lia.
Import ListNotations.
Require Import Scan PT ScanQueueGen.
Require PlainDispatch ParseL ParserTerm.

(* ---------- the kind of the token a scanner returns ---------- *)
Definition retQ {A} (m : M A) (R : A -> Prop) : Prop := forall s a s', m s = Ok (a, s') -> R a.
Lemma retQ_ret {A} (a : A) (R : A -> Prop) : R a -> retQ (ret a) R.
Proof. intros H s a' s' E. injection E as <- _. exact H. Qed.
Lemma retQ_bind {A B} (m : M A) (k : A -> M B) (R : B -> Prop) : (forall a, retQ (k a) R) -> retQ (bind m k) R.
Proof. intros H s b s' E. unfold bind in E. destruct (m s) as [[a s1]|? ? ?|?|]; try discriminate. exact (H a s1 b s' E). Qed.
Lemma retQ_err {A} c code (R : A -> Prop) : retQ (@err A c code) R.
Proof. intros s a s' E. discriminate E. Qed.
Ltac rq := repeat (first [apply retQ_bind; intros | apply retQ_err | apply retQ_ret; unfold notSE, is_se; cbn [t_kind]; repeat (match goal with |- context [if ?c then _ else _] => destruct c end); reflexivity
                         | match goal with |- retQ (if ?c then _ else _) _ => destruct c | |- retQ (match ?x with _ => _ end) _ => destruct x end]).
Lemma rq_scan_directive : retQ scan_directive notSE. Proof. unfold scan_directive. rq. Qed.
Lemma rq_scan_anchor b : retQ (scan_anchor b) notSE. Proof. unfold scan_anchor. rq. Qed.
Lemma rq_scan_tag : retQ scan_tag notSE. Proof. unfold scan_tag. rq. Qed.
Lemma rq_scan_block_scalar b : retQ (scan_block_scalar b) notSE. Proof. unfold scan_block_scalar. rq. Qed.
Lemma rq_scan_flow_scalar b : retQ (scan_flow_scalar b) notSE. Proof. unfold scan_flow_scalar. rq. Qed.
Lemma rq_scan_plain : retQ scan_plain notSE. Proof. unfold scan_plain. rq. Qed.

Lemma kq_bind_ret {A B} (m : M A) (k : A -> M B) (R : A -> Prop) : keepsQ m -> retQ m R -> (forall a, R a -> keepsQ (k a)) -> keepsQ (bind m k).
Proof.
  intros Hm Hr Hk s Hs. unfold bind. specialize (Hm s Hs). destruct (m s) as [[a s']|? ? ?|?|] eqn:E; auto. exact (Hk a (Hr s a s' E) s' Hm).
Qed.
Ltac push_fetch L := apply kq_bind; [kq|]; intros; apply kq_bind; [kq|]; intros; apply (kq_bind_ret _ _ notSE); [kq|apply L|intros t Ht; apply kq_push; exact Ht].
Lemma kq_fetch_alias : keepsQ fetch_alias. Proof. unfold fetch_alias. push_fetch rq_scan_anchor. Qed.
Lemma kq_fetch_anchor : keepsQ fetch_anchor. Proof. unfold fetch_anchor. push_fetch rq_scan_anchor. Qed.
Lemma kq_fetch_tag : keepsQ fetch_tag. Proof. unfold fetch_tag. push_fetch rq_scan_tag. Qed.
Lemma kq_fetch_flow_scalar b : keepsQ (fetch_flow_scalar b). Proof. unfold fetch_flow_scalar. push_fetch rq_scan_flow_scalar. Qed.
Lemma kq_fetch_plain : keepsQ fetch_plain. Proof. unfold fetch_plain. push_fetch rq_scan_plain. Qed.
Lemma kq_fetch_block_scalar b : keepsQ (fetch_block_scalar b). Proof. unfold fetch_block_scalar. push_fetch rq_scan_block_scalar. Qed.
Lemma kq_fetch_directive : keepsQ fetch_directive.
Proof. unfold fetch_directive. apply kq_bind; [kq|]; intros. push_fetch rq_scan_directive. Qed.

Lemma Forall_firstn {X} (P : X -> Prop) n : forall l, Forall P l -> Forall P (firstn n l).
Proof. induction n as [|n IH]; intros l H; [constructor|]. destruct l; [constructor|]. inversion H; subst. constructor; auto. Qed.
Lemma Forall_skipn {X} (P : X -> Prop) n : forall l, Forall P l -> Forall P (skipn n l).
Proof. induction n as [|n IH]; intros l H; [exact H|]. destruct l; [constructor|]. inversion H; subst. cbn. auto. Qed.
Lemma insert_ok x pos l : notSE x -> Forall notSE l -> Forall notSE (insert_at pos x l).
Proof.
  intros Hx Hl. unfold insert_at. apply Forall_app. split; [apply Forall_firstn, Hl|]. constructor; [exact Hx|apply Forall_skipn, Hl].
Qed.

Lemma kq_fetch_value : keepsQ fetch_value.
Proof.
  unfold fetch_value. apply kq_bind; [kq|]. intros s0. apply kq_bind; [kq|]. intros fl. apply kq_bind; [|intros; kq].
  destruct (psk_find (flow_level s0) (psk s0)) as [key|]; [|kq].
  apply kq_bind; [kq|]. intros _. apply kq_bind; [apply kq_set_tokens; intros l Hl; apply insert_ok; [reflexivity|exact Hl]|]. intros _.
  apply kq_bind; [|intros; kq]. destruct fl; [kq|]. apply kq_bind; [kq|]. intros b. destruct b; [|kq].
  apply kq_set_tokens. intros l Hl. apply insert_ok; [reflexivity|exact Hl].
Qed.

(* ---------- the end of the stream ---------- *)
Definition Done (s : st) : Prop := sdone s = true /\ exists l t, tokens s = l ++ [t] /\ Forall notSE l /\ is_se t = true.
Definition post {A} (P : st -> Prop) (m : M A) : Prop := forall s, Q s -> match m s with Ok (_, s') => P s' | _ => True end.
Lemma post_bind {A B} (P : st -> Prop) (m : M A) (k : A -> M B) : keepsQ m -> (forall a, post P (k a)) -> post P (bind m k).
Proof. intros Hm Hk s Hs. unfold bind. specialize (Hm s Hs). destruct (m s) as [[a s']|? ? ?|?|]; auto. exact (Hk a s' Hm). Qed.
Lemma post_weaken {A} (P : st -> Prop) (m : M A) : keepsQ m -> (forall s, Q s -> P s) -> post P m.
Proof. intros Hm HP s Hs. specialize (Hm s Hs). destruct (m s) as [[a s']|? ? ?|?|]; auto. Qed.
Lemma post_stream_end : post Done fetch_stream_end.
Proof.
  unfold fetch_stream_end. apply post_bind; [kq|]. intros _. apply post_bind; [kq|]. intros _. apply post_bind; [kq|]. intros _. apply post_bind; [kq|]. intros _.
  intros s (A & B). cbn. split; [reflexivity|]. eexists (tokens s), _. split; [reflexivity|]. split; [exact B|reflexivity].
Qed.

Definition QD (s : st) : Prop := Q s \/ Done s.
Lemma post_q {A} (m : M A) : keepsQ m -> post QD m.
Proof. intros H. apply post_weaken; [exact H|]. intros s Hs. left. exact Hs. Qed.
Lemma post_dispatch : post QD PlainDispatch.dispatch.
Proof.
  unfold PlainDispatch.dispatch. apply post_bind; [kq|]. intros ch. apply post_bind; [kq|]. intros fl. apply post_bind; [kq|]. intros s0.
  destruct (N.eqb ch NUL); [intros s Hs; pose proof (post_stream_end s Hs) as H; destruct (fetch_stream_end s) as [[u s']|? ? ?|?|]; auto; right; exact H|].
  destruct (N.eqb ch 37 && Nat.eqb (col s0) 0); [apply post_q, kq_fetch_directive|].
  apply post_bind; [kq|]. intros ds. destruct ds; [apply post_q; kq|].
  apply post_bind; [kq|]. intros de. destruct de; [apply post_q; kq|].
  destruct (N.eqb ch 91); [apply post_q; kq|]. destruct (N.eqb ch 123); [apply post_q; kq|].
  destruct (N.eqb ch 93); [apply post_q; kq|]. destruct (N.eqb ch 125); [apply post_q; kq|].
  destruct (N.eqb ch 44); [apply post_q; kq|].
  apply post_bind; [kq|]. intros be. destruct be; [apply post_q; kq|].
  apply post_bind; [kq|]. intros ke. destruct ke; [apply post_q; kq|].
  apply post_bind; [kq|]. intros va. destruct va; [apply post_q, kq_fetch_value|].
  destruct (N.eqb ch 42); [apply post_q, kq_fetch_alias|]. destruct (N.eqb ch 38); [apply post_q, kq_fetch_anchor|].
  destruct (N.eqb ch 33); [apply post_q, kq_fetch_tag|].
  destruct (N.eqb ch 124 && negb fl); [apply post_q, kq_fetch_block_scalar|]. destruct (N.eqb ch 62 && negb fl); [apply post_q, kq_fetch_block_scalar|].
  destruct (N.eqb ch 39); [apply post_q, kq_fetch_flow_scalar|]. destruct (N.eqb ch 34); [apply post_q, kq_fetch_flow_scalar|].
  apply post_bind; [kq|]. intros pl. destruct pl; [apply post_q, kq_fetch_plain|apply post_q; kq].
Qed.
Lemma post_fetch_more_tokens : post QD fetch_more_tokens.
Proof.
  intros s Hs. rewrite PlainDispatch.fetch_more_tokens_eq. revert s Hs.
  change (post QD (scan_to_next_token ;;; stale_possible_simple_keys ;;; (s0 <- get ;; unwind_indent (Z.of_nat (col s0)) ;;; PlainDispatch.dispatch))).
  apply post_bind; [kq|]. intros _. apply post_bind; [kq|]. intros _. apply post_bind; [kq|]. intros s0. apply post_bind; [kq|]. intros _. apply post_dispatch.
Qed.

(* ---------- the token loop ---------- *)
Lemma stale_loop_same : forall keys s s', stale_loop keys s = Ok (tt, s') -> tokens s' = tokens s /\ sdone s' = sdone s.
Proof.
  induction keys as [|[z k] keys IH]; intros s s' H; [injection H as <-; auto|].
  cbn [stale_loop] in H. unfold bind, get in H. destruct (negb (Nat.eqb (k_line k) (line s)) || _); [|exact (IH s s' H)].
  destruct (k_req k); [discriminate H|]. cbn in H. destruct (IH _ s' H) as (A & B). auto.
Qed.
Lemma need_more_same s b s' : need_more_tokens s = Ok (b, s') ->
  tokens s' = tokens s /\ sdone s' = sdone s /\ (b = false -> sdone s = true \/ tokens s <> []) /\ (sdone s = true -> b = false /\ s' = s).
Proof.
  unfold need_more_tokens, bind, get. destruct (sdone s) eqn:Ed.
  - intros H. injection H as <- <-. repeat split; auto.
  - destruct (tokens s) as [|t ts] eqn:Et; [intros H; injection H as <- <-; repeat split; auto; discriminate|].
    unfold stale_possible_simple_keys, bind, get. destruct (stale_loop (psk s) s) as [[[] s1]|? ? ?|?|] eqn:E; try discriminate.
    intros H. injection H as <- <-. destruct (stale_loop_same _ _ _ E) as (A & B). rewrite A, B, Et, Ed. repeat split; auto; try discriminate. intros _. right. discriminate.
Qed.
Lemma fill_done : forall f s, sdone s = true -> fill (S f) s = Ok (tt, s).
Proof.
  intros f s Hd. cbn [fill]. unfold bind. destruct (need_more_tokens s) as [[b s']|? ? ?|?|] eqn:E;
    try (unfold need_more_tokens, bind, get in E; rewrite Hd in E; discriminate E).
  destruct (need_more_same s b s' E) as (_ & _ & _ & H). destruct (H Hd) as (-> & ->). reflexivity.
Qed.
Lemma fill_shape : forall fuel s s', fill fuel s = Ok (tt, s') -> QD s -> QD s' /\ (sdone s' = true \/ tokens s' <> []).
Proof.
  induction fuel as [|f IH]; intros s s' H Hs; [discriminate H|].
  cbn [fill] in H. unfold bind in H. destruct (need_more_tokens s) as [[b s1]|? ? ?|?|] eqn:E; try discriminate.
  destruct (need_more_same s b s1 E) as (A & B & C & D).
  assert (Hs1 : QD s1).
  { destruct Hs as [(X & Y)|(X & l & t & Y)]; [left; split; [rewrite B; exact X|rewrite A; exact Y]|right; split; [rewrite B; exact X|exists l, t; rewrite A; exact Y]]. }
  destruct b.
  - destruct Hs1 as [Hq|Hd].
    + pose proof (post_fetch_more_tokens s1 Hq) as P. destruct (fetch_more_tokens s1) as [[u s2]|? ? ?|?|]; try discriminate. exact (IH s2 s' H P).
    + destruct Hd as (X & _). rewrite B in X. destruct (D X) as (Y & _). discriminate Y.
  - injection H as <-. split; [exact Hs1|]. rewrite A, B. apply C. reflexivity.
Qed.

(* the shape of what has been delivered (acc) together with what is queued *)
Definition Shape (acc : list token) (s : st) : Prop :=
  (sdone s = false /\ Forall notSE (acc ++ tokens s)) \/
  (sdone s = true /\ exists l t, acc ++ tokens s = l ++ [t] /\ Forall notSE l /\ is_se t = true).
Lemma shape_fill acc fuel s s' : fill fuel s = Ok (tt, s') -> Shape acc s -> Shape acc s' /\ (sdone s' = true \/ tokens s' <> []).
Proof.
  intros H [(A & B)|(A & l & t & B)].
  - apply Forall_app in B as (B1 & B2). destruct (fill_shape fuel s s' H (or_introl (conj A B2))) as ([(X & Y)|(X & l & t & Y & Z & W)] & E).
    + split; [left; split; [exact X|apply Forall_app; auto]|exact E].
    + split; [right; split; [exact X|exists (acc ++ l), t; rewrite Y, app_assoc; split; [reflexivity|split; [apply Forall_app; auto|exact W]]]|exact E].
  - destruct fuel as [|f]; [discriminate H|]. rewrite (fill_done f s A) in H. injection H as <-. split; [right; split; [exact A|exists l, t; exact B]|left; exact A].
Qed.
Lemma scan_loop_shape : forall fuel acc s toks, scan_loop fuel acc s = (toks, Ok tt) -> Shape acc s ->
  exists l t, toks = l ++ [t] /\ Forall notSE l /\ is_se t = true.
Proof.
  induction fuel as [|f IH]; intros acc s toks H Hs; [discriminate H|].
  cbn [scan_loop] in H. destruct (fill (S (S (length (rest s)))) s) as [[[] s1]|? ? ?|?|] eqn:E1; try discriminate.
  destruct (shape_fill acc _ s s1 E1 Hs) as (Hs1 & X1).
  assert (Hend : forall s0, Shape acc s0 -> (sdone s0 = true \/ tokens s0 <> []) -> tokens s0 = [] -> exists l t, acc = l ++ [t] /\ Forall notSE l /\ is_se t = true).
  { intros s0 Hs0 X0 Et. destruct X0 as [X0|X0]; [|congruence]. destruct Hs0 as [(A & _)|(_ & l & t & B)]; [congruence|]. rewrite Et, app_nil_r in B. exists l, t. exact B. }
  pose proof (Hend s1 Hs1 X1) as Hend1.
  destruct (tokens s1) as [|t1 ts1] eqn:Et1; [injection H as <-; exact (Hend1 eq_refl)|].
  destruct (fill (S (S (length (rest s1)))) s1) as [[[] s2]|? ? ?|?|] eqn:E2; try discriminate.
  destruct (shape_fill acc _ s1 s2 E2 Hs1) as (Hs2 & X2).
  pose proof (Hend s2 Hs2 X2) as Hend2.
  destruct (tokens s2) as [|t ts] eqn:Et2; [injection H as <-; exact (Hend2 eq_refl)|].
  apply (IH _ _ _ H). unfold Shape in *. cbn [sdone tokens]. rewrite <- app_assoc. cbn [app]. rewrite Et2 in Hs2. exact Hs2.
Qed.
Lemma scan_loop_prefix : forall fuel acc s, exists ext, fst (scan_loop fuel acc s) = acc ++ ext.
Proof.
  induction fuel as [|f IH]; intros acc s; [exists []; rewrite app_nil_r; reflexivity|].
  cbn [scan_loop]. destruct (fill (S (S (length (rest s)))) s) as [[[] s1]|? ? ?|?|]; try (exists []; rewrite app_nil_r; reflexivity).
  destruct (tokens s1); [exists []; rewrite app_nil_r; reflexivity|].
  destruct (fill (S (S (length (rest s1)))) s1) as [[[] s2]|? ? ?|?|]; try (exists []; rewrite app_nil_r; reflexivity).
  destruct (tokens s2) as [|t9 ts]; [exists []; rewrite app_nil_r; reflexivity|].
  match goal with |- context [scan_loop f (acc ++ [t9]) ?s3] => destruct (IH (acc ++ [t9]) s3) as (ext & E) end. exists (t9 :: ext). rewrite E, <- app_assoc. reflexivity.
Qed.

(* the first request only hands out STREAM-START *)
Definition s_after_start (text : str) : st :=
  {| rest := text ++ [0%N]; index := 0; line := 0; col := 0; sdone := false; flow_level := 0; tokens := []; taken := 1; indent := -1; indents := []; allow_sk := true; psk := [] |}.
Definition tok_start : token := let m0 := {| m_index := 0; m_line := 0; m_col := 0 |} in {| t_kind := TStreamStart; t_start := m0; t_end := m0 |}.
Lemma scan_loop_first f text : scan_loop (S f) [] (init text) = scan_loop f [tok_start] (s_after_start text).
Proof. reflexivity. Qed.

(* EVERY text: when the scan ends normally, the tokens are STREAM-START, tokens that are not STREAM-END, and one final STREAM-END *)
Theorem scanned_tokens_are_delimited : forall text toks, scan_all text = (toks, Ok tt) ->
  exists t r, toks = t :: r /\ t_kind t = TStreamStart /\ toks_ok r.
Proof.
  intros text toks H. unfold scan_all in H. replace (2 * length text + 8) with (S (2 * length text + 7)) in H by lia. rewrite scan_loop_first in H.
  destruct (scan_loop_shape _ _ _ _ H) as (l & t & E & Hl & Ht).
  { left. split; [reflexivity|]. cbn. constructor; [reflexivity|constructor]. }
  destruct (scan_loop_prefix (2 * length text + 7) [tok_start] (s_after_start text)) as (ext & Ex). rewrite H in Ex. cbn [fst] in Ex.
  exists tok_start, ext. split; [exact Ex|]. split; [reflexivity|].
  rewrite Ex in E. destruct l as [|t0 l'].
  - cbn in E. injection E as E1 E2. subst t. discriminate Ht.
  - cbn in E. injection E as E1 E2. subst t0. exists l', t. split; [exact E2|]. split; [exact Ht|].
    apply Forall_inv_tail in Hl. apply forallb_forall. intros x Hx. rewrite Forall_forall in Hl. specialize (Hl x Hx). unfold notSE in Hl. rewrite Hl. reflexivity.
Qed.

(* scanner and parser together: whenever the scan of a text ends normally, the parser run on its tokens is total - events or a ParserError, never a crash,
   never out of fuel *)
Theorem scanned_text_parses_totally : forall text, snd (scan_all text) = Ok tt -> ParserTerm.total (snd (ParseL.parse_all (fst (scan_all text)))).
Proof.
  intros text H. destruct (scan_all text) as [toks r] eqn:E. cbn [fst snd] in *. subst r.
  destruct (scanned_tokens_are_delimited text toks E) as (t & rr & -> & Hk & Hr). apply ParserTerm.parser_total; assumption.
Qed.
