(* C11/C12/C06: what the directives of one document define is never visible in a later one - the parser model, every token list.
   A relational reading of the parser monad: two runs from states that agree on everything but the %YAML version (and, at a
   document start, the table of tag handles) deliver the same events and the same outcome. *)
From Coq Require Import List NArith ZArith Bool Arith Lia.
Import ListNotations.
Require Import Scan ParseL.

(* hd = true: the tables of tag handles agree as well *)
Definition geq (hd : bool) (s s' : pst) : Prop :=
  toks s = toks s' /\ pstate_ s = pstate_ s' /\ pstates s = pstates s' /\ pmarks s = pmarks s' /\ (hd = true -> handles s = handles s').
Definition req {A} (hd : bool) (r r' : res (A * pst)) : Prop :=
  match r, r' with
  | Ok (a, s), Ok (a', s') => a = a' /\ geq hd s s'
  | ScanErr c e p, ScanErr c' e' p' => c = c' /\ e = e' /\ p = p'
  | Crash e, Crash e' => e = e'
  | OutOfFuel, OutOfFuel => True
  | _, _ => False
  end.
Definition rel {A} (hd hd' : bool) (m m' : P A) : Prop := forall s s', geq hd s s' -> req hd' (m s) (m' s').

Lemma geq_weaken hd s s' : geq true s s' -> geq hd s s'.
Proof. unfold geq. intuition. Qed.
Lemma rel_bind {A B} hd hd1 hd2 (m m' : P A) (k k' : A -> P B) :
  rel hd hd1 m m' -> (forall a, rel hd1 hd2 (k a) (k' a)) -> rel hd hd2 (pbind m k) (pbind m' k').
Proof.
  intros Hm Hk s s' Hg. unfold pbind. specialize (Hm s s' Hg). unfold req in Hm.
  destruct (m s) as [[a s1]| | |], (m' s') as [[a' s1']| | |]; try contradiction; try exact Hm.
  destruct Hm as [-> Hg1]. apply Hk, Hg1.
Qed.
Lemma rel_get_bind {B} hd hd2 (k k' : pst -> P B) :
  (forall s0 s0', geq hd s0 s0' -> rel hd hd2 (k s0) (k' s0')) -> rel hd hd2 (pbind pget k) (pbind pget k').
Proof. intros H s s' Hg. unfold pbind, pget. apply H; exact Hg. Qed.
Lemma rel_ret {A} hd (a : A) : rel hd hd (pret a) (pret a).
Proof. intros s s' Hg. cbn. auto. Qed.
Lemma rel_err {A} hd hd' c n m : rel hd hd' (@perr A c n m) (perr c n m).
Proof. intros s s' Hg. cbn. auto. Qed.
Lemma rel_crash {A} hd hd' : rel hd hd' (@pcrash A) pcrash.
Proof. intros s s' Hg. cbn. auto. Qed.
Lemma rel_const {A} hd hd' (r : res (A * pst)) : (match r with Ok _ => False | _ => True end) -> rel hd hd' (fun _ => r) (fun _ => r).
Proof. intros H s s' Hg. destruct r as [[a s1]| | |]; cbn; auto; contradiction. Qed.

Ltac prim := intros s s' (H1 & H2 & H3 & H4 & H5); unfold req, geq; cbn; rewrite <- ?H1, <- ?H2, <- ?H3, <- ?H4.
Lemma rel_set_ps hd x : rel hd hd (set_ps x) (set_ps x).
Proof. prim. intuition. Qed.
Lemma rel_push_ps hd x : rel hd hd (push_ps x) (push_ps x).
Proof. prim. intuition. Qed.
Lemma rel_pop_ps hd : rel hd hd pop_ps pop_ps.
Proof. prim. unfold pop_ps. rewrite <- H3. destruct (rev (pstates s)); cbn; intuition. Qed.
Lemma rel_push_mark hd m : rel hd hd (push_mark m) (push_mark m).
Proof. prim. intuition. Qed.
Lemma rel_pop_mark hd : rel hd hd pop_mark pop_mark.
Proof. prim. unfold pop_mark. rewrite <- H4. destruct (rev (pmarks s)); cbn; intuition. Qed.
Lemma rel_top_mark hd : rel hd hd top_mark top_mark.
Proof. prim. unfold top_mark. rewrite <- H4. destruct (rev (pmarks s)); cbn; intuition. Qed.
Lemma rel_set_handles hd h v v' : rel hd true (set_handles h v) (set_handles h v').
Proof. prim. intuition. Qed.
Lemma rel_peek_token hd : rel hd hd peek_token peek_token.
Proof. prim. intuition. Qed.
Lemma rel_get_token hd : rel hd hd get_token get_token.
Proof. intros s s' (H1 & H2 & H3 & H4 & H5). unfold req, get_token. rewrite <- H1. destruct (toks s) eqn:E; unfold geq; cbn; intuition congruence. Qed.
Lemma rel_peek_tok hd : rel hd hd peek_tok peek_tok.
Proof. unfold peek_tok. eapply rel_bind; [apply rel_peek_token|]. intros [t|]; [apply rel_ret|apply rel_crash]. Qed.
Lemma rel_get_tok hd : rel hd hd get_tok get_tok.
Proof. unfold get_tok. eapply rel_bind; [apply rel_get_token|]. intros [t|]; [apply rel_ret|apply rel_crash]. Qed.
Lemma rel_check hd f : rel hd hd (check f) (check f).
Proof. unfold check. eapply rel_bind; [apply rel_peek_token|]. intros t. apply rel_ret. Qed.
Lemma rel_weaken {A} hd (m m' : P A) : rel hd true m m' -> rel hd hd m m'.
Proof. intros H s s' Hg. specialize (H s s' Hg). unfold req in *. destruct (m s) as [[a s1]| | |], (m' s') as [[a' s1']| | |]; auto. destruct H. split; auto. apply geq_weaken; auto. Qed.

Create HintDb rldb.
Global Hint Resolve rel_peek_token rel_get_token rel_ret rel_err rel_crash rel_set_ps rel_push_ps rel_pop_ps rel_push_mark rel_pop_mark rel_top_mark rel_peek_tok rel_get_tok rel_check : rldb.

(* structural automation: the two sides are the same program text; all tables agree *)
Lemma rel_bindT {A B} (m m' : P A) (k k' : A -> P B) :
  rel true true m m' -> (forall a, rel true true (k a) (k' a)) -> rel true true (pbind m k) (pbind m' k').
Proof. apply rel_bind. Qed.
Ltac rl :=
  repeat first
    [ solve [auto with rldb nocore]
    | match goal with
      | |- rel _ _ (if ?b then _ else _) (if ?b then _ else _) => destruct b
      | |- rel _ _ (match ?x with _ => _ end) (match ?x with _ => _ end) => destruct x
      | |- rel _ _ (let '(_, _) := ?p in _) _ => destruct p
      end
    | apply rel_bindT; [|intros ?] ].

Lemma rel_directives_loop hd : forall fuel ver hs, rel hd hd (directives_loop fuel ver hs) (directives_loop fuel ver hs).
Proof.
  induction fuel as [|f IH]; intros ver hs; cbn [directives_loop]; [intros s s' _; exact Logic.I|].
  eapply rel_bind; [apply rel_check|]. intros b. destruct b; [|apply rel_ret].
  eapply rel_bind; [apply rel_get_tok|]. intros t.
  repeat match goal with |- rel _ _ (match ?d with _ => _ end) _ => destruct d | |- rel _ _ (if ?b then _ else _) _ => destruct b end; try apply rel_err; apply IH.
Qed.
Lemma rel_process_directives hd : rel hd true process_directives process_directives.
Proof.
  unfold process_directives. apply rel_get_bind. intros s0 s0' Hg. replace (toks s0') with (toks s0) by apply Hg.
  eapply rel_bind; [apply rel_directives_loop|]. intros [ver hs]. eapply rel_bind; [apply rel_set_handles|]. intros _. apply rel_ret.
Qed.

Lemma rel_parse_node b i : rel true true (parse_node b i) (parse_node b i).
Proof.
  unfold parse_node. apply rel_bindT; [apply rel_check|]. intros al. destruct al; [rl|].
  apply rel_bindT; [apply rel_check|]. intros an. apply rel_bindT; [rl|]. intros r.
  destruct r as [[[[anchor tagtok] smark] emark] tmark]. apply rel_get_bind. intros s0 s0' Hg.
  replace (handles s0') with (handles s0) by (apply Hg; reflexivity). rl.
Qed.
Global Hint Resolve rel_parse_node : rldb.

(* the loop over extra '...' tokens of parse_document_start (same term as the local fix) *)
Fixpoint skip (fuel : nat) : P unit := match fuel with O => fun _ => OutOfFuel | S f =>
      b <~ check (is_ TDocEnd) ;; if b then get_tok ;;~ skip f else pret tt end.
Lemma rel_skip hd : forall fuel, rel hd hd (skip fuel) (skip fuel).
Proof.
  induction fuel as [|f IH]; cbn [skip]; [intros s s' _; exact Logic.I|].
  eapply rel_bind; [apply rel_check|]. intros b. destruct b; [|apply rel_ret]. eapply rel_bind; [apply rel_get_tok|]. intros _. apply IH.
Qed.

(* outcomes related by an arbitrary relation on the final states *)
Definition req_gen {A} (S : pst -> pst -> Prop) (r r' : res (A * pst)) : Prop :=
  match r, r' with
  | Ok (a, s), Ok (a', s') => a = a' /\ S s s'
  | ScanErr c e p, ScanErr c' e' p' => c = c' /\ e = e' /\ p = p'
  | Crash e, Crash e' => e = e'
  | OutOfFuel, OutOfFuel => True
  | _, _ => False
  end.
Lemma req_gen_of {A} hd (S : pst -> pst -> Prop) (r r' : res (A * pst)) : (forall s s', geq hd s s' -> S s s') -> req hd r r' -> req_gen S r r'.
Proof. intros HS H. unfold req, req_gen in *. destruct r as [[a s]| | |], r' as [[a' s']| | |]; auto. destruct H. auto. Qed.
Lemma bind_gen {A B} hd hd1 (S : pst -> pst -> Prop) (m m' : P A) (k k' : A -> P B) :
  rel hd hd1 m m' -> (forall a s s', geq hd1 s s' -> req_gen S (k a s) (k' a s')) -> forall s s', geq hd s s' -> req_gen S (pbind m k s) (pbind m' k' s').
Proof.
  intros Hm Hk s s' Hg. unfold pbind. specialize (Hm s s' Hg). unfold req in Hm.
  destruct (m s) as [[a s1]| | |], (m' s') as [[a' s1']| | |]; try contradiction; try exact Hm.
  destruct Hm as [-> Hg1]. apply Hk, Hg1.
Qed.
Lemma get_bind_gen {B} (S : pst -> pst -> Prop) (k k' : pst -> P B) s s' : req_gen S (k s s) (k' s' s') -> req_gen S (pbind pget k s) (pbind pget k' s').
Proof. unfold pbind, pget. auto. Qed.
(* after a step: everything but the version agrees, or both runs are over *)
Definition after (s s' : pst) : Prop := geq true s s' \/ (pstate_ s = None /\ pstate_ s' = None).

(* parse_document_start in named pieces (the same term) *)
Definition pds_doc : P event :=
    t <~ peek_tok ;;
    let start := t_start t in
    vt <~ process_directives ;;
    ds <~ check (is_ TDocStart) ;;
    if negb ds then t2 <~ peek_tok ;; perr None 7 (t_start t2) else
    t3 <~ get_tok ;;
    push_ps PDocEnd ;;~ set_ps (Some PDocContent) ;;~
    pret (mk (VDocStart true (fst vt) (snd vt)) start (t_end t3)).
Definition pds_end : P event :=
    t <~ get_tok ;;
    s <~ pget ;;
    match pstates s, pmarks s with
    | [], [] => set_ps None ;;~ pret (mk VStreamEnd (t_start t) (t_end t))
    | _, _ => fun _ => Crash ValueError
    end.
Lemma pds_eq : parse_document_start = (s <~ pget ;; skip (S (S (length (toks s)))) ;;~ se <~ check (is_ TStreamEnd) ;; if negb se then pds_doc else pds_end).
Proof. reflexivity. Qed.
Lemma rel_pds_doc hd : rel hd true pds_doc pds_doc.
Proof.
  unfold pds_doc. eapply rel_bind; [apply rel_peek_tok|]. intros t. eapply rel_bind; [apply rel_process_directives|]. intros vt.
  apply rel_bindT; [apply rel_check|]. intros ds. destruct (negb ds); rl.
Qed.

(* a document start: the tables of tag handles need not agree before it; they do after it (unless the stream ends here) *)
Lemma rel_parse_document_start hd : forall s s', geq hd s s' -> req_gen after (parse_document_start s) (parse_document_start s').
Proof.
  intros s s' Hg0. rewrite pds_eq. apply get_bind_gen. replace (toks s') with (toks s) by apply Hg0.
  refine (bind_gen hd hd after _ _ _ _ (rel_skip hd (S (S (length (toks s))))) _ s s' Hg0). intros _ s1 s1' Hg1.
  refine (bind_gen hd hd after _ _ _ _ (rel_check hd _) _ s1 s1' Hg1). intros se s2 s2' Hg2. destruct (negb se).
  - apply (req_gen_of true); [intros x y H; left; exact H|]. exact (rel_pds_doc hd s2 s2' Hg2).
  - unfold pds_end. refine (bind_gen hd hd after _ _ _ _ (rel_get_tok hd) _ s2 s2' Hg2). intros t s3 s3' Hg3. apply get_bind_gen.
    replace (pstates s3') with (pstates s3) by apply Hg3. replace (pmarks s3') with (pmarks s3) by apply Hg3.
    destruct (pstates s3), (pmarks s3); try reflexivity. cbn. split; [reflexivity|]. right. split; reflexivity.
Qed.

Definition doc_start_state (s : pst) : Prop := pstate_ s = Some PDocStart \/ pstate_ s = Some PImplicitDocStart.

(* one step: from states that agree on everything but the version - and, at a document start, the handles - the same event (or the same
   error) and states that agree on everything but the version (or both runs are over) *)
Lemma rel_step_start : forall s s', geq false s s' -> doc_start_state s -> req_gen after (step s) (step s').
Proof.
  intros s s' Hg Hd. unfold step. apply get_bind_gen. assert (Ep : pstate_ s' = pstate_ s) by (symmetry; apply Hg). rewrite Ep.
  assert (Hfin : forall (m m' : P event) x y, req_gen after (m x) (m' y) -> req_gen after (pbind m (fun e => pret (Some e)) x) (pbind m' (fun e => pret (Some e)) y)).
  { intros m m' x y H. unfold pbind, req_gen in *. destruct (m x) as [[a s1]| | |], (m' y) as [[a' s1']| | |]; auto. destruct H as [-> H]. cbn. auto. }
  destruct Hd as [Hd|Hd]; rewrite Hd; apply Hfin.
  - apply (rel_parse_document_start false), Hg.
  - refine (bind_gen false false after _ _ _ _ (rel_check false _) _ s s' Hg). intros b s1 s1' Hg1. destruct (negb b); [|apply (rel_parse_document_start false), Hg1].
    apply (req_gen_of true); [intros x y H; left; exact H|]. revert s1 s1' Hg1.
    change (rel false true (set_handles default_tags (version_ s) ;;~ t <~ peek_tok ;; push_ps PDocEnd ;;~ set_ps (Some PBlockNode) ;;~ pret (mk (VDocStart false None []) (t_start t) (t_start t)))
                           (set_handles default_tags (version_ s') ;;~ t <~ peek_tok ;; push_ps PDocEnd ;;~ set_ps (Some PBlockNode) ;;~ pret (mk (VDocStart false None []) (t_start t) (t_start t)))).
    eapply rel_bind; [apply rel_set_handles|]. intros _. rl.
Qed.
Lemma rel_step : forall s s', geq true s s' -> req_gen after (step s) (step s').
Proof.
  intros s s' Hg. destruct (pstate_ s) as [ps|] eqn:Eps.
  2:{ unfold step. apply get_bind_gen. assert (Ep : pstate_ s' = pstate_ s) by (symmetry; apply Hg). rewrite Ep, Eps. cbn. split; [reflexivity|left; exact Hg]. }
  assert (pstate_eq_dec : forall a b : pstate, {a = b} + {a <> b}) by (decide equality).
  destruct (pstate_eq_dec ps PDocStart) as [->|N1]; [apply rel_step_start; [apply geq_weaken, Hg|left; exact Eps]|].
  destruct (pstate_eq_dec ps PImplicitDocStart) as [->|N2]; [apply rel_step_start; [apply geq_weaken, Hg|right; exact Eps]|].
  unfold step. apply (req_gen_of true); [intros x y H; left; exact H|]. change (req true) with (@req (option event) true). apply (get_bind_gen (geq true)). assert (Ep : pstate_ s' = pstate_ s) by (symmetry; apply Hg). rewrite Ep, Eps.
  refine (rel_bindT _ _ _ _ _ _ s s' Hg); [|intros e; apply rel_ret].
  destruct ps; try contradiction; rl.
Qed.

(* ---------- the whole run ---------- *)
Lemma step_over s : pstate_ s = None -> step s = Ok (None, s).
Proof. intros H. unfold step, pbind, pget. rewrite H. reflexivity. Qed.
Lemma loop_after : forall fuel acc s s', after s s' -> parse_loop fuel acc s = parse_loop fuel acc s'.
Proof.
  induction fuel as [|f IH]; intros acc s s' Ha; cbn [parse_loop]; [reflexivity|].
  destruct Ha as [Hg|[H1 H2]].
  - pose proof (rel_step s s' Hg) as H. unfold req_gen in H.
    destruct (step s) as [[e s1]| | |], (step s') as [[e' s1']| | |]; try contradiction; try (destruct H as (-> & -> & ->); reflexivity); try (subst; reflexivity).
    destruct H as [-> Ha]. destruct e'; [apply IH, Ha|reflexivity].
  - rewrite (step_over s H1), (step_over s' H2). reflexivity.
Qed.
Lemma loop_start : forall fuel acc s s', geq false s s' -> doc_start_state s -> parse_loop fuel acc s = parse_loop fuel acc s'.
Proof.
  intros [|f] acc s s' Hg Hd; cbn [parse_loop]; [reflexivity|].
  pose proof (rel_step_start s s' Hg Hd) as H. unfold req_gen in H.
  destruct (step s) as [[e s1]| | |], (step s') as [[e' s1']| | |]; try contradiction; try (destruct H as (-> & -> & ->); reflexivity); try (subst; reflexivity).
  destruct H as [-> Ha]. destruct e'; [apply loop_after, Ha|reflexivity].
Qed.

(* EVERY token list, every point between two documents (the parser about to start a document, any stacks), any fuel:
   whatever table of tag handles and whatever %YAML version the earlier documents left behind, the rest of the run -
   events, marks, error or normal end - is the same.  Directives of one document are never visible in a later one. *)
Theorem directives_do_not_leak : forall fuel acc ts p stk mks h v h' v', p = PDocStart \/ p = PImplicitDocStart ->
  parse_loop fuel acc {| toks := ts; pstate_ := Some p; pstates := stk; pmarks := mks; handles := h; version_ := v |} =
  parse_loop fuel acc {| toks := ts; pstate_ := Some p; pstates := stk; pmarks := mks; handles := h'; version_ := v' |}.
Proof.
  intros fuel acc ts p stk mks h v h' v' Hp. apply loop_start.
  - unfold geq. cbn. intuition discriminate.
  - unfold doc_start_state. cbn. destruct Hp as [-> | ->]; auto.
Qed.
(* the %YAML version kept in the parser state is dead: it never influences anything the parser delivers *)
Theorem version_is_never_read : forall fuel acc s v,
  parse_loop fuel acc s = parse_loop fuel acc {| toks := toks s; pstate_ := pstate_ s; pstates := pstates s; pmarks := pmarks s; handles := handles s; version_ := v |}.
Proof. intros. apply loop_after. left. unfold geq. cbn. intuition. Qed.

(* non-vacuity: the handles do matter inside a document - the same tokens with a different table give a different run *)
Example handles_matter_inside_a_document :
  let m := {| m_index := 0; m_line := 0; m_col := 0 |} in
  let tk k := {| t_kind := k; t_start := m; t_end := m |} in
  let ts := [tk (TTag (Some [33;101;33]%N) [120%N]); tk (TScalar [97%N] true SPlain); tk TStreamEnd] in
  let st h := {| toks := ts; pstate_ := Some PBlockNode; pstates := [PDocEnd]; pmarks := []; handles := h; version_ := None |} in
  parse_loop 4 [] (st []) <> parse_loop 4 [] (st [([33;101;33]%N, [116%N])]).
Proof. vm_compute. intros H. discriminate H. Qed.

