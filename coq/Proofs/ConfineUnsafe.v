(* non-vacuity for C01/C04: the unsafe loader does reach the instantiating code *)
From Coq Require Import List String Ascii Bool Arith.
Import ListNotations.
Require Import Registry GenHistory CallGraph GenCalls Dispatch Confinement ConfineLemmas.
Open Scope string_scope.

Lemma l_unsafe_closure_not_confined : confined full_leaf_ok full_method_ok (reach w0 methods "UnsafeLoader" false) = false.
Proof. vm_compute. reflexivity. Qed.
