(* C08: D-obligations on the regenerated resolver regexes, discharged with the certified decision procedure. *)
From Coq Require Import List NArith Bool.
Import ListNotations.
Require Import Regex RegexDec GenRegex Yaml11Types Scan Parse Construct.
Open Scope N_scope.

Definition sigma := Chr [(0, 1114111)].
Definition any := Star sigma.
(* texts a plain scalar can have: not ending in a line feed *)
Definition no_trailing_lf := Alt Eps (Cat any (Chr [(0, 9); (11, 1114111)])).
Definition starts_in (s : cset) (eps : bool) := let r := Cat (Chr s) any in if eps then Alt Eps r else r.
Definition FUEL := (1000 * 300)%nat.
Definition is_empty (r : re) : bool := match empty_dec FUEL r with Some true => true | _ => false end.
Definition incl (r s : re) : bool := is_empty (And r (Not s)).

Lemma incl_sound r s : incl r s = true -> forall w, matches r w = true -> matches s w = true.
Proof.
  unfold incl, is_empty. intros H. destruct (empty_dec FUEL (And r (Not s))) as [[|]|] eqn:E; try discriminate.
  apply (incl_dec_sound FUEL r s E).
Qed.
Lemma is_empty_sound r : is_empty r = true -> forall w, matches r w = false.
Proof.
  unfold is_empty. intros H. destruct (empty_dec FUEL r) as [[|]|] eqn:E; try discriminate. apply (empty_dec_sound FUEL r E).
Qed.
Lemma matches_and a b w : matches (And a b) w = true <-> matches a w = true /\ matches b w = true.
Proof.
  split.
  - intros H. apply matches_ok in H. destruct H as [Ha Hb]. split; apply matches_ok; auto.
  - intros [Ha Hb]. apply matches_ok. split; apply matches_ok; auto.
Qed.

(* ---- index_complete: the first-character index never hides a match on plain-scalar texts ---- *)
Definition index_ok (x : list N * re * cset * bool) : bool := let '(_, r, f, e) := x in incl (And r no_trailing_lf) (starts_in f e).
Lemma index_ok_eq (t : list N) r f e : index_ok (t, r, f, e) = incl (And r no_trailing_lf) (starts_in f e).
Proof. unfold index_ok. reflexivity. Qed.
Lemma index_complete_ok : forallb index_ok resolvers = true.
Proof. vm_compute. reflexivity. Qed.
Lemma l_index_complete : forall t r f e, In (t, r, f, e) resolvers ->
  forall w, matches r w = true -> matches no_trailing_lf w = true -> matches (starts_in f e) w = true.
Proof.
  intros t r f e Hin w Hr Hn.
  pose proof (proj1 (forallb_forall index_ok resolvers) index_complete_ok _ Hin) as H. rewrite index_ok_eq in H.
  apply (incl_sound _ _ H). apply matches_and. auto.
Qed.
Lemma l_index_complete_all_strings_refuted :
  matches re_null [10] = true /\ matches (starts_in first_null first_eps_null) [10] = false.
Proof. vm_compute. split; reflexivity. Qed.

(* ---- types_disjoint: the resolver languages are pairwise disjoint, so registration order is immaterial ---- *)
Fixpoint pairs {A} (l : list A) : list (A * A) := match l with [] => [] | x :: l' => map (pair x) l' ++ pairs l' end.
Definition res_of (x : list N * re * cset * bool) : re := let '(_, r, _, _) := x in r.
Definition disjoint_ok (p : re * re) : bool := is_empty (And (fst p) (snd p)).
Lemma disjoint_ok_eq a b : disjoint_ok (a, b) = is_empty (And a b).
Proof. unfold disjoint_ok. reflexivity. Qed.
Lemma types_disjoint_ok : forallb disjoint_ok (pairs (map res_of resolvers)) = true.
Proof. vm_compute. reflexivity. Qed.
Lemma l_types_disjoint : forall a b, In (a, b) (pairs (map res_of resolvers)) -> forall w, matches a w = true -> matches b w = true -> False.
Proof.
  intros a b Hin w Ha Hb.
  pose proof (proj1 (forallb_forall disjoint_ok _) types_disjoint_ok _ Hin) as H. rewrite disjoint_ok_eq in H.
  pose proof (is_empty_sound _ H w) as E. assert (matches (And a b) w = true) by (apply matches_and; auto). congruence.
Qed.

(* ---- rules_unchanged: each regenerated language and first-list equals the frozen reference ---- *)
Definition same_lang (r s : re) : bool := incl r s && incl s r.
Lemma same_lang_eq r s : same_lang r s = incl r s && incl s r. Proof. reflexivity. Qed.
Definition rules_count_chk : bool := Nat.eqb (length resolvers) (length spec_resolvers).
Lemma rules_count_ok : rules_count_chk = true.
Proof. vm_compute. reflexivity. Qed.
Definition rule_ok (p : (list N * re * cset * bool) * (re * cset * bool)) : bool :=
  let '((_, r, f, e), (sr, sf, se)) := p in same_lang r sr && cset_eqb f sf && Bool.eqb e se.
Lemma rule_ok_eq (t : list N) r f e sr sf se : rule_ok ((t, r, f, e), (sr, sf, se)) = same_lang r sr && cset_eqb f sf && Bool.eqb e se.
Proof. unfold rule_ok. reflexivity. Qed.
Lemma rules_unchanged_ok : forallb rule_ok (combine resolvers spec_resolvers) = true.
Proof. vm_compute. reflexivity. Qed.
Lemma l_rules_unchanged : forall t r f e sr sf se, In ((t, r, f, e), (sr, sf, se)) (combine resolvers spec_resolvers) ->
  (forall w, matches r w = matches sr w) /\ f = sf /\ e = se.
Proof.
  intros t r f e sr sf se Hin.
  pose proof (proj1 (forallb_forall rule_ok _) rules_unchanged_ok _ Hin) as H. rewrite rule_ok_eq in H.
  apply andb_prop in H as [H H3]. apply andb_prop in H as [H1 H2].
  rewrite same_lang_eq in H1. apply andb_prop in H1 as [Ha Hb].
  split; [|split].
  - intros w. destruct (matches r w) eqn:E1, (matches sr w) eqn:E2; auto.
    + rewrite (incl_sound _ _ Ha w E1) in E2. discriminate.
    + rewrite (incl_sound _ _ Hb w E2) in E1. discriminate.
  - apply cset_eqb_eq; auto.
  - apply Bool.eqb_prop; auto.
Qed.

(* ---- the resolver model used by the correspondence = "first regex in registration order that matches" ---- *)
Definition resolve_decl (v : list N) : list N :=
  match filter (fun x : list N * re * cset * bool => matches (res_of x) v) resolvers with (t, _, _, _) :: _ => t | [] => t_str end.
Lemma filter_ext_in' {A} (f g : A -> bool) l : (forall x, In x l -> f x = g x) -> filter f l = filter g l.
Proof. induction l as [|x l IH]; simpl; intros H; auto. rewrite H by auto. rewrite IH; auto. Qed.
Lemma starts_in_spec f e v : matches (starts_in f e) v = true ->
  (match v with [] => e | c :: _ => cin c f end) = true.
Proof.
  intros H. apply matches_ok in H. unfold starts_in in H. destruct v as [|c v].
  - destruct e; auto. simpl in H. destruct H as (u & w & E & (c0 & Eu & _) & _). subst. discriminate.
  - assert (G : lang (Cat (Chr f) any) (c :: v)). { destruct e; auto. simpl in H. destruct H as [H|H]; [discriminate|exact H]. }
    simpl in G. destruct G as (u & w & E & (c0 & Eu & Hc) & _). subst. injection E as -> _. exact Hc.
Qed.
Lemma l_resolve_is_first_match : forall v b, matches no_trailing_lf v = true ->
  resolve_scalar false v true b = resolve_decl v.
Proof.
  intros v b Hn. unfold resolve_scalar, resolve_decl.
  rewrite (filter_ext_in' _ (fun x => matches (res_of x) v)); [reflexivity|].
  intros [[[t r] f] e] Hin. cbn [res_of]. destruct (matches r v) eqn:Hm; [|apply andb_false_r].
  rewrite andb_true_r. apply (starts_in_spec f e v). eapply l_index_complete; eauto.
Qed.
Lemma l_quoted_is_str : forall base v b, resolve_scalar base v false b = t_str.
Proof. intros base v b. unfold resolve_scalar. destruct base; reflexivity. Qed.
Lemma l_base_is_str : forall v a b, resolve_scalar true v a b = t_str.
Proof. reflexivity. Qed.

(* ---- timestamp: whatever the resolver calls a timestamp, the constructor's own regexp matches too (no None.groupdict()) ---- *)
Lemma timestamp_regexps_agree_ok : incl (And re_timestamp no_trailing_lf) re_ctor_timestamp = true.
Proof. vm_compute. reflexivity. Qed.
Lemma l_timestamp_regexps_agree : forall w, matches re_timestamp w = true -> matches no_trailing_lf w = true -> matches re_ctor_timestamp w = true.
Proof. intros w H1 H2. apply (incl_sound _ _ timestamp_regexps_agree_ok). apply matches_and; auto. Qed.

(* ---- int: every matched text must contain a digit of its base after the prefix.  Refuted on the pinned tree. ---- *)
Definition hexd := Chr [(48,57);(65,70);(97,102)].
Definition sign := Alt Eps (Chr [(43,43);(45,45)]).
Definition us := Star (Chr [(95,95)]).
Definition int_convertible : re :=     (* texts int() accepts after construct_yaml_int's stripping of '_' and the base prefix *)
  Cat sign (Alt (Cat (Chr [(48,48)]) (Cat (Chr [(120,120)]) (Cat us (Cat hexd (Star (Chr [(48,57);(65,70);(97,102);(95,95)]))))))
           (Alt (Cat (Chr [(48,48)]) (Cat (Chr [(98,98)]) (Cat us (Cat (Chr [(48,49)]) (Star (Chr [(48,49);(95,95)]))))))
                (Cat (Chr [(48,57)]) (Star (Chr [(48,57);(95,95);(58,58)]))))).
Lemma l_int_converter_total_refuted : matches re_int [48;120;95] = true /\ matches int_convertible [48;120;95] = false.
Proof. vm_compute. split; reflexivity. Qed.
