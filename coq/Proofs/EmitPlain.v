(* C02/C05: the plain style end to end - what the emitter model's write_plain writes (no folding) is the text itself, and the scanner
   model reads it back (Plain.plain_roundtrip). *)
From Coq Require Import List NArith ZArith Bool Arith Lia.
Import ListNotations.
Require Import Emit.
Require EmitSQ EmitSafe Plain.

Definition otext := EmitSQ.otext.
(* "m returns a value satisfying P and appends d to the stream" *)
Definition writesv {A} (m : M A) (d : str) (P : A -> Prop) : Prop :=
  forall s, exists a s', m s = Ok (a, s') /\ otext s' = otext s ++ d /\ P a.
Lemma wv_ret {A} (a : A) (P : A -> Prop) : P a -> writesv (ret a) [] P.
Proof. intros Pa s. exists a, s. rewrite app_nil_r. auto. Qed.
Lemma wv_bind {A B} (m : M A) (k : A -> M B) d1 d2 P R : writesv m d1 P -> (forall a, P a -> writesv (k a) d2 R) -> writesv (bind m k) (d1 ++ d2) R.
Proof.
  intros Hm Hk s. destruct (Hm s) as (a & s1 & E1 & O1 & Pa). destruct (Hk a Pa s1) as (b & s2 & E2 & O2 & Rb).
  exists b, s2. unfold bind. rewrite E1. split; [exact E2|]. split; [rewrite O2, O1, app_assoc; reflexivity|exact Rb].
Qed.
Lemma wv_get_bind {B} (k : st -> M B) d R : (forall s0, writesv (k s0) d R) -> writesv (bind get k) d R.
Proof. intros H s. unfold bind, get. apply H. Qed.
Lemma wv_write_col d : writesv (write_col d) d (fun _ => True).
Proof. intros s. destruct (EmitSQ.otext_write_col d s) as (s1 & W & O & _). exists tt, s1. auto. Qed.
Lemma wv_modify f : (forall s, out (f s) = out s) -> writesv (modify f) [] (fun _ => True).
Proof. intros Hf s. exists tt, (f s). split; [reflexivity|]. unfold otext, EmitSQ.otext. rewrite Hf, app_nil_r. auto. Qed.
Lemma wv_weaken {A} (m : M A) d (P R : A -> Prop) : writesv m d P -> (forall a, P a -> R a) -> writesv m d R.
Proof. intros H HPR s. destruct (H s) as (a & s' & E & O & Pa). exists a, s'. auto. Qed.

Lemma wv_then_ret {A} (m : M unit) (a : A) d (P : A -> Prop) : writesv m d (fun _ => True) -> P a -> writesv (m ;;; ret a) d P.
Proof.
  intros Hm Pa s. destruct (Hm s) as (u & s1 & E1 & O1 & _). exists a, s1. unfold bind. rewrite E1. cbn. auto.
Qed.
Lemma len_app (a b : list cp) : length (a ++ b) = length a + length b.
Proof. induction a as [|x a IH]; cbn; auto. Qed.
Lemma app_assoc' (a b c : list cp) : (a ++ b) ++ c = a ++ b ++ c.
Proof. induction a as [|x a IH]; cbn; [reflexivity|f_equal; exact IH]. Qed.
Definition nosb (c : cp) : bool := negb (mem c brk4).
Lemma pl_loop_text split : split = false -> forall rest_ fuel done pending spaces,
  forallb nosb rest_ = true -> length rest_ + 2 <= fuel ->
  writesv (pl_loop fuel (done ++ pending ++ rest_) split (length done + length pending) (length done) spaces false) (pending ++ rest_) (fun _ => True).
Proof.
  intros ->. induction rest_ as [|c r IH]; intros fuel done pending spaces Hn Hf.
  - destruct fuel as [|f]; [cbn in Hf; lia|]. assert (Hf1 : 1 <= f) by (cbn in Hf; lia).
    assert (Hlen : length (done ++ pending ++ []) = length done + length pending) by (rewrite !app_length; cbn; lia).
    cbn [pl_loop]. rewrite Hlen, Nat.ltb_irrefl.
    assert (Hfin : forall st', writesv (pl_loop f (done ++ pending ++ []) false (S (length done + length pending)) st' spaces false) [] (fun _ => True)).
    { intros st'. destruct f as [|f']; [lia|]. cbn [pl_loop]. rewrite Hlen. replace (Nat.ltb (length done + length pending) (S (length done + length pending))) with true by (symmetry; apply Nat.ltb_lt; lia). apply wv_ret. exact Logic.I. }
    eapply wv_bind with (P := fun _ => True); [|intros st' _; apply Hfin].
    destruct spaces; cbn [is_sp negb].
    + apply wv_get_bind. intros s0. rewrite andb_false_r. apply wv_then_ret; [|exact Logic.I]. rewrite (EmitSQ.slice_mid done pending []). apply wv_write_col.
    + apply wv_then_ret; [|exact Logic.I]. rewrite (EmitSQ.slice_mid done pending []). apply wv_write_col.
  - destruct fuel as [|f]; [cbn in Hf; lia|]. assert (Hf' : length r + 2 <= f) by (cbn in Hf; lia).
    cbn [forallb] in Hn. apply andb_prop in Hn as [Hc Hn]. unfold nosb in Hc. apply negb_true_iff in Hc.
    assert (Hlen : length (done ++ pending ++ c :: r) = length done + length pending + S (length r)) by (rewrite !app_length; cbn; lia).
    cbn [pl_loop]. rewrite Hlen.
    replace (Nat.ltb (length done + length pending + S (length r)) (length done + length pending)) with false by (symmetry; apply Nat.ltb_ge; lia).
    replace (Nat.ltb (length done + length pending) (length done + length pending + S (length r))) with true by (symmetry; apply Nat.ltb_lt; lia).
    rewrite EmitSQ.nth_mid. cbn [is_sp]. rewrite Hc.
    (* the two continuations: the pending piece was flushed / is kept *)
    assert (KF : writesv (pl_loop f (done ++ pending ++ c :: r) false (S (length done + length pending)) (length done + length pending) (N.eqb c SP) false) (c :: r) (fun _ => True)).
    { pose proof (IH f (done ++ pending) [c] (N.eqb c SP) Hn Hf') as H.
      replace (length (done ++ pending)) with (length done + length pending) in H by (symmetry; apply len_app). cbn [length] in H.
      replace (length done + length pending + 1) with (S (length done + length pending)) in H by lia.
      replace ((done ++ pending) ++ [c] ++ r) with (done ++ pending ++ c :: r) in H by (rewrite !app_assoc'; reflexivity). exact H. }
    assert (KK : writesv (pl_loop f (done ++ pending ++ c :: r) false (S (length done + length pending)) (length done) (N.eqb c SP) false) (pending ++ c :: r) (fun _ => True)).
    { pose proof (IH f done (pending ++ [c]) (N.eqb c SP) Hn Hf') as H.
      replace (length (pending ++ [c])) with (length pending + 1) in H by (symmetry; apply len_app). cbn [length] in H.
      replace (length done + (length pending + 1)) with (S (length done + length pending)) in H by lia.
      replace (done ++ (pending ++ [c]) ++ r) with (done ++ pending ++ c :: r) in H by (rewrite !app_assoc'; reflexivity).
      replace ((pending ++ [c]) ++ r) with (pending ++ c :: r) in H by (rewrite !app_assoc'; reflexivity). exact H. }
    destruct spaces.
    + destruct (N.eqb c SP) eqn:Esp; cbn [negb].
      * change (pending ++ c :: r) with ([] ++ pending ++ c :: r). eapply wv_bind with (P := fun st' => st' = length done); [apply wv_ret; reflexivity|]. intros st' ->. exact KK.
      * eapply wv_bind with (P := fun st' => st' = length done + length pending); [|intros st' ->; exact KF].
        apply wv_get_bind. intros s0. rewrite andb_false_r. apply wv_then_ret; [|reflexivity]. rewrite (EmitSQ.slice_mid done pending (c :: r)). apply wv_write_col.
    + destruct (mem c (SP :: brk4)) eqn:Em.
      * assert (Esp : N.eqb c SP = true).
        { unfold mem in Em. cbn [existsb] in Em. apply orb_prop in Em as [H|H]; [exact H|]. unfold mem in Hc. rewrite Hc in H. discriminate. }
        eapply wv_bind with (P := fun st' => st' = length done + length pending); [|intros st' ->; exact KF].
        apply wv_then_ret; [|reflexivity]. rewrite (EmitSQ.slice_mid done pending (c :: r)). apply wv_write_col.
      * change (pending ++ c :: r) with ([] ++ pending ++ c :: r). eapply wv_bind with (P := fun st' => st' = length done); [apply wv_ret; reflexivity|]. intros st' ->. exact KK.
Qed.

(* the emitter model, for EVERY non-empty text without line break characters and every emitter state, without folding: write_plain writes an
   optional separating space and the text itself *)
Theorem write_plain_text : forall text s, text <> [] -> forallb nosb text = true ->
  exists s', write_plain text false s = Ok (tt, s') /\ otext s' = otext s ++ (if whitespace s then [] else [SP]) ++ text.
Proof.
  intros text s Hne Hn. unfold write_plain.
  assert (H : writesv (pl_loop (length text + 2) text false 0 0 false false) text (fun _ => True)).
  { exact (pl_loop_text false eq_refl text (length text + 2) [] [] false Hn (Nat.le_refl _)). }
  destruct text as [|c t]; [congruence|]. unfold bind at 1, get at 1.
  set (s1 := if root_ctx s then with_open true s else s).
  assert (E1 : (if root_ctx s then modify (with_open true) else ret tt) s = Ok (tt, s1)) by (unfold s1; destruct (root_ctx s); reflexivity).
  unfold bind at 1. rewrite E1. unfold bind at 1, get at 1.
  assert (O1 : otext s1 = otext s /\ whitespace s1 = whitespace s) by (unfold s1; destruct (root_ctx s); auto).
  destruct O1 as [O1 W1]. rewrite W1.
  destruct (whitespace s) eqn:Ew; cbn [negb].
  - unfold bind at 1. cbn [ret]. unfold bind at 1, modify at 1.
    destruct (H (with_pos (eline s1) (column s1) false false s1)) as (u & s' & E & O & _). destruct u. exists s'. split; [exact E|]. rewrite O. cbn. unfold otext, EmitSQ.otext in *. cbn. rewrite O1. reflexivity.
  - destruct (EmitSQ.otext_write_col [SP] s1) as (s2 & W & O2 & _). unfold bind at 1. rewrite W. unfold bind at 1, modify at 1.
    destruct (H (with_pos (eline s2) (column s2) false false s2)) as (u & s' & E & O & _). destruct u. exists s'. split; [exact E|]. rewrite O.
    unfold otext, EmitSQ.otext in *. cbn. rewrite O2, O1. rewrite <- app_assoc. reflexivity.
Qed.

Lemma plainok_nosb x t : Plain.plainok x t -> forallb nosb t = true.
Proof.
  assert (Hw : forall w y, Plain.wok w y = true -> forallb nosb w = true).
  { intros w y H. apply Plain.wok_wc in H. revert H. apply Plain.forallb_impl. intros c Hc. unfold Plain.wc in Hc. apply negb_true_iff in Hc.
    unfold nosb. apply negb_true_iff. unfold Scan.mem, Scan.blankz in Hc. cbn [existsb] in Hc. repeat (apply orb_false_iff in Hc as [? Hc]).
    unfold mem, brk4. cbn [existsb]. unfold Scan.LF, Scan.NEL, Scan.LS, Scan.PS, LF, NEL, LS, PS in *.
    repeat match goal with E : N.eqb c _ = false |- _ => rewrite E; clear E end. reflexivity. }
  induction 1 as [w (_ & H & _)|w sps t' (_ & H & _) _ Hs _ IH]; [exact (Hw _ _ H)|].
  rewrite forallb_app. apply andb_true_intro. split; [exact (Hw _ _ H)|]. rewrite forallb_app. apply andb_true_intro. split; [|exact IH].
  revert Hs. apply Plain.forallb_impl. intros c Hc. unfold Scan.is_sp in Hc. apply N.eqb_eq in Hc. subst c. reflexivity.
Qed.
Lemma plainok_nonempty x t : Plain.plainok x t -> t <> [].
Proof. intros H. destruct (Plain.plainok_head x t H) as (c & t0 & -> & _). discriminate. Qed.

(* writer and reader together: a one-line text of words and runs of spaces written by the emitter model's write_plain (no fold, after
   whitespace) and followed by the end of the input - or by a line feed and the end of the input - is read back by the scanner
   model's scan_plain, in block context at a column inside the current indentation, as exactly that text *)
Theorem plain_emit_then_scan : forall x text r s, Plain.plainok x text -> Plain.ender x r -> whitespace s = true ->
  exists s', write_plain text false s = Ok (tt, s') /\ otext s' = otext s ++ text /\
    forall sc, Scan.rest sc = text ++ x :: r -> Scan.flow_level sc = 0%Z -> (Scan.indent sc + 1 <= Z.of_nat (Scan.col sc))%Z ->
      exists tok sc', Scan.scan_plain sc = Scan.Ok (tok, sc') /\ Scan.t_kind tok = Scan.TScalar text true Scan.SPlain /\ Scan.rest sc' = Plain.after x r.
Proof.
  intros x text r s Hp He Hw. destruct (write_plain_text text s (plainok_nonempty _ _ Hp) (plainok_nosb _ _ Hp)) as (s' & W & O).
  exists s'. split; [exact W|]. split; [rewrite O, Hw; reflexivity|].
  intros sc Hr Hfl Hcol. exact (Plain.plain_roundtrip x text r sc Hp Hr He Hfl Hcol).
Qed.

