From Coq Require Import List NArith Bool Lia Arith.
Import ListNotations.

(* outcomes with explicit Crash (what Python would raise) and OutOfFuel *)
Inductive res (A : Type) := Ok (a : A) | YamlErr (pos : nat) | Crash | OutOfFuel.
Arguments Ok {A}. Arguments YamlErr {A}. Arguments Crash {A}. Arguments OutOfFuel {A}.

Definition cp := N.
Record rd := { buf : list cp; pos : nat }.          (* eager reader: buf = text ++ [0] *)

Definition peek (r : rd) (i : nat) : res cp :=
  match nth_error (buf r) (pos r + i) with Some c => Ok c | None => Crash end.   (* IndexError *)
Definition fwd (r : rd) (n : nat) : rd := {| buf := buf r; pos := pos r + n |}.

Definition mem (c : cp) (s : list cp) : bool := existsb (N.eqb c) s.

(* invariant: pointer inside the buffer, NUL is the last character and only there *)
Definition inv (r : rd) : Prop :=
  exists text, buf r = text ++ [0%N] /\ ~ In 0%N text /\ pos r <= length text.

Lemma inv_peek0 r : inv r -> exists c, peek r 0 = Ok c.
Proof.
  intros (t & Hb & _ & Hp). unfold peek. rewrite Nat.add_0_r.
  destruct (nth_error (buf r) (pos r)) eqn:E; eauto.
  apply nth_error_None in E. rewrite Hb, app_length in E. simpl in E. lia.
Qed.

(* if the character at offset i is not NUL then offset i+1 is still inside *)
Lemma peek_next r i c : inv r -> peek r i = Ok c -> c <> 0%N -> exists c', peek r (S i) = Ok c'.
Proof.
  intros (t & Hb & Hn & Hp) H Hc. unfold peek in *.
  destruct (nth_error (buf r) (pos r + i)) eqn:E; [|discriminate]. injection H as ->.
  assert (pos r + i < length t).
  { destruct (Nat.lt_ge_cases (pos r + i) (length t)); auto.
    rewrite Hb in E. rewrite nth_error_app2 in E by lia.
    destruct (pos r + i - length t) eqn:D; simpl in E; [congruence|destruct n; discriminate]. }
  destruct (nth_error (buf r) (pos r + S i)) eqn:E'; eauto.
  apply nth_error_None in E'. rewrite Hb, app_length in E'. simpl in E'. lia.
Qed.

Lemma inv_fwd r n c : inv r -> peek r n = Ok c -> inv (fwd r n).
Proof.
  intros (t & Hb & Hn & Hp) H. exists t. repeat split; auto. simpl.
  unfold peek in H. destruct (nth_error (buf r) (pos r + n)) eqn:E; [|discriminate].
  assert (pos r + n < length (buf r)) by (apply nth_error_Some; congruence).
  rewrite Hb, app_length in H0. simpl in H0. lia.
Qed.

Lemma peek_fwd r n i : peek (fwd r n) i = peek r (n + i).
Proof. unfold peek, fwd; simpl. rewrite Nat.add_assoc. reflexivity. Qed.

(* ---- combinator 1:  n = 0; while peek(n) not in STOP: n += 1   (returns n) ---- *)
Fixpoint span_until (fuel : nat) (stop : list cp) (r : rd) (n : nat) : res nat :=
  match fuel with O => OutOfFuel | S f =>
    match peek r n with
    | Ok c => if mem c stop then Ok n else span_until f stop r (S n)
    | _ => Crash
    end end.

Lemma span_until_safe stop r : inv r -> mem 0%N stop = true ->
  forall fuel n, (exists c, peek r n = Ok c) -> length (buf r) - (pos r + n) <= fuel ->
  exists m c, span_until fuel stop r n = Ok m /\ n <= m /\ peek r m = Ok c /\ mem c stop = true.
Proof.
  intros Hi Hs. induction fuel as [|f IH]; intros n (c & Hc) Hf.
  - exfalso. unfold peek in Hc. destruct (nth_error (buf r) (pos r + n)) eqn:E; [|discriminate].
    assert (pos r + n < length (buf r)) by (apply nth_error_Some; congruence). lia.
  - simpl. rewrite Hc. destruct (mem c stop) eqn:Em.
    + exists n, c. auto.
    + assert (c <> 0%N) by (intros ->; congruence).
      destruct (peek_next r n c Hi Hc H) as (c' & Hc').
      destruct (IH (S n)) as (m & c2 & A & B & C & D); eauto.
      { lia. }
      exists m, c2. repeat split; auto. lia.
Qed.

(* ---- combinator 2:  while peek() in SET: forward()  ---- *)
Fixpoint skip_while (fuel : nat) (set : list cp) (r : rd) : res rd :=
  match fuel with O => OutOfFuel | S f =>
    match peek r 0 with
    | Ok c => if mem c set then skip_while f set (fwd r 1) else Ok r
    | _ => Crash
    end end.

Lemma skip_while_safe set : mem 0%N set = false ->
  forall fuel r, inv r -> length (buf r) - pos r <= fuel ->
  exists r', skip_while fuel set r = Ok r' /\ inv r' /\ pos r <= pos r' /\ buf r' = buf r.
Proof.
  intros Hs. induction fuel as [|f IH]; intros r Hi Hf.
  - exfalso. destruct Hi as (t & Hb & _ & Hp). rewrite Hb, app_length in Hf. simpl in Hf. lia.
  - simpl. destruct (inv_peek0 r Hi) as (c & Hc). rewrite Hc.
    destruct (mem c set) eqn:Em.
    + assert (c <> 0%N) by (intros ->; congruence).
      destruct (peek_next r 0 c Hi Hc H) as (c' & Hc').
      assert (Hi' : inv (fwd r 1)) by (eapply inv_fwd; eauto).
      destruct (IH (fwd r 1) Hi') as (r' & A & B & C & D). { simpl. lia. }
      exists r'. repeat split; auto. simpl in C. lia.
    + exists r. auto.
Qed.

(* ---- one real scanner function written with the combinators: scan_anchor (scanner.py:899-933) ---- *)
Definition alnum_stop_compl (c : cp) : bool :=   (* '0'..'9' 'A'..'Z' 'a'..'z' '-' '_' *)
  ((48 <=? c) && (c <=? 57) || (65 <=? c) && (c <=? 90) || (97 <=? c) && (c <=? 122) || (c =? 45) || (c =? 95))%N.
Fixpoint span_while_p (fuel : nat) (p : cp -> bool) (r : rd) (n : nat) : res nat :=
  match fuel with O => OutOfFuel | S f =>
    match peek r n with Ok c => if p c then span_while_p f p r (S n) else Ok n | _ => Crash end end.

Lemma span_while_p_safe p r : inv r -> p 0%N = false ->
  forall fuel n, (exists c, peek r n = Ok c) -> length (buf r) - (pos r + n) <= fuel ->
  exists m c, span_while_p fuel p r n = Ok m /\ n <= m /\ peek r m = Ok c /\ p c = false.
Proof.
  intros Hi Hs. induction fuel as [|f IH]; intros n (c & Hc) Hf.
  - exfalso. unfold peek in Hc. destruct (nth_error (buf r) (pos r + n)) eqn:E; [|discriminate].
    assert (pos r + n < length (buf r)) by (apply nth_error_Some; congruence). lia.
  - simpl. rewrite Hc. destruct (p c) eqn:Em.
    + assert (c <> 0%N) by (intros ->; congruence).
      destruct (peek_next r n c Hi Hc H) as (c' & Hc').
      destruct (IH (S n)) as (m & c2 & A & B & C & D); eauto. { lia. }
      exists m, c2. repeat split; auto. lia.
    + exists n, c. auto.
Qed.

Definition anchor_follow : list cp := [0; 32; 9; 13; 10; 133; 8232; 8233; 63; 58; 44; 93; 125; 37; 64; 96]%N.

(* precondition (established by fetch_anchor): peek 0 is '*' or '&' *)
Definition scan_anchor (fuel : nat) (r : rd) : res (list cp * rd) :=
  let r1 := fwd r 1 in
  match span_while_p fuel alnum_stop_compl r1 0 with
  | Ok 0 => YamlErr (pos r1)
  | Ok len =>
      let value := firstn len (skipn (pos r1) (buf r1)) in
      let r2 := fwd r1 len in
      match peek r2 0 with
      | Ok c => if mem c anchor_follow then Ok (value, r2) else YamlErr (pos r2)
      | _ => Crash end
  | YamlErr p => YamlErr p | Crash => Crash | OutOfFuel => OutOfFuel
  end.

Theorem scan_anchor_safe r c : inv r -> peek r 0 = Ok c -> c <> 0%N ->
  (exists v r', scan_anchor (length (buf r)) r = Ok (v, r') /\ inv r' /\ pos r < pos r')
  \/ (exists p, scan_anchor (length (buf r)) r = YamlErr p /\ p <= length (buf r)).
Proof.
  intros Hi Hc Hn.
  destruct (peek_next r 0 c Hi Hc Hn) as (c1 & Hc1).
  assert (Hi1 : inv (fwd r 1)) by (eapply inv_fwd; eauto).
  assert (P1 : peek (fwd r 1) 0 = Ok c1) by (rewrite peek_fwd; exact Hc1).
  destruct (span_while_p_safe alnum_stop_compl (fwd r 1) Hi1 eq_refl (length (buf r)) 0) as (m & c2 & A & B & C & D).
  { eauto. } { simpl. lia. }
  unfold scan_anchor. rewrite A. destruct m as [|m].
  - right. eexists. split; eauto. destruct Hi1 as (t & Hb & _ & Hp). simpl in *. rewrite Hb, app_length. simpl. lia.
  - assert (Hi2 : inv (fwd (fwd r 1) (S m))) by (eapply inv_fwd; eauto).
    assert (P2 : peek (fwd (fwd r 1) (S m)) 0 = Ok c2).
    { rewrite peek_fwd, Nat.add_0_r. exact C. }
    rewrite P2. destruct (mem c2 anchor_follow).
    + left. do 2 eexists. split; eauto. split; auto. simpl. lia.
    + right. eexists. split; eauto. destruct Hi2 as (t & Hb & _ & Hp). simpl in *. rewrite Hb, app_length. simpl. lia.
Qed.
Print Assumptions scan_anchor_safe.
