(* C14: flatten_mapping with ANY number of merge keys at any positions (each merging a mapping without merge keys of its own). *)
From Coq Require Import List NArith ZArith Bool Arith Lia.
Import ListNotations.
Require Import Scan Parse Construct Flatten.

(* the pairs of a mapping, read against the node store ns: plain pairs and merge pairs; m = the merged pairs in the order of the merge keys,
   o = the mapping's own pairs in their order *)
Inductive shape (ns : nstore) (id bound : nat) : list (nat * nat) -> list (nat * nat) -> list (nat * nat) -> Prop :=
| sh_nil : shape ns id bound [] [] []
| sh_plain k v r m o : k <> id -> plain_key ns k -> shape ns id bound r m o -> shape ns id bound ((k, v) :: r) m ((k, v) :: o)
| sh_merge k v r m o kn vn l : k <> id -> nth_error ns k = Some kn -> str_eqb (n_tag kn) t_merge = true ->
    v <> id -> nth_error ns v = Some vn -> n_kind vn = NMap l -> plain_items ns l -> (forall k' v', In (k', v') l -> k' <> id) -> length l < bound ->
    shape ns id bound r m o -> shape ns id bound ((k, v) :: r) (l ++ m) o.

(* the store changes at id only *)
Definition agree (id : nat) (ns ns' : nstore) : Prop := forall j, j <> id -> nth_error ns' j = nth_error ns j.
Lemma agree_plain id ns ns' k : agree id ns ns' -> k <> id -> plain_key ns k -> plain_key ns' k.
Proof. intros Ha Hk (kn & H1 & H2). exists kn. rewrite (Ha k Hk). auto. Qed.
Lemma agree_upd id ns ns' x : agree id ns ns' -> agree id ns (set_nth id x ns').
Proof. intros Ha j Hj. rewrite nth_set_nth_other by congruence. apply Ha, Hj. Qed.

Lemma with_items_twice n a b : with_items (with_items n a) b = with_items n b.
Proof. reflexivity. Qed.

Lemma floop_shape f' id ns0 : forall rest_ m o, shape ns0 id (f' + f') rest_ m o ->
  forall fuel done merge s n, agree id ns0 (nodes s) -> nth_error (nodes s) id = Some n -> n_kind n = NMap (done ++ rest_) -> length rest_ < fuel ->
  exists s', floop (flatten (S f')) id fuel (length done) merge s = LOk (tt, s') /\
             nth_error (nodes s') id = Some (with_items n ((merge ++ m) ++ done ++ o)) /\ agree id ns0 (nodes s').
Proof.
  induction 1 as [|k v r m o Hk Hpk Hsh IH|k v r m o kn vn l Hk Hkn Hkt Hv Hvn Hl Hpl Hlk Hll Hsh IH]; intros fuel done merge s n Ha Hn Hkind Hf.
  - (* end of the pairs *)
    destruct fuel as [|f1]; [cbn in Hf; lia|]. cbn [floop]. unfold kbind at 1. rewrite (get_node_eq _ _ _ Hn). cbv zeta.
    assert (Hm : map_items n = done ++ []) by (unfold map_items; rewrite Hkind; reflexivity).
    rewrite Hm. rewrite (proj2 (nth_error_None (done ++ []) (length done))) by (rewrite app_length; cbn; lia).
    rewrite !app_nil_r. destruct merge as [|p0 mr].
    + exists s. split; [reflexivity|]. split; [|exact Ha]. rewrite Hn. f_equal. destruct n as [t kd st]. cbn in Hkind. subst kd. unfold with_items. cbn. rewrite app_nil_r. reflexivity.
    + rewrite update_node_eq. eexists. split; [reflexivity|]. unfold upd. cbn [nodes]. split; [eapply nth_set_nth_same; eauto|apply agree_upd, Ha].
  - (* a plain pair *)
    destruct fuel as [|f1]; [cbn in Hf; lia|].
    assert (Hm : map_items n = done ++ (k, v) :: r) by (unfold map_items; rewrite Hkind; reflexivity).
    assert (Hi : nth_error (map_items n) (length done) = Some (k, v)) by (rewrite Hm, nth_error_app2, Nat.sub_diag; [reflexivity|lia]).
    rewrite (floop_plain_step _ id f1 (length done) merge s n k v Hn Hi (agree_plain _ _ _ _ Ha Hk Hpk)).
    destruct (IH f1 (done ++ [(k, v)]) merge s n Ha Hn) as (s' & E & Hn' & Ha'); [rewrite Hkind, <- app_assoc; reflexivity|cbn in Hf; lia|].
    exists s'. rewrite app_length in E. cbn [length] in E. rewrite Nat.add_1_r in E. split; [exact E|]. split; [|exact Ha'].
    rewrite Hn'. rewrite <- !app_assoc. reflexivity.
  - (* a merge pair *)
    destruct fuel as [|f1]; [cbn in Hf; lia|].
    assert (Hm : map_items n = done ++ (k, v) :: r) by (unfold map_items; rewrite Hkind; reflexivity).
    assert (Hi : nth_error (map_items n) (length done) = Some (k, v)) by (rewrite Hm, nth_error_app2, Nat.sub_diag; [reflexivity|lia]).
    assert (Hkn' : nth_error (nodes s) k = Some kn) by (rewrite (Ha k Hk); exact Hkn).
    cbn [floop]. unfold kbind at 1. rewrite (get_node_eq _ _ _ Hn). cbv zeta. rewrite Hi.
    unfold kbind at 1. rewrite (get_node_eq _ _ _ Hkn'). rewrite Hkt.
    unfold kbind at 1. rewrite update_node_eq. rewrite Hm, firstn_app_exact, skipn_app_exact.
    set (n1 := with_items n (done ++ r)). set (s1 := upd s id n1).
    assert (Ha1 : agree id ns0 (nodes s1)) by (unfold s1, upd; cbn [nodes]; apply agree_upd, Ha).
    assert (Hv1 : nth_error (nodes s1) v = Some vn) by (rewrite (Ha1 v Hv); exact Hvn).
    unfold kbind at 1. rewrite (get_node_eq _ _ _ Hv1). rewrite Hl.
    assert (Hmv : map_items vn = l) by (unfold map_items; rewrite Hl; reflexivity).
    unfold kbind at 1. rewrite (flatten_without_merge_is_identity f' v s1 vn Hv1); [| |rewrite Hmv; exact Hll].
    2:{ rewrite Hmv. intros k' v' Hin. apply (agree_plain id ns0); [exact Ha1|eapply Hlk; eauto|eapply Hpl; eauto]. }
    unfold kbind at 1. rewrite (get_node_eq _ _ _ Hv1). rewrite Hmv.
    assert (Hn1 : nth_error (nodes s1) id = Some n1) by (unfold s1, upd; cbn [nodes]; eapply nth_set_nth_same; eauto).
    destruct (IH f1 done (merge ++ l) s1 n1 Ha1 Hn1) as (s' & E & Hn' & Ha'); [reflexivity|cbn in Hf; lia|].
    exists s'. split; [exact E|]. split; [|exact Ha']. rewrite Hn'. unfold n1. rewrite with_items_twice, <- !app_assoc. reflexivity.
Qed.

(* ANY number of merge keys, anywhere among the pairs, each merging a mapping that has no merge key of its own: afterwards the mapping holds
   the merged pairs in the order of the merge keys (a later merge key comes later, so - inserted in this order - it overrides an earlier
   one), followed by its own pairs in their order (they override every merged pair); every `<<` pair is gone; no other node has changed *)
Theorem flatten_any_number_of_merges : forall f' id s n items m o,
  nth_error (nodes s) id = Some n -> n_kind n = NMap items -> shape (nodes s) id (f' + f') items m o -> length items < S f' + S f' ->
  exists s', flatten (S (S f')) id s = LOk (tt, s') /\ nth_error (nodes s') id = Some (with_items n (m ++ o)) /\
             (forall j, j <> id -> nth_error (nodes s') j = nth_error (nodes s) j).
Proof.
  intros f' id s n items m o Hn Hk Hs Hf. rewrite flatten_eq.
  destruct (floop_shape f' id (nodes s) items m o Hs (S f' + S f') [] [] s n) as (s' & E & Hn' & Ha); [intros j _; reflexivity|exact Hn|exact Hk|exact Hf|].
  exists s'. split; [exact E|]. split; [exact Hn'|exact Ha].
Qed.


(* non-vacuity: two ADJACENT merge keys followed by an own pair -  {<<: {a: 1}, <<: {b: 2}, c: 3}  *)
Example two_adjacent_merges :
  let mk0 := {| m_index := 0; m_line := 0; m_col := 0 |} in
  let sc t v := {| n_tag := t; n_kind := NScalar v SPlain; n_start := mk0 |} in
  let mp l := {| n_tag := t_map; n_kind := NMap l; n_start := mk0 |} in
  let ns := [mp [(1, 2); (3, 4); (5, 6)]; sc t_merge [60; 60]%N; mp [(7, 8)]; sc t_merge [60; 60]%N; mp [(9, 10)]; sc t_str [99%N]; sc t_int [51%N];
             sc t_str [97%N]; sc t_int [49%N]; sc t_str [98%N]; sc t_int [50%N]] in
  let s := {| nodes := ns; hp := []; cache := []; recursive := []; gens := [] |} in
  shape ns 0 4 [(1, 2); (3, 4); (5, 6)] [(7, 8); (9, 10)] [(5, 6)] /\
  match flatten 4 0 s with LOk (_, s') => option_map map_items (nth_error (nodes s') 0) = Some [(7, 8); (9, 10); (5, 6)] | _ => False end.
Proof.
  split.
  - eapply (sh_merge _ 0 4 1 2 _ [(9, 10)] [(5, 6)] _ _ [(7, 8)]); try reflexivity; try discriminate.
    + intros k v [E|[]]. injection E as <- <-. eexists. split; [reflexivity|]. split; reflexivity.
    + intros k v [E|[]]. injection E as <- <-. discriminate.
    + cbn. lia.
    + eapply (sh_merge _ 0 4 3 4 _ [] [(5, 6)] _ _ [(9, 10)]); try reflexivity; try discriminate.
      * intros k v [E|[]]. injection E as <- <-. eexists. split; [reflexivity|]. split; reflexivity.
      * intros k v [E|[]]. injection E as <- <-. discriminate.
      * cbn. lia.
      * apply sh_plain; [discriminate|eexists; split; [reflexivity|split; reflexivity]|apply sh_nil].
  - vm_compute. reflexivity.
Qed.
