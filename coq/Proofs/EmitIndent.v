(* C15: "the indentation of every line that starts a block collection entry is a multiple of the effective indent" on the emitter model:
   (1) the effective indent is the requested one when it lies between 2 and 9, otherwise 2; (2) in every run, after every event, the current indent
   and all saved indents are multiples of it (every function of the model keeps this, Proofs/EmitIndent.v, generated); (3) write_indent - the only
   place where the indentation of a line is written - leaves the column exactly at the current indent. *)
From Coq Require Import List NArith ZArith Bool Arith Lia.
Import ListNotations.
Require Import Emit EmitLemmas EmitFrame.

Definition effective_indent (ind : option nat) : nat := match ind with Some i => if Nat.ltb 1 i && Nat.ltb i 10 then i else 2 | None => 2 end.
Definition mult (b : nat) (o : option nat) : Prop := match o with None => True | Some i => exists k, i = k * b end.

(* the invariant as a predicate of the frame (indents, indent, options), for a fixed effective indent b *)
Definition QInd (b : nat) (x : list (option nat) * option nat * (bool * bool * nat * nat * str)) : Prop :=
  let '(is, i, (_, _, bi, _, _)) := x in bi = b /\ mult b i /\ Forall (mult b) is.
Lemma inc_keeps_QInd b flow indentless : keeps (QInd b) (increase_indent flow indentless).
Proof.
  intros s (Hb & Hi & Hs). unfold increase_indent, modify. cbv zeta.
  assert (Hpush : Forall (mult b) (indents s ++ [indent s])) by (apply Forall_app; split; [exact Hs|constructor; [exact Hi|constructor]]).
  cbn [fr] in *. destruct (indent s) as [i|] eqn:E.
  - destruct indentless; cbn; (split; [exact Hb|split; [|exact Hpush]]).
    + exact Hi.
    + destruct Hi as [k ->]. exists (S k). rewrite Hb. cbn. lia.
  - cbn. split; [exact Hb|split; [|exact Hpush]]. destruct flow; [exists 1; rewrite Hb; lia|exists 0; reflexivity].
Qed.
Lemma pop_keeps_QInd b : keeps (QInd b) pop_indent.
Proof.
  intros s (Hb & Hi & Hs). unfold pop_indent, bind, get. cbn [fr] in *.
  destruct (rev (indents s)) as [|i r] eqn:E; [exact I|]. cbn.
  assert (Hr : Forall (mult b) (rev (indents s))) by (apply Forall_rev, Hs). rewrite E in Hr. apply Forall_cons_iff in Hr as [Hi0 Hr0].
  split; [exact Hb|]. split; [exact Hi0|]. apply Forall_rev, Hr0.
Qed.

(* the options never change: any fixed value of the five option fields is kept by the two indentation functions, hence by everything *)
Definition QOpt (o : bool * bool * nat * nat * str) (x : list (option nat) * option nat * (bool * bool * nat * nat * str)) : Prop := snd x = o.
Lemma inc_keeps_QOpt o flow indentless : keeps (QOpt o) (increase_indent flow indentless).
Proof. intros s H. unfold increase_indent, modify. cbv zeta. destruct (indent s); [destruct indentless|]; exact H. Qed.
Lemma pop_keeps_QOpt o : keeps (QOpt o) pop_indent.
Proof. intros s H. unfold pop_indent, bind, get. destruct (rev (indents s)); [exact I|exact H]. Qed.

Lemma emit_state_keeps Q : (forall flow il, keeps Q (increase_indent flow il)) -> keeps Q pop_indent ->
  forall evs s s', Q (fr s) -> emit_state evs s = inl s' -> Q (fr s').
Proof.
  intros Hinc Hpop. induction evs as [|e evs IH]; intros s s' Hs H; cbn [emit_state] in H; [injection H as <-; exact Hs|].
  pose proof (keeps_emit1 Q Hinc Hpop e s Hs) as Hk. destruct (emit1 e s) as [[u s1]|c o|x o|]; try discriminate H. exact (IH s1 s' Hk H).
Qed.

(* in every run - any events, any options - after every event: the current indent and every saved indent is a multiple of the effective indent *)
Theorem indent_is_a_multiple_of_the_effective_indent : forall evs canon au ind width lb s',
  emit_state evs (init canon au ind width lb) = inl s' ->
  best_indent s' = effective_indent ind /\ mult (effective_indent ind) (indent s') /\ Forall (mult (effective_indent ind)) (indents s').
Proof.
  intros evs canon au ind width lb s' H.
  pose proof (emit_state_keeps (QInd (effective_indent ind)) (inc_keeps_QInd _) (pop_keeps_QInd _) evs (init canon au ind width lb) s') as K.
  apply K; [|exact H]. cbn. split; [reflexivity|]. split; [exact I|constructor].
Qed.

(* one step (one event handled, with whatever it writes) keeps the invariant from any state; with the generated lemmas of Proofs/EmitFrame.v for
   each of the 46 functions of the model this is the statement that the invariant holds at every point of a run, not only between events *)
Theorem every_step_keeps_the_indent_invariant : forall b e s, QInd b (fr s) -> match emit1 e s with Ok (_, s') => QInd b (fr s') | _ => True end.
Proof. intros b e s H. exact (keeps_emit1 (QInd b) (inc_keeps_QInd b) (pop_keeps_QInd b) e s H). Qed.

(* the formatting options an emitter was created with are never changed by any event *)
Theorem options_never_change : forall evs s s', emit_state evs s = inl s' ->
  canonical s' = canonical s /\ allow_unicode s' = allow_unicode s /\ best_indent s' = best_indent s /\ best_width s' = best_width s /\ best_lb s' = best_lb s.
Proof.
  intros evs s s' H.
  pose proof (emit_state_keeps (QOpt (snd (fr s))) (inc_keeps_QOpt _) (pop_keeps_QOpt _) evs s s' eq_refl H) as E.
  unfold QOpt in E. cbn [fr snd] in E. injection E as E1 E2 E3 E4 E5. auto.
Qed.

(* write_indent leaves the column exactly at the current indent (0 when there is none) and changes neither the indent nor the saved indents *)
Theorem write_indent_lands_on_the_indent : forall s s', write_indent s = Ok (tt, s') ->
  column s' = match indent s with Some i => i | None => 0 end /\ indent s' = indent s /\ indents s' = indents s /\ best_indent s' = best_indent s.
Proof.
  intros s s' H. unfold write_indent, bind, get in H. set (ind := match indent s with Some i => i | None => 0 end) in *.
  destruct (negb (indention s) || Nat.ltb ind (column s) || (Nat.eqb (column s) ind && negb (whitespace s))) eqn:Eb.
  - (* a line break first: column 0 *)
    cbn in H. clearbody ind. destruct ind as [|k]; cbn in H; injection H as <-; cbn; repeat split; reflexivity.
  - cbn in H. apply orb_false_iff in Eb as [Eb E3]. apply orb_false_iff in Eb as [_ E2]. apply Nat.ltb_ge in E2.
    clearbody ind. destruct ind as [|m]; [cbn in H; injection H as <-; repeat split; try reflexivity; lia|].
    destruct (Nat.leb (column s) m) eqn:E0; cbn in H; injection H as <-; cbn; repeat split; try reflexivity.
    apply Nat.leb_gt in E0. lia.
Qed.

(* non-vacuity: indent=4;  k: {a: [b, b]}  in block style is written "k:\n    a:\n    - b\n    - b": while the items are written the current indent is 4
   (the sequence inside the mapping is indentless) and None, 0, 4 are saved *)
Example indent_example :
  let sc v := EScalar None None true false v None in
  let evs := [EStreamStart; EDocStart false None []; EMapStart None None true false; sc [107%N]; EMapStart None None true false; sc [97%N];
              ESeqStart None None true false; sc [98%N]; sc [98%N]] in
  match emit_state evs (init false false (Some 4) None [10%N]) with
  | inl s' => indent s' = Some 4 /\ indents s' = [None; Some 0; Some 4] /\
              concat (rev (out s')) = [107; 58; 10; 32; 32; 32; 32; 97; 58; 10; 32; 32; 32; 32; 45; 32; 98; 10; 32; 32; 32; 32; 45; 32; 98]%N /\
              effective_indent (Some 4) = 4 /\ effective_indent (Some 12) = 2 /\ effective_indent (Some 1) = 2 /\ effective_indent None = 2
  | inr _ => False end.
Proof. vm_compute. repeat split; reflexivity. Qed.
