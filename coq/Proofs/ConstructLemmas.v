(* C13 / C14 lemmas on the validated composer + constructor model (Model/Construct.v). *)
From Coq Require Import List NArith ZArith Bool Arith Lia.
Import ListNotations.
Require Import Scan Parse Construct.

(* ---------- C13: composer: aliases mean identity; anchor rules ---------- *)
Lemma l_alias_is_identity f base s e rest_ a id :
  evs s = e :: rest_ -> e_kind e = VAlias a -> assoc_nat a (anchors s) = Some id ->
  compose_node (S f) base s = LOk (id, {| evs := rest_; store := store s; anchors := anchors s |}).
Proof. intros H1 H2 H3. cbn [compose_node]. rewrite H1, H2, H3. reflexivity. Qed.

Lemma l_undefined_alias_rejected f base s e rest_ a :
  evs s = e :: rest_ -> e_kind e = VAlias a -> assoc_nat a (anchors s) = None -> compose_node (S f) base s = LComposer 1.
Proof. intros H1 H2 H3. cbn [compose_node]. rewrite H1, H2, H3. reflexivity. Qed.

Lemma l_duplicate_anchor_rejected_scalar f base s e rest_ a tag i0 i1 v st_ id :
  evs s = e :: rest_ -> e_kind e = VScalar (Some a) tag i0 i1 v st_ -> assoc_nat a (anchors s) = Some id -> compose_node (S f) base s = LComposer 2.
Proof. intros H1 H2 H3. cbn [compose_node]. rewrite H1, H2, H3. reflexivity. Qed.
Lemma l_duplicate_anchor_rejected_seq f base s e rest_ a tag imp fl id :
  evs s = e :: rest_ -> e_kind e = VSeqStart (Some a) tag imp fl -> assoc_nat a (anchors s) = Some id -> compose_node (S f) base s = LComposer 2.
Proof. intros H1 H2 H3. cbn [compose_node]. rewrite H1, H2, H3. reflexivity. Qed.
Lemma l_duplicate_anchor_rejected_map f base s e rest_ a tag imp fl id :
  evs s = e :: rest_ -> e_kind e = VMapStart (Some a) tag imp fl -> assoc_nat a (anchors s) = Some id -> compose_node (S f) base s = LComposer 2.
Proof. intros H1 H2 H3. cbn [compose_node]. rewrite H1, H2, H3. reflexivity. Qed.

(* an anchored scalar registers its anchor for exactly the node it allocated (fresh id = store length) *)
Lemma l_anchored_scalar_registers f base s e rest_ a tag i0 i1 v st_ :
  evs s = e :: rest_ -> e_kind e = VScalar (Some a) tag i0 i1 v st_ -> assoc_nat a (anchors s) = None ->
  exists n, compose_node (S f) base s = LOk (length (store s), {| evs := rest_; store := store s ++ [n]; anchors := anchors s ++ [(a, length (store s))] |}).
Proof. intros H1 H2 H3. cbn [compose_node]. rewrite H1, H2, H3. eexists. reflexivity. Qed.

Lemma str_eqb_refl a : str_eqb a a = true.
Proof. induction a as [|c a IH]; simpl; auto. rewrite N.eqb_refl. exact IH. Qed.
Lemma assoc_nat_app_new a l id : assoc_nat a l = None -> assoc_nat a (l ++ [(a, id)]) = Some id.
Proof.
  induction l as [|[k v] l IH]; simpl; intros H.
  - rewrite str_eqb_refl. reflexivity.
  - destruct (str_eqb a k); [discriminate|auto].
Qed.
Lemma assoc_nat_app_old a b l id x : assoc_nat a l = Some x -> assoc_nat a (l ++ [(b, id)]) = Some x.
Proof. induction l as [|[k v] l IH]; simpl; intros H; [discriminate|]. destruct (str_eqb a k); auto. Qed.

(* self-reference: the anchor of a collection is registered BEFORE its children are composed, so `&a [*a]` is a list that
   contains itself (one heap cell whose only element is a reference to that cell); `&a {*a: 1}` (a container as its own key)
   is rejected by the constructor, `*a` before any anchor and a second `&a` by the composer.  Concrete runs of the whole model. *)
Definition txt (l : list N) := l.
Example l_self_reference_examples :
  load_all false (txt [38;97;32;91;42;97;93]%N) = ([(PRef 0, [CList [PRef 0]])], LOk tt) /\
  snd (load_all false (txt [38;97;32;123;42;97;58;32;49;125]%N)) = LConstructor 5 /\
  snd (load_all false (txt [91;42;97;93]%N)) = LComposer 1 /\
  snd (load_all false (txt [91;38;97;32;120;44;32;38;97;32;121;93]%N)) = LComposer 2.
Proof. vm_compute. repeat split; reflexivity. Qed.

(* ---------- C13: constructor: the node -> object cache makes shared nodes shared objects; recursion guard ---------- *)
Lemma l_construct_cached f base id s v : assoc_id id (cache s) = Some v -> construct_object (S f) base id s = LOk (v, s).
Proof. intros H. cbn [construct_object]. unfold kbind, kget. rewrite H. reflexivity. Qed.
Lemma l_recursive_rejected f base id s : assoc_id id (cache s) = None -> existsb (Nat.eqb id) (recursive s) = true ->
  construct_object (S f) base id s = LConstructor 4.
Proof. intros H1 H2. cbn [construct_object]. unfold kbind, kget. rewrite H1, H2. reflexivity. Qed.

(* ---------- C14: the dict built by construct_mapping ---------- *)
Definition has_key (k : val) (d : list (val * val)) : bool := existsb (fun kv => key_eqb k (fst kv)) d.
Lemma l_dict_set_keys k v d : map fst (dict_set k v d) = if has_key k d then map fst d else map fst d ++ [k].
Proof.
  induction d as [|[k1 v1] d IH]; simpl; auto. unfold has_key in *. simpl.
  destruct (key_eqb k k1); simpl; auto. rewrite IH. destruct (existsb _ d); reflexivity.
Qed.
Fixpoint dict_find (k : val) (d : list (val * val)) : option (val * val) :=
  match d with [] => None | (k1, v1) :: d1 => if key_eqb k k1 then Some (k1, v1) else dict_find k d1 end.
(* equal keys: the FIRST key object and position are kept, the LAST value wins *)
Lemma l_dict_set_last_value_wins k v d k1 v1 : dict_find k d = Some (k1, v1) -> dict_find k (dict_set k v d) = Some (k1, v).
Proof.
  induction d as [|[k2 v2] d IH]; simpl; [discriminate|].
  destruct (key_eqb k k2) eqn:E; simpl; rewrite E; auto. intros H. injection H as -> _. reflexivity.
Qed.
Lemma l_dict_set_other_untouched k v d k' : (forall x, key_eqb k' x = true -> key_eqb k x = false) -> key_eqb k' k = false ->
  dict_find k' (dict_set k v d) = dict_find k' d.
Proof.
  intros Hd Hk. induction d as [|[k2 v2] d IH]; simpl.
  - rewrite Hk. reflexivity.
  - destruct (key_eqb k k2) eqn:E; simpl.
    + destruct (key_eqb k' k2) eqn:E2; auto. rewrite (Hd k2 E2) in E. discriminate.
    + destruct (key_eqb k' k2); auto.
Qed.
(* document order: with pairwise different keys the dict lists the pairs exactly in the order they were inserted *)
Fixpoint fresh_keys (ps : list (val * val)) (seen : list (val * val)) : bool :=
  match ps with [] => true | (k, v) :: r => negb (has_key k seen) && fresh_keys r (seen ++ [(k, v)]) end.
Lemma dict_set_fresh k v d : has_key k d = false -> dict_set k v d = d ++ [(k, v)].
Proof.
  induction d as [|[k1 v1] d IH]; simpl; auto. unfold has_key in *. simpl. intros H. apply orb_false_elim in H as [H1 H2].
  rewrite H1. rewrite IH; auto.
Qed.
Lemma l_document_order ps : forall seen, fresh_keys ps seen = true ->
  fold_left (fun d kv => dict_set (fst kv) (snd kv) d) ps seen = seen ++ ps.
Proof.
  induction ps as [|[k v] ps IH]; intros seen H; simpl; [rewrite app_nil_r; reflexivity|].
  simpl in H. apply andb_prop in H as [H1 H2]. apply negb_true_iff in H1.
  rewrite (dict_set_fresh k v seen H1). rewrite IH; auto. rewrite <- app_assoc. reflexivity.
Qed.
(* sets: an element equal to one already present is dropped *)
Lemma l_set_add_present k d : existsb (key_eqb k) d = true -> set_add k d = d.
Proof.
  induction d as [|k1 d IH]; simpl; [discriminate|]. destruct (key_eqb k k1) eqn:E; simpl; auto. intros H. rewrite IH; auto.
Qed.

(* ---------- C01: the safe constructor model rejects every node whose tag is not one of its 12 core tags ---------- *)
Definition model_core : list str := [t_null; t_bool; t_int; t_float; t_binary; t_timestamp; t_str; t_seq; t_map; t_set; t_omap; t_pairs].
Definition is_core (t : str) : bool := existsb (str_eqb t) model_core.
Lemma l_unknown_tag_rejected f id s n :
  assoc_id id (cache s) = None -> existsb (Nat.eqb id) (recursive s) = false ->
  nth_error (nodes s) id = Some n -> is_core (n_tag n) = false ->
  construct_object (S f) false id s = LConstructor 8.
Proof.
  intros H1 H2 H3 H4. cbn [construct_object]. unfold kbind at 1, kget. rewrite H1, H2.
  unfold kbind at 1, mark_rec. unfold kbind at 1, get_node. cbn [nodes]. rewrite H3.
  unfold is_core, model_core in H4. cbn [existsb] in H4. repeat (apply orb_false_elim in H4 as [? H4]).
  unfold kbind at 1.
  repeat match goal with H : str_eqb (n_tag n) ?t = false |- _ => rewrite H; clear H end.
  reflexivity.
Qed.
