(* C02/C05: what the emitter model's write_single_quoted writes (no folding) is the body the scanner theorem SQ.sq_roundtrip reads. *)
From Coq Require Import List NArith ZArith Bool Arith Lia.
Import ListNotations.
Require Import Emit.
Require SQ.

Definition otext (s : st) : str := concat (rev (out s)).
Lemma bind_ok {A B} (m : M A) (k : A -> M B) s a s1 : m s = Ok (a, s1) -> bind m k s = k a s1.
Proof. intros H. unfold bind. rewrite H. reflexivity. Qed.
Lemma otext_write_col d s : exists s1, write_col d s = Ok (tt, s1) /\ otext s1 = otext s ++ d /\ whitespace s1 = whitespace s.
Proof.
  eexists. split; [reflexivity|]. unfold otext. cbn [out with_out with_pos whitespace]. simpl. rewrite concat_app. simpl. rewrite app_nil_r. auto.
Qed.

Definition no39 (t : str) : Prop := forallb (fun c => negb (N.eqb c 39)) t = true.
Definition okc (c : cp) : bool := SQ.raw1 c.
Lemma body1_no39 t : no39 t -> SQ.body1 t = t.
Proof.
  unfold no39. induction t as [|c t IH]; simpl; intros H; auto. apply andb_prop in H as [H1 H2].
  unfold SQ.body1 in *. simpl. unfold SQ.enc1. apply negb_true_iff in H1. rewrite H1. simpl. f_equal. auto.
Qed.
Lemma body1_app a b : SQ.body1 (a ++ b) = SQ.body1 a ++ SQ.body1 b.
Proof. unfold SQ.body1. apply flat_map_app. Qed.
Lemma okc_not_brk c : okc c = true -> mem c brk4 = false.
Proof.
  intros H. apply SQ.raw1_range in H. unfold mem, brk4, LF, NEL, LS, PS. simpl.
  repeat (rewrite orb_false_iff; split); try reflexivity; apply N.eqb_neq; lia.
Qed.

Lemma nth_mid (done pending : str) c r : nth_cp (done ++ pending ++ c :: r) (length done + length pending) = Some c.
Proof. unfold nth_cp. rewrite app_assoc, nth_error_app2; rewrite app_length; [|lia]. rewrite Nat.sub_diag. reflexivity. Qed.
Lemma slice_mid (done pending rest_ : str) : slice (done ++ pending ++ rest_) (length done) (length done + length pending) = pending.
Proof.
  unfold slice. replace (length done + length pending - length done) with (length pending) by lia.
  rewrite skipn_app, skipn_all, Nat.sub_diag. simpl. rewrite firstn_app, firstn_all, Nat.sub_diag. simpl. apply app_nil_r.
Qed.

Lemma no39_app a b : no39 a -> no39 b -> no39 (a ++ b).
Proof. unfold no39. intros H1 H2. rewrite forallb_app. apply andb_true_intro. split; assumption. Qed.

Lemma sq_loop_spec : forall rest_ fuel done pending spaces s,
  no39 pending -> forallb okc (done ++ pending ++ rest_) = true -> length rest_ + 2 <= fuel ->
  exists s', sq_loop fuel (done ++ pending ++ rest_) false (length done + length pending) (length done) spaces false s = Ok (tt, s')
             /\ otext s' = otext s ++ pending ++ SQ.body1 rest_ /\ whitespace s' = whitespace s.
Proof.
  induction rest_ as [|c r IH]; intros fuel done pending spaces s Hp Hok Hf.
  - (* end of the text: the pending piece is written *)
    destruct fuel as [|f]; [simpl in Hf; lia|]. assert (Hf1 : 1 <= f) by (simpl in Hf; lia).
    assert (Hlen : length (done ++ pending ++ []) = length done + length pending) by (rewrite !app_length; simpl; lia).
    cbn [sq_loop]. rewrite Hlen. rewrite Nat.ltb_irrefl. cbn [is_sp is_brk negb].
    assert (Hfin : forall st' s1, sq_loop f (done ++ pending ++ []) false (S (length done + length pending)) st' spaces false s1 = Ok (tt, s1)).
    { intros st' s1. destruct f as [|f']; [lia|]. cbn [sq_loop]. rewrite Hlen. replace (Nat.ltb (length done + length pending) (S (length done + length pending))) with true by (symmetry; apply Nat.ltb_lt; lia). reflexivity. }
    destruct spaces.
    + destruct (otext_write_col pending s) as (s1 & W & O & Wh).
      unfold bind at 1. unfold bind at 1. unfold bind at 1. unfold get at 1.
      destruct (Nat.eqb (length done + 1) (length done + length pending) && Nat.ltb (best_width s) (column s)); cbn [andb];
        rewrite (slice_mid done pending []), W; cbn [ret]; unfold bind at 1; cbn [ret]; rewrite Hfin;
        exists s1; rewrite O, app_nil_r; auto.
    + destruct (Nat.ltb (length done) (length done + length pending)) eqn:El.
      * destruct (otext_write_col pending s) as (s1 & W & O & Wh).
        unfold bind at 1. unfold bind at 1. rewrite (slice_mid done pending []), W. cbn [ret]. unfold bind at 1. cbn [ret]. rewrite Hfin.
        exists s1. rewrite O, app_nil_r. auto.
      * apply Nat.ltb_ge in El. assert (pending = []) by (destruct pending; [reflexivity|simpl in El; lia]). subst pending.
        unfold bind at 1. cbn [ret]. unfold bind at 1. cbn [ret]. rewrite Hfin. exists s. rewrite !app_nil_r. auto.
  - (* one more character *)
    destruct fuel as [|f]; [simpl in Hf; lia|].
    assert (Hc : okc c = true) by (rewrite !forallb_app in Hok; simpl in Hok; apply andb_prop in Hok as [_ H]; apply andb_prop in H as [_ H]; apply andb_prop in H as [H _]; exact H).
    pose proof (okc_not_brk c Hc) as Hbrk.
    assert (Hlen : length (done ++ pending ++ c :: r) = length done + length pending + S (length r)) by (rewrite !app_length; simpl; lia).
    cbn [sq_loop]. rewrite Hlen.
    replace (Nat.ltb (length done + length pending + S (length r)) (length done + length pending)) with false by (symmetry; apply Nat.ltb_ge; lia).
    replace (Nat.ltb (length done + length pending) (length done + length pending + S (length r))) with true by (symmetry; apply Nat.ltb_lt; lia).
    rewrite nth_mid. cbn [is_sp is_brk]. rewrite Hbrk. cbv beta iota.
    assert (Hf' : length r + 2 <= f) by (simpl in Hf; lia).
    (* the three continuations *)
    assert (KA : forall s1, otext s1 = otext s ++ pending ++ [39%N; 39%N] -> whitespace s1 = whitespace s -> c = 39%N ->
              exists s', sq_loop f (done ++ pending ++ c :: r) false (S (length done + length pending)) (length done + length pending + 1) false false s1 = Ok (tt, s')
                         /\ otext s' = otext s ++ pending ++ SQ.body1 (c :: r) /\ whitespace s' = whitespace s).
    { intros s1 O Wh ->. destruct (IH f (done ++ pending ++ [39%N]) [] false s1) as (s' & E & O' & Wh'); [reflexivity| |exact Hf'|].
      - rewrite <- !app_assoc. exact Hok.
      - exists s'. split.
        + rewrite <- E. rewrite !app_length. simpl. rewrite <- !app_assoc. simpl.
          replace (length done + (length pending + 1) + 0) with (S (length done + length pending)) by lia.
          replace (length done + (length pending + 1)) with (length done + length pending + 1) by lia. reflexivity.
        + rewrite O', O, Wh', Wh. split; [|reflexivity]. simpl. rewrite <- !app_assoc. reflexivity. }
    assert (KB : forall s1 sp, otext s1 = otext s ++ pending -> whitespace s1 = whitespace s -> c <> 39%N -> sp = N.eqb c SP ->
              exists s', sq_loop f (done ++ pending ++ c :: r) false (S (length done + length pending)) (length done + length pending) sp false s1 = Ok (tt, s')
                         /\ otext s' = otext s ++ pending ++ SQ.body1 (c :: r) /\ whitespace s' = whitespace s).
    { intros s1 sp O Wh Hn ->. destruct (IH f (done ++ pending) [c] (N.eqb c SP) s1) as (s' & E & O' & Wh').
      - unfold no39. simpl. apply N.eqb_neq in Hn. rewrite Hn. reflexivity.
      - rewrite <- !app_assoc. exact Hok.
      - exact Hf'.
      - exists s'. split.
        + rewrite <- E. rewrite !app_length. simpl. rewrite <- !app_assoc. simpl.
          replace (length done + length pending + 1) with (S (length done + length pending)) by lia. reflexivity.
        + rewrite O', O, Wh', Wh. split; [|reflexivity]. rewrite <- !app_assoc. f_equal. f_equal.
          unfold SQ.body1. simpl. unfold SQ.enc1. apply N.eqb_neq in Hn. rewrite Hn. reflexivity. }
    assert (KC : forall sp, c <> 39%N -> sp = N.eqb c SP ->
              exists s', sq_loop f (done ++ pending ++ c :: r) false (S (length done + length pending)) (length done) sp false s = Ok (tt, s')
                         /\ otext s' = otext s ++ pending ++ SQ.body1 (c :: r) /\ whitespace s' = whitespace s).
    { intros sp Hn ->. destruct (IH f done (pending ++ [c]) (N.eqb c SP) s) as (s' & E & O' & Wh').
      - apply no39_app; auto. unfold no39. simpl. apply N.eqb_neq in Hn. rewrite Hn. reflexivity.
      - rewrite <- !app_assoc. exact Hok.
      - exact Hf'.
      - exists s'. split.
        + rewrite <- E. rewrite !app_length. simpl. rewrite <- !app_assoc. simpl.
          replace (length done + (length pending + 1)) with (S (length done + length pending)) by lia. reflexivity.
        + rewrite O', Wh'. split; [|reflexivity]. rewrite <- !app_assoc. f_equal. f_equal.
          unfold SQ.body1. simpl. unfold SQ.enc1. apply N.eqb_neq in Hn. rewrite Hn. reflexivity. }
    destruct (N.eqb_spec c 39) as [E39|N39].
    + (* an apostrophe: the pending piece, then the doubled apostrophe *)
      assert (Esp : N.eqb c SP = false) by (subst c; reflexivity).
      assert (Emem : mem c (SP :: brk4) || N.eqb c 39 = true) by (subst c; reflexivity).
      destruct (otext_write_col pending s) as (s1 & W & O & Wh).
      destruct (otext_write_col [39%N; 39%N] s1) as (s2 & W2 & O2 & Wh2).
      destruct spaces.
      * rewrite Esp. cbn [negb]. unfold bind at 1. unfold bind at 1. unfold bind at 1. unfold get at 1.
        destruct (Nat.eqb (length done + 1) (length done + length pending) && Nat.ltb (best_width s) (column s)); cbn [andb];
          rewrite (slice_mid done pending (c :: r)), W; cbn [ret]; unfold bind at 1; unfold bind at 1; rewrite W2; cbn [ret];
          (apply KA; [rewrite O2, O, <- app_assoc; reflexivity|congruence|exact E39]).
      * rewrite orb_true_r, Esp. destruct (Nat.ltb (length done) (length done + length pending)) eqn:El.
        -- unfold bind at 1. unfold bind at 1. rewrite (slice_mid done pending (c :: r)), W. cbn [ret]. unfold bind at 1. unfold bind at 1. rewrite W2. cbn [ret].
           apply KA; [rewrite O2, O, <- app_assoc; reflexivity|congruence|exact E39].
        -- apply Nat.ltb_ge in El. assert (pending = []) by (destruct pending; [reflexivity|simpl in El; lia]). subst pending.
           destruct (otext_write_col [39%N; 39%N] s) as (s3 & W3 & O3 & Wh3).
           unfold bind at 1. cbn [ret]. unfold bind at 1. unfold bind at 1. rewrite W3. cbn [ret].
           apply KA; [rewrite O3; reflexivity|exact Wh3|exact E39].
    + (* any other character *)
      assert (E39' : N.eqb c 39 = false) by (apply N.eqb_neq; exact N39).
      destruct spaces.
      * destruct (N.eqb c SP) eqn:Esp; cbn [negb].
        -- unfold bind at 1. cbn [ret]. unfold bind at 1. cbn [ret]. apply KC; auto.
        -- destruct (otext_write_col pending s) as (s1 & W & O & Wh).
           unfold bind at 1. unfold bind at 1. unfold bind at 1. unfold get at 1.
           destruct (Nat.eqb (length done + 1) (length done + length pending) && Nat.ltb (best_width s) (column s)); cbn [andb];
             rewrite (slice_mid done pending (c :: r)), W; cbn [ret]; unfold bind at 1; cbn [ret]; (apply KB; auto).
      * destruct (mem c (SP :: brk4)) eqn:Em; cbn [orb].
        -- assert (Esp : N.eqb c SP = true).
           { unfold mem in Em. simpl in Em. apply orb_prop in Em as [H|H]; [exact H|]. unfold mem, brk4 in Hbrk. simpl in Hbrk. rewrite Hbrk in H. discriminate. }
           destruct (Nat.ltb (length done) (length done + length pending)) eqn:El.
           ++ destruct (otext_write_col pending s) as (s1 & W & O & Wh).
              unfold bind at 1. unfold bind at 1. rewrite (slice_mid done pending (c :: r)), W. cbn [ret]. unfold bind at 1. cbn [ret]. apply KB; auto.
           ++ apply Nat.ltb_ge in El. assert (pending = []) by (destruct pending; [reflexivity|simpl in El; lia]). subst pending.
              unfold bind at 1. cbn [ret]. unfold bind at 1. cbn [ret].
              apply KC; auto.
        -- assert (Esp : N.eqb c SP = false).
           { unfold mem in Em. simpl in Em. apply orb_false_iff in Em as [H _]. exact H. }
           unfold bind at 1. cbn [ret]. unfold bind at 1. cbn [ret]. apply KC; auto.
Qed.

Lemma write_indicator_text ind need_ws ws indn s : exists s1, write_indicator ind need_ws ws indn s = Ok (tt, s1) /\
  otext s1 = otext s ++ (if whitespace s || negb need_ws then ind else SP :: ind) /\ whitespace s1 = ws.
Proof.
  unfold write_indicator, bind, get, modify, write. eexists. split; [reflexivity|]. unfold otext. cbn [out with_out with_open with_pos whitespace]. simpl. rewrite concat_app. simpl. rewrite app_nil_r. auto.
Qed.

(* the emitter model, for EVERY text over printable ASCII and every emitter state, without folding (split = False, as for simple keys,
   or any text that fits the line): write_single_quoted writes an optional separating space, an apostrophe, the text with every
   apostrophe doubled - SQ.body1, the function the scanner-side theorem SQ.sq_roundtrip is stated on - and an apostrophe *)
Theorem write_single_quoted_text : forall text s, forallb SQ.raw1 text = true ->
  exists s', write_single_quoted text false s = Ok (tt, s') /\
             otext s' = otext s ++ (if whitespace s then [] else [SP]) ++ 39%N :: SQ.body1 text ++ [39%N].
Proof.
  intros text s Hok. unfold write_single_quoted.
  destruct (write_indicator_text [39%N] true false false s) as (s1 & W1 & O1 & Wh1).
  rewrite (bind_ok _ _ s tt s1 W1).
  destruct (sq_loop_spec text (length text + 2) [] [] false s1) as (s2 & L & O2 & Wh2); [reflexivity|exact Hok|apply Nat.le_refl|].
  simpl in L. rewrite (bind_ok _ _ s1 tt s2 L).
  destruct (write_indicator_text [39%N] false false false s2) as (s3 & W3 & O3 & Wh3).
  exists s3. split; [exact W3|].
  rewrite O3, O2, O1. cbn [negb orb]. rewrite orb_true_r. simpl. rewrite <- !app_assoc.
  destruct (whitespace s); simpl; reflexivity.
Qed.

(* writer and reader together: what the emitter model writes for a single-quoted scalar (no fold, after whitespace), followed by
   anything that does not start with an apostrophe, is read back by the scanner model as exactly that text *)
Theorem single_quoted_emit_then_scan : forall text s z tail, forallb SQ.raw1 text = true -> z <> 39%N -> whitespace s = true ->
  exists s' w, write_single_quoted text false s = Ok (tt, s') /\ otext s' = otext s ++ w /\
    forall sc, Scan.rest sc = w ++ z :: tail ->
      exists tok sc', Scan.scan_flow_scalar false sc = Scan.Ok (tok, sc') /\
                      Scan.t_kind tok = Scan.TScalar text false Scan.SSingle /\ Scan.rest sc' = z :: tail.
Proof.
  intros text s z tail Hok Hz Hw. destruct (write_single_quoted_text text s Hok) as (s' & W & O).
  exists s', (39%N :: SQ.body1 text ++ [39%N]). split; [exact W|]. split; [rewrite O, Hw; reflexivity|].
  intros sc Hr. apply (SQ.sq_roundtrip text z tail sc Hok Hz). rewrite Hr. simpl. rewrite <- app_assoc. reflexivity.
Qed.
