(* C18 lemmas on the stream reader model (Model/Reader.v). *)
From Coq Require Import List NArith Bool Arith Lia.
Import ListNotations.
Require Import Reader.

(* one refill asks the stream for one block and consumes at most 4096 units, whatever the schedule and the data *)
Lemma l_refill_at_most_one_block r : stream_pointer r <= stream_pointer (update_raw r) <= stream_pointer r + 4096.
Proof.
  unfold update_raw. destruct (strm r) as [s|]; [|lia].
  assert (K : match sizes s with [] => 4096 | k :: _ => Nat.max 1 (Nat.min k 4096) end <= 4096) by (destruct (sizes s); lia).
  destruct (is_text s); cbn [upd stream_pointer]; rewrite firstn_length; lia.
Qed.
(* no refill while the buffer already holds what is demanded *)
Lemma l_no_refill_when_satisfied f n r : n <= length (buffer r) -> update_loop (S f) n r = Ok r.
Proof. intros H. cbn [update_loop]. apply Nat.leb_le in H. rewrite H. reflexivity. Qed.
(* the request size is always one block *)
Lemma l_requests_are_blocks r s : strm r = Some s -> exists got, reads (update_raw r) = (4096, got) :: reads r /\ got <= 4096.
Proof.
  intros H. unfold update_raw. rewrite H.
  assert (K : match sizes s with [] => 4096 | k :: _ => Nat.max 1 (Nat.min k 4096) end <= 4096) by (destruct (sizes s); lia).
  destruct (is_text s); cbn [upd reads]; eexists; (split; [reflexivity|rewrite firstn_length; lia]).
Qed.
