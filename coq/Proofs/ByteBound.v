(* C18: read-ahead of the stream reader model, BYTE streams (UTF-8 and UTF-16): a demand reads less than four bytes per missing
   character plus one block and three bytes. *)
From Coq Require Import List NArith Bool Arith Lia.
Import ListNotations.
Require Import Reader Chunk Chunk16.

Definition step1 (e : enc) (bs : list N) : d1 := match e with Utf8 => utf8_1 bs | Utf16le => utf16_1 true bs | Utf16be => utf16_1 false bs end.
Lemma utf8_1_n4 bs c n : utf8_1 bs = DChar c n -> n <= 4.
Proof.
  destruct bs as [|b0 [|b1 [|b2 [|b3 r]]]]; simpl; intros H;
  repeat match type of H with
  | context [if ?b then _ else _] => destruct b eqn:?; try discriminate
  end; try discriminate; injection H as <- <-; lia.
Qed.
Lemma utf16_1_n4 le bs c n : utf16_1 le bs = DChar c n -> n <= 4.
Proof.
  destruct bs as [|a [|b [|c0 [|d r]]]]; simpl; intros H;
  repeat match type of H with
  | context [if ?b then _ else _] => destruct b eqn:?; try discriminate
  end; try discriminate; injection H as <- <-; lia.
Qed.
Lemma step1_char e bs c n : step1 e bs = DChar c n -> 1 <= n <= 4 /\ n <= length bs.
Proof.
  destruct e; cbn [step1]; intros H.
  - pose proof (utf8_1_char bs [] c n H) as (_ & A & B). pose proof (utf8_1_n4 bs c n H). lia.
  - pose proof (utf16_1_char true bs [] c n H) as (_ & A & B). pose proof (utf16_1_n4 true bs c n H). lia.
  - pose proof (utf16_1_char false bs [] c n H) as (_ & A & B). pose proof (utf16_1_n4 false bs c n H). lia.
Qed.
Lemma step1_need e bs : step1 e bs = DNeed -> length bs < 4.
Proof. destruct e; cbn [step1]; intros H; [apply utf8_1_need|apply (utf16_1_need true)|apply (utf16_1_need false)]; exact H. Qed.

(* what a successful decode consumed: at most four bytes per character; when not final and the fuel suffices, fewer than four bytes stay *)
Lemma decode_bounds : forall fuel e fin bs off acc d c, decode fuel e fin bs off acc = DecOk d c ->
  off <= c /\ length acc <= length d /\ c - off <= 4 * (length d - length acc) /\ c - off <= length bs /\
  (length bs < fuel -> fin = false -> length bs - (c - off) < 4).
Proof.
  induction fuel as [|f IH]; intros e fin bs off acc d c H; cbn [decode] in H.
  - injection H as <- <-. rewrite rev_length. repeat split; try lia.
  - fold (step1 e bs) in H. destruct (step1 e bs) as [ch n| |r] eqn:E.
    + destruct (step1_char e bs ch n E) as (Hn & Hl).
      destruct (IH e fin (skipn n bs) (off + n) (ch :: acc) d c H) as (A & B & C & D & F).
      rewrite skipn_length in *. cbn [length] in *. repeat split; try lia. intros L Hf. specialize (F ltac:(lia) Hf). lia.
    + destruct bs as [|b r].
      * injection H as <- <-. rewrite rev_length. cbn [length]. repeat split; try lia.
      * destruct fin; [discriminate|]. injection H as <- <-. rewrite rev_length. pose proof (step1_need e (b :: r) E).
        repeat split; try lia.
    + discriminate.
Qed.

Lemma update_raw_bytes r s carry : strm r = Some s -> is_text s = false -> rawb r = RawBytes carry ->
  exists d s', update_raw r = upd r (Some s') (stream_pointer r + length d) (match d with [] => true | _ => eof r end) (buffer r) (pointer r) (RawBytes (carry ++ d)) ((4096, length d) :: reads r)
               /\ is_text s' = false /\ length d <= 4096.
Proof.
  intros H1 H2 H3. unfold update_raw. rewrite H1, H2, H3. cbv zeta.
  eexists. eexists. split; [reflexivity|]. split; [reflexivity|].
  rewrite firstn_length. destruct (sizes s); lia.
Qed.

(* C18, reader level, byte streams in any of the three encodings: a demand for n characters when the buffer holds fewer reads
   fewer than 4 * (n - |buffer|) + 4096 + 3 bytes from the stream, whatever the read schedule and the content (four bytes is the
   longest character, one block the unit of reading, three bytes the longest undecoded tail); nothing when the buffer suffices *)
Lemma update_loop_bytes_bound f : forall n r r' carry e,
  (exists s, strm r = Some s /\ is_text s = false) -> rawb r = RawBytes carry -> length carry < 4 -> encd r = Some e -> eof r = false ->
  update_loop f n r = Ok r' -> eof r' = false ->
  (n <= length (buffer r) -> r' = r) /\
  (length (buffer r) < n -> stream_pointer r' + length carry < stream_pointer r + 4 * (n - length (buffer r)) + 4096 + 3).
Proof.
  induction f as [|f IH]; intros n r r' carry e (s & Hs & Ht) Hraw Hc Henc Heof H He'; cbn [update_loop] in H; [discriminate|].
  destruct (Nat.leb n (length (buffer r))) eqn:E.
  - injection H as <-. apply Nat.leb_le in E. split; [reflexivity|lia].
  - apply Nat.leb_gt in E. split; [lia|intros _]. cbv zeta in H. rewrite Heof in H.
    destruct (update_raw_bytes r s carry Hs Ht Hraw) as (d & s' & Hu & Ht' & Hd). rewrite Hu in H.
    cbn [rawb upd encd eof strm stream_pointer buffer pointer reads index] in H. rewrite Henc, Heof in H.
    destruct (decode (S (length (carry ++ d))) e (match d with [] => true | _ :: _ => false end) (carry ++ d) 0 []) as [data conv|st byte reason] eqn:Ed; [|cbv zeta beta iota in H; discriminate].
    destruct (first_unprintable data 0) as [[i c]|]; [discriminate|].
    destruct d as [|x d'].
    + (* end of stream: the result has eof set *) cbn [eof upd] in H. injection H as <-. cbn [eof upd] in He'. discriminate.
    + destruct (decode_bounds _ _ _ _ _ _ _ _ Ed) as (_ & _ & B3 & B4 & B5). specialize (B5 ltac:(lia) eq_refl).
      cbn [length] in B3. rewrite Nat.sub_0_r in *.
      match type of H with update_loop f n ?R = _ => set (R0 := R) in H end.
      assert (Hb : length (buffer R0) = length (buffer r) + length data) by (unfold R0; cbn [buffer upd]; rewrite app_length; reflexivity).
      assert (Hp : stream_pointer R0 = stream_pointer r + length (x :: d')) by reflexivity.
      assert (Hr0 : rawb R0 = RawBytes (skipn conv (carry ++ x :: d'))) by reflexivity.
      assert (Hl0 : length (skipn conv (carry ++ x :: d')) < 4) by (rewrite skipn_length; exact B5).
      destruct (IH n R0 r' (skipn conv (carry ++ x :: d')) e) as (A1 & A2); auto.
      * exists s'. split; [reflexivity|exact Ht'].
      * destruct (Nat.le_gt_cases n (length (buffer R0))) as [L|L].
        -- rewrite (A1 L). rewrite Hp. cbn [length] in *. lia.
        -- specialize (A2 L). rewrite skipn_length, app_length in A2. rewrite Hp, Hb in A2. rewrite app_length in B4, B5. cbn [length] in *. lia.
Qed.

Theorem byte_demand_reads_less_than_four_per_character_plus_a_block f n r r' carry e :
  (exists s, strm r = Some s /\ is_text s = false) -> rawb r = RawBytes carry -> length carry < 4 -> encd r = Some e -> eof r = false ->
  update_loop f n r = Ok r' -> eof r' = false ->
  (n <= length (buffer r) -> stream_pointer r' = stream_pointer r) /\
  (length (buffer r) < n -> stream_pointer r' - stream_pointer r < 4 * (n - length (buffer r)) + 4096 + 3).
Proof.
  intros H1 H2 H3 H4 H5 H6 H7. destruct (update_loop_bytes_bound f n r r' carry e H1 H2 H3 H4 H5 H6 H7) as (A & B). split.
  - intros L. rewrite (A L). reflexivity.
  - intros L. specialize (B L). lia.
Qed.
