(* C02/C05: the scanner DECIDES to read a plain scalar exactly where the emitter wrote one - whenever the emitter's analysis allows the plain style
   in block context, the dispatch of fetch_more_tokens (scanner.py:156-260) on that text selects fetch_plain: not a document marker, not a
   block entry / key / value indicator, not a flow indicator, anchor, alias, tag, block or quoted scalar, and not the "cannot start any token" error. *)
From Coq Require Import List NArith ZArith Bool Arith Lia.
Import ListNotations.
Require Import Scan Pos DQ.
Require Emit Plain AnalysisPlain.
Arguments mem : simpl never.

(* the part of fetch_more_tokens after the whitespace/comment skipping, the stale simple keys and the unwinding of the indentation *)
Definition dispatch : M unit :=
  ch <- peek 0 ;;
  fl <- flowing ;;
  s <- get ;;
  if N.eqb ch NUL then fetch_stream_end else
  if N.eqb ch 37 && Nat.eqb (col s) 0 then fetch_directive else
  ds <- (if N.eqb ch 45 then check_doc 45%N else ret false) ;;
  if ds then fetch_document_indicator TDocStart else
  de <- (if N.eqb ch 46 then check_doc 46%N else ret false) ;;
  if de then fetch_document_indicator TDocEnd else
  if N.eqb ch 91 then fetch_flow_collection_start TFlowSeqStart else
  if N.eqb ch 123 then fetch_flow_collection_start TFlowMapStart else
  if N.eqb ch 93 then fetch_flow_collection_end TFlowSeqEnd else
  if N.eqb ch 125 then fetch_flow_collection_end TFlowMapEnd else
  if N.eqb ch 44 then fetch_flow_entry else
  be <- (if N.eqb ch 45 then next_blank else ret false) ;;
  if be then fetch_block_entry else
  ke <- (if N.eqb ch 63 then (if fl then ret true else next_blank) else ret false) ;;
  if ke then fetch_key else
  va <- (if N.eqb ch 58 then (if fl then ret true else next_blank) else ret false) ;;
  if va then fetch_value else
  if N.eqb ch 42 then fetch_alias else
  if N.eqb ch 38 then fetch_anchor else
  if N.eqb ch 33 then fetch_tag else
  if N.eqb ch 124 && negb fl then fetch_block_scalar false else
  if N.eqb ch 62 && negb fl then fetch_block_scalar true else
  if N.eqb ch 39 then fetch_flow_scalar false else
  if N.eqb ch 34 then fetch_flow_scalar true else
  pl <- check_plain ;;
  if pl then fetch_plain else err None 26.
Lemma fetch_more_tokens_eq :
  fetch_more_tokens = (scan_to_next_token ;;; stale_possible_simple_keys ;;; (s <- get ;; unwind_indent (Z.of_nat (col s)) ;;; dispatch)).
Proof. reflexivity. Qed.

(* what the emitter's analysis guarantees about the first character c0 of a block-plain text; c1 is the character after it (of the text, or the
   blank that follows the text) *)
Definition first_ok (c0 c1 : cp) : Prop :=
  mem c0 Emit.lead_ind = false /\ mem c0 blankz = false /\ (mem c0 [63; 58]%N = true -> mem c1 blankz = false) /\ (c0 = 45%N -> mem c1 blankz = false).

Lemma check_doc_no c s : str_eqb (firstn 3 (rest s)) [c; c; c] = false -> check_doc c s = Ok (false, s).
Proof.
  intros H. unfold check_doc. erewrite Plain.runs_bind; [|reflexivity|reflexivity]. destruct (Nat.eqb (col s) 0); [|reflexivity].
  erewrite Plain.runs_bind; [|apply prefix_ok|reflexivity]. rewrite H. reflexivity.
Qed.

Lemma not_excl c0 : mem c0 Emit.lead_ind = false -> mem c0 blankz = false -> N.eqb c0 45 = false -> N.eqb c0 63 = false -> N.eqb c0 58 = false ->
  mem c0 plain_excl = false.
Proof.
  intros Hli Hb E45 E63 E58. unfold mem, Emit.lead_ind in Hli. cbn [existsb] in Hli. repeat (apply orb_false_iff in Hli as [? Hli]).
  unfold mem, blankz in Hb. cbn [existsb] in Hb. repeat (apply orb_false_iff in Hb as [? Hb]).
  unfold mem, plain_excl, blankz. cbn [app existsb].
  repeat match goal with E : N.eqb c0 _ = false |- _ => rewrite E; clear E end. reflexivity.
Qed.

Lemma dispatch_plain s c0 c1 r :
  rest s = c0 :: c1 :: r -> flow_level s = 0%Z -> first_ok c0 c1 ->
  str_eqb (firstn 3 (rest s)) [45; 45; 45]%N = false -> str_eqb (firstn 3 (rest s)) [46; 46; 46]%N = false ->
  dispatch s = fetch_plain s.
Proof.
  intros Hr Hfl (Hli & Hb & Hqc & Hd) H45 H46. unfold dispatch. pose proof (not_excl c0 Hli Hb) as Hne.
  erewrite Plain.runs_bind; [|apply peek_ok; rewrite Hr; reflexivity|reflexivity].
  erewrite Plain.runs_bind; [|unfold flowing; erewrite Plain.runs_bind; [reflexivity|reflexivity|reflexivity]|reflexivity]. rewrite Hfl. cbn [Z.eqb negb].
  erewrite Plain.runs_bind; [|reflexivity|reflexivity].
  (* the characters excluded by the analysis *)
  unfold mem, Emit.lead_ind in Hli. cbn [existsb] in Hli. repeat (apply orb_false_iff in Hli as [? Hli]).
  assert (Hnul : N.eqb c0 NUL = false) by (unfold mem, blankz in Hb; cbn [existsb] in Hb; apply orb_false_iff in Hb as [Hb _]; exact Hb).
  rewrite Hnul.
  repeat match goal with E : N.eqb c0 _ = false |- _ => rewrite E; clear E end. cbn [andb].
  assert (Hc1 : nth_error (rest s) 1 = Some c1) by (rewrite Hr; reflexivity).
  assert (Hfin : check_plain s = Ok (true, s) -> (pl <- check_plain ;; if pl then fetch_plain else err None 26) s = fetch_plain s).
  { intros Hcp. erewrite Plain.runs_bind; [|exact Hcp|reflexivity]. reflexivity. }
  assert (Hcp2 : mem c0 plain_excl = true -> mem c1 blankz = false -> (N.eqb c0 45 || mem c0 [63; 58]%N) = true -> check_plain s = Ok (true, s)).
  { intros Hex Hq Hk. unfold check_plain. erewrite Plain.runs_bind; [|apply peek_ok; rewrite Hr; reflexivity|reflexivity]. rewrite Hex. cbn [negb].
    erewrite Plain.runs_bind; [|apply peek_ok, Hc1|reflexivity].
    erewrite Plain.runs_bind; [|unfold flowing; erewrite Plain.runs_bind; [reflexivity|reflexivity|reflexivity]|reflexivity]. rewrite Hq, Hfl. cbn [Z.eqb negb andb].
    unfold ret. f_equal. f_equal. exact Hk. }
  destruct (N.eqb c0 45) eqn:E45.
  - apply N.eqb_eq in E45. subst c0. specialize (Hd eq_refl).
    erewrite Plain.runs_bind; [|apply check_doc_no, H45|reflexivity]. cbn [N.eqb Pos.eqb].
    erewrite Plain.runs_bind; [|reflexivity|reflexivity].
    erewrite Plain.runs_bind; [|unfold next_blank; erewrite Plain.runs_bind; [reflexivity|apply peek_ok, Hc1|reflexivity]|reflexivity]. rewrite Hd.
    erewrite Plain.runs_bind; [|reflexivity|reflexivity]. erewrite Plain.runs_bind; [|reflexivity|reflexivity].
    apply Hfin, Hcp2; [reflexivity|exact Hd|reflexivity].
  - erewrite Plain.runs_bind; [|reflexivity|reflexivity].
    destruct (N.eqb c0 46) eqn:E46.
    + erewrite Plain.runs_bind; [|apply check_doc_no, H46|reflexivity]. erewrite Plain.runs_bind; [|reflexivity|reflexivity].
      apply N.eqb_eq in E46. subst c0. cbn [N.eqb Pos.eqb].
      erewrite Plain.runs_bind; [|reflexivity|reflexivity]. erewrite Plain.runs_bind; [|reflexivity|reflexivity].
      apply Hfin. unfold check_plain. erewrite Plain.runs_bind; [|apply peek_ok; rewrite Hr; reflexivity|reflexivity]. reflexivity.
    + erewrite Plain.runs_bind; [|reflexivity|reflexivity]. erewrite Plain.runs_bind; [|reflexivity|reflexivity].
      destruct (N.eqb c0 63) eqn:E63.
      * apply N.eqb_eq in E63. subst c0. assert (Hq : mem c1 blankz = false) by (apply Hqc; reflexivity).
        erewrite Plain.runs_bind; [|unfold next_blank; erewrite Plain.runs_bind; [reflexivity|apply peek_ok, Hc1|reflexivity]|reflexivity]. rewrite Hq.
        cbn [N.eqb Pos.eqb]. erewrite Plain.runs_bind; [|reflexivity|reflexivity].
        apply Hfin, Hcp2; [reflexivity|exact Hq|reflexivity].
      * erewrite Plain.runs_bind; [|reflexivity|reflexivity].
        destruct (N.eqb c0 58) eqn:E58.
        -- apply N.eqb_eq in E58. subst c0. assert (Hq : mem c1 blankz = false) by (apply Hqc; reflexivity).
           erewrite Plain.runs_bind; [|unfold next_blank; erewrite Plain.runs_bind; [reflexivity|apply peek_ok, Hc1|reflexivity]|reflexivity]. rewrite Hq.
           apply Hfin, Hcp2; [reflexivity|exact Hq|reflexivity].
        -- erewrite Plain.runs_bind; [|reflexivity|reflexivity].
           apply Hfin. unfold check_plain. erewrite Plain.runs_bind; [|apply peek_ok; rewrite Hr; reflexivity|reflexivity].
           assert (Hex : mem c0 plain_excl = false) by (apply Hne; assumption).
           rewrite Hex. reflexivity.
Qed.

(* ---------- what the analysis says about the first character ---------- *)
Lemma first_step au len sc f ch :
  Emit.block_ind (Emit.analyze_step au len sc f 0 ch) = false ->
  Emit.block_ind f = false /\ Emit.mem ch Emit.lead_ind = false /\
  (Emit.mem ch [63; 58]%N = true -> (Nat.leb len 1 || match Emit.nth_cp sc 1 with Some c => Emit.mem c Emit.blankz | None => true end) = false) /\
  (N.eqb ch 45 = true -> (Nat.leb len 1 || match Emit.nth_cp sc 1 with Some c => Emit.mem c Emit.blankz | None => true end) = false).
Proof.
  unfold Emit.analyze_step. cbn [Nat.eqb Nat.add].
  set (fw := Nat.leb len 1 || match Emit.nth_cp sc 1 with Some c => Emit.mem c Emit.blankz | None => true end).
  destruct (Emit.mem ch Emit.lead_ind), (Emit.mem ch [63; 58]%N), (N.eqb ch 45), fw, (Emit.block_ind f), (N.eqb ch Emit.SP), (Emit.mem ch Emit.brk4);
    cbn; intros H; try discriminate H; repeat split; auto; intros; discriminate.
Qed.

Lemma no_marker p : forall t x r, Emit.starts_with p t = false -> (forall c, In c p -> N.eqb x c = false) -> str_eqb (firstn (length p) (t ++ x :: r)) p = false.
Proof.
  induction p as [|a p IH]; intros t x r Hs Hx; [discriminate Hs|].
  destruct t as [|b t].
  - cbn. rewrite (Hx a (or_introl eq_refl)). reflexivity.
  - cbn in Hs. cbn [length firstn app str_eqb]. destruct (N.eqb a b) eqn:E.
    + apply N.eqb_eq in E. subst b. rewrite N.eqb_refl. cbn [andb] in *. apply IH; [exact Hs|]. intros c Hc. apply Hx. right. exact Hc.
    + rewrite N.eqb_sym, E. reflexivity.
Qed.

(* EVERY non-empty text for which the emitter's analysis allows the plain style in block context, standing in the input followed by a blank: the scanner's
   dispatch selects fetch_plain *)
Theorem analysed_plain_is_dispatched_to_plain : forall au text x r sc,
  text <> [] -> Emit.a_block_plain (Emit.analyze_scalar au text) = true -> mem x blankz = true ->
  rest sc = text ++ x :: r -> flow_level sc = 0%Z -> dispatch sc = fetch_plain sc.
Proof.
  intros au text x r sc Hne Ha Hx Hr Hfl. destruct text as [|c0 t0]; [congruence|]. set (t := c0 :: t0) in *.
  unfold Emit.analyze_scalar in Ha. fold t in Ha. cbn [Emit.a_block_plain] in Ha.
  match type of Ha with context [Emit.analyze_loop au ?len t t 0 ?f0] => set (f := Emit.analyze_loop au len t t 0 f0) in *; set (F0 := f0) in * end.
  apply andb_prop in Ha as [Hfp Hbi]. apply negb_true_iff in Hbi.
  apply andb_prop in Hfp as [Hfp Hlb]. apply negb_true_iff in Hlb. apply andb_prop in Hfp as [Hfp Hsp]. apply negb_true_iff in Hsp. apply orb_false_iff in Hsp as [_ Hsp].
  apply andb_prop in Hfp as [Hedge _]. apply negb_true_iff in Hedge. apply orb_false_iff in Hedge as [Hedge _]. apply orb_false_iff in Hedge as [Hedge Hts].
  apply orb_false_iff in Hedge as [Hls _].
  assert (Hq : AnalysisPlain.quiet f) by (unfold AnalysisPlain.quiet; auto).
  (* after the first character *)
  set (f1 := Emit.analyze_step au (length t) t F0 0 c0).
  assert (Ef : f = Emit.analyze_loop au (length t) t t0 (length [c0]) f1) by reflexivity.
  rewrite Ef in Hq. destruct (AnalysisPlain.loop_inv au t x t0 [c0] f1 eq_refl Hq) as [Hq1 _].
  destruct (AnalysisPlain.step_inv au (length t) t F0 0 c0 Hq1) as (_ & _ & _ & _ & _ & H32 & Hn32).
  assert (Hc32 : c0 <> 32%N) by (intros E; destruct (H32 E) as [A _]; discriminate A).
  destruct Hq1 as (Hb1 & _). destruct (first_step au (length t) t F0 c0 Hb1) as (HbF & Hli & Hqc & H45).
  (* no document marker *)
  cbn [Emit.block_ind F0] in HbF. apply orb_false_iff in HbF as [Hs45 Hs46].
  assert (Hxc : forall k, mem k blankz = false -> N.eqb x k = false).
  { intros k Hk. destruct (N.eqb x k) eqn:E; [|reflexivity]. apply N.eqb_eq in E. subst k. congruence. }
  (* the character after the first *)
  assert (Hfw : (Nat.leb (length t) 1 || match Emit.nth_cp t 1 with Some c => Emit.mem c Emit.blankz | None => true end) = false -> mem (hd x t0) blankz = false).
  { intros E. apply orb_false_iff in E as [_ E]. destruct t0 as [|c1 t1]; [discriminate E|exact E]. }
  assert (Hr' : rest sc = c0 :: hd x t0 :: tl (t0 ++ x :: r)) by (rewrite Hr; destruct t0; reflexivity).
  apply (dispatch_plain sc c0 (hd x t0) _ Hr' Hfl).
  - split; [exact Hli|]. split; [exact (Hn32 Hc32)|]. split; [intros E; exact (Hfw (Hqc E))|]. intros ->. exact (Hfw (H45 eq_refl)).
  - rewrite Hr. apply (no_marker [45; 45; 45]%N t x r Hs45). intros c [<-|[<-|[<-|[]]]]; apply Hxc; reflexivity.
  - rewrite Hr. apply (no_marker [46; 46; 46]%N t x r Hs46). intros c [<-|[<-|[<-|[]]]]; apply Hxc; reflexivity.
Qed.

(* non-vacuity: "-x y" may be written plain and the whole scanner reads "-x y\n" as that plain scalar; "---x", "-" and "..." may not be written plain *)
Example dispatch_example :
  Emit.a_block_plain (Emit.analyze_scalar false [45; 120; 32; 121]%N) = true /\
  map t_kind (fst (scan_all [45; 120; 32; 121; 10]%N)) = [TStreamStart; TScalar [45; 120; 32; 121]%N true SPlain; TStreamEnd] /\
  Emit.a_block_plain (Emit.analyze_scalar false [45; 45; 45; 120]%N) = false /\ Emit.a_block_plain (Emit.analyze_scalar false [45]%N) = false /\
  Emit.a_block_plain (Emit.analyze_scalar false [46; 46; 46]%N) = false.
Proof. vm_compute. repeat split; reflexivity. Qed.
