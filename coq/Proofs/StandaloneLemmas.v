(* C11 / C12 / C19 lemmas. *)
From Coq Require Import List NArith ZArith Bool Arith String.
Import ListNotations.
Require Import Scan Parse Construct GenGlobals GlobalsPolicy.

(* regenerated: library-global containers are written only by the registration API, or after a fresh rebinding *)
Lemma l_global_writes_confined : forallb site_ok mutation_sites = true.
Proof. vm_compute. reflexivity. Qed.
Lemma l_alias_edges_known : edges_eqb alias_edges expected_alias_edges = true.
Proof. vm_compute. reflexivity. Qed.
Lemma l_handlers_ok : forallb handler_ok handlers = true.
Proof. vm_compute. reflexivity. Qed.

Lemma l_handlers_exact : handlers_eqb handlers expected_handlers = true.
Proof. vm_compute. reflexivity. Qed.

(* each document is composed from an EMPTY anchor table and node store: anchors of one document are not visible in the next *)
Lemma l_document_starts_fresh f base e rest_ acc ex v tags :
  e_kind e = VDocStart ex v tags ->
  docs_loop (S f) base (e :: rest_) acc =
  match compose_node (S (List.length (e :: rest_))) base {| evs := rest_; store := []; anchors := [] |} with
  | LOk (root, cs) =>
      match evs cs with [] => (acc, LScan OutOfFuel) | _ =>
      let k0 := {| nodes := store cs; hp := []; cache := []; recursive := []; gens := [] |} in
      let fuel2 := S (List.length (store cs)) * 4 + 8 in
      match (v <== construct_object fuel2 base root ;; _ <== drain (S (List.length (store cs)) * 2) ;; kret v) k0 with
      | LOk (v, k1) => docs_loop f base (tl (evs cs)) (acc ++ [(v, hp k1)])%list
      | r => lift_err acc r
      end end
  | r => lift_err acc r
  end.
Proof. intros H. cbn [docs_loop]. rewrite H. reflexivity. Qed.

(* a document indicator is only recognised at column 0 *)
Lemma l_doc_indicator_col0 c s : col s <> 0 -> check_doc c s = Scan.Ok (false, s).
Proof. intros H. unfold check_doc, Scan.bind, Scan.get. destruct (Nat.eqb_spec (col s) 0); [contradiction|reflexivity]. Qed.
