(* C16: sort_keys makes the dumped order a function of the key SET: insertion sort over a strict total order returns the same
   list for every permutation of its input.  Generic part first, then the instance used by Model/Represent.v (py_sorted). *)
From Coq Require Import List NArith ZArith Bool Arith Lia Permutation Sorting.Sorted.
Import ListNotations.
Require Import Scan Parse Construct Represent.

Section Generic.
Variable A : Type.
Variable lt : A -> A -> bool.
Fixpoint ins (x : A) (l : list A) : list A :=
  match l with [] => [x] | y :: l1 => if lt x y then x :: y :: l1 else y :: ins x l1 end.
Definition isort (l : list A) : list A := fold_left (fun acc x => ins x acc) l [].

Variable dom : A -> Prop.                     (* the elements being sorted *)
Hypothesis lt_asym : forall a b, dom a -> dom b -> lt a b = true -> lt b a = false.
Hypothesis lt_trans : forall a b c, dom a -> dom b -> dom c -> lt a b = true -> lt b c = true -> lt a c = true.
Hypothesis lt_total : forall a b, dom a -> dom b -> a <> b -> lt a b = true \/ lt b a = true.

Definition R (a b : A) : Prop := lt a b = true.
Lemma ins_perm x l : Permutation (x :: l) (ins x l).
Proof.
  induction l as [|y l IH]; simpl; auto. destruct (lt x y); auto.
  eapply perm_trans; [apply perm_swap|]. apply perm_skip. exact IH.
Qed.
Lemma ins_in x l z : In z (ins x l) -> z = x \/ In z l.
Proof. intros H. apply (Permutation_in _ (Permutation_sym (ins_perm x l))) in H. destruct H; auto. Qed.
Lemma ins_sorted x l : dom x -> Forall dom l -> ~ In x l -> StronglySorted R l -> StronglySorted R (ins x l).
Proof.
  intros Hx Hd Hn Hs. induction Hs as [|y l Hs IH Hy]; simpl.
  - constructor; constructor.
  - inversion Hd as [|? ? Hdy Hdl]; subst. destruct (lt x y) eqn:E.
    + apply SSorted_cons.
      * apply SSorted_cons; assumption.
      * apply Forall_cons; [exact E|].
        rewrite Forall_forall in *. intros z Hz. apply (lt_trans x y z); auto. apply Hy; auto.
    + constructor.
      * apply IH; auto. intros Hin. apply Hn. right; auto.
      * rewrite Forall_forall in *. intros z Hz. destruct (ins_in _ _ _ Hz) as [->|Hz']; [|auto].
        destruct (lt_total x y Hx Hdy) as [H|H]; [intros ->; apply Hn; left; auto|congruence|exact H].
Qed.
Lemma isort_from acc l : Forall dom (acc ++ l) -> NoDup (acc ++ l) -> StronglySorted R acc ->
  StronglySorted R (fold_left (fun acc x => ins x acc) l acc) /\ Permutation (acc ++ l) (fold_left (fun acc x => ins x acc) l acc).
Proof.
  revert acc. induction l as [|x l IH]; intros acc Hd Hn Hs; simpl.
  - rewrite app_nil_r. auto.
  - assert (P : Permutation (acc ++ x :: l) (ins x acc ++ l)).
    { eapply perm_trans; [apply Permutation_sym, Permutation_middle|]. change (x :: acc ++ l) with ((x :: acc) ++ l). apply Permutation_app_tail. apply ins_perm. }
    destruct (IH (ins x acc)) as [S1 P1].
    + eapply Permutation_Forall; [exact P|exact Hd].
    + eapply Permutation_NoDup; [exact P|exact Hn].
    + apply ins_sorted; auto.
      * rewrite Forall_forall in Hd. apply Hd. apply in_or_app. right; left; auto.
      * rewrite Forall_forall in Hd. apply Forall_forall. intros z Hz. apply Hd. apply in_or_app. left; auto.
      * intros Hin. apply NoDup_remove_2 in Hn. apply Hn. apply in_or_app. left; auto.
    + split; auto. eapply perm_trans; [exact P|exact P1].
Qed.
Lemma sorted_unique l1 : forall l2, Forall dom l1 -> StronglySorted R l1 -> StronglySorted R l2 -> Permutation l1 l2 -> l1 = l2.
Proof.
  induction l1 as [|x l1 IH]; intros l2 Hd S1 S2 P.
  - apply Permutation_nil in P. auto.
  - destruct l2 as [|y l2]; [apply Permutation_sym, Permutation_nil in P; discriminate|].
    inversion S1 as [|? ? S1' F1]; inversion S2 as [|? ? S2' F2]; subst. inversion Hd as [|? ? Hdx Hdl]; subst.
    assert (Hd2 : Forall dom (y :: l2)) by (eapply Permutation_Forall; eauto). inversion Hd2 as [|? ? Hdy Hdl2]; subst.
    assert (x = y).
    { assert (Hx : In x (y :: l2)) by (eapply Permutation_in; [exact P|left; auto]).
      assert (Hy : In y (x :: l1)) by (eapply Permutation_in; [apply Permutation_sym; exact P|left; auto]).
      destruct Hx as [->|Hx]; auto. destruct Hy as [->|Hy]; auto.
      rewrite Forall_forall in F1, F2. pose proof (F1 y Hy) as A1. pose proof (F2 x Hx) as A2. unfold R in *.
      rewrite (lt_asym x y Hdx Hdy A1) in A2. discriminate. }
    subst y. f_equal. apply IH; auto. eapply Permutation_cons_inv; eauto.
Qed.
Theorem isort_perm_invariant l1 l2 : Forall dom l1 -> NoDup l1 -> Permutation l1 l2 -> isort l1 = isort l2.
Proof.
  intros Hd Hn P. unfold isort.
  assert (Hd2 : Forall dom l2) by (eapply Permutation_Forall; eauto).
  assert (Hn2 : NoDup l2) by (eapply Permutation_NoDup; eauto).
  destruct (isort_from [] l1 Hd Hn (SSorted_nil _)) as [S1 P1].
  destruct (isort_from [] l2 Hd2 Hn2 (SSorted_nil _)) as [S2 P2]. simpl in *.
  apply sorted_unique; auto.
  - eapply Permutation_Forall; eauto.
  - eapply perm_trans; [apply Permutation_sym; exact P1|]. eapply perm_trans; [exact P|exact P2].
Qed.
End Generic.

(* ---------- instance: string keys (code-point order = Python's str <) ---------- *)
Lemma str_ltb_irrefl a : str_ltb a a = false.
Proof. induction a as [|x a IH]; simpl; auto. rewrite N.ltb_irrefl. exact IH. Qed.
Lemma str_ltb_asym a : forall b, str_ltb a b = true -> str_ltb b a = false.
Proof.
  induction a as [|x a IH]; intros [|y b]; simpl; auto; try discriminate.
  destruct (N.ltb_spec x y); destruct (N.ltb_spec y x); try lia; auto.
Qed.
Lemma str_ltb_trans a : forall b c, str_ltb a b = true -> str_ltb b c = true -> str_ltb a c = true.
Proof.
  induction a as [|x a IH]; intros [|y b] [|z c]; simpl; auto; try discriminate.
  destruct (N.ltb_spec x y); destruct (N.ltb_spec y x); destruct (N.ltb_spec y z); destruct (N.ltb_spec z y);
  destruct (N.ltb_spec x z); destruct (N.ltb_spec z x); try lia; auto; try discriminate.
  intros Ha Hb. eapply IH; eauto.
Qed.
Lemma str_ltb_total a : forall b, a <> b -> str_ltb a b = true \/ str_ltb b a = true.
Proof.
  induction a as [|x a IH]; intros [|y b] Hne; simpl; auto; try congruence.
  destruct (N.ltb_spec x y); destruct (N.ltb_spec y x); try lia; auto.
  assert (x = y) by lia. subst. apply IH. congruence.
Qed.

(* ---------- py_sorted of Model/Represent.v on mappings whose keys are all str ---------- *)
Definition is_str (p : val * val) : bool := match fst p with PStr _ => true | _ => false end.
Definition plt (p q : val * val) : bool := match fst p, fst q with PStr x, PStr y => str_ltb x y | _, _ => false end.
Lemma key_lt_str p q : is_str p = true -> is_str q = true -> key_lt (fst p) (fst q) = Some (plt p q).
Proof. unfold is_str, plt. destruct (fst p); try discriminate. destruct (fst q); try discriminate. reflexivity. Qed.
Lemma insert_sorted_str x l : is_str x = true -> forallb is_str l = true -> insert_sorted x l = Some (ins _ plt x l).
Proof.
  intros Hx. induction l as [|y l IH]; simpl; intros Hl; auto. apply andb_prop in Hl as [Hy Hl].
  rewrite (key_lt_str x y Hx Hy). destruct (plt x y); auto. rewrite IH; auto.
Qed.
Lemma ins_all_str x l : is_str x = true -> forallb is_str l = true -> forallb is_str (ins _ plt x l) = true.
Proof.
  intros Hx. induction l as [|y l IH]; simpl; intros Hl; [rewrite Hx; reflexivity|]. apply andb_prop in Hl as [Hy Hl].
  destruct (plt x y); simpl; rewrite ?Hx, ?Hy, ?Hl; simpl; auto.
Qed.
Lemma fold_insert_str l : forall acc, forallb is_str l = true -> forallb is_str acc = true ->
  fold_left (fun acc x => match acc with Some a => insert_sorted x a | None => None end) l (Some acc) =
  Some (fold_left (fun acc x => ins _ plt x acc) l acc).
Proof.
  induction l as [|x l IH]; simpl; intros acc Hl Ha; auto. apply andb_prop in Hl as [Hx Hl].
  rewrite (insert_sorted_str x acc Hx Ha). apply IH; auto. apply ins_all_str; auto.
Qed.
Lemma all_comparable_str l : forallb is_str l = true -> all_comparable l = true.
Proof.
  intros H. unfold all_comparable. rewrite forallb_forall in *. intros a Ha. rewrite forallb_forall. intros b Hb.
  rewrite (key_lt_str a b (H a Ha) (H b Hb)). reflexivity.
Qed.
Lemma py_sorted_str l : forallb is_str l = true -> py_sorted l = Some (isort _ plt l).
Proof. intros H. unfold py_sorted, isort. rewrite (all_comparable_str l H). simpl. apply fold_insert_str; auto. Qed.

Lemma is_str_key p : is_str p = true -> exists x, fst p = PStr x.
Proof. unfold is_str. destruct (fst p); try discriminate. eauto. Qed.

Theorem l_sorted_str_keys_perm_invariant l1 l2 :
  forallb is_str l1 = true -> NoDup (map fst l1) -> Permutation l1 l2 -> py_sorted l1 = py_sorted l2.
Proof.
  intros Hs Hn P.
  assert (Hs2 : forallb is_str l2 = true).
  { rewrite forallb_forall in *. intros x Hx. apply Hs. eapply Permutation_in; [apply Permutation_sym; exact P|exact Hx]. }
  rewrite (py_sorted_str l1 Hs), (py_sorted_str l2 Hs2). f_equal.
  apply (isort_perm_invariant _ plt (fun p => In p l1)).
  - intros a b Ha Hb H. unfold plt in *. rewrite forallb_forall in Hs.
    destruct (is_str_key a (Hs a Ha)) as [x Ex]. destruct (is_str_key b (Hs b Hb)) as [y Ey]. rewrite Ex, Ey in *. apply str_ltb_asym; auto.
  - intros a b c Ha Hb Hc H1 H2. unfold plt in *. rewrite forallb_forall in Hs.
    destruct (is_str_key a (Hs a Ha)) as [x Ex]. destruct (is_str_key b (Hs b Hb)) as [y Ey]. destruct (is_str_key c (Hs c Hc)) as [z Ez].
    rewrite Ex, Ey, Ez in *. eapply str_ltb_trans; eauto.
  - intros a b Ha Hb Hne. unfold plt. rewrite forallb_forall in Hs.
    destruct (is_str_key a (Hs a Ha)) as [x Ex]. destruct (is_str_key b (Hs b Hb)) as [y Ey]. rewrite Ex, Ey.
    apply str_ltb_total. intros ->.
    (* equal keys of two different pairs contradict NoDup (map fst l1) *)
    clear - Hn Ha Hb Hne Ex Ey. induction l1 as [|p l IH]; [contradiction|]. simpl in Hn. inversion Hn as [|? ? Hnin Hn']; subst.
    destruct Ha as [->|Ha]; destruct Hb as [->|Hb].
    + congruence.
    + apply Hnin. rewrite Ex, <- Ey. apply in_map. exact Hb.
    + apply Hnin. rewrite Ey, <- Ex. apply in_map. exact Ha.
    + apply IH; auto.
  - apply Forall_forall. auto.
  - apply (NoDup_map_inv fst). exact Hn.
  - exact P.
Qed.
