(* C02: single-quoted round trip (quote doubling, no folding) against the validated scanner model. *)
From Coq Require Import List NArith ZArith Bool Arith Lia.
Import ListNotations.
Require Import Scan Pos DQ.
Arguments mem : simpl never.

(* ---------- the writer side: write_single_quoted without folding doubles every apostrophe ---------- *)
Open Scope N_scope.
Definition raw1 (c : cp) : bool := (32 <=? c) && (c <=? 126).
Definition enc1 (c : cp) : str := if c =? 39 then [39; 39] else [c].
Definition body1 (t : str) : str := flat_map enc1 t.
(* characters of a maximal run the scanner copies in one piece *)
Definition span1 (c : cp) : bool := raw1 c && negb (c =? 32) && negb (c =? 39) && negb (c =? 34) && negb (c =? 92).
Close Scope N_scope.

Lemma raw1_range c : raw1 c = true -> (32 <= c <= 126)%N.
Proof. unfold raw1. rewrite andb_true_iff, !N.leb_le. tauto. Qed.
Lemma span1_not_stop c : span1 c = true -> not_fs_stop c = true.
Proof.
  unfold span1. rewrite !andb_true_iff, !negb_true_iff, !N.eqb_neq. intros [[[[H1 H2] H3] H4] H5].
  apply raw1_range in H1. unfold not_fs_stop, fs_stop, mem. simpl.
  rewrite negb_true_iff. repeat (rewrite orb_false_iff; split); try reflexivity; apply N.eqb_neq;
    unfold NUL, SP, TAB, CR, LF, NEL, LS, PS; lia.
Qed.
Lemma enc1_span c : span1 c = true -> enc1 c = [c].
Proof. unfold span1, enc1. rewrite !andb_true_iff, !negb_true_iff. intros [[[[_ _] H] _] _]. rewrite H. reflexivity. Qed.
Lemma body1_run run t : forallb span1 run = true -> body1 (run ++ t) = run ++ body1 t.
Proof.
  induction run as [|c run IH]; simpl; intros H; auto.
  apply andb_prop in H as [Hc H]. unfold body1 in *. simpl. rewrite enc1_span by assumption. simpl. f_equal. apply IH; auto.
Qed.
Lemma take_run1 : forall t, exists run t2, t = run ++ t2 /\ forallb span1 run = true /\
   (t2 = [] \/ exists c t3, t2 = c :: t3 /\ span1 c = false).
Proof.
  induction t as [|c t IH].
  - exists [], []. auto.
  - destruct (span1 c) eqn:E.
    + destruct IH as (run & t2 & A & B & C). exists (c :: run), t2. subst. repeat split; auto. simpl. rewrite E, B. reflexivity.
    + exists [], (c :: t). repeat split; auto. right. eauto.
Qed.
(* a printable character outside the runs is a space, an apostrophe, a double quote or a backslash *)
Lemma nonspan_cases c : raw1 c = true -> span1 c = false -> (c = 32 \/ c = 39 \/ c = 34 \/ c = 92)%N.
Proof.
  intros R H. unfold span1 in H. rewrite R in H. simpl in H.
  destruct (N.eqb_spec c 32); auto. destruct (N.eqb_spec c 39); auto. destruct (N.eqb_spec c 34); auto. destruct (N.eqb_spec c 92); auto.
  discriminate.
Qed.

Lemma ns_prefix1 (chunks : str) s run x r (K : cp -> str -> M str) :
  rest s = run ++ x :: r -> forallb span1 run = true -> not_fs_stop x = false ->
  exists s1, rest s1 = x :: r /\
    (n <- with_fuel (fun f' => span f' not_fs_stop 0) ;; p <- prefix n ;; forward n ;;; ch <- peek 0 ;; K ch (chunks ++ p)) s
    = K x (chunks ++ run) s1.
Proof.
  intros Hr Hrun Hx.
  assert (Hsp : forallb not_fs_stop run = true).
  { clear Hr. induction run as [|c run IH]; simpl in *; auto. apply andb_prop in Hrun as [A B]. rewrite span1_not_stop, IH; auto. }
  rewrite (bind_ok _ _ s (length run) s).
  2:{ rewrite with_fuel_eq. rewrite (span_spec not_fs_stop run (fuel_of s) 0 s [] x r); auto.
      unfold fuel_of. rewrite Hr, app_length. simpl. lia. }
  rewrite (bind_ok _ _ s run s).
  2:{ rewrite prefix_ok. rewrite Hr. rewrite firstn_app_exact. reflexivity. }
  destruct (forward_rest (length run) s run x r Hr eq_refl) as (s1 & F & R1).
  rewrite (bind_ok _ _ s tt s1 F).
  rewrite (bind_ok _ _ s1 x s1) by (apply peek_ok; rewrite R1; reflexivity).
  exists s1. auto.
Qed.

(* continuation of fs_non_spaces after `ch <- peek 0`, specialised to double = false *)
Definition ns_K1 (f : nat) (start : mark) (ch : cp) (chunks : str) : M str :=
  c1 <- (if true && N.eqb ch 39 then peek 1 else ret NUL) ;;
  if true && N.eqb ch 39 && N.eqb c1 39 then forward 2 ;;; fs_non_spaces f false start (chunks ++ [39%N])
  else if (false && N.eqb ch 39) || (true && mem ch [34;92]%N) then forward 1 ;;; fs_non_spaces f false start (chunks ++ [ch])
  else if false && N.eqb ch 92 then ret chunks     (* dead branch: the escape code of double-quoted scalars *)
  else ret chunks.

Lemma ns_unfold1 f start chunks :
  fs_non_spaces (S f) false start chunks =
  (n <- with_fuel (fun f' => span f' not_fs_stop 0) ;; p <- prefix n ;; forward n ;;; ch <- peek 0 ;; ns_K1 f start ch (chunks ++ p)).
Proof. reflexivity. Qed.

(* the text t is over printable ASCII; the buffer holds its escaped body, the closing apostrophe and a tail that does not start
   with another apostrophe (which would read as an escaped one) *)
Theorem ns_body1 : forall n t, length t <= n -> forall fuel s chunks z tail start,
  forallb raw1 t = true -> z <> 39%N -> rest s = body1 t ++ 39%N :: z :: tail -> length (rest s) < fuel ->
  exists s' t1 t2, fs_non_spaces fuel false start chunks s = Ok (chunks ++ t1, s') /\ t = t1 ++ t2 /\
     rest s' = body1 t2 ++ 39%N :: z :: tail /\ (t2 = [] \/ exists t3, t2 = 32%N :: t3).
Proof.
  induction n as [|n IH]; intros t Hlen fuel s chunks z tail start Hraw Hz Hr Hf;
  (destruct fuel as [|f]; [lia|]); rewrite ns_unfold1;
  destruct (take_run1 t) as (run & t2 & Et & Hrun & Ht2); subst t;
  rewrite body1_run in Hr by assumption; rewrite <- app_assoc in Hr.
  all: destruct Ht2 as [->|(c & t3 & -> & Hc)].
  (* the text ends after the run: the closing apostrophe followed by z *)
  1,3: simpl in Hr;
       destruct (ns_prefix1 chunks s run 39%N (z :: tail) (ns_K1 f start) Hr Hrun eq_refl) as (s1 & R1 & E1); rewrite E1;
       unfold ns_K1; cbn [andb]; rewrite N.eqb_refl;
       rewrite (bind_ok _ _ s1 z s1) by (apply peek_ok; rewrite R1; reflexivity);
       apply N.eqb_neq in Hz; rewrite Hz; cbn [andb orb];
       replace (mem 39%N [34%N; 92%N]) with false by reflexivity; cbn [andb orb];
       exists s1, run, []; repeat split; auto; rewrite app_nil_r; reflexivity.
  - rewrite app_length in Hlen. simpl in Hlen. lia.
  - assert (Hrc : raw1 c = true) by (rewrite forallb_app in Hraw; simpl in Hraw; apply andb_prop in Hraw as [_ H]; apply andb_prop in H as [H _]; exact H).
    assert (Hr3 : forallb raw1 t3 = true) by (rewrite forallb_app in Hraw; simpl in Hraw; apply andb_prop in Hraw as [_ H]; apply andb_prop in H as [_ H]; exact H).
    assert (Hlen3 : length t3 <= n) by (rewrite app_length in Hlen; simpl in Hlen; lia).
    destruct (nonspan_cases c Hrc Hc) as [->|[->|[->| ->]]].
    + (* a space: the call returns *)
      change (body1 (32%N :: t3)) with (32%N :: body1 t3) in Hr. simpl in Hr.
      destruct (ns_prefix1 chunks s run 32%N _ (ns_K1 f start) Hr Hrun eq_refl) as (s1 & R1 & E1). rewrite E1.
      unfold ns_K1. cbn [andb]. replace (N.eqb 32 39) with false by reflexivity. rewrite ret_bind. cbn [andb orb].
      replace (mem 32%N [34%N; 92%N]) with false by reflexivity. cbn [andb orb].
      exists s1, run, (32%N :: t3). repeat split; eauto.
    + (* an apostrophe, written twice: one is appended *)
      change (body1 (39%N :: t3)) with (39%N :: 39%N :: body1 t3) in Hr. simpl in Hr.
      destruct (ns_prefix1 chunks s run 39%N _ (ns_K1 f start) Hr Hrun eq_refl) as (s1 & R1 & E1). rewrite E1. clear E1.
      assert (Hl1 : length (rest s1) <= length (rest s)) by (rewrite R1, Hr, app_length; simpl; lia).
      unfold ns_K1. cbn [andb]. rewrite N.eqb_refl.
      rewrite (bind_ok _ _ s1 39%N s1) by (apply peek_ok; rewrite R1; reflexivity).
      rewrite N.eqb_refl. cbn [andb].
      destruct (body1 t3 ++ 39%N :: z :: tail) as [|y rr] eqn:Eb; [destruct (body1 t3); discriminate|].
      destruct (forward_rest 2 s1 [39%N; 39%N] y rr R1 eq_refl) as (s2 & F2 & R2).
      rewrite (bind_ok _ _ s1 tt s2 F2). cbv beta.
      destruct (IH t3 Hlen3 f s2 ((chunks ++ run) ++ [39%N]) z tail start Hr3 Hz) as (s' & t1 & t2 & A & B & C & D).
      { rewrite R2. symmetry. exact Eb. } { rewrite R2. rewrite R1 in Hl1. simpl in Hl1. simpl. lia. }
      exists s', (run ++ 39%N :: t1), t2. repeat split; auto.
      * transitivity (Ok (((chunks ++ run) ++ [39%N]) ++ t1, s') : res (str * st)); [exact A|]. f_equal. f_equal. rewrite <- !app_assoc. reflexivity.
      * rewrite B. rewrite <- app_assoc. reflexivity.
    + (* a double quote: copied *)
      change (body1 (34%N :: t3)) with (34%N :: body1 t3) in Hr. simpl in Hr.
      destruct (ns_prefix1 chunks s run 34%N _ (ns_K1 f start) Hr Hrun eq_refl) as (s1 & R1 & E1). rewrite E1. clear E1.
      assert (Hl1 : length (rest s1) <= length (rest s)) by (rewrite R1, Hr, app_length; simpl; lia).
      unfold ns_K1. cbn [andb]. replace (N.eqb 34 39) with false by reflexivity. rewrite ret_bind. cbn [andb orb].
      replace (mem 34%N [34%N; 92%N]) with true by reflexivity. cbn [andb orb].
      destruct (body1 t3 ++ 39%N :: z :: tail) as [|y rr] eqn:Eb; [destruct (body1 t3); discriminate|].
      destruct (forward1 s1 34%N y rr R1) as (s2 & F2 & R2).
      rewrite (bind_ok _ _ s1 tt s2 F2). cbv beta.
      destruct (IH t3 Hlen3 f s2 ((chunks ++ run) ++ [34%N]) z tail start Hr3 Hz) as (s' & t1 & t2 & A & B & C & D).
      { rewrite R2. symmetry. exact Eb. } { rewrite R2. rewrite R1 in Hl1. simpl in Hl1. simpl. lia. }
      exists s', (run ++ 34%N :: t1), t2. repeat split; auto.
      * transitivity (Ok (((chunks ++ run) ++ [34%N]) ++ t1, s') : res (str * st)); [exact A|]. f_equal. f_equal. rewrite <- !app_assoc. reflexivity.
      * rewrite B. rewrite <- app_assoc. reflexivity.
    + (* a backslash: copied (no escapes in single-quoted scalars) *)
      change (body1 (92%N :: t3)) with (92%N :: body1 t3) in Hr. simpl in Hr.
      destruct (ns_prefix1 chunks s run 92%N _ (ns_K1 f start) Hr Hrun eq_refl) as (s1 & R1 & E1). rewrite E1. clear E1.
      assert (Hl1 : length (rest s1) <= length (rest s)) by (rewrite R1, Hr, app_length; simpl; lia).
      unfold ns_K1. cbn [andb]. replace (N.eqb 92 39) with false by reflexivity. rewrite ret_bind. cbn [andb orb].
      replace (mem 92%N [34%N; 92%N]) with true by reflexivity. cbn [andb orb].
      destruct (body1 t3 ++ 39%N :: z :: tail) as [|y rr] eqn:Eb; [destruct (body1 t3); discriminate|].
      destruct (forward1 s1 92%N y rr R1) as (s2 & F2 & R2).
      rewrite (bind_ok _ _ s1 tt s2 F2). cbv beta.
      destruct (IH t3 Hlen3 f s2 ((chunks ++ run) ++ [92%N]) z tail start Hr3 Hz) as (s' & t1 & t2 & A & B & C & D).
      { rewrite R2. symmetry. exact Eb. } { rewrite R2. rewrite R1 in Hl1. simpl in Hl1. simpl. lia. }
      exists s', (run ++ 92%N :: t1), t2. repeat split; auto.
      * transitivity (Ok (((chunks ++ run) ++ [92%N]) ++ t1, s') : res (str * st)); [exact A|]. f_equal. f_equal. rewrite <- !app_assoc. reflexivity.
      * rewrite B. rewrite <- app_assoc. reflexivity.
Qed.

Lemma body1_spaces sps t : forallb (N.eqb 32) sps = true -> body1 (sps ++ t) = sps ++ body1 t.
Proof.
  induction sps as [|c sps IH]; intros H; [reflexivity|].
  change (N.eqb 32 c && forallb (N.eqb 32) sps = true) in H.
  apply andb_prop in H as [Hc H]. apply N.eqb_eq in Hc. subst c. unfold body1 in *. simpl. f_equal. apply IH; auto.
Qed.
Lemma body1_head_nonblank c t rest_ : raw1 c = true -> c <> 32%N ->
  exists x r, body1 (c :: t) ++ rest_ = x :: r /\ is_blank x = false /\ N.eqb x NUL = false /\ mem x breaks = false.
Proof.
  intros R Hn. apply raw1_range in R. unfold body1. simpl. unfold enc1. destruct (N.eqb_spec c 39) as [->|H39].
  - eexists 39%N, _. split; [reflexivity|]. repeat split; reflexivity.
  - exists c, (flat_map enc1 t ++ rest_). split; [reflexivity|].
    unfold is_blank, mem, breaks, NUL, SP, TAB, CR, LF, NEL, LS, PS. simpl.
    repeat split; repeat (rewrite orb_false_iff; split); try reflexivity; apply N.eqb_neq; lia.
Qed.
Lemma fs_loop_unfold1 f quote start chunks :
  fs_loop (S f) false quote start chunks =
  (ch <- peek 0 ;; if N.eqb ch quote then ret chunks else
     sp <- scan_flow_scalar_spaces start ;; ns <- with_fuel (fun f' => fs_non_spaces f' false start []) ;;
     fs_loop f false quote start (chunks ++ sp ++ ns)).
Proof. reflexivity. Qed.

Theorem loop_body1 : forall n t, length t <= n -> forall fuel s chunks z tail start,
  forallb raw1 t = true -> z <> 39%N -> (t = [] \/ exists t3, t = 32%N :: t3) ->
  rest s = body1 t ++ 39%N :: z :: tail -> length t < fuel ->
  exists s', fs_loop fuel false 39%N start chunks s = Ok (chunks ++ t, s') /\ rest s' = 39%N :: z :: tail.
Proof.
  induction n as [|n IH]; intros t Hlen fuel s chunks z tail start Hraw Hz Hshape Hr Hf;
  (destruct fuel as [|f]; [lia|]); rewrite fs_loop_unfold1.
  all: destruct Hshape as [->|(t3 & ->)].
  1,3: simpl in Hr; rewrite (bind_ok _ _ s 39%N s) by (apply peek_ok; rewrite Hr; reflexivity);
       simpl; exists s; rewrite app_nil_r; split; [reflexivity|exact Hr].
  - simpl in Hlen. lia.
  - assert (Hr0 : rest s = 32%N :: (body1 t3 ++ 39%N :: z :: tail)) by exact Hr.
    rewrite (bind_ok _ _ s 32%N s) by (apply peek_ok; rewrite Hr0; reflexivity).
    simpl (N.eqb 32 39). cbv iota.
    destruct (take_spaces (32%N :: t3)) as (sps & t4 & Et & Hbl & H32 & Ht4).
    rewrite Et in Hr. rewrite body1_spaces in Hr by assumption. rewrite <- app_assoc in Hr.
    assert (Hs4 : forallb raw1 t4 = true) by (rewrite Et in Hraw; rewrite forallb_app in Hraw; apply andb_prop in Hraw as [_ H]; exact H).
    assert (Hsps : sps <> []) by (intros ->; simpl in Et; subst t4; destruct Ht4 as [H|(c & t5 & H & Hc)]; [discriminate|injection H as <- _; congruence]).
    assert (Hx : exists x r, body1 t4 ++ 39%N :: z :: tail = x :: r /\ is_blank x = false /\ N.eqb x NUL = false /\ mem x breaks = false).
    { destruct Ht4 as [->|(c & t5 & -> & Hc)].
      - exists 39%N, (z :: tail). repeat split; reflexivity.
      - simpl in Hs4. apply andb_prop in Hs4 as [Hsc _].
        destruct (body1_head_nonblank c t5 (39%N :: z :: tail) Hsc Hc) as (x & r & A & B & C & D). exists x, r. auto. }
    destruct Hx as (x & r & Ex & Hxb & Hxn & Hxk).
    assert (Hr' : rest s = sps ++ x :: r) by (rewrite Hr; f_equal; exact Ex).
    destruct (spaces_ok s sps x r start Hr' Hbl Hxb Hxn Hxk) as (s1 & E1 & R1).
    rewrite (bind_ok _ _ s sps s1 E1).
    destruct (ns_body1 (length t4) t4 (le_n _) (fuel_of s1) s1 [] z tail start Hs4 Hz) as (s2 & t1 & t2 & A & B & C & D).
    { rewrite R1. symmetry. exact Ex. } { unfold fuel_of. lia. }
    rewrite (bind_ok _ _ s1 t1 s2) by (rewrite with_fuel_eq; exact A).
    assert (Hlt : length t2 <= n).
    { assert (length (32%N :: t3) = length sps + length t4) by (rewrite Et, app_length; reflexivity).
      rewrite B, app_length in H. simpl in Hlen. destruct sps; [congruence|]. simpl in H. unfold str, cp in *. lia. }
    assert (Hs2 : forallb raw1 t2 = true) by (rewrite B in Hs4; rewrite forallb_app in Hs4; apply andb_prop in Hs4 as [_ H]; exact H).
    destruct (IH t2 Hlt f s2 (chunks ++ sps ++ t1) z tail start Hs2 Hz D C) as (s' & A' & R').
    { assert (length (32%N :: t3) = length sps + length t4) by (rewrite Et, app_length; reflexivity).
      rewrite B, app_length in H. destruct sps; [congruence|]. simpl in H, Hf. unfold str, cp in *. lia. }
    exists s'. split; auto.
    transitivity (Ok ((chunks ++ sps ++ t1) ++ t2, s') : res (str * st)); [exact A'|].
    f_equal. f_equal. rewrite Et, B. rewrite <- !app_assoc. reflexivity.
Qed.

(* the whole scalar: what write_single_quoted produces for t (apostrophes doubled, no fold) reads back as t *)
Theorem sq_roundtrip t z tail s :
  forallb raw1 t = true -> z <> 39%N -> rest s = 39%N :: body1 t ++ 39%N :: z :: tail ->
  exists tok s', scan_flow_scalar false s = Ok (tok, s') /\ t_kind tok = TScalar t false SSingle /\ rest s' = z :: tail.
Proof.
  intros Hs Hz Hr. unfold scan_flow_scalar.
  rewrite (bind_ok _ _ s {| m_index := index s; m_line := line s; m_col := col s |} s) by reflexivity.
  rewrite (bind_ok _ _ s 39%N s) by (apply peek_ok; rewrite Hr; reflexivity).
  destruct (body1 t ++ 39%N :: z :: tail) as [|y rr] eqn:Eb; [destruct (body1 t); discriminate|].
  destruct (forward1 s 39%N y rr Hr) as (s1 & F1 & R1).
  rewrite (bind_ok _ _ s tt s1 F1). cbv beta.
  set (start := {| m_index := index s; m_line := line s; m_col := col s |}).
  destruct (ns_body1 (length t) t (le_n _) (fuel_of s1) s1 [] z tail start Hs Hz) as (s2 & t1 & t2 & A & B & C & D).
  { rewrite R1. symmetry. exact Eb. } { unfold fuel_of. lia. }
  rewrite (bind_ok _ _ s1 t1 s2) by (rewrite with_fuel_eq; exact A).
  assert (Hs2 : forallb raw1 t2 = true) by (rewrite B in Hs; rewrite forallb_app in Hs; apply andb_prop in Hs as [_ H]; exact H).
  destruct (loop_body1 (length t2) t2 (le_n _) (fuel_of s2) s2 t1 z tail start Hs2 Hz D C) as (s3 & A3 & R3).
  { unfold fuel_of. rewrite C, app_length. assert (length t2 <= length (body1 t2)).
    { clear. induction t2 as [|c t2 IH]; simpl; auto. unfold body1 in *. simpl. rewrite app_length.
      assert (1 <= length (enc1 c)) by (unfold enc1; destruct (N.eqb c 39); simpl; lia). lia. }
    lia. }
  rewrite (bind_ok _ _ s2 (t1 ++ t2) s3) by (rewrite with_fuel_eq; exact A3).
  destruct (forward1 s3 39%N z tail R3) as (s4 & F4 & R4).
  rewrite (bind_ok _ _ s3 tt s4 F4). cbv beta.
  eexists _, s4. split; [reflexivity|]. simpl. split; [rewrite B; reflexivity|exact R4].
Qed.
