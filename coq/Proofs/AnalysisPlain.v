(* C02/C05: two cooperating sites - whenever the emitter's analysis allows the plain style in block context, the text is one the scanner
   reads back as a plain scalar (Plain.plainok). *)
From Coq Require Import List NArith ZArith Bool Arith Lia.
Import ListNotations.
Require Import Emit.
Require Plain.

(* what the final flags say about every character: c = the character, r = what follows it in the text, x = a blank standing for the end *)
Fixpoint good (pw fst : bool) (l : str) (x : cp) : Prop :=
  match l with
  | [] => True
  | c :: r =>
      mem c brk4 = false /\ (c = 58%N -> mem (hd x r) blankz = false) /\ (c = 35%N -> fst = false /\ pw = false) /\
      (c = 32%N -> fst = false /\ r <> []) /\ (c <> 32%N -> mem c blankz = false) /\ good (mem c blankz) false r x
  end.

Definition quiet (f : aflags) : Prop := block_ind f = false /\ special f = false /\ line_brk f = false /\ lead_sp f = false /\ trail_sp f = false.

Lemma unicode_not_blank c : is_unicode_ok c = true -> mem c brk4 = false -> mem c blankz = false.
Proof.
  intros Hu Hb. unfold is_unicode_ok in Hu. apply andb_prop in Hu as [Hu _].
  unfold mem, blankz. cbn [existsb]. unfold mem, brk4 in Hb. cbn [existsb] in Hb. repeat (apply orb_false_iff in Hb as [? Hb]).
  assert (160 <= c)%N.
  { repeat (apply orb_prop in Hu as [Hu|Hu]); apply andb_prop in Hu as [Hu _]; apply N.leb_le in Hu; lia. }
  unfold LF, NEL, LS, PS in *. repeat match goal with E : N.eqb c _ = false |- _ => rewrite E; clear E end.
  replace (N.eqb c 0) with false by (symmetry; apply N.eqb_neq; lia). replace (N.eqb c 32) with false by (symmetry; apply N.eqb_neq; lia).
  replace (N.eqb c 9) with false by (symmetry; apply N.eqb_neq; lia). replace (N.eqb c 13) with false by (symmetry; apply N.eqb_neq; lia).
  replace (N.eqb c 133) with false by (symmetry; apply N.eqb_neq; lia). reflexivity.
Qed.

Lemma printable_not_blank c : (N.leb 32 c && N.leb c 126) = true -> c <> 32%N -> mem c blankz = false.
Proof.
  intros H Hn. apply andb_prop in H as [H1 H2]. apply N.leb_le in H1, H2. unfold mem, blankz. cbn [existsb].
  replace (N.eqb c 0) with false by (symmetry; apply N.eqb_neq; lia). replace (N.eqb c 32) with false by (symmetry; apply N.eqb_neq; lia).
  replace (N.eqb c 9) with false by (symmetry; apply N.eqb_neq; lia). replace (N.eqb c 13) with false by (symmetry; apply N.eqb_neq; lia).
  replace (N.eqb c 10) with false by (symmetry; apply N.eqb_neq; lia). replace (N.eqb c 133) with false by (symmetry; apply N.eqb_neq; lia).
  replace (N.eqb c 8232) with false by (symmetry; apply N.eqb_neq; lia). replace (N.eqb c 8233) with false by (symmetry; apply N.eqb_neq; lia). reflexivity.
Qed.

(* one step of the analysis: quiet flags after it mean quiet flags before it and an innocent character *)
Lemma step_inv au len sc f idx ch :
  quiet (analyze_step au len sc f idx ch) ->
  quiet f /\ preceded_ws (analyze_step au len sc f idx ch) = mem ch blankz /\
  mem ch brk4 = false /\
  (ch = 58%N -> (Nat.leb len (idx + 1) || match nth_cp sc (idx + 1) with Some c => mem c blankz | None => true end) = false) /\
  (ch = 35%N -> Nat.eqb idx 0 = false /\ preceded_ws f = false) /\
  (ch = 32%N -> Nat.eqb idx 0 = false /\ Nat.eqb idx (len - 1) = false) /\
  (ch <> 32%N -> mem ch blankz = false).
Proof.
  unfold quiet, analyze_step.
  set (fw := Nat.leb len (idx + 1) || match nth_cp sc (idx + 1) with Some c => mem c blankz | None => true end).
  set (fb := if Nat.eqb idx 0 then _ else _).
  assert (Hfb : snd fb = false -> block_ind f = false /\ (ch = 58%N -> fw = false) /\ (ch = 35%N -> Nat.eqb idx 0 = false /\ preceded_ws f = false)).
  { unfold fb. destruct (Nat.eqb idx 0) eqn:E0.
    - destruct (mem ch lead_ind) eqn:El.
      + destruct (mem ch [63; 58]%N); [|destruct (N.eqb ch 45 && fw)]; cbn; intros H; try discriminate H.
        destruct (N.eqb ch 45 && fw); cbn in H; discriminate H.
      + destruct (mem ch [63; 58]%N) eqn:Eq.
        * destruct (N.eqb ch 45 && fw) eqn:E45; cbn; intros H; [discriminate H|]. apply orb_false_iff in H as [H1 H2].
          split; [exact H1|]. split; [intros _; exact H2|]. intros ->. discriminate El.
        * destruct (N.eqb ch 45 && fw) eqn:E45; cbn; intros H; [discriminate H|].
          split; [exact H|]. split; [intros ->; discriminate Eq|intros ->; discriminate El].
    - set (fi1 := if mem ch [44; 63; 91; 93; 123; 125]%N then true else flow_ind f).
      destruct (N.eqb ch 58) eqn:E58.
      + destruct (N.eqb ch 35 && preceded_ws f) eqn:E35; cbn; intros H; [discriminate H|]. apply orb_false_iff in H as [H1 H2].
        split; [exact H1|]. split; [intros _; exact H2|]. intros ->. discriminate E58.
      + destruct (N.eqb ch 35 && preceded_ws f) eqn:E35; cbn; intros H; [discriminate H|].
        split; [exact H|]. split; [intros ->; discriminate E58|]. intros ->. cbn in E35. split; [reflexivity|exact E35]. }
  destruct fb as [fi bi]. cbn [snd] in Hfb.
  assert (Hsp : forall b : bool, (special f || (if negb (N.eqb ch LF || (N.leb 32 ch && N.leb ch 126)) then if is_unicode_ok ch then b else true else false)) = false ->
                (line_brk f || mem ch brk4) = false -> special f = false /\ line_brk f = false /\ mem ch brk4 = false /\ (ch <> 32%N -> mem ch blankz = false)).
  { intros b H1 H2. apply orb_false_iff in H1 as [H1 H3]. apply orb_false_iff in H2 as [H2 H4]. repeat split; auto. intros Hn.
    destruct (N.eqb ch LF || (N.leb 32 ch && N.leb ch 126)) eqn:Ep; cbn [negb] in H3.
    - apply orb_prop in Ep as [Ep|Ep]; [apply N.eqb_eq in Ep; subst ch; discriminate H4|apply printable_not_blank; assumption].
    - destruct (is_unicode_ok ch) eqn:Eu; [apply unicode_not_blank; assumption|discriminate H3]. }
  destruct (N.eqb ch SP) eqn:Esp.
  - cbn. intros (H1 & H2 & H3 & H4 & H5). destruct (Hfb H1) as (A & B & C). destruct (Hsp _ H2 H3) as (D & E & F & G).
    apply orb_false_iff in H4 as [H4 H4']. apply orb_false_iff in H5 as [H5 H5'].
    refine (conj (conj A (conj D (conj E (conj H4 H5)))) (conj eq_refl (conj F (conj B (conj C (conj _ G)))))).
    intros _. split; assumption.
  - assert (Hn : ch <> 32%N) by (apply N.eqb_neq; exact Esp).
    destruct (mem ch brk4) eqn:Eb; cbn; intros (H1 & H2 & H3 & H4 & H5); destruct (Hfb H1) as (A & B & C); destruct (Hsp _ H2 H3) as (D & E & F & G); [discriminate F|].
    refine (conj (conj A (conj D (conj E (conj H4 H5)))) (conj eq_refl (conj F (conj B (conj C (conj _ G)))))).
    intros ->. congruence.
Qed.

Lemma loop_inv au sc x : forall rest_ pre f, sc = pre ++ rest_ -> quiet (analyze_loop au (length sc) sc rest_ (length pre) f) ->
  quiet f /\ good (preceded_ws f) (Nat.eqb (length pre) 0) rest_ x.
Proof.
  induction rest_ as [|ch r IH]; intros pre f Hsc Hq; cbn [analyze_loop] in Hq; [split; [exact Hq|exact Logic.I]|].
  assert (Hsc' : sc = (pre ++ [ch]) ++ r) by (rewrite Hsc, <- app_assoc; reflexivity).
  assert (Hl : S (length pre) = length (pre ++ [ch])) by (rewrite app_length; cbn; lia).
  rewrite Hl in Hq. destruct (IH (pre ++ [ch]) _ Hsc' Hq) as [Hq' Hg].
  destruct (step_inv _ _ _ _ _ _ Hq') as (Hqf & Hpw & Hb & H58 & H35 & H32 & Hn32).
  split; [exact Hqf|]. cbn [good]. rewrite Hpw in Hg.
  replace (Nat.eqb (length (pre ++ [ch])) 0) with false in Hg by (symmetry; apply Nat.eqb_neq; lia).
  assert (Hlen : length sc = length pre + S (length r)) by (rewrite Hsc, app_length; cbn; lia).
  refine (conj Hb (conj _ (conj H35 (conj _ (conj Hn32 Hg))))).
  - intros E. specialize (H58 E). apply orb_false_iff in H58 as [H1 H2]. apply Nat.leb_gt in H1.
    destruct r as [|c1 r1]; [cbn in Hlen; lia|]. cbn [hd].
    assert (En : nth_cp sc (length pre + 1) = Some c1).
    { unfold nth_cp. rewrite Hsc. rewrite nth_error_app2 by lia. replace (length pre + 1 - length pre) with 1 by lia. reflexivity. }
    rewrite En in H2. exact H2.
  - intros E. destruct (H32 E) as [H1 H2]. split; [exact H1|]. apply Nat.eqb_neq in H2. intros ->. cbn in Hlen. lia.
Qed.

(* ---------- from the per-character facts to words and runs of spaces ---------- *)
Fixpoint takew (l : str) : str * str :=
  match l with [] => ([], []) | c :: r => if N.eqb c 32 then ([], l) else let '(w, r') := takew r in (c :: w, r') end.
Fixpoint takes (l : str) : str * str :=
  match l with [] => ([], []) | c :: r => if N.eqb c 32 then let '(w, r') := takes r in (c :: w, r') else ([], l) end.
Lemma takew_spec l : l = fst (takew l) ++ snd (takew l) /\ forallb (fun c => negb (N.eqb c 32)) (fst (takew l)) = true /\
  (snd (takew l) = [] \/ hd 0%N (snd (takew l)) = 32%N) /\ length (snd (takew l)) <= length l.
Proof.
  induction l as [|c r IH]; cbn [takew]; [cbn; auto|]. destruct (N.eqb c 32) eqn:E.
  - cbn. apply N.eqb_eq in E. subst c. auto.
  - destruct (takew r) as [w r']. cbn [fst snd] in *. destruct IH as (A & B & C & D). cbn. rewrite E, B. cbn. repeat split; auto; try (f_equal; exact A); try lia.
Qed.
Lemma takes_spec l : l = fst (takes l) ++ snd (takes l) /\ forallb Scan.is_sp (fst (takes l)) = true /\
  (snd (takes l) = [] \/ hd 0%N (snd (takes l)) <> 32%N) /\ length (snd (takes l)) <= length l /\ (hd 0%N l = 32%N -> l <> [] -> fst (takes l) <> []).
Proof.
  induction l as [|c r IH]; cbn [takes]; [cbn; repeat split; auto|]. destruct (N.eqb c 32) eqn:E.
  - destruct (takes r) as [w r']. cbn [fst snd] in *. destruct IH as (A & B & C & D & _). apply N.eqb_eq in E. subst c. cbn. rewrite B.
    repeat split; auto; try (f_equal; exact A); try lia; try discriminate.
  - cbn. apply N.eqb_neq in E. repeat split; auto; try congruence.
Qed.

Lemma mem_same c l : Scan.mem c l = mem c l.
Proof. reflexivity. Qed.
Lemma blankz_same : Scan.blankz = blankz.
Proof. reflexivity. Qed.
Section Words.
Variable x : cp.
Hypothesis Hx : mem x blankz = true.

Lemma good_word : forall w rest_ pw fst_, good pw fst_ (w ++ rest_) x -> forallb (fun c => negb (N.eqb c 32)) w = true ->
  Plain.wok w (hd x rest_) = true /\ (w <> [] -> good false false rest_ x).
Proof.
  induction w as [|c w IH]; intros rest_ pw fst_ Hg Hw; [split; [reflexivity|congruence]|].
  cbn [app good] in Hg. destruct Hg as (Hb & H58 & H35 & H32 & Hn & Hg). cbn [forallb] in Hw. apply andb_prop in Hw as [Hc Hw].
  apply negb_true_iff in Hc. apply N.eqb_neq in Hc. specialize (Hn Hc).
  rewrite Hn in Hg. destruct (IH rest_ false false Hg Hw) as [Hwok Hrest].
  split.
  - cbn [Plain.wok]. unfold Plain.wc. rewrite !mem_same, blankz_same, Hn. cbn [negb andb]. rewrite Hwok, andb_true_r.
    destruct (N.eqb c 58) eqn:E58; [|reflexivity]. apply N.eqb_eq in E58. specialize (H58 E58).
    apply negb_true_iff. rewrite mem_same. destruct w; exact H58.
  - intros _. destruct w as [|c' w']; [exact Hg|]. apply Hrest. discriminate.
Qed.
Lemma good_spaces : forall sps rest_ pw fst_, good pw fst_ (sps ++ rest_) x -> forallb Scan.is_sp sps = true -> sps <> [] ->
  rest_ <> [] /\ good true false rest_ x.
Proof.
  induction sps as [|c sps IH]; intros rest_ pw fst_ Hg Hs Hne; [congruence|].
  cbn [app good] in Hg. destruct Hg as (_ & _ & _ & H32 & _ & Hg). cbn [forallb] in Hs. apply andb_prop in Hs as [Hc Hs].
  unfold Scan.is_sp in Hc. apply N.eqb_eq in Hc. change Scan.SP with 32%N in Hc. subst c. destruct (H32 eq_refl) as [_ Hr].
  replace (mem 32%N blankz) with true in Hg by reflexivity.
  destruct sps as [|c' sps']; [split; [exact Hr|exact Hg]|]. apply (IH rest_ true false Hg Hs). discriminate.
Qed.

Lemma good_plainok : forall n t pw fst_, length t <= n -> t <> [] -> hd 0%N t <> 32%N -> (fst_ = true \/ pw = true) -> good pw fst_ t x -> Plain.plainok x t.
Proof.
  induction n as [|n IH]; intros t pw fst_ Hl Hne Hh Hst Hg; [destruct t; [congruence|cbn in Hl; lia]|].
  destruct (takew_spec t) as (Et & Hw & Hr & Hlr). destruct (takew t) as [w rest_]. cbn [fst snd] in *.
  assert (Hwne : w <> []).
  { destruct w as [|c w']; [|discriminate]. cbn in Et. subst rest_. destruct Hr as [Hr|Hr]; intros _; [exact (Hne Hr)|exact (Hh Hr)]. }
  rewrite Et in Hg. destruct (good_word w rest_ pw fst_ Hg Hw) as [Hwok Hrest]. specialize (Hrest Hwne).
  assert (Hh35 : hd 0%N w <> 35%N).
  { destruct w as [|c w']; [congruence|]. cbn [hd]. intros ->. cbn [app good] in Hg. destruct Hg as (_ & _ & H35 & _). destruct (H35 eq_refl) as [A B].
    destruct Hst; congruence. }
  destruct rest_ as [|c0 rest0].
  - rewrite app_nil_r in Et. subst t. apply Plain.p_word. repeat split; assumption.
  - destruct Hr as [Hr|Hr]; [discriminate|]. cbn [hd] in Hr. subst c0.
    destruct (takes_spec (32%N :: rest0)) as (Es & Hs & Hr2 & Hl2 & Hne2). destruct (takes (32%N :: rest0)) as [sps rest2]. cbn [fst snd] in *.
    specialize (Hne2 eq_refl ltac:(discriminate)).
    pose proof (eq_ind _ (fun l => good false false l x) Hrest _ Es) as Hrest'. cbv beta in Hrest'.
    destruct (good_spaces sps rest2 false false Hrest' Hs Hne2) as [Hr2ne Hg2].
    destruct Hr2 as [Hr2|Hr2]; [congruence|].
    assert (Hp : Plain.plainok x rest2).
    { apply (IH rest2 true false); [|exact Hr2ne|exact Hr2|right; reflexivity|exact Hg2]. assert (length t = length w + length (sps ++ rest2)) by (rewrite Et, app_length; f_equal; exact (f_equal (@length _) Es)).
      rewrite app_length in H. destruct w; [congruence|]. cbn in H. unfold Scan.str, Scan.cp, str, cp in *. lia. }
    rewrite Et. refine (eq_ind _ (fun l => Plain.plainok x (w ++ l)) _ _ (eq_sym Es)). apply Plain.p_more; auto. repeat split; auto.
Qed.
End Words.

(* EVERY non-empty text for which the analysis allows the plain style in block context (any allow_unicode setting) is a text of words and runs of
   spaces the scanner reads back as a plain scalar *)
Theorem block_plain_allowed_is_readable : forall au t x, t <> [] -> mem x blankz = true -> a_block_plain (analyze_scalar au t) = true -> Plain.plainok x t.
Proof.
  intros au t x Hne Hx Ha. destruct t as [|c0 t0]; [congruence|]. set (t := c0 :: t0) in *.
  unfold analyze_scalar in Ha. fold t in Ha. cbn [a_block_plain] in Ha. 
  match type of Ha with context [analyze_loop au ?len t t 0 ?f0] => set (f := analyze_loop au len t t 0 f0) in *; set (F0 := f0) in * end.
  apply andb_prop in Ha as [Hfp Hbi]. apply negb_true_iff in Hbi.
  apply andb_prop in Hfp as [Hfp Hlb]. apply negb_true_iff in Hlb. apply andb_prop in Hfp as [Hfp Hsp]. apply negb_true_iff in Hsp. apply orb_false_iff in Hsp as [_ Hsp].
  apply andb_prop in Hfp as [Hedge _]. apply negb_true_iff in Hedge. apply orb_false_iff in Hedge as [Hedge _]. apply orb_false_iff in Hedge as [Hedge Hts].
  apply orb_false_iff in Hedge as [Hls _].
  assert (Hq : quiet f) by (unfold quiet; auto).
  destruct (loop_inv au t x t [] F0 eq_refl Hq) as [_ Hg]. cbn [length Nat.eqb] in Hg.
  apply (good_plainok x (length t) t (preceded_ws F0) true); [apply Nat.le_refl|discriminate| |left; reflexivity|exact Hg].
  cbn [good] in Hg. destruct Hg as (_ & _ & _ & H32 & _). cbn [hd]. intros E. destruct (H32 E) as [A _]. discriminate A.
Qed.


Require EmitSQ EmitPlain.
(* analysis, writer and reader together: EVERY non-empty text for which analyze_scalar allows the plain style in block context, written by
   write_plain without folding after whitespace and followed by the end of the input (or a line feed and the end of the input), is read back by
   scan_plain - block context, a column inside the current indentation - as exactly that text *)
Theorem analysed_plain_emit_then_scan : forall au text x r s, text <> [] -> a_block_plain (analyze_scalar au text) = true -> Plain.ender x r -> whitespace s = true ->
  exists s', write_plain text false s = Ok (tt, s') /\ EmitSQ.otext s' = EmitSQ.otext s ++ text /\
    forall sc, Scan.rest sc = text ++ x :: r -> Scan.flow_level sc = 0%Z -> (Scan.indent sc + 1 <= Z.of_nat (Scan.col sc))%Z ->
      exists tok sc', Scan.scan_plain sc = Scan.Ok (tok, sc') /\ Scan.t_kind tok = Scan.TScalar text true Scan.SPlain /\ Scan.rest sc' = Plain.after x r.
Proof.
  intros au text x r s Hne Ha He Hw. apply EmitPlain.plain_emit_then_scan; [|exact He|exact Hw].
  apply (block_plain_allowed_is_readable au); [exact Hne| |exact Ha]. destruct He as [->|[-> _]]; reflexivity.
Qed.
