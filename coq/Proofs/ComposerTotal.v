(* C03: the composer model, given the events of one grammatical node, consumes exactly those events and ends with a node id or a
   ComposerError - never a crash, never out of events, never out of fuel - in every composer state. *)
From Coq Require Import List NArith ZArith Bool Arith Lia.
Import ListNotations.
Require Import Scan Parse Construct.
Require ParseL ParserGrammar.

Definition mkc (e : list event) (st : nstore) (an : list (str * nat)) : cst := {| evs := e; store := st; anchors := an |}.
Definition good (r : lres (nat * cst)) (rest : list event) : Prop :=
  match r with LOk (_, s') => evs s' = rest | LComposer _ => True | _ => False end.

(* the two inner loops of compose_node, named (convertible with the anonymous fixes) *)
Section Items.
Variables (cn : cst -> lres (nat * cst)) (id : nat) (t : str) (m : mark).
Fixpoint seq_items (fuel' : nat) (acc : list nat) (s : cst) : lres (nat * cst) :=
  match fuel' with O => LFuel | S f' =>
    match evs s with
    | [] => LScan OutOfFuel
    | e' :: r' =>
      match e_kind e' with
      | VSeqEnd => LOk (id, {| evs := r'; store := set_nth id {| n_tag := t; n_kind := NSeq acc; n_start := m |} (store s); anchors := anchors s |})
      | _ => match cn s with
             | LOk (c, s') => seq_items f' (acc ++ [c]) s'
             | LScan r => LScan r | LComposer c => LComposer c | LConstructor c => LConstructor c
             | LCrash x => LCrash x | LFuel => LFuel | LUnmodelled => LUnmodelled end
      end
    end
  end.
Fixpoint map_items_ (fuel' : nat) (acc : list (nat * nat)) (s : cst) : lres (nat * cst) :=
  match fuel' with O => LFuel | S f' =>
    match evs s with
    | [] => LScan OutOfFuel
    | e' :: r' =>
      match e_kind e' with
      | VMapEnd => LOk (id, {| evs := r'; store := set_nth id {| n_tag := t; n_kind := NMap acc; n_start := m |} (store s); anchors := anchors s |})
      | _ => match cn s with
             | LOk (k, s') =>
                 match cn s' with
                 | LOk (v, s'') => map_items_ f' (acc ++ [(k, v)]) s''
                 | LScan r => LScan r | LComposer c => LComposer c | LConstructor c => LConstructor c
                 | LCrash x => LCrash x | LFuel => LFuel | LUnmodelled => LUnmodelled end
             | LScan r => LScan r | LComposer c => LComposer c | LConstructor c => LConstructor c
             | LCrash x => LCrash x | LFuel => LFuel | LUnmodelled => LUnmodelled end
      end
    end
  end.
End Items.

Definition dup_of (anchor : option str) (an : list (str * nat)) : bool :=
  match anchor with Some a => match assoc_nat a an with Some _ => true | None => false end | None => false end.
Definition an_add (anchor : option str) (an : list (str * nat)) (id : nat) := match anchor with Some a => an ++ [(a, id)] | None => an end.

Lemma cn_seq f base e rest st an anchor tag imp fl : e_kind e = VSeqStart anchor tag imp fl ->
  compose_node (S f) base (mkc (e :: rest) st an) =
  if dup_of anchor an then LComposer 2 else
  let t := if bang tag then t_seq else match tag with Some t => t | None => t_seq end in
  seq_items (compose_node f base) (length st) t (e_start e) f []
    (mkc rest (st ++ [{| n_tag := t; n_kind := NSeq []; n_start := e_start e |}]) (an_add anchor an (length st))).
Proof. intros E. unfold mkc. cbn [compose_node evs]. rewrite E. cbn [store anchors]. unfold dup_of, an_add. destruct anchor as [a|]; [destruct (assoc_nat a an)|]; reflexivity. Qed.
Lemma cn_map f base e rest st an anchor tag imp fl : e_kind e = VMapStart anchor tag imp fl ->
  compose_node (S f) base (mkc (e :: rest) st an) =
  if dup_of anchor an then LComposer 2 else
  let t := if bang tag then t_map else match tag with Some t => t | None => t_map end in
  map_items_ (compose_node f base) (length st) t (e_start e) f []
    (mkc rest (st ++ [{| n_tag := t; n_kind := NMap []; n_start := e_start e |}]) (an_add anchor an (length st))).
Proof. intros E. unfold mkc. cbn [compose_node evs]. rewrite E. cbn [store anchors]. unfold dup_of, an_add. destruct anchor as [a|]; [destruct (assoc_nat a an)|]; reflexivity. Qed.

(* the event grammar over the kinds of Parse.event (same rules as ParserGrammar.lang) *)
Inductive gk := KNode | KNodes | KPairs | KDocs.
Inductive clang : gk -> list ev -> Prop :=
| L_alias a : clang KNode [VAlias a]
| L_scalar a t i0 i1 v st : clang KNode [VScalar a t i0 i1 v st]
| L_seq a t i f body : clang KNodes body -> clang KNode (VSeqStart a t i f :: body ++ [VSeqEnd])
| L_map a t i f body : clang KPairs body -> clang KNode (VMapStart a t i f :: body ++ [VMapEnd])
| L_nodes_nil : clang KNodes []
| L_nodes_cons x r : clang KNode x -> clang KNodes r -> clang KNodes (x ++ r)
| L_pairs_nil : clang KPairs []
| L_pairs_cons k v r : clang KNode k -> clang KNode v -> clang KPairs r -> clang KPairs (k ++ v ++ r)
| L_docs_nil : clang KDocs []
| L_docs_cons ex ver tags n x r : clang KNode n -> clang KDocs r -> clang KDocs (VDocStart ex ver tags :: n ++ VDocEnd x :: r).

Definition nstart (e : ev) : bool := match e with VAlias _ | VScalar _ _ _ _ _ _ | VSeqStart _ _ _ _ | VMapStart _ _ _ _ => true | _ => false end.
Lemma clang_head x : clang KNode x -> exists e0 x', x = e0 :: x' /\ nstart e0 = true.
Proof. intros H. inversion H; subst; eauto. Qed.

Definition Pk (k : gk) (a : list ev) : Prop :=
  match k with
  | KNode => forall es rest fuel base st an, map e_kind es = a -> length a < fuel ->
      good (compose_node fuel base (mkc (es ++ rest) st an)) rest
  | KNodes => forall es eend rest f fuel' base id t m acc st an, map e_kind es = a -> e_kind eend = VSeqEnd -> length a < f -> length a < fuel' ->
      good (seq_items (compose_node f base) id t m fuel' acc (mkc (es ++ eend :: rest) st an)) rest
  | KPairs => forall es eend rest f fuel' base id t m acc st an, map e_kind es = a -> e_kind eend = VMapEnd -> length a < f -> length a < fuel' ->
      good (map_items_ (compose_node f base) id t m fuel' acc (mkc (es ++ eend :: rest) st an)) rest
  | KDocs => True
  end.

Lemma map_single {A B} (f : A -> B) l b : map f l = [b] -> exists a, l = [a] /\ f a = b.
Proof. destruct l as [|a [|a' l']]; simpl; intros H; try discriminate. injection H as H. eauto. Qed.
Lemma map_cons_inv {A B} (f : A -> B) l b r : map f l = b :: r -> exists a l', l = a :: l' /\ f a = b /\ map f l' = r.
Proof. destruct l as [|a l']; simpl; intros H; try discriminate. injection H as H1 H2. eauto. Qed.
Lemma map_app_inv {A B} (f : A -> B) l a b : map f l = a ++ b -> exists l1 l2, l = l1 ++ l2 /\ map f l1 = a /\ map f l2 = b.
Proof. intros H. apply map_eq_app in H. destruct H as (l1 & l2 & -> & H1 & H2). eauto. Qed.

Lemma good_step (r : lres (nat * cst)) mid rest (K : nat -> cst -> lres (nat * cst)) :
  good r mid -> (forall c st an, good (K c (mkc mid st an)) rest) ->
  good (match r with
        | LOk (c, s') => K c s'
        | LScan x => LScan x | LComposer c => LComposer c | LConstructor c => LConstructor c
        | LCrash x => LCrash x | LFuel => LFuel | LUnmodelled => LUnmodelled end) rest.
Proof.
  intros H HK. destruct r as [[c [e' st' an']]| | | | | |]; simpl in H; try contradiction; [|exact Logic.I].
  subst e'. apply HK.
Qed.

Lemma main k a : clang k a -> Pk k a.
Proof.
  induction 1 as [x|an_ t i0 i1 v st_|an_ t i f body Hb IH|an_ t i f body Hb IH| |x r Hx IHx Hr IHr| |kx vx r Hk IHk Hv IHv Hr IHr| |]; cbn [Pk] in *; try exact Logic.I.
  - (* alias *) intros es rest fuel base st an Hm Hf. apply map_single in Hm as (e & -> & E). destruct fuel as [|f]; [simpl in Hf; lia|].
    unfold mkc. cbn [app compose_node evs]. rewrite E. cbn [anchors store]. destruct (assoc_nat x an); simpl; auto.
  - (* scalar *) intros es rest fuel base st an Hm Hf. apply map_single in Hm as (e & -> & E). destruct fuel as [|f]; [simpl in Hf; lia|].
    unfold mkc. cbn [app compose_node evs]. rewrite E. cbn [anchors store].
    match goal with |- good (if ?c then _ else _) _ => destruct c end; simpl; auto.
  - (* sequence *) intros es rest fuel base st an Hm Hf. apply map_cons_inv in Hm as (e & es' & -> & E & Hm).
    apply map_app_inv in Hm as (eb & el & -> & Hb1 & Hl). apply map_single in Hl as (eend & -> & Eend).
    destruct fuel as [|f0]; [simpl in Hf; lia|]. cbn [app]. rewrite (cn_seq _ _ _ _ _ _ _ _ _ _ E).
    destruct (dup_of an_ an); [exact Logic.I|]. cbv zeta. rewrite <- app_assoc. cbn [app].
    apply IH; auto; simpl in Hf; rewrite app_length in Hf; simpl in Hf; lia.
  - (* mapping *) intros es rest fuel base st an Hm Hf. apply map_cons_inv in Hm as (e & es' & -> & E & Hm).
    apply map_app_inv in Hm as (eb & el & -> & Hb1 & Hl). apply map_single in Hl as (eend & -> & Eend).
    destruct fuel as [|f0]; [simpl in Hf; lia|]. cbn [app]. rewrite (cn_map _ _ _ _ _ _ _ _ _ _ E).
    destruct (dup_of an_ an); [exact Logic.I|]. cbv zeta. rewrite <- app_assoc. cbn [app].
    apply IH; auto; simpl in Hf; rewrite app_length in Hf; simpl in Hf; lia.
  - (* no more items *) intros es eend rest f fuel' base id t m acc st an Hm Eend Hf Hf'. destruct es; [|discriminate].
    destruct fuel' as [|f']; [simpl in Hf'; lia|]. unfold mkc. cbn [app seq_items evs]. rewrite Eend. reflexivity.
  - (* one more item *) intros es eend rest f fuel' base id t m acc st an Hm Eend Hf Hf'.
    apply map_app_inv in Hm as (ex & er & -> & Hx1 & Hr1).
    destruct (clang_head _ Hx) as (e0 & x' & -> & Hs). apply map_cons_inv in Hx1 as (e1 & ex' & -> & E1 & Hx1).
    rewrite app_length in Hf, Hf'. simpl in Hf, Hf'.
    destruct fuel' as [|f']; [lia|]. rewrite <- app_assoc.
    assert (Hg : good (compose_node f base (mkc ((e1 :: ex') ++ er ++ eend :: rest) st an)) (er ++ eend :: rest)).
    { apply IHx; [simpl; rewrite E1, Hx1; reflexivity|simpl; lia]. }
    unfold mkc at 1. cbn [app seq_items evs]. rewrite E1.
    replace ({| evs := e1 :: ex' ++ er ++ eend :: rest; store := st; anchors := an |}) with (mkc ((e1 :: ex') ++ er ++ eend :: rest) st an) by reflexivity.
    destruct e0; try discriminate; (apply good_step with (mid := er ++ eend :: rest); [exact Hg|]; intros c st' an'; apply IHr; auto; lia).
  - (* no more pairs *) intros es eend rest f fuel' base id t m acc st an Hm Eend Hf Hf'. destruct es; [|discriminate].
    destruct fuel' as [|f']; [simpl in Hf'; lia|]. unfold mkc. cbn [app map_items_ evs]. rewrite Eend. reflexivity.
  - (* one more pair *) intros es eend rest f fuel' base id t m acc st an Hm Eend Hf Hf'.
    apply map_app_inv in Hm as (ek & er0 & -> & Hk1 & Hr0). apply map_app_inv in Hr0 as (ev_ & er & -> & Hv1 & Hr1).
    destruct (clang_head _ Hk) as (e0 & k' & -> & Hs). apply map_cons_inv in Hk1 as (e1 & ek' & -> & E1 & Hk1).
    rewrite !app_length in Hf, Hf'. simpl in Hf, Hf'.
    destruct fuel' as [|f']; [lia|]. rewrite <- !app_assoc.
    assert (Hg : good (compose_node f base (mkc ((e1 :: ek') ++ ev_ ++ er ++ eend :: rest) st an)) (ev_ ++ er ++ eend :: rest)).
    { apply IHk; [simpl; rewrite E1, Hk1; reflexivity|simpl; lia]. }
    unfold mkc at 1. cbn [app map_items_ evs]. rewrite E1.
    replace ({| evs := e1 :: ek' ++ ev_ ++ er ++ eend :: rest; store := st; anchors := an |}) with (mkc ((e1 :: ek') ++ ev_ ++ er ++ eend :: rest) st an) by reflexivity.
    destruct e0; try discriminate;
      (apply good_step with (mid := ev_ ++ er ++ eend :: rest); [exact Hg|]; intros c st' an';
       apply good_step with (mid := er ++ eend :: rest); [apply IHv; [exact Hv1|lia]|]; intros c2 st'' an''; apply IHr; auto; lia).
Qed.

(* the composer, in EVERY state (any node store, any anchor table), given the events of one grammatical node followed by anything:
   it ends with a node id having consumed exactly those events, or with a ComposerError (undefined alias, duplicate anchor) -
   never a crash, never short of events, never out of fuel (any fuel above the number of events; docs_loop gives more) *)
Theorem composer_total : forall es rest base st an fuel, clang KNode (map e_kind es) -> length es < fuel ->
  good (compose_node fuel base (mkc (es ++ rest) st an)) rest.
Proof. intros es rest base st an fuel H Hf. apply (main KNode _ H); [reflexivity|rewrite map_length; exact Hf]. Qed.

(* the events of the parser model (ParseL) read as events of the composer's input type *)
Definition cv (e : ParseL.ev) : ev :=
  match e with
  | ParseL.VStreamStart => VStreamStart | ParseL.VStreamEnd => VStreamEnd
  | ParseL.VDocStart a b c => VDocStart a b c | ParseL.VDocEnd a => VDocEnd a
  | ParseL.VAlias a => VAlias a | ParseL.VScalar a b c d e f => VScalar a b c d e f
  | ParseL.VSeqStart a b c d => VSeqStart a b c d | ParseL.VSeqEnd => VSeqEnd
  | ParseL.VMapStart a b c d => VMapStart a b c d | ParseL.VMapEnd => VMapEnd
  end.
Definition cve (e : ParseL.event) : event := {| e_kind := cv (ParseL.e_kind e); e_start := ParseL.e_start e; e_end := ParseL.e_end e |}.
Definition ck (k : ParserGrammar.gk) : gk :=
  match k with ParserGrammar.KNode => KNode | ParserGrammar.KNodes => KNodes | ParserGrammar.KPairs => KPairs | ParserGrammar.KDocs => KDocs end.
Lemma lang_cv k a : ParserGrammar.lang k a -> clang (ck k) (map cv a).
Proof.
  induction 1; cbn [map cv ck]; rewrite ?map_app; cbn [map cv]; try (constructor; auto).
Qed.

(* parser and composer together, EVERY token list: when the parser's run ends normally its events are STREAM-START, documents,
   STREAM-END, and inside every document the composer started on the root node's events (in any state) cannot crash, run short
   of events or of fuel *)
Inductive docs_composable : list ev -> Prop :=
| dc_nil : docs_composable []
| dc_cons ex ver tags n x r :
    (forall es rest base st an fuel, map e_kind es = n -> length es < fuel -> good (compose_node fuel base (mkc (es ++ rest) st an)) rest) ->
    docs_composable r -> docs_composable (VDocStart ex ver tags :: n ++ VDocEnd x :: r).
Lemma docs_ok ds : clang KDocs ds -> docs_composable ds.
Proof.
  remember KDocs as k eqn:Ek. induction 1; try discriminate; constructor; auto.
  intros es rest base st an fuel Hm Hf. apply composer_total; [rewrite Hm; assumption|exact Hf].
Qed.
Theorem parsed_documents_compose : forall ts, snd (ParseL.parse_all ts) = Ok tt ->
  exists ds, map cv (map ParseL.e_kind (fst (ParseL.parse_all ts))) = VStreamStart :: ds ++ [VStreamEnd] /\ docs_composable ds.
Proof.
  intros ts H. destruct (ParserGrammar.parser_events_in_grammar ts H) as (ds & Hds & E).
  exists (map cv ds). split; [rewrite E; cbn [map cv]; rewrite map_app; reflexivity|].
  apply docs_ok. exact (lang_cv _ _ Hds).
Qed.
