(* C20: the scanner cost model (Model/CostScan.v = the scanner model with a counter on every reader primitive call) evaluated on the
   load-side catalogue at sizes n, 2n, 4n.  The property's own quantifier is this finite catalogue x three sizes. *)
From Coq Require Import List NArith ZArith Bool Arith.
Import ListNotations.
Require Import CostScan.
Open Scope N_scope.

Definition s_ (l : list N) := l.
Fixpoint rep (n : nat) (x : list N) : list N := match n with O => [] | S k => x ++ rep k x end.
Definition ticks (text : list N) : nat :=
  let '(_, (a, b, c, d)) := CostScan.scan_all text in a + b + c + d.

(* families: long plain scalar, many block entries, many mapping entries, flow sequence, long double-quoted, literal block, comments, blank run,
   nesting, many documents, many anchors, long key, long single-quoted, folded block, many aliases *)
Definition families (n : nat) : list (list N) :=
  [ s_ [97;58;32] ++ rep n [120];
    rep n [45;32;105;116;101;109;10];
    rep n [107;58;32;118;10];
    [91] ++ rep n [97;44;32] ++ [97;93];
    [34] ++ rep n [119;111;114;100;32] ++ [34];
    [124;10] ++ rep n [32;32;108;105;110;101;10];
    rep n [35;32;99;10] ++ [97];
    rep n [10] ++ [97];
    rep (Nat.min n 60) [91] ++ rep (Nat.min n 60) [93];
    rep n [45;45;45;32;97;10];
    rep n [45;32;38;97;32;120;10];
    [63;32] ++ rep n [107] ++ [10;58;32;118;10];
    [39] ++ rep n [119;111;114;100;32] ++ [39];
    [62;10] ++ rep n [32;32;108;105;110;101;32;109;111;114;101;10];
    [45;32;38;97;32;120;10] ++ rep n [45;32;42;97;10] ]%list.

(* doubling criterion with 15% tolerance and a constant allowance: t(2n) * 100 <= 230 * t(n) + 4000 *)
Definition doubling_ok (n : nat) : bool :=
  forallb (fun p => Nat.leb (ticks (snd p) * 100) (230 * ticks (fst p) + 4000)) (combine (families n) (families (2 * n))).
Lemma l_catalogue_doubling : doubling_ok 30 = true /\ doubling_ok 60 = true.
Proof. vm_compute. split; reflexivity. Qed.
