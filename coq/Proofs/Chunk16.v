(* C07: incremental UTF-16 (LE and BE) decoding is independent of how the bytes are split into reads - the UTF-16 twin of Chunk.v *)
From Coq Require Import List NArith Bool Arith Lia.
Import ListNotations.
Require Import Reader.

Section LE.
Variable le : bool.
Definition E16 : enc := if le then Utf16le else Utf16be.
Lemma unit_E16 bs : (match E16 with Utf8 => utf8_1 bs | Utf16le => utf16_1 true bs | Utf16be => utf16_1 false bs end) = utf16_1 le bs.
Proof. unfold E16. destruct le; reflexivity. Qed.
Lemma reason_E16 bs : (match E16 with Utf8 => utf8_final_reason bs | _ => utf16_final_reason bs end) = utf16_final_reason bs.
Proof. unfold E16. destruct le; reflexivity. Qed.

(* one-step stability: what the decoder decides on a prefix stays decided when more bytes follow *)
Lemma utf16_1_cases bs :
  match bs with
  | [] | [_] => utf16_1 le bs = DNeed
  | a :: b :: r =>
      let u := unit16 le a b in
      (utf16_1 le bs = DChar u 2) \/ (exists k, utf16_1 le bs = DBad k /\ (k = 4 \/ (k = 5 /\ 2 <= length r))) \/
      (utf16_1 le bs = DNeed /\ length r < 2) \/
      (exists c d r' ch, r = c :: d :: r' /\ utf16_1 le bs = DChar ch 4 /\ forall more, utf16_1 le (a :: b :: c :: d :: r' ++ more) = DChar ch 4)
  end.
Proof.
  destruct bs as [|a [|b r]]; try reflexivity. cbn [utf16_1]. cbv zeta.
  destruct ((unit16 le a b <? 55296)%N || (57344 <=? unit16 le a b)%N) eqn:E1; [left; reflexivity|right].
  destruct (56320 <=? unit16 le a b)%N eqn:E2; [left; exists 4; auto|].
  destruct r as [|c [|d r']]; [right; left; split; [reflexivity|simpl; lia]|right; left; split; [reflexivity|simpl; lia]|].
  destruct ((56320 <=? unit16 le c d)%N && (unit16 le c d <? 57344)%N) eqn:E3.
  - right. right. exists c, d, r', (65536 + (unit16 le a b - 55296) * 1024 + (unit16 le c d - 56320))%N. split; [reflexivity|split; [reflexivity|]].
    intros more. cbn [utf16_1]. cbv zeta. rewrite ?E1, ?E2, ?E3. reflexivity.
  - left. exists 5. split; [reflexivity|right; split; [reflexivity|simpl; lia]].
Qed.
Lemma utf16_1_char bs more c n : utf16_1 le bs = DChar c n -> utf16_1 le (bs ++ more) = DChar c n /\ n <= length bs /\ 1 <= n.
Proof.
  intros H. pose proof (utf16_1_cases bs) as C. destruct bs as [|a [|b r]]; try (rewrite C in H; discriminate).
  cbv zeta in C. destruct C as [C|[(k & C & _)|[(C & _)|(c' & d & r' & ch & -> & C & Cm)]]]; rewrite C in H; try discriminate.
  - injection H as <- <-. split; [|simpl; lia]. cbn [app utf16_1]. cbv zeta. cbn [utf16_1] in C. cbv zeta in C.
    destruct ((unit16 le a b <? 55296)%N || (57344 <=? unit16 le a b)%N); [reflexivity|].
    destruct (56320 <=? unit16 le a b)%N; [discriminate|]. destruct r as [|c1 [|d1 r1]]; try discriminate.
    destruct ((56320 <=? unit16 le c1 d1)%N && (unit16 le c1 d1 <? 57344)%N); discriminate.
  - injection H as <- <-. split; [apply (Cm more)|simpl; lia].
Qed.
Lemma utf16_1_bad bs more r : utf16_1 le bs = DBad r -> utf16_1 le (bs ++ more) = DBad r.
Proof.
  intros H. destruct bs as [|a [|b t]]; try discriminate. cbn [app utf16_1] in *. cbv zeta in *.
  destruct ((unit16 le a b <? 55296)%N || (57344 <=? unit16 le a b)%N); [discriminate|].
  destruct (56320 <=? unit16 le a b)%N; [exact H|]. destruct t as [|c1 [|d1 r1]]; try discriminate. cbn [app].
  exact H.
Qed.
Lemma utf16_1_need bs : utf16_1 le bs = DNeed -> length bs < 4.
Proof.
  intros H. destruct bs as [|a [|b t]]; try (simpl; lia). cbn [utf16_1] in H. cbv zeta in H.
  destruct ((unit16 le a b <? 55296)%N || (57344 <=? unit16 le a b)%N); [discriminate|].
  destruct (56320 <=? unit16 le a b)%N; [discriminate|]. destruct t as [|c1 [|d1 r1]]; try (simpl; lia).
  destruct ((56320 <=? unit16 le c1 d1)%N && (unit16 le c1 d1 <? 57344)%N); discriminate.
Qed.

(* ---------- whole-buffer decoding, fuel made irrelevant ---------- *)
Definition D (fin : bool) (bs : list N) (off : nat) (acc : str) : decres := decode (S (length bs)) E16 fin bs off acc.

Lemma decode_fuel2 : forall f1 f2 fin bs off acc, length bs < f1 -> length bs < f2 ->
  decode f1 E16 fin bs off acc = decode f2 E16 fin bs off acc.
Proof.
  induction f1 as [|f1 IH]; intros f2 fin bs off acc H1 H2; [lia|]. destruct f2 as [|f2]; [lia|].
  cbn [decode]. rewrite unit_E16, reason_E16. destruct (utf16_1 le bs) as [c n| |r] eqn:E; auto.
  destruct (utf16_1_char bs [] c n E) as (_ & Hn & Hn1).
  assert (length (skipn n bs) < length bs) by (rewrite skipn_length; lia).
  apply IH; lia.
Qed.
Lemma decode_fuel : forall f fin bs off acc, length bs < f -> decode f E16 fin bs off acc = D fin bs off acc.
Proof. intros. unfold D. apply decode_fuel2; lia. Qed.
Lemma D_step fin bs off acc :
  D fin bs off acc =
  match utf16_1 le bs with
  | DChar c n => D fin (skipn n bs) (off + n) (c :: acc)
  | DBad r => DecErr off (hd 0%N bs) r
  | DNeed => match bs with [] => DecOk (rev acc) off
                         | b :: _ => if fin then DecErr off b (utf16_final_reason bs) else DecOk (rev acc) off end
  end.
Proof.
  unfold D at 1. cbn [decode]. rewrite unit_E16, reason_E16. destruct (utf16_1 le bs) as [c n| |r] eqn:E; auto.
  destruct (utf16_1_char bs [] c n E) as (_ & Hn & Hn1).
  apply decode_fuel. rewrite skipn_length. lia.
Qed.

Definition shift (off : nat) (pre : str) (r : decres) : decres :=
  match r with DecOk d c => DecOk (pre ++ d) (off + c) | DecErr st b rs => DecErr (off + st) b rs end.

Lemma D_shift : forall n fin bs off acc, length bs <= n -> D fin bs off acc = shift off (rev acc) (D fin bs 0 []).
Proof.
  induction n as [|n IH]; intros fin bs off acc Hl; rewrite (D_step fin bs off acc), (D_step fin bs 0 []).
  - destruct bs; [|simpl in Hl; lia]. simpl. rewrite app_nil_r, Nat.add_0_r. reflexivity.
  - destruct (utf16_1 le bs) as [c k| |r] eqn:E.
    + destruct (utf16_1_char bs [] c k E) as (_ & Hk & Hk1).
      assert (Hs : length (skipn k bs) <= n) by (rewrite skipn_length; lia).
      rewrite (IH fin (skipn k bs) (off + k) (c :: acc) Hs), (IH fin (skipn k bs) (0 + k) [c] Hs).
      destruct (D fin (skipn k bs) 0 []); simpl; [rewrite <- app_assoc; simpl; f_equal; lia|f_equal; lia].
    + destruct bs as [|b bs']; simpl; [rewrite app_nil_r, Nat.add_0_r; reflexivity|].
      destruct fin; simpl; [rewrite Nat.add_0_r|rewrite app_nil_r, Nat.add_0_r]; reflexivity.
    + simpl. rewrite Nat.add_0_r. reflexivity.
Qed.

Lemma skipn_skipn' {A} : forall y x (l : list A), skipn x (skipn y l) = skipn (y + x) l.
Proof. induction y as [|y IH]; intros x l; simpl; auto. destruct l; simpl; [destruct x; reflexivity|apply IH]. Qed.
(* decoding a prefix non-finally, then continuing, is decoding the whole *)
Lemma D_app : forall n a, length a <= n -> forall fin b off acc d c,
  D false a off acc = DecOk d c ->
  off <= c /\ c - off <= length a /\ D fin (a ++ b) off acc = D fin (skipn (c - off) a ++ b) c (rev d).
Proof.
  induction n as [|n IH]; intros a Hl fin b off acc d c H; rewrite D_step in H.
  - destruct a; [|simpl in Hl; lia]. simpl in H. injection H as <- <-. rewrite Nat.sub_diag, rev_involutive. simpl. repeat split; lia || auto.
  - destruct (utf16_1 le a) as [ch k| |r] eqn:E.
    + destruct (utf16_1_char a b ch k E) as (Eb & Hk & Hk1).
      assert (Hs : length (skipn k a) <= n) by (rewrite skipn_length; lia).
      destruct (IH (skipn k a) Hs fin b (off + k) (ch :: acc) d c H) as (A1 & A2 & A3).
      rewrite skipn_length in A2. repeat split; try lia.
      rewrite (D_step fin (a ++ b)), Eb.
      rewrite skipn_app. replace (k - length a) with 0 by lia. simpl (skipn 0 b).
      rewrite A3. f_equal. f_equal. rewrite skipn_skipn'. f_equal. lia.
    + destruct a as [|x a']; simpl in H; injection H as <- <-; rewrite Nat.sub_diag, rev_involutive; simpl; repeat split; lia || auto.
    + discriminate.
Qed.
Lemma D_app_err : forall n a, length a <= n -> forall fin b off acc st x r,
  D false a off acc = DecErr st x r -> D fin (a ++ b) off acc = DecErr st x r.
Proof.
  induction n as [|n IH]; intros a Hl fin b off acc st x r H; rewrite D_step in H.
  - destruct a; [|simpl in Hl; lia]. simpl in H. discriminate.
  - destruct (utf16_1 le a) as [ch k| |rs] eqn:E.
    + destruct (utf16_1_char a b ch k E) as (Eb & Hk & Hk1).
      assert (Hs : length (skipn k a) <= n) by (rewrite skipn_length; lia).
      rewrite (D_step fin (a ++ b)), Eb. rewrite skipn_app. replace (k - length a) with 0 by lia. simpl (skipn 0 b).
      apply IH; auto.
    + destruct a as [|y a']; simpl in H; discriminate.
    + rewrite (D_step fin (a ++ b)), (utf16_1_bad a b rs E). injection H as <- <- <-.
      destruct a; [simpl in E; discriminate|reflexivity].
Qed.

(* ---------- feeding reads of arbitrary sizes, carrying the undecoded tail (reader.update / update_raw) ---------- *)
Inductive fres := FOk (chars : str) | FErr (position : nat) (byte : N) (reason : nat).
Fixpoint feed (carry : list N) (chunks : list (list N)) (acc : str) (base : nat) : fres :=
  match chunks with
  | [] => match D true carry 0 [] with DecOk d _ => FOk (acc ++ d) | DecErr st b r => FErr (base + st) b r end
  | ch :: rest =>
      match D false (carry ++ ch) 0 [] with
      | DecOk d c => feed (skipn c (carry ++ ch)) rest (acc ++ d) (base + c)
      | DecErr st b r => FErr (base + st) b r
      end
  end.

Theorem feed_whole : forall chunks carry acc base,
  feed carry chunks acc base =
  match D true (carry ++ concat chunks) 0 [] with DecOk d _ => FOk (acc ++ d) | DecErr st b r => FErr (base + st) b r end.
Proof.
  induction chunks as [|ch rest IH]; intros carry acc base; simpl.
  - rewrite app_nil_r. reflexivity.
  - rewrite app_assoc. set (X := carry ++ ch).
    destruct (D false X 0 []) as [d c|st b r] eqn:E.
    + destruct (D_app (length X) X (le_n _) true (concat rest) 0 [] d c E) as (_ & Hc & Happ).
      rewrite Nat.sub_0_r in Happ, Hc. rewrite Happ.
      rewrite (D_shift (length (skipn c X ++ concat rest)) true _ c (rev d) (le_n _)).
      rewrite rev_involutive. rewrite IH.
      destruct (D true (skipn c X ++ concat rest) 0 []); simpl; [rewrite app_assoc; reflexivity|f_equal; lia].
    + rewrite (D_app_err (length X) X (le_n _) true (concat rest) 0 [] st b r E). reflexivity.
Qed.

(* C07 core: any two ways of cutting the same bytes into reads decode identically (characters, or error offset/byte/reason) *)
Corollary utf16_chunking_independent chunks1 chunks2 :
  concat chunks1 = concat chunks2 -> feed [] chunks1 [] 0 = feed [] chunks2 [] 0.
Proof. intros H. rewrite !feed_whole. simpl. rewrite H. reflexivity. Qed.
End LE.

