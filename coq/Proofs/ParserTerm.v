(* C03: the parser model terminates - a potential that strictly decreases with every event delivered. *)
From Coq Require Import List NArith ZArith Bool Arith Lia.
Import ListNotations.
Require Import Scan ParseL PT ParserSafe.

Definition rank (p : pstate) : nat :=
  match p with
  | PImplicitDocStart => 4
  | PFlowSeqEntryMapValue => 2
  | PBlockMapValue | PFlowSeqEntryMapEnd | PFlowMapValue | PFlowMapEmptyValue | PBlockNode | PDocContent | PDocEnd => 1
  | _ => 0
  end.
Definition wgt (x : pstate) : nat := S (rank x).
Fixpoint W (l : list pstate) : nat := match l with [] => 0 | x :: r => wgt x + W r end.
(* 8 per token still to be consumed + the rank of the current state + what the pending continuations can still cost *)
Definition Phi (s : pst) : nat :=
  match pstate_ s with None => 0 | Some p => 8 * length (toks s) + rank p + W (pstates s) end.

Lemma W_app a b : W (a ++ b) = W a + W b.
Proof. induction a as [|x a IH]; simpl; auto. rewrite IH. lia. Qed.
Lemma W_rev l : W (rev l) = W l.
Proof. induction l as [|x l IH]; simpl; auto. rewrite W_app, IH. simpl. lia. Qed.
Lemma phi_mk tk p l mk h v : Phi (mkst tk (Some p) (rev l) mk h v) = 8 * length tk + rank p + W l.
Proof. unfold Phi. cbn [pstate_ toks pstates mkst]. rewrite W_rev. reflexivity. Qed.
Lemma rank_le p : rank p <= 4.
Proof. destruct p; simpl; lia. Qed.
Lemma wgt_le p : wgt p <= 5.
Proof. unfold wgt. pose proof (rank_le p). lia. Qed.
Lemma cont_rank X : cont_state X = true -> rank X <= 2.
Proof. destruct X; try discriminate; simpl; lia. Qed.

Definition postB (B : nat) (e : event) (s : pst) : Prop := Inv2 s /\ Phi s < B.
Lemma postB_mk B e tk p l ms h v : PInv tk p l ms -> 8 * length tk + rank p + W l < B -> postB B e (mkst tk (Some p) (rev l) (rev ms) h v).
Proof. intros H1 H2. split; [apply inv2_mk; exact H1|rewrite phi_mk; exact H2]. Qed.

Ltac wb := apply wp_bind.
Ltac chk := wb; eapply wp_check; [reflexivity|].
Ltac pk := wb; eapply wp_peek_tok; [reflexivity|].
Ltac gt := wb; eapply wp_get_tok; [reflexivity|].

Lemma pushed_rank X l0 : pushed X l0 -> rank X <= 2.
Proof. intros [(-> & _)|(H & _)]; [simpl; lia|apply cont_rank; auto]. Qed.

Lemma node_tail_B B block indentless r0 tk p X l0 ms h v :
  toks_ok tk -> pushed X l0 -> length ms = weight (X :: l0) -> 8 * length tk + W (X :: l0) < B ->
  wp (node_tail block indentless r0) (postB B) (mkst tk p (rev (X :: l0)) (rev ms) h v).
Proof.
  intros Ht Hp Hm HB. destruct (toks_ok_cons _ Ht) as (t & r & ->).
  destruct r0 as [[[[anchor tagtok] smark] emark] tmark]. unfold node_tail.
  assert (HBpop : 8 * length (t :: r) + rank X + W l0 < B) by (cbn [W] in HB; unfold wgt in HB; lia).
  assert (HBpop' : 8 * length r + rank X + W l0 < B) by (cbn [length] in HBpop; lia).
  assert (HBf : forall q, rank q = 0 -> 8 * length (t :: r) + rank q + W (X :: l0) < B) by (intros q ->; lia).
  wb. apply wp_get.
  wb. match goal with |- wp ?m _ _ => assert (Htag : forall Q : option str -> pst -> Prop,
        (forall o, Q o (mkst (t :: r) p (rev (X :: l0)) (rev ms) h v)) -> wp m Q (mkst (t :: r) p (rev (X :: l0)) (rev ms) h v)) end.
  { intros Q HQ. destruct tagtok as [tt_|]; [|apply wp_ret; auto].
    destruct (t_kind tt_); try (apply wp_ret; auto).
    destruct handle as [hd|]; [|apply wp_ret; auto].
    cbn [handles mkst]. destruct (assoc hd h); [apply wp_ret; auto|apply wp_err]. }
  apply Htag. intros tag. clear Htag.
  wb. match goal with |- wp ?m _ _ => assert (Hn : forall Q : option mark -> pst -> Prop,
        (forall o, Q o (mkst (t :: r) p (rev (X :: l0)) (rev ms) h v)) -> wp m Q (mkst (t :: r) p (rev (X :: l0)) (rev ms) h v)) end.
  { intros Q HQ. destruct smark; [apply wp_ret; auto|]. pk. apply wp_ret. auto. }
  apply Hn. intros nxt. clear Hn. cbv zeta.
  wb. match goal with |- wp ?m _ _ => assert (Hb : forall Q : bool -> pst -> Prop,
        (forall b, (b = true -> is_ TBlockEntry (t_kind t) = true) -> Q b (mkst (t :: r) p (rev (X :: l0)) (rev ms) h v)) -> wp m Q (mkst (t :: r) p (rev (X :: l0)) (rev ms) h v)) end.
  { intros Q HQ. destruct indentless; [eapply wp_check; [reflexivity|]; apply HQ; auto|apply wp_ret; apply HQ; discriminate]. }
  apply Hb. intros ble Hble. clear Hb.
  assert (Hlive : forall f : tok -> bool, f (t_kind t) = true -> f TStreamEnd = false -> head_live (t :: r)).
  { intros f H1 H2. exists t, r. split; auto. eapply not_se_of; eauto. }
  destruct ble.
  { pk. wb. apply wp_set_ps. apply wp_ret. apply postB_mk; [|apply HBf; reflexivity]. apply I_first; auto.
    - apply (Hlive (is_ TBlockEntry)); auto.
    - simpl; tauto. }
  chk. destruct (is_scalar (t_kind t)) eqn:Esc.
  { gt. wb. apply wp_pop_ps.
    assert (HI : postB B (mk VStreamEnd (t_start t) (t_start t)) (mkst r (Some X) (rev l0) (rev ms) h v)).
    { apply postB_mk; auto. apply I_pop; auto. eapply live_tail; eauto. eapply not_se_of; eauto. }
    destruct (t_kind t); try discriminate. cbv zeta.
    repeat match goal with |- context [if ?c then _ else _] => destruct c end; apply wp_ret; exact HI. }
  chk. destruct (is_ TFlowSeqStart (t_kind t)) eqn:Efs.
  { pk. wb. apply wp_set_ps. apply wp_ret. apply postB_mk; [|apply HBf; reflexivity]. apply I_first; auto.
    - apply (Hlive (is_ TFlowSeqStart)); auto.
    - simpl; tauto. }
  chk. destruct (is_ TFlowMapStart (t_kind t)) eqn:Efm.
  { pk. wb. apply wp_set_ps. apply wp_ret. apply postB_mk; [|apply HBf; reflexivity]. apply I_first; auto.
    - apply (Hlive (is_ TFlowMapStart)); auto.
    - simpl; tauto. }
  wb. match goal with |- wp ?m _ _ => assert (Hb : forall Q : bool -> pst -> Prop,
        (forall b, (b = true -> is_ TBlockSeqStart (t_kind t) = true) -> Q b (mkst (t :: r) p (rev (X :: l0)) (rev ms) h v)) -> wp m Q (mkst (t :: r) p (rev (X :: l0)) (rev ms) h v)) end.
  { intros Q HQ. destruct block; [eapply wp_check; [reflexivity|]; apply HQ; auto|apply wp_ret; apply HQ; discriminate]. }
  apply Hb. intros bs Hbs. clear Hb. destruct bs.
  { pk. wb. apply wp_set_ps. apply wp_ret. apply postB_mk; [|apply HBf; reflexivity]. apply I_first; auto.
    - apply (Hlive (is_ TBlockSeqStart)); auto.
    - simpl; tauto. }
  wb. match goal with |- wp ?m _ _ => assert (Hb : forall Q : bool -> pst -> Prop,
        (forall b, (b = true -> is_ TBlockMapStart (t_kind t) = true) -> Q b (mkst (t :: r) p (rev (X :: l0)) (rev ms) h v)) -> wp m Q (mkst (t :: r) p (rev (X :: l0)) (rev ms) h v)) end.
  { intros Q HQ. destruct block; [eapply wp_check; [reflexivity|]; apply HQ; auto|apply wp_ret; apply HQ; discriminate]. }
  apply Hb. intros bm Hbm. clear Hb. destruct bm.
  { pk. wb. apply wp_set_ps. apply wp_ret. apply postB_mk; [|apply HBf; reflexivity]. apply I_first; auto.
    - apply (Hlive (is_ TBlockMapStart)); auto.
    - simpl; tauto. }
  assert (Hpop : forall e0 : event, wp (pop_ps;;~ pret e0) (postB B) (mkst (t :: r) p (rev (X :: l0)) (rev ms) h v)).
  { intros e0. wb. apply wp_pop_ps. apply wp_ret. apply postB_mk; auto. apply I_pop; auto. }
  destruct anchor, tag; try apply Hpop.
  pk. apply wp_err.
Qed.

Lemma parse_node_B B block indentless tk p X l0 ms h v :
  toks_ok tk -> pushed X l0 -> length ms = weight (X :: l0) -> 8 * length tk + W (X :: l0) < B ->
  wp (parse_node block indentless) (postB B) (mkst tk p (rev (X :: l0)) (rev ms) h v).
Proof.
  intros Ht Hp Hm HB. destruct (toks_ok_cons _ Ht) as (t & r & ->). rewrite parse_node_eq.
  assert (HBpop' : 8 * length r + rank X + W l0 < B) by (cbn [W length] in HB; unfold wgt in HB; lia).
  chk. destruct (is_alias (t_kind t)) eqn:Eal.
  { gt. wb. apply wp_pop_ps. apply wp_ret. apply postB_mk; auto. apply I_pop; auto.
    eapply live_tail; eauto. eapply not_se_of; eauto. }
  chk. destruct (is_anchor (t_kind t)) eqn:Ean.
  - assert (Hr : toks_ok r) by (eapply live_tail; eauto; eapply not_se_of; eauto).
    destruct (toks_ok_cons _ Hr) as (t2 & r2 & ->).
    wb. gt. chk. destruct (is_tag (t_kind t2)) eqn:Etg.
    + gt. apply wp_ret. apply node_tail_B; auto; [eapply live_tail; eauto; eapply not_se_of; eauto|cbn [length] in *; lia].
    + apply wp_ret. apply node_tail_B; auto. cbn [length] in *; lia.
  - wb. chk. destruct (is_tag (t_kind t)) eqn:Etg.
    + assert (Hr : toks_ok r) by (eapply live_tail; eauto; eapply not_se_of; eauto).
      destruct (toks_ok_cons _ Hr) as (t2 & r2 & ->).
      gt. chk. destruct (is_anchor (t_kind t2)) eqn:Ean2.
      * gt. apply wp_ret. apply node_tail_B; auto; [eapply live_tail; eauto; eapply not_se_of; eauto|cbn [length] in *; lia].
      * apply wp_ret. apply node_tail_B; auto. cbn [length] in *; lia.
    + apply wp_ret. apply node_tail_B; auto.
Qed.

(* ---------- reusable endings, with the bound ---------- *)
Lemma push_parse_node_B B X block ind tk p l ms h v :
  toks_ok tk -> cont_state X = true -> inside l -> length ms = w_stack X + weight l -> 8 * length tk + W (X :: l) < B ->
  wp (push_ps X ;;~ parse_node block ind) (postB B) (mkst tk p (rev l) (rev ms) h v).
Proof.
  intros Ht HX Hin Hm HB. wb. apply wp_push_ps. change (rev l ++ [X]) with (rev (X :: l)).
  apply parse_node_B; auto. right; auto.
Qed.
Lemma set_ret_B B X tk p l ms h v (e : event) : PInv tk X l ms -> 8 * length tk + rank X + W l < B ->
  wp (set_ps (Some X) ;;~ pret e) (postB B) (mkst tk p (rev l) (rev ms) h v).
Proof. intros H HB. wb. apply wp_set_ps. apply wp_ret. apply postB_mk; auto. Qed.
Lemma close_coll_B B tk p l ms m h v t r (k : ev) : tk = t :: r -> toks_ok tk -> is_se t = false -> inside l -> length ms = weight l ->
  8 * length r + W l <= B ->
  wp (t <~ get_tok ;; pop_ps ;;~ pop_mark ;;~ pret (mk k (t_start t) (t_end t))) (postB B) (mkst tk p (rev l) (rev (m :: ms)) h v).
Proof.
  intros -> Ht Hs Hin Hm HB. destruct (inside_pop l Hin) as (X & l0 & -> & Hp).
  gt. wb. apply wp_pop_ps. wb. apply wp_pop_mark. apply wp_ret. apply postB_mk.
  - apply I_pop; auto. eapply live_tail; eauto.
  - cbn [W] in HB. unfold wgt in HB. lia.
Qed.
Lemma pop_ret_B B tk p l ms h v (e : event) : toks_ok tk -> inside l -> length ms = weight l -> 8 * length tk + W l <= B ->
  wp (pop_ps ;;~ pret e) (postB B) (mkst tk p (rev l) (rev ms) h v).
Proof.
  intros Ht Hin Hm HB. destruct (inside_pop l Hin) as (X & l0 & -> & Hp).
  wb. apply wp_pop_ps. apply wp_ret. apply postB_mk; [apply I_pop; auto|]. cbn [W] in HB. unfold wgt in HB. lia.
Qed.

(* ---------- block collections ---------- *)
Lemma bse_body_B B tk p l m ms h v : toks_ok tk -> inside l -> length ms = weight l -> 8 * length tk + W l <= B + 4 ->
  wp (be <~ check (is_ TBlockEntry);;
     (if be
      then
       t0 <~ get_tok;;
       b2 <~ check (any_of [TBlockEntry; TBlockEnd]);;
       (if negb b2
        then push_ps PBlockSeqEntry;;~ parse_node true false
        else set_ps (Some PBlockSeqEntry);;~ pret (empty_scalar (t_end t0)))
      else
       bend <~ check (is_ TBlockEnd);;
       (if negb bend
        then t0 <~ peek_tok;; m <~ top_mark;; perr (Some m) 8 (t_start t0)
        else
         t0 <~ get_tok;;
         pop_ps;;~ pop_mark;;~ pret (mk VSeqEnd (t_start t0) (t_end t0)))))
    (postB B) (mkst tk p (rev l) (rev (m :: ms)) h v).
Proof.
  intros Ht Hin Hm HB. destruct (toks_ok_cons _ Ht) as (t & r & ->). cbn [length] in HB.
  assert (Hw : length (m :: ms) = w_stack PBlockSeqEntry + weight l) by (simpl; lia).
  chk. destruct (is_ TBlockEntry (t_kind t)) eqn:E.
  - assert (Hr : toks_ok r) by (eapply live_tail; eauto; eapply not_se_of; eauto).
    destruct (toks_ok_cons _ Hr) as (t2 & r2 & ->).
    gt. chk. destruct (any_of [TBlockEntry; TBlockEnd] (t_kind t2)); cbn [negb].
    + apply set_ret_B; [apply I_cont; auto|cbn [rank]; lia].
    + apply push_parse_node_B; auto. cbn [W]; unfold wgt; cbn [rank]; lia.
  - chk. destruct (is_ TBlockEnd (t_kind t)) eqn:E2; cbn [negb].
    + eapply close_coll_B; eauto; [eapply not_se_of; eauto|lia].
    + pk. wb. apply wp_top_mark. apply wp_err.
Qed.

Lemma ind_body_B B tk p l ms h v : toks_ok tk -> inside l -> length ms = weight l -> 8 * length tk + W l <= B ->
  wp (be <~ check (is_ TBlockEntry);;
     (if be
      then
       t0 <~ get_tok;;
       b2 <~ check (any_of [TBlockEntry; TKey; TValue; TBlockEnd]);;
       (if negb b2
        then push_ps PIndentlessSeqEntry;;~ parse_node true false
        else set_ps (Some PIndentlessSeqEntry);;~ pret (empty_scalar (t_end t0)))
      else t0 <~ peek_tok;; pop_ps;;~ pret (mk VSeqEnd (t_start t0) (t_start t0))))
    (postB B) (mkst tk p (rev l) (rev ms) h v).
Proof.
  intros Ht Hin Hm HB. destruct (toks_ok_cons _ Ht) as (t & r & ->).
  chk. destruct (is_ TBlockEntry (t_kind t)) eqn:E.
  - assert (Hr : toks_ok r) by (eapply live_tail; eauto; eapply not_se_of; eauto).
    destruct (toks_ok_cons _ Hr) as (t2 & r2 & ->). cbn [length] in HB.
    gt. chk. destruct (any_of [TBlockEntry; TKey; TValue; TBlockEnd] (t_kind t2)); cbn [negb].
    + apply set_ret_B; [apply I_cont; auto|cbn [rank length]; lia].
    + apply push_parse_node_B; auto. cbn [W length]; unfold wgt; cbn [rank]; lia.
  - pk. apply pop_ret_B; auto.
Qed.

Lemma bmk_body_B B tk p l m ms h v : toks_ok tk -> inside l -> length ms = weight l -> 8 * length tk + W l <= B + 4 ->
  wp (k <~ check (is_ TKey);;
     (if k
      then
       t0 <~ get_tok;;
       b2 <~ check (any_of [TKey; TValue; TBlockEnd]);;
       (if negb b2
        then push_ps PBlockMapValue;;~ parse_node true true
        else set_ps (Some PBlockMapValue);;~ pret (empty_scalar (t_end t0)))
      else
       bend <~ check (is_ TBlockEnd);;
       (if negb bend
        then t0 <~ peek_tok;; m <~ top_mark;; perr (Some m) 9 (t_start t0)
        else
         t0 <~ get_tok;;
         pop_ps;;~ pop_mark;;~ pret (mk VMapEnd (t_start t0) (t_end t0)))))
    (postB B) (mkst tk p (rev l) (rev (m :: ms)) h v).
Proof.
  intros Ht Hin Hm HB. destruct (toks_ok_cons _ Ht) as (t & r & ->). cbn [length] in HB.
  assert (Hw : length (m :: ms) = w_stack PBlockMapValue + weight l) by (simpl; lia).
  chk. destruct (is_ TKey (t_kind t)) eqn:E.
  - assert (Hr : toks_ok r) by (eapply live_tail; eauto; eapply not_se_of; eauto).
    destruct (toks_ok_cons _ Hr) as (t2 & r2 & ->).
    gt. chk. destruct (any_of [TKey; TValue; TBlockEnd] (t_kind t2)); cbn [negb].
    + apply set_ret_B; [apply I_cont; auto|cbn [rank]; lia].
    + apply push_parse_node_B; auto. cbn [W]; unfold wgt; cbn [rank]; lia.
  - chk. destruct (is_ TBlockEnd (t_kind t)) eqn:E2; cbn [negb].
    + eapply close_coll_B; eauto; [eapply not_se_of; eauto|lia].
    + pk. wb. apply wp_top_mark. apply wp_err.
Qed.

(* ---------- value-like states ---------- *)
Lemma value_B B (f g : tok -> bool) X blk ind tk p l ms h v (F G : token -> event) :
  f TStreamEnd = false -> toks_ok tk -> inside l -> cont_state X = true -> length ms = w_stack X + weight l ->
  8 * length tk + rank X + W l < B ->
  wp (v0 <~ check f;;
     (if v0
      then
       t0 <~ get_tok;;
       b2 <~ check g;;
       (if negb b2 then push_ps X;;~ parse_node blk ind else set_ps (Some X);;~ pret (F t0))
      else set_ps (Some X);;~ t0 <~ peek_tok;; pret (G t0))) (postB B) (mkst tk p (rev l) (rev ms) h v).
Proof.
  intros Hf Ht Hin HX Hm HB. destruct (toks_ok_cons _ Ht) as (t & r & ->). cbn [length] in HB.
  chk. destruct (f (t_kind t)) eqn:E.
  - assert (Hr : toks_ok r) by (eapply live_tail; eauto; eapply not_se_of; eauto).
    destruct (toks_ok_cons _ Hr) as (t2 & r2 & ->).
    gt. chk. destruct (g (t_kind t2)); cbn [negb].
    + apply set_ret_B; [apply I_cont; auto|lia].
    + apply push_parse_node_B; auto. cbn [W]; unfold wgt; lia.
  - wb. apply wp_set_ps. pk. apply wp_ret. apply postB_mk; [apply I_cont; auto|cbn [length]; lia].
Qed.
Lemma set_peek_B B X tk p l ms h v (G : token -> event) :
  toks_ok tk -> inside l -> cont_state X = true -> length ms = w_stack X + weight l -> 8 * length tk + rank X + W l < B ->
  wp (set_ps (Some X);;~ t0 <~ peek_tok;; pret (G t0)) (postB B) (mkst tk p (rev l) (rev ms) h v).
Proof.
  intros Ht Hin HX Hm HB. destruct (toks_ok_cons _ Ht) as (t & r & ->).
  wb. apply wp_set_ps. pk. apply wp_ret. apply postB_mk; [apply I_cont; auto|auto].
Qed.

(* ---------- flow collections ---------- *)
Lemma fse_rest_B B tk p l m ms h v : toks_ok tk -> inside l -> length ms = weight l -> 8 * length tk + W l + 2 <= B ->
  wp (k <~ check (is_ TKey);;
       (if k
        then
         t0 <~ peek_tok;;
         set_ps (Some PFlowSeqEntryMapKey);;~
         pret (Some (mk (VMapStart None None true true) (t_start t0) (t_end t0)))
        else
         fe2 <~ check (is_ TFlowSeqEnd);;
         (if negb fe2
          then push_ps PFlowSeqEntry;;~ e <~ parse_node false false;; pret (Some e)
          else pret None)))
     (fun r0 s' => wp (seq_close r0) (postB B) s') (mkst tk p (rev l) (rev (m :: ms)) h v).
Proof.
  intros Ht Hin Hm HB. destruct (toks_ok_cons _ Ht) as (t & r & ->).
  chk. destruct (is_ TKey (t_kind t)) eqn:Ek.
  - pk. wb. apply wp_set_ps. apply wp_ret. cbn [seq_close]. apply wp_ret. apply postB_mk; [apply I_mapkey; auto|cbn [rank]; lia].
  - chk. destruct (is_ TFlowSeqEnd (t_kind t)) eqn:Ee; cbn [negb].
    + apply wp_ret. cbn [seq_close]. eapply close_coll_B; eauto; [eapply not_se_of; eauto|cbn [length] in HB; lia].
    + wb. apply wp_push_ps. change (rev l ++ [PFlowSeqEntry]) with (rev (PFlowSeqEntry :: l)). wb.
      eapply wp_mono; [apply (parse_node_B B); auto; [right; auto|simpl; lia|cbn [W]; unfold wgt; cbn [rank]; lia]|].
      intros e s' H. apply wp_ret. cbn [seq_close]. apply wp_ret. exact H.
Qed.

Lemma fse_body_B B (first : bool) tk p l m ms h v : toks_ok tk -> inside l -> length ms = weight l ->
  8 * length tk + W l + (if first then 2 else 0) <= B ->
  wp (fe <~ check (is_ TFlowSeqEnd);;
     r0 <~
     (if negb fe
      then
       (if negb first
        then
         c <~ check (is_ TFlowEntry);;
         (if c
          then get_tok;;~ pret tt
          else t0 <~ peek_tok;; m <~ top_mark;; perr (Some m) 10 (t_start t0))
        else pret tt);;~
       k <~ check (is_ TKey);;
       (if k
        then
         t0 <~ peek_tok;;
         set_ps (Some PFlowSeqEntryMapKey);;~
         pret (Some (mk (VMapStart None None true true) (t_start t0) (t_end t0)))
        else
         fe2 <~ check (is_ TFlowSeqEnd);;
         (if negb fe2
          then push_ps PFlowSeqEntry;;~ e <~ parse_node false false;; pret (Some e)
          else pret None))
      else pret None);;
     seq_close r0) (postB B) (mkst tk p (rev l) (rev (m :: ms)) h v).
Proof.
  intros Ht Hin Hm HB. destruct (toks_ok_cons _ Ht) as (t & r & ->).
  chk. destruct (is_ TFlowSeqEnd (t_kind t)) eqn:Ee; cbn [negb].
  - wb. apply wp_ret. cbn [seq_close]. eapply close_coll_B; eauto; [eapply not_se_of; eauto|cbn [length] in HB; destruct first; lia].
  - wb. wb. destruct first; cbn [negb].
    + apply wp_ret. apply fse_rest_B; auto.
    + chk. destruct (is_ TFlowEntry (t_kind t)) eqn:Ec.
      * gt. apply wp_ret. apply fse_rest_B; auto; [eapply live_tail; eauto; eapply not_se_of; eauto|cbn [length] in HB; lia].
      * pk. wb. apply wp_top_mark. apply wp_err.
Qed.

Lemma fmk_rest_B B tk p l m ms h v : toks_ok tk -> inside l -> length ms = weight l -> 8 * length tk + W l + 3 <= B ->
  wp (k <~ check (is_ TKey);;
       (if k
        then
         t0 <~ get_tok;;
         b2 <~ check (any_of [TValue; TFlowEntry; TFlowMapEnd]);;
         (if negb b2
          then push_ps PFlowMapValue;;~ e <~ parse_node false false;; pret (Some e)
          else set_ps (Some PFlowMapValue);;~ pret (Some (empty_scalar (t_end t0))))
        else
         fe2 <~ check (is_ TFlowMapEnd);;
         (if negb fe2
          then push_ps PFlowMapEmptyValue;;~ e <~ parse_node false false;; pret (Some e)
          else pret None)))
     (fun r0 s' => wp (map_close r0) (postB B) s') (mkst tk p (rev l) (rev (m :: ms)) h v).
Proof.
  intros Ht Hin Hm HB. destruct (toks_ok_cons _ Ht) as (t & r & ->). cbn [length] in HB.
  chk. destruct (is_ TKey (t_kind t)) eqn:Ek.
  - assert (Hr : toks_ok r) by (eapply live_tail; eauto; eapply not_se_of; eauto).
    destruct (toks_ok_cons _ Hr) as (t2 & r2 & ->).
    gt. chk. destruct (any_of [TValue; TFlowEntry; TFlowMapEnd] (t_kind t2)); cbn [negb].
    + wb. apply wp_set_ps. apply wp_ret. cbn [map_close]. apply wp_ret. apply postB_mk; [apply I_cont; auto; simpl; lia|cbn [rank]; lia].
    + wb. apply wp_push_ps. change (rev l ++ [PFlowMapValue]) with (rev (PFlowMapValue :: l)). wb.
      eapply wp_mono; [apply (parse_node_B B); auto; [right; auto|simpl; lia|cbn [W]; unfold wgt; cbn [rank]; lia]|].
      intros e s' H. apply wp_ret. cbn [map_close]. apply wp_ret. exact H.
  - chk. destruct (is_ TFlowMapEnd (t_kind t)) eqn:Ee; cbn [negb].
    + apply wp_ret. cbn [map_close]. eapply close_coll_B; eauto; [eapply not_se_of; eauto|lia].
    + wb. apply wp_push_ps. change (rev l ++ [PFlowMapEmptyValue]) with (rev (PFlowMapEmptyValue :: l)). wb.
      eapply wp_mono; [apply (parse_node_B B); auto; [right; auto|simpl; lia|cbn [W length]; unfold wgt; cbn [rank]; lia]|].
      intros e s' H. apply wp_ret. cbn [map_close]. apply wp_ret. exact H.
Qed.

Lemma fmk_body_B B (first : bool) tk p l m ms h v : toks_ok tk -> inside l -> length ms = weight l ->
  8 * length tk + W l + (if first then 3 else 0) <= B ->
  wp (fe <~ check (is_ TFlowMapEnd);;
     r0 <~
     (if negb fe
      then
       (if negb first
        then
         c <~ check (is_ TFlowEntry);;
         (if c
          then get_tok;;~ pret tt
          else t0 <~ peek_tok;; m <~ top_mark;; perr (Some m) 11 (t_start t0))
        else pret tt);;~
       k <~ check (is_ TKey);;
       (if k
        then
         t0 <~ get_tok;;
         b2 <~ check (any_of [TValue; TFlowEntry; TFlowMapEnd]);;
         (if negb b2
          then push_ps PFlowMapValue;;~ e <~ parse_node false false;; pret (Some e)
          else set_ps (Some PFlowMapValue);;~ pret (Some (empty_scalar (t_end t0))))
        else
         fe2 <~ check (is_ TFlowMapEnd);;
         (if negb fe2
          then push_ps PFlowMapEmptyValue;;~ e <~ parse_node false false;; pret (Some e)
          else pret None))
      else pret None);;
     map_close r0) (postB B) (mkst tk p (rev l) (rev (m :: ms)) h v).
Proof.
  intros Ht Hin Hm HB. destruct (toks_ok_cons _ Ht) as (t & r & ->).
  chk. destruct (is_ TFlowMapEnd (t_kind t)) eqn:Ee; cbn [negb].
  - wb. apply wp_ret. cbn [map_close]. eapply close_coll_B; eauto; [eapply not_se_of; eauto|cbn [length] in HB; destruct first; lia].
  - wb. wb. destruct first; cbn [negb].
    + apply wp_ret. apply fmk_rest_B; auto.
    + chk. destruct (is_ TFlowEntry (t_kind t)) eqn:Ec.
      * gt. apply wp_ret. apply fmk_rest_B; auto; [eapply live_tail; eauto; eapply not_se_of; eauto|cbn [length] in HB; lia].
      * pk. wb. apply wp_top_mark. apply wp_err.
Qed.

(* ---------- document start ---------- *)
Lemma skip_de_len fuel : forall tk p stk mk h v (Q : unit -> pst -> Prop), toks_ok tk -> length tk < fuel ->
  (forall tk', toks_ok tk' -> length tk' <= length tk -> Q tt (mkst tk' p stk mk h v)) -> wp (skip_de fuel) Q (mkst tk p stk mk h v).
Proof.
  induction fuel as [|f IH]; intros tk p stk mk h v Q Ht Hl HQ; [lia|].
  destruct (toks_ok_cons _ Ht) as (t & r & ->). cbn [skip_de].
  chk. destruct (is_ TDocEnd (t_kind t)) eqn:E.
  - gt. apply IH; auto.
    + eapply live_tail; eauto. eapply not_se_of; eauto.
    + simpl in Hl. lia.
    + intros tk' H1 H2. apply HQ; auto. simpl. lia.
  - apply wp_ret. auto.
Qed.
Lemma dl_len fuel : forall ver hs tk p stk mk h v (Q : option (N * N) * list (str * str) -> pst -> Prop), toks_ok tk -> length tk < fuel ->
  (forall x tk', toks_ok tk' -> length tk' <= length tk -> Q x (mkst tk' p stk mk h v)) -> wp (directives_loop fuel ver hs) Q (mkst tk p stk mk h v).
Proof.
  induction fuel as [|f IH]; intros ver hs tk p stk mk h v Q Ht Hl HQ; [lia|].
  destruct (toks_ok_cons _ Ht) as (t & r & ->). cbn [directives_loop].
  chk. destruct (is_directive (t_kind t)) eqn:E; [|apply wp_ret; auto].
  assert (Hr : toks_ok r) by (eapply live_tail; eauto; eapply not_se_of; eauto).
  assert (Hl' : length r < f) by (simpl in Hl; lia).
  assert (HQ' : forall x tk', toks_ok tk' -> length tk' <= length r -> Q x (mkst tk' p stk mk h v)) by (intros; apply HQ; auto; simpl; lia).
  gt. destruct (t_kind t); try (apply IH; auto).
  destruct val; try (apply IH; auto).
  - destruct ver; [apply wp_err|]. destruct (negb (major =? 1)%N); [apply wp_err|apply IH; auto].
  - destruct (assoc handle hs); [apply wp_err|apply IH; auto].
Qed.
Lemma pd_len tk p stk mk h v (Q : option (N * N) * list (str * str) -> pst -> Prop) : toks_ok tk ->
  (forall x tk' h' v', toks_ok tk' -> length tk' <= length tk -> Q x (mkst tk' p stk mk h' v')) -> wp process_directives Q (mkst tk p stk mk h v).
Proof.
  intros Ht HQ. unfold process_directives. wb. apply wp_get. wb. cbn [toks mkst]. apply dl_len; auto.
  intros [ver hs] tk' Ht' Hl'. wb. apply wp_set_handles. apply wp_ret. apply HQ; auto.
Qed.

Lemma pds_B B tk p h v : toks_ok tk -> 8 * length tk <= B + 4 -> wp parse_document_start (postB B) (mkst tk p (rev []) (rev []) h v).
Proof.
  intros Ht HB. unfold parse_document_start. wb. apply wp_get. wb. cbn [toks mkst].
  apply (skip_de_len (S (S (length tk)))); auto. intros tk' Ht' Hl'.
  assert (HB' : 8 * length tk' <= B + 4) by lia. clear Ht HB Hl' tk.
  destruct (toks_ok_cons _ Ht') as (t & r & ->). cbn [length] in HB'.
  chk. destruct (is_ TStreamEnd (t_kind t)) eqn:Ese; cbn [negb].
  - gt. wb. apply wp_get. cbn [pstates pmarks mkst rev]. wb. apply wp_set_ps. apply wp_ret. split; [unfold Inv2; cbn; constructor|unfold Phi; cbn; lia].
  - pk. wb. apply pd_len; auto. intros x tk'' h' v' Ht'' Hl''. destruct (toks_ok_cons _ Ht'') as (t2 & r2 & ->). cbn [length] in Hl''.
    chk. destruct (is_ TDocStart (t_kind t2)) eqn:Eds; cbn [negb].
    + gt. wb. apply wp_push_ps. wb. apply wp_set_ps. apply wp_ret. change (rev [] ++ [PDocEnd]) with (rev [PDocEnd]).
      apply postB_mk; [|cbn [W rank]; unfold wgt; cbn [rank]; lia].
      unfold PInv. cbn. split; [eapply live_tail; eauto; eapply not_se_of; eauto|].
      split; [exists []; auto|split; [reflexivity|split; intros; discriminate]].
    + pk. apply wp_err.
Qed.

(* ---------- every step decreases the potential ---------- *)
Lemma step_B tk p l ms h v : PInv tk p l ms ->
  wp step (fun _ s' => Inv2 s' /\ Phi s' < 8 * length tk + rank p + W l) (mkst tk (Some p) (rev l) (rev ms) h v).
Proof.
  intros HI. set (B := 8 * length tk + rank p + W l). unfold step. wb. apply wp_get. cbn [pstate_ mkst]. wb.
  eapply wp_mono with (Q := postB B); [|intros e s' H; apply wp_ret; exact H].
  pose proof HI as (Ht & Hsh & Hm & Hnt & Hss). destruct (toks_ok_cons _ Ht) as (t & r & ->).
  destruct p; cbn [rank] in B.
  - (* PStreamStart *)
    destruct (Hss eq_refl) as (t' & r' & E & Hk). injection E as <- <-.
    destruct (outside_nil _ _ _ _ HI eq_refl) as (-> & Hms). rewrite (Hms eq_refl).
    gt. rewrite Hk. apply (set_ret_B B PImplicitDocStart r (Some PStreamStart) [] [] h v).
    + apply I_out; [|simpl; tauto]. eapply live_tail; eauto. unfold is_se. rewrite Hk. reflexivity.
    + unfold B. cbn [rank W length]. lia.
  - (* PImplicitDocStart *)
    destruct (outside_nil _ _ _ _ HI eq_refl) as (-> & Hms). rewrite (Hms eq_refl).
    chk. destruct (is_directive (t_kind t) || any_of [TDocStart; TStreamEnd] (t_kind t)); cbn [negb]; [apply pds_B; auto; unfold B; cbn [W]; lia|].
    wb. apply wp_set_handles. pk. wb. apply wp_push_ps. wb. apply wp_set_ps. apply wp_ret.
    change (rev [] ++ [PDocEnd]) with (rev [PDocEnd]). apply postB_mk; [|unfold B; cbn [W rank]; unfold wgt; cbn [rank]; lia].
    unfold PInv. cbn. split; [auto|split; [exists []; auto|split; [reflexivity|split; intros; discriminate]]].
  - (* PDocStart *)
    destruct (outside_nil _ _ _ _ HI eq_refl) as (-> & Hms). rewrite (Hms eq_refl). apply pds_B; auto. unfold B. cbn [W]. lia.
  - (* PDocEnd *)
    destruct (outside_nil _ _ _ _ HI eq_refl) as (-> & Hms). rewrite (Hms eq_refl).
    pk. chk. destruct (is_ TDocEnd (t_kind t)) eqn:E.
    + wb. gt. apply wp_ret. apply (set_ret_B B PDocStart r _ [] [] h v); [|unfold B; cbn [rank W length]; lia].
      apply I_out; [|simpl; tauto]. eapply live_tail; eauto. eapply not_se_of; eauto.
    + wb. apply wp_ret. apply (set_ret_B B PDocStart (t :: r) _ [] [] h v); [|unfold B; cbn [rank W]; lia]. apply I_out; [auto|simpl; tauto].
  - (* PDocContent *)
    simpl in Hsh, Hm.
    chk. destruct (is_directive (t_kind t) || any_of [TDocStart; TDocEnd; TStreamEnd] (t_kind t)).
    + pk. apply pop_ret_B; auto. unfold B. lia.
    + destruct (inside_pop l Hsh) as (X & l0 & -> & Hp). apply parse_node_B; auto. unfold B. lia.
  - (* PBlockNode *)
    simpl in Hsh, Hm. destruct (inside_pop l Hsh) as (X & l0 & -> & Hp). apply parse_node_B; auto. unfold B. lia.
  - (* PBlockSeqFirst *)
    simpl in Hsh, Hm. destruct (Hnt eq_refl) as (t' & r' & E & Hse). injection E as <- <-.
    wb. gt. apply wp_push_mark. change (rev ms ++ [t_start t]) with (rev (t_start t :: ms)).
    apply bse_body_B; auto; [eapply live_tail; eauto|unfold B; cbn [length]; lia].
  - (* PBlockSeqEntry *)
    simpl in Hsh, Hm. destruct ms as [|m ms]; [discriminate|]. wb. apply wp_ret. apply bse_body_B; auto; try (simpl in Hm; lia); try (unfold B; lia).
  - (* PIndentlessSeqEntry *)
    simpl in Hsh, Hm. apply ind_body_B; auto. unfold B. lia.
  - (* PBlockMapFirstKey *)
    simpl in Hsh, Hm. destruct (Hnt eq_refl) as (t' & r' & E & Hse). injection E as <- <-.
    wb. gt. apply wp_push_mark. change (rev ms ++ [t_start t]) with (rev (t_start t :: ms)).
    apply bmk_body_B; auto; [eapply live_tail; eauto|unfold B; cbn [length]; lia].
  - (* PBlockMapKey *)
    simpl in Hsh, Hm. destruct ms as [|m ms]; [discriminate|]. wb. apply wp_ret. apply bmk_body_B; auto; try (simpl in Hm; lia); try (unfold B; lia).
  - (* PBlockMapValue *)
    simpl in Hsh, Hm. apply (value_B B (is_ TValue) (any_of [TKey; TValue; TBlockEnd]) PBlockMapKey true true); auto. unfold B. cbn [rank]. lia.
  - (* PFlowSeqFirst *)
    simpl in Hsh, Hm. destruct (Hnt eq_refl) as (t' & r' & E & Hse). injection E as <- <-.
    wb. gt. apply wp_push_mark. change (rev ms ++ [t_start t]) with (rev (t_start t :: ms)).
    apply (fse_body_B B true); auto; [eapply live_tail; eauto|unfold B; cbn [length]; lia].
  - (* PFlowSeqEntry *)
    simpl in Hsh, Hm. destruct ms as [|m ms]; [discriminate|]. wb. apply wp_ret. apply (fse_body_B B false); auto; try (simpl in Hm; lia); try (unfold B; lia).
  - (* PFlowSeqEntryMapKey *)
    simpl in Hsh, Hm. destruct (Hnt eq_refl) as (t' & r' & E & Hse). injection E as <- <-.
    assert (Hr : toks_ok r) by (eapply live_tail; eauto). destruct (toks_ok_cons _ Hr) as (t2 & r2 & ->).
    gt. chk. destruct (any_of [TValue; TFlowEntry; TFlowSeqEnd] (t_kind t2)); cbn [negb].
    + apply set_ret_B; [apply I_cont; auto|unfold B; cbn [rank length]; lia].
    + apply push_parse_node_B; auto. unfold B. cbn [W length]. unfold wgt. cbn [rank]. lia.
  - (* PFlowSeqEntryMapValue *)
    simpl in Hsh, Hm. apply (value_B B (is_ TValue) (any_of [TFlowEntry; TFlowSeqEnd]) PFlowSeqEntryMapEnd false false); auto. unfold B. cbn [rank]. lia.
  - (* PFlowSeqEntryMapEnd *)
    simpl in Hsh, Hm. apply set_peek_B; auto. unfold B. cbn [rank]. lia.
  - (* PFlowMapFirstKey *)
    simpl in Hsh, Hm. destruct (Hnt eq_refl) as (t' & r' & E & Hse). injection E as <- <-.
    wb. gt. apply wp_push_mark. change (rev ms ++ [t_start t]) with (rev (t_start t :: ms)).
    apply (fmk_body_B B true); auto; [eapply live_tail; eauto|unfold B; cbn [length]; lia].
  - (* PFlowMapKey *)
    simpl in Hsh, Hm. destruct ms as [|m ms]; [discriminate|]. wb. apply wp_ret. apply (fmk_body_B B false); auto; try (simpl in Hm; lia); try (unfold B; lia).
  - (* PFlowMapValue *)
    simpl in Hsh, Hm. apply (value_B B (is_ TValue) (any_of [TFlowEntry; TFlowMapEnd]) PFlowMapKey false false); auto. unfold B. cbn [rank]. lia.
  - (* PFlowMapEmptyValue *)
    simpl in Hsh, Hm. apply set_peek_B; auto. unfold B. cbn [rank]. lia.
Qed.

(* ---------- the whole run: total ---------- *)
Lemma step_dec s : Inv2 s -> wp step (fun _ s' => Inv2 s' /\ (pstate_ s <> None -> Phi s' < Phi s)) s.
Proof.
  destruct s as [tk ps stk mk h v]. unfold Inv2 at 1. cbn [pstate_ pstates pmarks toks]. destruct ps as [p|].
  - intros (l & ms & -> & -> & HI). eapply wp_mono; [apply (step_B tk p l ms h v HI)|].
    intros o s' [H1 H2]. split; auto. intros _.
    change (Build_pst tk (Some p) (rev l) (rev ms) h v) with (mkst tk (Some p) (rev l) (rev ms) h v). rewrite phi_mk. exact H2.
  - intros _. unfold wp, step, pbind, pget, pret. cbn. split; [exact Logic.I|intros H; contradiction].
Qed.

Definition total (r : res unit) : Prop := match r with Ok _ | ScanErr _ _ _ => True | Crash _ | OutOfFuel => False end.
Lemma parse_loop_total fuel : forall acc s, Inv2 s -> Phi s < fuel -> total (snd (parse_loop fuel acc s)).
Proof.
  induction fuel as [|f IH]; intros acc s Hs Hf; [lia|]. cbn [parse_loop].
  pose proof (step_dec s Hs) as H. unfold wp in H.
  destruct (step s) as [[[e|] s']| | |] eqn:E; cbn; auto.
  destruct H as [H1 H2]. apply IH; auto.
  assert (pstate_ s <> None).
  { intros C. unfold step, pbind, pget in E. rewrite C in E. cbn in E. discriminate. }
  specialize (H2 H). lia.
Qed.

Theorem parser_total : forall t r, t_kind t = TStreamStart -> toks_ok r -> total (snd (parse_all (t :: r))).
Proof.
  intros t r Hk Hr. unfold parse_all. apply parse_loop_total; [apply pinit_inv; auto|]. unfold Phi, pinit. cbn [pstate_ toks pstates rank W]. lia.
Qed.


Lemma parse_loop_len fuel : forall acc s, length (fst (parse_loop fuel acc s)) <= length acc + fuel.
Proof.
  induction fuel as [|f IH]; intros acc s; cbn [parse_loop]; [simpl; lia|].
  destruct (step s) as [[[e|] s']| | |]; cbn [fst]; try lia.
  specialize (IH (acc ++ [e]) s'). rewrite app_length in IH. simpl in IH. lia.
Qed.
(* the parser alone does a linear amount of work: the complete run (it is total) consists of at most 8n+16 steps / events *)
Theorem parser_work_linear : forall t r, t_kind t = TStreamStart -> toks_ok r ->
  total (snd (parse_all (t :: r))) /\ length (fst (parse_all (t :: r))) <= 8 * length (t :: r) + 16.
Proof.
  intros t r Hk Hr. split; [apply parser_total; auto|]. unfold parse_all. pose proof (parse_loop_len (8 * length (t :: r) + 16) [] (pinit (t :: r))) as H. simpl in *. lia.
Qed.
