(* C14: the dictionary construct_mapping builds from a pair list - for string keys every key ends up with the value of its LAST occurrence, at the
   position of its first; applied to the list flatten_mapping leaves (merged pairs, then own pairs): own keys override merged ones, a later merge
   source overrides an earlier one. *)
From Coq Require Import List NArith ZArith Bool Arith Lia.
Import ListNotations.
Require Import Scan Parse Construct ConstructLemmas.

Lemma str_eqb_eq a : forall b, str_eqb a b = true -> a = b.
Proof.
  induction a as [|x a IH]; intros [|y b] H; simpl in H; try discriminate; [reflexivity|].
  apply andb_prop in H as [H1 H2]. apply N.eqb_eq in H1. subst y. f_equal. apply IH, H2.
Qed.
Lemma key_eqb_str s x : key_eqb (PStr s) x = true -> x = PStr s.
Proof. destruct x; cbn; try discriminate. intros H. apply str_eqb_eq in H. subst. reflexivity. Qed.
Lemma key_eqb_str_refl s : key_eqb (PStr s) (PStr s) = true.
Proof. cbn. apply str_eqb_refl. Qed.

Definition build (ps : list (val * val)) (d : list (val * val)) : list (val * val) := fold_left (fun d kv => dict_set (fst kv) (snd kv) d) ps d.
Definition str_keys (ps : list (val * val)) : Prop := forall p, In p ps -> exists s, fst p = PStr s.
(* the value of the last pair of ps whose key is k *)
Fixpoint last_val (k : val) (ps : list (val * val)) : option val :=
  match ps with [] => None | (k1, v) :: r => match last_val k r with Some x => Some x | None => if key_eqb k k1 then Some v else None end end.

Lemma find_after_set s k1 v1 d : (exists s1, k1 = PStr s1) ->
  option_map snd (dict_find (PStr s) (dict_set k1 v1 d)) = if key_eqb (PStr s) k1 then Some v1 else option_map snd (dict_find (PStr s) d).
Proof.
  intros [s1 ->]. destruct (key_eqb (PStr s) (PStr s1)) eqn:E.
  - apply key_eqb_str in E. injection E as ->.
    destruct (dict_find (PStr s) d) as [[k0 v0]|] eqn:F.
    + rewrite (l_dict_set_last_value_wins _ v1 _ _ _ F). reflexivity.
    + assert (Hk : has_key (PStr s) d = false).
      { clear -F. induction d as [|[k2 v2] d IH]; [reflexivity|]. cbn [dict_find] in F. unfold has_key. cbn [existsb fst].
        destruct (key_eqb (PStr s) k2); [discriminate F|]. cbn [orb]. apply IH, F. }
      rewrite (dict_set_fresh _ _ _ Hk). clear Hk. induction d as [|[k2 v2] d IH].
      * cbn [app dict_find]. rewrite key_eqb_str_refl. reflexivity.
      * cbn [dict_find] in F. cbn [app dict_find]. destruct (key_eqb (PStr s) k2); [discriminate F|]. apply IH, F.
  - rewrite l_dict_set_other_untouched; [reflexivity| |exact E].
    intros x Hx. apply key_eqb_str in Hx. subst x. destruct (key_eqb (PStr s1) (PStr s)) eqn:E2; [|reflexivity].
    apply key_eqb_str in E2. injection E2 as ->. rewrite key_eqb_str_refl in E. discriminate.
Qed.

(* string keys: every key has, in the dictionary built, the value of its LAST occurrence in the pair list (or its old value if it does not occur) *)
Theorem last_occurrence_wins : forall ps d s, str_keys ps ->
  option_map snd (dict_find (PStr s) (build ps d)) = match last_val (PStr s) ps with Some v => Some v | None => option_map snd (dict_find (PStr s) d) end.
Proof.
  induction ps as [|[k1 v1] ps IH]; intros d s Hs; [reflexivity|].
  unfold build. cbn [fold_left fst snd]. fold (build ps (dict_set k1 v1 d)).
  rewrite IH by (intros p Hp; apply Hs; right; exact Hp). cbn [last_val].
  destruct (last_val (PStr s) ps); [reflexivity|]. rewrite find_after_set; [destruct (key_eqb (PStr s) k1); reflexivity|]. destruct (Hs (k1, v1) (or_introl eq_refl)) as [s1 E]. exists s1. exact E.
Qed.

Lemma last_val_app k a b : last_val k (a ++ b) = match last_val k b with Some v => Some v | None => last_val k a end.
Proof. induction a as [|[k1 v] a IH]; cbn; [destruct (last_val k b); reflexivity|]. rewrite IH. destruct (last_val k b); reflexivity. Qed.

(* applied to what flatten_mapping leaves - the merged pairs m followed by the own pairs o: an own key has its own (last) value whatever was merged;
   a key that is not an own key has the value of the LAST merged pair carrying it *)
Theorem own_pairs_override_merged : forall m o s, str_keys (m ++ o) ->
  option_map snd (dict_find (PStr s) (build (m ++ o) [])) = match last_val (PStr s) o with Some v => Some v | None => last_val (PStr s) m end.
Proof.
  intros m o s Hs. rewrite (last_occurrence_wins (m ++ o) [] s Hs), last_val_app. cbn [dict_find option_map].
  destruct (last_val (PStr s) o); [reflexivity|]. destruct (last_val (PStr s) m); reflexivity.
Qed.

(* {<<: {x: 1, y: 2}, x: 3}: flattened to [x:1; y:2; x:3]; the dictionary has x -> 3 (own), y -> 2 (merged), x first *)
Example merge_example :
  let x := PStr [120%N] in let y := PStr [121%N] in
  build ([(x, PInt 1); (y, PInt 2)] ++ [(x, PInt 3)]) [] = [(x, PInt 3); (y, PInt 2)] /\ str_keys ([(x, PInt 1); (y, PInt 2)] ++ [(x, PInt 3)]).
Proof.
  split; [vm_compute; reflexivity|]. intros p [<-|[<-|[<-|[]]]]; eexists; reflexivity.
Qed.

