(* C14: flatten_mapping with NESTED merges - a merged mapping may have merge keys of its own (to any depth), the value of a merge key may be a
   list of mappings, sources may be shared between mappings and within one list, `=` keys may occur anywhere. *)
From Coq Require Import List NArith ZArith Bool Arith Lia.
Import ListNotations.
Require Import Scan Parse Construct Flatten.

Lemma str_eqb_eq a : forall b, str_eqb a b = true -> a = b.
Proof.
  induction a as [|x a IH]; intros [|y b] H; simpl in H; try discriminate; [reflexivity|].
  apply andb_prop in H as [H1 H2]. apply N.eqb_eq in H1. subst y. f_equal. apply IH, H2.
Qed.

Section Rec.
Variable rk : nat -> nat.          (* any ranking of the node ids along which merge sources go strictly down: the merge graph is acyclic *)
Variable ns0 : nstore.             (* the node store before the call *)

(* the pairs of one mapping, read against ns0; src v lv = "source v contributes the pairs lv".  m = the merged pairs in the order of the
   merge keys (for a list value: the LAST mapping of the list first), o = the own pairs in their order *)
Inductive FlatItems (src : nat -> list (nat * nat) -> Prop) : list (nat * nat) -> list (nat * nat) -> list (nat * nat) -> Prop :=
| FI_nil : FlatItems src [] [] []
| FI_own k v r m o kn : nth_error ns0 k = Some kn -> str_eqb (n_tag kn) t_merge = false -> FlatItems src r m o -> FlatItems src ((k, v) :: r) m ((k, v) :: o)
| FI_merge k v r m o kn vn l lv : nth_error ns0 k = Some kn -> str_eqb (n_tag kn) t_merge = true ->
    nth_error ns0 v = Some vn -> n_kind vn = NMap l -> src v lv -> FlatItems src r m o -> FlatItems src ((k, v) :: r) (lv ++ m) o
| FI_mseq k v r m o kn vn subs lvs : nth_error ns0 k = Some kn -> str_eqb (n_tag kn) t_merge = true ->
    nth_error ns0 v = Some vn -> n_kind vn = NSeq subs -> Forall2 src subs lvs -> FlatItems src r m o -> FlatItems src ((k, v) :: r) (concat (rev lvs) ++ m) o.

(* Flat f id r: with fuel f, the fully flattened pair list of mapping node id is r *)
Fixpoint Flat (f : nat) (id : nat) (r : list (nat * nat)) : Prop :=
  match f with O => False | S f' =>
    exists n items m o, nth_error ns0 id = Some n /\ n_kind n = NMap items /\ length items < f' + f' /\ length (m ++ o) < f' + f' /\
      FlatItems (fun v lv => rk v < rk id /\ Flat f' v lv) items m o /\ r = m ++ o
  end.

(* ---- determinism: the flattened list does not depend on the fuel ---- *)
Lemma FlatItems_det (src src' : nat -> list (nat * nat) -> Prop) : (forall v lv lv', src v lv -> src' v lv' -> lv = lv') ->
  forall items m o, FlatItems src items m o -> forall m' o', FlatItems src' items m' o' -> m = m' /\ o = o'.
Proof.
  intros Hs items m o H. induction H as [|k v r m o kn Hk Ht H IH|k v r m o kn vn l lv Hk Ht Hv Hl Hsrc H IH|k v r m o kn vn subs lvs Hk Ht Hv Hl Hsrc H IH];
    intros m' o' H'; inversion H'; subst; try congruence.
  - auto.
  - destruct (IH _ _ ltac:(eassumption)) as [-> ->]. auto.
  - destruct (IH _ _ ltac:(eassumption)) as [-> ->]. split; [|reflexivity]. f_equal. eapply Hs; eauto.
  - destruct (IH _ _ ltac:(eassumption)) as [-> ->]. split; [|reflexivity]. f_equal. f_equal. f_equal.
    match goal with H2 : nth_error ns0 v = Some ?b |- _ => rewrite Hv in H2; injection H2 as <- end.
    match goal with H2 : n_kind vn = NSeq ?y |- _ => rewrite Hl in H2; injection H2 as <- end. clear H'.
    match goal with H2 : Forall2 src' _ ?l' |- _ => revert l' H2 end. clear -Hsrc Hs.
    induction Hsrc as [|x lx xs ls Hx Hxs IHx]; intros l' H2; inversion H2; subst; [reflexivity|]. f_equal; [eapply Hs; eauto|apply IHx; assumption].
Qed.
Lemma Flat_det : forall f id r, Flat f id r -> forall f' r', Flat f' id r' -> r = r'.
Proof.
  induction f as [|f IH]; intros id r H f' r' H'; [destruct H|]. destruct f' as [|f']; [destruct H'|].
  destruct H as (n & items & m & o & Hn & Hk & _ & _ & Hi & ->). destruct H' as (n' & items' & m' & o' & Hn' & Hk' & _ & _ & Hi' & ->).
  assert (n' = n) by congruence. subst n'. assert (items' = items) by congruence. subst items'.
  destruct (FlatItems_det _ _ (fun v lv lv' (A : rk v < rk id /\ Flat f v lv) (B : rk v < rk id /\ Flat f' v lv') => IH v lv (proj2 A) f' lv' (proj2 B)) _ _ _ Hi _ _ Hi') as [-> ->].
  reflexivity.
Qed.

(* ---- the keys of a flattened list are not merge keys ---- *)
Definition keysok (l : list (nat * nat)) : Prop := forall k v, In (k, v) l -> exists kn, nth_error ns0 k = Some kn /\ str_eqb (n_tag kn) t_merge = false.
Lemma keysok_app a b : keysok a -> keysok b -> keysok (a ++ b).
Proof. intros Ha Hb k v Hin. apply in_app_or in Hin as [Hin|Hin]; eauto. Qed.
Lemma keysok_concat_rev ls : Forall keysok ls -> keysok (concat (rev ls)).
Proof.
  intros H k v Hin. apply in_concat in Hin as (l & Hl & Hin). apply in_rev in Hl. rewrite Forall_forall in H. exact (H l Hl k v Hin).
Qed.
Lemma FlatItems_keys (src : nat -> list (nat * nat) -> Prop) : (forall v lv, src v lv -> keysok lv) ->
  forall items m o, FlatItems src items m o -> keysok m /\ keysok o.
Proof.
  intros Hs items m o H. induction H as [|k v r m o kn Hk Ht H [IH1 IH2]|k v r m o kn vn l lv Hk Ht Hv Hl Hsrc H [IH1 IH2]|k v r m o kn vn subs lvs Hk Ht Hv Hl Hsrc H [IH1 IH2]].
  - split; intros k v [].
  - split; [exact IH1|]. intros k' v' [E|Hin]; [injection E as <- <-; eauto|eauto].
  - split; [|exact IH2]. apply keysok_app; eauto.
  - split; [|exact IH2]. apply keysok_app; [|exact IH1]. apply keysok_concat_rev.
    clear -Hsrc Hs. induction Hsrc as [|x lx xs ls Hx _ IHx]; constructor; eauto.
Qed.
Lemma Flat_keys : forall f id r, Flat f id r -> keysok r.
Proof.
  induction f as [|f IH]; intros id r H; [destruct H|]. destruct H as (n & items & m & o & _ & _ & _ & _ & Hi & ->).
  destruct (FlatItems_keys _ (fun v lv (A : rk v < rk id /\ Flat f v lv) => IH v lv (proj2 A)) _ _ _ Hi). apply keysok_app; assumption.
Qed.
Lemma FlatItems_own (src : nat -> list (nat * nat) -> Prop) l : keysok l -> FlatItems src l [] l.
Proof.
  induction l as [|[k v] l IH]; intros H; [constructor|]. destruct (H k v (or_introl eq_refl)) as (kn & Hk & Ht).
  eapply FI_own; eauto. apply IH. intros k' v' Hin. apply (H k' v'). right. exact Hin.
Qed.
Lemma Flat_map f v lv : Flat f v lv -> exists n0 items, nth_error ns0 v = Some n0 /\ n_kind n0 = NMap items.
Proof. destruct f; [intros []|]. intros (n & items & m & o & Hn & Hk & _). eauto. Qed.

(* ---- the store during the run, related to ns0 ---- *)
Definition tagrel (t0 t : str) : Prop := t = t0 \/ (str_eqb t0 t_value = true /\ t = t_str).
Definition nrel (n0 n : node) : Prop :=
  tagrel (n_tag n0) (n_tag n) /\ match n_kind n0 with NMap _ => exists l, n_kind n = NMap l | k => n_kind n = k end.
Definition T (ns : nstore) : Prop :=
  forall j, match nth_error ns0 j, nth_error ns j with Some n0, Some n => nrel n0 n | None, None => True | _, _ => False end.
Definition okind (j : nat) (n0 n : node) : Prop := n_kind n = n_kind n0 \/ exists f r, Flat f j r /\ n_kind n = NMap r.
Definition G (ns : nstore) (bound : nat) : Prop :=
  forall j n0 n, rk j < bound -> nth_error ns0 j = Some n0 -> nth_error ns j = Some n -> okind j n0 n.
Definition same_kinds (P : nat -> Prop) (ns ns' : nstore) : Prop :=
  forall j, P j -> option_map n_kind (nth_error ns' j) = option_map n_kind (nth_error ns j).

Lemma T_get ns j n0 : T ns -> nth_error ns0 j = Some n0 -> exists n, nth_error ns j = Some n /\ nrel n0 n.
Proof. intros HT H. specialize (HT j). rewrite H in HT. destruct (nth_error ns j) as [n|]; [eauto|destruct HT]. Qed.
Lemma T_get' ns j n : T ns -> nth_error ns j = Some n -> exists n0, nth_error ns0 j = Some n0 /\ nrel n0 n.
Proof. intros HT H. specialize (HT j). rewrite H in HT. destruct (nth_error ns0 j) as [n0|]; [eauto|destruct HT]. Qed.
Lemma tagrel_merge t0 t : tagrel t0 t -> str_eqb t t_merge = str_eqb t0 t_merge.
Proof. intros [->|[H ->]]; [reflexivity|]. apply str_eqb_eq in H. subst t0. reflexivity. Qed.
Lemma T_set ns j n n' : T ns -> nth_error ns j = Some n -> (forall n0, nth_error ns0 j = Some n0 -> nrel n0 n') -> T (set_nth j n' ns).
Proof.
  intros HT Hn Hr i. destruct (Nat.eq_dec j i) as [<-|Hne].
  - rewrite (nth_set_nth_same _ _ _ _ Hn). destruct (T_get' _ _ _ HT Hn) as (n0 & H0 & _). rewrite H0. apply Hr, H0.
  - rewrite nth_set_nth_other by exact Hne. apply HT.
Qed.
Lemma T_items ns id n x l : T ns -> nth_error ns id = Some n -> n_kind n = NMap l -> T (set_nth id (with_items n x) ns).
Proof.
  intros HT Hn Hk. eapply T_set; eauto. intros n0 H0. destruct (T_get _ _ _ HT H0) as (n1 & H1 & Ht & Hkk). assert (n1 = n) by congruence. subst n1.
  split; [exact Ht|]. cbn [with_items n_kind]. destruct (n_kind n0); try congruence. eauto.
Qed.
Lemma T_retag ns k kn : T ns -> nth_error ns k = Some kn -> str_eqb (n_tag kn) t_value = true -> T (set_nth k (retag kn t_str) ns).
Proof.
  intros HT Hn Hv. eapply T_set; eauto. intros n0 H0. destruct (T_get _ _ _ HT H0) as (n1 & H1 & Ht & Hkk). assert (n1 = kn) by congruence. subst n1.
  split; [|exact Hkk]. cbn [retag n_tag]. right. split; [|reflexivity]. destruct Ht as [E|[E _]]; [rewrite <- E; exact Hv|exact E].
Qed.
Lemma same_kinds_refl (P : nat -> Prop) ns : same_kinds P ns ns.
Proof. intros j _. reflexivity. Qed.
Lemma same_kinds_trans (P : nat -> Prop) a b c : same_kinds P a b -> same_kinds P b c -> same_kinds P a c.
Proof. intros H1 H2 j Hj. rewrite (H2 j Hj). apply H1, Hj. Qed.
Lemma same_kinds_weaken (P Q : nat -> Prop) a b : (forall j, Q j -> P j) -> same_kinds P a b -> same_kinds Q a b.
Proof. intros H H1 j Hj. apply H1, H, Hj. Qed.
Lemma same_kinds_get (P : nat -> Prop) ns ns' j n : same_kinds P ns ns' -> P j -> nth_error ns j = Some n -> exists n', nth_error ns' j = Some n' /\ n_kind n' = n_kind n.
Proof. intros H Hj Hn. specialize (H j Hj). rewrite Hn in H. destruct (nth_error ns' j) as [n'|]; [|discriminate]. injection H as H. eauto. Qed.
Lemma same_kinds_set_other (P : nat -> Prop) ns id x : (forall j, P j -> j <> id) -> same_kinds P ns (set_nth id x ns).
Proof. intros H j Hj. rewrite nth_set_nth_other; [reflexivity|]. intros E. exact (H j Hj (eq_sym E)). Qed.
Lemma same_kinds_set_kind (P : nat -> Prop) ns k kn x : nth_error ns k = Some kn -> n_kind x = n_kind kn -> same_kinds P ns (set_nth k x ns).
Proof.
  intros Hk Hx j _. destruct (Nat.eq_dec k j) as [<-|Hne]; [|rewrite nth_set_nth_other by exact Hne; reflexivity].
  rewrite (nth_set_nth_same _ _ _ _ Hk), Hk. cbn. f_equal. exact Hx.
Qed.
Lemma G_kinds ns ns' b : G ns b -> same_kinds (fun j => rk j < b) ns ns' -> G ns' b.
Proof.
  intros HG Hs j n0 n' Hj H0 Hn'. specialize (Hs j Hj). rewrite Hn' in Hs. destruct (nth_error ns j) as [n|] eqn:Hn; [|discriminate]. injection Hs as Hs.
  destruct (HG j n0 n Hj H0 Hn) as [E|(f & r & HF & E)]; [left; congruence|right; exists f, r; split; [exact HF|congruence]].
Qed.
Lemma G_weaken ns b b' : b' <= b -> G ns b -> G ns b'.
Proof. intros Hb HG j n0 n Hj. apply HG. lia. Qed.

(* what a call on a source must do (this is the statement proved for flatten itself, by induction on the fuel) *)
Definition spec (fl : nat -> K unit) (v : nat) (lv : list (nat * nat)) : Prop :=
  forall s, T (nodes s) -> G (nodes s) (rk v) -> (forall n0 n, nth_error ns0 v = Some n0 -> nth_error (nodes s) v = Some n -> okind v n0 n) ->
  exists s', fl v s = LOk (tt, s') /\ T (nodes s') /\ G (nodes s') (rk v) /\ (exists n', nth_error (nodes s') v = Some n' /\ n_kind n' = NMap lv) /\
             same_kinds (fun j => rk v <= rk j /\ j <> v) (nodes s) (nodes s').

Section OneLevel.
Variables (fl : nat -> K unit) (f' : nat) (id : nat).
Hypothesis Hspec : forall v lv, Flat f' v lv -> spec fl v lv.
Let src := fun v lv => rk v < rk id /\ Flat f' v lv.

(* a call on a source of lower rank, seen from the mapping being flattened *)
Lemma sub_step v lv s : src v lv -> T (nodes s) -> G (nodes s) (rk id) ->
  exists s', fl v s = LOk (tt, s') /\ T (nodes s') /\ G (nodes s') (rk id) /\ (exists n', nth_error (nodes s') v = Some n' /\ n_kind n' = NMap lv) /\
             same_kinds (fun j => rk id <= rk j) (nodes s) (nodes s').
Proof.
  intros [Hr HF] HT HG. assert (Hle : rk v <= rk id) by lia.
  destruct (Hspec v lv HF s HT (G_weaken _ _ _ Hle HG)) as (s' & E & HT' & HG' & Hv' & Hk').
  { intros n0 n H0 Hn. exact (HG v n0 n Hr H0 Hn). }
  exists s'. split; [exact E|]. split; [exact HT'|]. split; [|split; [exact Hv'|]].
  - intros j n0 n' Hj H0 Hn'. destruct (Nat.lt_ge_cases (rk j) (rk v)) as [Hlt|Hge]; [exact (HG' j n0 n' Hlt H0 Hn')|].
    destruct (Nat.eq_dec j v) as [->|Hne].
    + destruct Hv' as (n1 & H1 & Hk1). assert (n1 = n') by congruence. subst n1. right. exists f', lv. auto.
    + specialize (Hk' j (conj Hge Hne)). rewrite Hn' in Hk'. destruct (nth_error (nodes s) j) as [n|] eqn:Hn; [|discriminate]. injection Hk' as Hk'.
      destruct (HG j n0 n Hj H0 Hn) as [E1|(f1 & r1 & HF1 & E1)]; [left; congruence|right; exists f1, r1; split; [exact HF1|congruence]].
  - eapply same_kinds_weaken; [|exact Hk']. intros j Hj. split; [lia|]. intros ->. lia.
Qed.

(* the list value of a merge key *)
Lemma feach_rec : forall subs lvs, Forall2 src subs lvs -> forall acc s, T (nodes s) -> G (nodes s) (rk id) ->
  exists s', feach fl subs acc s = LOk (acc ++ lvs, s') /\ T (nodes s') /\ G (nodes s') (rk id) /\ same_kinds (fun j => rk id <= rk j) (nodes s) (nodes s').
Proof.
  induction 1 as [|x lx xs ls Hx Hxs IH]; intros acc s HT HG.
  - exists s. cbn [feach]. unfold kret. rewrite app_nil_r. auto using same_kinds_refl.
  - cbn [feach]. destruct (Flat_map _ _ _ (proj2 Hx)) as (n0 & items & H0 & Hk0). destruct (T_get _ _ _ HT H0) as (xn & Hxn & _ & Hkx). rewrite Hk0 in Hkx. destruct Hkx as (l & Hkx).
    unfold kbind at 1. rewrite (get_node_eq _ _ _ Hxn). rewrite Hkx.
    destruct (sub_step x lx s Hx HT HG) as (s1 & E1 & HT1 & HG1 & (xn1 & Hxn1 & Hk1) & Hs1).
    unfold kbind at 1. rewrite E1. unfold kbind at 1. rewrite (get_node_eq _ _ _ Hxn1).
    assert (Hm : map_items xn1 = lx) by (unfold map_items; rewrite Hk1; reflexivity). rewrite Hm.
    destruct (IH (acc ++ [lx]) s1 HT1 HG1) as (s' & E & HT' & HG' & Hs'). exists s'. rewrite E, <- app_assoc. cbn [app].
    split; [reflexivity|]. split; [exact HT'|]. split; [exact HG'|]. eapply same_kinds_trans; eauto.
Qed.

Lemma G_set_id ns x : G ns (rk id) -> G (set_nth id x ns) (rk id).
Proof. intros HG j n0 n Hj H0 Hn. assert (j <> id) by (intros ->; lia). rewrite nth_set_nth_other in Hn by congruence. exact (HG j n0 n Hj H0 Hn). Qed.

Lemma floop_rec : forall rest m o, FlatItems src rest m o ->
  forall fuel done merge s n, T (nodes s) -> G (nodes s) (rk id) -> nth_error (nodes s) id = Some n -> n_kind n = NMap (done ++ rest) -> length rest < fuel ->
  exists s', floop fl id fuel (length done) merge s = LOk (tt, s') /\ T (nodes s') /\ G (nodes s') (rk id) /\
    (exists n', nth_error (nodes s') id = Some n' /\ n_kind n' = NMap ((merge ++ m) ++ done ++ o)) /\
    same_kinds (fun j => rk id <= rk j /\ j <> id) (nodes s) (nodes s').
Proof.
  induction 1 as [|k v r m o kn0 Hk Ht H IH|k v r m o kn0 vn0 l lv Hk Ht Hv Hl Hsrc H IH|k v r m o kn0 vn0 subs lvs Hk Ht Hv Hl Hsrc H IH];
    intros fuel done merge s n HT HG Hn Hkind Hf; (destruct fuel as [|f1]; [cbn in Hf; lia|]).
  - (* end of the pairs *)
    cbn [floop]. unfold kbind at 1. rewrite (get_node_eq _ _ _ Hn). cbv zeta.
    assert (Hm : map_items n = done ++ []) by (unfold map_items; rewrite Hkind; reflexivity).
    rewrite Hm. rewrite (proj2 (nth_error_None (done ++ []) (length done))) by (rewrite app_length; cbn; lia).
    rewrite !app_nil_r in *. destruct merge as [|p0 mr].
    + exists s. split; [reflexivity|]. split; [exact HT|]. split; [exact HG|]. split; [exists n; split; [exact Hn|exact Hkind]|apply same_kinds_refl].
    + rewrite update_node_eq. eexists. split; [reflexivity|]. unfold upd. cbn [nodes].
      split; [eapply T_items; eauto|]. split; [apply G_set_id, HG|]. split.
      * eexists. split; [eapply nth_set_nth_same; eauto|reflexivity].
      * apply same_kinds_set_other. intros j [_ Hj]. exact Hj.
  - (* an own pair (a `=` key is retagged) *)
    assert (Hm : map_items n = done ++ (k, v) :: r) by (unfold map_items; rewrite Hkind; reflexivity).
    assert (Hi : nth_error (map_items n) (length done) = Some (k, v)) by (rewrite Hm, nth_error_app2, Nat.sub_diag; [reflexivity|lia]).
    destruct (T_get _ _ _ HT Hk) as (kn & Hkn & Htr & _). assert (Htm : str_eqb (n_tag kn) t_merge = false) by (rewrite (tagrel_merge _ _ Htr); exact Ht).
    cbn [floop]. unfold kbind at 1. rewrite (get_node_eq _ _ _ Hn). cbv zeta. rewrite Hi.
    unfold kbind at 1. rewrite (get_node_eq _ _ _ Hkn). rewrite Htm.
    assert (Hfin : forall s1 n1, T (nodes s1) -> G (nodes s1) (rk id) -> nth_error (nodes s1) id = Some n1 -> n_kind n1 = n_kind n ->
              same_kinds (fun j => rk id <= rk j /\ j <> id) (nodes s) (nodes s1) ->
              exists s', floop fl id f1 (S (length done)) merge s1 = LOk (tt, s') /\ T (nodes s') /\ G (nodes s') (rk id) /\
                (exists n', nth_error (nodes s') id = Some n' /\ n_kind n' = NMap ((merge ++ m) ++ done ++ (k, v) :: o)) /\
                same_kinds (fun j => rk id <= rk j /\ j <> id) (nodes s) (nodes s')).
    { intros s1 n1 HT1 HG1 Hn1 Hk1 Hs1.
      destruct (IH f1 (done ++ [(k, v)]) merge s1 n1 HT1 HG1 Hn1) as (s' & E & HT' & HG' & Hn' & Hs'); [rewrite Hk1, Hkind, <- app_assoc; reflexivity|cbn in Hf; lia|].
      exists s'. rewrite app_length in E. cbn [length] in E. rewrite Nat.add_1_r in E. split; [exact E|]. split; [exact HT'|]. split; [exact HG'|].
      split; [|eapply same_kinds_trans; eauto]. destruct Hn' as (n' & Hn' & Hk'). exists n'. split; [exact Hn'|]. rewrite Hk', <- !app_assoc. reflexivity. }
    destruct (str_eqb (n_tag kn) t_value) eqn:Htv.
    + unfold kbind at 1. rewrite update_node_eq.
      assert (Hsk : same_kinds (fun _ => True) (nodes s) (nodes (upd s k (retag kn t_str)))) by (unfold upd; cbn [nodes]; eapply same_kinds_set_kind; eauto).
      destruct (same_kinds_get _ _ _ id n Hsk I Hn) as (n1 & Hn1 & Hk1).
      apply (Hfin _ n1); [unfold upd; cbn [nodes]; apply T_retag; auto| |exact Hn1|exact Hk1|].
      * eapply G_kinds; [exact HG|]. eapply same_kinds_weaken; [|exact Hsk]. intros; exact I.
      * eapply same_kinds_weaken; [|exact Hsk]. intros; exact I.
    + apply (Hfin s n); auto. apply same_kinds_refl.
  - (* a merge key whose value is a mapping *)
    assert (Hm : map_items n = done ++ (k, v) :: r) by (unfold map_items; rewrite Hkind; reflexivity).
    assert (Hi : nth_error (map_items n) (length done) = Some (k, v)) by (rewrite Hm, nth_error_app2, Nat.sub_diag; [reflexivity|lia]).
    destruct (T_get _ _ _ HT Hk) as (kn & Hkn & Htr & _). assert (Htm : str_eqb (n_tag kn) t_merge = true) by (rewrite (tagrel_merge _ _ Htr); exact Ht).
    cbn [floop]. unfold kbind at 1. rewrite (get_node_eq _ _ _ Hn). cbv zeta. rewrite Hi.
    unfold kbind at 1. rewrite (get_node_eq _ _ _ Hkn). rewrite Htm.
    unfold kbind at 1. rewrite update_node_eq. rewrite Hm, firstn_app_exact, skipn_app_exact.
    set (n1 := with_items n (done ++ r)). set (s1 := upd s id n1).
    assert (HT1 : T (nodes s1)) by (unfold s1, upd; cbn [nodes]; eapply T_items; eauto).
    assert (HG1 : G (nodes s1) (rk id)) by (unfold s1, upd; cbn [nodes]; apply G_set_id, HG).
    assert (Hn1 : nth_error (nodes s1) id = Some n1) by (unfold s1, upd; cbn [nodes]; eapply nth_set_nth_same; eauto).
    assert (Hs1 : same_kinds (fun j => rk id <= rk j /\ j <> id) (nodes s) (nodes s1)) by (unfold s1, upd; cbn [nodes]; apply same_kinds_set_other; intros j [_ Hj]; exact Hj).
    destruct (T_get _ _ _ HT1 Hv) as (vn & Hvn & _ & Hkv). rewrite Hl in Hkv. destruct Hkv as (l' & Hkv).
    unfold kbind at 1. rewrite (get_node_eq _ _ _ Hvn). rewrite Hkv.
    destruct (sub_step v lv s1 Hsrc HT1 HG1) as (s2 & E2 & HT2 & HG2 & (vn2 & Hvn2 & Hk2) & Hs2).
    unfold kbind at 1. rewrite E2. unfold kbind at 1. rewrite (get_node_eq _ _ _ Hvn2).
    assert (Hmv : map_items vn2 = lv) by (unfold map_items; rewrite Hk2; reflexivity). rewrite Hmv.
    destruct (same_kinds_get _ _ _ id n1 Hs2 (le_n _) Hn1) as (n2 & Hn2 & Hkn2).
    destruct (IH f1 done (merge ++ lv) s2 n2 HT2 HG2 Hn2) as (s' & E & HT' & HG' & Hn' & Hs'); [rewrite Hkn2; reflexivity|cbn in Hf; lia|].
    exists s'. split; [exact E|]. split; [exact HT'|]. split; [exact HG'|]. split.
    + destruct Hn' as (n' & Hn' & Hk'). exists n'. split; [exact Hn'|]. rewrite Hk', <- !app_assoc. reflexivity.
    + eapply same_kinds_trans; [|exact Hs']. eapply same_kinds_trans; [exact Hs1|]. eapply same_kinds_weaken; [|exact Hs2]. intros j [Hj _]. exact Hj.
  - (* a merge key whose value is a list of mappings *)
    assert (Hm : map_items n = done ++ (k, v) :: r) by (unfold map_items; rewrite Hkind; reflexivity).
    assert (Hi : nth_error (map_items n) (length done) = Some (k, v)) by (rewrite Hm, nth_error_app2, Nat.sub_diag; [reflexivity|lia]).
    destruct (T_get _ _ _ HT Hk) as (kn & Hkn & Htr & _). assert (Htm : str_eqb (n_tag kn) t_merge = true) by (rewrite (tagrel_merge _ _ Htr); exact Ht).
    cbn [floop]. unfold kbind at 1. rewrite (get_node_eq _ _ _ Hn). cbv zeta. rewrite Hi.
    unfold kbind at 1. rewrite (get_node_eq _ _ _ Hkn). rewrite Htm.
    unfold kbind at 1. rewrite update_node_eq. rewrite Hm, firstn_app_exact, skipn_app_exact.
    set (n1 := with_items n (done ++ r)). set (s1 := upd s id n1).
    assert (HT1 : T (nodes s1)) by (unfold s1, upd; cbn [nodes]; eapply T_items; eauto).
    assert (HG1 : G (nodes s1) (rk id)) by (unfold s1, upd; cbn [nodes]; apply G_set_id, HG).
    assert (Hn1 : nth_error (nodes s1) id = Some n1) by (unfold s1, upd; cbn [nodes]; eapply nth_set_nth_same; eauto).
    assert (Hs1 : same_kinds (fun j => rk id <= rk j /\ j <> id) (nodes s) (nodes s1)) by (unfold s1, upd; cbn [nodes]; apply same_kinds_set_other; intros j [_ Hj]; exact Hj).
    destruct (T_get _ _ _ HT1 Hv) as (vn & Hvn & _ & Hkv). rewrite Hl in Hkv.
    unfold kbind at 1. rewrite (get_node_eq _ _ _ Hvn). rewrite Hkv.
    destruct (feach_rec subs lvs Hsrc [] s1 HT1 HG1) as (s2 & E2 & HT2 & HG2 & Hs2).
    unfold kbind at 1. rewrite E2. cbn [app].
    destruct (same_kinds_get _ _ _ id n1 Hs2 (le_n _) Hn1) as (n2 & Hn2 & Hkn2).
    destruct (IH f1 done (merge ++ concat (rev lvs)) s2 n2 HT2 HG2 Hn2) as (s' & E & HT' & HG' & Hn' & Hs'); [rewrite Hkn2; reflexivity|cbn in Hf; lia|].
    exists s'. split; [exact E|]. split; [exact HT'|]. split; [exact HG'|]. split.
    + destruct Hn' as (n' & Hn' & Hk'). exists n'. split; [exact Hn'|]. rewrite Hk', <- !app_assoc. reflexivity.
    + eapply same_kinds_trans; [|exact Hs']. eapply same_kinds_trans; [exact Hs1|]. eapply same_kinds_weaken; [|exact Hs2]. intros j [Hj _]. exact Hj.
Qed.
End OneLevel.

Theorem flatten_spec : forall f v lv, Flat f v lv -> spec (flatten f) v lv.
Proof.
  induction f as [|f' IH]; intros v lv HF; [destruct HF|]. pose proof HF as HF0.
  destruct HF as (n0 & items & m & o & H0 & Hk0 & Hlen & Hlen' & Hi & ->).
  intros s HT HG Hv. destruct (T_get _ _ _ HT H0) as (n & Hn & _ & Hkn). rewrite Hk0 in Hkn. destruct Hkn as (cur & Hcur).
  rewrite flatten_eq.
  assert (Hrun : exists m1 o1, FlatItems (fun v0 lv0 => rk v0 < rk v /\ Flat f' v0 lv0) cur m1 o1 /\ m1 ++ o1 = m ++ o /\ length cur < f' + f').
  { destruct (Hv n0 n H0 Hn) as [E|(f1 & r1 & HF1 & E)].
    - exists m, o. rewrite Hcur, Hk0 in E. injection E as ->. auto.
    - rewrite Hcur in E. injection E as ->. assert (r1 = m ++ o) by (eapply Flat_det; eauto). subst r1.
      exists [], (m ++ o). split; [apply FlatItems_own; eapply Flat_keys; eauto|]. auto. }
  destruct Hrun as (m1 & o1 & Hi1 & Hmo & Hlc).
  destruct (floop_rec (flatten f') f' v IH cur m1 o1 Hi1 (f' + f') [] [] s n HT HG Hn Hcur Hlc) as (s' & E & HT' & HG' & (n' & Hn' & Hk') & Hs').
  exists s'. split; [exact E|]. split; [exact HT'|]. split; [exact HG'|]. split; [|exact Hs'].
  exists n'. split; [exact Hn'|]. rewrite Hk'. cbn [app]. rewrite Hmo. reflexivity.
Qed.
End Rec.

(* NESTED merges.  rk is any ranking of the node ids along which every merge source has a smaller rank than the mapping that merges it (the merge
   graph has no cycle); Flat rk (nodes s) f id r describes the fully flattened pair list r of mapping id by the YAML 1.1 rules read off the node
   store BEFORE the call: merged pairs in the order of the merge keys (for a list value the last mapping of the list first), each source flattened
   the same way, then the own pairs.  Then flatten_mapping terminates without an error, node id holds exactly r, and EVERY node afterwards has
   its old kind and contents or - a mapping reached through merge keys - its own fully flattened list; a tag changes only from `=` to str.
   Sources may be shared (one anchor merged into many mappings, or twice into one list): a source met again is already flat and is left as it is. *)
Theorem flatten_nested_merges : forall rk f id r s, Flat rk (nodes s) f id r ->
  exists s', flatten f id s = LOk (tt, s') /\ (exists n', nth_error (nodes s') id = Some n' /\ n_kind n' = NMap r) /\
    forall j, match nth_error (nodes s) j, nth_error (nodes s') j with
              | Some n0, Some n => tagrel (n_tag n0) (n_tag n) /\ (n_kind n = n_kind n0 \/ exists f1 r1, Flat rk (nodes s) f1 j r1 /\ n_kind n = NMap r1)
              | None, None => True | _, _ => False end.
Proof.
  intros rk f id r s HF.
  assert (HT : T (nodes s) (nodes s)).
  { intros j. destruct (nth_error (nodes s) j) as [n|]; [|exact I]. split; [left; reflexivity|]. destruct (n_kind n); eauto. }
  assert (HG : forall b, G rk (nodes s) (nodes s) b) by (intros b j n0 n _ H0 Hn; left; congruence).
  destruct (flatten_spec rk (nodes s) f id r HF s HT (HG _)) as (s' & E & HT' & HG' & Hid & Hs').
  { intros n0 n H0 Hn. left. congruence. }
  exists s'. split; [exact E|]. split; [exact Hid|]. intros j. specialize (HT' j).
  destruct (nth_error (nodes s) j) as [n0|] eqn:H0, (nth_error (nodes s') j) as [n|] eqn:Hn; try exact HT'. split; [exact (proj1 HT')|].
  destruct (Nat.lt_ge_cases (rk j) (rk id)) as [Hlt|Hge]; [exact (HG' j n0 n Hlt H0 Hn)|].
  destruct (Nat.eq_dec j id) as [->|Hne].
  - right. destruct Hid as (n' & Hn' & Hk'). exists f, r. split; [exact HF|congruence].
  - left. specialize (Hs' j (conj Hge Hne)). rewrite H0, Hn in Hs'. injection Hs' as Hs'. exact Hs'.
Qed.

Lemma Flat_intro rk ns0 f' id n items m o r : nth_error ns0 id = Some n -> n_kind n = NMap items ->
  FlatItems ns0 (fun v lv => rk v < rk id /\ Flat rk ns0 f' v lv) items m o -> r = m ++ o -> length items < f' + f' -> length r < f' + f' -> Flat rk ns0 (S f') id r.
Proof. intros H1 H2 H3 -> H5 H6. cbn [Flat]. exists n, items, m, o. repeat (split; [assumption|]). reflexivity. Qed.

(* non-vacuity:  a: &a {x: 1}   b: &b {<<: *a, y: 2}   c: {<<: [*b, *a], z: 3}  - nested, shared, and a list.  Node 0 is c, 5 is b, 6 is a. *)
Example nested_shared_merges :
  let mk0 := {| m_index := 0; m_line := 0; m_col := 0 |} in
  let sc t v := {| n_tag := t; n_kind := NScalar v SPlain; n_start := mk0 |} in
  let mp l := {| n_tag := t_map; n_kind := NMap l; n_start := mk0 |} in
  let sq l := {| n_tag := t_seq; n_kind := NSeq l; n_start := mk0 |} in
  let ns := [mp [(1, 2); (3, 4)]; sc t_merge [60; 60]%N; sq [5; 6]; sc t_str [122%N]; sc t_int [51%N];
             mp [(7, 6); (8, 9)]; mp [(10, 11)]; sc t_merge [60; 60]%N; sc t_str [121%N]; sc t_int [50%N]; sc t_str [120%N]; sc t_int [49%N]] in
  let s := {| nodes := ns; hp := []; cache := []; recursive := []; gens := [] |} in
  let rk := fun j => match j with 0 => 2 | 5 => 1 | _ => 0 end in
  Flat rk ns 4 0 [(10, 11); (10, 11); (8, 9); (3, 4)] /\
  match flatten 4 0 s with
  | LOk (_, s') => map (fun j => option_map map_items (nth_error (nodes s') j)) [0; 5; 6] =
                   [Some [(10, 11); (10, 11); (8, 9); (3, 4)]; Some [(10, 11); (8, 9)]; Some [(10, 11)]]
  | _ => False end.
Proof.
  intros mk0 sc mp sq ns s rk. split; [|vm_compute; reflexivity].
  assert (Ha : forall f', 1 <= f' -> Flat rk ns (S f') 6 [(10, 11)]).
  { intros f' Hf. eapply Flat_intro; [reflexivity|reflexivity|eapply FI_own; [reflexivity|reflexivity|apply FI_nil]|reflexivity|cbn; lia|cbn; lia]. }
  assert (Hb : Flat rk ns 3 5 [(10, 11); (8, 9)]).
  { eapply (Flat_intro _ _ _ _ _ _ [(10, 11)] [(8, 9)]); [reflexivity|reflexivity| |reflexivity|cbn; lia|cbn; lia].
    eapply (FI_merge _ _ 7 6 _ [] _ _ _ _ [(10, 11)]); [reflexivity|reflexivity|reflexivity|reflexivity|split; [cbn; lia|apply Ha; lia]|].
    eapply FI_own; [reflexivity|reflexivity|apply FI_nil]. }
  eapply (Flat_intro _ _ _ _ _ _ [(10, 11); (10, 11); (8, 9)] [(3, 4)]); [reflexivity|reflexivity| |reflexivity|cbn; lia|cbn; lia].
  eapply (FI_mseq _ _ 1 2 _ [] _ _ _ _ [[(10, 11); (8, 9)]; [(10, 11)]]); [reflexivity|reflexivity|reflexivity|reflexivity| |].
  - constructor; [split; [cbn; lia|exact Hb]|]. constructor; [split; [cbn; lia|apply Ha; lia]|constructor].
  - eapply FI_own; [reflexivity|reflexivity|apply FI_nil].
Qed.

