(* C05: the emitter model accepts every grammatical event stream - on a stream of the event grammar (the one the parser's events are proved
   to belong to) the only EmitterErrors it can raise are about content (an anchor, tag, handle or version it cannot write), never
   "expected X, but got Y".  The calculus of EmitSafe.v with the error code made visible, plus a simulation of the grammar's pushdown recogniser. *)
From Coq Require Import List NArith ZArith Bool Arith Lia.
Import ListNotations.
Require Import Emit.
Require ParseL ParserGrammar.

(* structural errors: expected NodeEvent / DocumentStartEvent / StreamStartEvent / nothing / DocumentEndEvent *)
Definition content (c : nat) : bool := negb (existsb (Nat.eqb c) [10; 12; 13; 14; 15]).

Definition wp {A} (m : M A) (Q : A -> st -> Prop) (s : st) : Prop :=
  match m s with Ok (a, s') => Q a s' | EmitErr c _ => content c = true | Crash _ _ => True | OutOfFuel => True end.

Lemma wp_bind {A B} (m : M A) (k : A -> M B) (Q : B -> st -> Prop) s : wp m (fun a s' => wp (k a) Q s') s -> wp (bind m k) Q s.
Proof. unfold wp, bind. destruct (m s) as [[a s']| | |]; auto. Qed.
Lemma wp_ret {A} (a : A) (Q : A -> st -> Prop) s : Q a s -> wp (ret a) Q s.
Proof. unfold wp, ret. auto. Qed.
Lemma wp_mono {A} (m : M A) (Q R : A -> st -> Prop) s : wp m Q s -> (forall a s', Q a s' -> R a s') -> wp m R s.
Proof. unfold wp. destruct (m s) as [[a s']| | |]; auto. Qed.
Lemma wp_err {A} c (Q : A -> st -> Prop) s : content c = true -> wp (err c) Q s.
Proof. intros H. unfold wp, err. exact H. Qed.
Lemma wp_get (Q : st -> st -> Prop) s : Q s s -> wp get Q s.
Proof. unfold wp, get. auto. Qed.
Lemma wp_modify f (Q : unit -> st -> Prop) s : Q tt (f s) -> wp (modify f) Q s.
Proof. unfold wp, modify. auto. Qed.

(* the part of the state the control flow depends on *)
Definition view (s : st) := (states s, state s, indents s, anal s, sty s, events s, cur_ev s).

(* "safe and framing": never crashes (given a current event) and leaves the view alone *)
Definition sfr {A} (m : M A) : Prop :=
  forall (Q : A -> st -> Prop) s, cur_ev s <> None -> (forall a s', view s' = view s -> Q a s') -> wp m Q s.

Lemma view_cur s s' : view s' = view s -> cur_ev s' = cur_ev s.
Proof. unfold view. intros H. injection H. auto. Qed.

Lemma sfr_bind {A B} (m : M A) (k : A -> M B) : sfr m -> (forall a, sfr (k a)) -> sfr (bind m k).
Proof.
  intros Hm Hk Q s Hc HQ. apply wp_bind. apply Hm; [exact Hc|]. intros a s1 V1.
  apply Hk; [rewrite (view_cur _ _ V1); exact Hc|]. intros b s2 V2. apply HQ. rewrite V2. exact V1.
Qed.
Lemma sfr_ret {A} (a : A) : sfr (ret a).
Proof. intros Q s _ HQ. apply wp_ret. apply HQ. reflexivity. Qed.
Lemma sfr_err {A} c : content c = true -> sfr (@err A c).
Proof. intros H Q s _ _. apply wp_err, H. Qed.
Lemma sfr_get : sfr get.
Proof. intros Q s _ HQ. apply wp_get. apply HQ. reflexivity. Qed.
Lemma sfr_modify f : (forall s, view (f s) = view s) -> sfr (modify f).
Proof. intros Hf Q s _ HQ. apply wp_modify. apply HQ. apply Hf. Qed.
Lemma sfr_cur : sfr cur.
Proof.
  intros Q s Hc HQ. unfold cur. apply wp_bind, wp_get. destruct (cur_ev s) as [e|] eqn:E; [|congruence].
  apply wp_ret. apply HQ. reflexivity.
Qed.

Create HintDb sfdb.
Ltac sfm := apply sfr_modify; intros; reflexivity.
(* structural automation: binds, returns, reads, view-neutral updates, conditionals on booleans / options already in scope *)
Ltac sf :=
  repeat first
    [ assumption | solve [auto with sfdb nocore] | apply sfr_ret | apply sfr_err; reflexivity | apply sfr_get | apply sfr_cur | sfm
    | apply sfr_bind; [|intros ?]
    | match goal with
      | |- sfr (if ?b then _ else _) => destruct b
      | |- sfr (match ?o with Some _ => _ | None => _ end) => destruct o
      | |- sfr (let '(_, _) := ?p in _) => destruct p
      end
    ].

Lemma sfr_write d : sfr (write d).
Proof. unfold write. sf. Qed.
Global Hint Resolve sfr_write : sfdb.
Lemma sfr_write_col d : sfr (write_col d).
Proof. unfold write_col. sf. Qed.
Global Hint Resolve sfr_write_col : sfdb.
Lemma sfr_write_indicator i a b c : sfr (write_indicator i a b c).
Proof. unfold write_indicator. sf. Qed.
Global Hint Resolve sfr_write_indicator : sfdb.
Lemma sfr_write_line_break d : sfr (write_line_break d).
Proof. unfold write_line_break. sf. Qed.
Global Hint Resolve sfr_write_line_break : sfdb.
Lemma sfr_write_indent : sfr write_indent.
Proof. unfold write_indent. sf. Qed.
Global Hint Resolve sfr_write_indent : sfdb.
Lemma sfr_fold_left {X} (f : X -> M unit) l : (forall x, sfr (f x)) -> forall m0, sfr m0 -> sfr (fold_left (fun m x => m ;;; f x) l m0).
Proof.
  intros Hf. induction l as [|x l IH]; intros m0 H0; cbn [fold_left]; [exact H0|].
  apply IH. apply sfr_bind; [exact H0|intros _; apply Hf].
Qed.
Lemma sfr_write_breaks t : sfr (write_breaks t).
Proof.
  unfold write_breaks. apply (sfr_fold_left (fun br => if N.eqb br LF then write_line_break None else write_line_break (Some [br]))).
  - intros x. destruct (N.eqb x LF); apply sfr_write_line_break.
  - apply sfr_ret.
Qed.
Global Hint Resolve sfr_write_breaks : sfdb.


(* value-aware variant: the returned value satisfies P *)
Definition sfp {A} (m : M A) (P : A -> Prop) : Prop :=
  forall (Q : A -> st -> Prop) s, cur_ev s <> None -> (forall a s', view s' = view s -> P a -> Q a s') -> wp m Q s.
Lemma sfp_of {A} (m : M A) : sfr m -> sfp m (fun _ => True).
Proof. intros H Q s Hc HQ. apply H; auto. Qed.
Lemma sfr_of {A} (m : M A) P : sfp m P -> sfr m.
Proof. intros H Q s Hc HQ. apply H; auto. Qed.
Lemma sfp_bind {A B} (m : M A) (k : A -> M B) P R : sfp m P -> (forall a, P a -> sfp (k a) R) -> sfp (bind m k) R.
Proof.
  intros Hm Hk Q s Hc HQ. apply wp_bind. apply Hm; [exact Hc|]. intros a s1 V1 Pa.
  apply (Hk a Pa); [rewrite (view_cur _ _ V1); exact Hc|]. intros b s2 V2 Rb. apply HQ; [rewrite V2; exact V1|exact Rb].
Qed.
Lemma sfp_ret {A} (a : A) (P : A -> Prop) : P a -> sfp (ret a) P.
Proof. intros Pa Q s _ HQ. apply wp_ret. apply HQ; [reflexivity|exact Pa]. Qed.
Lemma sfp_seq_ret {A} (m : M unit) (a : A) (P : A -> Prop) : sfr m -> P a -> sfp (m ;;; ret a) P.
Proof. intros Hm Pa. apply sfp_bind with (P := fun _ => True); [apply sfp_of; exact Hm|]. intros _ _. apply sfp_ret. exact Pa. Qed.
Lemma sfp_weaken {A} (m : M A) (P R : A -> Prop) : sfp m P -> (forall a, P a -> R a) -> sfp m R.
Proof. intros H HPR Q s Hc HQ. apply H; auto. Qed.

(* a sequence of view-neutral commands ending in `ret a` *)
Ltac sfq := repeat first [ apply sfp_ret; solve [auto]
                         | apply sfp_bind with (P := fun _ => True); [apply sfp_of; solve [sf]|intros ? _] ].

(* ---------- the five scalar writers ---------- *)
Lemma nth_cp_some (t : str) i : i < length t -> exists c, nth_cp t i = Some c.
Proof. intros H. unfold nth_cp. destruct (nth_error t i) eqn:E; [eauto|]. apply nth_error_None in E. lia. Qed.
Lemma nth_cp_none (t : str) i : length t <= i -> nth_cp t i = None.
Proof. intros H. unfold nth_cp. apply nth_error_None. exact H. Qed.

(* single quoted: `breaks` is only ever set while a piece is pending, so text[start] exists *)
Lemma sfr_sq_loop text split : forall fuel e st spaces breaks,
  (e <= length text -> st <= e /\ (breaks = true -> st < e)) -> sfr (sq_loop fuel text split e st spaces breaks).
Proof.
  induction fuel as [|f IH]; intros e st spaces breaks H; cbn [sq_loop]; [apply sfr_ret|].
  destruct (Nat.ltb (length text) e) eqn:El; [apply sfr_ret|]. apply Nat.ltb_ge in El. destruct (H El) as [H1 H2].
  destruct (Nat.ltb e (length text)) eqn:El2.
  - apply Nat.ltb_lt in El2. destruct (nth_cp_some text e El2) as [c Ec]. rewrite Ec. cbn [is_sp is_brk].
    apply sfr_of with (P := fun _ => True).
    apply sfp_bind with (P := fun st1 => st1 = st \/ st1 = e).
    + destruct spaces.
      * destruct (negb (N.eqb c SP)); [|apply sfp_ret; auto]. apply sfp_bind with (P := fun _ => True); [apply sfp_of, sfr_get|]. intros s0 _.
        apply sfp_seq_ret; [|auto]. destruct (_ && _); auto with sfdb.
      * destruct breaks.
        -- destruct (negb (mem c brk4)); [|apply sfp_ret; auto].
           destruct (nth_cp_some text st) as [c0 Ec0]; [specialize (H2 eq_refl); lia|]. rewrite Ec0. sfq.
        -- destruct (mem c (SP :: brk4) || N.eqb c 39); [|apply sfp_ret; auto].
           destruct (Nat.ltb st e); [apply sfp_seq_ret; auto with sfdb|apply sfp_ret; auto].
    + intros st1 Hst1. apply sfp_bind with (P := fun st2 => (st2 = e + 1 /\ N.eqb c 39 = true) \/ st2 = st1).
      * destruct (N.eqb c 39) eqn:E39; [apply sfp_seq_ret; auto with sfdb|apply sfp_ret; auto].
      * intros st2 Hst2. apply sfp_of. apply IH. intros _. split; [lia|].
        intros Hb. destruct Hst2 as [[-> E39]| ->]; [|lia].
        apply N.eqb_eq in E39. subst c. discriminate Hb.
  - apply Nat.ltb_ge in El2. cbn [is_sp is_brk negb].
    apply sfr_of with (P := fun _ => True). apply sfp_bind with (P := fun _ => True).
    + destruct spaces.
      * apply sfp_bind with (P := fun _ => True); [apply sfp_of, sfr_get|]. intros s0 _. apply sfp_seq_ret; [|auto]. destruct (_ && _); auto with sfdb.
      * destruct breaks.
        -- destruct (nth_cp_some text st) as [c0 Ec0]; [specialize (H2 eq_refl); lia|]. rewrite Ec0. sfq.
        -- destruct (Nat.ltb st e); [apply sfp_seq_ret; auto with sfdb|apply sfp_ret; auto].
    + intros st1 _. apply sfp_bind with (P := fun _ => True); [apply sfp_ret; auto|]. intros st2 _.
      apply sfp_of. apply IH. intros Hl. lia.
Qed.

Lemma sfr_write_single_quoted text split : sfr (write_single_quoted text split).
Proof. unfold write_single_quoted. sf. apply sfr_sq_loop. intros _. split; [lia|discriminate]. Qed.

(* double quoted: the character looked at after a fold is inside the text *)
Lemma sfr_dq_loop text split : forall fuel e st, (e <= length text -> st <= e) -> sfr (dq_loop fuel text split e st).
Proof.
  induction fuel as [|f IH]; intros e st H; cbn [dq_loop]; [apply sfr_ret|].
  destruct (Nat.ltb (length text) e) eqn:El; [apply sfr_ret|]. apply Nat.ltb_ge in El. specialize (H El).
  apply sfr_of with (P := fun _ => True). apply sfp_bind with (P := fun _ => True); [apply sfp_of, sfr_get|]. intros s0 _.
  apply sfp_bind with (P := fun st1 => st1 <= e + 1).
  - destruct (match (if Nat.ltb e (length text) then nth_cp text e else None) with Some c => dq_special (allow_unicode s0) c | None => true end); [|apply sfp_ret; lia].
    apply sfp_bind with (P := fun st1 => st1 <= e).
    + destruct (Nat.ltb st e); [sfq|apply sfp_ret; lia].
    + intros st1 Hst1. destruct (if Nat.ltb e (length text) then nth_cp text e else None); [|apply sfp_ret; lia]. sfq.
  - intros st1 Hst1. apply sfp_bind with (P := fun _ => True); [apply sfp_of, sfr_get|]. intros s1 _.
    apply sfp_bind with (P := fun st2 => st2 <= e + 1).
    + destruct (Nat.ltb 0 e && Nat.ltb e (length text - 1)) eqn:Eb; cbn [andb]; [|apply sfp_ret; exact Hst1].
      destruct ((_ || _) && _ && split); [|apply sfp_ret; exact Hst1].
      apply andb_prop in Eb as [_ Eb]. apply Nat.ltb_lt in Eb.
      set (st2 := if Nat.ltb st1 e then e else st1).
      assert (Hst2 : st2 <= e + 1) by (unfold st2; destruct (Nat.ltb st1 e); lia).
      destruct (nth_cp_some text st2) as [c2 Ec2]; [lia|]. rewrite Ec2. sfq.
    + intros st2 Hst2. apply sfp_of. apply IH. intros _. lia.
Qed.
Lemma sfr_write_double_quoted text split : sfr (write_double_quoted text split).
Proof. unfold write_double_quoted. sf. apply sfr_dq_loop. intros _. lia. Qed.

Lemma sfr_determine_block_hints text : sfr (determine_block_hints text).
Proof. unfold determine_block_hints. sf. destruct text; sf. Qed.
Global Hint Resolve sfr_determine_block_hints : sfdb.

(* folded and literal: no index is used without a guard *)
Lemma sfr_fo_loop text : forall fuel e st ls spaces breaks, sfr (fo_loop fuel text e st ls spaces breaks).
Proof.
  induction fuel as [|f IH]; intros e st ls spaces breaks; cbn [fo_loop]; [apply sfr_ret|].
  destruct (Nat.ltb (length text) e); [apply sfr_ret|].
  apply sfr_bind.
  - destruct breaks; [|destruct spaces]; sf.
  - intros [st' ls']. destruct (if Nat.ltb e (length text) then nth_cp text e else None); apply IH.
Qed.
Lemma sfr_write_folded text : sfr (write_folded text).
Proof. unfold write_folded. sf. apply sfr_fo_loop. Qed.

Lemma sfr_li_loop text : forall fuel e st breaks, sfr (li_loop fuel text e st breaks).
Proof.
  induction fuel as [|f IH]; intros e st breaks; cbn [li_loop]; [apply sfr_ret|].
  destruct (Nat.ltb (length text) e); [apply sfr_ret|].
  apply sfr_bind.
  - destruct breaks; sf.
  - intros st'. apply IH.
Qed.
Lemma sfr_write_literal text : sfr (write_literal text).
Proof. unfold write_literal. sf. apply sfr_li_loop. Qed.

(* plain: safe for texts without line breaks (the analysis allows the plain style for no other) *)
Definition nobrk (t : str) : Prop := forallb (fun c => negb (mem c brk4)) t = true.
Lemma nobrk_nth t i c : nobrk t -> nth_cp t i = Some c -> mem c brk4 = false.
Proof.
  unfold nobrk, nth_cp. intros H E. apply nth_error_In in E. rewrite forallb_forall in H. apply H in E. apply negb_true_iff in E. exact E.
Qed.
Lemma sfr_pl_loop text split : nobrk text -> forall fuel e st spaces, sfr (pl_loop fuel text split e st spaces false).
Proof.
  intros Hn. induction fuel as [|f IH]; intros e st spaces; cbn [pl_loop]; [apply sfr_ret|].
  destruct (Nat.ltb (length text) e); [apply sfr_ret|].
  apply sfr_bind.
  - destruct spaces; sf.
  - intros st'. destruct (Nat.ltb e (length text)); [|apply IH].
    destruct (nth_cp text e) as [c|] eqn:Ec; [|apply IH]. rewrite (nobrk_nth _ _ _ Hn Ec). apply IH.
Qed.
Lemma sfr_write_plain text split : nobrk text -> sfr (write_plain text split).
Proof. intros Hn. unfold write_plain. pose proof (sfr_pl_loop text split Hn) as HP. sf. Qed.

(* ---------- analysis: plain is allowed only for texts without line breaks ---------- *)
Lemma analyze_step_lb au len sc f idx ch : line_brk (analyze_step au len sc f idx ch) = line_brk f || mem ch brk4.
Proof.
  unfold analyze_step.
  destruct (if Nat.eqb idx 0 then _ else _) as [fi bi].
  destruct (N.eqb ch SP); [reflexivity|]. destruct (mem ch brk4); reflexivity.
Qed.
Lemma analyze_loop_lb au len sc : forall rest_ idx f, line_brk (analyze_loop au len sc rest_ idx f) = false ->
  line_brk f = false /\ forallb (fun c => negb (mem c brk4)) rest_ = true.
Proof.
  induction rest_ as [|c r IH]; intros idx f H; cbn [analyze_loop] in H; [split; [exact H|reflexivity]|].
  apply IH in H as [H1 H2]. rewrite analyze_step_lb in H1. apply orb_false_iff in H1 as [H3 H4].
  split; [exact H3|]. cbn [forallb]. rewrite H4, H2. reflexivity.
Qed.
Lemma plain_nobrk au v : a_flow_plain (analyze_scalar au v) = true \/ a_block_plain (analyze_scalar au v) = true -> nobrk v.
Proof.
  unfold analyze_scalar. destruct v as [|c v]; [intros _; reflexivity|].
  cbn [a_flow_plain a_block_plain]. set (f := analyze_loop _ _ _ _ _ _).
  intros H. assert (Hl : line_brk f = false).
  { destruct H as [H|H]; apply andb_prop in H as [H _]; apply andb_prop in H as [_ H]; apply negb_true_iff in H; exact H. }
  apply (analyze_loop_lb _ _ _ _ _ _ Hl).
Qed.
Lemma a_scalar_analyze au v : a_scalar (analyze_scalar au v) = v.
Proof. destruct v; reflexivity. Qed.

(* the cached analysis and style belong to the value of the scalar event in hand *)
Definition AOK (v : str) (o : option analysis) : Prop := match o with None => True | Some a => exists au, a = analyze_scalar au v end.
Definition COK (v : str) (c : chosen) : Prop := c = ChPlain -> nobrk v.
Definition SOK (v : str) (o : option chosen) : Prop := match o with None => True | Some c => COK v c end.
Definition viewK (s : st) := (states s, state s, indents s, events s, cur_ev s).
Definition AI (v : str) (s : st) : Prop := AOK v (anal s) /\ SOK v (sty s).

(* "safe, keeps the control part, keeps the cache consistent with v, result satisfies P" *)
Definition sfa {A} (v : str) (m : M A) (P : A -> Prop) : Prop :=
  forall (Q : A -> st -> Prop) s, cur_ev s <> None -> AI v s -> (forall a s', viewK s' = viewK s -> AI v s' -> P a -> Q a s') -> wp m Q s.
Lemma viewK_cur s s' : viewK s' = viewK s -> cur_ev s' = cur_ev s.
Proof. unfold viewK. intros H. injection H. auto. Qed.
Lemma view_viewK s s' : view s' = view s -> viewK s' = viewK s /\ anal s' = anal s /\ sty s' = sty s.
Proof. unfold view, viewK. intros H. injection H. intros. repeat split; congruence. Qed.
Lemma sfa_of {A} v (m : M A) P : sfp m P -> sfa v m P.
Proof.
  intros H Q s Hc [Ha Hs] HQ. apply H; [exact Hc|]. intros a s' V Pa. destruct (view_viewK _ _ V) as (VK & Ea & Es).
  apply HQ; [exact VK|split; [rewrite Ea; exact Ha|rewrite Es; exact Hs]|exact Pa].
Qed.
Lemma sfa_bind {A B} v (m : M A) (k : A -> M B) P R : sfa v m P -> (forall a, P a -> sfa v (k a) R) -> sfa v (bind m k) R.
Proof.
  intros Hm Hk Q s Hc Hi HQ. apply wp_bind. apply Hm; [exact Hc|exact Hi|]. intros a s1 V1 I1 Pa.
  apply (Hk a Pa); [rewrite (viewK_cur _ _ V1); exact Hc|exact I1|]. intros b s2 V2 I2 Rb. apply HQ; [rewrite V2; exact V1|exact I2|exact Rb].
Qed.
Lemma sfa_ret {A} v (a : A) (P : A -> Prop) : P a -> sfa v (ret a) P.
Proof. intros Pa. apply sfa_of, sfp_ret, Pa. Qed.
Lemma sfa_r {A} v (m : M A) : sfr m -> sfa v m (fun _ => True).
Proof. intros H. apply sfa_of, sfp_of, H. Qed.
Lemma sfa_weaken {A} v (m : M A) (P R : A -> Prop) : sfa v m P -> (forall a, P a -> R a) -> sfa v m R.
Proof. intros H HPR Q s Hc Hi HQ. apply H; auto. Qed.

Lemma sfa_get_analysis v : sfa v (get_analysis v) (fun a => exists au, a = analyze_scalar au v).
Proof.
  intros Q s Hc [Ha Hs] HQ. unfold get_analysis. apply wp_bind, wp_get. destruct (anal s) as [a|] eqn:Ea.
  - apply wp_ret. apply HQ; [reflexivity|split; [rewrite Ea; exact Ha|exact Hs]|exact Ha].
  - apply wp_bind, wp_modify, wp_ret. apply HQ; [reflexivity|split; [cbn; eauto|exact Hs]|eauto].
Qed.
Lemma sfa_choose v i0 style : sfa v (choose_scalar_style i0 v style) (COK v).
Proof.
  unfold choose_scalar_style. eapply sfa_bind; [apply sfa_get_analysis|]. intros a [au ->].
  eapply sfa_bind; [apply sfa_r, sfr_get|]. intros s0 _.
  destruct (_ || canonical s0); [apply sfa_ret; discriminate|].
  match goal with |- sfa _ (if ?b then _ else _) _ => destruct b eqn:Ep end.
  - apply sfa_ret. intros _. apply (plain_nobrk au).
    apply andb_prop in Ep as [_ Ep]. apply orb_prop in Ep as [Ep|Ep]; apply andb_prop in Ep as [_ Ep]; auto.
  - match goal with |- sfa _ (if ?b then _ else _) _ => destruct b end; [apply sfa_ret; destruct style as [[]|]; discriminate|].
    match goal with |- sfa _ (if ?b then _ else _) _ => destruct b end; apply sfa_ret; discriminate.
Qed.
Lemma sfa_get_style v i0 style : sfa v (get_style i0 v style) (COK v).
Proof.
  intros Q s Hc [Ha Hs] HQ. unfold get_style. apply wp_bind, wp_get. destruct (sty s) as [c|] eqn:Es.
  - apply wp_ret. apply HQ; [reflexivity|split; [exact Ha|rewrite Es; exact Hs]|exact Hs].
  - apply wp_bind. apply (sfa_choose v i0 style); [exact Hc|split; [exact Ha|rewrite Es; exact Logic.I]|].
    intros c s1 V1 [Ha1 Hs1] Pc. apply wp_bind, wp_modify, wp_ret. apply HQ; [exact V1|split; [exact Ha1|exact Pc]|exact Pc].
Qed.

(* ---------- the same notions with the current event known ---------- *)
Definition sfpe {A} (e : event) (m : M A) (P : A -> Prop) : Prop :=
  forall (Q : A -> st -> Prop) s, cur_ev s = Some e -> (forall a s', view s' = view s -> P a -> Q a s') -> wp m Q s.
Definition sfae {A} (e : event) (v : str) (m : M A) (P : A -> Prop) : Prop :=
  forall (Q : A -> st -> Prop) s, cur_ev s = Some e -> AI v s -> (forall a s', viewK s' = viewK s -> AI v s' -> P a -> Q a s') -> wp m Q s.
Lemma sfpe_of {A} e (m : M A) P : sfp m P -> sfpe e m P.
Proof. intros H Q s Hc HQ. apply H; [congruence|exact HQ]. Qed.
Lemma sfpe_r {A} e (m : M A) : sfr m -> sfpe e m (fun _ => True).
Proof. intros H. apply sfpe_of, sfp_of, H. Qed.
Lemma sfpe_bind {A B} e (m : M A) (k : A -> M B) P R : sfpe e m P -> (forall a, P a -> sfpe e (k a) R) -> sfpe e (bind m k) R.
Proof.
  intros Hm Hk Q s Hc HQ. apply wp_bind. apply Hm; [exact Hc|]. intros a s1 V1 Pa.
  apply (Hk a Pa); [rewrite (view_cur _ _ V1); exact Hc|]. intros b s2 V2 Rb. apply HQ; [rewrite V2; exact V1|exact Rb].
Qed.
Lemma sfpe_cur e : sfpe e cur (fun x => x = e).
Proof. intros Q s Hc HQ. unfold cur. apply wp_bind, wp_get. rewrite Hc. apply wp_ret. apply HQ; reflexivity. Qed.
Lemma sfpe_weaken {A} e (m : M A) (P R : A -> Prop) : sfpe e m P -> (forall a, P a -> R a) -> sfpe e m R.
Proof. intros H HPR Q s Hc HQ. apply H; auto. Qed.
Lemma sfae_of {A} e v (m : M A) P : sfa v m P -> sfae e v m P.
Proof. intros H Q s Hc Hi HQ. apply H; [congruence|exact Hi|exact HQ]. Qed.
Lemma sfae_pe {A} e v (m : M A) P : sfpe e m P -> sfae e v m P.
Proof.
  intros H Q s Hc [Ha Hs] HQ. apply H; [exact Hc|]. intros a s' V Pa. destruct (view_viewK _ _ V) as (VK & Ea & Es).
  apply HQ; [exact VK|split; [rewrite Ea; exact Ha|rewrite Es; exact Hs]|exact Pa].
Qed.
Lemma sfae_r {A} e v (m : M A) : sfr m -> sfae e v m (fun _ => True).
Proof. intros H. apply sfae_pe, sfpe_r, H. Qed.
Lemma sfae_bind {A B} e v (m : M A) (k : A -> M B) P R : sfae e v m P -> (forall a, P a -> sfae e v (k a) R) -> sfae e v (bind m k) R.
Proof.
  intros Hm Hk Q s Hc Hi HQ. apply wp_bind. apply Hm; [exact Hc|exact Hi|]. intros a s1 V1 I1 Pa.
  apply (Hk a Pa); [rewrite (viewK_cur _ _ V1); exact Hc|exact I1|]. intros b s2 V2 I2 Rb. apply HQ; [rewrite V2; exact V1|exact I2|exact Rb].
Qed.
Lemma sfae_weaken {A} e v (m : M A) (P R : A -> Prop) : sfae e v m P -> (forall a, P a -> R a) -> sfae e v m R.
Proof. intros H HPR Q s Hc Hi HQ. apply H; auto. Qed.

(* ---------- anchors and tags ---------- *)
Lemma sfr_prepare_anchor a : sfr (prepare_anchor a).
Proof. unfold prepare_anchor. destruct a; sf. Qed.
Lemma sfr_prepare_tag t : sfr (prepare_tag t).
Proof.
  unfold prepare_tag. destruct t as [|c t]; [sf|]. destruct (str_eqb (c :: t) [33%N]); [sf|].
  apply sfr_bind; [sf|]. intros s0. destruct (fold_left _ _ _) as [handle suffix]. destruct handle as [[|h0 h]|]; sf.
Qed.
Global Hint Resolve sfr_prepare_anchor sfr_prepare_tag : sfdb.
Lemma sfr_process_anchor i : sfr (process_anchor i).
Proof. unfold process_anchor. sf. Qed.
Lemma sfr_clear_prep_tag : sfr clear_prep_tag.
Proof. unfold clear_prep_tag. sf. Qed.
Global Hint Resolve sfr_process_anchor sfr_clear_prep_tag : sfdb.
Lemma sfr_emit_tag t : sfr (emit_tag t).
Proof. unfold emit_tag. sf. Qed.
Global Hint Resolve sfr_emit_tag : sfdb.

Definition is_scalar_ev (e : event) : bool := match e with EScalar _ _ _ _ _ _ => true | _ => false end.
Definition vof (e : event) : str := match e with EScalar _ _ _ _ v _ => v | _ => [] end.

Lemma sfpe_process_tag e : is_scalar_ev e = false -> sfpe e process_tag (fun _ => True).
Proof.
  intros He. unfold process_tag. eapply sfpe_bind; [apply sfpe_cur|]. intros x ->. apply sfpe_r. destruct e; try discriminate He; sf.
Qed.
Lemma sfae_process_tag e : is_scalar_ev e = true -> sfae e (vof e) process_tag (fun _ => True).
Proof.
  intros He. unfold process_tag. eapply sfae_bind; [apply sfae_pe, sfpe_cur|]. intros x ->.
  eapply sfae_bind; [apply sfae_r, sfr_get|]. intros s0 _. destruct e; try discriminate He. cbn [vof].
  eapply sfae_bind; [apply sfae_of, sfa_get_style|]. intros c _. apply sfae_r. sf.
Qed.

Lemma sfr_check_empty_sequence : sfr check_empty_sequence. Proof. unfold check_empty_sequence. sf. Qed.
Lemma sfr_check_empty_mapping : sfr check_empty_mapping. Proof. unfold check_empty_mapping. sf. Qed.
Lemma sfr_check_empty_document : sfr check_empty_document. Proof. unfold check_empty_document. sf. Qed.
Global Hint Resolve sfr_check_empty_sequence sfr_check_empty_mapping sfr_check_empty_document : sfdb.

Lemma sfpe_check_simple_key e : is_scalar_ev e = false -> sfpe e check_simple_key (fun _ => True).
Proof.
  intros He. unfold check_simple_key. eapply sfpe_bind; [apply sfpe_cur|]. intros x ->. apply sfpe_r.
  apply sfr_bind; [sf|]. intros l1. apply sfr_bind; [destruct e; try discriminate He; sf|]. intros l2.
  apply sfr_bind; [destruct e; try discriminate He; sf|]. intros l3. sf.
Qed.
Lemma sfae_check_simple_key e : is_scalar_ev e = true -> sfae e (vof e) check_simple_key (fun _ => True).
Proof.
  intros He. unfold check_simple_key. eapply sfae_bind; [apply sfae_pe, sfpe_cur|]. intros x ->.
  eapply sfae_bind; [apply sfae_r; sf|]. intros l1 _. eapply sfae_bind; [apply sfae_r; destruct e; try discriminate He; sf|]. intros l2 _.
  destruct e; try discriminate He. cbn [vof].
  eapply sfae_bind; [eapply sfae_bind; [apply sfae_of, sfa_get_analysis|]; intros a _; apply sfae_r; sf|]. intros l3 _.
  apply sfae_r. sf.
Qed.

(* process_scalar: writes the scalar in the chosen style and clears the cache *)
Lemma wp_process_scalar e s (Q : unit -> st -> Prop) : is_scalar_ev e = true -> cur_ev s = Some e -> AI (vof e) s ->
  (forall s', viewK s' = viewK s -> anal s' = None -> sty s' = None -> Q tt s') -> wp process_scalar Q s.
Proof.
  intros He Hc Hi HQ. unfold process_scalar. apply wp_bind. apply (sfpe_cur e); [exact Hc|]. intros x s1 V1 ->.
  destruct (view_viewK _ _ V1) as (VK1 & Ea1 & Es1). destruct e; try discriminate He. cbn [vof] in Hi.
  assert (Hi1 : AI value s1) by (destruct Hi as [Ha Hs]; split; [rewrite Ea1; exact Ha|rewrite Es1; exact Hs]).
  assert (Hc1 : cur_ev s1 <> None) by (rewrite (viewK_cur _ _ VK1), Hc; discriminate).
  apply wp_bind. apply (sfa_get_analysis value); [exact Hc1|exact Hi1|]. intros a s2 VK2 Hi2 [au ->].
  assert (Hc2 : cur_ev s2 <> None) by (rewrite (viewK_cur _ _ VK2); exact Hc1).
  apply wp_bind. apply (sfa_get_style value impl0 style); [exact Hc2|exact Hi2|]. intros c s3 VK3 Hi3 Hcok.
  assert (Hc3 : cur_ev s3 <> None) by (rewrite (viewK_cur _ _ VK3); exact Hc2).
  apply wp_bind, wp_get. rewrite a_scalar_analyze.
  apply wp_bind.
  assert (Hw : sfr (match c with
                    | ChPlain => write_plain value (negb (sk_ctx s3)) | ChDouble => write_double_quoted value (negb (sk_ctx s3))
                    | ChSingle => write_single_quoted value (negb (sk_ctx s3)) | ChLiteral => write_literal value | ChFolded => write_folded value end)).
  { destruct c; [apply sfr_write_plain, Hcok; reflexivity|apply sfr_write_double_quoted|apply sfr_write_single_quoted|apply sfr_write_literal|apply sfr_write_folded]. }
  apply Hw; [exact Hc3|]. intros _ s4 V4. destruct (view_viewK _ _ V4) as (VK4 & _ & _).
  apply wp_modify. apply HQ; [|reflexivity|reflexivity].
  transitivity (viewK s4); [reflexivity|]. rewrite VK4, VK3, VK2. exact VK1.
Qed.

(* ---------- the state machine: stacks of continuation states and of indents ---------- *)
(* snapshot of the control part: stack of states (bottom first, as stored), state, number of saved indents, cache, queue, event in hand *)
Definition snap (s : st) (stk : list estate) (p : estate) (n : nat) (an : option analysis) (sy : option chosen) (evs : list event) (ce : option event) : Prop :=
  states s = stk /\ state s = p /\ length (indents s) = n /\ anal s = an /\ sty s = sy /\ events s = evs /\ cur_ev s = ce.

Lemma snap_view s s' stk p n an sy evs ce : view s' = view s -> snap s stk p n an sy evs ce -> snap s' stk p n an sy evs ce.
Proof. unfold view, snap. intros H. injection H. intros. intuition congruence. Qed.
Lemma snap_viewK s s' stk p n an sy evs ce : viewK s' = viewK s -> snap s stk p n an sy evs ce -> snap s' stk p n (anal s') (sty s') evs ce.
Proof. unfold viewK, snap. intros H. injection H. intros. intuition congruence. Qed.

Lemma snap_sfpe {A} e (m : M A) P (Q : A -> st -> Prop) s stk p n an sy evs : sfpe e m P -> snap s stk p n an sy evs (Some e) ->
  (forall a s', snap s' stk p n an sy evs (Some e) -> P a -> Q a s') -> wp m Q s.
Proof.
  intros Hm Hs HQ. apply Hm; [apply Hs|]. intros a s' V Pa. apply HQ; [eapply snap_view; eauto|exact Pa].
Qed.
Lemma snap_sfr {A} e (m : M A) (Q : A -> st -> Prop) s stk p n an sy evs : sfr m -> snap s stk p n an sy evs (Some e) ->
  (forall a s', snap s' stk p n an sy evs (Some e) -> Q a s') -> wp m Q s.
Proof. intros Hm Hs HQ. eapply snap_sfpe; [apply sfpe_r, Hm|exact Hs|]. intros a s' H _. apply HQ, H. Qed.
Lemma snap_sfae {A} e v (m : M A) P (Q : A -> st -> Prop) s stk p n an sy evs : sfae e v m P -> snap s stk p n an sy evs (Some e) ->
  AOK v an -> SOK v sy ->
  (forall a s' an' sy', snap s' stk p n an' sy' evs (Some e) -> AOK v an' -> SOK v sy' -> P a -> Q a s') -> wp m Q s.
Proof.
  intros Hm Hs Ha Hy HQ. assert (Ea : anal s = an) by apply Hs. assert (Ey : sty s = sy) by apply Hs.
  apply Hm; [apply Hs|split; [rewrite Ea; exact Ha|rewrite Ey; exact Hy]|].
  intros a s' VK [Ha' Hy'] Pa. apply (HQ a s' (anal s') (sty s')); [eapply snap_viewK; eauto|exact Ha'|exact Hy'|exact Pa].
Qed.

Lemma snap_push_state x (Q : unit -> st -> Prop) s stk p n an sy evs ce : snap s stk p n an sy evs ce ->
  (forall s', snap s' (stk ++ [x]) p n an sy evs ce -> Q tt s') -> wp (push_state x) Q s.
Proof. intros Hs HQ. unfold push_state. apply wp_modify. apply HQ. unfold snap in *. cbn. intuition congruence. Qed.
Lemma snap_set_state x (Q : unit -> st -> Prop) s stk p n an sy evs ce : snap s stk p n an sy evs ce ->
  (forall s', snap s' stk x n an sy evs ce -> Q tt s') -> wp (set_state x) Q s.
Proof. intros Hs HQ. unfold set_state. apply wp_modify. apply HQ. unfold snap in *. cbn. intuition congruence. Qed.
Lemma snap_pop_state (Q : unit -> st -> Prop) s l x p n an sy evs ce : snap s (rev (x :: l)) p n an sy evs ce ->
  (forall s', snap s' (rev l) x n an sy evs ce -> Q tt s') -> wp pop_state Q s.
Proof.
  intros Hs HQ. unfold pop_state. apply wp_bind, wp_get. assert (E : states s = rev (x :: l)) by apply Hs.
  rewrite E, rev_involutive. apply wp_modify. apply HQ. unfold snap in *. cbn. intuition congruence.
Qed.
Lemma snap_increase_indent a b (Q : unit -> st -> Prop) s stk p n an sy evs ce : snap s stk p n an sy evs ce ->
  (forall s', snap s' stk p (S n) an sy evs ce -> Q tt s') -> wp (increase_indent a b) Q s.
Proof.
  intros Hs HQ. unfold increase_indent. apply wp_modify. apply HQ. unfold snap in *.
  destruct (indent s); [destruct b|]; cbn; rewrite app_length; cbn; intuition (try congruence; lia).
Qed.
Lemma snap_pop_indent (Q : unit -> st -> Prop) s stk p n an sy evs ce : snap s stk p (S n) an sy evs ce ->
  (forall s', snap s' stk p n an sy evs ce -> Q tt s') -> wp pop_indent Q s.
Proof.
  intros Hs HQ. unfold pop_indent. apply wp_bind, wp_get. assert (E : length (indents s) = S n) by apply Hs.
  destruct (rev (indents s)) as [|i r] eqn:Er.
  - apply (f_equal (@length _)) in Er. rewrite rev_length in Er. simpl in Er. lia.
  - apply wp_modify. apply HQ. assert (El : length r = n).
    { apply (f_equal (@length _)) in Er. rewrite rev_length in Er. simpl in Er. lia. }
    unfold snap in *. cbn. rewrite rev_length. intuition congruence.
Qed.
Lemma snap_modify f (Q : unit -> st -> Prop) s stk p n an sy evs ce : (forall s, view (f s) = view s) -> snap s stk p n an sy evs ce ->
  (forall s', snap s' stk p n an sy evs ce -> Q tt s') -> wp (modify f) Q s.
Proof. intros Hf Hs HQ. apply wp_modify. apply HQ. eapply snap_view; [apply Hf|exact Hs]. Qed.

(* shape of the stack of states (top first) inside a document: continuation states of the open collections above the single XDocEnd *)
Definition outside (p : estate) : bool := match p with XStreamStart | XNothing | XFirstDocStart | XDocStart | XDocRoot => true | _ => false end.
Definition cont (p : estate) : bool := negb (outside p) && match p with XDocEnd => false | _ => true end.
(* states that are pushed as continuations: never one of the two First-block states *)
Definition cont2 (p : estate) : bool := cont p && match p with XFirstBlockSeqItem | XFirstBlockMapKey => false | _ => true end.
Lemma cont2_cont p : cont2 p = true -> cont p = true.
Proof. unfold cont2. intros H. apply andb_prop in H. apply H. Qed.
Definition inside (l : list estate) : Prop := exists ys, l = ys ++ [XDocEnd] /\ forallb cont2 ys = true.
(* n: number of saved indents *)
Definition SInv (p : estate) (l : list estate) (n : nat) : Prop := if cont p then inside l /\ n = length l else l = [] /\ n = 0.
(* X may be pushed on top of l0 *)
Definition pushed (X : estate) (l0 : list estate) : Prop := (X = XDocEnd /\ l0 = []) \/ (cont2 X = true /\ inside l0).
Lemma pushed_inside X l0 : pushed X l0 -> inside (X :: l0).
Proof.
  intros [(-> & ->)|(HX & ys & -> & Hn)]; [exists []; auto|]. exists (X :: ys). split; [reflexivity|]. cbn. rewrite HX, Hn. reflexivity.
Qed.
Lemma inside_pop l : inside l -> exists X l0, l = X :: l0 /\ pushed X l0.
Proof.
  intros (ys & -> & Hn). destruct ys as [|y ys]; cbn.
  - exists XDocEnd, []. split; auto. left; auto.
  - cbn in Hn. apply andb_prop in Hn as [H1 H2]. exists y, (ys ++ [XDocEnd]). split; auto. right. split; auto. exists ys. auto.
Qed.
Lemma pushed_SInv X l0 : pushed X l0 -> SInv X l0 (length l0).
Proof. intros [(-> & ->)|(HX & Hin)]; unfold SInv; [cbn; auto|rewrite (cont2_cont _ HX); auto]. Qed.
Lemma SInv_cont_pushed p X l0 : cont p = true -> cont2 X = true -> inside l0 -> inside (X :: l0) /\ True.
Proof. intros _ HX Hin. split; auto. apply pushed_inside. right. auto. Qed.

Lemma snap_process_scalar e (Q : unit -> st -> Prop) s stk p n an sy evs : is_scalar_ev e = true -> snap s stk p n an sy evs (Some e) ->
  AOK (vof e) an -> SOK (vof e) sy -> (forall s', snap s' stk p n None None evs (Some e) -> Q tt s') -> wp process_scalar Q s.
Proof.
  intros He Hs Ha Hy HQ. assert (Ea : anal s = an) by apply Hs. assert (Ey : sty s = sy) by apply Hs.
  apply (wp_process_scalar e); [exact He|apply Hs|split; [rewrite Ea; exact Ha|rewrite Ey; exact Hy]|].
  intros s' VK E1 E2. apply HQ. rewrite <- E1, <- E2. eapply snap_viewK; eauto.
Qed.

(* ---------- the event grammar on event kinds (the recogniser of ParserGrammar.v) ---------- *)
Import ParserGrammar.
Inductive ek := KStreamStart | KStreamEnd | KDocStart | KDocEnd | KLeaf | KSeqStart | KSeqEnd | KMapStart | KMapEnd.
Definition kind (e : event) : ek :=
  match e with
  | EStreamStart => KStreamStart | EStreamEnd => KStreamEnd | EDocStart _ _ _ => KDocStart | EDocEnd _ => KDocEnd
  | EAlias _ => KLeaf | EScalar _ _ _ _ _ _ => KLeaf | ESeqStart _ _ _ _ => KSeqStart | ESeqEnd => KSeqEnd
  | EMapStart _ _ _ _ => KMapStart | EMapEnd => KMapEnd
  end.
Definition pkind (e : ParseL.ev) : ek :=
  match e with
  | ParseL.VStreamStart => KStreamStart | ParseL.VStreamEnd => KStreamEnd | ParseL.VDocStart _ _ _ => KDocStart | ParseL.VDocEnd _ => KDocEnd
  | ParseL.VAlias _ => KLeaf | ParseL.VScalar _ _ _ _ _ _ => KLeaf | ParseL.VSeqStart _ _ _ _ => KSeqStart | ParseL.VSeqEnd => KSeqEnd
  | ParseL.VMapStart _ _ _ _ => KMapStart | ParseL.VMapEnd => KMapEnd
  end.
Definition knode (k : ek) (g : list gfr) : option (list gfr) :=
  match k with KLeaf => Some g | KSeqStart => Some (GSeq :: g) | KMapStart => Some (GMapK :: g) | _ => None end.
Definition kstep (g : list gfr) (k : ek) : option (list gfr) :=
  match g with
  | [] => None
  | GInit :: r => match k with KStreamStart => Some (GDocs :: r) | _ => None end
  | GDocs :: r => match k with KDocStart => Some (GNode :: GDocEnd :: GDocs :: r) | KStreamEnd => Some r | _ => None end
  | GDocEnd :: r => match k with KDocEnd => Some r | _ => None end
  | GNode :: r => knode k r
  | GSeq :: r => match k with KSeqEnd => Some r | _ => knode k (GSeq :: r) end
  | GMapK :: r => match k with KMapEnd => Some r | _ => knode k (GMapV :: r) end
  | GMapV :: r => knode k (GMapK :: r)
  end.
Fixpoint krun (g : list gfr) (ks : list ek) : option (list gfr) :=
  match ks with [] => Some g | k :: r => match kstep g k with Some g' => krun g' r | None => None end end.
Lemma gstep_kstep g e : gstep g e = kstep g (pkind e).
Proof. destruct g as [|[] r]; destruct e; reflexivity. Qed.
Lemma grun_krun : forall es g, grun g es = krun g (map pkind es).
Proof. induction es as [|e r IH]; intros g; cbn; [reflexivity|]. rewrite gstep_kstep. destruct (kstep g (pkind e)); auto. Qed.

(* what each emitter state still owes *)
Definition absE (p : estate) : list gfr :=
  match p with
  | XStreamStart => [GInit]
  | XNothing => []
  | XFirstDocStart | XDocStart => [GDocs]
  | XDocEnd => [GDocEnd; GDocs]
  | XDocRoot => [GNode; GDocEnd; GDocs]
  | XFirstFlowSeqItem | XFlowSeqItem | XFirstBlockSeqItem | XBlockSeqItem => [GSeq]
  | XFirstFlowMapKey | XFlowMapKey | XFirstBlockMapKey | XBlockMapKey => [GMapK]
  | XFlowMapSimpleValue | XFlowMapValue | XBlockMapSimpleValue | XBlockMapValue => [GMapV]
  end.
(* l: the stack of states, top first *)
Definition absL (l : list estate) : list gfr := flat_map absE l.
Definition Gof (p : estate) (stk : list estate) : list gfr := absE p ++ absL (rev stk).

(* entering a block collection is decided by a look at the next event: it is not the collection's end *)
Definition hd_not (k : event) (evs : list event) : Prop := match evs with e' :: _ => e' <> k | [] => False end.
Definition first_ok (p : estate) (evs : list event) : Prop :=
  (p = XFirstBlockSeqItem -> hd_not ESeqEnd evs) /\ (p = XFirstBlockMapKey -> hd_not EMapEnd evs).
Lemma first_ok_cont2 X evs : X = XDocEnd \/ cont2 X = true -> first_ok X evs.
Proof. intros [->|H]; split; intros E; try discriminate E; subst X; discriminate H. Qed.

(* the outcome of one step: the invariant again, the cache cleared, queue and event in hand untouched, the grammar frames advanced *)
Definition post (evs : list event) (e : event) (g' : list gfr) (_ : unit) (s' : st) : Prop :=
  exists stk' p' n', snap s' stk' p' n' None None evs (Some e) /\ SInv p' (rev stk') n' /\ Gof p' stk' = g' /\ first_ok p' evs.

Ltac w_sfr := apply wp_bind; eapply snap_sfr; [solve [sf]|eassumption|]; intros ? ? ?.
Ltac w_get := apply wp_bind, wp_get.
Ltac w_push := apply wp_bind; eapply snap_push_state; [eassumption|]; intros ? ?.
Ltac w_ii := apply wp_bind; eapply snap_increase_indent; [eassumption|]; intros ? ?.
Ltac w_mod := apply wp_bind; eapply snap_modify; [intros; reflexivity|eassumption|]; intros ? ?.

Lemma pushed_first X l0 evs : pushed X l0 -> first_ok X evs.
Proof. intros [(-> & _)|(H & _)]; apply first_ok_cont2; auto. Qed.

Lemma snap_ces (Q : bool -> st -> Prop) s stk p n an sy evs e : snap s stk p n an sy evs (Some e) ->
  Q (match e, evs with ESeqStart _ _ _ _, ESeqEnd :: _ => true | _, _ => false end) s -> wp check_empty_sequence Q s.
Proof.
  intros Hs HQ. unfold check_empty_sequence. apply wp_bind, wp_get. apply wp_ret.
  replace (cur_ev s) with (Some e) by (symmetry; apply Hs). replace (events s) with evs by (symmetry; apply Hs). exact HQ.
Qed.
Lemma snap_cem (Q : bool -> st -> Prop) s stk p n an sy evs e : snap s stk p n an sy evs (Some e) ->
  Q (match e, evs with EMapStart _ _ _ _, EMapEnd :: _ => true | _, _ => false end) s -> wp check_empty_mapping Q s.
Proof.
  intros Hs HQ. unfold check_empty_mapping. apply wp_bind, wp_get. apply wp_ret.
  replace (cur_ev s) with (Some e) by (symmetry; apply Hs). replace (events s) with evs by (symmetry; apply Hs). exact HQ.
Qed.

Lemma wp_expect_node r q m k s e X l0 p an sy evs g' :
  snap s (rev (X :: l0)) p (length l0) an sy evs (Some e) -> pushed X l0 ->
  (if is_scalar_ev e then AOK (vof e) an /\ SOK (vof e) sy else an = None /\ sy = None) ->
  knode (kind e) (absL (X :: l0)) = Some g' -> (is_coll_start e = true -> evs <> []) ->
  wp (expect_node r q m k) (post evs e g') s.
Proof.
  intros Hs Hp Hc Hk Hq. unfold expect_node. w_mod.
  apply wp_bind. eapply snap_sfpe; [apply sfpe_cur|eassumption|]. intros x s2 Hs2 ->. w_get.
  assert (Gpop : Gof X (rev l0) = absL (X :: l0)) by (unfold Gof, absL; rewrite rev_involutive; reflexivity).
  destruct e; try discriminate Hk; cbn [is_scalar_ev] in Hc; cbn [kind knode] in Hk; injection Hk as <-.
  - (* alias *) destruct Hc as [-> ->]. destruct anchor; [|apply wp_err; reflexivity]. w_sfr.
    eapply snap_pop_state; [eassumption|]. intros s4 Hs4. exists (rev l0), X, (length l0). split; [exact Hs4|].
    rewrite rev_involutive. split; [apply pushed_SInv, Hp|]. split; [exact Gpop|apply (pushed_first _ _ _ Hp)].
  - (* scalar *) destruct Hc as [Ha Hy]. w_sfr.
    apply wp_bind. eapply (snap_sfae (EScalar anchor tag impl0 impl1 value style)); [apply sfae_process_tag; reflexivity|eassumption|exact Ha|exact Hy|]. intros _ s4 an' sy' Hs4 Ha' Hy' _.
    w_ii. apply wp_bind. eapply (snap_process_scalar (EScalar anchor tag impl0 impl1 value style)); [reflexivity|eassumption|exact Ha'|exact Hy'|]. intros s6 Hs6.
    apply wp_bind. eapply snap_pop_indent; [eassumption|]. intros s7 Hs7.
    eapply snap_pop_state; [eassumption|]. intros s8 Hs8. exists (rev l0), X, (length l0). split; [exact Hs8|].
    rewrite rev_involutive. split; [apply pushed_SInv, Hp|]. split; [exact Gpop|apply (pushed_first _ _ _ Hp)].
  - (* sequence start *) destruct Hc as [-> ->]. specialize (Hq eq_refl). w_sfr.
    apply wp_bind. eapply (snap_sfpe (ESeqStart anchor tag implicit flow)); [apply sfpe_process_tag; reflexivity|eassumption|]. intros _ s4 Hs4 _.
    apply wp_bind. eapply snap_ces; [eassumption|].
    match goal with |- wp (if ?b then _ else _) _ _ => destruct b eqn:Eb end.
    + w_sfr. w_mod. w_ii. eapply snap_set_state; [eassumption|]. intros s9 Hs9.
      exists (rev (X :: l0)), XFirstFlowSeqItem, (S (length l0)). split; [exact Hs9|]. rewrite rev_involutive.
      split; [unfold SInv; cbn [cont outside negb andb]; split; [apply pushed_inside, Hp|reflexivity]|]. split; [unfold Gof; rewrite rev_involutive; reflexivity|split; intros E0; discriminate E0].
    + w_get. w_ii. eapply snap_set_state; [eassumption|]. intros s9 Hs9.
      exists (rev (X :: l0)), XFirstBlockSeqItem, (S (length l0)). split; [exact Hs9|]. rewrite rev_involutive.
      split; [unfold SInv; cbn [cont outside negb andb]; split; [apply pushed_inside, Hp|reflexivity]|]. split; [unfold Gof; rewrite rev_involutive; reflexivity|].
      split; [intros _|intros E0; discriminate E0]. apply orb_false_iff in Eb as [_ Eb]. destruct evs as [|e' evs']; [congruence|]. cbn. intros ->. discriminate Eb.
  - (* mapping start *) destruct Hc as [-> ->]. specialize (Hq eq_refl). w_sfr.
    apply wp_bind. eapply (snap_sfpe (EMapStart anchor tag implicit flow)); [apply sfpe_process_tag; reflexivity|eassumption|]. intros _ s4 Hs4 _.
    apply wp_bind. eapply snap_cem; [eassumption|].
    match goal with |- wp (if ?b then _ else _) _ _ => destruct b eqn:Eb end.
    + w_sfr. w_mod. w_ii. eapply snap_set_state; [eassumption|]. intros s9 Hs9.
      exists (rev (X :: l0)), XFirstFlowMapKey, (S (length l0)). split; [exact Hs9|]. rewrite rev_involutive.
      split; [unfold SInv; cbn [cont outside negb andb]; split; [apply pushed_inside, Hp|reflexivity]|]. split; [unfold Gof; rewrite rev_involutive; reflexivity|split; intros E0; discriminate E0].
    + w_ii. eapply snap_set_state; [eassumption|]. intros s9 Hs9.
      exists (rev (X :: l0)), XFirstBlockMapKey, (S (length l0)). split; [exact Hs9|]. rewrite rev_involutive.
      split; [unfold SInv; cbn [cont outside negb andb]; split; [apply pushed_inside, Hp|reflexivity]|]. split; [unfold Gof; rewrite rev_involutive; reflexivity|].
      split; [intros E0; discriminate E0|intros _]. apply orb_false_iff in Eb as [_ Eb]. destruct evs as [|e' evs']; [congruence|]. cbn. intros ->. discriminate Eb.
Qed.

Lemma wp_final_pop s X l0 p evs e : snap s (rev (X :: l0)) p (length l0) None None evs (Some e) -> pushed X l0 ->
  wp pop_state (post evs e (absL (X :: l0))) s.
Proof.
  intros Hs Hp. eapply snap_pop_state; [eassumption|]. intros s1 Hs1. exists (rev l0), X, (length l0). split; [exact Hs1|].
  rewrite rev_involutive. split; [apply pushed_SInv, Hp|]. split; [unfold Gof, absL; rewrite rev_involutive; reflexivity|apply (pushed_first _ _ _ Hp)].
Qed.
Lemma wp_item Y r q m k s l p evs e g' : snap s (rev l) p (length l) None None evs (Some e) -> inside l -> cont2 Y = true ->
  knode (kind e) (absE Y ++ absL l) = Some g' -> (is_coll_start e = true -> evs <> []) ->
  wp (push_state Y ;;; expect_node r q m k) (post evs e g') s.
Proof.
  intros Hs Hin HY Hk Hq. w_push. eapply (wp_expect_node r q m k _ e Y l); [exact H|right; auto| |exact Hk|exact Hq]. destruct (is_scalar_ev e); cbn; auto.
Qed.
Ltac coll_end Hin mid :=
  let X := fresh "X" in let l0 := fresh "l0" in let Hp := fresh "Hp" in
  destruct (inside_pop _ Hin) as (X & l0 & -> & Hp); cbn [length] in *;
  apply wp_bind; eapply snap_pop_indent; [eassumption|]; intros ? ?; mid; eapply wp_final_pop; eassumption.

Lemma kleaf_not_end e g g' : knode (kind e) g = Some g' -> is_node_event e = true.
Proof. destruct e; cbn; intros H; try discriminate H; reflexivity. Qed.

Lemma wp_sock a b cc indn s l p evs e g' : snap s (rev l) p (length l) None None evs (Some e) -> inside l -> cont2 a = true -> cont2 b = true ->
  absE a = absE b -> knode (kind e) (absE a ++ absL l) = Some g' -> (is_coll_start e = true -> evs <> []) ->
  wp (simple_or_complex_key a b cc indn) (post evs e g') s.
Proof.
  intros Hs Hin Ha Hb Eab Hk Hq. unfold simple_or_complex_key. w_get. destruct (is_scalar_ev e) eqn:He.
  - apply wp_bind. eapply (snap_sfae e (vof e)) with (P := fun _ => True); [|eassumption|exact Logic.I|exact Logic.I|].
    { destruct (cc && canonical s); [apply sfae_r, sfr_ret|apply sfae_check_simple_key, He]. }
    intros sk s1 an' sy' Hs1 Ha' Hy' _. destruct sk.
    + w_push. eapply (wp_expect_node _ _ _ _ _ e a l); [eassumption|right; auto| |exact Hk|exact Hq]. rewrite He. auto.
    + w_sfr. w_push. eapply (wp_expect_node _ _ _ _ _ e b l); [eassumption|right; auto| |cbn [absL flat_map]; rewrite <- Eab; exact Hk|exact Hq]. rewrite He. auto.
  - apply wp_bind. eapply (snap_sfpe e) with (P := fun _ => True); [|eassumption|].
    { destruct (cc && canonical s); [apply sfpe_r, sfr_ret|apply sfpe_check_simple_key, He]. }
    intros sk s1 Hs1 _. destruct sk.
    + w_push. eapply (wp_expect_node _ _ _ _ _ e a l); [eassumption|right; auto| |exact Hk|exact Hq]. rewrite He. auto.
    + w_sfr. w_push. eapply (wp_expect_node _ _ _ _ _ e b l); [eassumption|right; auto| |cbn [absL flat_map]; rewrite <- Eab; exact Hk|exact Hq]. rewrite He. auto.
Qed.

Lemma sfr_prepare_tag_handle h : sfr (prepare_tag_handle h).
Proof. unfold prepare_tag_handle. destruct h; sf. Qed.
Lemma sfr_prepare_tag_prefix p : sfr (prepare_tag_prefix p).
Proof. unfold prepare_tag_prefix. destruct p as [|c r]; [sf|]. destruct (N.eqb c 33); sf. Qed.
Lemma sfr_write_version_directive v : sfr (write_version_directive v). Proof. unfold write_version_directive. sf. Qed.
Lemma sfr_write_tag_directive h p : sfr (write_tag_directive h p). Proof. unfold write_tag_directive. sf. Qed.
Lemma sfr_col_over : sfr col_over. Proof. unfold col_over. sf. Qed.
Global Hint Resolve sfr_prepare_tag_handle sfr_prepare_tag_prefix sfr_write_version_directive sfr_write_tag_directive sfr_col_over : sfdb.

Lemma wp_expect_document_start first s p evs e g' : snap s [] p 0 None None evs (Some e) -> kstep [GDocs] (kind e) = Some g' ->
  wp (expect_document_start first) (post evs e g') s.
Proof.
  intros Hs Hk. unfold expect_document_start.
  apply wp_bind. eapply snap_sfpe; [apply sfpe_cur|eassumption|]. intros x s1 Hs1 ->.
  destruct e; try discriminate Hk; cbn in Hk; injection Hk as <-.
  - (* stream end *) w_get. w_sfr. eapply snap_set_state; [eassumption|]. intros s3 Hs3. exists [], XNothing, 0. split; [exact Hs3|]. cbn. repeat split; auto; intros E0; discriminate E0.
  - (* document start *) w_get. w_sfr. w_sfr. w_mod.
    apply wp_bind. eapply snap_sfr; [|eassumption|].
    { apply (sfr_fold_left (fun hp : str * str => let '(h, p) := hp in
               modify (fun s => with_prefixes (assoc_set p h (tag_prefixes s)) s) ;;;
               ht <- prepare_tag_handle h ;; pt <- prepare_tag_prefix p ;; write_tag_directive ht pt)); [intros [h0 p0]; sf|apply sfr_ret]. }
    intros _ s5 Hs5. w_sfr. w_get. w_sfr.
    eapply snap_set_state; [eassumption|]. intros s8 Hs8. exists [], XDocRoot, 0. split; [exact Hs8|]. cbn. repeat split; auto; intros E0; discriminate E0.
Qed.

Lemma SInv_cont p stk n : cont p = true -> SInv p (rev stk) n -> exists l, stk = rev l /\ inside l /\ n = length l.
Proof. unfold SInv. intros -> [H1 H2]. exists (rev stk). rewrite rev_involutive. auto. Qed.
Lemma SInv_out p stk n : cont p = false -> SInv p (rev stk) n -> stk = [] /\ n = 0.
Proof.
  unfold SInv. intros -> [H1 H2]. split; [|exact H2]. apply (f_equal (@rev _)) in H1. rewrite rev_involutive in H1. exact H1.
Qed.
Ltac si_out Hi := match type of Hi with SInv ?p _ _ => destruct (SInv_out p _ _ eq_refl Hi) as [-> ->] end.
Ltac si_cont Hi l Hin := match type of Hi with SInv ?p _ _ => destruct (SInv_cont p _ _ eq_refl Hi) as (l & -> & Hin & ->) end.

(* one step on an event the grammar allows in the frames the state stands for: no structural error, the frames advance as the recogniser's *)
Theorem wp_step s stk p n evs e g' : snap s stk p n None None evs (Some e) -> SInv p (rev stk) n -> first_ok p (e :: evs) ->
  kstep (Gof p stk) (kind e) = Some g' -> (is_coll_start e = true -> evs <> []) -> wp step (post evs e g') s.
Proof.
  intros Hs Hi Hf Hk Hq. unfold step. w_get.
  apply wp_bind. eapply snap_sfpe; [apply sfpe_cur|eassumption|]. intros x s1 Hs1 ->.
  assert (Ep : state s = p) by apply Hs. rewrite Ep. unfold Gof in Hk.
  destruct p.
  - (* stream start *) si_out Hi. destruct e; try discriminate Hk. cbn in Hk. injection Hk as <-.
    eapply snap_set_state; [eassumption|]. intros s2 Hs2. exists [], XFirstDocStart, 0. split; [exact Hs2|]. cbn. repeat split; auto; intros E0; discriminate E0.
  - si_out Hi. discriminate Hk.
  - si_out Hi. eapply wp_expect_document_start; [eassumption|exact Hk].
  - si_out Hi. eapply wp_expect_document_start; [eassumption|exact Hk].
  - (* document end *) si_out Hi. destruct e; try discriminate Hk. cbn in Hk. injection Hk as <-. w_sfr. w_sfr.
    eapply snap_set_state; [eassumption|]. intros s4 Hs4. exists [], XDocStart, 0. split; [exact Hs4|]. cbn. repeat split; auto; intros E0; discriminate E0.
  - (* document root *) si_out Hi. w_push.
    eapply (wp_expect_node _ _ _ _ _ e XDocEnd []); [exact H|left; auto| |exact Hk|exact Hq]. destruct (is_scalar_ev e); cbn; auto.
  - (* first flow sequence item *) si_cont Hi l Hin. rewrite rev_involutive in Hk. cbn [absE app kstep] in Hk.
    destruct e; try discriminate Hk; try (w_sfr; w_sfr; eapply wp_item; [eassumption|exact Hin|reflexivity|exact Hk|exact Hq]).
    injection Hk as <-. coll_end Hin ltac:(w_sfr; w_sfr).
  - (* flow sequence item *) si_cont Hi l Hin. rewrite rev_involutive in Hk. cbn [absE app kstep] in Hk.
    destruct e; try discriminate Hk; try (w_sfr; w_sfr; w_sfr; eapply wp_item; [eassumption|exact Hin|reflexivity|exact Hk|exact Hq]).
    injection Hk as <-. coll_end Hin ltac:(w_sfr; w_sfr; w_sfr).
  - (* first flow mapping key *) si_cont Hi l Hin. rewrite rev_involutive in Hk. cbn [absE app kstep] in Hk.
    destruct e; try discriminate Hk; try (w_sfr; w_sfr; eapply wp_sock; [eassumption|exact Hin|reflexivity|reflexivity|reflexivity|exact Hk|exact Hq]).
    injection Hk as <-. coll_end Hin ltac:(w_sfr; w_sfr).
  - (* flow mapping key *) si_cont Hi l Hin. rewrite rev_involutive in Hk. cbn [absE app kstep] in Hk.
    destruct e; try discriminate Hk; try (w_sfr; w_sfr; w_sfr; eapply wp_sock; [eassumption|exact Hin|reflexivity|reflexivity|reflexivity|exact Hk|exact Hq]).
    injection Hk as <-. coll_end Hin ltac:(w_sfr; w_sfr; w_sfr).
  - (* flow mapping simple value *) si_cont Hi l Hin. rewrite rev_involutive in Hk. cbn [absE app kstep] in Hk.
    w_sfr. eapply wp_item; [eassumption|exact Hin|reflexivity|exact Hk|exact Hq].
  - (* flow mapping value *) si_cont Hi l Hin. rewrite rev_involutive in Hk. cbn [absE app kstep] in Hk.
    w_sfr. w_sfr. w_sfr. eapply wp_item; [eassumption|exact Hin|reflexivity|exact Hk|exact Hq].
  - (* first block sequence item: the event is not the end of the sequence (the look-ahead said so) *)
    si_cont Hi l Hin. rewrite rev_involutive in Hk. cbn [absE app kstep] in Hk. destruct Hf as [Hf _]. specialize (Hf eq_refl). cbn in Hf.
    destruct e; try discriminate Hk; try congruence; (w_sfr; w_sfr; eapply wp_item; [eassumption|exact Hin|reflexivity|exact Hk|exact Hq]).
  - (* block sequence item *) si_cont Hi l Hin. rewrite rev_involutive in Hk. cbn [absE app kstep] in Hk.
    destruct e; try discriminate Hk; try (w_sfr; w_sfr; eapply wp_item; [eassumption|exact Hin|reflexivity|exact Hk|exact Hq]).
    injection Hk as <-. coll_end Hin ltac:(idtac).
  - (* first block mapping key *) si_cont Hi l Hin. rewrite rev_involutive in Hk. cbn [absE app kstep] in Hk. destruct Hf as [_ Hf]. specialize (Hf eq_refl). cbn in Hf.
    destruct e; try discriminate Hk; try congruence; (w_sfr; eapply wp_sock; [eassumption|exact Hin|reflexivity|reflexivity|reflexivity|exact Hk|exact Hq]).
  - (* block mapping key *) si_cont Hi l Hin. rewrite rev_involutive in Hk. cbn [absE app kstep] in Hk.
    destruct e; try discriminate Hk; try (w_sfr; eapply wp_sock; [eassumption|exact Hin|reflexivity|reflexivity|reflexivity|exact Hk|exact Hq]).
    injection Hk as <-. coll_end Hin ltac:(idtac).
  - (* block mapping simple value *) si_cont Hi l Hin. rewrite rev_involutive in Hk. cbn [absE app kstep] in Hk.
    w_sfr. eapply wp_item; [eassumption|exact Hin|reflexivity|exact Hk|exact Hq].
  - (* block mapping value *) si_cont Hi l Hin. rewrite rev_involutive in Hk. cbn [absE app kstep] in Hk.
    w_sfr. w_sfr. eapply wp_item; [eassumption|exact Hin|reflexivity|exact Hk|exact Hq].
Qed.

(* ---------- the event queue and the whole run ---------- *)
(* between two calls of emit(): as in EmitSafe.GI, and the frames the state stands for accept the queued and the coming events *)
Definition GI (rest_ : list event) (gfin : list gfr) (s : st) : Prop :=
  exists stk p n, snap s stk p n None None (events s) None /\ SInv p (rev stk) n /\ need_more_events (events s) = true /\
                  first_ok p (events s) /\ krun (Gof p stk) (map kind (events s ++ rest_)) = Some gfin.

Lemma need_more_len evs : need_more_events evs = true -> length evs <= 3.
Proof.
  destruct evs as [|e r]; [cbn; lia|]. unfold need_more_events, need_events.
  destruct e; try discriminate; destruct (need_events_scan _ _); try discriminate; intros H; apply Nat.ltb_lt in H; lia.
Qed.
Lemma coll_has_lookahead e es : need_more_events (e :: es) = false -> is_coll_start e = true -> es <> [].
Proof.
  intros H Hc ->. destruct e; try discriminate Hc; discriminate H.
Qed.

Lemma wp_drain rest_ gfin : forall fuel s stk p n, snap s stk p n None None (events s) None -> SInv p (rev stk) n -> first_ok p (events s) ->
  krun (Gof p stk) (map kind (events s ++ rest_)) = Some gfin -> length (events s) < fuel ->
  wp (drain fuel) (fun _ s' => GI rest_ gfin s') s.
Proof.
  induction fuel as [|f IH]; intros s stk p n Hs Hi Hfo Hk Hf; [lia|]. cbn [drain]. w_get.
  destruct (need_more_events (events s)) eqn:En; [apply wp_ret; exists stk, p, n; auto|].
  destruct (events s) as [|e es] eqn:Ee; [discriminate En|].
  apply wp_bind, wp_modify.
  set (s1 := with_event (Some e) (with_events es s)).
  assert (Hs1 : snap s1 stk p n None None es (Some e)) by (unfold snap in *; cbn; intuition congruence).
  cbn [app map krun] in Hk. destruct (kstep (Gof p stk) (kind e)) as [g'|] eqn:Ek; [|discriminate Hk].
  apply wp_bind. eapply wp_mono; [eapply (wp_step s1 stk p n es e g'); [exact Hs1|exact Hi|exact Hfo|exact Ek|apply (coll_has_lookahead e es En)]|].
  intros _ s2 (stk' & p' & n' & Hs2 & Hi2 & HG2 & Hf2).
  apply wp_bind, wp_modify.
  assert (Hs3 : snap (with_event None s2) stk' p' n' None None (events (with_event None s2)) None) by (unfold snap in *; cbn; intuition congruence).
  assert (Ees : events (with_event None s2) = es) by (cbn; apply Hs2).
  eapply IH; [exact Hs3|exact Hi2|rewrite Ees; exact Hf2|rewrite Ees, HG2; exact Hk|].
  rewrite Ees. cbn in Hf. lia.
Qed.

Lemma first_ok_app p evs e : first_ok p evs -> first_ok p (evs ++ [e]).
Proof. intros [H1 H2]. split; intros E; [specialize (H1 E)|specialize (H2 E)]; destruct evs; cbn in *; auto; contradiction. Qed.

Lemma wp_emit1 e rest_ gfin s : GI (e :: rest_) gfin s -> wp (emit1 e) (fun _ s' => GI rest_ gfin s') s.
Proof.
  intros (stk & p & n & Hs & Hi & Hn & Hfo & Hk). unfold emit1. apply wp_bind, wp_modify.
  eapply wp_drain; [|exact Hi| | |].
  - unfold snap in *. cbn. intuition congruence.
  - cbn. apply first_ok_app, Hfo.
  - cbn. rewrite <- app_assoc. exact Hk.
  - cbn. rewrite app_length. apply need_more_len in Hn. cbn. lia.
Qed.

Definition fine (r : res unit) : Prop := match r with EmitErr c _ => content c = true | _ => True end.
Lemma emit_all_fine : forall evs s gfin, GI evs gfin s -> fine (snd (emit_all evs s)).
Proof.
  induction evs as [|e evs IH]; intros s gfin Hg; cbn [emit_all]; [exact Logic.I|].
  pose proof (wp_emit1 e evs gfin s Hg) as H. unfold wp in H. destruct (emit1 e s) as [[[] s']| | |]; [eapply IH, H|exact H|exact Logic.I|exact Logic.I].
Qed.

(* EVERY list of events that the event grammar allows (a viable prefix of STREAM-START document* STREAM-END), every option set: the emitter model
   never answers with a structural EmitterError ("expected NodeEvent / DocumentStartEvent / ... but got ..."); what it can still reject is content:
   an anchor, tag, tag handle or %YAML version it cannot write *)
Theorem emitter_accepts_the_event_grammar : forall evs gfin canon allow_uni ind width lb,
  krun [GInit] (map kind evs) = Some gfin -> fine (snd (emit_all evs (init canon allow_uni ind width lb))).
Proof.
  intros evs gfin canon au ind width lb H. apply (emit_all_fine evs _ gfin).
  exists [], XStreamStart, 0. unfold snap, init. cbn. repeat split; auto; intros E0; discriminate E0.
Qed.

(* parser and emitter: the events the parser model delivers for ANY token list (ParserGrammar.parser_events_grammatical), handed to the
   emitter as events of the same kinds, are never rejected for their structure *)
Theorem emitter_accepts_parser_events : forall ts fuel evs canon allow_uni ind width lb,
  map kind evs = map pkind (map ParseL.e_kind (fst (ParseL.parse_loop fuel [] (ParseL.pinit ts)))) ->
  fine (snd (emit_all evs (init canon allow_uni ind width lb))).
Proof.
  intros ts fuel evs canon au ind width lb E. destruct (parser_events_grammatical ts fuel) as [(g & Hv) _].
  rewrite grun_krun, <- E in Hv. eapply emitter_accepts_the_event_grammar, Hv.
Qed.


(* non-vacuity: the hypothesis matters - a stream outside the grammar is rejected for its structure - and content can still be rejected *)
Example structure_and_content :
  let s0 := init false false None None [10%N] in
  (match snd (emit_all [EStreamStart; ESeqEnd] s0) with EmitErr c _ => content c = false | _ => False end) /\
  krun [GInit] (map kind [EStreamStart; EDocStart false None []; EAlias None]) <> None /\
  (match snd (emit_all [EStreamStart; EDocStart false None []; EAlias None; EDocEnd false] s0) with EmitErr c _ => content c = true | _ => False end).
Proof. vm_compute. repeat split; try reflexivity. discriminate. Qed.
