(* C01/C06: the C back-end classes share constructor classes and effective tables with their Python counterparts *)
From Coq Require Import List String Ascii Bool Arith.
Import ListNotations.
Require Import Registry GenHistory CallGraph GenCalls Dispatch Confinement ConfineLemmas.
Open Scope string_scope.

(* C back-end loaders share the constructor classes of their Python counterparts ("Constructor" is an empty alias subclass of
   UnsafeConstructor: it defines no method and owns no table) *)
Definition ctor_part (c : cls) : list cls := filter (fun x => in_s x ["BaseConstructor"; "SafeConstructor"; "FullConstructor"; "UnsafeConstructor"]) (mro_of w0 c).
Lemma l_c_loaders_share_constructors :
  ctor_part "CSafeLoader" = ctor_part "SafeLoader" /\ ctor_part "CBaseLoader" = ctor_part "BaseLoader" /\
  ctor_part "CFullLoader" = ctor_part "FullLoader" /\ ctor_part "CUnsafeLoader" = ctor_part "UnsafeLoader" /\ ctor_part "CLoader" = ctor_part "Loader" /\
  forallb (fun x => negb (String.eqb (fst (fst x)) "Constructor")) methods = true /\
  forallb (fun k => match own_of "Constructor" k (own w0) with None => true | Some _ => false end) [KCtor; KMultiCtor] = true.
Proof. vm_compute. repeat split; reflexivity. Qed.

(* every effective registry table of a C class equals its Python counterpart's (C06) *)
Fixpoint strs_eqb (a b : list string) : bool := match a, b with [], [] => true | x :: a', y :: b' => String.eqb x y && strs_eqb a' b' | _, _ => false end.
Fixpoint table_eqb (a b : table) : bool :=
  match a, b with [], [] => true | (k1, v1) :: a', (k2, v2) :: b' => key_eqb k1 k2 && strs_eqb v1 v2 && table_eqb a' b' | _, _ => false end.
Definition same_tables (a b : cls) : bool :=
  forallb (fun k => table_eqb (effective w0 a k) (effective w0 b k)) [KCtor; KMultiCtor; KRepr; KMultiRepr; KImplicit; KPath].
Definition c_pairs : list (cls * cls) :=
  [("CBaseLoader", "BaseLoader"); ("CSafeLoader", "SafeLoader"); ("CFullLoader", "FullLoader"); ("CUnsafeLoader", "UnsafeLoader"); ("CLoader", "Loader");
   ("CBaseDumper", "BaseDumper"); ("CSafeDumper", "SafeDumper"); ("CDumper", "Dumper")].
Lemma l_c_classes_same_tables : forallb (fun p => same_tables (fst p) (snd p)) c_pairs = true.
Proof. vm_compute. reflexivity. Qed.

