(* C03: the marks of every ScannerError lie inside the buffer (the input and its final NUL). *)
From Coq Require Import List NArith ZArith Bool Arith Lia.
Import ListNotations.
Require Import Scan ScanMarksGen.

Lemma km_fill LEN : forall fuel, keepsM LEN (fill fuel).
Proof.
  induction fuel as [|f IH]; [intros s H; exact I|]. cbn [fill]. apply km_bind; [apply km_need_more_tokens|]. intros b.
  destruct b; [|apply km_ret]. apply km_bind; [apply km_fetch_more_tokens|]. intros _. exact IH.
Qed.
Lemma scan_loop_marks LEN : forall fuel acc s toks c code pm, P LEN s -> scan_loop fuel acc s = (toks, ScanErr c code pm) -> E LEN c pm.
Proof.
  induction fuel as [|f IH]; intros acc s toks c code pm Hs H; [discriminate H|].
  cbn [scan_loop] in H. pose proof (km_fill LEN (S (S (length (rest s)))) s Hs) as H1.
  destruct (fill (S (S (length (rest s)))) s) as [[[] s1]|c1 code1 p1|?|]; try discriminate; [|injection H as _ <- _ <-; exact H1].
  destruct (tokens s1) as [|t1 ts1]; [discriminate|].
  pose proof (km_fill LEN (S (S (length (rest s1)))) s1 H1) as H2.
  destruct (fill (S (S (length (rest s1)))) s1) as [[[] s2]|c2 code2 p2|?|]; try discriminate; [|injection H as _ <- _ <-; exact H2].
  destruct (tokens s2) as [|t2 ts2]; [discriminate|]. eapply IH; [|exact H]. exact H2.
Qed.
(* EVERY text: when the scan ends with a ScannerError, the position it reports - and the position of its context, if any - is an index into the buffer *)
Theorem error_marks_inside_the_buffer : forall text toks c code pm, scan_all text = (toks, ScanErr c code pm) ->
  m_index pm <= length text + 1 /\ match c with Some cm => m_index cm <= length text + 1 | None => True end.
Proof.
  intros text toks c code pm H. unfold scan_all in H. apply (scan_loop_marks (length text) _ _ _ _ _ _ _) in H; [exact H|].
  split; [cbn; rewrite app_length; cbn; lia|constructor].
Qed.
