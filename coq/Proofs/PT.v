(* Spike: parser never crashes on a well-delimited token list (C03/C09 `parser_total`, safety half). *)
From Coq Require Import List NArith ZArith Bool Arith Lia.
Import ListNotations.
Require Import Scan ParseL.

Definition is_se (t : token) : bool := match t_kind t with TStreamEnd => true | _ => false end.
Definition toks_ok (l : list token) : Prop :=
  exists init lst, l = init ++ [lst] /\ is_se lst = true /\ forallb (fun t => negb (is_se t)) init = true.

Lemma toks_ok_cons l : toks_ok l -> exists t r, l = t :: r.
Proof. intros (i & x & -> & _). destruct i; simpl; eauto. Qed.
Lemma toks_ok_tail t r : toks_ok (t :: r) -> is_se t = false -> toks_ok r.
Proof.
  intros (i & x & E & Hx & Hi) Ht. destruct i as [|y i]; simpl in E; injection E as -> ->.
  - congruence.
  - simpl in Hi. apply andb_prop in Hi as [_ Hi]. exists i, x. auto.
Qed.
Lemma toks_ok_se t r : toks_ok (t :: r) -> is_se t = true -> r = [].
Proof.
  intros (i & x & E & Hx & Hi) Ht. destruct i as [|y i]; simpl in E; injection E as -> ->; auto.
  simpl in Hi. rewrite Ht in Hi. discriminate.
Qed.

Definition w_stack (p : pstate) : nat :=
  match p with PBlockSeqEntry | PBlockMapKey | PBlockMapValue | PFlowSeqEntry | PFlowSeqEntryMapValue | PFlowSeqEntryMapEnd
             | PFlowMapKey | PFlowMapValue | PFlowMapEmptyValue => 1 | _ => 0 end.
Definition w_state (p : pstate) : nat :=
  match p with PFlowSeqEntryMapKey => 1 | _ => w_stack p end.
Definition outside (p : pstate) : bool :=
  match p with PStreamStart | PImplicitDocStart | PDocStart | PDocEnd => true | _ => false end.
Definition weight (l : list pstate) : nat := fold_right (fun p n => w_stack p + n) 0 l.

Definition stack_ok (p : pstate) (stk : list pstate) : Prop :=
  if outside p then stk = [] else exists xs, stk = PDocEnd :: xs /\ ~ In PDocEnd xs.

Definition Inv (s : pst) : Prop :=
  match pstate_ s with
  | None => True
  | Some p => toks_ok (toks s) /\ (exists l, pstates s = rev l /\
                (if outside p then l = [] else exists ys, l = ys ++ [PDocEnd] /\ ~ In PDocEnd ys) /\
                exists ms, pmarks s = rev ms /\ length ms = w_state p + weight l)
  end.

(* outcome of one parser step is never a crash and keeps the invariant *)
Definition safe_step (s : pst) : Prop :=
  match step s with
  | Ok (_, s') => Inv s'
  | ScanErr _ _ _ => True
  | Crash _ => False
  | OutOfFuel => False
  end.

(* ---------- token primitives on a known head ---------- *)
Lemma check_cons p s t r : toks s = t :: r -> check p s = Ok (p (t_kind t), s).
Proof. intros H. unfold check, pbind, peek_token. rewrite H. reflexivity. Qed.
Lemma peek_tok_cons s t r : toks s = t :: r -> peek_tok s = Ok (t, s).
Proof. intros H. unfold peek_tok, pbind, peek_token. rewrite H. reflexivity. Qed.
Definition drop1 (s : pst) (r : list token) : pst :=
  {| toks := r; pstate_ := pstate_ s; pstates := pstates s; pmarks := pmarks s; handles := handles s; version_ := version_ s |}.
Lemma get_tok_cons s t r : toks s = t :: r -> get_tok s = Ok (t, drop1 s r).
Proof. intros H. unfold get_tok, pbind, get_token. rewrite H. reflexivity. Qed.
Lemma pbind_ok {A B} (m : P A) (k : A -> P B) s a s1 : m s = Ok (a, s1) -> pbind m k s = k a s1.
Proof. intros H. unfold pbind. rewrite H. reflexivity. Qed.

(* states are handled by destructing the record so that `cbn` can run the step function *)
Definition Inv0 (s : pst) : Prop :=          (* before STREAM-START is consumed *)
  pstate_ s = Some PStreamStart /\ pstates s = [] /\ pmarks s = [] /\ exists t r, toks s = t :: r /\ t_kind t = TStreamStart /\ toks_ok r.

Lemma step_stream_start s : Inv0 s -> safe_step s.
Proof.
  destruct s as [tk ps stk mk h v]. intros (Hp & Hs & Hm & t & r & E & Hk & Hr). simpl in *. subst.
  destruct t as [k a b]. simpl in Hk. subst k.
  unfold safe_step. cbn. unfold Inv. cbn. split; auto. exists []. repeat split; auto. exists []. auto.
Qed.

(* invariant with the stack written top-first (the model keeps the top at the end of the list) *)
Definition stack_ok' (p : pstate) (l : list pstate) : Prop :=      (* l = rev (pstates s) *)
  if outside p then l = [] else exists ys, l = ys ++ [PDocEnd] /\ ~ In PDocEnd ys.
Lemma fold_w_add l : forall a n, fold_right (fun p n => w_stack p + n) (a + n) l = a + fold_right (fun p n => w_stack p + n) n l.
Proof. induction l as [|p l IH]; intros a n; simpl; auto. rewrite IH. lia. Qed.
Lemma weight_app l1 l2 : weight (l1 ++ l2) = weight l1 + weight l2.
Proof. unfold weight. induction l1 as [|p l1 IH]; simpl; auto. rewrite IH. lia. Qed.
Lemma weight_rev l : weight (rev l) = weight l.
Proof. induction l as [|p l IH]; simpl; auto. rewrite weight_app, IH. unfold weight at 2. simpl. unfold weight. simpl. lia. Qed.

Ltac tok_of Ht t r := destruct (toks_ok_cons _ Ht) as (t & r & ->).
Ltac next_of Ht K H' := match type of Ht with toks_ok (?t :: ?r) =>
  assert (H' : toks_ok r) by (apply (toks_ok_tail t r Ht); unfold is_se; rewrite K; reflexivity) end.

Ltac run := cbv beta iota zeta delta
  [safe_step step pbind pret pget check peek_tok get_tok peek_token get_token set_ps push_ps pop_ps push_mark pop_mark top_mark
   set_handles perr pcrash hd_error is_ any_of existsb is_alias is_anchor is_tag is_scalar is_directive orb andb negb
   empty_scalar ParseL.mk fst snd toks pstate_ pstates pmarks handles version_ parse_node parse_document_start process_directives].

Ltac start s t r := destruct s as [tk ps stk mk h v]; intros Hp HI; unfold Inv in HI; simpl in *; subst;
  destruct HI as (Ht & l & -> & Hs & ms & -> & Hm); tok_of Ht t r; simpl in Hs.
Ltac fin l ms := unfold Inv; simpl; split; [auto|exists l; split; [try reflexivity|split; [auto|exists ms; split; [try reflexivity|auto]]]].

Lemma step_doc_end s : pstate_ s = Some PDocEnd -> Inv s -> safe_step s.
Proof.
  start s t r. subst l. destruct ms; [|simpl in Hm; lia].
  run. destruct (t_kind t) eqn:K; run; fin (@nil pstate) (@nil mark).
  next_of Ht K H'. exact H'.
Qed.

(* ---------- parse_node: the shared node-parsing routine ---------- *)
Definition pushed_ok (X : pstate) (l0 : list pstate) : Prop :=
  (X = PDocEnd /\ l0 = []) \/
  (In X [PBlockSeqEntry; PIndentlessSeqEntry; PBlockMapValue; PBlockMapKey; PFlowSeqEntry; PFlowSeqEntryMapValue;
         PFlowSeqEntryMapEnd; PFlowMapValue; PFlowMapKey; PFlowMapEmptyValue] /\ exists ys, l0 = ys ++ [PDocEnd] /\ ~ In PDocEnd ys).

Definition node_post (r : res (event * pst)) : Prop :=
  match r with Ok (_, s') => Inv s' | ScanErr _ _ _ => True | _ => False end.

Lemma inv_popped tk X l0 ms h v : toks_ok tk -> pushed_ok X l0 -> length ms = weight (X :: l0) ->
  Inv {| toks := tk; pstate_ := Some X; pstates := rev l0; pmarks := rev ms; handles := h; version_ := v |}.
Proof.
  intros Ht Hp Hm. unfold Inv. simpl. split; auto. exists l0. split; auto. split.
  - destruct Hp as [(-> & ->)|(Hin & ys & -> & Hn)]; simpl; auto.
    simpl in Hin. repeat (destruct Hin as [<-|Hin]; [simpl; eauto|]). destruct Hin.
  - exists ms. split; auto. rewrite Hm. unfold weight. simpl.
    destruct Hp as [(-> & ->)|(Hin & _)]; simpl; auto.
    simpl in Hin. repeat (destruct Hin as [<-|Hin]; [reflexivity|]). destruct Hin.
Qed.
Lemma inv_first tk p X l0 ms h v : toks_ok tk -> pushed_ok X l0 -> length ms = weight (X :: l0) ->
  In p [PIndentlessSeqEntry; PFlowSeqFirst; PFlowMapFirstKey; PBlockSeqFirst; PBlockMapFirstKey] ->
  Inv {| toks := tk; pstate_ := Some p; pstates := rev (X :: l0); pmarks := rev ms; handles := h; version_ := v |}.
Proof.
  intros Ht Hp Hm Hin. unfold Inv. cbn [pstate_ toks pstates pmarks]. split; auto. exists (X :: l0). split; auto. split.
  - assert (outside p = false) by (simpl in Hin; repeat (destruct Hin as [<-|Hin]; [reflexivity|]); destruct Hin).
    rewrite H. destruct Hp as [(-> & ->)|(HX & ys & -> & Hn)].
    + exists []. simpl. auto.
    + exists (X :: ys). split; auto. intros [E|E]; [|auto]. subst X. simpl in HX. repeat (destruct HX as [HX|HX]; [discriminate|]). destruct HX.
  - exists ms. split; auto. rewrite Hm.
    assert (w_state p = 0) by (simpl in Hin; repeat (destruct Hin as [<-|Hin]; [reflexivity|]); destruct Hin). lia.
Qed.

(* parse_node itself is not attempted here: unfolding the monolithic transcription with `cbv` duplicates the
   continuations and explodes; the framework splits it into properties / tag resolution / content stages. *)
