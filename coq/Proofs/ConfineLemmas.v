(* C01 / C04: confinement theorems over the regenerated registry tables (GenHistory) and call graph (GenCalls). *)
From Coq Require Import List String Ascii Bool Arith.
Import ListNotations.
Require Import Registry GenHistory CallGraph GenCalls Dispatch Confinement.
Open Scope string_scope.

(* ---------- string prefix algebra ---------- *)
Lemma prefix_app p s : String.prefix p (p ++ s) = true.
Proof. induction p as [|a p IH]; simpl; [destruct s; reflexivity|]. destruct (ascii_dec a a); [exact IH|contradiction]. Qed.
(* q and p are incomparable: neither is a prefix of the other *)
Fixpoint incomparable (q p : string) : bool :=
  match q, p with
  | String a q', String b p' => if Ascii.eqb a b then incomparable q' p' else true
  | _, _ => false
  end.
Lemma incomparable_no_prefix q : forall p s, incomparable q p = true -> String.prefix q (p ++ s) = false.
Proof.
  induction q as [|a q IH]; intros p s H; [destruct p; discriminate|].
  destruct p as [|b p]; [discriminate|]. simpl in *.
  destruct (Ascii.eqb_spec a b) as [->|Hne].
  - destruct (ascii_dec b b); [|contradiction]. apply IH; auto.
  - destruct (ascii_dec a b); [contradiction|reflexivity].
Qed.
Lemma no_prefix_neq p k s : String.prefix p k = false -> k <> p ++ s.
Proof. intros H ->. rewrite prefix_app in H. discriminate. Qed.

(* ---------- dispatch facts ---------- *)
Lemma lookup_none_notin k tb : forallb (fun kv => negb (key_eqb k (fst kv))) tb = true -> lookup k tb = None.
Proof.
  induction tb as [|[k1 v] r IH]; simpl; intros H; auto. apply andb_prop in H as [H1 H2].
  apply negb_true_iff in H1. rewrite H1. auto.
Qed.
Lemma lookup_some_key_in k tb m : lookup k tb = Some m -> existsb (fun kv => key_eqb k (fst kv)) tb = true.
Proof.
  induction tb as [|[k1 v] r IH]; simpl; [discriminate|]. destruct (key_eqb k k1); simpl; auto.
Qed.
Definition keys_avoid_prefix (p : string) (tb : table) : bool :=          (* no exact key starts with p *)
  forallb (fun kv => match fst kv with Some k => negb (String.prefix p k) | None => true end) tb.
Lemma lookup_prefixed_none p s tb : keys_avoid_prefix p tb = true -> lookup (Some (p ++ s)) tb = None.
Proof.
  induction tb as [|[k1 v] r IH]; simpl; intros H; auto. apply andb_prop in H as [H1 H2]. simpl in H1.
  destruct k1 as [k1|]; simpl.
  - apply negb_true_iff in H1. destruct (String.eqb_spec (p ++ s) k1) as [E|E]; [|auto].
    exfalso. subst k1. rewrite prefix_app in H1. discriminate.
  - auto.
Qed.
Definition multi_incomparable (p : string) (tb : table) : bool :=
  forallb (fun kv => match fst kv with Some q => incomparable q p | None => true end) tb.
Lemma multi_scan_prefixed_none p s tb : multi_incomparable p tb = true -> multi_scan (p ++ s) tb = None.
Proof.
  induction tb as [|[k1 v] r IH]; simpl; intros H; auto. apply andb_prop in H as [H1 H2]. simpl in H1.
  destruct k1 as [q|]; [|auto]. destruct v as [|m v]; [auto|].
  rewrite (incomparable_no_prefix q p s H1). auto.
Qed.

(* ---------- C01: the safe loaders ---------- *)
Definition safe_loader_classes : list cls := ["SafeLoader"; "CSafeLoader"].
Definition base_loader_classes : list cls := ["BaseLoader"; "CBaseLoader"].
Definition UNDEF := "SafeConstructor.construct_undefined".

Fixpoint keys_eqb (a b : list key) : bool :=
  match a, b with [], [] => true | x :: a', y :: b' => key_eqb x y && keys_eqb a' b' | _, _ => false end.
Lemma key_eqb_eq a b : key_eqb a b = true -> a = b.
Proof. destruct a, b; simpl; try discriminate; auto. intros H. apply String.eqb_eq in H. subst. reflexivity. Qed.
Lemma lookup_none_keys tb : forall ks k, keys_eqb (keys_of tb) ks = true -> existsb (key_eqb k) ks = false -> lookup k tb = None.
Proof.
  induction tb as [|[k1 v] r IH]; intros ks k H1 H2; simpl; auto.
  destruct ks as [|k2 ks]; simpl in H1; [discriminate|]. apply andb_prop in H1 as [E H1]. apply key_eqb_eq in E. subst k2.
  simpl in H2. apply orb_false_elim in H2 as [H2 H3]. rewrite H2. eapply IH; eauto.
Qed.
Lemma not_in_list tag l : ~ In tag l -> existsb (key_eqb (Some tag)) (map Some l ++ [None]) = false.
Proof.
  intros H. rewrite existsb_app. simpl.
  induction l as [|t l IH]; simpl; auto. simpl in H.
  destruct (String.eqb_spec tag t) as [->|Hne]; [exfalso; auto|]. simpl. apply IH. auto.
Qed.
Lemma not_in_core tag : ~ In tag core_tags -> existsb (key_eqb (Some tag)) (map Some core_tags ++ [None]) = false.
Proof. apply not_in_list. Qed.

(* regenerated facts about the effective tables of the safe / base / full classes, as named boolean predicates *)
Definition safe_tables_ok (c : cls) : bool :=
  keys_eqb (keys_of (effective w0 c KCtor)) (map Some core_tags ++ [None]) &&
  (match effective w0 c KMultiCtor with [] => true | _ => false end &&
   match lookup None (effective w0 c KCtor) with Some m => String.eqb m UNDEF | None => false end).
Lemma safe_tables_all_ok : forallb safe_tables_ok safe_loader_classes = true.
Proof. vm_compute. reflexivity. Qed.
Lemma safe_tables_spec c : safe_tables_ok c = true ->
  keys_eqb (keys_of (effective w0 c KCtor)) (map Some core_tags ++ [None]) = true /\
  effective w0 c KMultiCtor = [] /\ lookup None (effective w0 c KCtor) = Some UNDEF.
Proof.
  unfold safe_tables_ok. intros H. apply andb_prop in H as [H1 H]. apply andb_prop in H as [H2 H3].
  split; [exact H1|]. split.
  - destruct (effective w0 c KMultiCtor); [reflexivity|discriminate].
  - destruct (lookup None (effective w0 c KCtor)) as [m|]; [|discriminate]. apply String.eqb_eq in H3. subst. reflexivity.
Qed.

Lemma l_safe_dispatch_closed : forall c tag kd, In c safe_loader_classes -> ~ In tag core_tags -> dispatch_of w0 c tag kd = UNDEF.
Proof.
  intros c tag kd Hc Ht.
  pose proof (proj1 (forallb_forall safe_tables_ok _) safe_tables_all_ok c Hc) as Hok.
  destruct (safe_tables_spec c Hok) as (Hk & Hm & Hn).
  unfold dispatch_of, dispatch. rewrite (lookup_none_keys _ _ _ Hk (not_in_core tag Ht)). rewrite Hm. cbn [multi_scan lookup]. rewrite Hn. reflexivity.
Qed.

Definition base_tables_ok (c : cls) : bool :=
  match effective w0 c KCtor with [] => true | _ => false end && match effective w0 c KMultiCtor with [] => true | _ => false end.
Lemma base_tables_all_ok : forallb base_tables_ok base_loader_classes = true.
Proof. vm_compute. reflexivity. Qed.
Lemma base_tables_spec c : base_tables_ok c = true -> effective w0 c KCtor = [] /\ effective w0 c KMultiCtor = [].
Proof.
  unfold base_tables_ok. intros H. apply andb_prop in H as [H1 H2]. split.
  - destruct (effective w0 c KCtor); [reflexivity|discriminate].
  - destruct (effective w0 c KMultiCtor); [reflexivity|discriminate].
Qed.
Lemma l_base_dispatch_default : forall c tag kd, In c base_loader_classes -> dispatch_of w0 c tag kd = kd.
Proof.
  intros c tag kd Hc. pose proof (proj1 (forallb_forall base_tables_ok _) base_tables_all_ok c Hc) as Hok.
  destruct (base_tables_spec c Hok) as [E1 E2]. unfold dispatch_of. rewrite E1, E2. reflexivity.
Qed.

(* ---------- C04: the full loaders ---------- *)
Definition full_loader_classes : list cls := ["FullLoader"; "CFullLoader"].
Definition full_tables_ok (c : cls) : bool :=
  forallb (fun p => keys_avoid_prefix p (effective w0 c KCtor) && multi_incomparable p (effective w0 c KMultiCtor)) object_prefixes &&
  (match lookup None (effective w0 c KMultiCtor) with None => true | Some _ => false end &&
   match lookup None (effective w0 c KCtor) with Some m => String.eqb m UNDEF | None => false end).
Lemma full_tables_all_ok : forallb full_tables_ok full_loader_classes = true.
Proof. vm_compute. reflexivity. Qed.
Lemma full_tables_spec c : full_tables_ok c = true ->
  (forall p, In p object_prefixes -> keys_avoid_prefix p (effective w0 c KCtor) = true /\ multi_incomparable p (effective w0 c KMultiCtor) = true) /\
  lookup None (effective w0 c KMultiCtor) = None /\ lookup None (effective w0 c KCtor) = Some UNDEF.
Proof.
  unfold full_tables_ok. intros H. apply andb_prop in H as [H1 H]. apply andb_prop in H as [H2 H3]. split; [|split].
  - intros p Hp. pose proof (proj1 (forallb_forall _ _) H1 p Hp) as Hq. cbv beta in Hq. apply andb_prop in Hq. exact Hq.
  - destruct (lookup None (effective w0 c KMultiCtor)); [discriminate|reflexivity].
  - destruct (lookup None (effective w0 c KCtor)) as [m|]; [|discriminate]. apply String.eqb_eq in H3. subst. reflexivity.
Qed.
Lemma l_object_tags_rejected : forall c p suffix kd, In c full_loader_classes -> In p object_prefixes ->
  dispatch_of w0 c (p ++ suffix) kd = UNDEF.
Proof.
  intros c p suffix kd Hc Hp.
  pose proof (proj1 (forallb_forall full_tables_ok _) full_tables_all_ok c Hc) as Hok.
  destruct (full_tables_spec c Hok) as (H1 & H2 & H3). destruct (H1 p Hp) as [Ha Hb].
  unfold dispatch_of, dispatch.
  rewrite (lookup_prefixed_none p suffix _ Ha). rewrite (multi_scan_prefixed_none p suffix _ Hb). rewrite H2, H3. reflexivity.
Qed.

(* the four instantiating multi-constructors are registered exactly on the unsafe classes *)
Definition has_instantiating (c : cls) : bool :=
  existsb (fun m => in_s m instantiating_multi) (List.concat (map snd (effective w0 c KMultiCtor))).
Definition unsafe_classes : list cls := ["UnsafeConstructor"; "Constructor"; "UnsafeLoader"; "Loader"; "CUnsafeLoader"; "CLoader"].
Lemma l_unsafe_only_on_unsafe : forallb (fun c => Bool.eqb (has_instantiating c) (in_s c unsafe_classes)) shipped_classes = true.
Proof. vm_compute. reflexivity. Qed.

(* ---------- call-graph closure ---------- *)
Definition safe_closure_ok (c : cls) : bool := confined safe_leaf_ok safe_method_ok (reach w0 methods c true).
Lemma l_safe_closure_confined : forallb safe_closure_ok (safe_loader_classes ++ base_loader_classes) = true.
Proof. vm_compute. reflexivity. Qed.
Definition full_closure_ok (c : cls) : bool := confined full_leaf_ok full_method_ok (reach w0 methods c false).
Lemma l_full_closure_confined : forallb full_closure_ok full_loader_classes = true.
Proof. vm_compute. reflexivity. Qed.
(* not idle: the unsafe loader does reach the instantiating code *)
Lemma l_unsafe_closure_not_confined : confined full_leaf_ok full_method_ok (reach w0 methods "UnsafeLoader" false) = false.
Proof. vm_compute. reflexivity. Qed.

(* C back-end loaders share the constructor classes of their Python counterparts ("Constructor" is an empty alias subclass of
   UnsafeConstructor: it defines no method and owns no table) *)
Definition ctor_part (c : cls) : list cls := filter (fun x => in_s x ["BaseConstructor"; "SafeConstructor"; "FullConstructor"; "UnsafeConstructor"]) (mro_of w0 c).
Lemma l_c_loaders_share_constructors :
  ctor_part "CSafeLoader" = ctor_part "SafeLoader" /\ ctor_part "CBaseLoader" = ctor_part "BaseLoader" /\
  ctor_part "CFullLoader" = ctor_part "FullLoader" /\ ctor_part "CUnsafeLoader" = ctor_part "UnsafeLoader" /\ ctor_part "CLoader" = ctor_part "Loader" /\
  forallb (fun x => negb (String.eqb (fst (fst x)) "Constructor")) methods = true /\
  forallb (fun k => match own_of "Constructor" k (own w0) with None => true | Some _ => false end) [KCtor; KMultiCtor] = true.
Proof. vm_compute. repeat split; reflexivity. Qed.

(* every effective registry table of a C class equals its Python counterpart's (C06) *)
Fixpoint strs_eqb (a b : list string) : bool := match a, b with [], [] => true | x :: a', y :: b' => String.eqb x y && strs_eqb a' b' | _, _ => false end.
Fixpoint table_eqb (a b : table) : bool :=
  match a, b with [], [] => true | (k1, v1) :: a', (k2, v2) :: b' => key_eqb k1 k2 && strs_eqb v1 v2 && table_eqb a' b' | _, _ => false end.
Definition same_tables (a b : cls) : bool :=
  forallb (fun k => table_eqb (effective w0 a k) (effective w0 b k)) [KCtor; KMultiCtor; KRepr; KMultiRepr; KImplicit; KPath].
Definition c_pairs : list (cls * cls) :=
  [("CBaseLoader", "BaseLoader"); ("CSafeLoader", "SafeLoader"); ("CFullLoader", "FullLoader"); ("CUnsafeLoader", "UnsafeLoader"); ("CLoader", "Loader");
   ("CBaseDumper", "BaseDumper"); ("CSafeDumper", "SafeDumper"); ("CDumper", "Dumper")].
Lemma l_c_classes_same_tables : forallb (fun p => same_tables (fst p) (snd p)) c_pairs = true.
Proof. vm_compute. reflexivity. Qed.
