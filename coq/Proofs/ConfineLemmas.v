(* C01 / C04: confinement theorems over the regenerated registry tables (GenHistory) and call graph (GenCalls). *)
From Coq Require Import List String Ascii Bool Arith.
Import ListNotations.
Require Import Registry GenHistory CallGraph GenCalls Dispatch Confinement.
Open Scope string_scope.

(* ---------- string prefix algebra ---------- *)
Lemma prefix_app p s : String.prefix p (p ++ s) = true.
Proof. induction p as [|a p IH]; simpl; [destruct s; reflexivity|]. destruct (ascii_dec a a); [exact IH|contradiction]. Qed.
(* q and p are incomparable: neither is a prefix of the other *)
Fixpoint incomparable (q p : string) : bool :=
  match q, p with
  | String a q', String b p' => if Ascii.eqb a b then incomparable q' p' else true
  | _, _ => false
  end.
Lemma incomparable_no_prefix q : forall p s, incomparable q p = true -> String.prefix q (p ++ s) = false.
Proof.
  induction q as [|a q IH]; intros p s H; [destruct p; discriminate|].
  destruct p as [|b p]; [discriminate|]. simpl in *.
  destruct (Ascii.eqb_spec a b) as [->|Hne].
  - destruct (ascii_dec b b); [|contradiction]. apply IH; auto.
  - destruct (ascii_dec a b); [contradiction|reflexivity].
Qed.
Lemma no_prefix_neq p k s : String.prefix p k = false -> k <> p ++ s.
Proof. intros H ->. rewrite prefix_app in H. discriminate. Qed.

(* ---------- dispatch facts ---------- *)
Lemma lookup_none_notin k tb : forallb (fun kv => negb (key_eqb k (fst kv))) tb = true -> lookup k tb = None.
Proof.
  induction tb as [|[k1 v] r IH]; simpl; intros H; auto. apply andb_prop in H as [H1 H2].
  apply negb_true_iff in H1. rewrite H1. auto.
Qed.
Lemma lookup_some_key_in k tb m : lookup k tb = Some m -> existsb (fun kv => key_eqb k (fst kv)) tb = true.
Proof.
  induction tb as [|[k1 v] r IH]; simpl; [discriminate|]. destruct (key_eqb k k1); simpl; auto.
Qed.
Definition keys_avoid_prefix (p : string) (tb : table) : bool :=          (* no exact key starts with p *)
  forallb (fun kv => match fst kv with Some k => negb (String.prefix p k) | None => true end) tb.
Lemma lookup_prefixed_none p s tb : keys_avoid_prefix p tb = true -> lookup (Some (p ++ s)) tb = None.
Proof.
  induction tb as [|[k1 v] r IH]; simpl; intros H; auto. apply andb_prop in H as [H1 H2]. simpl in H1.
  destruct k1 as [k1|]; simpl.
  - apply negb_true_iff in H1. destruct (String.eqb_spec (p ++ s) k1) as [E|E]; [|auto].
    exfalso. subst k1. rewrite prefix_app in H1. discriminate.
  - auto.
Qed.
Definition multi_incomparable (p : string) (tb : table) : bool :=
  forallb (fun kv => match fst kv with Some q => incomparable q p | None => true end) tb.
Lemma multi_scan_prefixed_none p s tb : multi_incomparable p tb = true -> multi_scan (p ++ s) tb = None.
Proof.
  induction tb as [|[k1 v] r IH]; simpl; intros H; auto. apply andb_prop in H as [H1 H2]. simpl in H1.
  destruct k1 as [q|]; [|auto]. destruct v as [|m v]; [auto|].
  rewrite (incomparable_no_prefix q p s H1). auto.
Qed.

(* ---------- C01: the safe loaders ---------- *)
Definition safe_loader_classes : list cls := ["SafeLoader"; "CSafeLoader"].
Definition base_loader_classes : list cls := ["BaseLoader"; "CBaseLoader"].
Definition UNDEF := "SafeConstructor.construct_undefined".

Fixpoint keys_eqb (a b : list key) : bool :=
  match a, b with [], [] => true | x :: a', y :: b' => key_eqb x y && keys_eqb a' b' | _, _ => false end.
Lemma key_eqb_eq a b : key_eqb a b = true -> a = b.
Proof. destruct a, b; simpl; try discriminate; auto. intros H. apply String.eqb_eq in H. subst. reflexivity. Qed.
Lemma lookup_none_keys tb : forall ks k, keys_eqb (keys_of tb) ks = true -> existsb (key_eqb k) ks = false -> lookup k tb = None.
Proof.
  induction tb as [|[k1 v] r IH]; intros ks k H1 H2; simpl; auto.
  destruct ks as [|k2 ks]; simpl in H1; [discriminate|]. apply andb_prop in H1 as [E H1]. apply key_eqb_eq in E. subst k2.
  simpl in H2. apply orb_false_elim in H2 as [H2 H3]. rewrite H2. eapply IH; eauto.
Qed.
Lemma not_in_list tag l : ~ In tag l -> existsb (key_eqb (Some tag)) (map Some l ++ [None]) = false.
Proof.
  intros H. rewrite existsb_app. simpl.
  induction l as [|t l IH]; simpl; auto. simpl in H.
  destruct (String.eqb_spec tag t) as [->|Hne]; [exfalso; auto|]. simpl. apply IH. auto.
Qed.
Lemma not_in_core tag : ~ In tag core_tags -> existsb (key_eqb (Some tag)) (map Some core_tags ++ [None]) = false.
Proof. apply not_in_list. Qed.

