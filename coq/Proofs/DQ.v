(* Spike: double-quoted round trip (escaping, no folding) against the validated scanner model. *)
From Coq Require Import List NArith ZArith Bool Arith Lia.
Import ListNotations.
Require Import Scan Pos.
Arguments mem : simpl never.

(* ---------- monad plumbing ---------- *)
Lemma bind_ok {A B} (m : M A) (k : A -> M B) s a s1 : m s = Ok (a, s1) -> bind m k s = k a s1.
Proof. intros H. unfold bind. rewrite H. reflexivity. Qed.
Lemma with_fuel_eq {A} (k : nat -> M A) s : with_fuel k s = k (fuel_of s) s.
Proof. reflexivity. Qed.
Lemma peek_ok s i c : nth_error (rest s) i = Some c -> peek i s = Ok (c, s).
Proof. intros H. unfold peek. rewrite H. reflexivity. Qed.
Lemma prefix_ok s n : prefix n s = Ok (firstn n (rest s), s).
Proof. reflexivity. Qed.

(* span over a run of characters satisfying p, stopped by x *)
Lemma span_spec p : forall run fuel n s pre x r,
  rest s = pre ++ run ++ x :: r -> length pre = n -> forallb p run = true -> p x = false ->
  length run < fuel -> span fuel p n s = Ok (n + length run, s).
Proof.
  induction run as [|c run IH]; intros fuel n s pre x r Hr Hn Hp Hx Hf.
  - destruct fuel; [simpl in Hf; lia|]. simpl.
    rewrite (bind_ok _ _ s x s).
    + rewrite Hx. unfold ret. rewrite Nat.add_0_r. reflexivity.
    + apply peek_ok. rewrite Hr. simpl. rewrite nth_error_app2 by lia. rewrite Hn, Nat.sub_diag. reflexivity.
  - destruct fuel; [simpl in Hf; lia|]. simpl in Hp. apply andb_prop in Hp as [Hc Hp]. simpl.
    rewrite (bind_ok _ _ s c s).
    + rewrite Hc. rewrite (IH fuel (S n) s (pre ++ [c]) x r); auto.
      * f_equal. f_equal. simpl. lia.
      * rewrite Hr. rewrite <- app_assoc. reflexivity.
      * rewrite app_length. simpl. lia.
      * simpl in Hf. lia.
    + apply peek_ok. rewrite Hr. rewrite nth_error_app2 by lia. rewrite Hn, Nat.sub_diag. reflexivity.
Qed.

(* forward over a known prefix: only the buffer matters here *)
Lemma forward_rest n s p x r : rest s = p ++ x :: r -> length p = n -> exists s', forward n s = Ok (tt, s') /\ rest s' = x :: r.
Proof. intros Hr Hl. destruct (forward_spec n s p r x Hr Hl) as (s' & A & B & _). eauto. Qed.

(* ---------- the writer side: escaping as write_double_quoted does with allow_unicode = False ---------- *)
Open Scope N_scope.
Definition hexdigit (n : N) : cp := if n <? 10 then 48 + n else 55 + n.
Definition hex2 (n : N) : str := [hexdigit (n / 16 mod 16); hexdigit (n mod 16)].
Definition hex4 (n : N) : str := hex2 (n / 256) ++ hex2 (n mod 256).
Definition hex8 (n : N) : str := hex4 (n / 65536) ++ hex4 (n mod 65536).
Definition dq_escape (c : cp) : option cp :=
  if c =? 0 then Some 48 else if c =? 7 then Some 97 else if c =? 8 then Some 98 else if c =? 9 then Some 116
  else if c =? 10 then Some 110 else if c =? 11 then Some 118 else if c =? 12 then Some 102 else if c =? 13 then Some 114
  else if c =? 27 then Some 101 else if c =? 34 then Some 34 else if c =? 92 then Some 92 else if c =? 133 then Some 78
  else if c =? 160 then Some 95 else if c =? 8232 then Some 76 else if c =? 8233 then Some 80 else None.
Definition raw_ok (c : cp) : bool := (32 <=? c) && (c <=? 126) && negb (c =? 34) && negb (c =? 92).
Definition enc (c : cp) : str :=
  if raw_ok c then [c] else
  92 :: match dq_escape c with
        | Some x => [x]
        | None => if c <=? 255 then 120 :: hex2 c else if c <=? 65535 then 117 :: hex4 c else 85 :: hex8 c
        end.
Definition body (t : str) : str := flat_map enc t.
Close Scope N_scope.

(* a few facts by computation *)
Lemma escape_inverse c x : dq_escape c = Some x -> escape_replacement x = Some c.
Proof.
  unfold dq_escape. repeat (match goal with |- context [N.eqb c ?k] => destruct (N.eqb_spec c k) end; [intros H; injection H as <-; subst; reflexivity|]).
  discriminate.
Qed.

(* ---------- hex digits ---------- *)
Lemma hexdigit_ok d : (d < 16)%N -> is_hex (hexdigit d) = true /\ hexval (hexdigit d) = d.
Proof.
  intros H.
  assert (C : (d = 0 \/ d = 1 \/ d = 2 \/ d = 3 \/ d = 4 \/ d = 5 \/ d = 6 \/ d = 7 \/ d = 8 \/ d = 9 \/ d = 10 \/ d = 11 \/ d = 12 \/ d = 13 \/ d = 14 \/ d = 15)%N) by lia.
  repeat (destruct C as [->|C]; [split; reflexivity|]). subst. split; reflexivity.
Qed.
Lemma hex2_ok c : (c <= 255)%N -> forallb is_hex (hex2 c) = true /\ hex_value (hex2 c) = c.
Proof.
  intros H. unfold hex2.
  assert (H1 : (c / 16 mod 16 < 16)%N) by (apply N.mod_lt; lia).
  assert (H2 : (c mod 16 < 16)%N) by (apply N.mod_lt; lia).
  destruct (hexdigit_ok _ H1) as [A1 B1]. destruct (hexdigit_ok _ H2) as [A2 B2].
  split.
  - simpl. rewrite A1, A2. reflexivity.
  - unfold hex_value. simpl. rewrite B1, B2.
    assert (c / 16 < 16)%N by (apply N.div_lt_upper_bound; lia).
    rewrite (N.mod_small (c / 16) 16) by assumption.
    pose proof (N.div_mod c 16). lia.
Qed.

(* ---------- characters ---------- *)
Definition span_char (c : cp) : bool := raw_ok c && negb (N.eqb c 32) && negb (N.eqb c 39).
Definition simple (c : cp) : bool := raw_ok c || (match dq_escape c with Some _ => true | None => false end) || (c <=? 255)%N.

Lemma raw_ok_range c : raw_ok c = true -> (32 <= c <= 126 /\ c <> 34 /\ c <> 92)%N.
Proof.
  unfold raw_ok. rewrite !andb_true_iff, !negb_true_iff, !N.leb_le, !N.eqb_neq. tauto.
Qed.
Lemma span_char_not_stop c : span_char c = true -> not_fs_stop c = true.
Proof.
  unfold span_char. rewrite !andb_true_iff, !negb_true_iff, !N.eqb_neq. intros [[H1 H2] H3].
  apply raw_ok_range in H1. unfold not_fs_stop, fs_stop, mem. simpl.
  rewrite negb_true_iff. repeat (rewrite orb_false_iff; split); try reflexivity; apply N.eqb_neq;
    unfold NUL, SP, TAB, CR, LF, NEL, LS, PS; lia.
Qed.
Lemma enc_span c : span_char c = true -> enc c = [c].
Proof. unfold span_char, enc. rewrite !andb_true_iff. intros [[H _] _]. rewrite H. reflexivity. Qed.
Lemma body_run run t : forallb span_char run = true -> body (run ++ t) = run ++ body t.
Proof.
  induction run as [|c run IH]; simpl; intros H; auto.
  apply andb_prop in H as [Hc H]. unfold body in *. simpl. rewrite enc_span by assumption. simpl. f_equal. apply IH; auto.
Qed.
Lemma take_run : forall t, exists run t2, t = run ++ t2 /\ forallb span_char run = true /\
   (t2 = [] \/ exists c t3, t2 = c :: t3 /\ span_char c = false).
Proof.
  induction t as [|c t IH].
  - exists [], []. auto.
  - destruct (span_char c) eqn:E.
    + destruct IH as (run & t2 & A & B & C). exists (c :: run), t2. subst. repeat split; auto. simpl. rewrite E, B. reflexivity.
    + exists [], (c :: t). repeat split; auto. right. eauto.
Qed.
(* first character written for a non-span character *)
Lemma enc_head c : span_char c = false -> exists x r, enc c = x :: r /\ not_fs_stop x = false /\
   ((raw_ok c = true /\ (c = 32 \/ c = 39)%N /\ x = c /\ r = []) \/ (raw_ok c = false /\ x = 92%N)).
Proof.
  intros H. unfold enc. destruct (raw_ok c) eqn:R.
  - unfold span_char in H. rewrite R in H. simpl in H.
    destruct (N.eqb_spec c 32) as [E1|N1]; [exists c, []; subst c; split; [reflexivity|split; [reflexivity|left; auto]]|].
    destruct (N.eqb_spec c 39) as [E2|N2]; [exists c, []; subst c; split; [reflexivity|split; [reflexivity|left; auto]]|].
    simpl in H. discriminate.
  - eexists 92%N, _. split; [reflexivity|]. split; [reflexivity|]. right. auto.
Qed.

(* ---------- the scanner's fs_non_spaces on an escaped body ---------- *)
Definition TAILQ (tail : str) := 34%N :: tail.

Lemma firstn_app_exact {A} (l r : list A) : firstn (length l) (l ++ r) = l.
Proof. induction l; simpl; congruence. Qed.

(* the part of a call up to and including `ch <- peek 0`, for a maximal run followed by a stop character x *)
Lemma ns_prefix (chunks : str) s run x r (K : cp -> str -> M str) :
  rest s = run ++ x :: r -> forallb span_char run = true -> not_fs_stop x = false ->
  exists s1, rest s1 = x :: r /\
    (n <- with_fuel (fun f' => span f' not_fs_stop 0) ;; p <- prefix n ;; forward n ;;; ch <- peek 0 ;; K ch (chunks ++ p)) s
    = K x (chunks ++ run) s1.
Proof.
  intros Hr Hrun Hx.
  assert (Hsp : forallb not_fs_stop run = true).
  { clear Hr. induction run as [|c run IH]; simpl in *; auto. apply andb_prop in Hrun as [A B]. rewrite span_char_not_stop, IH; auto. }
  rewrite (bind_ok _ _ s (length run) s).
  2:{ rewrite with_fuel_eq. rewrite (span_spec not_fs_stop run (fuel_of s) 0 s [] x r); auto.
      unfold fuel_of. rewrite Hr, app_length. simpl. lia. }
  rewrite (bind_ok _ _ s run s).
  2:{ rewrite prefix_ok. rewrite Hr. rewrite firstn_app_exact. reflexivity. }
  destruct (forward_rest (length run) s run x r Hr eq_refl) as (s1 & F & R1).
  rewrite (bind_ok _ _ s tt s1 F).
  rewrite (bind_ok _ _ s1 x s1) by (apply peek_ok; rewrite R1; reflexivity).
  exists s1. auto.
Qed.

(* continuation of fs_non_spaces after `ch <- peek 0`, specialised to double = true *)
Definition ns_K (f : nat) (start : mark) (ch : cp) (chunks : str) : M str :=
  c1 <- ret NUL ;;
  if false then forward 2 ;;; fs_non_spaces f true start (chunks ++ [39%N])
  else if N.eqb ch 39 || false then forward 1 ;;; fs_non_spaces f true start (chunks ++ [ch])
  else if N.eqb ch 92 then
      forward 1 ;;;
      e <- peek 0 ;;
      match escape_replacement e with
      | Some r => forward 1 ;;; fs_non_spaces f true start (chunks ++ [r])
      | None =>
        match escape_code e with
        | Some len =>
            forward 1 ;;; hex_check 0 len start ;;;
            h <- prefix len ;;
            let code := hex_value h in
            if (1114111 <? code)%N then
              err (Some start) 27                    (* code > 0x10FFFF: ScannerError (was chr() ValueError/OverflowError before the fix) *)
            else forward len ;;; fs_non_spaces f true start (chunks ++ [code])
        | None =>
            if mem e breaks then
              scan_line_break ;;; b <- scan_flow_scalar_breaks start ;; fs_non_spaces f true start (chunks ++ b)
            else err (Some start) 21
        end
      end
  else ret chunks.

Lemma ns_unfold f start chunks :
  fs_non_spaces (S f) true start chunks =
  (n <- with_fuel (fun f' => span f' not_fs_stop 0) ;; p <- prefix n ;; forward n ;;; ch <- peek 0 ;; ns_K f start ch (chunks ++ p)).
Proof. reflexivity. Qed.

Lemma forward1 s x r : rest s = x :: r -> exists s', forward 1 s = Ok (tt, s') /\ rest s' = r /\ length (rest s') < length (rest s).
Proof.
  intros H. destruct r as [|y r].
  - (* forward over the last character: the model crashes only for a CR at the very end; never the case here *)
    exists (upd_pos s [] (S (index s)) (if is_brk x x then S (line s) else line s) 0). 
    (* not needed for the theorem: bodies are always followed by the closing quote *)
    Abort.

Lemma forward1 s x y r : rest s = x :: y :: r -> exists s', forward 1 s = Ok (tt, s') /\ rest s' = y :: r.
Proof. intros H. apply (forward_rest 1 s [x] y r); auto. Qed.

Lemma ret_bind {A B} (a : A) (k : A -> M B) s : bind (ret a) k s = k a s.
Proof. reflexivity. Qed.

Lemma simple_cases c : simple c = true -> raw_ok c = false ->
  (exists e, dq_escape c = Some e) \/ (dq_escape c = None /\ (c <= 255)%N).
Proof.
  unfold simple. intros H R. rewrite R in H. simpl in H. destruct (dq_escape c) eqn:E.
  - left. eauto.
  - right. split; auto. simpl in H. apply N.leb_le. exact H.
Qed.

Theorem ns_body : forall n t, length t <= n -> forall fuel s chunks tail start,
  forallb simple t = true -> rest s = body t ++ 34%N :: tail -> length (rest s) < fuel ->
  exists s' t1 t2, fs_non_spaces fuel true start chunks s = Ok (chunks ++ t1, s') /\ t = t1 ++ t2 /\
     rest s' = body t2 ++ 34%N :: tail /\ (t2 = [] \/ exists t3, t2 = 32%N :: t3).
Proof.
  induction n as [|n IH]; intros t Hlen fuel s chunks tail start Hsimple Hr Hf;
  (destruct fuel as [|f]; [lia|]); rewrite ns_unfold;
  destruct (take_run t) as (run & t2 & Et & Hrun & Ht2); subst t;
  rewrite body_run in Hr by assumption; rewrite <- app_assoc in Hr.
  all: destruct Ht2 as [->|(c & t3 & -> & Hc)].
  (* the text ends after the run *)
  1,3: simpl in Hr;
       destruct (ns_prefix chunks s run 34%N tail (ns_K f start) Hr Hrun eq_refl) as (s1 & R1 & E1); rewrite E1;
       exists s1, run, []; repeat split; auto; rewrite app_nil_r; reflexivity.
  (* n = 0 with a non-empty text: impossible *)
  - rewrite app_length in Hlen. simpl in Hlen. lia.
  (* general case: run followed by a non-span character c *)
  - destruct (enc_head c Hc) as (x & r' & Eenc & Hx & Hcase).
    assert (Hb : body (c :: t3) = x :: r' ++ body t3) by (unfold body; simpl; rewrite Eenc; reflexivity).
    rewrite Hb in Hr. simpl in Hr.
    destruct (ns_prefix chunks s run x _ (ns_K f start) Hr Hrun Hx) as (s1 & R1 & E1). rewrite E1. clear E1.
    assert (Hlen3 : length t3 <= n) by (rewrite app_length in Hlen; simpl in Hlen; lia).
    assert (Hs3 : forallb simple t3 = true) by (rewrite forallb_app in Hsimple; simpl in Hsimple; apply andb_prop in Hsimple as [_ H]; apply andb_prop in H as [_ H]; exact H).
    assert (Hsc : simple c = true) by (rewrite forallb_app in Hsimple; simpl in Hsimple; apply andb_prop in Hsimple as [_ H]; apply andb_prop in H as [H _]; exact H).
    assert (Hl1 : length (rest s1) <= length (rest s)) by (rewrite R1, Hr, app_length; simpl; lia).
    destruct Hcase as [(Rk & [->| ->] & -> & ->)|(Rk & ->)].
    + (* a raw space: the call returns *)
      exists s1, run, (32%N :: t3). repeat split; eauto.
    + (* an apostrophe: copied, then recursion *)
      simpl in R1.
      assert (R1' : rest s1 = 39%N :: (body t3 ++ 34%N :: tail)) by exact R1.
      destruct (body t3 ++ 34%N :: tail) as [|y rr] eqn:Eb; [destruct (body t3); discriminate|].
      destruct (forward1 s1 39%N y rr R1') as (s2 & F2 & R2).
      unfold ns_K. rewrite ret_bind. simpl. rewrite (bind_ok _ _ s1 tt s2 F2). cbv beta.
      destruct (IH t3 Hlen3 f s2 ((chunks ++ run) ++ [39%N]) tail start Hs3) as (s' & t1 & t2 & A & B & C & D).
      { rewrite R2. symmetry. exact Eb. } { rewrite R2. rewrite R1' in Hl1. simpl in Hl1. simpl. lia. }
      exists s', (run ++ 39%N :: t1), t2. repeat split; auto.
      * transitivity (Ok (((chunks ++ run) ++ [39%N]) ++ t1, s') : res (str * st)); [exact A|]. f_equal. f_equal. rewrite <- !app_assoc. reflexivity.
      * rewrite B. rewrite <- app_assoc. reflexivity.
    + (* an escape *)
      destruct (simple_cases c Hsc Rk) as [(e & He)|(He & Hle)].
      * (* single-letter escape *)
        assert (Er : r' = [e]) by (unfold enc in Eenc; rewrite Rk, He in Eenc; injection Eenc as <-; reflexivity). subst r'.
        simpl in R1.
        destruct (forward1 s1 92%N e _ R1) as (s2 & F2 & R2).
        destruct (body t3 ++ 34%N :: tail) as [|y rr] eqn:Eb; [destruct (body t3); discriminate|].
        destruct (forward1 s2 e y rr R2) as (s3 & F3 & R3).
        unfold ns_K. rewrite ret_bind. simpl.
        rewrite (bind_ok _ _ s1 tt s2 F2).
        rewrite (bind_ok _ _ s2 e s2) by (apply peek_ok; rewrite R2; reflexivity).
        rewrite (escape_inverse c e He).
        rewrite (bind_ok _ _ s2 tt s3 F3). cbv beta.
        destruct (IH t3 Hlen3 f s3 ((chunks ++ run) ++ [c]) tail start Hs3) as (s' & t1 & t2 & A & B & C & D).
        { rewrite R3. symmetry. exact Eb. } { rewrite R3. rewrite R1 in Hl1. simpl in Hl1. simpl. lia. }
        exists s', (run ++ c :: t1), t2. repeat split; auto.
        -- transitivity (Ok (((chunks ++ run) ++ [c]) ++ t1, s') : res (str * st)); [exact A|]. f_equal. f_equal. rewrite <- !app_assoc. reflexivity.
        -- rewrite B. rewrite <- app_assoc. reflexivity.
      * (* \xHH *)
        assert (Er : r' = 120%N :: hex2 c).
        { unfold enc in Eenc. rewrite Rk, He in Eenc. apply N.leb_le in Hle. rewrite Hle in Eenc. injection Eenc as <-. reflexivity. }
        subst r'. destruct (hex2_ok c Hle) as [Hhex Hval].
        remember (hex2 c) as hh eqn:Ehh. unfold hex2 in Ehh.
        destruct hh as [|h1 [|h2 [|? ?]]]; try discriminate. clear Ehh.
        simpl in Hhex. apply andb_prop in Hhex as [Hh1 Hh2]. apply andb_prop in Hh2 as [Hh2 _].
        simpl in R1.
        destruct (body t3 ++ 34%N :: tail) as [|y rr] eqn:Eb; [destruct (body t3); discriminate|].
        destruct (forward1 s1 92%N 120%N _ R1) as (s2 & F2 & R2).
        destruct (forward1 s2 120%N h1 _ R2) as (s3 & F3 & R3).
        destruct (forward_rest 2 s3 [h1; h2] y rr R3 eq_refl) as (s4 & F4 & R4).
        unfold ns_K. rewrite ret_bind. simpl.
        rewrite (bind_ok _ _ s1 tt s2 F2). cbv beta.
        rewrite (bind_ok _ _ s2 120%N s2) by (apply peek_ok; rewrite R2; reflexivity).
        simpl.
        rewrite (bind_ok _ _ s2 tt s3 F3). cbv beta.
        rewrite (bind_ok _ _ s3 tt s3).
        2:{ simpl. rewrite (bind_ok _ _ s3 h1 s3) by (apply peek_ok; rewrite R3; reflexivity). rewrite Hh1.
            rewrite (bind_ok _ _ s3 h2 s3) by (apply peek_ok; rewrite R3; reflexivity). rewrite Hh2. reflexivity. }
        cbv beta.
        rewrite (bind_ok _ _ s3 [h1; h2] s3) by (rewrite prefix_ok, R3; reflexivity).
        rewrite Hval.
        assert (Hsmall : (1114111 <? c)%N = false) by (apply N.ltb_ge; lia).
        rewrite Hsmall.
        rewrite (bind_ok _ _ s3 tt s4 F4). cbv beta.
        destruct (IH t3 Hlen3 f s4 ((chunks ++ run) ++ [c]) tail start Hs3) as (s' & t1 & t2 & A & B & C & D).
        { rewrite R4. symmetry. exact Eb. } { rewrite R4. rewrite R1 in Hl1. simpl in Hl1. simpl. lia. }
        exists s', (run ++ c :: t1), t2. repeat split; auto.
        -- transitivity (Ok (((chunks ++ run) ++ [c]) ++ t1, s') : res (str * st)); [exact A|]. f_equal. f_equal. rewrite <- !app_assoc. reflexivity.
        -- rewrite B. rewrite <- app_assoc. reflexivity.
Qed.
Print Assumptions ns_body.

(* ---------- spaces between the non-space segments, and the whole scalar ---------- *)
Lemma take_spaces : forall t, exists sps t4, t = sps ++ t4 /\ forallb is_blank sps = true /\ forallb (N.eqb 32) sps = true /\
   (t4 = [] \/ exists c t5, t4 = c :: t5 /\ c <> 32%N).
Proof.
  induction t as [|c t IH].
  - exists [], []. auto.
  - destruct (N.eqb_spec c 32) as [->|Hn].
    + destruct IH as (sps & t4 & A & B & B' & C). exists (32%N :: sps), t4. subst. repeat split; auto; simpl; try rewrite B; try rewrite B'; reflexivity.
    + exists [], (c :: t). repeat split; auto. right. eauto.
Qed.
Lemma body_spaces sps t : forallb (N.eqb 32) sps = true -> body (sps ++ t) = sps ++ body t.
Proof.
  induction sps as [|c sps IH]; intros H; [reflexivity|].
  change (N.eqb 32 c && forallb (N.eqb 32) sps = true) in H.
  apply andb_prop in H as [Hc H]. apply N.eqb_eq in Hc. subst c. unfold body in *. simpl. f_equal. apply IH; auto.
Qed.
(* the first character written for a text that does not start with a space is neither blank, NUL nor a break *)
Lemma body_head_nonblank c t tail : simple c = true -> c <> 32%N ->
  exists x r, body (c :: t) ++ 34%N :: tail = x :: r /\ is_blank x = false /\ N.eqb x NUL = false /\ mem x breaks = false /\ N.eqb x 34 = false.
Proof.
  intros Hs Hn. unfold body. simpl. unfold enc. destruct (raw_ok c) eqn:R.
  - apply raw_ok_range in R. destruct R as (R1 & R2 & R3).
    exists c, (flat_map enc t ++ 34%N :: tail). split; [reflexivity|].
    unfold is_blank, mem, breaks, NUL, SP, TAB, CR, LF, NEL, LS, PS. simpl.
    repeat split; repeat (rewrite orb_false_iff; split); try reflexivity; apply N.eqb_neq; lia.
  - eexists 92%N, _. split; [reflexivity|]. repeat split; reflexivity.
Qed.

Lemma spaces_ok s sps x r start : rest s = sps ++ x :: r -> forallb is_blank sps = true ->
  is_blank x = false -> N.eqb x NUL = false -> mem x breaks = false ->
  exists s1, scan_flow_scalar_spaces start s = Ok (sps, s1) /\ rest s1 = x :: r.
Proof.
  intros Hr Hb Hx Hnul Hbrk. unfold scan_flow_scalar_spaces.
  rewrite (bind_ok _ _ s (length sps) s).
  2:{ rewrite with_fuel_eq. rewrite (span_spec is_blank sps (fuel_of s) 0 s [] x r); auto.
      unfold fuel_of. rewrite Hr, app_length. simpl. lia. }
  rewrite (bind_ok _ _ s sps s) by (rewrite prefix_ok, Hr, firstn_app_exact; reflexivity).
  destruct (forward_rest (length sps) s sps x r Hr eq_refl) as (s1 & F & R1).
  rewrite (bind_ok _ _ s tt s1 F). cbv beta.
  rewrite (bind_ok _ _ s1 x s1) by (apply peek_ok; rewrite R1; reflexivity).
  rewrite Hnul, Hbrk. exists s1. split; [reflexivity|exact R1].
Qed.

Lemma fs_loop_unfold f quote start chunks :
  fs_loop (S f) true quote start chunks =
  (ch <- peek 0 ;; if N.eqb ch quote then ret chunks else
     sp <- scan_flow_scalar_spaces start ;; ns <- with_fuel (fun f' => fs_non_spaces f' true start []) ;;
     fs_loop f true quote start (chunks ++ sp ++ ns)).
Proof. reflexivity. Qed.

Theorem loop_body : forall n t, length t <= n -> forall fuel s chunks tail start,
  forallb simple t = true -> (t = [] \/ exists t3, t = 32%N :: t3) ->
  rest s = body t ++ 34%N :: tail -> length t < fuel ->
  exists s', fs_loop fuel true 34%N start chunks s = Ok (chunks ++ t, s') /\ rest s' = 34%N :: tail.
Proof.
  induction n as [|n IH]; intros t Hlen fuel s chunks tail start Hsimple Hshape Hr Hf;
  (destruct fuel as [|f]; [lia|]); rewrite fs_loop_unfold.
  all: destruct Hshape as [->|(t3 & ->)].
  1,3: simpl in Hr; rewrite (bind_ok _ _ s 34%N s) by (apply peek_ok; rewrite Hr; reflexivity);
       simpl; exists s; rewrite app_nil_r; split; [reflexivity|exact Hr].
  - simpl in Hlen. lia.
  - (* a run of spaces, then a non-space segment, then the loop again *)
    assert (Hr0 : rest s = 32%N :: (body t3 ++ 34%N :: tail)) by exact Hr.
    rewrite (bind_ok _ _ s 32%N s) by (apply peek_ok; rewrite Hr0; reflexivity).
    simpl (N.eqb 32 34). cbv iota.
    destruct (take_spaces (32%N :: t3)) as (sps & t4 & Et & Hbl & H32 & Ht4).
    rewrite Et in Hr. rewrite body_spaces in Hr by assumption. rewrite <- app_assoc in Hr.
    assert (Hs4 : forallb simple t4 = true) by (rewrite Et in Hsimple; rewrite forallb_app in Hsimple; apply andb_prop in Hsimple as [_ H]; exact H).
    assert (Hsps : sps <> []) by (intros ->; simpl in Et; subst t4; destruct Ht4 as [H|(c & t5 & H & Hc)]; [discriminate|injection H as <- _; congruence]).
    assert (Hx : exists x r, body t4 ++ 34%N :: tail = x :: r /\ is_blank x = false /\ N.eqb x NUL = false /\ mem x breaks = false).
    { destruct Ht4 as [->|(c & t5 & -> & Hc)].
      - exists 34%N, tail. repeat split; reflexivity.
      - simpl in Hs4. apply andb_prop in Hs4 as [Hsc _].
        destruct (body_head_nonblank c t5 tail Hsc Hc) as (x & r & A & B & C & D & _). exists x, r. auto. }
    destruct Hx as (x & r & Ex & Hxb & Hxn & Hxk).
    assert (Hr' : rest s = sps ++ x :: r) by (rewrite Hr; f_equal; exact Ex).
    destruct (spaces_ok s sps x r start Hr' Hbl Hxb Hxn Hxk) as (s1 & E1 & R1).
    rewrite (bind_ok _ _ s sps s1 E1).
    destruct (ns_body (length t4) t4 (le_n _) (fuel_of s1) s1 [] tail start Hs4) as (s2 & t1 & t2 & A & B & C & D).
    { rewrite R1. symmetry. exact Ex. } { unfold fuel_of. lia. }
    rewrite (bind_ok _ _ s1 t1 s2) by (rewrite with_fuel_eq; exact A).
    assert (Hlt : length t2 <= n).
    { assert (length (32%N :: t3) = length sps + length t4) by (rewrite Et, app_length; reflexivity).
      rewrite B, app_length in H. simpl in Hlen. destruct sps; [congruence|]. simpl in H. unfold str, cp in *. lia. }
    assert (Hs2 : forallb simple t2 = true) by (rewrite B in Hs4; rewrite forallb_app in Hs4; apply andb_prop in Hs4 as [_ H]; exact H).
    destruct (IH t2 Hlt f s2 (chunks ++ sps ++ t1) tail start Hs2 D C) as (s' & A' & R').
    { assert (length (32%N :: t3) = length sps + length t4) by (rewrite Et, app_length; reflexivity).
      rewrite B, app_length in H. destruct sps; [congruence|]. simpl in H, Hf. unfold str, cp in *. lia. }
    exists s'. split; auto.
    transitivity (Ok ((chunks ++ sps ++ t1) ++ t2, s') : res (str * st)); [exact A'|].
    f_equal. f_equal. rewrite Et, B. rewrite <- !app_assoc. reflexivity.
Qed.

(* the whole scalar: what write_double_quoted produces for t (escaping, no fold) reads back as t *)
Theorem dq_roundtrip t tail s :
  forallb simple t = true -> rest s = 34%N :: body t ++ 34%N :: tail -> tail <> [] ->
  exists tok s', scan_flow_scalar true s = Ok (tok, s') /\ t_kind tok = TScalar t false SDouble /\ rest s' = tail.
Proof.
  intros Hs Hr Htail. unfold scan_flow_scalar.
  rewrite (bind_ok _ _ s {| m_index := index s; m_line := line s; m_col := col s |} s) by reflexivity.
  rewrite (bind_ok _ _ s 34%N s) by (apply peek_ok; rewrite Hr; reflexivity).
  destruct (body t ++ 34%N :: tail) as [|y rr] eqn:Eb; [destruct (body t); discriminate|].
  destruct (forward1 s 34%N y rr Hr) as (s1 & F1 & R1).
  rewrite (bind_ok _ _ s tt s1 F1). cbv beta.
  set (start := {| m_index := index s; m_line := line s; m_col := col s |}).
  destruct (ns_body (length t) t (le_n _) (fuel_of s1) s1 [] tail start Hs) as (s2 & t1 & t2 & A & B & C & D).
  { rewrite R1. symmetry. exact Eb. } { unfold fuel_of. lia. }
  rewrite (bind_ok _ _ s1 t1 s2) by (rewrite with_fuel_eq; exact A).
  assert (Hs2 : forallb simple t2 = true) by (rewrite B in Hs; rewrite forallb_app in Hs; apply andb_prop in Hs as [_ H]; exact H).
  destruct (loop_body (length t2) t2 (le_n _) (fuel_of s2) s2 t1 tail start Hs2 D C) as (s3 & A3 & R3).
  { unfold fuel_of. rewrite C, app_length. assert (length t2 <= length (body t2)).
    { clear. induction t2 as [|c t2 IH]; simpl; auto. unfold body in *. simpl. rewrite app_length.
      assert (1 <= length (enc c)) by (unfold enc; destruct (raw_ok c); simpl; lia). lia. }
    lia. }
  rewrite (bind_ok _ _ s2 (t1 ++ t2) s3) by (rewrite with_fuel_eq; exact A3).
  destruct tail as [|z tl]; [congruence|].
  destruct (forward1 s3 34%N z tl R3) as (s4 & F4 & R4).
  rewrite (bind_ok _ _ s3 tt s4 F4). cbv beta.
  eexists _, s4. split; [reflexivity|]. simpl. split; [rewrite B; reflexivity|exact R4].
Qed.
Print Assumptions dq_roundtrip.
