(* C16: py_sorted on mappings whose keys are numbers (int, bool, finite float - mixed): the order is the same for every insertion order. *)
From Coq Require Import List NArith ZArith Bool Arith Permutation Lia.
Import ListNotations.
Require Import Scan Parse Construct Represent SortLemmas.

Definition is_num (p : val * val) : bool := match num_q (fst p) with Some (_, q) => (0 <? q)%Z | None => false end.
Definition nlt (p q : val * val) : bool :=
  match num_q (fst p), num_q (fst q) with Some (p1, q1), Some (p2, q2) => (p1 * q2 <? p2 * q1)%Z | _, _ => false end.
Lemma is_num_q p : is_num p = true -> exists a b, num_q (fst p) = Some (a, b) /\ (0 < b)%Z.
Proof. unfold is_num. destruct (num_q (fst p)) as [[a b]|]; [|discriminate]. intros H. apply Z.ltb_lt in H. eauto. Qed.
Lemma key_lt_num p q : is_num p = true -> is_num q = true -> key_lt (fst p) (fst q) = Some (nlt p q).
Proof.
  intros Hp Hq. destruct (is_num_q p Hp) as (a & b & E1 & _). destruct (is_num_q q Hq) as (c & d & E2 & _).
  unfold key_lt, nlt. rewrite E1, E2. reflexivity.
Qed.
Lemma insert_sorted_num x l : is_num x = true -> forallb is_num l = true -> insert_sorted x l = Some (ins _ nlt x l).
Proof.
  intros Hx. induction l as [|y l IH]; simpl; intros Hl; auto. apply andb_prop in Hl as [Hy Hl].
  rewrite (key_lt_num x y Hx Hy). destruct (nlt x y); auto. rewrite IH; auto.
Qed.
Lemma ins_all_num x l : is_num x = true -> forallb is_num l = true -> forallb is_num (ins _ nlt x l) = true.
Proof.
  intros Hx. induction l as [|y l IH]; simpl; intros Hl; [rewrite Hx; reflexivity|]. apply andb_prop in Hl as [Hy Hl].
  destruct (nlt x y); simpl; rewrite ?Hx, ?Hy, ?Hl; simpl; auto.
Qed.
Lemma fold_insert_num l : forall acc, forallb is_num l = true -> forallb is_num acc = true ->
  fold_left (fun acc x => match acc with Some a => insert_sorted x a | None => None end) l (Some acc) =
  Some (fold_left (fun acc x => ins _ nlt x acc) l acc).
Proof.
  induction l as [|x l IH]; simpl; intros acc Hl Ha; auto. apply andb_prop in Hl as [Hx Hl].
  rewrite (insert_sorted_num x acc Hx Ha). apply IH; auto. apply ins_all_num; auto.
Qed.
Lemma all_comparable_num l : forallb is_num l = true -> all_comparable l = true.
Proof.
  intros H. unfold all_comparable. rewrite forallb_forall in *. intros a Ha. rewrite forallb_forall. intros b Hb.
  rewrite (key_lt_num a b (H a Ha) (H b Hb)). reflexivity.
Qed.
Lemma py_sorted_num l : forallb is_num l = true -> py_sorted l = Some (isort _ nlt l).
Proof. intros H. unfold py_sorted, isort. rewrite (all_comparable_num l H). simpl. apply fold_insert_num; auto. Qed.

(* a mapping (or set) whose keys are numbers - int, bool and finite float may be mixed - and pairwise different under Python's ==, as the keys of
   a dict are: the sorted item list is the same for EVERY insertion / iteration order *)
Theorem l_sorted_num_keys_perm_invariant l1 l2 :
  forallb is_num l1 = true -> NoDup l1 -> (forall a b, In a l1 -> In b l1 -> a <> b -> key_eqb (fst a) (fst b) = false) ->
  Permutation l1 l2 -> py_sorted l1 = py_sorted l2.
Proof.
  intros Hs Hn Hd P.
  assert (Hs2 : forallb is_num l2 = true).
  { rewrite forallb_forall in *. intros x Hx. apply Hs. eapply Permutation_in; [apply Permutation_sym; exact P|exact Hx]. }
  rewrite (py_sorted_num l1 Hs), (py_sorted_num l2 Hs2). f_equal. rewrite forallb_forall in Hs.
  apply (isort_perm_invariant _ nlt (fun p => In p l1)).
  - intros a b Ha Hb H. unfold nlt in *.
    destruct (is_num_q a (Hs a Ha)) as (p1 & q1 & E1 & Q1). destruct (is_num_q b (Hs b Hb)) as (p2 & q2 & E2 & Q2). rewrite E1, E2 in *.
    apply Z.ltb_lt in H. apply Z.ltb_ge. lia.
  - intros a b c Ha Hb Hc H1 H2. unfold nlt in *.
    destruct (is_num_q a (Hs a Ha)) as (p1 & q1 & E1 & Q1). destruct (is_num_q b (Hs b Hb)) as (p2 & q2 & E2 & Q2).
    destruct (is_num_q c (Hs c Hc)) as (p3 & q3 & E3 & Q3). rewrite E1, E2, E3 in *.
    apply Z.ltb_lt in H1, H2. apply Z.ltb_lt.
    (* p1 q2 < p2 q1 and p2 q3 < p3 q2 with positive denominators *)
    assert (A : (p1 * q2 * q3 < p2 * q1 * q3)%Z) by (apply Z.mul_lt_mono_pos_r; assumption).
    assert (B : (p2 * q3 * q1 < p3 * q2 * q1)%Z) by (apply Z.mul_lt_mono_pos_r; assumption).
    assert (C : (p1 * q3 * q2 < p3 * q1 * q2)%Z) by (replace (p1 * q3 * q2)%Z with (p1 * q2 * q3)%Z by ring; replace (p3 * q1 * q2)%Z with (p3 * q2 * q1)%Z by ring;
      replace (p2 * q1 * q3)%Z with (p2 * q3 * q1)%Z in A by ring; lia).
    apply (Z.mul_lt_mono_pos_r q2); assumption.
  - intros a b Ha Hb Hne. specialize (Hd a b Ha Hb Hne). unfold nlt. unfold key_eqb in Hd.
    destruct (is_num_q a (Hs a Ha)) as (p1 & q1 & E1 & Q1). destruct (is_num_q b (Hs b Hb)) as (p2 & q2 & E2 & Q2). rewrite E1, E2 in *.
    apply Z.eqb_neq in Hd. destruct (Z.lt_total (p1 * q2) (p2 * q1)) as [H|[H|H]]; [left; apply Z.ltb_lt; exact H|contradiction|right; apply Z.ltb_lt; exact H].
  - apply Forall_forall. auto.
  - exact Hn.
  - exact P.
Qed.

Example num_keys_example :
  let l1 := [(PInt 3, PNone); (PBool true, PNone); (PFloat (FFin false 5 (-1)), PNone); (PInt (-7), PNone)] in
  let l2 := [(PInt (-7), PNone); (PFloat (FFin false 5 (-1)), PNone); (PInt 3, PNone); (PBool true, PNone)] in
  forallb is_num l1 = true /\ py_sorted l1 = py_sorted l2 /\
  py_sorted l1 = Some [(PInt (-7), PNone); (PBool true, PNone); (PFloat (FFin false 5 (-1)), PNone); (PInt 3, PNone)].
Proof. vm_compute. repeat split; reflexivity. Qed.

