(* C13: numbering and anchor-table specification of the composer model, for every grammatical node and every state. *)
From Coq Require Import List NArith ZArith Bool Arith Lia.
Import ListNotations.
Require Import Scan Parse Construct ComposerTotal.

(* abstract reading of a flat event list in document order *)
Definition allocs (e : ev) : bool := match e with VScalar _ _ _ _ _ _ | VSeqStart _ _ _ _ | VMapStart _ _ _ _ => true | _ => false end.
Definition anchor_of (e : ev) : option str :=
  match e with VScalar a _ _ _ _ _ => a | VSeqStart a _ _ _ => a | VMapStart a _ _ _ => a | _ => None end.
Fixpoint nnodes (a : list ev) : nat := match a with [] => 0 | e :: r => (if allocs e then 1 else 0) + nnodes r end.
(* (anchor, node id) of every anchored node, ids counted from `base` in document order *)
Fixpoint defs (a : list ev) (base : nat) : list (str * nat) :=
  match a with
  | [] => []
  | e :: r => (match anchor_of e with Some x => if allocs e then [(x, base)] else [] | None => [] end) ++ defs r (if allocs e then S base else base)
  end.
Lemma nnodes_app a b : nnodes (a ++ b) = nnodes a + nnodes b.
Proof. induction a as [|e r IH]; simpl; auto. rewrite IH. lia. Qed.
Lemma defs_app a b base : defs (a ++ b) base = defs a base ++ defs b (base + nnodes a).
Proof.
  revert base. induction a as [|e r IH]; intros base; simpl; [rewrite Nat.add_0_r; reflexivity|].
  rewrite IH, <- app_assoc. destruct (allocs e); simpl; repeat f_equal; lia.
Qed.

(* the outcome specification: events consumed exactly, node ids in document order, the anchor table extended by the anchored nodes *)
Definition spec (r : lres (nat * cst)) (a : list ev) (rest : list event) (st : nstore) (an : list (str * nat)) : Prop :=
  match r with
  | LOk (_, s') => evs s' = rest /\ length (store s') = length st + nnodes a /\ anchors s' = an ++ defs a (length st)
  | LComposer _ => True
  | _ => False
  end.
Definition spec_id (r : lres (nat * cst)) (a : list ev) (st : nstore) (an : list (str * nat)) : Prop :=
  match r with
  | LOk (id, _) => match a with VAlias x :: _ => assoc_nat x an = Some id | _ => id = length st end
  | _ => True
  end.

Lemma set_nth_length {A} n (x : A) l : length (set_nth n x l) = length l.
Proof. revert n. induction l as [|y l IH]; intros [|n]; simpl; auto. Qed.

Definition Pk2 (k : gk) (a : list ev) : Prop :=
  match k with
  | KNode => forall es rest fuel base st an, map e_kind es = a -> length a < fuel ->
      spec (compose_node fuel base (mkc (es ++ rest) st an)) a rest st an
  | KNodes => forall es eend rest f fuel' base id t m acc st an, map e_kind es = a -> e_kind eend = VSeqEnd -> length a < f -> length a < fuel' ->
      spec (seq_items (compose_node f base) id t m fuel' acc (mkc (es ++ eend :: rest) st an)) a rest st an
  | KPairs => forall es eend rest f fuel' base id t m acc st an, map e_kind es = a -> e_kind eend = VMapEnd -> length a < f -> length a < fuel' ->
      spec (map_items_ (compose_node f base) id t m fuel' acc (mkc (es ++ eend :: rest) st an)) a rest st an
  | KDocs => True
  end.

Lemma spec_step (r : lres (nat * cst)) a1 a2 mid rest st an (K : nat -> cst -> lres (nat * cst)) :
  spec r a1 mid st an ->
  (forall c st' an', length st' = length st + nnodes a1 -> an' = an ++ defs a1 (length st) -> spec (K c (mkc mid st' an')) a2 rest st' an') ->
  spec (match r with
        | LOk (c, s') => K c s'
        | LScan x => LScan x | LComposer c => LComposer c | LConstructor c => LConstructor c
        | LCrash x => LCrash x | LFuel => LFuel | LUnmodelled => LUnmodelled end) (a1 ++ a2) rest st an.
Proof.
  intros H HK. destruct r as [[c [e' st' an']]| | | | | |]; simpl in H; try contradiction; [|exact Logic.I].
  destruct H as (-> & H2 & H3). specialize (HK c st' an' H2 H3). unfold mkc in HK.
  destruct (K c _) as [[c2 s2]| | | | | |]; simpl in *; auto.
  destruct HK as (E1 & E2 & E3). rewrite nnodes_app, defs_app. repeat split; auto; [lia|].
  rewrite E3, H3, H2, <- app_assoc. reflexivity.
Qed.

Lemma main2 k a : clang k a -> Pk2 k a.
Proof.
  induction 1 as [x|an_ t i0 i1 v st_|an_ t i f body Hb IH|an_ t i f body Hb IH| |x r Hx IHx Hr IHr| |kx vx r Hk IHk Hv IHv Hr IHr| |]; cbn [Pk2] in *; try exact Logic.I.
  - (* alias *) intros es rest fuel base st an Hm Hf. apply map_single in Hm as (e & -> & E). destruct fuel as [|f]; [simpl in Hf; lia|].
    unfold mkc. cbn [app compose_node evs]. rewrite E. cbn [anchors store]. destruct (assoc_nat x an); simpl; auto.
    repeat split; auto; try lia; rewrite ?app_nil_r; auto.
  - (* scalar *) intros es rest fuel base st an Hm Hf. apply map_single in Hm as (e & -> & E). destruct fuel as [|f]; [simpl in Hf; lia|].
    unfold mkc. cbn [app compose_node evs]. rewrite E. cbn [anchors store].
    match goal with |- spec (if ?c then _ else _) _ _ _ _ => destruct c end; [exact Logic.I|]. simpl. rewrite app_length. simpl.
    repeat split; auto. destruct an_; simpl; rewrite ?app_nil_r; reflexivity.
  - (* sequence *) intros es rest fuel base st an Hm Hf. apply map_cons_inv in Hm as (e & es' & -> & E & Hm).
    apply map_app_inv in Hm as (eb & el & -> & Hb1 & Hl). apply map_single in Hl as (eend & -> & Eend).
    destruct fuel as [|f0]; [simpl in Hf; lia|]. cbn [app]. rewrite (cn_seq _ _ _ _ _ _ _ _ _ _ E).
    destruct (dup_of an_ an); [exact Logic.I|]. cbv zeta. rewrite <- app_assoc. cbn [app].
    match goal with |- spec (seq_items ?cn ?id ?t ?m ?fu ?acc (mkc ?evs_ ?st1 ?an1)) _ _ _ _ =>
      pose proof (IH eb eend rest f0 f0 base id t m acc st1 an1 Hb1 Eend) as HI end.
    simpl in Hf. rewrite app_length in Hf. simpl in Hf. specialize (HI ltac:(lia) ltac:(lia)).
    destruct (seq_items _ _ _ _ _ _ _) as [[c s2]| | | | | |]; simpl in *; auto.
    destruct HI as (E1 & E2 & E3). rewrite app_length in E2. simpl in E2. rewrite nnodes_app, defs_app. simpl.
    repeat split; auto; [lia|]. rewrite E3. unfold an_add. rewrite app_length. simpl. rewrite !app_nil_r.
    destruct an_; simpl; rewrite <- ?app_assoc; simpl; repeat f_equal; lia.
  - (* mapping *) intros es rest fuel base st an Hm Hf. apply map_cons_inv in Hm as (e & es' & -> & E & Hm).
    apply map_app_inv in Hm as (eb & el & -> & Hb1 & Hl). apply map_single in Hl as (eend & -> & Eend).
    destruct fuel as [|f0]; [simpl in Hf; lia|]. cbn [app]. rewrite (cn_map _ _ _ _ _ _ _ _ _ _ E).
    destruct (dup_of an_ an); [exact Logic.I|]. cbv zeta. rewrite <- app_assoc. cbn [app].
    match goal with |- spec (map_items_ ?cn ?id ?t ?m ?fu ?acc (mkc ?evs_ ?st1 ?an1)) _ _ _ _ =>
      pose proof (IH eb eend rest f0 f0 base id t m acc st1 an1 Hb1 Eend) as HI end.
    simpl in Hf. rewrite app_length in Hf. simpl in Hf. specialize (HI ltac:(lia) ltac:(lia)).
    destruct (map_items_ _ _ _ _ _ _ _) as [[c s2]| | | | | |]; simpl in *; auto.
    destruct HI as (E1 & E2 & E3). rewrite app_length in E2. simpl in E2. rewrite nnodes_app, defs_app. simpl.
    repeat split; auto; [lia|]. rewrite E3. unfold an_add. rewrite app_length. simpl. rewrite !app_nil_r.
    destruct an_; simpl; rewrite <- ?app_assoc; simpl; repeat f_equal; lia.
  - (* no more items *) intros es eend rest f fuel' base id t m acc st an Hm Eend Hf Hf'. destruct es; [|discriminate].
    destruct fuel' as [|f']; [simpl in Hf'; lia|]. unfold mkc. cbn [app seq_items evs]. rewrite Eend. simpl.
    rewrite set_nth_length, app_nil_r. repeat split; auto.
  - (* one more item *) intros es eend rest f fuel' base id t m acc st an Hm Eend Hf Hf'.
    apply map_app_inv in Hm as (ex & er & -> & Hx1 & Hr1).
    destruct (clang_head _ Hx) as (e0 & x' & -> & Hs). apply map_cons_inv in Hx1 as (e1 & ex' & -> & E1 & Hx1).
    rewrite app_length in Hf, Hf'. simpl in Hf, Hf'.
    destruct fuel' as [|f']; [lia|]. rewrite <- app_assoc.
    assert (Hg : spec (compose_node f base (mkc ((e1 :: ex') ++ er ++ eend :: rest) st an)) (e0 :: x') (er ++ eend :: rest) st an).
    { apply IHx; [simpl; rewrite E1, Hx1; reflexivity|simpl; lia]. }
    unfold mkc at 1. cbn [app seq_items evs]. rewrite E1.
    replace ({| evs := e1 :: ex' ++ er ++ eend :: rest; store := st; anchors := an |}) with (mkc ((e1 :: ex') ++ er ++ eend :: rest) st an) by reflexivity.
    destruct e0; try discriminate; (match type of Hg with spec _ ?A _ _ _ => apply spec_step with (a1 := A) (a2 := r) (mid := er ++ eend :: rest) end; [exact Hg|]; intros c st' an' _ _; apply IHr; auto; lia).
  - (* no more pairs *) intros es eend rest f fuel' base id t m acc st an Hm Eend Hf Hf'. destruct es; [|discriminate].
    destruct fuel' as [|f']; [simpl in Hf'; lia|]. unfold mkc. cbn [app map_items_ evs]. rewrite Eend. simpl.
    rewrite set_nth_length, app_nil_r. repeat split; auto.
  - (* one more pair *) intros es eend rest f fuel' base id t m acc st an Hm Eend Hf Hf'.
    apply map_app_inv in Hm as (ek & er0 & -> & Hk1 & Hr0). apply map_app_inv in Hr0 as (ev_ & er & -> & Hv1 & Hr1).
    destruct (clang_head _ Hk) as (e0 & k' & -> & Hs). apply map_cons_inv in Hk1 as (e1 & ek' & -> & E1 & Hk1).
    rewrite !app_length in Hf, Hf'. simpl in Hf, Hf'.
    destruct fuel' as [|f']; [lia|]. rewrite <- !app_assoc.
    assert (Hg : spec (compose_node f base (mkc ((e1 :: ek') ++ ev_ ++ er ++ eend :: rest) st an)) (e0 :: k') (ev_ ++ er ++ eend :: rest) st an).
    { apply IHk; [simpl; rewrite E1, Hk1; reflexivity|simpl; lia]. }
    unfold mkc at 1. cbn [app map_items_ evs]. rewrite E1.
    replace ({| evs := e1 :: ek' ++ ev_ ++ er ++ eend :: rest; store := st; anchors := an |}) with (mkc ((e1 :: ek') ++ ev_ ++ er ++ eend :: rest) st an) by reflexivity.
    destruct e0; try discriminate;
      (match type of Hg with spec _ ?A _ _ _ => apply spec_step with (a1 := A) (a2 := vx ++ r) (mid := ev_ ++ er ++ eend :: rest) end; [exact Hg|]; intros c st' an' _ _;
       apply spec_step with (a1 := vx) (a2 := r) (mid := er ++ eend :: rest); [apply IHv; [exact Hv1|lia]|]; intros c2 st'' an'' _ _; apply IHr; auto; lia).
Qed.

(* node ids are assigned in document order and the anchor table grows by exactly the anchored nodes, in document order: for EVERY
   grammatical node (any depth), every composer state and every sufficient fuel *)
Theorem composer_numbering : forall es rest base st an fuel, clang KNode (map e_kind es) -> length es < fuel ->
  spec (compose_node fuel base (mkc (es ++ rest) st an)) (map e_kind es) rest st an.
Proof. intros es rest base st an fuel H Hf. apply (main2 KNode _ H); [reflexivity|rewrite map_length; exact Hf]. Qed.

Lemma seq_items_id cn id t m fuel' : forall acc s i s', seq_items cn id t m fuel' acc s = LOk (i, s') -> i = id.
Proof.
  induction fuel' as [|f IH]; intros acc s i s'; cbn [seq_items]; [discriminate|].
  destruct (evs s) as [|e' r']; [discriminate|]. destruct (e_kind e'); try (destruct (cn s) as [[c s2]| | | | | |]; try discriminate; apply IH).
  intros [= <- _]. reflexivity.
Qed.
Lemma map_items_id cn id t m fuel' : forall acc s i s', map_items_ cn id t m fuel' acc s = LOk (i, s') -> i = id.
Proof.
  induction fuel' as [|f IH]; intros acc s i s'; cbn [map_items_]; [discriminate|].
  destruct (evs s) as [|e' r']; [discriminate|].
  destruct (e_kind e'); try (destruct (cn s) as [[c s2]| | | | | |]; try discriminate; destruct (cn s2) as [[c3 s3]| | | | | |]; try discriminate; apply IH).
  intros [= <- _]. reflexivity.
Qed.

(* what a node composes to: an alias gives the id the anchor table holds for its name (the FIRST entry - and a second definition of
   a name is rejected, C13_duplicate_anchor_rejected); every other node gives the next free id of the node store *)
Theorem composer_result_id : forall e es base st an fuel id s',
  compose_node fuel base (mkc (e :: es) st an) = LOk (id, s') ->
  match e_kind e with
  | VAlias x => assoc_nat x an = Some id
  | VScalar _ _ _ _ _ _ | VSeqStart _ _ _ _ | VMapStart _ _ _ _ => id = length st
  | _ => False
  end.
Proof.
  intros e es base st an fuel id s'. destruct fuel as [|f]; [discriminate|].
  destruct (e_kind e) eqn:E; try (unfold mkc; cbn [compose_node evs]; rewrite E; discriminate).
  - unfold mkc. cbn [compose_node evs]. rewrite E. cbn [anchors]. destruct (assoc_nat a an); [|discriminate]. intros [= <- _]. reflexivity.
  - unfold mkc. cbn [compose_node evs]. rewrite E. cbn [anchors store].
    match goal with |- (if ?c then _ else _) = _ -> _ => destruct c end; [discriminate|]. intros [= <- _]. reflexivity.
  - rewrite (cn_seq _ _ _ _ _ _ _ _ _ _ E). destruct (dup_of anchor an); [discriminate|]. cbv zeta. intros H. apply seq_items_id in H. exact H.
  - rewrite (cn_map _ _ _ _ _ _ _ _ _ _ E). destruct (dup_of anchor an); [discriminate|]. cbv zeta. intros H. apply map_items_id in H. exact H.
Qed.
