(* Proofs about the registry model (C10, table parts of C01/C04): for ALL histories. *)
From Coq Require Import List String Bool Arith Lia.
Import ListNotations.
Require Import Registry.
Open Scope string_scope.

Lemma kind_eqb_eq a b : kind_eqb a b = true <-> a = b.
Proof. destruct a, b; simpl; split; intros H; try reflexivity; try discriminate. Qed.
Lemma kind_eqb_refl a : kind_eqb a a = true.
Proof. destruct a; reflexivity. Qed.

(* ---------- heap algebra ---------- *)
Lemma heap_get_set_same t tb h : heap_get t (heap_set t tb h) = tb.
Proof.
  induction h as [|[t1 tb1] h IH]; simpl.
  - rewrite Nat.eqb_refl. reflexivity.
  - destruct (Nat.eqb t t1) eqn:E; simpl; rewrite ?Nat.eqb_refl, ?E; auto.
Qed.
Lemma heap_get_set_other t t' tb h : t' <> t -> heap_get t' (heap_set t tb h) = heap_get t' h.
Proof.
  intros Hne. induction h as [|[t1 tb1] h IH]; simpl.
  - destruct (Nat.eqb_spec t' t); [contradiction|reflexivity].
  - destruct (Nat.eqb_spec t t1) as [->|Hn]; simpl.
    + destruct (Nat.eqb_spec t' t1); [contradiction|reflexivity].
    + destruct (Nat.eqb_spec t' t1); auto.
Qed.

(* ---------- ownership ---------- *)
Lemma own_of_cons_same c k t o : own_of c k ((c, k, t) :: o) = Some t.
Proof. simpl. rewrite String.eqb_refl, kind_eqb_refl. reflexivity. Qed.
Lemma own_of_cons_other c k c1 k1 t o : (c <> c1 \/ k <> k1) -> own_of c k ((c1, k1, t) :: o) = own_of c k o.
Proof.
  intros H. simpl. destruct (String.eqb c c1 && kind_eqb k k1) eqn:E; auto.
  apply andb_prop in E as [E1 E2]. apply String.eqb_eq in E1. apply kind_eqb_eq in E2. subst. destruct H; congruence.
Qed.

Lemma first_own_ext o o' k l :
  (forall e, In e l -> own_of e k o' = own_of e k o) -> first_own o' k l = first_own o k l.
Proof.
  induction l as [|e l IH]; simpl; intros H; auto.
  rewrite H by auto. destruct (own_of e k o); auto.
Qed.
Lemma first_own_owner o k l t : first_own o k l = Some t -> exists e, In e l /\ own_of e k o = Some t.
Proof.
  induction l as [|e l IH]; simpl; [discriminate|]. destruct (own_of e k o) as [te|] eqn:Ee.
  - intros H; injection H as ->. exists e; auto.
  - intros H. destruct (IH H) as (e' & A & B). exists e'; auto.
Qed.
Lemma first_own_app_none o k pre post : first_own o k pre = None -> first_own o k (pre ++ post)%list = first_own o k post.
Proof. induction pre as [|e pre IH]; simpl; auto. destruct (own_of e k o); [discriminate|auto]. Qed.
Lemma first_own_app_some o k pre post t : first_own o k pre = Some t -> first_own o k (pre ++ post)%list = Some t.
Proof. induction pre as [|e pre IH]; simpl; [discriminate|]. destruct (own_of e k o); auto. Qed.

(* ---------- well-formed worlds ---------- *)
Definition wf (w : world) : Prop :=
  (forall c k t, own_of c k (own w) = Some t -> t < next w) /\
  (forall c d k k' t, own_of c k (own w) = Some t -> own_of d k' (own w) = Some t -> c = d /\ k = k') /\
  (forall c, hd_error (mro_of w c) = Some c).

(* no two (class, kind) pairs own the same dict object: the aliasing invariant *)
Definition no_shared_tables (w : world) : Prop :=
  forall c d k k' t, own_of c k (own w) = Some t -> own_of d k' (own w) = Some t -> c = d /\ k = k'.

Definition op_ok (o : op) : bool :=
  match o with DefClass c m _ => match m with c' :: _ => String.eqb c c' | [] => false end | Add _ _ _ _ => true end.

Lemma wf_empty : wf empty_world.
Proof. split; [|split]; simpl; try discriminate. intros c. reflexivity. Qed.

Lemma mro_hd w c : wf w -> exists l, mro_of w c = c :: l.
Proof.
  intros (_ & _ & H3). specialize (H3 c). destruct (mro_of w c) as [|x l]; simpl in H3; [discriminate|].
  injection H3 as ->. eauto.
Qed.

Section Cow.
Variable cw : kind -> cow.
Hypothesis cw_ok : forall k, cw k = expected_cow k.

Lemma cw_not_nocopy k : cw k <> NoCopy.
Proof. rewrite cw_ok. destruct k; discriminate. Qed.

(* the world after Add when c does not own a k-table yet (both copying shapes behave alike at this abstraction) *)
Definition add_copy (w : world) (k : kind) (c : cls) (keys : list key) (v : string) : world :=
  let t := next w in
  {| mros := mros w; own := (c, k, t) :: own w; heap := (t, put k keys v (effective w c k)) :: heap w; next := S t |}.
Definition add_inplace (w : world) (t : nat) (k : kind) (keys : list key) (v : string) : world :=
  {| mros := mros w; own := own w; heap := heap_set t (put k keys v (heap_get t (heap w))) (heap w); next := next w |}.

Lemma step_add w k c keys v :
  step cw w (Add k c keys v) =
  match own_of c k (own w) with Some t => add_inplace w t k keys v | None => add_copy w k c keys v end.
Proof.
  unfold step. destruct (own_of c k (own w)); [reflexivity|].
  destruct (cw k) eqn:E; try reflexivity. exfalso. eapply cw_not_nocopy; eauto.
Qed.

Lemma wf_add_fresh c w k : wf w -> wf (add_fresh c w k).
Proof.
  intros (H1 & H2 & H3). unfold add_fresh. split; [|split]; simpl.
  - intros c' k' t. destruct (String.eqb c' c && kind_eqb k' k); intros H; [injection H as <-; lia|]. apply H1 in H. lia.
  - intros c' d0 k1 k2 t.
    destruct (String.eqb c' c && kind_eqb k1 k) eqn:E1; destruct (String.eqb d0 c && kind_eqb k2 k) eqn:E2; intros A B.
    + apply andb_prop in E1 as [E1 E1']. apply andb_prop in E2 as [E2 E2'].
      apply String.eqb_eq in E1, E2. apply kind_eqb_eq in E1', E2'. subst. auto.
    + injection A as <-. apply H1 in B. lia.
    + injection B as <-. apply H1 in A. lia.
    + eauto.
  - exact H3.
Qed.
Lemma mros_fold_fresh c fresh w : mros (fold_left (add_fresh c) fresh w) = mros w.
Proof. revert w. induction fresh as [|k f IH]; simpl; intros; auto. rewrite IH. reflexivity. Qed.
Lemma wf_fold_fresh c fresh w : wf w -> wf (fold_left (add_fresh c) fresh w).
Proof. revert w. induction fresh as [|k f IH]; simpl; intros; auto. apply IH. apply wf_add_fresh; auto. Qed.

Lemma wf_step w o : op_ok o = true -> wf w -> wf (step cw w o).
Proof.
  intros Hok Hwf. destruct o as [c m fresh|k c keys v].
  - simpl. apply wf_fold_fresh. destruct Hwf as (H1 & H2 & H3). split; [|split]; simpl; auto.
    intros c'. unfold mro_of; simpl. destruct (String.eqb_spec c' c) as [->|Hn].
    + simpl in Hok. destruct m as [|c0 m]; [discriminate|]. apply String.eqb_eq in Hok. subst. reflexivity.
    + apply H3.
  - rewrite step_add. destruct Hwf as (H1 & H2 & H3). destruct (own_of c k (own w)) as [t|] eqn:E.
    + split; [|split]; simpl; auto.
    + unfold add_copy. split; [|split]; simpl.
      * intros c' k' t. destruct (String.eqb c' c && kind_eqb k' k); intros H; [injection H as <-; lia|]. apply H1 in H. lia.
      * intros c' d0 k1 k2 t.
        destruct (String.eqb c' c && kind_eqb k1 k) eqn:E1; destruct (String.eqb d0 c && kind_eqb k2 k) eqn:E2; intros A B.
        -- apply andb_prop in E1 as [E1 E1']. apply andb_prop in E2 as [E2 E2'].
           apply String.eqb_eq in E1, E2. apply kind_eqb_eq in E1', E2'. subst. auto.
        -- injection A as <-. apply H1 in B. lia.
        -- injection B as <-. apply H1 in A. lia.
        -- eauto.
      * exact H3.
Qed.

Theorem run_from_wf h : forall w, forallb op_ok h = true -> wf w -> wf (run_from cw w h).
Proof.
  induction h as [|o h IH]; simpl; intros w Hok Hwf; auto.
  apply andb_prop in Hok as [Ho Hh]. apply IH; auto. apply wf_step; auto.
Qed.
Corollary run_wf h : forallb op_ok h = true -> wf (run cw h).
Proof. intros. apply run_from_wf; auto. apply wf_empty. Qed.

(* ---------- Add: effect on the target class ---------- *)
Theorem add_effective w k c keys v : wf w ->
  effective (step cw w (Add k c keys v)) c k = put k keys v (effective w c k).
Proof.
  intros Hwf. destruct (mro_hd w c Hwf) as [l Hl]. rewrite step_add.
  destruct (own_of c k (own w)) as [t|] eqn:E.
  - unfold effective, mro_of, add_inplace; simpl. fold (mro_of w c). rewrite Hl. simpl. rewrite E.
    apply heap_get_set_same.
  - unfold effective at 1. unfold mro_of, add_copy; simpl. fold (mro_of w c). rewrite Hl. simpl.
    rewrite String.eqb_refl, kind_eqb_refl. simpl. rewrite Nat.eqb_refl. reflexivity.
Qed.

(* ---------- Add: classes that do not inherit from the target, and other kinds, are untouched ---------- *)
Theorem add_isolated_unrelated w k c keys v d k' : wf w -> (~ In c (mro_of w d) \/ k' <> k) ->
  effective (step cw w (Add k c keys v)) d k' = effective w d k'.
Proof.
  intros Hwf Hun. pose proof Hwf as (H1 & H2 & H3). rewrite step_add.
  destruct (own_of c k (own w)) as [t|] eqn:E.
  - unfold effective, mro_of, add_inplace; simpl. fold (mro_of w d).
    destruct (first_own (own w) k' (mro_of w d)) as [t'|] eqn:F; auto.
    destruct (Nat.eq_dec t' t) as [->|Hne]; [|apply heap_get_set_other; auto].
    exfalso. destruct (first_own_owner _ _ _ _ F) as (e & A & B).
    destruct (H2 _ _ _ _ _ B E) as [-> ->]. destruct Hun; auto.
  - unfold effective at 1. unfold mro_of, add_copy; simpl. fold (mro_of w d).
    rewrite (first_own_ext (own w)).
    + unfold effective. destruct (first_own (own w) k' (mro_of w d)) as [t'|] eqn:F; auto.
      destruct (first_own_owner _ _ _ _ F) as (e & A & B). apply H1 in B. simpl.
      destruct (Nat.eqb_spec t' (next w)); [lia|reflexivity].
    + intros e He. apply own_of_cons_other. destruct Hun as [Hn|Hk]; [left; intros ->; auto|right; auto].
Qed.

(* ---------- Add: a subclass that (or one of whose nearer bases) registered this kind itself is untouched ---------- *)
Theorem add_isolated_shadowed w k c keys v d pre post t0 : wf w ->
  mro_of w d = (pre ++ c :: post)%list -> ~ In c pre -> first_own (own w) k pre = Some t0 ->
  effective (step cw w (Add k c keys v)) d k = effective w d k.
Proof.
  intros Hwf Hm Hnin Hpre. pose proof Hwf as (H1 & H2 & H3). rewrite step_add.
  destruct (first_own_owner _ _ _ _ Hpre) as (e0 & A0 & B0).
  destruct (own_of c k (own w)) as [t|] eqn:E.
  - unfold effective, mro_of, add_inplace; simpl. fold (mro_of w d). rewrite Hm.
    rewrite (first_own_app_some _ _ _ _ _ Hpre).
    apply heap_get_set_other. intros ->. destruct (H2 _ _ _ _ _ B0 E) as [-> _]. auto.
  - unfold effective at 1. unfold mro_of, add_copy; simpl. fold (mro_of w d). rewrite Hm.
    assert (Hpre' : first_own ((c, k, next w) :: own w) k pre = Some t0).
    { rewrite (first_own_ext (own w)); auto. intros e He. apply own_of_cons_other. left. intros ->. auto. }
    rewrite (first_own_app_some _ _ _ _ _ Hpre').
    unfold effective. rewrite Hm. rewrite (first_own_app_some _ _ _ _ _ Hpre).
    apply H1 in B0. simpl. destruct (Nat.eqb_spec t0 (next w)); [lia|reflexivity].
Qed.

(* ---------- Add: a subclass with nothing of this kind registered nearer than c sees exactly c's new table ---------- *)
Theorem add_inherited w k c keys v d pre post : wf w ->
  mro_of w d = (pre ++ c :: post)%list -> first_own (own w) k pre = None -> ~ In c pre ->
  effective (step cw w (Add k c keys v)) d k = effective (step cw w (Add k c keys v)) c k.
Proof.
  intros Hwf Hm Hpre Hnin. pose proof Hwf as (H1 & H2 & H3). destruct (mro_hd w c Hwf) as [l Hl].
  rewrite step_add. destruct (own_of c k (own w)) as [t|] eqn:E.
  - unfold effective, mro_of, add_inplace; simpl. fold (mro_of w d). fold (mro_of w c). rewrite Hm, Hl.
    rewrite (first_own_app_none _ _ _ _ Hpre). simpl. rewrite E. reflexivity.
  - unfold effective, mro_of, add_copy; simpl. fold (mro_of w d). fold (mro_of w c). rewrite Hm, Hl.
    assert (Hpre' : first_own ((c, k, next w) :: own w) k pre = None).
    { rewrite (first_own_ext (own w)); auto. intros e He. apply own_of_cons_other. left. intros ->. auto. }
    rewrite (first_own_app_none _ _ _ _ Hpre'). simpl.
    rewrite String.eqb_refl, kind_eqb_refl. reflexivity.
Qed.

(* ---------- DefClass: existing classes that do not (claim to) inherit from the new name are untouched ---------- *)
Lemma own_fold_fresh_other c fresh : forall w e k, e <> c ->
  own_of e k (own (fold_left (add_fresh c) fresh w)) = own_of e k (own w).
Proof.
  induction fresh as [|k0 f IH]; simpl; intros w e k Hne; auto.
  rewrite IH by auto. unfold add_fresh; simpl. apply own_of_cons_other. auto.
Qed.
Lemma heap_fold_fresh c fresh : forall w t, t < next w ->
  heap_get t (heap (fold_left (add_fresh c) fresh w)) = heap_get t (heap w).
Proof.
  induction fresh as [|k0 f IH]; simpl; intros w t Hlt; auto.
  rewrite IH by (simpl; lia). unfold add_fresh; simpl. destruct (Nat.eqb_spec t (next w)); [lia|reflexivity].
Qed.

Theorem defclass_isolated w c m fresh d k : wf w -> d <> c -> ~ In c (mro_of w d) ->
  effective (step cw w (DefClass c m fresh)) d k = effective w d k.
Proof.
  intros (H1 & H2 & H3) Hne Hnin. simpl.
  set (w1 := {| mros := (c, m) :: mros w; own := own w; heap := heap w; next := next w |}).
  assert (Hm : mro_of (fold_left (add_fresh c) fresh w1) d = mro_of w d).
  { unfold mro_of. rewrite mros_fold_fresh. simpl. destruct (String.eqb_spec d c); [contradiction|reflexivity]. }
  unfold effective. rewrite Hm.
  rewrite (first_own_ext (own w)).
  - destruct (first_own (own w) k (mro_of w d)) as [t|] eqn:F; auto.
    destruct (first_own_owner _ _ _ _ F) as (e & A & B). apply H1 in B.
    apply (heap_fold_fresh c fresh w1 t). exact B.
  - intros e He. rewrite own_fold_fresh_other; auto. intros ->. auto.
Qed.

(* ---------- any step: the effect on d is confined to the three cases above ---------- *)
Definition target (o : op) : cls := match o with DefClass c _ _ => c | Add _ c _ _ => c end.

Lemma mro_step_other w o d : d <> target o -> mro_of (step cw w o) d = mro_of w d.
Proof.
  intros Hne. destruct o as [c m fresh|k c keys v].
  - simpl. unfold mro_of. rewrite mros_fold_fresh. simpl. simpl in Hne. destruct (String.eqb_spec d c); [contradiction|reflexivity].
  - rewrite step_add. destruct (own_of c k (own w)); reflexivity.
Qed.
Lemma mro_step_add w k c keys v d : mro_of (step cw w (Add k c keys v)) d = mro_of w d.
Proof. rewrite step_add. destruct (own_of c k (own w)); reflexivity. Qed.

Theorem step_isolated w o d k : wf w -> d <> target o -> ~ In (target o) (mro_of w d) ->
  effective (step cw w o) d k = effective w d k.
Proof.
  intros Hwf Hne Hnin. destruct o as [c m fresh|k0 c keys v].
  - apply defclass_isolated; auto.
  - apply add_isolated_unrelated; auto.
Qed.

(* ---------- frozen tables: for ALL histories that never target a class in d's MRO ---------- *)
Fixpoint avoids (l : list cls) (h : list op) : bool :=
  match h with [] => true | o :: h' => negb (existsb (String.eqb (target o)) l) && avoids l h' end.

Lemma existsb_eqb_in c l : existsb (String.eqb c) l = false -> ~ In c l.
Proof.
  induction l as [|x l IH]; simpl; intros H; auto. apply orb_false_elim in H as [H1 H2].
  intros [->|Hin]; [rewrite String.eqb_refl in H1; discriminate|]. apply IH; auto.
Qed.

Theorem tables_frozen h : forall w d k, wf w -> forallb op_ok h = true -> avoids (mro_of w d) h = true ->
  effective (run_from cw w h) d k = effective w d k /\ mro_of (run_from cw w h) d = mro_of w d.
Proof.
  induction h as [|o h IH]; simpl; intros w d k Hwf Hok Hav; auto.
  apply andb_prop in Hok as [Ho Hh]. apply andb_prop in Hav as [Ha Hav].
  apply negb_true_iff in Ha. apply existsb_eqb_in in Ha.
  destruct (mro_hd w d Hwf) as [l Hl].
  assert (Hne : d <> target o). { intros ->. apply Ha. rewrite Hl. left; reflexivity. }
  pose proof (mro_step_other w o d Hne) as Hm.
  destruct (IH (step cw w o) d k) as [E1 E2]; auto.
  - apply wf_step; auto.
  - rewrite Hm. exact Hav.
  - split.
    + rewrite E1. apply step_isolated; auto.
    + rewrite E2. exact Hm.
Qed.

(* ---------- helper fan-out (yaml.add_* with Loader=None): only classes inheriting from a target can change ---------- *)
Theorem helper_isolated targets k keys v : forall w d k', wf w ->
  (forall c, In c targets -> ~ In c (mro_of w d)) ->
  effective (run_from cw w (helper targets k keys v)) d k' = effective w d k'.
Proof.
  induction targets as [|c ts IH]; intros w d k' Hwf Hnin; [reflexivity|].
  unfold helper in *. cbn [map]. unfold run_from in *. cbn [fold_left].
  rewrite IH.
  - apply add_isolated_unrelated; auto. left. apply Hnin. left; reflexivity.
  - apply wf_step; auto.
  - intros c' Hc'. rewrite mro_step_add. apply Hnin. right; auto.
Qed.

End Cow.

(* ---------- the mutated shape really leaks (so the hypothesis cw_ok is not idle) ---------- *)
Example nocopy_leaks :
  let h := [DefClass "B" ["B"] [KCtor]; DefClass "S" ["S"; "B"] []; DefClass "T" ["T"; "B"] []] in
  effective (step (fun _ => NoCopy) (run expected_cow h) (Add KCtor "S" [Some "!x"] "f")) "T" KCtor = [(Some "!x", ["f"])] /\
  effective (step expected_cow (run expected_cow h) (Add KCtor "S" [Some "!x"] "f")) "T" KCtor = [].
Proof. vm_compute. split; reflexivity. Qed.
