(* Spike: C09 position invariant proved on the validated scanner model's `forward` (reader.py:99-112). *)
From Coq Require Import List NArith ZArith Bool Arith Lia.
Import ListNotations.
Require Import Scan.

Definition is_brk (ch y : cp) : bool := mem ch [LF; NEL; LS; PS] || (N.eqb ch CR && negb (N.eqb y LF)).
Definition step_pos (ch y : cp) (l c : nat) : nat * nat :=
  if is_brk ch y then (S l, 0) else if N.eqb ch BOM then (l, c) else (l, S c).

(* reference: (line, column) after consuming p, when the character after p is x *)
Fixpoint advance (p : str) (x : cp) (l c : nat) : nat * nat :=
  match p with
  | [] => (l, c)
  | ch :: r => let y := match r with y :: _ => y | [] => x end in
               let '(l1, c1) := step_pos ch y l c in advance r x l1 c1
  end.

Arguments mem : simpl never.
Lemma forward_step n s ch y t :
  rest s = ch :: y :: t ->
  forward (S n) s = forward n (upd_pos s (y :: t) (S (index s)) (fst (step_pos ch y (line s) (col s))) (snd (step_pos ch y (line s) (col s)))).
Proof.
  intros Hr. simpl forward. rewrite Hr. unfold step_pos, is_brk.
  destruct (N.eqb ch CR) eqn:E1; destruct (mem ch [LF; NEL; LS; PS]) eqn:E2; destruct (N.eqb y LF) eqn:E3;
  destruct (N.eqb ch BOM) eqn:E4; simpl; reflexivity.
Qed.

Theorem forward_spec : forall n s p r x,
  rest s = p ++ x :: r -> length p = n ->
  exists s', forward n s = Ok (tt, s') /\ rest s' = x :: r /\ index s' = index s + n /\
             (line s', col s') = advance p x (line s) (col s) /\
             tokens s' = tokens s /\ flow_level s' = flow_level s /\ indent s' = indent s.
Proof.
  induction n as [|n IH]; intros s p r x Hr Hl.
  - destruct p; [|discriminate]. simpl in *. exists s. repeat split; auto.
  - destruct p as [|ch p]; [discriminate|]. simpl in Hl. injection Hl as Hl. simpl in Hr.
    set (y := match p with y :: _ => y | [] => x end).
    assert (Hy : exists t, p ++ x :: r = y :: t) by (unfold y; destruct p; simpl; eauto).
    destruct Hy as (t & Hy). rewrite Hy in Hr.
    rewrite (forward_step n s ch y t Hr).
    set (s1 := upd_pos s (y :: t) (S (index s)) (fst (step_pos ch y (line s) (col s))) (snd (step_pos ch y (line s) (col s)))).
    assert (H1 : rest s1 = p ++ x :: r) by (simpl; symmetry; exact Hy).
    destruct (IH s1 p r x H1 Hl) as (s' & A & B & C & D & E & F & G).
    exists s'. repeat split; auto.
    + rewrite C. simpl. lia.
    + rewrite D. simpl. fold y. destruct (step_pos ch y (line s) (col s)); reflexivity.
Qed.
Print Assumptions forward_spec.

(* the column/line of a position are those obtained by counting breaks: line = number of break characters consumed *)
Fixpoint count_breaks (p : str) (x : cp) : nat :=
  match p with [] => 0 | ch :: r => let y := match r with y :: _ => y | [] => x end in (if is_brk ch y then 1 else 0) + count_breaks r x end.
Lemma advance_line p : forall x l c, fst (advance p x l c) = l + count_breaks p x.
Proof.
  induction p as [|ch p IH]; intros x l c; simpl; [lia|].
  unfold step_pos. destruct (is_brk ch _); [|destruct (N.eqb ch BOM)]; rewrite IH; lia.
Qed.
