(* C18: read-ahead of the stream reader model, text streams: one demand reads at most one block more than it needs. *)
From Coq Require Import List NArith Bool Arith Lia.
Import ListNotations.
Require Import Reader.

(* a text stream whose raw buffer is empty (everything read so far has been moved to the character buffer) *)
Definition text_ready (r : rd) : Prop :=
  (exists s, strm r = Some s /\ is_text s = true) /\ (rawb r = RawStr [] \/ eof r = true /\ rawb r = RawNone).

Lemma update_raw_text r s : strm r = Some s -> is_text s = true -> rawb r = RawStr [] ->
  exists d s', update_raw r = upd r (Some s') (stream_pointer r + length d) (match d with [] => true | _ => eof r end) (buffer r) (pointer r) (RawStr d) ((4096, length d) :: reads r)
               /\ is_text s' = true /\ length d <= 4096.
Proof.
  intros H1 H2 H3. unfold update_raw. rewrite H1, H2, H3. cbv zeta.
  eexists. eexists. split; [reflexivity|]. split; [reflexivity|].
  rewrite firstn_length. destruct (sizes s); lia.
Qed.

(* C18, reader level, text streams: a demand for n characters when the buffer holds fewer reads at most (n - |buffer|) + 4095
   characters from the stream, whatever the read schedule and the content; and it reads nothing when the buffer suffices *)
Lemma update_loop_text_bound f : forall n r r', (exists s, strm r = Some s /\ is_text s = true) -> rawb r = RawStr [] -> eof r = false ->
  update_loop f n r = Ok r' ->
  stream_pointer r' + length (buffer r) + (if eof r' then 1 else 0) = stream_pointer r + length (buffer r') /\
  (length (buffer r) < n -> eof r' = false -> length (buffer r') < n + 4096) /\
  (n <= length (buffer r) -> r' = r).
Proof.
  induction f as [|f IH]; intros n r r' (s & Hs & Ht) Hraw Heof H; cbn [update_loop] in H; [discriminate|].
  destruct (Nat.leb n (length (buffer r))) eqn:E.
  - injection H as <-. apply Nat.leb_le in E. rewrite Heof. repeat split; try lia.
  - apply Nat.leb_gt in E. cbv zeta in H. rewrite Heof in H.
    destruct (update_raw_text r s Hs Ht Hraw) as (d & s' & Hu & Ht' & Hd). rewrite Hu in H. cbn [rawb upd encd eof strm stream_pointer buffer pointer reads index] in H.
    destruct (first_unprintable d 0) as [[i c]|]; [discriminate|].
    rewrite skipn_all in H.
    destruct d as [|x d'].
    + (* end of stream *) cbn in H. injection H as <-. cbn [stream_pointer buffer eof upd]. rewrite !app_length. simpl. repeat split; try lia; intros; try discriminate; try lia.
    + rewrite Heof in H. cbn [length] in *.
      match type of H with update_loop f n ?R = _ => set (R0 := R) in H end.
      assert (Hb : length (buffer R0) = length (buffer r) + S (length d')) by (unfold R0; cbn [buffer upd]; rewrite app_length; reflexivity).
      assert (Hp : stream_pointer R0 = stream_pointer r + S (length d')) by reflexivity.
      destruct (IH n R0 r') as (A2 & A3 & A4); auto.
      * exists s'. split; [reflexivity|exact Ht'].
      * split; [lia|]. split; [|intros L; lia].
        intros _ He. destruct (Nat.le_gt_cases n (length (buffer R0))) as [L|L].
        -- rewrite (A4 L). lia.
        -- specialize (A3 L He). lia.
Qed.

(* the statement the property asks for: characters taken from the stream by one demand *)
Theorem text_demand_reads_at_most_one_block_more f n r r' :
  (exists s, strm r = Some s /\ is_text s = true) -> rawb r = RawStr [] -> eof r = false -> update_loop f n r = Ok r' ->
  (n <= length (buffer r) -> stream_pointer r' = stream_pointer r) /\
  (length (buffer r) < n -> eof r' = false -> stream_pointer r' - stream_pointer r < (n - length (buffer r)) + 4096).
Proof.
  intros H1 H2 H3 H4. destruct (update_loop_text_bound f n r r' H1 H2 H3 H4) as (A & B & C). split.
  - intros L. rewrite (C L). reflexivity.
  - intros L He. specialize (B L He). rewrite He in A. lia.
Qed.
