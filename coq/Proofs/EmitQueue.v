(* C20/C18 (dump side): the emitter's event queue stays bounded - whatever the events. *)
From Coq Require Import List NArith ZArith Bool Arith Lia.
Import ListNotations.
Require Import Emit EmitLemmas.
Require EmitSafe.

Lemma reach_GI : forall evs s s', EmitSafe.GI s -> emit_state evs s = inl s' -> EmitSafe.GI s'.
Proof.
  induction evs as [|e evs IH]; intros s s' Hg H; cbn [emit_state] in H; [injection H as <-; exact Hg|].
  pose proof (EmitSafe.emit_keeps_invariant e s Hg) as H1. destruct (emit1 e s) as [[[] s1]| | |]; try discriminate H. eapply IH; eauto.
Qed.
(* EVERY event list, every option set: whenever emit() has returned, at most three events wait in the queue (the look-ahead of a mapping
   start), no event is in hand and the cached analysis is empty - the emitter never accumulates events *)
Theorem emit_queue_bounded : forall evs canon allow_uni ind width lb s',
  emit_state evs (init canon allow_uni ind width lb) = inl s' -> length (events s') <= 3 /\ cur_ev s' = None /\ anal s' = None /\ sty s' = None.
Proof.
  intros evs canon au ind width lb s' H. pose proof (reach_GI evs _ s' (EmitSafe.GI_init canon au ind width lb) H) as (stk & p & n & Hs & _ & Hn).
  split; [apply EmitSafe.need_more_len, Hn|]. unfold EmitSafe.snap in Hs. intuition.
Qed.


