(* C09: the events of the parser model are grammatical, for EVERY token list (no hypothesis on the tokens at all). *)
From Coq Require Import List NArith ZArith Bool Arith Lia.
Import ListNotations.
Require Import Scan ParseL PT ParserSafe.

(* ---------- the event grammar as a pushdown recogniser ----------
   stream   ::= STREAM-START document* STREAM-END
   document ::= DOCUMENT-START node DOCUMENT-END
   node     ::= ALIAS | SCALAR | SEQUENCE-START node* SEQUENCE-END | MAPPING-START (node node)* MAPPING-END   *)
Inductive gfr := GInit | GDocs | GDocEnd | GNode | GSeq | GMapK | GMapV.
Definition node_ev (e : ev) (k : list gfr) : option (list gfr) :=
  match e with
  | VAlias _ => Some k
  | VScalar _ _ _ _ _ _ => Some k
  | VSeqStart _ _ _ _ => Some (GSeq :: k)
  | VMapStart _ _ _ _ => Some (GMapK :: k)
  | _ => None
  end.
Definition gstep (g : list gfr) (e : ev) : option (list gfr) :=
  match g with
  | [] => None
  | GInit :: k => match e with VStreamStart => Some (GDocs :: k) | _ => None end
  | GDocs :: k => match e with VDocStart _ _ _ => Some (GNode :: GDocEnd :: GDocs :: k) | VStreamEnd => Some k | _ => None end
  | GDocEnd :: k => match e with VDocEnd _ => Some k | _ => None end
  | GNode :: k => node_ev e k
  | GSeq :: k => match e with VSeqEnd => Some k | _ => node_ev e (GSeq :: k) end
  | GMapK :: k => match e with VMapEnd => Some k | _ => node_ev e (GMapV :: k) end
  | GMapV :: k => node_ev e (GMapK :: k)
  end.
Fixpoint grun (g : list gfr) (es : list ev) : option (list gfr) :=
  match es with [] => Some g | e :: r => match gstep g e with Some g' => grun g' r | None => None end end.
Definition grammatical (es : list ev) : Prop := grun [GInit] es = Some [].
Definition viable (es : list ev) : Prop := exists g, grun [GInit] es = Some g.

Lemma grun_app g es1 es2 : grun g (es1 ++ es2) = match grun g es1 with Some g' => grun g' es2 | None => None end.
Proof. revert g. induction es1 as [|e r IH]; intros g; simpl; auto. destruct (gstep g e); auto. Qed.

(* ---------- what each parser state still owes, as grammar frames (top first) ---------- *)
Definition absS (p : pstate) : list gfr :=
  match p with
  | PStreamStart => [GInit]
  | PImplicitDocStart | PDocStart => [GDocs]
  | PDocEnd => [GDocEnd; GDocs]
  | PDocContent | PBlockNode => [GNode]
  | PBlockSeqFirst | PBlockSeqEntry | PIndentlessSeqEntry | PFlowSeqFirst | PFlowSeqEntry => [GSeq]
  | PBlockMapFirstKey | PBlockMapKey | PFlowMapFirstKey | PFlowMapKey => [GMapK]
  | PBlockMapValue | PFlowMapValue | PFlowMapEmptyValue => [GMapV]
  | PFlowSeqEntryMapKey => [GMapK; GSeq]
  | PFlowSeqEntryMapValue => [GMapV; GSeq]
  | PFlowSeqEntryMapEnd => [GMapK; GSeq]
  end.
Definition absStk (stk : list pstate) : list gfr := flat_map absS (rev stk).
Definition G (s : pst) : list gfr := match pstate_ s with Some p => absS p | None => [] end ++ absStk (pstates s).

Lemma absStk_push stk x : absStk (stk ++ [x]) = absS x ++ absStk stk.
Proof. unfold absStk. rewrite rev_unit. reflexivity. Qed.
Lemma absStk_pop stk x r : rev stk = x :: r -> absStk stk = absS x ++ absStk (rev r).
Proof. intros H. unfold absStk. rewrite H, rev_involutive. reflexivity. Qed.

(* ---------- partial-correctness reading of the parser monad: only Ok outcomes are constrained ---------- *)
Definition wpp {A} (m : P A) (Q : A -> pst -> Prop) (s : pst) : Prop :=
  match m s with Ok (a, s') => Q a s' | _ => True end.
Lemma wpp_bind {A B} (m : P A) (k : A -> P B) Q s : wpp m (fun a s' => wpp (k a) Q s') s -> wpp (pbind m k) Q s.
Proof. unfold wpp, pbind. destruct (m s) as [[a s']| | |]; auto. Qed.
Lemma wpp_ret {A} (a : A) (Q : A -> pst -> Prop) s : Q a s -> wpp (pret a) Q s.
Proof. unfold wpp, pret. auto. Qed.
Lemma wpp_mono {A} (m : P A) (Q R : A -> pst -> Prop) s : wpp m Q s -> (forall a s', Q a s' -> R a s') -> wpp m R s.
Proof. unfold wpp. destruct (m s) as [[a s']| | |]; auto. Qed.
Lemma wpp_err {A} c n mk (Q : A -> pst -> Prop) s : wpp (perr c n mk) Q s.
Proof. unfold wpp, perr. exact Logic.I. Qed.
Lemma wpp_crash {A} (Q : A -> pst -> Prop) s : wpp pcrash Q s.
Proof. unfold wpp, pcrash. exact Logic.I. Qed.
Lemma wpp_get (Q : pst -> pst -> Prop) s : Q s s -> wpp pget Q s.
Proof. unfold wpp, pget. auto. Qed.

Section Prims.
Variables (tk : list token) (p : option pstate) (stk : list pstate) (mk : list mark) (h : list (str * str)) (v : option (N * N)).
Lemma wpp_check f (Q : bool -> pst -> Prop) : (forall b, Q b (mkst tk p stk mk h v)) -> wpp (check f) Q (mkst tk p stk mk h v).
Proof. intros H. unfold wpp, check, pbind, peek_token, pret. simpl. apply H. Qed.
Lemma wpp_peek_tok (Q : token -> pst -> Prop) : (forall t, Q t (mkst tk p stk mk h v)) -> wpp peek_tok Q (mkst tk p stk mk h v).
Proof. intros H. unfold wpp, peek_tok, pbind, peek_token, pret, pcrash. simpl. destruct tk; simpl; auto. Qed.
Lemma wpp_get_tok (Q : token -> pst -> Prop) : (forall t tk', Q t (mkst tk' p stk mk h v)) -> wpp get_tok Q (mkst tk p stk mk h v).
Proof. intros H. unfold wpp, get_tok, pbind, get_token, pret, pcrash. simpl. destruct tk; simpl; auto. Qed.
Lemma wpp_set_ps x (Q : unit -> pst -> Prop) : Q tt (mkst tk x stk mk h v) -> wpp (set_ps x) Q (mkst tk p stk mk h v).
Proof. intros H. unfold wpp, set_ps. simpl. exact H. Qed.
Lemma wpp_push_ps x (Q : unit -> pst -> Prop) : Q tt (mkst tk p (stk ++ [x]) mk h v) -> wpp (push_ps x) Q (mkst tk p stk mk h v).
Proof. intros H. unfold wpp, push_ps. simpl. exact H. Qed.
Lemma wpp_pop_ps (Q : unit -> pst -> Prop) : (forall x r, rev stk = x :: r -> Q tt (mkst tk (Some x) (rev r) mk h v)) -> wpp pop_ps Q (mkst tk p stk mk h v).
Proof. intros H. unfold wpp, pop_ps. cbn [pstates mkst]. destruct (rev stk) as [|x r] eqn:E; auto. Qed.
Lemma wpp_push_mark m (Q : unit -> pst -> Prop) : Q tt (mkst tk p stk (mk ++ [m]) h v) -> wpp (push_mark m) Q (mkst tk p stk mk h v).
Proof. intros H. unfold wpp, push_mark. simpl. exact H. Qed.
Lemma wpp_pop_mark (Q : unit -> pst -> Prop) : (forall mk', Q tt (mkst tk p stk mk' h v)) -> wpp pop_mark Q (mkst tk p stk mk h v).
Proof. intros H. unfold wpp, pop_mark. cbn [pmarks mkst]. destruct (rev mk); auto. Qed.
Lemma wpp_top_mark (Q : mark -> pst -> Prop) : (forall m, Q m (mkst tk p stk mk h v)) -> wpp top_mark Q (mkst tk p stk mk h v).
Proof. intros H. unfold wpp, top_mark. cbn [pmarks mkst]. destruct (rev mk); auto. Qed.
Lemma wpp_set_handles hs ver (Q : unit -> pst -> Prop) : Q tt (mkst tk p stk mk hs ver) -> wpp (set_handles hs ver) Q (mkst tk p stk mk h v).
Proof. intros H. unfold wpp, set_handles. simpl. exact H. Qed.
End Prims.

(* one symbolic-execution step *)
Ltac wprim :=
  lazymatch goal with
  | |- wpp (check _) _ _ => apply wpp_check; intros [|]; cbn [negb]
  | |- wpp peek_tok _ _ => apply wpp_peek_tok; intros ?t
  | |- wpp get_tok _ _ => apply wpp_get_tok; intros ?t ?tk
  | |- wpp (set_ps _) _ _ => apply wpp_set_ps
  | |- wpp (push_ps _) _ _ => apply wpp_push_ps
  | |- wpp pop_ps _ _ => apply wpp_pop_ps; intros ?x ?r ?Hrev
  | |- wpp (push_mark _) _ _ => apply wpp_push_mark
  | |- wpp pop_mark _ _ => apply wpp_pop_mark; intros ?mk
  | |- wpp top_mark _ _ => apply wpp_top_mark; intros ?m
  | |- wpp (set_handles _ _) _ _ => apply wpp_set_handles
  | |- wpp pget _ _ => apply wpp_get
  | |- wpp (pret _) _ _ => apply wpp_ret
  | |- wpp (perr _ _ _) _ _ => apply wpp_err
  | |- wpp pcrash _ _ => apply wpp_crash
  end.
Ltac w1 :=
  lazymatch goal with
  | |- wpp (pbind _ _) _ _ => apply wpp_bind; wprim
  | _ => wprim
  end.

(* ---------- post-conditions ---------- *)
Definition okfinal (s : pst) : Prop := pstate_ s = None -> pstates s = [].
Definition postG (g0 : list gfr) (e : event) (s' : pst) : Prop := gstep g0 (e_kind e) = Some (G s') /\ okfinal s'.
Definition postN (k0 : list gfr) (e : event) (s' : pst) : Prop := node_ev (e_kind e) k0 = Some (G s') /\ pstate_ s' <> None.

Ltac fin := unfold postG, postN, okfinal, G; cbn [pstate_ pstates mkst e_kind ParseL.mk empty_scalar];
  repeat match goal with H : rev _ = _ :: _ |- _ => rewrite (absStk_pop _ _ _ H) end;
  rewrite ?absStk_push; cbn [absS app gstep node_ev]; split; [reflexivity|intros; discriminate].

Lemma node_tail_G block indentless r0 tk p stk mk h v :
  wpp (node_tail block indentless r0) (postN (absStk stk)) (mkst tk p stk mk h v).
Proof.
  destruct r0 as [[[[anchor tagtok] smark] emark] tmark]. unfold node_tail.
  w1. apply wpp_bind.
  match goal with |- wpp ?m _ _ => assert (Htag : forall Q : option str -> pst -> Prop,
        (forall o, Q o (mkst tk p stk mk h v)) -> wpp m Q (mkst tk p stk mk h v)) end.
  { intros Q HQ. destruct tagtok as [tt_|]; [|apply wpp_ret; auto].
    destruct (t_kind tt_); try (apply wpp_ret; auto).
    destruct handle as [hd|]; [|apply wpp_ret; auto].
    cbn [handles mkst]. destruct (assoc hd h); [apply wpp_ret; auto|apply wpp_err]. }
  apply Htag. intros tag. clear Htag.
  apply wpp_bind.
  match goal with |- wpp ?m _ _ => assert (Hn : forall Q : option mark -> pst -> Prop,
        (forall o, Q o (mkst tk p stk mk h v)) -> wpp m Q (mkst tk p stk mk h v)) end.
  { intros Q HQ. destruct smark; [apply wpp_ret; auto|]. w1. apply wpp_ret. auto. }
  apply Hn. intros nxt. clear Hn. cbv zeta.
  apply wpp_bind.
  match goal with |- wpp ?m _ _ => assert (Hb : forall Q : bool -> pst -> Prop,
        (forall b, Q b (mkst tk p stk mk h v)) -> wpp m Q (mkst tk p stk mk h v)) end.
  { intros Q HQ. destruct indentless; [apply wpp_check; auto|apply wpp_ret; auto]. }
  apply Hb. intros ble. clear Hb.
  destruct ble.
  { w1. w1. w1. fin. }
  w1.
  { w1. w1. destruct (t_kind t); try apply wpp_crash. cbv zeta.
    repeat match goal with |- context [if ?c then _ else _] => destruct c end; apply wpp_ret; fin. }
  w1. { w1. w1. w1. fin. }
  w1. { w1. w1. w1. fin. }
  assert (Hb : forall f (Q : bool -> pst -> Prop),
        (forall b, Q b (mkst tk p stk mk h v)) -> wpp (if block then check f else pret false) Q (mkst tk p stk mk h v)).
  { intros f Q HQ. destruct block; [apply wpp_check; auto|apply wpp_ret; auto]. }
  apply wpp_bind. apply Hb. intros bs. destruct bs.
  { w1. w1. w1. fin. }
  apply wpp_bind. apply Hb. intros bm. clear Hb. destruct bm.
  { w1. w1. w1. fin. }
  destruct anchor, tag; try (w1; w1; fin).
Qed.

Lemma parse_node_G block indentless tk p stk mk h v :
  wpp (parse_node block indentless) (postN (absStk stk)) (mkst tk p stk mk h v).
Proof.
  rewrite parse_node_eq.
  w1. { w1. w1. w1. destruct (t_kind t); fin. }
  w1.
  - apply wpp_bind. w1. w1; w1; try w1; apply node_tail_G.
  - apply wpp_bind. w1.
    + w1. w1; w1; try w1; apply node_tail_G.
    + w1. apply node_tail_G.
Qed.

(* a node event produced where frame F is on top *)
Definition fnext (F : gfr) (k : list gfr) : option (list gfr) :=
  match F with GNode => Some k | GSeq => Some (GSeq :: k) | GMapK => Some (GMapV :: k) | GMapV => Some (GMapK :: k) | _ => None end.
Lemma node_in_frame F k k' e R : fnext F k = Some k' -> node_ev e k' = Some R -> gstep (F :: k) e = Some R.
Proof. destruct F; simpl; intros [= <-]; destruct e; simpl; congruence. Qed.

Lemma postN_G F k k' e s' : fnext F k = Some k' -> postN k' e s' -> postG (F :: k) e s'.
Proof. intros HF [H1 H2]. split; [eapply node_in_frame; eauto|intros E; contradiction]. Qed.

Lemma skip_de_G fuel : forall tk p stk mk h v (Q : unit -> pst -> Prop),
  (forall tk', Q tt (mkst tk' p stk mk h v)) -> wpp (skip_de fuel) Q (mkst tk p stk mk h v).
Proof.
  induction fuel as [|f IH]; intros tk p stk mk h v Q HQ; [exact Logic.I|]. cbn [skip_de].
  w1; [w1; apply IH; auto|w1; auto].
Qed.
Lemma dl_G fuel : forall ver hs tk p stk mk h v (Q : option (N * N) * list (str * str) -> pst -> Prop),
  (forall x tk', Q x (mkst tk' p stk mk h v)) -> wpp (directives_loop fuel ver hs) Q (mkst tk p stk mk h v).
Proof.
  induction fuel as [|f IH]; intros ver hs tk p stk mk h v Q HQ; [exact Logic.I|]. cbn [directives_loop].
  w1; [|w1; auto]. w1. destruct (t_kind t); try (apply IH; auto).
  destruct val; try (apply IH; auto).
  - destruct ver; [apply wpp_err|]. destruct (negb (major =? 1)%N); [apply wpp_err|apply IH; auto].
  - destruct (assoc handle hs); [apply wpp_err|apply IH; auto].
Qed.
Lemma pd_G tk p stk mk h v (Q : option (N * N) * list (str * str) -> pst -> Prop) :
  (forall x tk' h' v', Q x (mkst tk' p stk mk h' v')) -> wpp process_directives Q (mkst tk p stk mk h v).
Proof.
  intros HQ. unfold process_directives. w1. apply wpp_bind. cbn [toks mkst]. apply dl_G.
  intros [ver hs] tk'. w1. w1. apply HQ.
Qed.

Lemma pds_G tk p stk mk h v : wpp parse_document_start (postG (GDocs :: absStk stk)) (mkst tk p stk mk h v).
Proof.
  unfold parse_document_start. w1. apply wpp_bind. cbn [toks mkst].
  apply (skip_de_G (S (S (length tk)))). intros tk'.
  w1.
  - w1. w1. cbn [pstates pmarks mkst]. destruct stk; [|exact Logic.I]. destruct mk; [|exact Logic.I].
    w1. w1. unfold postG, okfinal, G. cbn. auto.
  - w1. apply wpp_bind. apply pd_G. intros x tk'' h' v'. w1.
    + w1. w1. w1. w1. fin.
    + w1. w1.
Qed.

Ltac pnode := eapply wpp_mono; [apply parse_node_G|]; intros ?e ?s' ?H; rewrite ?absStk_push in H; cbn [absS app] in H.
Ltac step1 :=
  lazymatch goal with
  | |- wpp (pbind (parse_node _ _) _) _ _ => apply wpp_bind; pnode
  | |- wpp (parse_node _ _) _ _ => pnode
  | |- wpp parse_document_start _ _ => apply pds_G
  | |- wpp (pbind (pbind _ _) _) _ _ => apply wpp_bind
  | |- wpp (pbind _ _) _ _ => apply wpp_bind; wprim
  | |- wpp (match t_kind ?t with _ => _ end) _ _ => destruct (t_kind t)
  | |- wpp _ _ _ => wprim
  | |- postG _ _ _ => first [ eapply postN_G; [reflexivity|eassumption] | fin ]
  end; cbv beta iota; cbn [negb].
Ltac run := repeat step1.

Lemma step_G tk p stk mk h v :
  wpp step (fun r s' => match r with Some e => postG (absS p ++ absStk stk) e s' | None => False end) (mkst tk (Some p) stk mk h v).
Proof.
  unfold step. w1. cbn [pstate_ mkst]. apply wpp_bind.
  eapply wpp_mono with (Q := postG (absS p ++ absStk stk)); [|intros e s' H; apply wpp_ret; exact H].
  destruct p; cbn [absS app].
  all: run.
Qed.

(* ---------- the whole run ---------- *)
Lemma step_sim s : okfinal s ->
  match step s with
  | Ok (Some e, s') => gstep (G s) (e_kind e) = Some (G s') /\ okfinal s'
  | Ok (None, _) => G s = []
  | _ => True
  end.
Proof.
  destruct s as [tk ps stk mk h v]. intros Hf. destruct ps as [p|].
  - pose proof (step_G tk p stk mk h v) as H. unfold wpp in H. change (mkst tk (Some p) stk mk h v) with {| toks := tk; pstate_ := Some p; pstates := stk; pmarks := mk; handles := h; version_ := v |} in H.
    destruct (step _) as [[[e|] s']| | |]; auto. contradiction.
  - unfold okfinal in Hf. cbn in Hf. rewrite (Hf eq_refl). unfold step, pbind, pget, pret. cbn. reflexivity.
Qed.

Lemma loop_G fuel : forall acc s g0, grun g0 (map e_kind acc) = Some (G s) -> okfinal s ->
  exists g, grun g0 (map e_kind (fst (parse_loop fuel acc s))) = Some g /\ (snd (parse_loop fuel acc s) = Ok tt -> g = []).
Proof.
  induction fuel as [|f IH]; intros acc s g0 Hr Hf; cbn [parse_loop].
  - exists (G s). split; [exact Hr|discriminate].
  - pose proof (step_sim s Hf) as H. destruct (step s) as [[[e|] s']| | |]; cbn [fst snd].
    + destruct H as [H1 H2]. apply IH; [|exact H2]. rewrite map_app, grun_app, Hr. cbn [map grun]. rewrite H1. reflexivity.
    + exists (G s). split; [exact Hr|intros _; exact H].
    + exists (G s). split; [exact Hr|discriminate].
    + exists (G s). split; [exact Hr|discriminate].
    + exists (G s). split; [exact Hr|discriminate].
Qed.

(* the parser alone, EVERY token list and every amount of fuel: whatever the outcome, the events emitted so far are a viable
   prefix of the event grammar; and when the run ends normally the whole event list is a sentence of the grammar
   (STREAM-START (DOCUMENT-START node DOCUMENT-END)* STREAM-END with properly nested, properly paired collections) *)
Theorem parser_events_grammatical : forall ts fuel,
  viable (map e_kind (fst (parse_loop fuel [] (pinit ts)))) /\
  (snd (parse_loop fuel [] (pinit ts)) = Ok tt -> grammatical (map e_kind (fst (parse_loop fuel [] (pinit ts))))).
Proof.
  intros ts fuel. destruct (loop_G fuel [] (pinit ts) [GInit]) as (g & H1 & H2).
  - reflexivity.
  - unfold okfinal, pinit. cbn. discriminate.
  - split; [exists g; exact H1|]. intros E. unfold grammatical. rewrite H1, (H2 E). reflexivity.
Qed.
Corollary parse_all_events_grammatical : forall ts,
  viable (map e_kind (fst (parse_all ts))) /\ (snd (parse_all ts) = Ok tt -> grammatical (map e_kind (fst (parse_all ts)))).
Proof. intros ts. unfold parse_all. apply parser_events_grammatical. Qed.

(* ---------- the recogniser is sound for the declarative grammar ---------- *)
Inductive gk := KNode | KNodes | KPairs | KDocs.
Inductive lang : gk -> list ev -> Prop :=
| L_alias a : lang KNode [VAlias a]
| L_scalar a t i0 i1 v st : lang KNode [VScalar a t i0 i1 v st]
| L_seq a t i f body : lang KNodes body -> lang KNode (VSeqStart a t i f :: body ++ [VSeqEnd])
| L_map a t i f body : lang KPairs body -> lang KNode (VMapStart a t i f :: body ++ [VMapEnd])
| L_nodes_nil : lang KNodes []
| L_nodes_cons x r : lang KNode x -> lang KNodes r -> lang KNodes (x ++ r)
| L_pairs_nil : lang KPairs []
| L_pairs_cons k v r : lang KNode k -> lang KNode v -> lang KPairs r -> lang KPairs (k ++ v ++ r)
| L_docs_nil : lang KDocs []
| L_docs_cons ex ver tags n x r : lang KNode n -> lang KDocs r -> lang KDocs (VDocStart ex ver tags :: n ++ VDocEnd x :: r).
Definition stream_lang (es : list ev) : Prop := exists ds, lang KDocs ds /\ es = VStreamStart :: ds ++ [VStreamEnd].

(* the language a stack of frames still expects *)
Fixpoint sem (g : list gfr) (es : list ev) : Prop :=
  match g with
  | [] => es = []
  | GNode :: k => exists a b, es = a ++ b /\ lang KNode a /\ sem k b
  | GSeq :: k => exists a b, es = a ++ VSeqEnd :: b /\ lang KNodes a /\ sem k b
  | GMapK :: k => exists a b, es = a ++ VMapEnd :: b /\ lang KPairs a /\ sem k b
  | GMapV :: k => exists v a b, es = v ++ a ++ VMapEnd :: b /\ lang KNode v /\ lang KPairs a /\ sem k b
  | GDocEnd :: k => exists x b, es = VDocEnd x :: b /\ sem k b
  | GDocs :: k => exists ds b, es = ds ++ VStreamEnd :: b /\ lang KDocs ds /\ sem k b
  | GInit :: k => exists ds b, es = VStreamStart :: ds ++ VStreamEnd :: b /\ lang KDocs ds /\ sem k b
  end.

Lemma node_intro e k g' r : node_ev e k = Some g' -> sem g' r -> exists a b, e :: r = a ++ b /\ lang KNode a /\ sem k b.
Proof.
  destruct e; simpl; try discriminate; intros [= <-] H.
  - exists [VAlias a], r. repeat split; auto. constructor.
  - exists [VScalar anchor tag i0 i1 v st], r. repeat split; auto. constructor.
  - destruct H as (a & b & -> & Ha & Hb). exists (VSeqStart anchor tag implicit flow :: a ++ [VSeqEnd]), b. repeat split; auto.
    + simpl. rewrite <- app_assoc. reflexivity.
    + constructor; auto.
  - destruct H as (a & b & -> & Ha & Hb). exists (VMapStart anchor tag implicit flow :: a ++ [VMapEnd]), b. repeat split; auto.
    + simpl. rewrite <- app_assoc. reflexivity.
    + constructor; auto.
Qed.

Lemma gstep_sem g e g' r : gstep g e = Some g' -> sem g' r -> sem g (e :: r).
Proof.
  destruct g as [|F k]; [discriminate|]. destruct F; cbn [gstep].
  - (* GInit *) destruct e; try discriminate. intros [= <-] (ds & b & -> & Hds & Hb). exists ds, b. auto.
  - (* GDocs *) destruct e; try discriminate; intros [= <-] H.
    + exists [], r. repeat split; auto. constructor.
    + destruct H as (n & b & -> & Hn & (x & b2 & -> & (ds & b3 & -> & Hds & Hk))).
      exists (VDocStart explicit version tags :: n ++ VDocEnd x :: ds), b3. repeat split; auto.
      * simpl. rewrite <- app_assoc. reflexivity.
      * constructor; auto.
  - (* GDocEnd *) destruct e; try discriminate. intros [= <-] H. exists explicit, r. auto.
  - (* GNode *) intros H1 H2. destruct (node_intro _ _ _ _ H1 H2) as (a & b & E & Ha & Hb). exists a, b. auto.
  - (* GSeq *) intros H1 H2.
    assert (D : e = VSeqEnd \/ node_ev e (GSeq :: k) = Some g') by (destruct e; auto).
    destruct D as [->|H3].
    + injection H1 as <-. exists [], r. repeat split; auto. constructor.
    + destruct (node_intro _ _ _ _ H3 H2) as (a & b & E & Ha & (a2 & b2 & -> & Ha2 & Hb2)).
      exists (a ++ a2), b2. repeat split; auto.
      * rewrite E, <- app_assoc. reflexivity.
      * constructor; auto.
  - (* GMapK *) intros H1 H2.
    assert (D : e = VMapEnd \/ node_ev e (GMapV :: k) = Some g') by (destruct e; auto).
    destruct D as [->|H3].
    + injection H1 as <-. exists [], r. repeat split; auto. constructor.
    + destruct (node_intro _ _ _ _ H3 H2) as (a & b & E & Ha & (v & a2 & b2 & -> & Hv & Ha2 & Hb2)).
      exists (a ++ v ++ a2), b2. repeat split; auto.
      * rewrite E, <- !app_assoc. reflexivity.
      * constructor; auto.
  - (* GMapV *) intros H1 H2.
    destruct (node_intro _ _ _ _ H1 H2) as (a & b & E & Ha & (a2 & b2 & -> & Ha2 & Hb2)).
    exists a, a2, b2. repeat split; auto.
Qed.

Lemma grun_sem es : forall g, grun g es = Some [] -> sem g es.
Proof.
  induction es as [|e r IH]; intros g; cbn [grun].
  - intros [= ->]. reflexivity.
  - destruct (gstep g e) as [g'|] eqn:E; [|discriminate]. intros H. eapply gstep_sem; eauto.
Qed.

Theorem grammatical_sound es : grammatical es -> stream_lang es.
Proof.
  intros H. apply grun_sem in H. destruct H as (ds & b & -> & Hds & Hb). simpl in Hb. subst b.
  exists ds. auto.
Qed.

(* every token list: a normal end of the parser's run means the events form a sentence of the declarative event grammar *)
Theorem parser_events_in_grammar : forall ts, snd (parse_all ts) = Ok tt -> stream_lang (map e_kind (fst (parse_all ts))).
Proof. intros ts H. apply grammatical_sound. apply parse_all_events_grammatical. exact H. Qed.
