(* C15 lemmas on the emitter model (Model/Emit.v). *)
From Coq Require Import List NArith ZArith Bool Arith Lia.
Import ListNotations.
Require Import Emit.

Lemma str_eqb_true a : forall b, str_eqb a b = true -> a = b.
Proof. induction a as [|x a IH]; intros [|y b]; simpl; try discriminate; auto. intros H. apply andb_prop in H as [H1 H2]. apply N.eqb_eq in H1. subst. f_equal. auto. Qed.

(* option normalisation of Emitter.__init__ (emitter.py:85-101) *)
Lemma l_opts_normalised canon uni ind width lb :
  let s := init canon uni ind width lb in
  2 <= best_indent s <= 9 /\
  (forall i, ind = Some i -> 2 <= i <= 9 -> best_indent s = i) /\
  ((ind = None \/ exists i, ind = Some i /\ (i < 2 \/ 9 < i)) -> best_indent s = 2) /\
  2 * best_indent s < best_width s /\
  (forall w, width = Some w -> 2 * best_indent s < w -> best_width s = w) /\
  (best_lb s = [13%N] \/ best_lb s = [10%N] \/ best_lb s = [13; 10]%N) /\
  canonical s = canon /\ allow_unicode s = uni.
Proof.
  cbn [init best_indent best_width best_lb canonical allow_unicode].
  assert (B : 2 <= match ind with Some i => if Nat.ltb 1 i && Nat.ltb i 10 then i else 2 | None => 2 end <= 9).
  { destruct ind as [i|]; [|lia]. destruct (Nat.ltb_spec 1 i); destruct (Nat.ltb_spec i 10); simpl; lia. }
  set (bi := match ind with Some i => if Nat.ltb 1 i && Nat.ltb i 10 then i else 2 | None => 2 end) in *.
  repeat split; try lia.
  - intros i -> Hi. unfold bi. destruct (Nat.ltb_spec 1 i); destruct (Nat.ltb_spec i 10); simpl; lia.
  - intros [->|(i & -> & Hi)]; unfold bi; auto. destruct (Nat.ltb_spec 1 i); destruct (Nat.ltb_spec i 10); simpl; lia.
  - destruct width as [w|]; [|lia]. destruct (Nat.ltb_spec (bi * 2) w); lia.
  - intros w -> Hw. destruct (Nat.ltb_spec (bi * 2) w); lia.
  - destruct (str_eqb lb [13%N]) eqn:E1; [left; apply str_eqb_true; exact E1|].
    destruct (str_eqb lb [10%N]) eqn:E2; [right; left; apply str_eqb_true; exact E2|].
    destruct (str_eqb lb [13; 10]%N) eqn:E3; simpl; [right; right; apply str_eqb_true; exact E3|right; left; reflexivity].
Qed.

(* block indentation: every indent on the stack, and the current one, is a multiple of best_indent; increase_indent / pop_indent keep that *)
Definition opt_mult (b : nat) (x : option nat) : Prop := forall i, x = Some i -> Nat.divide b i.
Definition ind_ok (s : st) : Prop := opt_mult (best_indent s) (indent s) /\ Forall (opt_mult (best_indent s)) (indents s).
Lemma l_init_ind_ok canon uni ind width lb : ind_ok (init canon uni ind width lb).
Proof. unfold ind_ok, opt_mult. cbn [init indent indents]. split; [discriminate|constructor]. Qed.
Lemma l_increase_indent_ok flow indentless s : ind_ok s ->
  exists s', increase_indent flow indentless s = Ok (tt, s') /\ ind_ok s' /\ best_indent s' = best_indent s.
Proof.
  intros [H1 H2]. unfold increase_indent, modify. eexists. split; [reflexivity|].
  destruct (indent s) as [i|] eqn:E; [destruct indentless|]; unfold ind_ok, with_indent; cbn [best_indent indent indents]; (split; [split|reflexivity]).
  - intros j Hj. injection Hj as <-. apply H1. reflexivity.
  - apply Forall_app. split; [exact H2|]. constructor; [|constructor]. intros j Hj. injection Hj as <-. apply H1; reflexivity.
  - intros j Hj. injection Hj as <-. apply Nat.divide_add_r; [apply H1; reflexivity|apply Nat.divide_refl].
  - apply Forall_app. split; [exact H2|]. constructor; [|constructor]. intros j Hj. injection Hj as <-. apply H1; reflexivity.
  - intros j Hj. injection Hj as <-. destruct flow; [apply Nat.divide_refl|apply Nat.divide_0_r].
  - apply Forall_app. split; [exact H2|]. constructor; [|constructor]. intros j Hj. discriminate.
Qed.


(* ---------- the emitter consumes events strictly left to right: what is written for a prefix of the event stream is decided by that prefix alone,
   and a failing event ends the run with exactly what had been written (C12 prefix stability, C19 writes-before-fault) ---------- *)
Fixpoint emit_state (evs : list event) (s : st) : st + (list (list N) * res unit) :=
  match evs with
  | [] => inl s
  | e :: evs' => match emit1 e s with
                 | Ok (_, s') => emit_state evs' s'
                 | EmitErr c o => inr (rev o, EmitErr c o) | Crash x o => inr (rev o, Crash x o) | OutOfFuel => inr (rev (out s), OutOfFuel) end
  end.
Lemma l_emit_all_app es1 : forall es2 s,
  emit_all (es1 ++ es2) s = match emit_state es1 s with inl s' => emit_all es2 s' | inr r => r end.
Proof.
  induction es1 as [|e es1 IH]; intros es2 s; cbn [app emit_all emit_state]; [reflexivity|].
  destruct (emit1 e s) as [[u s']|c o|x o|]; try reflexivity. apply IH.
Qed.
Lemma l_emit_all_prefix_error es1 es2 s r : emit_state es1 s = inr r -> emit_all (es1 ++ es2) s = r.
Proof. intros H. rewrite l_emit_all_app, H. reflexivity. Qed.
