Require Import Reader.
Require Extraction.
Require Import ExtrOcamlBasic.
Extraction "reader_ext.ml" run_str run_bytes run_stream.
