Require Import Scan Parse.
Require Extraction.
Require Import ExtrOcamlBasic.
Extraction "parse_ext.ml" parse_all scan_all.
