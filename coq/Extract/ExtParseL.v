Require Import ParseL.
Require Extraction.
Require Import ExtrOcamlBasic.
Extraction "parsel_ext.ml" parse_all.
