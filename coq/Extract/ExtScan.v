Require Import Scan.
Require Extraction.
Require Import ExtrOcamlBasic.
Extraction "scan_ext.ml" scan_all.
