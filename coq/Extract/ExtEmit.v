Require Import Emit.
Require Extraction.
Require Import ExtrOcamlBasic.
Extraction "emit_ext.ml" emit_all init.
