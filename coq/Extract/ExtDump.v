Require Import Represent.
Require Extraction.
Require Import ExtrOcamlBasic.
Extraction "dump_ext.ml" dump_doc.
