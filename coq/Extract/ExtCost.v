Require Import CostScan.
Require Extraction.
Require Import ExtrOcamlBasic.
Extraction "cost_ext.ml" CostScan.scan_all.
