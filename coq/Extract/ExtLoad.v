Require Import Construct.
Require Extraction.
Require Import ExtrOcamlBasic.
Extraction "load_ext.ml" load_all.
