Require Import Regex GenRegex.
From Coq Require Import List NArith.
Definition match_nth (i : nat) (w : list N) : bool :=
  match nth_error resolvers i with Some (_, r, _, _) => matches r w | None => false end.
Definition match_ts (w : list N) : bool := matches re_ctor_timestamp w.
Definition is_non_printable (c : N) : bool := cin c non_printable.
Require Extraction. Require Import ExtrOcamlBasic.
Extraction "rx_ext.ml" match_nth match_ts is_non_printable.
