(* Frozen policy for library-global state (C11) and exception handlers (C19). *)
From Coq Require Import List String Bool.
Import ListNotations.
Open Scope string_scope.
Fixpoint in_str (x : string) (l : list string) : bool := match l with [] => false | y :: r => String.eqb x y || in_str x r end.
Definition registry_tables := ["yaml_constructors"; "yaml_multi_constructors"; "yaml_representers"; "yaml_multi_representers"; "yaml_implicit_resolvers"; "yaml_path_resolvers"].
Definition registration_functions := ["add_constructor"; "add_multi_constructor"; "add_representer"; "add_multi_representer"; "add_implicit_resolver"; "add_path_resolver"].
(* a write to a module/class-level container (or to an attribute that may alias one) is allowed only (a) inside the registration API on a
   registry table, or (b) after the enclosing function has rebound that attribute to a fresh literal *)
Definition site_ok (x : string * string * string * string * bool) : bool :=
  let '(m, f, attr, op, fresh_before) := x in fresh_before || (in_str f registration_functions && in_str attr registry_tables).
Definition expected_alias_edges : list (string * string * string * string) := [("parser", "parse_implicit_document_start", "tag_handles", "DEFAULT_TAGS")].
Fixpoint edges_eqb (a b : list (string * string * string * string)) : bool :=
  match a, b with
  | [], [] => true
  | (a1, a2, a3, a4) :: a', (b1, b2, b3, b4) :: b' => String.eqb a1 b1 && String.eqb a2 b2 && String.eqb a3 b3 && String.eqb a4 b4 && edges_eqb a' b'
  | _, _ => false end.

(* handlers: no bare / Exception / BaseException handler; nothing is swallowed except the two known sites; `finally` blocks only dispose *)
Definition caught_ok (c : string) : bool := in_str c ["UnicodeEncodeError"; "binascii.Error"; "ImportError"; "IndexError"; "UnicodeDecodeError"; "TypeError"; "FINALLY"].
Definition swallow_ok (m f c g : string) : bool :=
  (String.eqb m "reader" && String.eqb f "peek" && String.eqb c "IndexError") || (String.eqb m "representer" && String.eqb f "represent_mapping" && String.eqb c "TypeError" && String.eqb g "sorted").
Definition handler_ok (x : string * string * string * string * string) : bool :=
  let '(m, f, c, action, guarded) := x in
  caught_ok c &&
  (if String.eqb c "FINALLY" then in_str action ["loader.dispose"; "dumper.dispose"]
   else if String.eqb action "SWALLOW" then swallow_ok m f c guarded
   else in_str action ["ConstructorError"; "ReaderError"; "ScannerError"]).

(* the complete list of (module, function, caught class, action) of the pinned tree: a NEW try/except anywhere in lib/yaml is an obligation to look at *)
Definition expected_handlers : list (string * string * string * string) :=
  [("__init__", "scan", "FINALLY", "loader.dispose"); ("__init__", "parse", "FINALLY", "loader.dispose"); ("__init__", "compose", "FINALLY", "loader.dispose");
   ("__init__", "compose_all", "FINALLY", "loader.dispose"); ("__init__", "load", "FINALLY", "loader.dispose"); ("__init__", "load_all", "FINALLY", "loader.dispose");
   ("__init__", "emit", "FINALLY", "dumper.dispose"); ("__init__", "serialize_all", "FINALLY", "dumper.dispose"); ("__init__", "dump_all", "FINALLY", "dumper.dispose");
   ("constructor", "construct_yaml_binary", "UnicodeEncodeError", "ConstructorError"); ("constructor", "construct_yaml_binary", "binascii.Error", "ConstructorError");
   ("constructor", "construct_python_bytes", "UnicodeEncodeError", "ConstructorError"); ("constructor", "construct_python_bytes", "binascii.Error", "ConstructorError");
   ("constructor", "find_python_module", "ImportError", "ConstructorError"); ("constructor", "find_python_name", "ImportError", "ConstructorError");
   ("reader", "peek", "IndexError", "SWALLOW"); ("reader", "update", "UnicodeDecodeError", "ReaderError");
   ("representer", "represent_mapping", "TypeError", "SWALLOW"); ("scanner", "scan_uri_escapes", "UnicodeDecodeError", "ScannerError")].
Fixpoint handlers_eqb (a : list (string * string * string * string * string)) (b : list (string * string * string * string)) : bool :=
  match a, b with
  | [], [] => true
  | (a1, a2, a3, a4, _) :: a', (b1, b2, b3, b4) :: b' => String.eqb a1 b1 && String.eqb a2 b2 && String.eqb a3 b3 && String.eqb a4 b4 && handlers_eqb a' b'
  | _, _ => false end.
