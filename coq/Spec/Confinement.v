(* Frozen policy for the confinement theorems (C01, C04): which leaf calls the constructor code of a loader may make and which
   methods it may reach.  A regenerated call graph that leaves this policy breaks an obligation (fail closed). *)
From Coq Require Import List String Bool.
Import ListNotations.
Require Import CallGraph.
Open Scope string_scope.

Definition plain_builtins : list string :=
  ["ConstructorError"; "isinstance"; "len"; "set"; "int"; "float"; "next"; "hasattr"; "str"; "bool"; "list"; "dict"; "tuple"; "range"; "enumerate"; "sorted"; "bytes"; "ord"; "chr"; "ValueError";
   (* further builtins that build no object of a document-chosen class, import nothing and call nothing they are given *)
   "reversed"; "min"; "max"; "sum"; "abs"; "any"; "all"; "zip"; "iter"; "frozenset"; "divmod"; "repr"; "callable"; "slice"; "TypeError"; "KeyError"; "IndexError"; "OverflowError"].
Definition plain_modules : list string := ["datetime"; "base64"; "binascii"; "re"].
Definition data_methods : list string :=          (* methods of str / list / dict / set / re objects *)
  ["update"; "extend"; "append"; "reverse"; "match"; "groupdict"; "encode"; "lower"; "replace"; "split"; "rsplit"; "startswith"; "get"; "items"; "keys";
   "values"; "insert"; "pop"; "add"; "join"; "strip"; "ljust"; "copy"; "decode"; "upper"; "endswith"; "format"].
Definition composer_api : list string := ["check_node"; "get_node"; "get_single_node"].
Definition instantiating_methods : list string :=
  ["FullConstructor.make_python_instance"; "FullConstructor.set_python_instance_state"; "FullConstructor.find_python_module"; "FullConstructor.construct_python_module";
   "FullConstructor.construct_python_object"; "FullConstructor.construct_python_object_apply"; "FullConstructor.construct_python_object_new";
   "UnsafeConstructor.make_python_instance"; "UnsafeConstructor.set_python_instance_state"; "UnsafeConstructor.find_python_module"; "UnsafeConstructor.find_python_name"].

Definition leaf_ok (extra_builtins extra_methods : list string) (x : string * call) : bool :=
  let c := snd x in
  negb (c_unsafe_kw c) &&
  match c_kind c with
  | CGlob => in_s (c_name c) (plain_builtins ++ extra_builtins)
  | CAttr => in_s (c_obj c) plain_modules
  | CMeth => in_s (c_name c) (data_methods ++ extra_methods)
  | CSelf => in_s (c_name c) composer_api
  | CSuper | CDyn | CDispatch => false
  end.

(* safe / base loaders: plain data only *)
Definition safe_leaf_ok := leaf_ok [] [].
Definition safe_method_ok (q : string) : bool :=
  negb (in_s q instantiating_methods) && negb (in_s q ["FullConstructor.find_python_name"; "FullConstructor.construct_python_name"]).
(* full loader: may read attributes of already-imported modules (getattr/hasattr), build tuples and complex numbers *)
Definition full_leaf_ok := leaf_ok ["getattr"; "complex"] [].
Definition full_method_ok (q : string) : bool := negb (in_s q instantiating_methods).

Definition confined (leaf : string * call -> bool) (meth : string -> bool) (r : option (list string * list (string * call))) : bool :=
  match r with None => false | Some (seen, leaves) => forallb meth seen && forallb leaf leaves end.

(* tag vocabulary *)
Definition core_tags : list string :=
  map (fun s => "tag:yaml.org,2002:" ++ s) ["null"; "bool"; "int"; "float"; "binary"; "timestamp"; "omap"; "pairs"; "set"; "str"; "seq"; "map"].
Definition object_prefixes : list string :=
  map (fun s => "tag:yaml.org,2002:python/" ++ s) ["object:"; "object/new:"; "object/apply:"; "module:"].
Definition instantiating_multi : list string :=
  ["FullConstructor.construct_python_module"; "FullConstructor.construct_python_object"; "FullConstructor.construct_python_object_new"; "FullConstructor.construct_python_object_apply"].
