(* Abstract model of the copy/pickle reduction protocol as PyYAML uses it (C17).
   A reduce tuple is (function, args, state, listitems, dictitems).  Two rebuild procedures map it to a sequence of abstract object
   operations:  pickle protocol 2 (REDUCE/NEWOBJ, then APPENDS, SETITEMS, then BUILD)  and  YAML (represent_object, representer.py:296-356,
   followed by construct_python_object / construct_python_object_apply, constructor.py:609-657).  Values are opaque (nat ids). *)
From Coq Require Import List Bool Arith.
Import ListNotations.

Definition v := nat.
Inductive state := StNone | StDict (nonempty : bool) | StOther (truthy : bool).     (* None / a dict (empty or not) / any other object (falsy or truthy) *)
Record reduce := { newobj : bool; args : list v; st : state; listitems : option (list v); dictitems : option (list (v * v)) }.
Inductive op := Create (by_new : bool) (a : list v) | SetState (s : state) | Extend (xs : list v) | SetItems (kvs : list (v * v)).

(* pickle protocol 2: object, list items (if not None), dict items (if not None), then the state (if not None) *)
Definition pickle_ops (r : reduce) : list op :=
  [Create (newobj r) (args r)] ++
  (match listitems r with Some (x :: xs) => [Extend (x :: xs)] | _ => [] end) ++      (* an empty iterator emits no APPENDS *)
  (match dictitems r with Some (kv :: kvs) => [SetItems (kv :: kvs)] | _ => [] end) ++
  (match st r with StNone => [] | s => [SetState s] end).

(* YAML: represent_object normalises (state None -> {}), picks one of three node shapes by truthiness tests; the constructors rebuild.
   The node carries: args, state (present iff `state or not isinstance(state, dict)`), listitems (iff truthy), dictitems (iff truthy). *)
Definition truthy_list {A} (l : option (list A)) : bool := match l with Some (_ :: _) => true | _ => false end.
Definition state_truthy (s : state) : bool := match s with StNone => false | StDict b => b | StOther b => b end.
Definition yaml_ops (r : reduce) : list op :=
  let s := match st r with StNone => StDict false | s => s end in              (* if state is None: state = {} *)
  let is_dict := match s with StDict _ => true | _ => false end in
  let has_items := truthy_list (listitems r) || truthy_list (dictitems r) in
  if negb (match args r with [] => false | _ => true end) && negb has_items && is_dict && newobj r then
    (* !!python/object:cls {state}  ->  construct_python_object: __new__, then set_python_instance_state(state) (dict.update / __setstate__) *)
    [Create true []; SetState s]
  else if negb has_items && is_dict && negb (state_truthy s) then
    (* !!python/object/{new,apply}:f [args] *)
    [Create (newobj r) (args r)]
  else
    (* mapping form: the node has `state` iff `state or not isinstance(state, dict)`; apply tests `if state:` `if listitems:` `if dictitems:` *)
    [Create (newobj r) (args r)] ++
    (if state_truthy s then [SetState s] else []) ++                               (* applied FIRST, and only if truthy *)
    (match listitems r with Some (x :: xs) => [Extend (x :: xs)] | _ => [] end) ++
    (match dictitems r with Some (kv :: kvs) => [SetItems (kv :: kvs)] | _ => [] end).

(* what an object "is" once rebuilt, for classes whose state application and item insertion commute: the record of what was applied *)
Record built := { b_new : bool; b_args : list v; b_state : option state; b_items : list v; b_ditems : list (v * v) }.
Definition apply_op (b : built) (o : op) : built :=
  match o with
  | Create n a => {| b_new := n; b_args := a; b_state := b_state b; b_items := b_items b; b_ditems := b_ditems b |}
  | SetState s => {| b_new := b_new b; b_args := b_args b; b_state := Some s; b_items := b_items b; b_ditems := b_ditems b |}
  | Extend xs => {| b_new := b_new b; b_args := b_args b; b_state := b_state b; b_items := b_items b ++ xs; b_ditems := b_ditems b |}
  | SetItems k => {| b_new := b_new b; b_args := b_args b; b_state := b_state b; b_items := b_items b; b_ditems := b_ditems b ++ k |}
  end.
Definition build (ops : list op) : built := fold_left apply_op ops {| b_new := false; b_args := []; b_state := None; b_items := []; b_ditems := [] |}.

(* an empty dict state applied to a fresh object changes nothing: identify "no state" and "empty dict" *)
Definition norm_state (s : option state) : option state := match s with Some (StDict false) => None | s => s end.
Definition same_object (a b : built) : Prop :=
  b_args a = b_args b /\ norm_state (b_state a) = norm_state (b_state b) /\ b_items a = b_items b /\ b_ditems a = b_ditems b.
