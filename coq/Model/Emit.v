(* Spike: executable Gallina model of lib/yaml/emitter.py (text output, no byte encoding). *)
From Coq Require Import List NArith ZArith Bool Arith Lia.
Import ListNotations.

Definition cp := N.
Definition str := list cp.

Inductive sstyle := StDouble | StSingle | StLiteral | StFolded.     (* event.style when truthy *)
Inductive event :=
| EStreamStart | EStreamEnd
| EDocStart (explicit : bool) (version : option (N * N)) (tags : list (str * str))
| EDocEnd (explicit : bool)
| EAlias (anchor : option str)
| EScalar (anchor : option str) (tag : option str) (impl0 impl1 : bool) (value : str) (style : option sstyle)
| ESeqStart (anchor : option str) (tag : option str) (implicit : bool) (flow : bool)
| ESeqEnd
| EMapStart (anchor : option str) (tag : option str) (implicit : bool) (flow : bool)
| EMapEnd.

Inductive estate :=
| XStreamStart | XNothing | XFirstDocStart | XDocStart | XDocEnd | XDocRoot
| XFirstFlowSeqItem | XFlowSeqItem | XFirstFlowMapKey | XFlowMapKey | XFlowMapSimpleValue | XFlowMapValue
| XFirstBlockSeqItem | XBlockSeqItem | XFirstBlockMapKey | XBlockMapKey | XBlockMapSimpleValue | XBlockMapValue.

Record analysis := {
  a_scalar : str; a_empty : bool; a_multiline : bool; a_flow_plain : bool; a_block_plain : bool;
  a_single : bool; a_double : bool; a_block : bool }.

Inductive chosen := ChPlain | ChDouble | ChSingle | ChLiteral | ChFolded.

Record st := {
  states : list estate; state : estate; events : list event; cur_ev : option event;
  indents : list (option nat); indent : option nat; flow_level : nat;
  root_ctx : bool; seq_ctx : bool; map_ctx : bool; sk_ctx : bool;
  eline : nat; column : nat; whitespace : bool; indention : bool; open_ended : bool;
  canonical : bool; allow_unicode : bool; best_indent : nat; best_width : nat; best_lb : str;
  tag_prefixes : list (str * str);           (* prefix -> handle *)
  prep_anchor : option str; prep_tag : option str; anal : option analysis; sty : option chosen;
  out : list str }.                          (* write() chunks, newest first *)

Inductive pyexn := IndexError | TypeError | ValueError.
Inductive res (A : Type) := Ok (a : A) | EmitErr (code : nat) (o : list (list N)) | Crash (e : pyexn) (o : list (list N)) | OutOfFuel.
Arguments Ok {A}. Arguments EmitErr {A}. Arguments Crash {A}. Arguments OutOfFuel {A}.

Definition M (A : Type) := st -> res (A * st).
Definition ret {A} (a : A) : M A := fun s => Ok (a, s).
Definition bind {A B} (m : M A) (k : A -> M B) : M B :=
  fun s => match m s with Ok (a, s') => k a s' | EmitErr c o => EmitErr c o | Crash e o => Crash e o | OutOfFuel => OutOfFuel end.
Notation "x <- m ;; k" := (bind m (fun x => k)) (at level 61, m at next level, right associativity).
Notation "m ;;; k" := (bind m (fun _ => k)) (at level 61, right associativity).
Definition get : M st := fun s => Ok (s, s).
Definition err {A} (c : nat) : M A := fun s => EmitErr c (out s).
Definition crash {A} (e : pyexn) : M A := fun s => Crash e (out s).
Definition nofuel {A} : M A := fun _ => OutOfFuel.
Definition modify (f : st -> st) : M unit := fun s => Ok (tt, f s).

(* field updates *)
Definition with_states v s := {| states := v; state := state s; events := events s; cur_ev := cur_ev s; indents := indents s; indent := indent s; flow_level := flow_level s; root_ctx := root_ctx s; seq_ctx := seq_ctx s; map_ctx := map_ctx s; sk_ctx := sk_ctx s; eline := eline s; column := column s; whitespace := whitespace s; indention := indention s; open_ended := open_ended s; canonical := canonical s; allow_unicode := allow_unicode s; best_indent := best_indent s; best_width := best_width s; best_lb := best_lb s; tag_prefixes := tag_prefixes s; prep_anchor := prep_anchor s; prep_tag := prep_tag s; anal := anal s; sty := sty s; out := out s |}.
Definition with_state v s := {| states := states s; state := v; events := events s; cur_ev := cur_ev s; indents := indents s; indent := indent s; flow_level := flow_level s; root_ctx := root_ctx s; seq_ctx := seq_ctx s; map_ctx := map_ctx s; sk_ctx := sk_ctx s; eline := eline s; column := column s; whitespace := whitespace s; indention := indention s; open_ended := open_ended s; canonical := canonical s; allow_unicode := allow_unicode s; best_indent := best_indent s; best_width := best_width s; best_lb := best_lb s; tag_prefixes := tag_prefixes s; prep_anchor := prep_anchor s; prep_tag := prep_tag s; anal := anal s; sty := sty s; out := out s |}.
Definition with_events v s := {| states := states s; state := state s; events := v; cur_ev := cur_ev s; indents := indents s; indent := indent s; flow_level := flow_level s; root_ctx := root_ctx s; seq_ctx := seq_ctx s; map_ctx := map_ctx s; sk_ctx := sk_ctx s; eline := eline s; column := column s; whitespace := whitespace s; indention := indention s; open_ended := open_ended s; canonical := canonical s; allow_unicode := allow_unicode s; best_indent := best_indent s; best_width := best_width s; best_lb := best_lb s; tag_prefixes := tag_prefixes s; prep_anchor := prep_anchor s; prep_tag := prep_tag s; anal := anal s; sty := sty s; out := out s |}.
Definition with_event v s := {| states := states s; state := state s; events := events s; cur_ev := v; indents := indents s; indent := indent s; flow_level := flow_level s; root_ctx := root_ctx s; seq_ctx := seq_ctx s; map_ctx := map_ctx s; sk_ctx := sk_ctx s; eline := eline s; column := column s; whitespace := whitespace s; indention := indention s; open_ended := open_ended s; canonical := canonical s; allow_unicode := allow_unicode s; best_indent := best_indent s; best_width := best_width s; best_lb := best_lb s; tag_prefixes := tag_prefixes s; prep_anchor := prep_anchor s; prep_tag := prep_tag s; anal := anal s; sty := sty s; out := out s |}.
Definition with_indent (is : list (option nat)) (i : option nat) s := {| states := states s; state := state s; events := events s; cur_ev := cur_ev s; indents := is; indent := i; flow_level := flow_level s; root_ctx := root_ctx s; seq_ctx := seq_ctx s; map_ctx := map_ctx s; sk_ctx := sk_ctx s; eline := eline s; column := column s; whitespace := whitespace s; indention := indention s; open_ended := open_ended s; canonical := canonical s; allow_unicode := allow_unicode s; best_indent := best_indent s; best_width := best_width s; best_lb := best_lb s; tag_prefixes := tag_prefixes s; prep_anchor := prep_anchor s; prep_tag := prep_tag s; anal := anal s; sty := sty s; out := out s |}.
Definition with_flow v s := {| states := states s; state := state s; events := events s; cur_ev := cur_ev s; indents := indents s; indent := indent s; flow_level := v; root_ctx := root_ctx s; seq_ctx := seq_ctx s; map_ctx := map_ctx s; sk_ctx := sk_ctx s; eline := eline s; column := column s; whitespace := whitespace s; indention := indention s; open_ended := open_ended s; canonical := canonical s; allow_unicode := allow_unicode s; best_indent := best_indent s; best_width := best_width s; best_lb := best_lb s; tag_prefixes := tag_prefixes s; prep_anchor := prep_anchor s; prep_tag := prep_tag s; anal := anal s; sty := sty s; out := out s |}.
Definition with_ctx (r q m k : bool) s := {| states := states s; state := state s; events := events s; cur_ev := cur_ev s; indents := indents s; indent := indent s; flow_level := flow_level s; root_ctx := r; seq_ctx := q; map_ctx := m; sk_ctx := k; eline := eline s; column := column s; whitespace := whitespace s; indention := indention s; open_ended := open_ended s; canonical := canonical s; allow_unicode := allow_unicode s; best_indent := best_indent s; best_width := best_width s; best_lb := best_lb s; tag_prefixes := tag_prefixes s; prep_anchor := prep_anchor s; prep_tag := prep_tag s; anal := anal s; sty := sty s; out := out s |}.
Definition with_pos (l c : nat) (w i : bool) s := {| states := states s; state := state s; events := events s; cur_ev := cur_ev s; indents := indents s; indent := indent s; flow_level := flow_level s; root_ctx := root_ctx s; seq_ctx := seq_ctx s; map_ctx := map_ctx s; sk_ctx := sk_ctx s; eline := l; column := c; whitespace := w; indention := i; open_ended := open_ended s; canonical := canonical s; allow_unicode := allow_unicode s; best_indent := best_indent s; best_width := best_width s; best_lb := best_lb s; tag_prefixes := tag_prefixes s; prep_anchor := prep_anchor s; prep_tag := prep_tag s; anal := anal s; sty := sty s; out := out s |}.
Definition with_open v s := {| states := states s; state := state s; events := events s; cur_ev := cur_ev s; indents := indents s; indent := indent s; flow_level := flow_level s; root_ctx := root_ctx s; seq_ctx := seq_ctx s; map_ctx := map_ctx s; sk_ctx := sk_ctx s; eline := eline s; column := column s; whitespace := whitespace s; indention := indention s; open_ended := v; canonical := canonical s; allow_unicode := allow_unicode s; best_indent := best_indent s; best_width := best_width s; best_lb := best_lb s; tag_prefixes := tag_prefixes s; prep_anchor := prep_anchor s; prep_tag := prep_tag s; anal := anal s; sty := sty s; out := out s |}.
Definition with_prefixes v s := {| states := states s; state := state s; events := events s; cur_ev := cur_ev s; indents := indents s; indent := indent s; flow_level := flow_level s; root_ctx := root_ctx s; seq_ctx := seq_ctx s; map_ctx := map_ctx s; sk_ctx := sk_ctx s; eline := eline s; column := column s; whitespace := whitespace s; indention := indention s; open_ended := open_ended s; canonical := canonical s; allow_unicode := allow_unicode s; best_indent := best_indent s; best_width := best_width s; best_lb := best_lb s; tag_prefixes := v; prep_anchor := prep_anchor s; prep_tag := prep_tag s; anal := anal s; sty := sty s; out := out s |}.
Definition with_prep (a t : option str) (an : option analysis) (y : option chosen) s := {| states := states s; state := state s; events := events s; cur_ev := cur_ev s; indents := indents s; indent := indent s; flow_level := flow_level s; root_ctx := root_ctx s; seq_ctx := seq_ctx s; map_ctx := map_ctx s; sk_ctx := sk_ctx s; eline := eline s; column := column s; whitespace := whitespace s; indention := indention s; open_ended := open_ended s; canonical := canonical s; allow_unicode := allow_unicode s; best_indent := best_indent s; best_width := best_width s; best_lb := best_lb s; tag_prefixes := tag_prefixes s; prep_anchor := a; prep_tag := t; anal := an; sty := y; out := out s |}.
Definition with_out v s := {| states := states s; state := state s; events := events s; cur_ev := cur_ev s; indents := indents s; indent := indent s; flow_level := flow_level s; root_ctx := root_ctx s; seq_ctx := seq_ctx s; map_ctx := map_ctx s; sk_ctx := sk_ctx s; eline := eline s; column := column s; whitespace := whitespace s; indention := indention s; open_ended := open_ended s; canonical := canonical s; allow_unicode := allow_unicode s; best_indent := best_indent s; best_width := best_width s; best_lb := best_lb s; tag_prefixes := tag_prefixes s; prep_anchor := prep_anchor s; prep_tag := prep_tag s; anal := anal s; sty := sty s; out := v |}.

(* ---------- characters / strings ---------- *)
Open Scope N_scope.
Definition mem (c : cp) (s : str) : bool := existsb (N.eqb c) s.
Definition SP := 32. Definition LF := 10. Definition NEL := 133. Definition LS := 8232. Definition PS := 8233.
Definition blankz : str := [0; 32; 9; 13; 10; 133; 8232; 8233].
Definition brk4 : str := [LF; NEL; LS; PS].                       (* '\n\x85  ' *)
Fixpoint str_eqb (a b : str) : bool :=
  match a, b with [], [] => true | x :: a', y :: b' => (x =? y) && str_eqb a' b' | _, _ => false end.
Fixpoint starts_with (p s : str) : bool :=
  match p, s with [] , _ => true | x :: p', y :: s' => (x =? y) && starts_with p' s' | _, _ => false end.
Definition is_alnum_ (c : cp) : bool :=
  ((48 <=? c) && (c <=? 57)) || ((65 <=? c) && (c <=? 90)) || ((97 <=? c) && (c <=? 122)) || (c =? 45) || (c =? 95).
Definition hexdigit (n : N) : cp := if n <? 10 then 48 + n else 55 + n.
Definition hex2 (n : N) : str := [hexdigit (n / 16 mod 16); hexdigit (n mod 16)].
Definition hex4 (n : N) : str := hex2 (n / 256) ++ hex2 (n mod 256).
Definition hex8 (n : N) : str := hex4 (n / 65536) ++ hex4 (n mod 65536).
Definition utf8_encode (c : cp) : list N :=
  if c <? 128 then [c]
  else if c <? 2048 then [192 + c / 64; 128 + c mod 64]
  else if c <? 65536 then [224 + c / 4096; 128 + (c / 64) mod 64; 128 + c mod 64]
  else [240 + c / 262144; 128 + (c / 4096) mod 64; 128 + (c / 64) mod 64; 128 + c mod 64].
Definition pct_escape (c : cp) : str := flat_map (fun b => 37 :: hex2 b) (utf8_encode c).
Fixpoint dec_digits (fuel : nat) (n : N) (acc : str) : str :=
  match fuel with O => acc | S f => if n <? 10 then (48 + n) :: acc else dec_digits f (n / 10) ((48 + n mod 10) :: acc) end.
Definition dec (n : N) : str := dec_digits 40 n [].
Close Scope N_scope.
Definition slice (t : str) (a b : nat) : str := firstn (b - a) (skipn a t).
Definition nth_cp (t : str) (i : nat) : option cp := nth_error t i.

(* ---------- low-level writers (emitter.py:788-851) ---------- *)
Definition write (data : str) : M unit := modify (fun s => with_out (data :: out s) s).
Definition write_col (data : str) : M unit :=                       (* self.column += len(data); write *)
  modify (fun s => with_out (data :: out s) (with_pos (eline s) (column s + length data) (whitespace s) (indention s) s)).

Definition write_indicator (ind : str) (need_ws : bool) (ws : bool) (indn : bool) : M unit :=
  s <- get ;;
  let data := if whitespace s || negb need_ws then ind else SP :: ind in
  modify (fun s => with_open false (with_pos (eline s) (column s + length data) ws (indention s && indn) s)) ;;;
  write data.

Definition write_line_break (data : option str) : M unit :=
  s <- get ;;
  let d := match data with Some d => d | None => best_lb s end in
  modify (fun s => with_pos (S (eline s)) 0 true true s) ;;;
  write d.

Definition write_indent : M unit :=
  s <- get ;;
  let ind := match indent s with Some i => i | None => 0 end in
  (if negb (indention s) || Nat.ltb ind (column s) || (Nat.eqb (column s) ind && negb (whitespace s))
   then write_line_break None else ret tt) ;;;
  s <- get ;;
  if Nat.ltb (column s) ind then
    let data := repeat SP (ind - column s) in
    modify (fun s => with_pos (eline s) ind true (indention s) s) ;;; write data
  else ret tt.

(* ---------- analysis (emitter.py:626-784) ---------- *)
Open Scope N_scope.
Definition lead_ind : str := [35;44;91;93;123;125;38;42;33;124;62;39;34;37;64;96].   (* leading indicator characters *)
Definition is_unicode_ok (ch : cp) : bool :=
  (((160 <=? ch) && (ch <=? 55295)) || ((57344 <=? ch) && (ch <=? 65533)) || ((65536 <=? ch) && (ch <? 1114111)))
  && negb (ch =? 65279).
Close Scope N_scope.

Record aflags := { block_ind : bool; flow_ind : bool; line_brk : bool; special : bool;
  lead_sp : bool; lead_br : bool; trail_sp : bool; trail_br : bool; br_sp : bool; sp_br : bool;
  prev_sp : bool; prev_br : bool; preceded_ws : bool }.

Definition analyze_step (allow_uni : bool) (len : nat) (scalar : str) (f : aflags) (idx : nat) (ch : cp) : aflags :=
  let followed_ws := Nat.leb len (idx + 1) || match nth_cp scalar (idx + 1) with Some c => mem c blankz | None => true end in
  let first := Nat.eqb idx 0 in
  let fi := flow_ind f in let bi := block_ind f in
  let '(fi, bi) :=
    if first then
      let '(fi, bi) := if mem ch lead_ind then (true, true) else (fi, bi) in
      let '(fi, bi) := if mem ch [63;58]%N then (true, bi || followed_ws) else (fi, bi) in
      if N.eqb ch 45 && followed_ws then (true, true) else (fi, bi)
    else
      let fi := if mem ch [44;63;91;93;123;125]%N then true else fi in
      let '(fi, bi) := if N.eqb ch 58 then (true, bi || followed_ws) else (fi, bi) in
      if N.eqb ch 35 && preceded_ws f then (true, true) else (fi, bi) in
  let lb := line_brk f || mem ch brk4 in
  let sp := special f ||
    (if negb (N.eqb ch LF || ((32 <=? ch)%N && (ch <=? 126)%N))
     then (if is_unicode_ok ch then negb allow_uni else true) else false) in
  let last := Nat.eqb idx (len - 1) in
  if N.eqb ch SP then
    {| block_ind := bi; flow_ind := fi; line_brk := lb; special := sp;
       lead_sp := lead_sp f || first; lead_br := lead_br f; trail_sp := trail_sp f || last; trail_br := trail_br f;
       br_sp := br_sp f || prev_br f; sp_br := sp_br f; prev_sp := true; prev_br := false; preceded_ws := mem ch blankz |}
  else if mem ch brk4 then
    {| block_ind := bi; flow_ind := fi; line_brk := lb; special := sp;
       lead_sp := lead_sp f; lead_br := lead_br f || first; trail_sp := trail_sp f; trail_br := trail_br f || last;
       br_sp := br_sp f; sp_br := sp_br f || prev_sp f; prev_sp := false; prev_br := true; preceded_ws := mem ch blankz |}
  else
    {| block_ind := bi; flow_ind := fi; line_brk := lb; special := sp;
       lead_sp := lead_sp f; lead_br := lead_br f; trail_sp := trail_sp f; trail_br := trail_br f;
       br_sp := br_sp f; sp_br := sp_br f; prev_sp := false; prev_br := false; preceded_ws := mem ch blankz |}.

Fixpoint analyze_loop (allow_uni : bool) (len : nat) (scalar : str) (rest : str) (idx : nat) (f : aflags) : aflags :=
  match rest with [] => f | ch :: r => analyze_loop allow_uni len scalar r (S idx) (analyze_step allow_uni len scalar f idx ch) end.

Definition analyze_scalar (allow_uni : bool) (scalar : str) : analysis :=
  match scalar with
  | [] => {| a_scalar := scalar; a_empty := true; a_multiline := false; a_flow_plain := false; a_block_plain := true;
             a_single := true; a_double := true; a_block := false |}
  | _ =>
    let docind := starts_with [45;45;45]%N scalar || starts_with [46;46;46]%N scalar in
    let f0 := {| block_ind := docind; flow_ind := docind; line_brk := false; special := false;
                 lead_sp := false; lead_br := false; trail_sp := false; trail_br := false; br_sp := false; sp_br := false;
                 prev_sp := false; prev_br := false; preceded_ws := true |} in
    let f := analyze_loop allow_uni (length scalar) scalar scalar 0 f0 in
    let bad_edges := lead_sp f || lead_br f || trail_sp f || trail_br f in
    let fp := negb bad_edges && negb (br_sp f) && negb (sp_br f || special f) && negb (line_brk f) in
    {| a_scalar := scalar; a_empty := false; a_multiline := line_brk f;
       a_flow_plain := fp && negb (flow_ind f);
       a_block_plain := fp && negb (block_ind f);
       a_single := negb (br_sp f) && negb (sp_br f || special f);
       a_double := true;
       a_block := negb (trail_sp f) && negb (sp_br f || special f) |}
  end.

(* ---------- prepare_* (emitter.py:539-624) ---------- *)
Definition prepare_anchor (a : str) : M str :=
  match a with [] => err 1 | _ => if forallb is_alnum_ a then ret a else err 2 end.
Definition prepare_tag_handle (h : str) : M str :=
  match h with
  | [] => err 3
  | c :: _ => if negb (N.eqb c 33) || negb (N.eqb (last h 0%N) 33) then err 4 else
              if forallb is_alnum_ (slice h 1 (length h - 1)) then ret h else err 5
  end.
Definition uri_ok : str := [59;47;63;58;64;38;61;43;36;44;46;126;42;39;40;41;91;93]%N.   (* ;/?:@&=+$,.~*'()[]  with - _ alnum *)
Definition prepare_tag_prefix (p : str) : M str :=
  match p with
  | [] => err 6
  | c :: r =>
    let '(head, body) := if N.eqb c 33 then ([c], r) else ([], p) in
    ret (head ++ flat_map (fun ch => if is_alnum_ ch || mem ch (33%N :: uri_ok) then [ch] else pct_escape ch) body)
  end.

Fixpoint sorted_insert (x : str * str) (l : list (str * str)) : list (str * str) :=
  match l with [] => [x] | y :: l' =>
    let fix ltb (a b : str) : bool := match a, b with | _, [] => false | [], _ :: _ => true
        | c :: a', d :: b' => if N.ltb c d then true else if N.ltb d c then false else ltb a' b' end in
    if ltb (fst x) (fst y) then x :: y :: l' else y :: sorted_insert x l' end.
Definition sort_by_key (l : list (str * str)) : list (str * str) := fold_right sorted_insert [] l.

Definition prepare_tag (tag : str) : M str :=
  match tag with
  | [] => err 7
  | _ =>
    if str_eqb tag [33%N] then ret tag else
    s <- get ;;
    let prefixes := sort_by_key (tag_prefixes s) in
    let '(handle, suffix) := fold_left (fun (acc : option str * str) (ph : str * str) =>
        let '(p, h) := ph in
        if starts_with p tag && (str_eqb p [33%N] || Nat.ltb (length p) (length tag))
        then (Some h, skipn (length p) tag) else acc) prefixes (None, tag) in
    let hbang := match handle with Some h => str_eqb h [33%N] | None => false end in
    let suffix_text := flat_map (fun ch =>
        if is_alnum_ ch || mem ch uri_ok || (N.eqb ch 33 && negb hbang) then [ch] else pct_escape ch) suffix in
    match handle with
    | Some ((_ :: _) as h) => ret (h ++ suffix_text)
    | _ => ret ([33;60]%N ++ suffix_text ++ [62%N])
    end
  end.

(* ---------- event queue (emitter.py:111-144) ---------- *)
Definition is_coll_start (e : event) := match e with ESeqStart _ _ _ _ | EMapStart _ _ _ _ => true | _ => false end.
Definition is_coll_end (e : event) := match e with ESeqEnd | EMapEnd => true | _ => false end.
Fixpoint need_events_scan (l : list event) (level : Z) : bool :=     (* true = level went negative *)
  match l with
  | [] => false
  | e :: l' =>
    let level := (match e with
                  | EDocStart _ _ _ => level + 1 | EDocEnd _ => level - 1 | EStreamEnd => -1
                  | _ => if is_coll_start e then level + 1 else if is_coll_end e then level - 1 else level end)%Z in
    if (level <? 0)%Z then true else need_events_scan l' level
  end.
Definition need_events (evs : list event) (count : nat) : bool :=
  if need_events_scan (tl evs) 0%Z then false else Nat.ltb (length evs) (count + 1).
Definition need_more_events (evs : list event) : bool :=
  match evs with
  | [] => true
  | EDocStart _ _ _ :: _ => need_events evs 1
  | ESeqStart _ _ _ _ :: _ => need_events evs 2
  | EMapStart _ _ _ _ :: _ => need_events evs 3
  | _ => false
  end.

(* ---------- helpers over the current event ---------- *)
Definition cur : M event := s <- get ;; match cur_ev s with Some e => ret e | None => crash TypeError end.
Definition ev_anchor (e : event) : option str :=
  match e with EAlias a => a | EScalar a _ _ _ _ _ => a | ESeqStart a _ _ _ => a | EMapStart a _ _ _ => a | _ => None end.
Definition ev_tag (e : event) : option str :=
  match e with EScalar _ t _ _ _ _ => t | ESeqStart _ t _ _ => t | EMapStart _ t _ _ => t | _ => None end.
Definition is_node_event (e : event) : bool :=
  match e with EAlias _ | EScalar _ _ _ _ _ _ | ESeqStart _ _ _ _ | EMapStart _ _ _ _ => true | _ => false end.

Definition push_state (x : estate) : M unit := modify (fun s => with_states (states s ++ [x]) s).
Definition pop_state : M unit :=
  s <- get ;;
  match rev (states s) with [] => crash IndexError | x :: r => modify (fun s => with_state x (with_states (rev r) s)) end.
Definition set_state (x : estate) : M unit := modify (with_state x).

Definition increase_indent (flow : bool) (indentless : bool) : M unit :=
  modify (fun s =>
    let is := indents s ++ [indent s] in
    match indent s with
    | None => with_indent is (Some (if flow then best_indent s else 0)) s
    | Some i => if indentless then with_indent is (Some i) s else with_indent is (Some (i + best_indent s)) s
    end).
Definition pop_indent : M unit :=
  s <- get ;;
  match rev (indents s) with [] => crash IndexError | i :: r => modify (with_indent (rev r) i) end.

Definition check_empty_sequence : M bool :=
  s <- get ;; ret (match cur_ev s, events s with Some (ESeqStart _ _ _ _), ESeqEnd :: _ => true | _, _ => false end).
Definition check_empty_mapping : M bool :=
  s <- get ;; ret (match cur_ev s, events s with Some (EMapStart _ _ _ _), EMapEnd :: _ => true | _, _ => false end).
Definition check_empty_document : M bool :=
  s <- get ;; ret (match cur_ev s, events s with
                   | Some (EDocStart _ _ _), EScalar None None _ _ [] _ :: _ => true
                   | _, _ => false end).
  (* event.implicit is a tuple, hence truthy; the test reduces to anchor/tag None and value '' *)

Definition get_analysis (v : str) : M analysis :=
  s <- get ;;
  match anal s with
  | Some a => ret a
  | None => let a := analyze_scalar (allow_unicode s) v in
            modify (fun s => with_prep (prep_anchor s) (prep_tag s) (Some a) (sty s) s) ;;; ret a
  end.

Definition check_simple_key : M bool :=
  e <- cur ;;
  l1 <- (match (if is_node_event e then ev_anchor e else None) with
         | Some a =>
             s <- get ;;
             pa <- (match prep_anchor s with Some p => ret p | None =>
                      p <- prepare_anchor a ;; modify (fun s => with_prep (Some p) (prep_tag s) (anal s) (sty s) s) ;;; ret p end) ;;
             ret (length pa)
         | None => ret 0 end) ;;
  l2 <- (match e with
         | EScalar _ (Some t) _ _ _ _ | ESeqStart _ (Some t) _ _ | EMapStart _ (Some t) _ _ =>
             s <- get ;;
             pt <- (match prep_tag s with Some p => ret p | None =>
                      p <- prepare_tag t ;; modify (fun s => with_prep (prep_anchor s) (Some p) (anal s) (sty s) s) ;;; ret p end) ;;
             ret (length pt)
         | _ => ret 0 end) ;;
  l3 <- (match e with EScalar _ _ _ _ v _ => a <- get_analysis v ;; ret (length (a_scalar a)) | _ => ret 0 end) ;;
  let len := l1 + l2 + l3 in
  es <- check_empty_sequence ;; em <- check_empty_mapping ;;
  s <- get ;;
  let scalar_ok := match e, anal s with
                   | EScalar _ _ _ _ _ _, Some a => negb (a_empty a) && negb (a_multiline a)
                   | _, _ => false end in
  ret (Nat.ltb len 128 && (match e with EAlias _ => true | _ => false end || scalar_ok || es || em)).

(* ---------- anchors, tags, style (emitter.py:459-513) ---------- *)
Definition process_anchor (indicator : cp) : M unit :=
  e <- cur ;;
  match ev_anchor e with
  | None => modify (fun s => with_prep None (prep_tag s) (anal s) (sty s) s)
  | Some a =>
      s <- get ;;
      pa <- (match prep_anchor s with Some p => ret p | None => prepare_anchor a end) ;;
      (match pa with [] => ret tt | _ => write_indicator (indicator :: pa) true false false end) ;;;
      modify (fun s => with_prep None (prep_tag s) (anal s) (sty s) s)
  end.

Definition choose_scalar_style (impl0 : bool) (v : str) (style : option sstyle) : M chosen :=
  a <- get_analysis v ;;
  s <- get ;;
  if (match style with Some StDouble => true | _ => false end) || canonical s then ret ChDouble else
  let plain_ok := (match style with None => true | _ => false end) && impl0 &&
      negb (sk_ctx s && (a_empty a || a_multiline a)) &&
      ((Nat.ltb 0 (flow_level s) && a_flow_plain a) || (Nat.eqb (flow_level s) 0 && a_block_plain a)) in
  if plain_ok then ret ChPlain else
  let blk := match style with Some StLiteral | Some StFolded => true | _ => false end in
  if blk && Nat.eqb (flow_level s) 0 && negb (sk_ctx s) && a_block a
  then ret (match style with Some StLiteral => ChLiteral | _ => ChFolded end) else
  if (match style with None | Some StSingle => true | _ => false end) && a_single a && negb (sk_ctx s && a_multiline a)
  then ret ChSingle else ret ChDouble.

Definition get_style (impl0 : bool) (v : str) (style : option sstyle) : M chosen :=
  s <- get ;;
  match sty s with
  | Some c => ret c
  | None => c <- choose_scalar_style impl0 v style ;;
            modify (fun s => with_prep (prep_anchor s) (prep_tag s) (anal s) (Some c) s) ;;; ret c
  end.

Definition clear_prep_tag : M unit := modify (fun s => with_prep (prep_anchor s) None (anal s) (sty s) s).
Definition emit_tag (tag : option str) : M unit :=
  match tag with
  | None => err 8
  | Some t =>
      s <- get ;;
      pt <- (match prep_tag s with Some p => ret p | None => prepare_tag t end) ;;
      (match pt with [] => ret tt | _ => write_indicator pt true false false end) ;;;
      clear_prep_tag
  end.
Definition process_tag : M unit :=
  e <- cur ;;
  s <- get ;;
  match e with
  | EScalar _ tag i0 i1 v style =>
      c <- get_style i0 v style ;;
      let plain := match c with ChPlain => true | _ => false end in
      if (negb (canonical s) || match tag with None => true | _ => false end) && ((plain && i0) || (negb plain && i1))
      then clear_prep_tag
      else if i0 && match tag with None => true | _ => false end
           then clear_prep_tag ;;; emit_tag (Some [33%N])
           else emit_tag tag
  | ESeqStart _ tag imp _ | EMapStart _ tag imp _ =>
      if (negb (canonical s) || match tag with None => true | _ => false end) && imp then clear_prep_tag
      else emit_tag tag
  | _ => ret tt
  end.

(* ---------- scalar writers (emitter.py:854-1137) ---------- *)
Definition is_brk (c : option cp) : bool := match c with Some c => mem c brk4 | None => false end.
Definition is_sp (c : option cp) : bool := match c with Some c => N.eqb c SP | None => false end.

Definition write_breaks (t : str) : M unit :=        (* for br in text[start:end]: ... *)
  fold_left (fun m br => m ;;; (if N.eqb br LF then write_line_break None else write_line_break (Some [br]))) t (ret tt).

(* single quoted *)
Fixpoint sq_loop (fuel : nat) (text : str) (split : bool) (e st : nat) (spaces breaks : bool) : M unit :=
  match fuel with O => ret tt | S f =>
    let len := length text in
    if Nat.ltb len e then ret tt else
    let ch := if Nat.ltb e len then nth_cp text e else None in
    st' <- (if spaces then
              (if negb (is_sp ch) then
                 s <- get ;;
                 (if Nat.eqb (st + 1) e && Nat.ltb (best_width s) (column s) && split && negb (Nat.eqb st 0) && negb (Nat.eqb e len)
                  then write_indent else write_col (slice text st e)) ;;; ret e
               else ret st)
            else if breaks then
              (if negb (is_brk ch) then
                 (match nth_cp text st with Some c => if N.eqb c LF then write_line_break None else ret tt | None => crash IndexError end) ;;;
                 write_breaks (slice text st e) ;;; write_indent ;;; ret e
               else ret st)
            else
              (if (match ch with None => true | Some c => mem c (SP :: brk4) || N.eqb c 39 end)
               then (if Nat.ltb st e then write_col (slice text st e) ;;; ret e else ret st)
               else ret st)) ;;
    st'' <- (if (match ch with Some c => N.eqb c 39 | None => false end)
             then write_col [39;39]%N ;;; ret (e + 1) else ret st') ;;
    let '(spaces', breaks') := match ch with Some c => (N.eqb c SP, mem c brk4) | None => (spaces, breaks) end in
    sq_loop f text split (S e) st'' spaces' breaks'
  end.
Definition write_single_quoted (text : str) (split : bool) : M unit :=
  write_indicator [39%N] true false false ;;;
  sq_loop (length text + 2) text split 0 0 false false ;;;
  write_indicator [39%N] false false false.

(* double quoted *)
Open Scope N_scope.
Definition dq_escape (c : cp) : option cp :=
  if c =? 0 then Some 48 else if c =? 7 then Some 97 else if c =? 8 then Some 98 else if c =? 9 then Some 116
  else if c =? 10 then Some 110 else if c =? 11 then Some 118 else if c =? 12 then Some 102 else if c =? 13 then Some 114
  else if c =? 27 then Some 101 else if c =? 34 then Some 34 else if c =? 92 then Some 92 else if c =? 133 then Some 78
  else if c =? 160 then Some 95 else if c =? 8232 then Some 76 else if c =? 8233 then Some 80 else None.
Definition dq_special (allow_uni : bool) (c : cp) : bool :=
  mem c [34;92;133;8232;8233;65279] ||
  negb (((32 <=? c) && (c <=? 126)) || (allow_uni && (((160 <=? c) && (c <=? 55295)) || ((57344 <=? c) && (c <=? 65533))))).
Close Scope N_scope.

Fixpoint dq_loop (fuel : nat) (text : str) (split : bool) (e st : nat) : M unit :=
  match fuel with O => ret tt | S f =>
    let len := length text in
    if Nat.ltb len e then ret tt else
    let ch := if Nat.ltb e len then nth_cp text e else None in
    s <- get ;;
    st' <- (if (match ch with None => true | Some c => dq_special (allow_unicode s) c end) then
              st1 <- (if Nat.ltb st e then write_col (slice text st e) ;;; ret e else ret st) ;;
              (match ch with
               | Some c =>
                   let data := match dq_escape c with
                               | Some x => [92%N; x]
                               | None => if (c <=? 255)%N then [92;120]%N ++ hex2 c
                                         else if (c <=? 65535)%N then [92;117]%N ++ hex4 c
                                         else [92;85]%N ++ hex8 c end in
                   write_col data ;;; ret (e + 1)
               | None => ret st1 end)
            else ret st) ;;
    s <- get ;;
    st'' <- (if Nat.ltb 0 e && Nat.ltb e (len - 1) && (is_sp ch || Nat.leb e st')
                && Nat.ltb (best_width s + st') (column s + e) && split
             then
               let data := slice text st' e ++ [92%N] in
               let st2 := if Nat.ltb st' e then e else st' in
               write_col data ;;; write_indent ;;;
               modify (fun s => with_pos (eline s) (column s) false false s) ;;;
               (match nth_cp text st2 with
                | Some c => if N.eqb c SP then write_col [92%N] else ret tt
                | None => crash IndexError end) ;;;
               ret st2
             else ret st') ;;
    dq_loop f text split (S e) st''
  end.
Definition write_double_quoted (text : str) (split : bool) : M unit :=
  write_indicator [34%N] true false false ;;;
  dq_loop (length text + 2) text split 0 0 ;;;
  write_indicator [34%N] false false false.

Definition determine_block_hints (text : str) : M str :=
  s <- get ;;
  match text with
  | [] => ret []
  | c0 :: _ =>
    let h1 := if mem c0 (SP :: brk4) then dec (N.of_nat (best_indent s)) else [] in
    let lastc := last text 0%N in
    let h2 := if negb (mem lastc brk4) then [45%N]
              else if Nat.eqb (length text) 1 || (match nth_cp text (length text - 2) with Some c => mem c brk4 | None => false end)
                   then [43%N] else [] in
    ret (h1 ++ h2)
  end.

(* folded *)
Fixpoint fo_loop (fuel : nat) (text : str) (e st : nat) (leading_space spaces breaks : bool) : M unit :=
  match fuel with O => ret tt | S f =>
    let len := length text in
    if Nat.ltb len e then ret tt else
    let ch := if Nat.ltb e len then nth_cp text e else None in
    r <- (if breaks then
            (if negb (is_brk ch) then
               (if negb leading_space && (match ch with Some c => negb (N.eqb c SP) | None => false end)
                   && (match nth_cp text st with Some c => N.eqb c LF | None => false end)
                then write_line_break None else ret tt) ;;;
               write_breaks (slice text st e) ;;;
               (match ch with Some _ => write_indent | None => ret tt end) ;;;
               ret (e, is_sp ch)
             else ret (st, leading_space))
          else if spaces then
            (if negb (is_sp ch) then
               s <- get ;;
               (if Nat.eqb (st + 1) e && Nat.ltb (best_width s) (column s) then write_indent
                else write_col (slice text st e)) ;;; ret (e, leading_space)
             else ret (st, leading_space))
          else
            (if (match ch with None => true | Some c => mem c (SP :: brk4) end) then
               write_col (slice text st e) ;;;
               (match ch with None => write_line_break None | Some _ => ret tt end) ;;;
               ret (e, leading_space)
             else ret (st, leading_space))) ;;
    let '(st', ls') := r in
    let '(spaces', breaks') := match ch with Some c => (N.eqb c SP, mem c brk4) | None => (spaces, breaks) end in
    fo_loop f text (S e) st' ls' spaces' breaks'
  end.
Definition write_folded (text : str) : M unit :=
  hints <- determine_block_hints text ;;
  write_indicator (62%N :: hints) true false false ;;;
  (if N.eqb (last hints 0%N) 43 then modify (with_open true) else ret tt) ;;;
  write_line_break None ;;;
  fo_loop (length text + 2) text 0 0 true false true.

(* literal *)
Fixpoint li_loop (fuel : nat) (text : str) (e st : nat) (breaks : bool) : M unit :=
  match fuel with O => ret tt | S f =>
    let len := length text in
    if Nat.ltb len e then ret tt else
    let ch := if Nat.ltb e len then nth_cp text e else None in
    st' <- (if breaks then
              (if negb (is_brk ch) then
                 write_breaks (slice text st e) ;;;
                 (match ch with Some _ => write_indent | None => ret tt end) ;;; ret e
               else ret st)
            else
              (if (match ch with None => true | Some c => mem c brk4 end) then
                 write (slice text st e) ;;;
                 (match ch with None => write_line_break None | Some _ => ret tt end) ;;; ret e
               else ret st)) ;;
    let breaks' := match ch with Some c => mem c brk4 | None => breaks end in
    li_loop f text (S e) st' breaks'
  end.
Definition write_literal (text : str) : M unit :=
  hints <- determine_block_hints text ;;
  write_indicator (124%N :: hints) true false false ;;;
  (if N.eqb (last hints 0%N) 43 then modify (with_open true) else ret tt) ;;;
  write_line_break None ;;;
  li_loop (length text + 2) text 0 0 true.

(* plain *)
Fixpoint pl_loop (fuel : nat) (text : str) (split : bool) (e st : nat) (spaces breaks : bool) : M unit :=
  match fuel with O => ret tt | S f =>
    let len := length text in
    if Nat.ltb len e then ret tt else
    let ch := if Nat.ltb e len then nth_cp text e else None in
    st' <- (if spaces then
              (if negb (is_sp ch) then
                 s <- get ;;
                 (if Nat.eqb (st + 1) e && Nat.ltb (best_width s) (column s) && split
                  then write_indent ;;; modify (fun s => with_pos (eline s) (column s) false false s)
                  else write_col (slice text st e)) ;;; ret e
               else ret st)
            else if breaks then
              (match ch with
               | None => crash TypeError           (* `None not in '...'` *)
               | Some c =>
                 if negb (mem c brk4) then
                   (match nth_cp text st with Some c0 => if N.eqb c0 LF then write_line_break None else ret tt | None => crash IndexError end) ;;;
                   write_breaks (slice text st e) ;;; write_indent ;;;
                   modify (fun s => with_pos (eline s) (column s) false false s) ;;; ret e
                 else ret st end)
            else
              (if (match ch with None => true | Some c => mem c (SP :: brk4) end)
               then write_col (slice text st e) ;;; ret e else ret st)) ;;
    let '(spaces', breaks') := match ch with Some c => (N.eqb c SP, mem c brk4) | None => (spaces, breaks) end in
    pl_loop f text split (S e) st' spaces' breaks'
  end.
Definition write_plain (text : str) (split : bool) : M unit :=
  s <- get ;;
  (if root_ctx s then modify (with_open true) else ret tt) ;;;
  match text with
  | [] => ret tt
  | _ =>
    s <- get ;;
    (if negb (whitespace s) then write_col [SP] else ret tt) ;;;
    modify (fun s => with_pos (eline s) (column s) false false s) ;;;
    pl_loop (length text + 2) text split 0 0 false false
  end.

Definition process_scalar : M unit :=
  e <- cur ;;
  match e with
  | EScalar _ _ i0 _ v style =>
      a <- get_analysis v ;;
      c <- get_style i0 v style ;;
      s <- get ;;
      let split := negb (sk_ctx s) in
      (match c with
       | ChDouble => write_double_quoted (a_scalar a) split
       | ChSingle => write_single_quoted (a_scalar a) split
       | ChFolded => write_folded (a_scalar a)
       | ChLiteral => write_literal (a_scalar a)
       | ChPlain => write_plain (a_scalar a) split end) ;;;
      modify (fun s => with_prep (prep_anchor s) (prep_tag s) None None s)
  | _ => crash TypeError
  end.

(* ---------- node handlers (emitter.py:232-418) ---------- *)
Definition col_over : M bool := s <- get ;; ret (canonical s || Nat.ltb (best_width s) (column s)).

Definition expect_node (root sequence mapping simple_key : bool) : M unit :=
  modify (with_ctx root sequence mapping simple_key) ;;;
  e <- cur ;;
  s <- get ;;
  match e with
  | EAlias a =>
      (match a with None => err 9 | Some _ => process_anchor 42%N ;;; pop_state end)
  | EScalar _ _ _ _ _ _ =>
      process_anchor 38%N ;;; process_tag ;;;
      increase_indent true false ;;; process_scalar ;;; pop_indent ;;; pop_state
  | ESeqStart _ _ _ flow =>
      process_anchor 38%N ;;; process_tag ;;;
      es <- check_empty_sequence ;;
      if Nat.ltb 0 (flow_level s) || canonical s || flow || es then
        write_indicator [91%N] true true false ;;;
        modify (fun s => with_flow (S (flow_level s)) s) ;;; increase_indent true false ;;; set_state XFirstFlowSeqItem
      else
        s <- get ;;
        increase_indent false (map_ctx s && negb (indention s)) ;;; set_state XFirstBlockSeqItem
  | EMapStart _ _ _ flow =>
      process_anchor 38%N ;;; process_tag ;;;
      em <- check_empty_mapping ;;
      if Nat.ltb 0 (flow_level s) || canonical s || flow || em then
        write_indicator [123%N] true true false ;;;
        modify (fun s => with_flow (S (flow_level s)) s) ;;; increase_indent true false ;;; set_state XFirstFlowMapKey
      else increase_indent false false ;;; set_state XFirstBlockMapKey
  | _ => err 10
  end.

Definition write_version_directive (v : str) : M unit := write ([37;89;65;77;76;32]%N ++ v) ;;; write_line_break None.
Definition write_tag_directive (h p : str) : M unit := write ([37;84;65;71;32]%N ++ h ++ [SP] ++ p) ;;; write_line_break None.
Definition default_prefixes : list (str * str) :=
  [([33%N], [33%N]); ([116;97;103;58;121;97;109;108;46;111;114;103;44;50;48;48;50;58]%N, [33;33]%N)].
Fixpoint assoc_set (k v : str) (l : list (str * str)) : list (str * str) :=
  match l with [] => [(k, v)] | (k', v') :: l' => if str_eqb k k' then (k, v) :: l' else (k', v') :: assoc_set k v l' end.

Definition expect_document_start (first : bool) : M unit :=
  e <- cur ;;
  match e with
  | EDocStart explicit version tags =>
      s <- get ;;
      let has_tags := match tags with [] => false | _ => true end in
      let has_ver := match version with Some _ => true | None => false end in
      (if (has_ver || has_tags) && open_ended s then write_indicator [46;46;46]%N true false false ;;; write_indent else ret tt) ;;;
      (match version with
       | Some (ma, mi) => if negb (N.eqb ma 1) then err 11 else write_version_directive (dec ma ++ [46%N] ++ dec mi)
       | None => ret tt end) ;;;
      modify (with_prefixes default_prefixes) ;;;
      fold_left (fun m hp => m ;;;
          let '(h, p) := hp in
          modify (fun s => with_prefixes (assoc_set p h (tag_prefixes s)) s) ;;;
          ht <- prepare_tag_handle h ;; pt <- prepare_tag_prefix p ;; write_tag_directive ht pt)
        (sort_by_key tags) (ret tt) ;;;
      ed <- check_empty_document ;;
      s <- get ;;
      let implicit := first && negb explicit && negb (canonical s) && negb has_ver && negb has_tags && negb ed in
      (if negb implicit then
         write_indent ;;; write_indicator [45;45;45]%N true false false ;;;
         (if canonical s then write_indent else ret tt)
       else ret tt) ;;;
      set_state XDocRoot
  | EStreamEnd =>
      s <- get ;;
      (if open_ended s then write_indicator [46;46;46]%N true false false ;;; write_indent else ret tt) ;;;
      set_state XNothing
  | _ => err 12
  end.

Definition simple_or_complex_key (simple_next complex_next : estate) (check_canon : bool) (indn : bool) : M unit :=
  s <- get ;;
  sk <- (if check_canon && canonical s then ret false else check_simple_key) ;;
  if sk then push_state simple_next ;;; expect_node false false true true
  else write_indicator [63%N] true false indn ;;; push_state complex_next ;;; expect_node false false true false.

Definition step : M unit :=
  s <- get ;;
  e <- cur ;;
  match state s with
  | XStreamStart => (match e with EStreamStart => set_state XFirstDocStart | _ => err 13 end)
  | XNothing => err 14
  | XFirstDocStart => expect_document_start true
  | XDocStart => expect_document_start false
  | XDocEnd =>
      (match e with
       | EDocEnd explicit =>
           write_indent ;;;
           (if explicit then write_indicator [46;46;46]%N true false false ;;; write_indent else ret tt) ;;;
           set_state XDocStart
       | _ => err 15 end)
  | XDocRoot => push_state XDocEnd ;;; expect_node true false false false
  | XFirstFlowSeqItem =>
      (match e with
       | ESeqEnd => pop_indent ;;; modify (fun s => with_flow (flow_level s - 1) s) ;;; write_indicator [93%N] false false false ;;; pop_state
       | _ => o <- col_over ;; (if o then write_indent else ret tt) ;;; push_state XFlowSeqItem ;;; expect_node false true false false end)
  | XFlowSeqItem =>
      (match e with
       | ESeqEnd => pop_indent ;;; modify (fun s => with_flow (flow_level s - 1) s) ;;;
                    (if canonical s then write_indicator [44%N] false false false ;;; write_indent else ret tt) ;;;
                    write_indicator [93%N] false false false ;;; pop_state
       | _ => write_indicator [44%N] false false false ;;;
              o <- col_over ;; (if o then write_indent else ret tt) ;;; push_state XFlowSeqItem ;;; expect_node false true false false end)
  | XFirstFlowMapKey =>
      (match e with
       | EMapEnd => pop_indent ;;; modify (fun s => with_flow (flow_level s - 1) s) ;;; write_indicator [125%N] false false false ;;; pop_state
       | _ => o <- col_over ;; (if o then write_indent else ret tt) ;;;
              simple_or_complex_key XFlowMapSimpleValue XFlowMapValue true false end)
  | XFlowMapKey =>
      (match e with
       | EMapEnd => pop_indent ;;; modify (fun s => with_flow (flow_level s - 1) s) ;;;
                    (if canonical s then write_indicator [44%N] false false false ;;; write_indent else ret tt) ;;;
                    write_indicator [125%N] false false false ;;; pop_state
       | _ => write_indicator [44%N] false false false ;;;
              o <- col_over ;; (if o then write_indent else ret tt) ;;;
              simple_or_complex_key XFlowMapSimpleValue XFlowMapValue true false end)
  | XFlowMapSimpleValue => write_indicator [58%N] false false false ;;; push_state XFlowMapKey ;;; expect_node false false true false
  | XFlowMapValue =>
      o <- col_over ;; (if o then write_indent else ret tt) ;;;
      write_indicator [58%N] true false false ;;; push_state XFlowMapKey ;;; expect_node false false true false
  | XFirstBlockSeqItem =>
      write_indent ;;; write_indicator [45%N] true false true ;;; push_state XBlockSeqItem ;;; expect_node false true false false
  | XBlockSeqItem =>
      (match e with
       | ESeqEnd => pop_indent ;;; pop_state
       | _ => write_indent ;;; write_indicator [45%N] true false true ;;; push_state XBlockSeqItem ;;; expect_node false true false false end)
  | XFirstBlockMapKey => write_indent ;;; simple_or_complex_key XBlockMapSimpleValue XBlockMapValue false true
  | XBlockMapKey =>
      (match e with
       | EMapEnd => pop_indent ;;; pop_state
       | _ => write_indent ;;; simple_or_complex_key XBlockMapSimpleValue XBlockMapValue false true end)
  | XBlockMapSimpleValue => write_indicator [58%N] false false false ;;; push_state XBlockMapKey ;;; expect_node false false true false
  | XBlockMapValue =>
      write_indent ;;; write_indicator [58%N] true false true ;;; push_state XBlockMapKey ;;; expect_node false false true false
  end.

(* emit(event): append, then drain while enough look-ahead *)
Fixpoint drain (fuel : nat) : M unit :=
  match fuel with O => nofuel | S f =>
    s <- get ;;
    if need_more_events (events s) then ret tt else
    match events s with
    | [] => ret tt
    | e :: es => modify (fun s => with_event (Some e) (with_events es s)) ;;; step ;;; modify (with_event None) ;;; drain f
    end
  end.
Definition emit1 (e : event) : M unit := modify (fun s => with_events (events s ++ [e]) s) ;;; drain 8.

Definition init (canon allow_uni : bool) (ind width : option nat) (lb : str) : st :=
  let bi := match ind with Some i => if Nat.ltb 1 i && Nat.ltb i 10 then i else 2 | None => 2 end in
  let bw := match width with Some w => if Nat.ltb (bi * 2) w then w else 80 | None => 80 end in
  let blb := if str_eqb lb [13%N] || str_eqb lb [10%N] || str_eqb lb [13;10]%N then lb else [10%N] in
  {| states := []; state := XStreamStart; events := []; cur_ev := None; indents := []; indent := None; flow_level := 0;
     root_ctx := false; seq_ctx := false; map_ctx := false; sk_ctx := false; eline := 0; column := 0;
     whitespace := true; indention := true; open_ended := false; canonical := canon; allow_unicode := allow_uni;
     best_indent := bi; best_width := bw; best_lb := blb; tag_prefixes := []; prep_anchor := None; prep_tag := None;
     anal := None; sty := None; out := [] |}.

Fixpoint emit_all (evs : list event) (s : st) : list str * res unit :=
  match evs with
  | [] => (rev (out s), Ok tt)
  | e :: evs' => match emit1 e s with
                 | Ok (_, s') => emit_all evs' s'
                 | EmitErr c o => (rev o, EmitErr c o) | Crash x o => (rev o, Crash x o) | OutOfFuel => (rev (out s), OutOfFuel) end
  end.

