(* Spike: composer.py + resolver.py (implicit resolvers from GenRegex) + SafeConstructor/BaseConstructor
   on top of the Scan/Parse models.  Python values with identity, dict key semantics, scalar converters. *)
From Coq Require Import List NArith ZArith Bool Arith Lia.
Import ListNotations.
Require Import Scan Parse.
Require Regex GenRegex.

(* ---------- nodes ---------- *)
Inductive nkind := NScalar (v : str) (st : style) | NSeq (items : list nat) | NMap (items : list (nat * nat)).
Record node := { n_tag : str; n_kind : nkind; n_start : mark }.
Definition nstore := list node.                        (* node id = position *)

(* outcome of the whole load *)
Inductive pyx := XIndexError | XKeyError | XValueError | XTypeError | XAttributeError | XOverflowError.
Inductive lres (A : Type) :=
| LOk (a : A) | LScan (r : res unit) | LComposer (code : nat) | LConstructor (code : nat) | LCrash (e : pyx) | LFuel | LUnmodelled.
Arguments LOk {A}. Arguments LScan {A}. Arguments LComposer {A}. Arguments LConstructor {A}. Arguments LCrash {A}. Arguments LFuel {A}. Arguments LUnmodelled {A}.

(* ---------- resolver (resolver.py:143-165) ---------- *)
Definition TAG (s : str) : str := ([116;97;103;58;121;97;109;108;46;111;114;103;44;50;48;48;50;58]%N ++ s).
Definition t_str := TAG [115;116;114]%N.   Definition t_seq := TAG [115;101;113]%N.   Definition t_map := TAG [109;97;112]%N.
Definition t_null := TAG [110;117;108;108]%N. Definition t_bool := TAG [98;111;111;108]%N. Definition t_int := TAG [105;110;116]%N.
Definition t_float := TAG [102;108;111;97;116]%N. Definition t_binary := TAG [98;105;110;97;114;121]%N.
Definition t_timestamp := TAG [116;105;109;101;115;116;97;109;112]%N. Definition t_omap := TAG [111;109;97;112]%N.
Definition t_pairs := TAG [112;97;105;114;115]%N. Definition t_set := TAG [115;101;116]%N.
Definition t_merge := TAG [109;101;114;103;101]%N. Definition t_value := TAG [118;97;108;117;101]%N. Definition t_yaml := TAG [121;97;109;108]%N.
Definition resolve_scalar (base : bool) (v : str) (i0 i1 : bool) : str :=
  if base then t_str else
  if i0 then
    let ok := fun (x : str * Regex.re * Regex.cset * bool) =>
      let '(_, r, first, eps) := x in
      (match v with [] => eps | c :: _ => Regex.cin c first end) && Regex.matches r v in
    match filter ok GenRegex.resolvers with (t, _, _, _) :: _ => t | [] => t_str end
  else t_str.

(* ---------- composer (composer.py) over the event list ---------- *)
Fixpoint assoc_nat (k : str) (l : list (str * nat)) : option nat :=
  match l with [] => None | (k', v) :: l' => if str_eqb k k' then Some v else assoc_nat k l' end.

Record cst := { evs : list event; store : nstore; anchors : list (str * nat) }.
Definition bang (t : option str) : bool := match t with None => true | Some t => str_eqb t [33%N] end.

(* returns node id; sequences/mappings are allocated before their children (so self-reference works) *)
Fixpoint set_nth {A} (n : nat) (x : A) (l : list A) : list A :=
  match l, n with [], _ => [] | _ :: l', O => x :: l' | y :: l', S n' => y :: set_nth n' x l' end.

Fixpoint compose_node (fuel : nat) (base : bool) (s : cst) : lres (nat * cst) :=
  match fuel with O => LFuel | S f =>
    match evs s with
    | [] => LScan OutOfFuel
    | e :: rest_ =>
      match e_kind e with
      | VAlias a =>
          match assoc_nat a (anchors s) with
          | Some id => LOk (id, {| evs := rest_; store := store s; anchors := anchors s |})
          | None => LComposer 1
          end
      | VScalar anchor tag i0 i1 v st_ =>
          let dup := match anchor with Some a => match assoc_nat a (anchors s) with Some _ => true | None => false end | None => false end in
          if dup then LComposer 2 else
          let t := if bang tag then resolve_scalar base v i0 i1 else match tag with Some t => t | None => t_str end in
          let id := length (store s) in
          let st' := store s ++ [{| n_tag := t; n_kind := NScalar v st_; n_start := e_start e |}] in
          LOk (id, {| evs := rest_; store := st'; anchors := match anchor with Some a => anchors s ++ [(a, id)] | None => anchors s end |})
      | VSeqStart anchor tag imp _ =>
          let dup := match anchor with Some a => match assoc_nat a (anchors s) with Some _ => true | None => false end | None => false end in
          if dup then LComposer 2 else
          let t := if bang tag then t_seq else match tag with Some t => t | None => t_seq end in
          let id := length (store s) in
          let s1 := {| evs := rest_; store := store s ++ [{| n_tag := t; n_kind := NSeq []; n_start := e_start e |}];
                       anchors := match anchor with Some a => anchors s ++ [(a, id)] | None => anchors s end |} in
          (fix items (fuel' : nat) (acc : list nat) (s : cst) : lres (nat * cst) :=
             match fuel' with O => LFuel | S f' =>
               match evs s with
               | [] => LScan OutOfFuel
               | e' :: r' =>
                 match e_kind e' with
                 | VSeqEnd => LOk (id, {| evs := r'; store := set_nth id {| n_tag := t; n_kind := NSeq acc; n_start := e_start e |} (store s); anchors := anchors s |})
                 | _ => match compose_node f base s with
                        | LOk (c, s') => items f' (acc ++ [c]) s'
                        | LScan r => LScan r | LComposer c => LComposer c | LConstructor c => LConstructor c
                        | LCrash x => LCrash x | LFuel => LFuel | LUnmodelled => LUnmodelled end
                 end
               end
             end) f [] s1
      | VMapStart anchor tag imp _ =>
          let dup := match anchor with Some a => match assoc_nat a (anchors s) with Some _ => true | None => false end | None => false end in
          if dup then LComposer 2 else
          let t := if bang tag then t_map else match tag with Some t => t | None => t_map end in
          let id := length (store s) in
          let s1 := {| evs := rest_; store := store s ++ [{| n_tag := t; n_kind := NMap []; n_start := e_start e |}];
                       anchors := match anchor with Some a => anchors s ++ [(a, id)] | None => anchors s end |} in
          (fix items (fuel' : nat) (acc : list (nat * nat)) (s : cst) : lres (nat * cst) :=
             match fuel' with O => LFuel | S f' =>
               match evs s with
               | [] => LScan OutOfFuel
               | e' :: r' =>
                 match e_kind e' with
                 | VMapEnd => LOk (id, {| evs := r'; store := set_nth id {| n_tag := t; n_kind := NMap acc; n_start := e_start e |} (store s); anchors := anchors s |})
                 | _ => match compose_node f base s with
                        | LOk (k, s') =>
                            match compose_node f base s' with
                            | LOk (v, s'') => items f' (acc ++ [(k, v)]) s''
                            | LScan r => LScan r | LComposer c => LComposer c | LConstructor c => LConstructor c
                            | LCrash x => LCrash x | LFuel => LFuel | LUnmodelled => LUnmodelled end
                        | LScan r => LScan r | LComposer c => LComposer c | LConstructor c => LConstructor c
                        | LCrash x => LCrash x | LFuel => LFuel | LUnmodelled => LUnmodelled end
                 end
               end
             end) f [] s1
      | _ => LScan OutOfFuel
      end
    end
  end.

(* ---------- Python values ---------- *)
Inductive f64 := FNan | FInf (neg : bool) | FFin (neg : bool) (m : N) (e : Z).     (* value = m * 2^e, m odd or 0 *)
Inductive val :=
| PNone | PBool (b : bool) | PInt (z : Z) | PFloat (f : f64) | PStr (s : str) | PBytes (b : list N)
| PDate (y m d : Z) | PDateTime (y mo d h mi s us : Z) (tz : option Z) (* utcoffset in seconds *)
| PRef (a : nat).
Inductive cell := CList (l : list val) | CDict (l : list (val * val)) | CSet (l : list val) | CTuple (a b : val).
Definition heap := list cell.

(* ---------- numbers ---------- *)
Open Scope Z_scope.
Fixpoint strip_twos (fuel : nat) (m : N) (e : Z) : N * Z :=
  match fuel with O => (m, e) | S f => if N.eqb m 0 then (0%N, 0) else if N.even m then strip_twos f (N.div2 m) (e + 1) else (m, e) end.
Definition mkfin (neg : bool) (m : N) (e : Z) : f64 := let '(m', e') := strip_twos 1200 m e in FFin neg m' e'.

(* nearest binary64 to p/q (p >= 0, q > 0), ties to even *)
Definition round64 (neg : bool) (p q : Z) : f64 :=
  if p =? 0 then FFin neg 0 0 else
  let lp := Z.log2 p in let lq := Z.log2 q in
  let e0 := lp - lq - 53 in                       (* p/q / 2^e0 is in (2^52, 2^54) *)
  let scale := fun e => if 0 <=? e then (p, q * 2 ^ e) else (p * 2 ^ (- e), q) in
  let e1 := let '(a, b) := scale e0 in if 2 ^ 53 * b <=? a then e0 + 1 else e0 in    (* now quotient in [2^52, 2^53) *)
  let e := Z.max e1 (-1074) in
  let '(a, b) := scale e in
  let qt := a / b in let rm := a mod b in
  let m := if (b <? 2 * rm) || ((b =? 2 * rm) && Z.odd qt) then qt + 1 else qt in
  let '(m, e) := if m =? 2 ^ 53 then (2 ^ 52, e + 1) else (m, e) in
  if 1023 <? e + 52 then FInf neg else mkfin neg (Z.to_N m) e.

Definition f64_to_q (f : f64) : option (Z * Z) :=        (* exact value as p/q, q a power of two *)
  match f with
  | FFin neg m e => let p := if neg then - Z.of_N m else Z.of_N m in Some (if 0 <=? e then (p * 2 ^ e, 1) else (p, 2 ^ (- e)))
  | _ => None end.
Definition f64_mul (a b : f64) : f64 :=
  match f64_to_q a, f64_to_q b with
  | Some (p1, q1), Some (p2, q2) => let p := p1 * p2 in round64 (p <? 0) (Z.abs p) (q1 * q2)
  | _, _ => FNan end.
Definition f64_add (a b : f64) : f64 :=
  match f64_to_q a, f64_to_q b with
  | Some (p1, q1), Some (p2, q2) => let p := p1 * q2 + p2 * q1 in
      if p =? 0 then FFin (match a, b with FFin true _ _, FFin true _ _ => true | _, _ => false end) 0 0
      else round64 (p <? 0) (Z.abs p) (q1 * q2)
  | _, _ => FNan end.
Definition f64_of_int (z : Z) : f64 := round64 (z <? 0) (Z.abs z) 1.
Definition f64_neg (f : f64) : f64 := match f with FNan => FNan | FInf n => FInf (negb n) | FFin n m e => FFin (negb n) m e end.
Close Scope Z_scope.

(* Python whitespace for str.strip / int() / float() *)
Definition py_space (c : cp) : bool :=
  ((9 <=? c) && (c <=? 13) || (28 <=? c) && (c <=? 32) || (c =? 133) || (c =? 160) || (c =? 5760) || (8192 <=? c) && (c <=? 8202)
   || (c =? 8232) || (c =? 8233) || (c =? 8239) || (c =? 8287) || (c =? 12288))%N.
Fixpoint lstrip (s : str) : str := match s with c :: r => if py_space c then lstrip r else s | [] => [] end.
Definition strip (s : str) : str := rev (lstrip (rev (lstrip s))).
Definition is_ascii (s : str) : bool := forallb (fun c => (c <? 128)%N) s.
Definition digit_val (c : cp) : option N :=
  if ((48 <=? c) && (c <=? 57))%N then Some (c - 48)%N
  else if ((97 <=? c) && (c <=? 122))%N then Some (c - 87)%N
  else if ((65 <=? c) && (c <=? 90))%N then Some (c - 55)%N else None.
Fixpoint digits_val (base : N) (s : str) (acc : Z) : option Z :=
  match s with [] => Some acc
  | c :: r => match digit_val c with Some d => if (d <? base)%N then digits_val base r (acc * Z.of_N base + Z.of_N d)%Z else None | None => None end end.
Definition lower (c : cp) : cp := if ((65 <=? c) && (c <=? 90))%N then (c + 32)%N else c.

(* int(s, base) for ASCII s (underscores already removed by the caller).  None = ValueError *)
Definition py_int (s : str) (base : N) : option Z :=
  let s := strip s in
  let '(neg, s) := match s with 45%N :: r => (true, r) | 43%N :: r => (false, r) | _ => (false, s) end in
  let s := match s with
           | 48%N :: x :: r => if ((base =? 16) && (lower x =? 120) || (base =? 2) && (lower x =? 98) || (base =? 8) && (lower x =? 111))%N then r else s
           | _ => s end in
  match s with
  | [] => None
  | _ => if (base =? 10)%N && Nat.ltb 4300 (length s) then None else
         match digits_val base s 0%Z with Some z => Some (if neg then (- z)%Z else z) | None => None end
  end.

(* float(s) for ASCII s without underscores.  None = ValueError *)
Fixpoint span_digits (s : str) (acc : str) : str * str :=
  match s with c :: r => if ((48 <=? c) && (c <=? 57))%N then span_digits r (acc ++ [c]) else (acc, s) | [] => (acc, []) end.
Definition py_float (s : str) : option f64 :=
  let s := map lower (strip s) in
  let '(neg, s) := match s with 45%N :: r => (true, r) | 43%N :: r => (false, r) | _ => (false, s) end in
  if str_eqb s [105;110;102]%N || str_eqb s [105;110;102;105;110;105;116;121]%N then Some (FInf neg) else
  if str_eqb s [110;97;110]%N then Some FNan else
  let '(ip, r1) := span_digits s [] in
  let '(fp, r2) := match r1 with 46%N :: r => span_digits r [] | _ => ([], r1) end in
  let had_dot := match r1 with 46%N :: _ => true | _ => false end in
  match ip, fp with
  | [], [] => None
  | _, _ =>
    let expo := match r2 with
                | [] => Some 0%Z
                | 101%N :: r3 =>
                    let '(eneg, r4) := match r3 with 45%N :: r => (true, r) | 43%N :: r => (false, r) | _ => (false, r3) end in
                    let '(ed, r5) := span_digits r4 [] in
                    match ed, r5 with
                    | _ :: _, [] => match digits_val 10 ed 0%Z with Some z => Some (if eneg then (- z)%Z else z) | None => None end
                    | _, _ => None end
                | _ => None end in
    match expo, digits_val 10 (ip ++ fp) 0%Z with
    | Some ex, Some mant =>
        let e10 := (ex - Z.of_nat (length fp))%Z in
        (* guard against absurd exponents: clamp (values are 0 or inf anyway) *)
        if (mant =? 0)%Z then Some (FFin neg 0 0)
        else if (5000 <? e10 + Z.of_nat (length (ip ++ fp)))%Z then Some (FInf neg)
        else if (e10 + Z.of_nat (length (ip ++ fp)) <? -5000)%Z then Some (FFin neg 0 0)
        else Some (if (0 <=? e10)%Z then round64 neg (mant * 10 ^ e10)%Z 1%Z else round64 neg mant (10 ^ (- e10))%Z)
    | _, _ => None
    end
  end.

Fixpoint split_colon (s : str) (cur : str) : list str :=
  match s with [] => [cur] | 58%N :: r => cur :: split_colon r [] | c :: r => split_colon r (cur ++ [c]) end.
Definition remove_us (s : str) : str := filter (fun c => negb (N.eqb c 95)) s.
Definition starts_with (p s : str) : bool := str_eqb p (firstn (length p) s).
Definition has_colon (s : str) : bool := existsb (N.eqb 58) s.

Inductive conv (A : Type) := COk (a : A) | CCrash (e : pyx) | CUnmod.
Arguments COk {A}. Arguments CCrash {A}. Arguments CUnmod {A}.

(* construct_yaml_int (constructor.py:237-263) *)
Definition construct_int (v : str) : conv Z :=
  if negb (is_ascii v) then CUnmod else
  let value := remove_us v in
  match value with
  | [] => CCrash XIndexError
  | c0 :: _ =>
    let sign := if N.eqb c0 45 then (-1)%Z else 1%Z in
    let value := if N.eqb c0 45 || N.eqb c0 43 then tl value else value in
    let of := fun (o : option Z) => match o with Some z => COk (sign * z)%Z | None => CCrash XValueError end in
    if str_eqb value [48%N] then COk 0%Z
    else if starts_with [48;98]%N value then of (py_int (skipn 2 value) 2)
    else if starts_with [48;120]%N value then of (py_int (skipn 2 value) 16)
    else match value with
         | [] => CCrash XIndexError
         | 48%N :: _ => of (py_int value 8)
         | _ =>
           if has_colon value then
             let parts := map (fun p => py_int p 10) (split_colon value []) in
             if forallb (fun o => match o with Some _ => true | None => false end) parts then
               let digits := rev (map (fun o => match o with Some z => z | None => 0%Z end) parts) in
               COk (sign * fst (fold_left (fun (acc : Z * Z) d => (fst acc + d * snd acc, snd acc * 60)%Z) digits (0, 1)%Z))%Z
             else CCrash XValueError
           else of (py_int value 10)
         end
  end.

(* construct_yaml_float (constructor.py:270-292) *)
Definition construct_float (v : str) : conv f64 :=
  if negb (is_ascii v) then CUnmod else
  let value := map lower (remove_us v) in
  match value with
  | [] => CCrash XIndexError
  | c0 :: _ =>
    let neg := N.eqb c0 45 in
    let value := if N.eqb c0 45 || N.eqb c0 43 then tl value else value in
    let sg := fun f => if neg then f64_neg f else f in
    if str_eqb value [46;105;110;102]%N then COk (FInf neg)
    else if str_eqb value [46;110;97;110]%N then COk FNan
    else if has_colon value then
      let parts := map py_float (split_colon value []) in
      if forallb (fun o => match o with Some _ => true | None => false end) parts then
        let digits := rev (map (fun o => match o with Some f => f | None => FNan end) parts) in
        COk (sg (fst (fold_left (fun (acc : f64 * Z) d => (f64_add (fst acc) (f64_mul d (f64_of_int (snd acc))), snd acc * 60)%Z) digits (FFin false 0 0, 1%Z))))
      else CCrash XValueError
    else match py_float value with Some f => COk (sg f) | None => CCrash XValueError end
  end.

(* bool / null *)
Definition bool_of (v : str) : option bool :=
  let l := map lower v in
  if str_eqb l [121;101;115]%N || str_eqb l [116;114;117;101]%N || str_eqb l [111;110]%N then Some true
  else if str_eqb l [110;111]%N || str_eqb l [102;97;108;115;101]%N || str_eqb l [111;102;102]%N then Some false else None.

(* timestamps (constructor.py:310-351): hand-written recogniser for timestamp_regexp *)
Definition is_dig (c : cp) : bool := ((48 <=? c) && (c <=? 57))%N.
Definition take_digits (lo hi : nat) (s : str) : option (str * str) :=
  let '(d, r) := span_digits s [] in
  if Nat.leb lo (length d) then
    if Nat.leb (length d) hi then Some (d, r) else Some (firstn hi d, skipn hi d ++ r)
  else None.
Definition numz (d : str) : Z := match digits_val 10 d 0%Z with Some z => z | None => 0%Z end.
Definition leap (y : Z) : bool := ((y mod 4 =? 0) && (negb (y mod 100 =? 0) || (y mod 400 =? 0)))%Z.
Definition days_in (y m : Z) : Z :=
  if (m =? 2)%Z then (if leap y then 29 else 28)%Z else if (m =? 4)%Z || (m =? 6)%Z || (m =? 9)%Z || (m =? 11)%Z then 30%Z else 31%Z.
Definition valid_date (y m d : Z) : bool := ((1 <=? y) && (y <=? 9999) && (1 <=? m) && (m <=? 12) && (1 <=? d) && (d <=? days_in y m))%Z.
Fixpoint skip_ws (s : str) : str := match s with c :: r => if N.eqb c 32 || N.eqb c 9 then skip_ws r else s | [] => [] end.


Inductive tsres := TsNoMatch | TsCrash | TsDate (y m d : Z) | TsDT (y mo d h mi s us : Z) (tz : option Z).
Definition at_end (r : str) : bool := match r with [] => true | [10%N] => true | _ => false end.    (* Python $ *)
Definition next_is_digit (r : str) : bool := match r with c :: _ => is_dig c | [] => false end.

(* tz part after optional blanks: returns (offset seconds, rest, signed) *)
Definition parse_tz (r : str) : option (Z * str * bool) :=
  match r with
  | 90%N :: r1 => Some (0%Z, r1, false)
  | c :: r1 =>
      if N.eqb c 45 || N.eqb c 43 then
        match take_digits 1 2 r1 with
        | Some (th, r2) =>
            let tmr := match r2 with
                       | 58%N :: rr => match take_digits 2 2 rr with
                                       | Some (tm, r4) => if next_is_digit r4 then (0%Z, r2) else (numz tm, r4)
                                       | None => (0%Z, r2) end
                       | _ => (0%Z, r2) end in
            let off := (numz th * 3600 + fst tmr * 60)%Z in
            Some (if N.eqb c 45 then (- off)%Z else off, snd tmr, true)
        | None => None end
      else None
  | [] => None
  end.

Definition parse_time (Y MO D : Z) (r4 : str) : tsres :=
  match take_digits 1 2 r4 with
  | Some (h, 58%N :: r5) =>
    match take_digits 2 2 r5 with
    | Some (mi, 58%N :: r6) =>
      match take_digits 2 2 r6 with
      | Some (s, r7) =>
        if next_is_digit r7 then TsNoMatch else
        let fr := match r7 with 46%N :: r => span_digits r [] | _ => ([], r7) end in
        let frac := fst fr in let r8 := snd fr in
        let us := match frac with [] => 0%Z | _ => numz (firstn 6 (frac ++ [48;48;48;48;48;48]%N)) end in
        let tzr := match parse_tz (skip_ws r8) with
                   | Some (off, r9, sg) => if at_end r9 then (Some off, r9, sg) else (None, r8, false)
                   | None => (None, r8, false) end in
        let tz := fst (fst tzr) in let rest_ := snd (fst tzr) in let signed := snd tzr in
        if negb (at_end rest_) then TsNoMatch else
        let H := numz h in let MI := numz mi in let S_ := numz s in
        if negb (valid_date Y MO D) || (23 <? H)%Z || (59 <? MI)%Z || (59 <? S_)%Z then TsCrash else
        match tz with
        | Some off => if signed && (86400 <=? Z.abs off)%Z then TsCrash else TsDT Y MO D H MI S_ us (Some off)
        | None => TsDT Y MO D H MI S_ us None end
      | None => TsNoMatch end
    | _ => TsNoMatch end
  | _ => TsNoMatch end.

Definition parse_timestamp (v : str) : tsres :=
  match take_digits 4 4 v with
  | Some (y, 45%N :: r1) =>
    if Nat.ltb 4 (length (fst (span_digits v []))) then TsNoMatch else
    match take_digits 1 2 r1 with
    | Some (mo, 45%N :: r2) =>
      match take_digits 1 2 r2 with
      | Some (d, r3) =>
        let Y := numz y in let MO := numz mo in let D := numz d in
        if at_end r3 then (if valid_date Y MO D then TsDate Y MO D else TsCrash) else
        match r3 with
        | 84%N :: r | 116%N :: r => parse_time Y MO D r
        | c :: _ => if N.eqb c 32 || N.eqb c 9 then parse_time Y MO D (skip_ws r3) else TsNoMatch
        | [] => TsNoMatch end
      | None => TsNoMatch end
    | _ => TsNoMatch end
  | _ => TsNoMatch
  end.

(* ---------- base64.decodebytes = binascii.a2b_base64 (non-strict) ---------- *)
Definition b64val (c : cp) : option N :=
  if ((65 <=? c) && (c <=? 90))%N then Some (c - 65)%N else if ((97 <=? c) && (c <=? 122))%N then Some (c - 71)%N
  else if ((48 <=? c) && (c <=? 57))%N then Some (c + 4)%N else if (c =? 43)%N then Some 62%N else if (c =? 47)%N then Some 63%N else None.
Fixpoint a2b (s : str) (quad : nat) (left : N) (pads : nat) (acc : list N) : option (list N) :=
  match s with
  | [] => match quad with O => Some (rev acc) | _ => None end
  | c :: r =>
    if (c =? 61)%N then
      if Nat.leb 2 quad && Nat.leb 4 (quad + S pads) then Some (rev acc)
      else a2b r quad left (if Nat.leb 2 quad then S pads else pads) acc
    else match b64val c with
         | None => a2b r quad left pads acc
         | Some v =>
           match quad with
           | 0 => a2b r 1 v 0 acc
           | 1 => a2b r 2 (v mod 16)%N 0 ((left * 4 + v / 16)%N :: acc)
           | 2 => a2b r 3 (v mod 4)%N 0 ((left * 16 + v / 4)%N :: acc)
           | _ => a2b r 0 0%N 0 ((left * 64 + v)%N :: acc)
           end
         end
  end.

(* ---------- key equality / hashability (dict semantics) ---------- *)
Definition num_q (v : val) : option (Z * Z) :=
  match v with PBool b => Some ((if b then 1 else 0)%Z, 1%Z) | PInt z => Some (z, 1%Z) | PFloat f => f64_to_q f | _ => None end.
Fixpoint list_eqb {A} (eq : A -> A -> bool) (a b : list A) : bool :=
  match a, b with [], [] => true | x :: a1, y :: b1 => eq x y && list_eqb eq a1 b1 | _, _ => false end.
Definition key_eqb (a b : val) : bool :=
  match num_q a, num_q b with
  | Some (p1, q1), Some (p2, q2) => (p1 * q2 =? p2 * q1)%Z
  | _, _ =>
    match a, b with
    | PNone, PNone => true
    | PFloat FNan, PFloat FNan => true                   (* SafeConstructor.nan_value is one object *)
    | PFloat (FInf x), PFloat (FInf y) => Bool.eqb x y
    | PStr x, PStr y => str_eqb x y
    | PBytes x, PBytes y => list_eqb N.eqb x y
    | PDate y1 m1 d1, PDate y2 m2 d2 => ((y1 =? y2) && (m1 =? m2) && (d1 =? d2))%Z
    | PDateTime y1 o1 d1 h1 i1 s1 u1 t1, PDateTime y2 o2 d2 h2 i2 s2 u2 t2 =>
        match t1, t2 with
        | None, None => ((y1 =? y2) && (o1 =? o2) && (d1 =? d2) && (h1 =? h2) && (i1 =? i2) && (s1 =? s2) && (u1 =? u2))%Z
        | Some a1, Some a2 => ((y1 =? y2) && (o1 =? o2) && (d1 =? d2) && (u1 =? u2) && ((h1 * 3600 + i1 * 60 + s1 - a1) =? (h2 * 3600 + i2 * 60 + s2 - a2)))%Z
        | _, _ => false end
    | _, _ => false
    end
  end.
Fixpoint dict_set (k v : val) (d : list (val * val)) : list (val * val) :=
  match d with [] => [(k, v)] | (k1, v1) :: d1 => if key_eqb k k1 then (k1, v) :: d1 else (k1, v1) :: dict_set k v d1 end.
Fixpoint set_add (k : val) (d : list val) : list val :=
  match d with [] => [k] | k1 :: d1 => if key_eqb k k1 then d else k1 :: set_add k d1 end.

(* ---------- constructor (constructor.py) ---------- *)
Inductive gen := GSeq (nid addr : nat) | GMap (nid addr : nat) | GSet (nid addr : nat) | GPairs (nid addr : nat).
Record kst := { nodes : nstore; hp : heap; cache : list (nat * val); recursive : list nat; gens : list gen }.

Definition K (A : Type) := kst -> lres (A * kst).
Definition kret {A} (a : A) : K A := fun s => LOk (a, s).
Definition kbind {A B} (m : K A) (k : A -> K B) : K B :=
  fun s => match m s with LOk (a, s1) => k a s1 | LScan r => LScan r | LComposer c => LComposer c | LConstructor c => LConstructor c
                        | LCrash x => LCrash x | LFuel => LFuel | LUnmodelled => LUnmodelled end.
Notation "x <== m ;; k" := (kbind m (fun x => k)) (at level 61, m at next level, right associativity).
Definition kfail {A} (c : nat) : K A := fun _ => LConstructor c.
Definition kcrash {A} (x : pyx) : K A := fun _ => LCrash x.
Definition kfuel {A} : K A := fun _ => LFuel.
Definition kunmod {A} : K A := fun _ => LUnmodelled.
Definition kget : K kst := fun s => LOk (s, s).
Definition alloc (c : cell) : K nat := fun s => LOk (length (hp s), {| nodes := nodes s; hp := hp s ++ [c]; cache := cache s; recursive := recursive s; gens := gens s |}).
Definition store_cell (a : nat) (c : cell) : K unit := fun s => LOk (tt, {| nodes := nodes s; hp := set_nth a c (hp s); cache := cache s; recursive := recursive s; gens := gens s |}).
Definition set_nodes (n : nstore) : K unit := fun s => LOk (tt, {| nodes := n; hp := hp s; cache := cache s; recursive := recursive s; gens := gens s |}).
Definition add_cache (id : nat) (v : val) : K unit := fun s => LOk (tt, {| nodes := nodes s; hp := hp s; cache := (id, v) :: cache s; recursive := filter (fun x => negb (Nat.eqb x id)) (recursive s); gens := gens s |}).
Definition mark_rec (id : nat) : K unit := fun s => LOk (tt, {| nodes := nodes s; hp := hp s; cache := cache s; recursive := id :: recursive s; gens := gens s |}).
Definition push_gen (g : gen) : K unit := fun s => LOk (tt, {| nodes := nodes s; hp := hp s; cache := cache s; recursive := recursive s; gens := gens s ++ [g] |}).
Definition set_gens (g : list gen) : K unit := fun s => LOk (tt, {| nodes := nodes s; hp := hp s; cache := cache s; recursive := recursive s; gens := g |}).
Fixpoint assoc_id (k : nat) (l : list (nat * val)) : option val :=
  match l with [] => None | (k1, v) :: l1 => if Nat.eqb k k1 then Some v else assoc_id k l1 end.
Definition get_node (id : nat) : K node := fun s => match nth_error (nodes s) id with Some n => LOk (n, s) | None => LCrash XIndexError end.
Definition map_items (n : node) : list (nat * nat) := match n_kind n with NMap l => l | _ => [] end.
Definition retag (n : node) (t : str) : node := {| n_tag := t; n_kind := n_kind n; n_start := n_start n |}.
Definition with_items (n : node) (l : list (nat * nat)) : node := {| n_tag := n_tag n; n_kind := NMap l; n_start := n_start n |}.
Definition update_node (id : nat) (n : node) : K unit := s <== kget ;; set_nodes (set_nth id n (nodes s)).

Definition hashable (v : val) : bool := match v with PRef _ => false | _ => true end.

(* flatten_mapping (constructor.py:180-213) on the node store, in place *)
Fixpoint flatten (fuel : nat) (id : nat) : K unit :=
  match fuel with O => kfuel | S f =>
    (fix loop (fuel1 : nat) (index : nat) (merge : list (nat * nat)) : K unit :=
       match fuel1 with O => kfuel | S f1 =>
         n <== get_node id ;;
         let cur := map_items n in
         match nth_error cur index with
         | None => match merge with [] => kret tt | _ => update_node id (with_items n (merge ++ cur)) end
         | Some (k, v) =>
           kn <== get_node k ;;
           if str_eqb (n_tag kn) t_merge then
             _ <== update_node id (with_items n (firstn index cur ++ skipn (S index) cur)) ;;
             vn <== get_node v ;;
             match n_kind vn with
             | NMap _ => _ <== flatten f v ;; vn1 <== get_node v ;; loop f1 index (merge ++ map_items vn1)
             | NSeq subs =>
                 sub <== (fix each (l : list nat) (acc : list (list (nat * nat))) : K (list (list (nat * nat))) :=
                            match l with
                            | [] => kret acc
                            | x :: l1 => xn <== get_node x ;;
                                         match n_kind xn with
                                         | NMap _ => _ <== flatten f x ;; xn1 <== get_node x ;; each l1 (acc ++ [map_items xn1])
                                         | _ => kfail 1 end
                            end) subs [] ;;
                 loop f1 index (merge ++ concat (rev sub))
             | NScalar _ _ => kfail 2
             end
           else if str_eqb (n_tag kn) t_value then _ <== update_node k (retag kn t_str) ;; loop f1 (S index) merge
           else loop f1 (S index) merge
         end
       end) (f + f) 0 []
  end.

Fixpoint construct_scalar (fuel : nat) (base : bool) (id : nat) : K str :=
  match fuel with O => kfuel | S f =>
    n <== get_node id ;;
    match n_kind n with
    | NScalar v _ => kret v
    | NMap items =>
        if base then kfail 3 else
        (fix find (l : list (nat * nat)) : K str :=
           match l with
           | [] => kfail 3
           | (k, v) :: l1 => kn <== get_node k ;; if str_eqb (n_tag kn) t_value then construct_scalar f base v else find l1
           end) items
    | NSeq _ => kfail 3
    end
  end.

Fixpoint construct_object (fuel : nat) (base : bool) (id : nat) : K val :=
  match fuel with O => kfuel | S f =>
    s <== kget ;;
    match assoc_id id (cache s) with
    | Some v => kret v
    | None =>
      if existsb (Nat.eqb id) (recursive s) then kfail 4 else
      _ <== mark_rec id ;;
      n <== get_node id ;;
      v <== (if base then
              match n_kind n with
              | NScalar v _ => kret (PStr v)
              | NSeq items =>
                  vs <== (fix each (l : list nat) (acc : list val) : K (list val) :=
                            match l with [] => kret acc | x :: l1 => v <== construct_object f base x ;; each l1 (acc ++ [v]) end) items [] ;;
                  a <== alloc (CList vs) ;; kret (PRef a)
              | NMap items =>
                  d <== (fix each (l : list (nat * nat)) (acc : list (val * val)) : K (list (val * val)) :=
                           match l with [] => kret acc
                           | (k, v) :: l1 => kv <== construct_object f base k ;;
                                             if negb (hashable kv) then kfail 5 else
                                             vv <== construct_object f base v ;; each l1 (dict_set kv vv acc) end) items [] ;;
                  a <== alloc (CDict d) ;; kret (PRef a)
              end
            else
            let t := n_tag n in
            if str_eqb t t_null then _ <== construct_scalar f base id ;; kret PNone
            else if str_eqb t t_bool then
              v <== construct_scalar f base id ;;
              match bool_of v with Some b => kret (PBool b) | None => if is_ascii v then kcrash XKeyError else kunmod end
            else if str_eqb t t_int then
              v <== construct_scalar f base id ;;
              match construct_int v with COk z => kret (PInt z) | CCrash x => kcrash x | CUnmod => kunmod end
            else if str_eqb t t_float then
              v <== construct_scalar f base id ;;
              match construct_float v with COk z => kret (PFloat z) | CCrash x => kcrash x | CUnmod => kunmod end
            else if str_eqb t t_binary then
              v <== construct_scalar f base id ;;
              if negb (is_ascii v) then kfail 6 else
              match a2b v 0 0%N 0 [] with Some b => kret (PBytes b) | None => kfail 7 end
            else if str_eqb t t_timestamp then
              v <== construct_scalar f base id ;;
              match n_kind n with
              | NScalar raw _ =>
                  match parse_timestamp raw with
                  | TsNoMatch => kcrash XAttributeError | TsCrash => kcrash XValueError
                  | TsDate y m d => kret (PDate y m d)
                  | TsDT y mo d h mi s us tz => kret (PDateTime y mo d h mi s us tz) end
              | _ => kcrash XTypeError
              end
            else if str_eqb t t_str then v <== construct_scalar f base id ;; kret (PStr v)
            else if str_eqb t t_seq then a <== alloc (CList []) ;; _ <== push_gen (GSeq id a) ;; kret (PRef a)
            else if str_eqb t t_map then a <== alloc (CDict []) ;; _ <== push_gen (GMap id a) ;; kret (PRef a)
            else if str_eqb t t_set then a <== alloc (CSet []) ;; _ <== push_gen (GSet id a) ;; kret (PRef a)
            else if str_eqb t t_omap then a <== alloc (CList []) ;; _ <== push_gen (GPairs id a) ;; kret (PRef a)
            else if str_eqb t t_pairs then a <== alloc (CList []) ;; _ <== push_gen (GPairs id a) ;; kret (PRef a)
            else kfail 8) ;;
      _ <== add_cache id v ;;
      kret v
    end
  end.

Definition construct_mapping (fuel : nat) (id : nat) : K (list (val * val)) :=
  n <== get_node id ;;
  match n_kind n with
  | NMap _ =>
      _ <== flatten fuel id ;;
      n1 <== get_node id ;;
      (fix each (l : list (nat * nat)) (acc : list (val * val)) : K (list (val * val)) :=
         match l with [] => kret acc
         | (k, v) :: l1 => kv <== construct_object fuel false k ;;
                           if negb (hashable kv) then kfail 5 else
                           vv <== construct_object fuel false v ;; each l1 (dict_set kv vv acc) end) (map_items n1) []
  | _ => kfail 9
  end.

Definition run_gen (fuel : nat) (g : gen) : K unit :=
  match g with
  | GSeq id a =>
      n <== get_node id ;;
      match n_kind n with
      | NSeq items =>
          vs <== (fix each (l : list nat) (acc : list val) : K (list val) :=
                    match l with [] => kret acc | x :: l1 => v <== construct_object fuel false x ;; each l1 (acc ++ [v]) end) items [] ;;
          store_cell a (CList vs)
      | _ => kfail 10 end
  | GMap id a => d <== construct_mapping fuel id ;; store_cell a (CDict d)
  | GSet id a => d <== construct_mapping fuel id ;; store_cell a (CSet (fold_left (fun acc kv => set_add (fst kv) acc) d []))
  | GPairs id a =>
      n <== get_node id ;;
      match n_kind n with
      | NSeq items =>
          (fix each (l : list nat) (acc : list val) : K unit :=
             match l with
             | [] => kret tt
             | x :: l1 =>
                 xn <== get_node x ;;
                 match n_kind xn with
                 | NMap [(k, v)] =>
                     kv <== construct_object fuel false k ;; vv <== construct_object fuel false v ;;
                     t <== alloc (CTuple kv vv) ;;
                     _ <== store_cell a (CList (acc ++ [PRef t])) ;;
                     each l1 (acc ++ [PRef t])
                 | NMap _ => kfail 11
                 | _ => kfail 12 end
             end) items []
      | _ => kfail 13 end
  end.

Fixpoint drain (fuel : nat) : K unit :=
  match fuel with O => kfuel | S f =>
    s <== kget ;;
    match gens s with
    | [] => kret tt
    | g :: gs => _ <== set_gens gs ;; _ <== run_gen (S (length (nodes s)) * 4 + 8) g ;; drain f
    end
  end.

Definition doc_result := (val * heap)%type.
Definition lift_err {A} (acc : list doc_result) (r : lres A) : list doc_result * lres unit :=
  match r with LOk _ => (acc, LOk tt) | LScan x => (acc, LScan x) | LComposer c => (acc, LComposer c) | LConstructor c => (acc, LConstructor c)
             | LCrash x => (acc, LCrash x) | LFuel => (acc, LFuel) | LUnmodelled => (acc, LUnmodelled) end.

Fixpoint docs_loop (fuel : nat) (base : bool) (evs_ : list event) (acc : list doc_result) : list doc_result * lres unit :=
  match fuel with O => (acc, LFuel) | S f =>
    match evs_ with
    | e :: rest_ =>
      match e_kind e with
      | VStreamStart => docs_loop f base rest_ acc
      | VStreamEnd => (acc, LOk tt)
      | VDocStart _ _ _ =>
          match compose_node (S (length evs_)) base {| evs := rest_; store := []; anchors := [] |} with
          | LOk (root, cs) =>
              match evs cs with [] => (acc, LScan OutOfFuel) | _ =>
              let k0 := {| nodes := store cs; hp := []; cache := []; recursive := []; gens := [] |} in
              let fuel2 := S (length (store cs)) * 4 + 8 in
              match (v <== construct_object fuel2 base root ;; _ <== drain (S (length (store cs)) * 2) ;; kret v) k0 with
              | LOk (v, k1) => docs_loop f base (tl (evs cs)) (acc ++ [(v, hp k1)])
              | r => lift_err acc r
              end end
          | r => lift_err acc r
          end
      | _ => (acc, LScan OutOfFuel)
      end
    | [] => (acc, LOk tt)
    end
  end.

(* yaml.load_all(text, SafeLoader | BaseLoader): parse eagerly here (laziness is not observable for in-memory str) *)
Definition load_all (base : bool) (text : str) : list doc_result * lres unit :=
  match parse_all text with
  | (evs_, Ok _) => docs_loop (S (length evs_)) base evs_ []
  | (evs_, r) =>
      (* documents completed before the scanner/parser error are still delivered *)
      match docs_loop (S (length evs_)) base evs_ [] with
      | (acc, LOk _) => (acc, LScan r)
      | (acc, LScan OutOfFuel) => (acc, LScan r)      (* ran out of events inside a document (marker: docs_loop never scans) *)
      | other => other
      end
  end.

