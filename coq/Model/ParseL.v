(* Spike: executable model of lib/yaml/parser.py over the token stream of Scan.v.
   The token source is the lazy scanner itself (check_token/peek_token/get_token run `fill`). *)
From Coq Require Import List NArith ZArith Bool Arith Lia.
Import ListNotations.
Require Import Scan.

Inductive ev :=
| VStreamStart | VStreamEnd
| VDocStart (explicit : bool) (version : option (N * N)) (tags : list (str * str))
| VDocEnd (explicit : bool)
| VAlias (a : str)
| VScalar (anchor : option str) (tag : option str) (i0 i1 : bool) (v : str) (st : style)
| VSeqStart (anchor : option str) (tag : option str) (implicit : bool) (flow : bool)
| VSeqEnd
| VMapStart (anchor : option str) (tag : option str) (implicit : bool) (flow : bool)
| VMapEnd.
Record event := { e_kind : ev; e_start : mark; e_end : mark }.

Inductive pstate :=
| PStreamStart | PImplicitDocStart | PDocStart | PDocEnd | PDocContent
| PBlockNode | PBlockSeqFirst | PBlockSeqEntry | PIndentlessSeqEntry
| PBlockMapFirstKey | PBlockMapKey | PBlockMapValue
| PFlowSeqFirst | PFlowSeqEntry | PFlowSeqEntryMapKey | PFlowSeqEntryMapValue | PFlowSeqEntryMapEnd
| PFlowMapFirstKey | PFlowMapKey | PFlowMapValue | PFlowMapEmptyValue.

Record pst := { toks : list token; pstate_ : option pstate; pstates : list pstate; pmarks : list mark;
                handles : list (str * str); version_ : option (N * N) }.

(* parser errors reuse the scanner's res type: code >= 100 means ParserError *)
Definition P (A : Type) := pst -> res (A * pst).
Definition pret {A} (a : A) : P A := fun s => Ok (a, s).
Definition pbind {A B} (m : P A) (k : A -> P B) : P B :=
  fun s => match m s with Ok (a, s') => k a s' | ScanErr c e p => ScanErr c e p | Crash e => Crash e | OutOfFuel => OutOfFuel end.
Notation "x <~ m ;; k" := (pbind m (fun x => k)) (at level 61, m at next level, right associativity).
Notation "m ;;~ k" := (pbind m (fun _ => k)) (at level 61, right associativity).
Definition pget : P pst := fun s => Ok (s, s).
Definition perr {A} (ctx : option mark) (code : nat) (m : mark) : P A := fun _ => ScanErr ctx (100 + code) m.
Definition pcrash {A} : P A := fun _ => Crash IndexError.
Definition set_ps (x : option pstate) : P unit := fun s => Ok (tt, {| toks := toks s; pstate_ := x; pstates := pstates s; pmarks := pmarks s; handles := handles s; version_ := version_ s |}).
Definition push_ps (x : pstate) : P unit := fun s => Ok (tt, {| toks := toks s; pstate_ := pstate_ s; pstates := pstates s ++ [x]; pmarks := pmarks s; handles := handles s; version_ := version_ s |}).
Definition pop_ps : P unit := fun s =>
  match rev (pstates s) with [] => Crash IndexError
  | x :: r => Ok (tt, {| toks := toks s; pstate_ := Some x; pstates := rev r; pmarks := pmarks s; handles := handles s; version_ := version_ s |}) end.
Definition push_mark (m : mark) : P unit := fun s => Ok (tt, {| toks := toks s; pstate_ := pstate_ s; pstates := pstates s; pmarks := pmarks s ++ [m]; handles := handles s; version_ := version_ s |}).
Definition pop_mark : P unit := fun s =>
  match rev (pmarks s) with [] => Crash IndexError
  | _ :: r => Ok (tt, {| toks := toks s; pstate_ := pstate_ s; pstates := pstates s; pmarks := rev r; handles := handles s; version_ := version_ s |}) end.
Definition top_mark : P mark := fun s => match rev (pmarks s) with [] => Crash IndexError | m :: _ => Ok (m, s) end.
Definition set_handles (h : list (str * str)) (v : option (N * N)) : P unit :=
  fun s => Ok (tt, {| toks := toks s; pstate_ := pstate_ s; pstates := pstates s; pmarks := pmarks s; handles := h; version_ := v |}).

Definition peek_token : P (option token) := fun s => Ok (hd_error (toks s), s).
Definition get_token : P (option token) := fun s =>
  match toks s with
  | [] => Ok (None, s)
  | t :: ts => Ok (Some t, {| toks := ts; pstate_ := pstate_ s; pstates := pstates s; pmarks := pmarks s; handles := handles s; version_ := version_ s |})
  end.
(* peek that must exist (None.start_mark would be AttributeError) *)
Definition peek_tok : P token := t <~ peek_token ;; match t with Some t => pret t | None => pcrash end.
Definition get_tok : P token := t <~ get_token ;; match t with Some t => pret t | None => pcrash end.
Definition check (p : tok -> bool) : P bool := t <~ peek_token ;; pret (match t with Some t => p (t_kind t) | None => false end).

Definition is_alias k := match k with TAlias _ => true | _ => false end.
Definition is_anchor k := match k with TAnchor _ => true | _ => false end.
Definition is_tag k := match k with TTag _ _ => true | _ => false end.
Definition is_scalar k := match k with TScalar _ _ _ => true | _ => false end.
Definition is_directive k := match k with TDirective _ _ => true | _ => false end.
Definition is_ k1 k := match k1, k with
  | TStreamEnd, TStreamEnd | TDocStart, TDocStart | TDocEnd, TDocEnd | TBlockSeqStart, TBlockSeqStart
  | TBlockMapStart, TBlockMapStart | TBlockEnd, TBlockEnd | TFlowSeqStart, TFlowSeqStart | TFlowMapStart, TFlowMapStart
  | TFlowSeqEnd, TFlowSeqEnd | TFlowMapEnd, TFlowMapEnd | TBlockEntry, TBlockEntry | TFlowEntry, TFlowEntry
  | TKey, TKey | TValue, TValue => true | _, _ => false end.
Definition any_of (l : list tok) k := existsb (fun k1 => is_ k1 k) l.

Definition mk (k : ev) (a b : mark) : event := {| e_kind := k; e_start := a; e_end := b |}.
Definition empty_scalar (m : mark) : event := mk (VScalar None None true false [] SPlain) m m.

Definition default_tags : list (str * str) :=
  [([33%N], [33%N]); ([33;33]%N, [116;97;103;58;121;97;109;108;46;111;114;103;44;50;48;48;50;58]%N)].
Fixpoint assoc (k : str) (l : list (str * str)) : option str :=
  match l with [] => None | (k', v) :: l' => if str_eqb k k' then Some v else assoc k l' end.

(* process_directives (parser.py:217-246) *)
Fixpoint directives_loop (fuel : nat) (ver : option (N * N)) (hs : list (str * str)) : P (option (N * N) * list (str * str)) :=
  match fuel with O => fun _ => OutOfFuel | S f =>
    b <~ check is_directive ;;
    if b then
      t <~ get_tok ;;
      match t_kind t with
      | TDirective name (DYaml ma mi) =>
          match ver with
          | Some _ => perr None 1 (t_start t)
          | None => if negb (N.eqb ma 1%N) then perr None 2 (t_start t) else directives_loop f (Some (ma, mi)) hs
          end
      | TDirective name (DTag h p) =>
          match assoc h hs with Some _ => perr None 3 (t_start t) | None => directives_loop f ver (hs ++ [(h, p)]) end
      | _ => directives_loop f ver hs
      end
    else pret (ver, hs)
  end.
Definition process_directives : P (option (N * N) * list (str * str)) :=
  s <~ pget ;;
  r <~ directives_loop (S (S (length (toks s)))) None [] ;;
  let '(ver, hs) := r in
  let full := fold_left (fun acc kv => match assoc (fst kv) acc with Some _ => acc | None => acc ++ [kv] end) default_tags hs in
  set_handles full ver ;;~ pret (ver, hs).

(* parse_node (parser.py:273-372) *)
Definition parse_node (block indentless : bool) : P event :=
  al <~ check is_alias ;;
  if al then
    t <~ get_tok ;; pop_ps ;;~
    pret (mk (match t_kind t with TAlias v => VAlias v | _ => VAlias [] end) (t_start t) (t_end t))
  else
    (* properties *)
    an <~ check is_anchor ;;
    r <~ (if an then
            t <~ get_tok ;;
            let a := match t_kind t with TAnchor v => Some v | _ => None end in
            tg <~ check is_tag ;;
            if tg then t2 <~ get_tok ;; pret (a, Some t2, Some (t_start t), Some (t_end t2), Some (t_start t2))
            else pret (a, None, Some (t_start t), Some (t_end t), None)
          else
            tg <~ check is_tag ;;
            if tg then
              t <~ get_tok ;;
              an2 <~ check is_anchor ;;
              if an2 then t2 <~ get_tok ;; pret (match t_kind t2 with TAnchor v => Some v | _ => None end, Some t, Some (t_start t), Some (t_end t2), Some (t_start t))
              else pret (None, Some t, Some (t_start t), Some (t_end t), Some (t_start t))
            else pret (None, None, None, None, None)) ;;
    let '(anchor, tagtok, smark, emark, tmark) := r in
    s <~ pget ;;
    tag <~ (match tagtok with
            | None => pret None
            | Some t =>
                match t_kind t with
                | TTag (Some h) suffix =>
                    match assoc h (handles s) with
                    | Some p => pret (Some (p ++ suffix))
                    | None => perr smark 4 (match tmark with Some m => m | None => t_start t end)
                    end
                | TTag None suffix => pret (Some suffix)
                | _ => pret None
                end
            end) ;;
    nxt <~ (match smark with None => t <~ peek_tok ;; pret (Some (t_start t)) | Some _ => pret None end) ;;
    let start := match smark, nxt with Some m, _ => m | None, Some m => m | None, None => {| m_index := 0; m_line := 0; m_col := 0 |} end in
    let endm := match emark with Some m => m | None => start end in
    let implicit := match tag with None => true | Some t => str_eqb t [33%N] end in
    ble <~ (if indentless then check (is_ TBlockEntry) else pret false) ;;
    if ble then
      t <~ peek_tok ;; set_ps (Some PIndentlessSeqEntry) ;;~
      pret (mk (VSeqStart anchor tag implicit false) start (t_end t))      (* flow_style left None *)
    else
      sc_ <~ check is_scalar ;;
      if sc_ then
        t <~ get_tok ;; pop_ps ;;~
        match t_kind t with
        | TScalar v plain st_ =>
            let bang := match tag with Some tg => str_eqb tg [33%N] | None => false end in
            let tnone := match tag with None => true | _ => false end in
            let '(i0, i1) := if (plain && tnone) || bang then (true, false) else if tnone then (false, true) else (false, false) in
            pret (mk (VScalar anchor tag i0 i1 v st_) start (t_end t))
        | _ => pcrash end
      else
      fs <~ check (is_ TFlowSeqStart) ;;
      if fs then t <~ peek_tok ;; set_ps (Some PFlowSeqFirst) ;;~ pret (mk (VSeqStart anchor tag implicit true) start (t_end t)) else
      fm <~ check (is_ TFlowMapStart) ;;
      if fm then t <~ peek_tok ;; set_ps (Some PFlowMapFirstKey) ;;~ pret (mk (VMapStart anchor tag implicit true) start (t_end t)) else
      bs <~ (if block then check (is_ TBlockSeqStart) else pret false) ;;
      if bs then t <~ peek_tok ;; set_ps (Some PBlockSeqFirst) ;;~ pret (mk (VSeqStart anchor tag implicit false) start (t_start t)) else
      bm <~ (if block then check (is_ TBlockMapStart) else pret false) ;;
      if bm then t <~ peek_tok ;; set_ps (Some PBlockMapFirstKey) ;;~ pret (mk (VMapStart anchor tag implicit false) start (t_start t)) else
      match anchor, tag with
      | None, None => t <~ peek_tok ;; perr (Some start) (if block then 5 else 6) (t_start t)
      | _, _ => pop_ps ;;~ pret (mk (VScalar anchor tag implicit false [] SPlain) start endm)
      end.

Definition parse_document_start : P event :=
  (* skip extra document end indicators *)
  s <~ pget ;;
  (fix skip (fuel : nat) : P unit := match fuel with O => fun _ => OutOfFuel | S f =>
      b <~ check (is_ TDocEnd) ;; if b then get_tok ;;~ skip f else pret tt end) (S (S (length (toks s)))) ;;~
  se <~ check (is_ TStreamEnd) ;;
  if negb se then
    t <~ peek_tok ;;
    let start := t_start t in
    vt <~ process_directives ;;
    ds <~ check (is_ TDocStart) ;;
    if negb ds then t2 <~ peek_tok ;; perr None 7 (t_start t2) else
    t3 <~ get_tok ;;
    push_ps PDocEnd ;;~ set_ps (Some PDocContent) ;;~
    pret (mk (VDocStart true (fst vt) (snd vt)) start (t_end t3))
  else
    t <~ get_tok ;;
    s <~ pget ;;
    match pstates s, pmarks s with
    | [], [] => set_ps None ;;~ pret (mk VStreamEnd (t_start t) (t_end t))
    | _, _ => fun _ => Crash ValueError            (* AssertionError *)
    end.

Definition step : P (option event) :=
  s <~ pget ;;
  match pstate_ s with
  | None => pret None
  | Some ps =>
    e <~ (match ps with
    | PStreamStart =>
        t <~ get_tok ;;
        match t_kind t with
        | TStreamStart => set_ps (Some PImplicitDocStart) ;;~ pret (mk VStreamStart (t_start t) (t_end t))
        | _ => pcrash                     (* token.encoding: AttributeError on any other token class *)
        end
    | PImplicitDocStart =>
        b <~ check (fun k => is_directive k || any_of [TDocStart; TStreamEnd] k) ;;
        if negb b then
          set_handles default_tags (version_ s) ;;~
          t <~ peek_tok ;; push_ps PDocEnd ;;~ set_ps (Some PBlockNode) ;;~
          pret (mk (VDocStart false None []) (t_start t) (t_start t))
        else parse_document_start
    | PDocStart => parse_document_start
    | PDocEnd =>
        t <~ peek_tok ;;
        b <~ check (is_ TDocEnd) ;;
        r <~ (if b then t2 <~ get_tok ;; pret (t_end t2, true) else pret (t_start t, false)) ;;
        set_ps (Some PDocStart) ;;~ pret (mk (VDocEnd (snd r)) (t_start t) (fst r))
    | PDocContent =>
        b <~ check (fun k => is_directive k || any_of [TDocStart; TDocEnd; TStreamEnd] k) ;;
        if b then t <~ peek_tok ;; pop_ps ;;~ pret (empty_scalar (t_start t)) else parse_node true false
    | PBlockNode => parse_node true false
    | PBlockSeqFirst | PBlockSeqEntry =>
        (match ps with PBlockSeqFirst => t <~ get_tok ;; push_mark (t_start t) | _ => pret tt end) ;;~
        be <~ check (is_ TBlockEntry) ;;
        if be then
          t <~ get_tok ;;
          b2 <~ check (any_of [TBlockEntry; TBlockEnd]) ;;
          if negb b2 then push_ps PBlockSeqEntry ;;~ parse_node true false
          else set_ps (Some PBlockSeqEntry) ;;~ pret (empty_scalar (t_end t))
        else
          bend <~ check (is_ TBlockEnd) ;;
          if negb bend then t <~ peek_tok ;; m <~ top_mark ;; perr (Some m) 8 (t_start t) else
          t <~ get_tok ;; pop_ps ;;~ pop_mark ;;~ pret (mk VSeqEnd (t_start t) (t_end t))
    | PIndentlessSeqEntry =>
        be <~ check (is_ TBlockEntry) ;;
        if be then
          t <~ get_tok ;;
          b2 <~ check (any_of [TBlockEntry; TKey; TValue; TBlockEnd]) ;;
          if negb b2 then push_ps PIndentlessSeqEntry ;;~ parse_node true false
          else set_ps (Some PIndentlessSeqEntry) ;;~ pret (empty_scalar (t_end t))
        else t <~ peek_tok ;; pop_ps ;;~ pret (mk VSeqEnd (t_start t) (t_start t))
    | PBlockMapFirstKey | PBlockMapKey =>
        (match ps with PBlockMapFirstKey => t <~ get_tok ;; push_mark (t_start t) | _ => pret tt end) ;;~
        k <~ check (is_ TKey) ;;
        if k then
          t <~ get_tok ;;
          b2 <~ check (any_of [TKey; TValue; TBlockEnd]) ;;
          if negb b2 then push_ps PBlockMapValue ;;~ parse_node true true
          else set_ps (Some PBlockMapValue) ;;~ pret (empty_scalar (t_end t))
        else
          bend <~ check (is_ TBlockEnd) ;;
          if negb bend then t <~ peek_tok ;; m <~ top_mark ;; perr (Some m) 9 (t_start t) else
          t <~ get_tok ;; pop_ps ;;~ pop_mark ;;~ pret (mk VMapEnd (t_start t) (t_end t))
    | PBlockMapValue =>
        v <~ check (is_ TValue) ;;
        if v then
          t <~ get_tok ;;
          b2 <~ check (any_of [TKey; TValue; TBlockEnd]) ;;
          if negb b2 then push_ps PBlockMapKey ;;~ parse_node true true
          else set_ps (Some PBlockMapKey) ;;~ pret (empty_scalar (t_end t))
        else set_ps (Some PBlockMapKey) ;;~ t <~ peek_tok ;; pret (empty_scalar (t_start t))
    | PFlowSeqFirst | PFlowSeqEntry =>
        let first := match ps with PFlowSeqFirst => true | _ => false end in
        (if first then t <~ get_tok ;; push_mark (t_start t) else pret tt) ;;~
        fe <~ check (is_ TFlowSeqEnd) ;;
        r <~ (if negb fe then
                (if negb first then
                   c <~ check (is_ TFlowEntry) ;;
                   if c then get_tok ;;~ pret tt else t <~ peek_tok ;; m <~ top_mark ;; perr (Some m) 10 (t_start t)
                 else pret tt) ;;~
                k <~ check (is_ TKey) ;;
                if k then
                  t <~ peek_tok ;; set_ps (Some PFlowSeqEntryMapKey) ;;~
                  pret (Some (mk (VMapStart None None true true) (t_start t) (t_end t)))
                else
                  fe2 <~ check (is_ TFlowSeqEnd) ;;
                  if negb fe2 then push_ps PFlowSeqEntry ;;~ e <~ parse_node false false ;; pret (Some e)
                  else pret None
              else pret None) ;;
        (match r with
         | Some e => pret e
         | None => t <~ get_tok ;; pop_ps ;;~ pop_mark ;;~ pret (mk VSeqEnd (t_start t) (t_end t)) end)
    | PFlowSeqEntryMapKey =>
        t <~ get_tok ;;
        b2 <~ check (any_of [TValue; TFlowEntry; TFlowSeqEnd]) ;;
        if negb b2 then push_ps PFlowSeqEntryMapValue ;;~ parse_node false false
        else set_ps (Some PFlowSeqEntryMapValue) ;;~ pret (empty_scalar (t_end t))
    | PFlowSeqEntryMapValue =>
        v <~ check (is_ TValue) ;;
        if v then
          t <~ get_tok ;;
          b2 <~ check (any_of [TFlowEntry; TFlowSeqEnd]) ;;
          if negb b2 then push_ps PFlowSeqEntryMapEnd ;;~ parse_node false false
          else set_ps (Some PFlowSeqEntryMapEnd) ;;~ pret (empty_scalar (t_end t))
        else set_ps (Some PFlowSeqEntryMapEnd) ;;~ t <~ peek_tok ;; pret (empty_scalar (t_start t))
    | PFlowSeqEntryMapEnd =>
        set_ps (Some PFlowSeqEntry) ;;~ t <~ peek_tok ;; pret (mk VMapEnd (t_start t) (t_start t))
    | PFlowMapFirstKey | PFlowMapKey =>
        let first := match ps with PFlowMapFirstKey => true | _ => false end in
        (if first then t <~ get_tok ;; push_mark (t_start t) else pret tt) ;;~
        fe <~ check (is_ TFlowMapEnd) ;;
        r <~ (if negb fe then
                (if negb first then
                   c <~ check (is_ TFlowEntry) ;;
                   if c then get_tok ;;~ pret tt else t <~ peek_tok ;; m <~ top_mark ;; perr (Some m) 11 (t_start t)
                 else pret tt) ;;~
                k <~ check (is_ TKey) ;;
                if k then
                  t <~ get_tok ;;
                  b2 <~ check (any_of [TValue; TFlowEntry; TFlowMapEnd]) ;;
                  if negb b2 then push_ps PFlowMapValue ;;~ e <~ parse_node false false ;; pret (Some e)
                  else set_ps (Some PFlowMapValue) ;;~ pret (Some (empty_scalar (t_end t)))
                else
                  fe2 <~ check (is_ TFlowMapEnd) ;;
                  if negb fe2 then push_ps PFlowMapEmptyValue ;;~ e <~ parse_node false false ;; pret (Some e)
                  else pret None
              else pret None) ;;
        (match r with
         | Some e => pret e
         | None => t <~ get_tok ;; pop_ps ;;~ pop_mark ;;~ pret (mk VMapEnd (t_start t) (t_end t)) end)
    | PFlowMapValue =>
        v <~ check (is_ TValue) ;;
        if v then
          t <~ get_tok ;;
          b2 <~ check (any_of [TFlowEntry; TFlowMapEnd]) ;;
          if negb b2 then push_ps PFlowMapKey ;;~ parse_node false false
          else set_ps (Some PFlowMapKey) ;;~ pret (empty_scalar (t_end t))
        else set_ps (Some PFlowMapKey) ;;~ t <~ peek_tok ;; pret (empty_scalar (t_start t))
    | PFlowMapEmptyValue =>
        set_ps (Some PFlowMapKey) ;;~ t <~ peek_tok ;; pret (empty_scalar (t_start t))
    end) ;;
    pret (Some e)
  end.

Fixpoint parse_loop (fuel : nat) (acc : list event) (s : pst) : list event * res unit :=
  match fuel with O => (acc, OutOfFuel) | S f =>
    match step s with
    | Ok (Some e, s') => parse_loop f (acc ++ [e]) s'
    | Ok (None, _) => (acc, Ok tt)
    | ScanErr c e p => (acc, ScanErr c e p) | Crash e => (acc, Crash e) | OutOfFuel => (acc, OutOfFuel)
    end
  end.
Definition pinit (ts : list token) : pst :=
  {| toks := ts; pstate_ := Some PStreamStart; pstates := []; pmarks := []; handles := []; version_ := None |}.
(* fuel: Proofs/ParserTerm.v shows that 8 per token (+16) is never exhausted on a well-delimited token list *)
Definition parse_all (ts : list token) : list event * res unit := parse_loop (8 * length ts + 16) [] (pinit ts).
