(* Call-graph model for the confinement theorems (C01, C04): methods of the constructor classes with their call sites
   (regenerated: Gen/GenCalls.v), resolved along the MRO of a loader class (Gen/GenHistory.v), closed under calls. *)
From Coq Require Import List String Ascii Bool Arith.
Import ListNotations.
Require Import Registry.
Open Scope string_scope.

Inductive ckind := CSelf | CSuper | CGlob | CAttr | CMeth | CDyn | CDispatch.
Record call := { c_kind : ckind; c_name : string; c_obj : string; c_guarded : bool; c_unsafe_kw : bool }.
Definition mtable := list (string * string * list call).

Fixpoint find_method (t : mtable) (c m : string) : option (list call) :=
  match t with [] => None | (c1, m1, cs) :: r => if String.eqb c c1 && String.eqb m m1 then Some cs else find_method r c m end.
(* attribute lookup along a linearisation *)
Fixpoint resolve (t : mtable) (mro : list string) (m : string) : option string :=
  match mro with [] => None | c :: r => match find_method t c m with Some _ => Some c | None => resolve t r m end end.
Fixpoint after (c : string) (mro : list string) : list string :=
  match mro with [] => [] | x :: r => if String.eqb x c then r else after c r end.

Definition qname (c m : string) : string := c ++ "." ++ m.
Fixpoint in_s (x : string) (l : list string) : bool := match l with [] => false | y :: r => String.eqb x y || in_s x r end.
Fixpoint split_q (s : string) (acc : string) : string * string :=        (* "Class.meth" -> (Class, meth) *)
  match s with
  | EmptyString => (acc, "")
  | String "."%char r => (acc, r)
  | String ch r => split_q r (acc ++ String ch "")
  end.

(* one expansion step: the qualified methods a qualified method may transfer control to, and its leaf calls.
   `unsafe` = whether call sites guarded by `if unsafe:` are live *)
Definition targets (t : mtable) (mro : list string) (dispatch : list string) (unsafe : bool) (q : string) : list string * list call :=
  let '(c, m) := split_q q "" in
  match find_method t c m with
  | None => ([], [{| c_kind := CDyn; c_name := q; c_obj := "unresolved"; c_guarded := false; c_unsafe_kw := false |}])
  | Some cs =>
      fold_right (fun x acc =>
        let '(qs, leaves) := acc in
        if c_guarded x && negb unsafe then acc else
        match c_kind x with
        | CSelf => match resolve t mro (c_name x) with Some d => (qname d (c_name x) :: qs, if c_unsafe_kw x then x :: leaves else leaves) | None => (qs, x :: leaves) end
        | CSuper => match resolve t (after (c_obj x) mro) (c_name x) with Some d => (qname d (c_name x) :: qs, if c_unsafe_kw x then x :: leaves else leaves) | None => (qs, x :: leaves) end
        | CDispatch => ((dispatch ++ qs)%list, leaves)
        | _ => (qs, x :: leaves)
        end) ([], []) cs
  end.

Fixpoint closure (fuel : nat) (t : mtable) (mro : list string) (dispatch : list string) (unsafe : bool)
                 (todo seen : list string) (leaves : list (string * call)) : option (list string * list (string * call)) :=
  match fuel with O => None | S f =>
    match todo with
    | [] => Some (seen, leaves)
    | q :: r =>
        if in_s q seen then closure f t mro dispatch unsafe r seen leaves
        else let '(qs, ls) := targets t mro dispatch unsafe q in
             closure f t mro dispatch unsafe (qs ++ r)%list (q :: seen) (map (pair q) ls ++ leaves)%list
    end
  end.

(* the qualified methods construct_object can dispatch to for a loader class: every value of its effective exact and
   multi tables plus the three kind defaults resolved along its MRO *)
Definition dispatch_targets (w : world) (t : mtable) (c : cls) : list string :=
  let vals := fun k => List.concat (map snd (effective w c k)) in
  (vals KCtor ++ vals KMultiCtor ++
   flat_map (fun m => match resolve t (mro_of w c) m with Some d => [qname d m] | None => [] end)
            ["construct_scalar"; "construct_sequence"; "construct_mapping"])%list.

Definition roots (w : world) (t : mtable) (c : cls) : list string :=
  flat_map (fun m => match resolve t (mro_of w c) m with Some d => [qname d m] | None => [] end)
           ["get_single_data"; "get_data"; "check_data"; "construct_document"; "construct_object"].

Definition reach (w : world) (t : mtable) (c : cls) (unsafe : bool) :=
  closure 2000 t (mro_of w c) (dispatch_targets w t c) unsafe (roots w t c) [] [].
