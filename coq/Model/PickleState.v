(* C17: how the state of a reduce tuple is applied to the rebuilt instance (the BUILD step).
   pickle protocol 2 as CPython 3.12 implements it (_pickle.c load_build);  YAML: FullConstructor.set_python_instance_state (constructor.py:595-613).
   A state is a dictionary, or a pair (dictionary or None, slot dictionary) - copyreg produces (None, slots) for an instance whose __dict__ is empty
   or missing; an instance may define __setstate__ and may or may not have a __dict__. *)
From Coq Require Import List Bool.
Import ListNotations.

Inductive dpart := DNone | DEmpty | DFull.
Inductive sshape := SDict (nonempty : bool) | SPair (d : dpart) (slots_nonempty : bool).
Record inst := { has_setstate : bool; has_dict : bool }.
(* what is observable: __setstate__(state) called / entries written into instance.__dict__ directly / setattr(instance, k, v) called / AttributeError *)
Inductive aop := CallSetstate | DictUpdate | SetAttrs | AttrError.

Definition dict_part (s : sshape) : dpart := match s with SDict true => DFull | SDict false => DEmpty | SPair d _ => d end.
Definition slot_part (s : sshape) : bool := match s with SDict _ => false | SPair _ sl => sl end.
Definition is_full (d : dpart) : bool := match d with DFull => true | _ => false end.
Definition is_none (d : dpart) : bool := match d with DNone => true | _ => false end.

(* pickle: __setstate__ if there is one; else, when the dictionary part is not None, inst.__dict__ is fetched (AttributeError without one) and filled;
   then setattr for every item of the slot state *)
Definition pickle_apply (i : inst) (s : sshape) : list aop :=
  if has_setstate i then [CallSetstate] else
  if negb (is_none (dict_part s)) && negb (has_dict i) then [AttrError] else
  (if is_full (dict_part s) then [DictUpdate] else []) ++ (if slot_part s then [SetAttrs] else []).

(* YAML: __setstate__ if there is one; else with a __dict__ a non-empty dictionary part is written into it; without one it joins the slot state;
   then setattr for every slot-state item *)
Definition yaml_apply (i : inst) (s : sshape) : list aop :=
  if has_setstate i then [CallSetstate] else
  (if has_dict i && is_full (dict_part s) then [DictUpdate] else []) ++
  (if slot_part s || (negb (has_dict i) && is_full (dict_part s)) then [SetAttrs] else []).
